(* BC/MatchesPatch.v — C10 at the MatchesNode: a visitor that replaces the pattern operand of
   `l matches "lit"` takes effect in what is compiled and evaluated.

   The parser compiles a literal pattern ahead of time into MatchesNode.Regexp (the `re` field of
   Ast.EMatches).  ast.Walk / ast.Patch replace the Right slot and leave the Regexp field alone
   (Walk.set_children keeps `re`), so after a replacement the field is STALE.  The repaired
   compiler (and the reference semantics) use the field only through Ast.re_const, i.e. only while
   the right operand still is the literal the field was compiled from.  Proved here, for all trees,
   replacements, environments and states:

     matches_patch_value      the reference value of the patched node is that of `l matches r'`
                              with no Regexp field at all (the dynamic reading);
     matches_patch_code       whenever r' is not that very literal again, the compiled code of the
                              patched node IS the code of `l matches r'` without the field;
     matches_patch_run        running the compiled patched node on the model VM yields the reference
                              value of `l matches r'` without the field (every r', through compile_correct);
     matches_walker_rebuild   the same for the node as the walker rebuilds it (Walk.set_children).

   History (finding fixed in compiler/compiler.go: `fix:` MatchesNode looks at the right operand
   again): the OLD rule `if node.Regexp != nil` is kept below as old_matches_code; on the witness
   "abc" matches "^a" with the literal patched to "^z" it evaluated to true. *)
From Coq Require Import ZArith Bool List String Lia.
Require Import X.Base.Num X.Base.Value X.Syn.Ast X.Sem.Prim X.Sem.Sem X.Sem.MatchesFacts
               X.BC.Instr X.BC.Compiler X.BC.VM X.BC.CompileProofs X.BC.RunProofs X.Walk.Walk.
Import ListNotations.
Local Open Scope string_scope.
Local Open Scope list_scope.

Section Patch.
Variable fe : fenv.
Variable cfg : config.
Variable env : value.

(* reference value: the Regexp field never matters, whatever stands in the right slot *)
Lemma matches_patch_value ctx a p l b r' s :
  eval fe cfg env ctx (set_children (EMatches a (Some p) l (EStr b p)) [l; r']) s =
  eval fe cfg env ctx (EMatches a None l r') s.
Proof. cbn [set_children hd_or tl]. apply eval_matches_field_irrelevant. Qed.

(* compiled code: the stale field is not used unless r' is the literal p itself *)
Lemma matches_patch_code mapenv a p l b r' :
  re_const (Some p) r' = None ->
  compile mapenv (set_children (EMatches a (Some p) l (EStr b p)) [l; r']) =
  compile mapenv (EMatches a None l r').
Proof. intros H. cbn [set_children hd_or tl compile]. rewrite H. reflexivity. Qed.

(* ... and that side condition holds for every replacement other than the literal p *)
Lemma matches_patch_side_condition p r' :
  re_const (Some p) r' = None <-> (forall b, r' <> EStr b p).
Proof.
  split.
  - intros H b ->. rewrite re_const_lit in H. discriminate.
  - intros H. destruct (re_const (Some p) r') as [q|] eqn:E; [|reflexivity].
    apply re_const_some in E. destruct E as [Hq [b ->]]. injection Hq as <-. exfalso. exact (H b eq_refl).
Qed.

(* running the compiled patched node = reference value of the dynamic reading, every replacement *)
Lemma matches_patch_run a p l b r' :
  compilable l = true -> compilable r' = true ->
  stop_is_locatable (eval fe cfg env [] (EMatches a None l r') rs0) ->
  exists d0, forall d, (d0 <= d)%nat ->
    run_code fe cfg env (compile (c_mapenv cfg) (set_children (EMatches a (Some p) l (EStr b p)) [l; r'])) d
    = Some (eval fe cfg env [] (EMatches a None l r') rs0).
Proof.
  intros Hl Hr Hloc.
  rewrite <- (matches_patch_value [] a p l b r' rs0) in *.
  apply run_compiled; [|exact Hloc].
  cbn [set_children hd_or tl compilable]. rewrite Hl, Hr. reflexivity.
Qed.

(* the node as ast.Walk rebuilds it after walking both children (both may have been replaced) *)
Lemma matches_walker_rebuild ctx mapenv a p l b l' r' s :
  eval fe cfg env ctx (set_children (EMatches a (Some p) l (EStr b p)) [l'; r']) s =
    matches_dyn fe cfg env ctx a l' r' s
  /\ (re_const (Some p) r' = None ->
      compile mapenv (set_children (EMatches a (Some p) l (EStr b p)) [l'; r']) =
      compile mapenv l' ++ compile mapenv r' ++ at_ (aloc a) [IMatches]).
Proof.
  split.
  - cbn [set_children hd_or tl]. apply eval_matches_dyn.
  - intros H. cbn [set_children hd_or tl compile loc_of ann_of]. rewrite H. reflexivity.
Qed.

End Patch.

(* ------------------------------------------------------------------ the repaired finding *)
(* compiler.MatchesNode before the repair: `if node.Regexp != nil { compile Left; OpMatchesConst }` *)
Definition old_matches_code (mapenv : bool) (e : expr) : code :=
  match e with
  | EMatches a (Some p) l _ => compile mapenv l ++ at_ (aloc a) [IMatchesConst p]
  | _ => compile mapenv e
  end.

(* regexp oracle on the two patterns of the witness *)
Definition patch_fe : fenv :=
  mkFenv (fun _ => None) (fun _ _ _ => Fail EUser) (fun _ _ _ => None)
         (fun p x => if String.eqb p "^a" then Some (String.prefix "a" x)
                     else if String.eqb p "^z" then Some (String.prefix "z" x) else None)
         (fun x _ => x).

(* "abc" matches "^a" after a visitor replaced the StringNode "^a" by "^z" *)
Definition patch_witness : expr :=
  set_children (EMatches ann0 (Some "^a") (EStr ann0 "abc") (EStr ann0 "^a")) [EStr ann0 "abc"; EStr ann0 "^z"].

Definition patch_cfg : config := mkCfg false 1000.

Lemma old_rule_ignored_replacement :
  patch_witness = EMatches ann0 (Some "^a") (EStr ann0 "abc") (EStr ann0 "^z") /\
  run_code patch_fe patch_cfg VNil (old_matches_code false patch_witness) 10 = Some (Done (VBool true) rs0) /\
  run_code patch_fe patch_cfg VNil (compile false patch_witness) 10 = Some (Done (VBool false) rs0) /\
  eval patch_fe patch_cfg VNil [] patch_witness rs0 = Done (VBool false) rs0.
Proof. vm_compute. repeat split; reflexivity. Qed.

(* non-vacuity of matches_patch_code / matches_patch_run: replacements by another literal, by an
   identifier; and the one replacement that keeps the shortcut *)
Lemma patch_side_condition_examples :
  re_const (Some "^a") (EStr ann0 "^z") = None /\
  re_const (Some "^a") (EIdent ann0 "P" false) = None /\
  re_const (Some "^a") (EStr (at_loc (1, 5)%Z) "^a") = Some "^a".
Proof. vm_compute. repeat split; reflexivity. Qed.

(* BC/Assemble.v — the BYTE level of compiler/compiler.go: emit, emitPush, makeConstant (constant
   pool with de-duplication through the index map), encode (16-bit little-endian operand), the
   limits checked by makeConstant / patchJump / calcBackwardJump, and Compile (panic -> error).

   The IR compiler BC/Compiler.v already computes the jump offsets that placeholder + patchJump
   and calcBackwardJump compute; the assembler turns IR into bytes + constant pool + Locations.
   The constant pool is numbered in the order of the makeConstant CALLS of the Go code.  Almost
   every call is the argument of the emit of the instruction that uses the constant, but two
   places call makeConstant ahead of the emission:
     - emitLoop  numbers "i", "size", "array" (in this order) before it emits anything;
     - the builtins one / filter / count number "count" before the array operand is compiled.
   An assembler input is therefore a list of ITEMS: an instruction with its location, or a bare
   makeConstant call (AConst).  compile_items mirrors BC/Compiler.compile and adds those calls;
   erasing them gives back compile (items_code_compile in AssembleProofs.v).
   No proofs here. *)
From Coq Require Import ZArith Bool List String Arith Floats.
Require Import X.Base.Num X.Base.Value X.Syn.Ast X.Sem.Prim X.Sem.Sem X.BC.Instr X.BC.Compiler X.BC.Decode X.gen.GenOpcodes.
Import ListNotations.
Local Open Scope string_scope.
Local Open Scope list_scope.
Local Open Scope Z_scope.

(* ------------------------------------------------------------------ makeConstant: the index map *)
(* Go == on map keys of type interface{}: equal dynamic types and equal contents; a float NaN is
   not equal to itself and +0 == -0.  Since the repair "0.0 and -0.0 do not share a constant-pool
   entry" makeConstant keeps a float constant that is a zero out of the index map (float_zero
   below), so the two zeros only meet inside the fields of a by-value struct constant. *)
Definition num_go_eq (a b : num) : bool :=
  match a, b with
  | NInt k z, NInt k' z' => kind_eqb k k' && (z =? z')
  | NFlt k f, NFlt k' f' => kind_eqb k k' && PrimFloat.eqb f f'
  | _, _ => false
  end.

(* Values compared by identity in Go (pointers, and everything the model keeps opaque) are never
   equal here: two occurrences are taken to be two allocations. *)
Fixpoint vgo_eq (a b : value) {struct a} : bool :=
  let fix feq (f1 f2 : list (string * value)) {struct f1} : bool :=
    match f1, f2 with
    | [], [] => true
    | (n1, x) :: r1, (n2, y) :: r2 => String.eqb n1 n2 && vgo_eq x y && feq r1 r2
    | _, _ => false
    end in
  match a, b with
  | VNil, VNil => true
  | VBool x, VBool y => Bool.eqb x y
  | VNum x, VNum y => num_go_eq x y
  | VStr x, VStr y => String.eqb x y
  | VNilPtr t, VNilPtr t' => ty_eqb t t'
  | VNamed n x, VNamed n' y => String.eqb n n' && vgo_eq x y
  | VStruct n false f, VStruct n' false f' => String.eqb n n' && feq f f'
  | _, _ => false
  end.

(* hashing a value that sits in a struct field / behind a named type *)
Inductive kclass :=
| KVal      (* hashed and compared by its contents *)
| KIdent    (* hashable, compared by identity (pointer; opaque to the model) *)
| KPanic.   (* runtime error: hash of unhashable type (slice, map, func) *)

Definition kjoin (a b : kclass) : kclass :=
  match a, b with
  | KPanic, _ | _, KPanic => KPanic
  | KIdent, _ | _, KIdent => KIdent
  | KVal, KVal => KVal
  end.

Fixpoint field_class (v : value) : kclass :=
  match v with
  | VNil | VBool _ | VNum _ | VStr _ | VNilPtr _ => KVal
  | VArr _ _ | VNilArr _ | VMap _ _ _ | VNilMap _ _ | VFunc _ _ => KPanic
  | VNamed _ x => field_class x
  | VStruct _ true _ | VOpaque _ => KIdent
  | VStruct _ false fs =>
      (fix go (l : list (string * value)) : kclass :=
         match l with [] => KVal | (_, x) :: r => kjoin (field_class x) (go r) end) fs
  end.

(* reflect.TypeOf(i).Kind() is Slice or Map *)
Fixpoint slice_or_map (v : value) : bool :=
  match v with
  | VArr _ _ | VNilArr _ | VMap _ _ _ | VNilMap _ _ => true
  | VNamed _ x => slice_or_map x
  | _ => false
  end.


(* reflect.TypeOf(i).Kind() is Float32 / Float64 and reflect.ValueOf(i).Float() == 0: +0.0 or -0.0,
   also behind a declared float type *)
Fixpoint float_zero (v : value) : bool :=
  match v with
  | VNum (NFlt _ f) => f_is_zero f
  | VNamed _ x => float_zero x
  | _ => false
  end.

(* what makeConstant does with a constant *)
Inductive hclass :=
| HKey      (* hashable by contents: looked up in c.index, registered when it is new *)
| HFresh    (* always appended: kind Slice / Map or a float zero (hashable = false), or a key that only equals
               itself (a *regexp.Regexp or another pointer: every occurrence is taken to be its own allocation) *)
| HPanic.   (* makeConstant panics, Compile returns the error: reflect.TypeOf(nil).Kind() on a nil
               interface, or "hash of unhashable type" (func value, struct with a slice/map/func field) *)

Definition const_class (c : const) : hclass :=
  match c with
  | CCall _ _ => HKey                (* vm.Call{Name, Size} is a comparable struct *)
  | CRegex _ => HFresh
  | CVal v =>
      if slice_or_map v || float_zero v then HFresh
      else match v with
           | VNil => HPanic
           | _ => match field_class v with KVal => HKey | KIdent => HFresh | KPanic => HPanic end
           end
  end.

Definition const_go_eq (a b : const) : bool :=
  match a, b with
  | CVal v, CVal w => vgo_eq v w
  | CCall n s, CCall n' s' => String.eqb n n' && (s =? s')
  | _, _ => false
  end.

Definition is_key (c : const) : bool := match const_class c with HKey => true | _ => false end.

(* c.index[i]: the pool position under which an equal key was registered.  Only HKey constants are
   looked up, and only HKey entries of the pool were registered. *)
Fixpoint pool_find (c : const) (pool : list const) (k : Z) : option Z :=
  match pool with
  | [] => None
  | d :: r => if is_key d && const_go_eq d c then Some k else pool_find c r (k + 1)
  end.

Definition max_uint16 : Z := 65535.   (* math.MaxUint16 *)

Definition pool_append (pool : list const) (c : const) : option (list const * Z) :=
  let n := Z.of_nat (List.length pool) in
  if max_uint16 <? n + 1 then None      (* len(c.constants) > math.MaxUint16 after the append *)
  else Some (pool ++ [c], n).

(* makeConstant: new pool and the index that is encoded; None = panic *)
Definition intern (pool : list const) (c : const) : option (list const * Z) :=
  match const_class c with
  | HPanic => None
  | HFresh => pool_append pool c
  | HKey => match pool_find c pool 0 with
            | Some k => Some (pool, k)
            | None => pool_append pool c
            end
  end.

(* ------------------------------------------------------------------ opcodes and operands *)
Fixpoint index_of (n : string) (l : list string) (k : Z) : option Z :=
  match l with
  | [] => None
  | x :: r => if String.eqb x n then Some k else index_of n r (k + 1)
  end.

(* byte value of an opcode: its position in vm/opcodes.go (regenerated table) *)
Definition opcode_of (n : string) : option Z := index_of n opcode_names 0.

Definition iname (i : instr) : string :=
  match i with
  | IPush _ => "OpPush" | IPop => "OpPop" | IRot => "OpRot"
  | IFetch _ => "OpFetch" | IFetchNilSafe _ => "OpFetchNilSafe" | IFetchMap _ => "OpFetchMap"
  | ITrue => "OpTrue" | IFalse => "OpFalse" | INil => "OpNil" | INegate => "OpNegate" | INot => "OpNot"
  | IEqual => "OpEqual" | IEqualInt => "OpEqualInt" | IEqualString => "OpEqualString"
  | IJump _ => "OpJump" | IJumpIfTrue _ => "OpJumpIfTrue" | IJumpIfFalse _ => "OpJumpIfFalse"
  | IJumpBackward _ => "OpJumpBackward"
  | IIn => "OpIn" | ILess => "OpLess" | IMore => "OpMore" | ILessOrEqual => "OpLessOrEqual"
  | IMoreOrEqual => "OpMoreOrEqual"
  | IAdd => "OpAdd" | ISubtract => "OpSubtract" | IMultiply => "OpMultiply" | IDivide => "OpDivide"
  | IModulo => "OpModulo" | IExponent => "OpExponent" | IRange => "OpRange"
  | IMatches => "OpMatches" | IMatchesConst _ => "OpMatchesConst" | IContains => "OpContains"
  | IStartsWith => "OpStartsWith" | IEndsWith => "OpEndsWith"
  | IIndex => "OpIndex" | ISlice => "OpSlice" | IProperty _ => "OpProperty"
  | IPropertyNilSafe _ => "OpPropertyNilSafe"
  | ICall _ _ => "OpCall" | ICallFast _ _ => "OpCallFast" | IMethod _ _ => "OpMethod"
  | IMethodNilSafe _ _ => "OpMethodNilSafe"
  | IArray => "OpArray" | IMap => "OpMap" | ILen => "OpLen" | ICast _ => "OpCast"
  | IStore _ => "OpStore" | ILoad _ => "OpLoad" | IInc _ => "OpInc" | IBegin => "OpBegin" | IEnd => "OpEnd"
  end.

Inductive operand :=
| NoArg
| ConstArg (c : const)   (* makeConstant(...) *)
| JumpArg (off : Z)             (* patchJump / calcBackwardJump: refused above MaxUint16 *)
| RawArg (k : Z)                (* encode(k) of a literal: the result cast *)
| BadArg.                       (* no Go compile emits this *)

Definition str_const (s : string) : const := CVal (VStr s).
Definition call_const (name : string) (n : nat) : const := CCall name (Z.of_nat n).

Definition ioperand (i : instr) : operand :=
  match i with
  | IPush v => ConstArg (CVal v)
  | IFetch s | IFetchNilSafe s | IFetchMap s | IProperty s | IPropertyNilSafe s
  | IStore s | ILoad s | IInc s => ConstArg (str_const s)
  | IMatchesConst p => ConstArg (CRegex p)
  | ICall name n | ICallFast name n | IMethod name n | IMethodNilSafe name n => ConstArg (call_const name n)
  | IJump off | IJumpIfTrue off | IJumpIfFalse off | IJumpBackward off => JumpArg (Z.of_nat off)
  | ICast t => if (t =? 0) || (t =? 1) then RawArg t else BadArg
  | _ => NoArg
  end.

(* encode: binary.LittleEndian.PutUint16 *)
Definition encode16 (k : Z) : list Z := [k mod 256; k / 256].

(* bytes of one instruction and the pool after its makeConstant call; None = panic *)
Definition enc_instr (pool : list const) (i : instr) : option (list Z * list const) :=
  match opcode_of (iname i) with
  | None => None
  | Some b =>
      match ioperand i with
      | NoArg => Some ([b], pool)
      | ConstArg c =>
          match intern pool c with
          | None => None
          | Some (pool', k) => Some (b :: encode16 k, pool')
          end
      | JumpArg off => if max_uint16 <? off then None else Some (b :: encode16 off, pool)
      | RawArg k => Some (b :: encode16 k, pool)
      | BadArg => None
      end
  end.

(* ------------------------------------------------------------------ the assembler *)
Inductive aitem :=
| AIns (i : instr) (l : loc)       (* c.emit(op, operand...) while the node on top of c.nodes has location l *)
| AConst (c : const).       (* a makeConstant call whose result is used later *)

Definition items_of_code (C : code) : list aitem := map (fun il : linstr => AIns (fst il) (snd il)) C.

Fixpoint items_code (its : list aitem) : code :=
  match its with
  | [] => []
  | AIns i l :: r => (i, l) :: items_code r
  | AConst _ :: r => items_code r
  end.

(* bytes, final pool, Locations (one entry per instruction start: c.locations[current-1] = loc) *)
Fixpoint asm (its : list aitem) (pool : list const) (pos : Z)
  : option (list Z * list const * list (Z * loc)) :=
  match its with
  | [] => Some ([], pool, [])
  | AConst c :: r =>
      match intern pool c with
      | None => None
      | Some (pool', _) => asm r pool' pos
      end
  | AIns i l :: r =>
      match enc_instr pool i with
      | None => None
      | Some (bs, pool') =>
          match asm r pool' (pos + Z.of_nat (List.length bs)) with
          | None => None
          | Some (bs', poolF, locs) => Some (bs ++ bs', poolF, (pos, l) :: locs)
          end
      end
  end.

Definition assemble_items (its : list aitem) : option program :=
  match asm its [] 0 with
  | Some (bs, pool, locs) => Some (mkProg bs pool locs)
  | None => None
  end.

(* deliverable 1: pool in first-use order of the instruction stream *)
Definition assemble (C : code) : option program := assemble_items (items_of_code C).

(* the pool without the 65535 limit (for the statement of why assembling fails) *)
Definition intern_unbounded (pool : list const) (c : const) : list const :=
  match const_class c with
  | HPanic => pool
  | HFresh => pool ++ [c]
  | HKey => match pool_find c pool 0 with Some _ => pool | None => pool ++ [c] end
  end.

Fixpoint pool_of (its : list aitem) (pool : list const) : list const :=
  match its with
  | [] => pool
  | AConst c :: r => pool_of r (intern_unbounded pool c)
  | AIns i _ :: r =>
      match ioperand i with
      | ConstArg c => pool_of r (intern_unbounded pool c)
      | _ => pool_of r pool
      end
  end.

(* instructions / constants on which the Go compiler panics whatever the size of the program *)
Definition const_ok (c : const) : bool := match const_class c with HPanic => false | _ => true end.
Definition item_ok (it : aitem) : bool :=
  match it with
  | AConst c => const_ok c
  | AIns i _ => match ioperand i with BadArg => false | ConstArg c => const_ok c | _ => true end
  end.
Definition jump_too_far (it : aitem) : bool :=
  match it with
  | AIns i _ => match ioperand i with JumpArg off => max_uint16 <? off | _ => false end
  | AConst _ => false
  end.

(* ------------------------------------------------------------------ the makeConstant calls of the Go compiler *)
Local Open Scope nat_scope.

Definition ins (l : loc) (is : list instr) : list aitem := map (fun i => AIns i l) is.
Definition isz (its : list aitem) : nat := csize (items_code its).

(* emitCond *)
Definition cond_items (l : loc) (body : list aitem) : list aitem :=
  ins l [IJumpIfFalse (1 + isz body + 3); IPop] ++ body ++ ins l [IJump 1; IPop].

(* emitLoop: i, size, array are numbered first *)
Definition loop_items (l : loc) (body : list aitem) : list aitem :=
  [AConst (str_const "i"); AConst (str_const "size"); AConst (str_const "array")]
  ++ ins l [ILen; IStore "size"; IStore "array"; IPush (vint 0); IStore "i"]
  ++ ins l [ILoad "i"; ILoad "size"; ILess; IJumpIfFalse (1 + isz body + 3 + 3); IPop]
  ++ body
  ++ ins l [IInc "i"; IJumpBackward (3 + 3 + 1 + 3 + 1 + isz body + 3 + 3); IPop].

Section Items.
Variable mapenv : bool.

Fixpoint compile_items (e : expr) : list aitem :=
  let here := loc_of e in
  let items_list := fix items_list (es : list expr) : list aitem :=
    match es with [] => [] | x :: r => compile_items x ++ items_list r end in
  match e with
  | EUnary _ op x =>
      compile_items x ++ ins here (match op with
                                   | UNotBang | UNotWord => [INot]
                                   | UMinus => [INegate]
                                   | _ => []
                                   end)
  | EBinary _ op l r =>
      match op with
      | BOrWord | BOrOr =>
          let cr := compile_items r in
          compile_items l ++ ins here [IJumpIfTrue (1 + isz cr); IPop] ++ cr
      | BAndWord | BAndAnd =>
          let cr := compile_items r in
          compile_items l ++ ins here [IJumpIfFalse (1 + isz cr); IPop] ++ cr
      | _ => compile_items l ++ compile_items r ++ ins here (binop_code op l r)
      end
  | EMatches _ re l r =>
      match re_const re r with
      | Some p => compile_items l ++ ins here [IMatchesConst p]
      | None => compile_items l ++ compile_items r ++ ins here [IMatches]
      end
  | EProperty _ x name ns =>
      compile_items x ++ ins here [if ns then IPropertyNilSafe name else IProperty name]
  | EIndex _ x i => compile_items x ++ compile_items i ++ ins here [IIndex]
  | ESlice _ x from to =>
      compile_items x
      ++ (match to with Some t => compile_items t | None => ins here [ILen] end)
      ++ (match from with Some f => compile_items f | None => ins here [IPush (vint 0)] end)
      ++ ins here [ISlice]
  | EMethod _ x name args ns =>
      compile_items x ++ items_list args
      ++ ins here [if ns then IMethodNilSafe name (List.length args) else IMethod name (List.length args)]
  | EFunction _ name args fast =>
      items_list args
      ++ ins here [if fast then ICallFast name (List.length args) else ICall name (List.length args)]
  | EBuiltin _ b args =>
      match b, args with
      | BiLen, [x] => compile_items x ++ ins here [ILen; IRot; IPop]
      | BiAll, [x; c] =>
          compile_items x ++ ins here [IBegin]
          ++ loop_items here (compile_items c ++ ins here [IJumpIfFalse 9; IPop])
          ++ ins here [ITrue; IEnd]
      | BiNone, [x; c] =>
          compile_items x ++ ins here [IBegin]
          ++ loop_items here (compile_items c ++ ins here [INot; IJumpIfFalse 9; IPop])
          ++ ins here [ITrue; IEnd]
      | BiAny, [x; c] =>
          compile_items x ++ ins here [IBegin]
          ++ loop_items here (compile_items c ++ ins here [IJumpIfTrue 9; IPop])
          ++ ins here [IFalse; IEnd]
      | BiOne, [x; c] =>
          AConst (str_const "count") ::
          compile_items x ++ ins here [IBegin; IPush (vint 0); IStore "count"]
          ++ loop_items here (compile_items c ++ cond_items here (ins here [IInc "count"]))
          ++ ins here [ILoad "count"; IPush (vint 1); IEqual; IEnd]
      | BiFilter, [x; c] =>
          AConst (str_const "count") ::
          compile_items x ++ ins here [IBegin; IPush (vint 0); IStore "count"]
          ++ loop_items here (compile_items c ++ cond_items here (ins here [IInc "count"; ILoad "array"; ILoad "i"; IIndex]))
          ++ ins here [ILoad "count"; IEnd; IArray]
      | BiMap, [x; c] =>
          compile_items x ++ ins here [IBegin]
          ++ loop_items here (compile_items c)
          ++ ins here [ILoad "size"; IEnd; IArray]
      | BiCount, [x; c] =>
          AConst (str_const "count") ::
          compile_items x ++ ins here [IBegin; IPush (vint 0); IStore "count"]
          ++ loop_items here (compile_items c ++ cond_items here (ins here [IInc "count"]))
          ++ ins here [ILoad "count"; IEnd]
      | _, _ => []
      end
  | EClosure _ x => compile_items x
  | ECond _ c x y =>
      let cx := compile_items x in let cy := compile_items y in
      compile_items c ++ ins here [IJumpIfFalse (1 + isz cx + 3); IPop] ++ cx
      ++ ins here [IJump (1 + isz cy); IPop] ++ cy
  | EArray _ es =>
      items_list es ++ ins here [IPush (vint (Z.of_nat (List.length es))); IArray]
  | EMap _ pairs =>
      (fix items_pairs (ps : list expr) : list aitem :=
         match ps with
         | [] => []
         | EPair _ k v :: r => compile_items k ++ compile_items v ++ items_pairs r
         | _ :: r => items_pairs r
         end) pairs
      ++ ins here [IPush (vint (Z.of_nat (List.length pairs))); IMap]
  (* leaves (and the pair outside a map): every makeConstant call is the operand of its emit *)
  | ENil _ | EIdent _ _ _ | EInt _ _ | EFloat _ _ | EBool _ _ | EStr _ _ | EConst _ _ | EPointer _
  | EPair _ _ _ => items_of_code (compile mapenv e)
  end.

Fixpoint items_list (es : list expr) : list aitem :=
  match es with [] => [] | x :: r => compile_items x ++ items_list r end.

Fixpoint items_pairs (ps : list expr) : list aitem :=
  match ps with
  | [] => []
  | EPair _ k v :: r => compile_items k ++ compile_items v ++ items_pairs r
  | _ :: r => items_pairs r
  end.

End Items.

(* Compile: the result cast is emitted after the tree, with no node on the stack (zero Location) *)
Definition compile_items_program (mapenv : bool) (c : cast) (e : expr) : list aitem :=
  compile_items mapenv e ++
  match c with
  | CastNone => []
  | CastInt64 => [AIns (ICast 0) noloc]
  | CastFloat64 => [AIns (ICast 1) noloc]
  end.

(* compiler.Compile at byte level: Bytecode, Constants and Locations of the program, None = the
   recovered panic (unknown operator / builtin, makeConstant or jump limit) *)
Definition compile_bytes (mapenv : bool) (c : cast) (e : expr) : option program :=
  if compilable e then assemble_items (compile_items_program mapenv c e) else None.

(* Locations as the harness serialises them: entries with the zero Location are left out *)
Definition locs_nonzero (locs : list (Z * loc)) : list (Z * loc) :=
  filter (fun ql : Z * loc => negb (loc_eqb (snd ql) noloc)) locs.

(* ------------------------------------------------------------------ the carve-out of the exactness theorem *)
(* decode gives back the very code that was assembled unless the index map merged two constants
   that are equal for Go but not identical.  A float zero is never in the index map, so the only
   such pairs left are by-value struct constants that differ in the sign of a zero FIELD (Go's ==
   on structs compares the fields with ==).  No negative zero in such a field = exact. *)
Local Open Scope Z_scope.
Definition negzero (f : float) : bool :=
  match Prim2SF f with S754_zero true => true | _ => false end.

(* inside a struct compared by contents *)
Fixpoint field_exact (v : value) : bool :=
  match v with
  | VNum (NFlt _ f) => negb (negzero f)
  | VNamed _ x => field_exact x
  | VStruct _ false fs =>
      (fix go (l : list (string * value)) : bool :=
         match l with [] => true | (_, x) :: r => field_exact x && go r end) fs
  | _ => true
  end.

(* a constant of its own *)
Fixpoint key_exact (v : value) : bool :=
  match v with
  | VNamed _ x => key_exact x
  | VStruct _ false _ => field_exact v
  | _ => true
  end.

Definition const_exact (c : const) : bool := match c with CVal v => key_exact v | _ => true end.

Definition item_const (it : aitem) : option const :=
  match it with
  | AConst c => Some c
  | AIns i _ => match ioperand i with ConstArg c => Some c | _ => None end
  end.

Definition items_keys_exact (its : list aitem) : bool :=
  forallb (fun it => match item_const it with Some c => const_exact c | None => true end) its.

Definition code_keys_exact (C : code) : bool := items_keys_exact (items_of_code C).

(* ------------------------------------------------------------------ constants of an expression that makeConstant can take *)
(* Every constant the compiler makes up itself is hashable; only a ConstantNode (a folded ConstExpr
   call or an optimizer product) can carry a value on which makeConstant panics. *)
Fixpoint consts_hashable (e : expr) : bool :=
  let fix all_h (es : list expr) : bool :=
    match es with [] => true | x :: r => consts_hashable x && all_h r end in
  match e with
  | EConst _ v => match v with VNil => true | _ => const_ok (CVal v) end
  | ENil _ | EIdent _ _ _ | EInt _ _ | EFloat _ _ | EBool _ _ | EStr _ _ | EPointer _ => true
  | EUnary _ _ x | EProperty _ x _ _ | EClosure _ x => consts_hashable x
  | EBinary _ _ l r | EIndex _ l r | EPair _ l r => consts_hashable l && consts_hashable r
  | EMatches _ re l r => consts_hashable l && match re_const re r with Some _ => true | None => consts_hashable r end
  | ESlice _ x f t =>
      consts_hashable x && match f with Some y => consts_hashable y | None => true end
      && match t with Some y => consts_hashable y | None => true end
  | EMethod _ x _ args _ => consts_hashable x && all_h args
  | EFunction _ _ args _ | EBuiltin _ _ args | EArray _ args | EMap _ args => all_h args
  | ECond _ c x y => consts_hashable c && consts_hashable x && consts_hashable y
  end.

(* ------------------------------------------------------------------ example inputs (used in Props/C05.v) *)
(* s matches "^a" ? f(1.5, 1, f(1.5, 2, 1)) : filter(1..3, {# > 1}) *)
Definition c05_ex : expr :=
  ECond (at_loc (1, 30))
    (EMatches (at_loc (1, 3)) (Some "^a"%string) (EIdent (at_loc (1, 1)) "s" false) (EStr (at_loc (1, 11)) "^a"))
    (EFunction (at_loc (1, 20)) "f"
       [EFloat ann0 1.5%float; EInt ann0 1; EFunction ann0 "f" [EFloat ann0 1.5%float; EInt ann0 2; EInt ann0 1] false] false)
    (EBuiltin (at_loc (1, 40)) BiFilter
       [EBinary ann0 BRange (EInt ann0 1) (EInt ann0 3); EClosure ann0 (EBinary ann0 BGt (EPointer ann0) (EInt ann0 1))]).

(* Program.Constants of the Go compiler for it *)
Definition c05_ex_pool : list const :=
  [CVal (VStr "s"); CRegex "^a"; CVal (VNum (NFlt KF64 1.5%float)); CVal (vint 1); CVal (vint 2); CCall "f" 3;
   CVal (VStr "count"); CVal (vint 3); CVal (vint 0); CVal (VStr "i"); CVal (VStr "size"); CVal (VStr "array")].

(* true ? [1, 1, ... n times] : 2 *)
Definition c05_big_cond (n : Z) : expr :=
  ECond ann0 (EBool ann0 true) (EArray ann0 (repeat (EInt ann0 1) (Z.to_nat n))) (EInt ann0 2).

(* ------------------------------------------------------------------ the Go-shaped assembler *)
(* The compiler value `c *compiler` of compiler/compiler.go as far as the byte level uses it, and emit /
   makeConstant / placeholder / patchJump / calcBackwardJump / encode as one Gallina function per Go function,
   written the way the Go code works: an index MAP beside the pool, a locations MAP, placeholder bytes that
   patchJump overwrites later.  The bodies of these Go functions are REGENERATED statement by statement
   (gen/GenAssemble.v, DSL and interpreter BC/AsmRules.v); Bridge/BrAssemble.v proves every function below equal to
   the interpretation of its regenerated body for all states and arguments, and BC/AsmDriveProofs.v proves that
   driving an item list through them (drive, below) yields exactly asm / assemble_items above.
   Integers are unbounded (positions and lengths stay far below 2^63); uint16(x) is x mod 65536.   None = panic. *)
Record cstate := mkCS {
  cs_bytecode : list Z;               (* c.bytecode *)
  cs_constants : list const;          (* c.constants *)
  cs_index : list (const * Z);        (* c.index: map[interface{}]uint16, in insertion order *)
  cs_locations : list (Z * loc);      (* c.locations: map[int]file.Location, in insertion order *)
  cs_nodes : list loc                 (* Location() of the nodes on the stack c.nodes, bottom first *)
}.

(* &compiler{index: make(...), locations: make(...)} *)
Definition cs0 : cstate := mkCS [] [] [] [] [].

Definition blen (s : cstate) : Z := Z.of_nat (List.length (cs_bytecode s)).

(* reflect.TypeOf(i) is nil for the nil interface: .Kind() is a nil-pointer dereference *)
Definition kind_panics (c : const) : bool := match c with CVal VNil => true | _ => false end.
Definition const_slice_or_map (c : const) : bool := match c with CVal v => slice_or_map v | _ => false end.
Definition const_float_zero (c : const) : bool := match c with CVal v => float_zero v | _ => false end.

(* using i as a key of map[interface{}]...: runtime error "hash of unhashable type" *)
Definition key_unhashable (c : const) : bool :=
  match c with
  | CVal v => match field_class v with KPanic => true | _ => false end
  | _ => false
  end.

(* m[k] and m[k] = v on Go maps: keys compared with Go's == (const_go_eq: NaN and identity-compared values
   never equal anything) *)
Fixpoint index_get (m : list (const * Z)) (c : const) : option Z :=
  match m with
  | [] => None
  | (d, k) :: r => if const_go_eq d c then Some k else index_get r c
  end.

Fixpoint index_set (m : list (const * Z)) (c : const) (p : Z) : list (const * Z) :=
  match m with
  | [] => [(c, p)]
  | (d, k) :: r => if const_go_eq d c then (d, p) :: r else (d, k) :: index_set r c p
  end.

Fixpoint locs_set (m : list (Z * loc)) (q : Z) (l : loc) : list (Z * loc) :=
  match m with
  | [] => [(q, l)]
  | (q', l') :: r => if q' =? q then (q', l) :: r else (q', l') :: locs_set r q l
  end.

(* binary.LittleEndian.PutUint16 into a fresh 2-byte slice: byte(v), byte(v >> 8) *)
Definition go_encode (i : Z) : list Z := [i mod 256; (i / 256) mod 256].

Definition go_placeholder : list Z := [255; 255].

Definition set_bytecode (s : cstate) (b : list Z) : cstate :=
  mkCS b (cs_constants s) (cs_index s) (cs_locations s) (cs_nodes s).

Definition go_emit (s : cstate) (op : Z) (b : list Z) : Z * cstate :=
  let bc1 := cs_bytecode s ++ [op] in
  let current := Z.of_nat (List.length bc1) in
  let l := match cs_nodes s with [] => noloc | _ => List.last (cs_nodes s) noloc end in
  (current, mkCS (bc1 ++ b) (cs_constants s) (cs_index s) (locs_set (cs_locations s) (current - 1) l) (cs_nodes s)).

Definition go_append_constant (s : cstate) (c : const) (hashable : bool) : option (list Z * cstate) :=
  let cs' := cs_constants s ++ [c] in
  let n := Z.of_nat (List.length cs') in
  if max_uint16 <? n then None
  else let p := (n - 1) mod 65536 in
       Some (go_encode p,
             mkCS (cs_bytecode s) cs' (if hashable then index_set (cs_index s) c p else cs_index s)
                  (cs_locations s) (cs_nodes s)).

Definition go_make_constant (s : cstate) (c : const) : option (list Z * cstate) :=
  if kind_panics c then None
  else if const_slice_or_map c || const_float_zero c then go_append_constant s c false
  else if key_unhashable c then None
  else match index_get (cs_index s) c with
       | Some p => Some (go_encode p, s)
       | None => go_append_constant s c true
       end.

(* l[k] = v; None = index out of range *)
Fixpoint list_upd (l : list Z) (k : nat) (v : Z) : list Z :=
  match l, k with
  | [], _ => []
  | _ :: r, O => v :: r
  | x :: r, S k' => x :: list_upd r k' v
  end.

Definition store_byte (l : list Z) (k v : Z) : option (list Z) :=
  if (0 <=? k) && (k <? Z.of_nat (List.length l)) then Some (list_upd l (Z.to_nat k) v) else None.

Definition go_patch_jump (s : cstate) (placeholder : Z) : option cstate :=
  let offset := blen s - 2 - placeholder in
  if max_uint16 <? offset then None
  else let b := go_encode (offset mod 65536) in
       match store_byte (cs_bytecode s) placeholder (nth 0 b 0) with
       | None => None
       | Some bc1 =>
           match store_byte bc1 (placeholder + 1) (nth 1 b 0) with
           | None => None
           | Some bc2 => Some (set_bytecode s bc2)
           end
       end.

Definition go_calc_backward_jump (s : cstate) (to : Z) : option (list Z) :=
  let offset := blen s + 1 + 2 - to in
  if max_uint16 <? offset then None else Some (go_encode (offset mod 65536)).

(* ---- driving an item list through the functions, the way the Go compiler calls them ---- *)
(* outcome of running Go code: a value, a panic, or (for interpreted source only) a statement the interpreter
   cannot give a meaning to *)
Inductive gres (A : Type) : Type := GOk (a : A) | GPanic | GStuck.
Arguments GOk {A} a. Arguments GPanic {A}. Arguments GStuck {A}.

Definition gbind {A B : Type} (r : gres A) (k : A -> gres B) : gres B :=
  match r with GOk a => k a | GPanic => GPanic | GStuck => GStuck end.

Definition of_option {A : Type} (o : option A) : gres A := match o with Some a => GOk a | None => GPanic end.

Record asm_funcs := mkFuncs {
  f_emit : cstate -> Z -> list Z -> gres (Z * cstate);
  f_make_constant : cstate -> const -> gres (list Z * cstate);
  f_placeholder : cstate -> gres (list Z * cstate);
  f_patch_jump : cstate -> Z -> gres cstate;
  f_calc_backward_jump : cstate -> Z -> gres (list Z * cstate);
  f_encode : cstate -> Z -> gres (list Z * cstate)
}.

Definition go_funcs : asm_funcs :=
  mkFuncs (fun s op b => GOk (go_emit s op b))
          (fun s c => of_option (go_make_constant s c))
          (fun s => GOk (go_placeholder, s))
          (fun s ph => of_option (go_patch_jump s ph))
          (fun s to => match go_calc_backward_jump s to with Some b => GOk (b, s) | None => GPanic end)
          (fun s i => GOk (go_encode i, s)).

Definition is_backward (i : instr) : bool := match i with IJumpBackward _ => true | _ => false end.

(* c.compile pushes the node before its method runs: emit sees its Location on top of c.nodes *)
Definition with_node (s : cstate) (l : loc) : cstate :=
  mkCS (cs_bytecode s) (cs_constants s) (cs_index s) (cs_locations s) [l].

Section Drive.
Variable F : asm_funcs.

(* pending forward jumps: (what emit returned = position of the placeholder, position at which the Go compiler
   calls patchJump = the VM's target of the jump) *)
Definition pending := list (Z * Z).

(* c.patchJump(ph) for every pending jump whose target is the current end of the bytecode *)
Fixpoint fire (pend : pending) (s : cstate) : gres (cstate * pending) :=
  match pend with
  | [] => GOk (s, [])
  | (ph, t) :: r =>
      if t =? blen s then gbind (f_patch_jump F s ph) (fun s' => fire r s')
      else gbind (fire r s) (fun sp => GOk (fst sp, (ph, t) :: snd sp))
  end.

(* one item = the calls the Go compiler makes for it:
     AConst c                  c.makeConstant(c)
     no operand                c.emit(op)
     constant operand          c.emit(op, c.makeConstant(c)...)
     result cast               c.emit(op, encode(k)...)
     backward jump by off      c.emit(op, c.calcBackwardJump(to)...)  with to = the VM's target, pos + 3 - off
     forward jump by off       ph := c.emit(op, c.placeholder()...)   and c.patchJump(ph) when len(c.bytecode)
                               has reached the VM's target pos + 3 + off *)
Definition drive_item (it : aitem) (s : cstate) (pend : pending) : gres (cstate * pending) :=
  match it with
  | AConst c => gbind (f_make_constant F s c) (fun r => GOk (snd r, pend))
  | AIns i l =>
      match opcode_of (iname i) with
      | None => GPanic
      | Some op =>
          let s := with_node s l in
          match ioperand i with
          | NoArg => gbind (f_emit F s op []) (fun r => GOk (snd r, pend))
          | ConstArg c =>
              gbind (f_make_constant F s c) (fun r =>
              gbind (f_emit F (snd r) op (fst r)) (fun r' => GOk (snd r', pend)))
          | RawArg k =>
              gbind (f_encode F s k) (fun r =>
              gbind (f_emit F (snd r) op (fst r)) (fun r' => GOk (snd r', pend)))
          | JumpArg off =>
              if is_backward i then
                gbind (f_calc_backward_jump F s (blen s + 3 - off)) (fun r =>
                gbind (f_emit F (snd r) op (fst r)) (fun r' => GOk (snd r', pend)))
              else
                let target := blen s + 3 + off in
                gbind (f_placeholder F s) (fun r =>
                gbind (f_emit F (snd r) op (fst r)) (fun r' => GOk (snd r', (fst r', target) :: pend)))
          | BadArg => GPanic
          end
      end
  end.

Fixpoint drive (its : list aitem) (s : cstate) (pend : pending) : gres (cstate * pending) :=
  match fire pend s with
  | GOk (s1, pend1) =>
      match its with
      | [] => GOk (s1, pend1)
      | it :: r => gbind (drive_item it s1 pend1) (fun sp => drive r (fst sp) (snd sp))
      end
  | GPanic => GPanic
  | GStuck => GStuck
  end.

End Drive.

(* what Compile returns: the program, the error made from a recovered panic, or a panic that escapes *)
Inductive cres := CProgram (p : program) | CError | CEscapes | CStuck.

Definition cres_of_option (o : option program) : cres := match o with Some p => CProgram p | None => CError end.

(* every forward jump of the list is patched: its target is the byte position at which an item starts, or the
   end (decidable; true of everything the compiler produces, since jumps_ok holds of compiled code) *)
Definition item_size (it : aitem) : Z :=
  match it with
  | AConst _ => 0
  | AIns i _ => match ioperand i with NoArg => 1 | _ => 3 end
  end.

Fixpoint boundaries (its : list aitem) (pos : Z) : list Z :=
  match its with
  | [] => [pos]
  | it :: r => pos :: boundaries r (pos + item_size it)
  end.

Fixpoint fwd_closed (its : list aitem) (pos : Z) : bool :=
  match its with
  | [] => true
  | it :: r =>
      let nxt := pos + item_size it in
      match it with
      | AIns i _ =>
          match ioperand i with
          | JumpArg off => is_backward i || existsb (Z.eqb (pos + 3 + off)) (boundaries r nxt)
          | _ => true
          end
      | AConst _ => true
      end && fwd_closed r nxt
  end.

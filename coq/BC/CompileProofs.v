(* BC/CompileProofs.v — compiler correctness: the code produced by the model compiler, run on the
   model VM, computes exactly what the reference semantics assigns (value, failure class and
   location, allocation counter, call trace), for every expression, environment and context. *)
From Coq Require Import ZArith Bool List String Arith Lia.
Require Import X.Base.Num X.Base.Value X.Syn.Ast X.Sem.Prim X.Sem.Sem X.BC.Instr X.BC.Compiler X.BC.VM.
Import ListNotations.
Local Open Scope nat_scope.
Local Open Scope string_scope.
Local Open Scope list_scope.

Arguments Nat.ltb : simpl never.
Arguments loop_code : simpl never.
Arguments cond_code : simpl never.
Arguments Nat.eqb : simpl nomatch.

Section Correct.
Variable fe : fenv.
Variable cfg : config.
Variable env : value.
Variable C : code.

Notation step := (VM.step fe cfg env C).
Notation mapenv := (c_mapenv cfg).
Notation ev := (eval fe cfg env).
Notation comp := (compile mapenv).

Inductive star : state -> state -> Prop :=
| star_refl s : star s s
| star_step s s' s'' : step s = Next s' -> star s' s'' -> star s s''.

Lemma star_trans a b c : star a b -> star b c -> star a c.
Proof. induction 1; eauto using star. Qed.
Lemma star_one a b : step a = Next b -> star a b.
Proof. eauto using star. Qed.

Definition code_at (p : nat) (c : code) : Prop :=
  exists C1 C2, C = C1 ++ c ++ C2 /\ csize C1 = p.

Lemma fetch_app_skip C1 C2 p : fetch (C1 ++ C2) (csize C1 + p) = fetch C2 p.
Proof.
  induction C1 as [|[i l] C1 IH]; simpl; auto.
  pose proof (isize_pos i).
  destruct (Nat.eqb_spec (isize i + csize C1 + p) 0); try lia.
  destruct (Nat.ltb_spec (isize i + csize C1 + p) (isize i)); try lia.
  replace (isize i + csize C1 + p - isize i) with (csize C1 + p) by lia. auto.
Qed.

Lemma code_at_head p i l c : code_at p ((i, l) :: c) -> fetch C p = Some (i, l).
Proof.
  intros (C1 & C2 & HC & Hp). rewrite HC, <- Hp. replace (csize C1) with (csize C1 + 0) by lia.
  rewrite fetch_app_skip. reflexivity.
Qed.
Lemma code_at_tail p i l c : code_at p ((i, l) :: c) -> code_at (p + isize i) c.
Proof.
  intros (C1 & C2 & HC & Hp). exists (C1 ++ [(i, l)]), C2. split.
  - rewrite HC, <- app_assoc. reflexivity.
  - rewrite csize_app. simpl. lia.
Qed.
Lemma code_at_app_l p c1 c2 : code_at p (c1 ++ c2) -> code_at p c1.
Proof. intros (C1 & C2 & HC & Hp). exists C1, (c2 ++ C2). rewrite HC, <- app_assoc. auto. Qed.
Lemma code_at_app_r p c1 c2 : code_at p (c1 ++ c2) -> code_at (p + csize c1) c2.
Proof.
  intros (C1 & C2 & HC & Hp). exists (C1 ++ c1), C2. split.
  - rewrite HC, <- !app_assoc. reflexivity.
  - rewrite csize_app. lia.
Qed.
Lemma code_at_cons_iff p i l c : code_at p ((i, l) :: c) -> fetch C p = Some (i, l) /\ code_at (p + isize i) c.
Proof. intros H; split; [eapply code_at_head|eapply code_at_tail]; eauto. Qed.
Lemma code_at_app_iff p c1 c2 : code_at p (c1 ++ c2) -> code_at p c1 /\ code_at (p + csize c1) c2.
Proof. intros H; split; [eapply code_at_app_l|eapply code_at_app_r]; eauto. Qed.

Lemma code_at_pc p p' c : code_at p c -> p = p' -> code_at p' c.
Proof. intros; subst; auto. Qed.

(* the code t, started at p with the values `pre` on top of any stack, behaves like K:
   it replaces `pre` by the result, or crashes exactly like K stops *)
Definition runs (p : nat) (t : code) (scs : list scope) (pre : list value) (K : rstate -> result) : Prop :=
  forall st r,
    match K r with
    | Done v r' => star (mkSt p (pre ++ st) scs r) (mkSt (p + csize t) (v :: st) scs r')
    | Stop e l r' => exists s', star (mkSt p (pre ++ st) scs r) s' /\ step s' = Crash e l r'
    end.
Definition spec (t : code) (scs : list scope) (pre : list value) (K : rstate -> result) : Prop :=
  forall p, code_at p t -> runs p t scs pre K.

Lemma star_pc s p st sc m p' : star s (mkSt p st sc m) -> p = p' -> star s (mkSt p' st sc m).
Proof. intros; subst; auto. Qed.
Lemma star_pc0 p st sc m p' T : star (mkSt p st sc m) T -> p = p' -> star (mkSt p' st sc m) T.
Proof. intros; subst; auto. Qed.

Definition crashes (s : state) (e : err) (l : loc) (r : rstate) : Prop :=
  exists s', star s s' /\ step s' = Crash e l r.
Lemma crash_trans s s1 e l r : star s s1 -> crashes s1 e l r -> crashes s e l r.
Proof. intros H (s' & H1 & H2). exists s'; split; auto. eapply star_trans; eauto. Qed.
Lemma crash_step s s1 e l r : step s = Next s1 -> crashes s1 e l r -> crashes s e l r.
Proof. intros H (s' & H1 & H2). exists s'; split; auto. eapply star_step; eauto. Qed.
Lemma crash_now s e l r : step s = Crash e l r -> crashes s e l r.
Proof. intros H. exists s; split; [apply star_refl|exact H]. Qed.
Lemma crash_pc0 p st sc m p' e l r : crashes (mkSt p st sc m) e l r -> p = p' -> crashes (mkSt p' st sc m) e l r.
Proof. intros; subst; auto. Qed.

(* sequencing: c1 consumes pre1 and leaves v on top of pre2; c2 then consumes v :: pre2 *)
Lemma spec_seq c1 c2 scs pre1 pre2 K1 K2 :
  spec c1 scs pre1 K1 ->
  (forall v, spec c2 scs (v :: pre2) (K2 v)) ->
  spec (c1 ++ c2) scs (pre1 ++ pre2) (fun r => rbind (K1 r) K2).
Proof.
  intros H1 H2 p Hc st r. apply code_at_app_iff in Hc. destruct Hc as [Hc1 Hc2].
  specialize (H1 p Hc1 (pre2 ++ st) r). rewrite <- app_assoc.
  destruct (K1 r) as [v r1|e l r1]; cbn [rbind].
  - specialize (H2 v _ Hc2 st r1). cbn [app] in H2.
    destruct (K2 v r1) as [v2 r2|e l r2].
    + eapply star_trans; [exact H1|]. eapply star_pc; [exact H2|]. rewrite csize_app. lia.
    + eapply crash_trans; [exact H1|exact H2].
  - exact H1.
Qed.

Lemma spec_ext t scs pre K K' : (forall r, K r = K' r) -> spec t scs pre K -> spec t scs pre K'.
Proof. intros E H p Hc st r. rewrite <- E. apply H; auto. Qed.

Lemma spec_nil scs v : spec [] scs [v] (fun r => Done v r).
Proof. intros p _ st r. cbn. eapply star_pc; [apply star_refl|lia]. Qed.

(* one instruction *)
Lemma spec_one i l scs pre K :
  (forall p st r, fetch C p = Some (i, l) ->
     match K r with
     | Done v r' => step (mkSt p (pre ++ st) scs r) = Next (mkSt (p + isize i) (v :: st) scs r')
     | Stop e lc r' => step (mkSt p (pre ++ st) scs r) = Crash e lc r'
     end) ->
  spec [(i, l)] scs pre K.
Proof.
  intros H p Hc st r. apply code_at_head in Hc. specialize (H p st r Hc).
  destruct (K r) as [v r'|e lc r'].
  - eapply star_step; [exact H|]. eapply star_pc; [apply star_refl|]. cbn. lia.
  - apply crash_now. exact H.
Qed.


(* ------------------------------------------------------------------ contexts *)
Inductive ctx_match : list (value * Z) -> list scope -> Prop :=
| cm_nil : ctx_match [] []
| cm_cons arr i ctx sc scs :
    sget sc "array" = Some arr -> sget sc "i" = Some (vint i) ->
    ctx_match ctx scs -> ctx_match ((arr, i) :: ctx) (sc :: scs).

Definition correct (e : expr) : Prop :=
  forall ctx scs, ctx_match ctx scs -> spec (comp e) scs [] (ev ctx e).

Ltac one_step :=
  apply spec_one; intros ?p ?st ?r ?F; unfold VM.step; cbn [VM.pc VM.stk VM.scs VM.rs]; rewrite F; cbn.

Lemma rbind_lift {A} l r (o : outcome A) (f : A -> value) K2 :
  rbind (lift l r o (fun x => Done (f x) r)) K2 = lift l r o (fun x => K2 (f x) r).
Proof. destruct o; reflexivity. Qed.

(* ------------------------------------------------------------------ leaves *)
Lemma correct_nil a : correct (ENil a).
Proof. intros ctx scs _. cbn. one_step. reflexivity. Qed.

Lemma correct_int a z : correct (EInt a z).
Proof. intros ctx scs _. cbn. one_step. reflexivity. Qed.

Lemma correct_float a f : correct (EFloat a f).
Proof. intros ctx scs _. cbn. one_step. reflexivity. Qed.

Lemma correct_bool a b : correct (EBool a b).
Proof. intros ctx scs _. cbn. destruct b; one_step; reflexivity. Qed.

Lemma correct_str a x : correct (EStr a x).
Proof. intros ctx scs _. cbn. one_step. reflexivity. Qed.

Lemma correct_const a v : correct (EConst a v).
Proof. intros ctx scs _. cbn. destruct v; one_step; reflexivity. Qed.

Lemma correct_ident a name ns : correct (EIdent a name ns).
Proof.
  intros ctx scs _. cbn [compile eval at_ map loc_of ann_of]. unfold fetch_ident.
  destruct (c_mapenv cfg) eqn:Em.
  - one_step. destruct env as [| | | | t l| |kt et m| | | | | | ]; cbn; try reflexivity.
    + destruct kt; cbn; try reflexivity. destruct et; cbn; try reflexivity.
    + destruct kt; cbn; try reflexivity. destruct et; cbn; try reflexivity.
  - destruct ns; one_step; destruct (p_fetch env (VStr name) _); reflexivity.
Qed.

Lemma correct_pointer a : correct (EPointer a).
Proof.
  intros ctx scs CM. cbn [compile eval at_ map loc_of ann_of].
  intros p Hc st r.
  apply code_at_cons_iff in Hc. destruct Hc as [F1 Hc]. apply code_at_cons_iff in Hc. destruct Hc as [F2 Hc].
  apply code_at_head in Hc. cbn [isize] in *.
  inversion CM as [|arr i ctx' sc scs' Ha Hi CM']; subst.
  - (* no enclosing builtin: both loads give nil *)
    cbn. eapply crash_step. { unfold VM.step; cbn [VM.pc VM.stk VM.scs VM.rs]; rewrite F1; cbn. reflexivity. }
    eapply crash_step. { unfold VM.step; cbn [VM.pc VM.stk VM.scs VM.rs]; rewrite F2; cbn. reflexivity. }
    apply crash_now. unfold VM.step; cbn [VM.pc VM.stk VM.scs VM.rs]. rewrite Hc. cbn. reflexivity.
  - cbn [lift].
    assert (S1 : star (mkSt p st (sc :: scs') r) (mkSt (p + 3 + 3) (vint i :: arr :: st) (sc :: scs') r)).
    { eapply star_step. { unfold VM.step; cbn [VM.pc VM.stk VM.scs VM.rs]; rewrite F1; cbn. rewrite Ha. reflexivity. }
      eapply star_step. { unfold VM.step; cbn [VM.pc VM.stk VM.scs VM.rs]; rewrite F2; cbn. rewrite Hi. reflexivity. }
      apply star_refl. }
    destruct (p_fetch arr (vint i) false) eqn:Ef; cbn.
    + eapply star_trans; [exact S1|]. eapply star_step.
      { unfold VM.step; cbn [VM.pc VM.stk VM.scs VM.rs]; rewrite Hc; cbn. unfold bin; cbn. rewrite Ef. reflexivity. }
      eapply star_pc; [apply star_refl|]. cbn. lia.
    + eapply crash_trans; [exact S1|]. apply crash_now.
      unfold VM.step; cbn [VM.pc VM.stk VM.scs VM.rs]; rewrite Hc; cbn. unfold bin; cbn. rewrite Ef. reflexivity.
Qed.


(* ------------------------------------------------------------------ single instructions *)
Lemma spec_not l scs v :
  spec [(INot, l)] scs [v] (fun r => lift l r (as_bool v) (fun b => Done (VBool (negb b)) r)).
Proof. one_step. destruct (as_bool v); reflexivity. Qed.

Lemma spec_negate l scs v :
  spec [(INegate, l)] scs [v] (fun r => lift l r (p_negate v) (fun x => Done x r)).
Proof. one_step. destruct (p_negate v); reflexivity. Qed.

Lemma spec_bin i l scs f va vb :
  isize i = 1 ->
  (forall s, fetch C (pc s) = Some (i, l) -> step s = bin l s (pc s + 1) f) ->
  spec [(i, l)] scs [vb; va] (fun r => lift l r (f va vb) (fun v => Done v r)).
Proof.
  intros Hs H. apply spec_one. intros p st r F. rewrite Hs.
  rewrite (H (mkSt p ([vb; va] ++ st) scs r) F). unfold bin. cbn.
  destruct (f va vb); reflexivity.
Qed.

Ltac bin_step := intros s F; unfold VM.step; rewrite F; reflexivity.

Lemma correct_unary a op x : (match op with UUnknown _ => False | _ => True end) ->
  correct x -> correct (EUnary a op x).
Proof.
  intros Hop IH ctx scs CM. cbn [compile].
  destruct op; try contradiction.
  all: eapply spec_ext; [|eapply (spec_seq _ _ _ [] []); [apply IH; exact CM|intros v]].
  all: try (intros r; cbn [eval loc_of ann_of]; reflexivity).
  - apply spec_not.
  - apply spec_not.
  - cbn [at_ map]. apply spec_nil.
  - apply spec_negate.
Qed.

(* the tail of a plain binary operator: consumes [vb; va] *)
Definition binop_sem (l : loc) (op : binop) (x y : expr) (va vb : value) (r : rstate) : result :=
  match op with
  | BEq =>
      if both_kind (RKNum KInt) x y then
        lift l r (as_int va) (fun a => lift l r (as_int vb) (fun b => Done (VBool (Z.eqb a b)) r))
      else if both_kind RKString x y then
        lift l r (as_str va) (fun a => lift l r (as_str vb) (fun b => Done (VBool (String.eqb a b)) r))
      else lift l r (p_equal va vb) (fun v => Done v r)
  | BNe => lift l r (p_equal va vb) (fun v => lift l r (as_bool v) (fun b => Done (VBool (negb b)) r))
  | BIn => lift l r (p_in va vb) (fun b => Done (VBool b) r)
  | BNotIn => lift l r (p_in va vb) (fun b => Done (VBool (negb b)) r)
  | BLt => lift l r (p_helper HLess va vb) (fun v => Done v r)
  | BGt => lift l r (p_helper HMore va vb) (fun v => Done v r)
  | BLe => lift l r (p_helper HLessOrEqual va vb) (fun v => Done v r)
  | BGe => lift l r (p_helper HMoreOrEqual va vb) (fun v => Done v r)
  | BAdd => lift l r (p_helper HAdd va vb) (fun v => Done v r)
  | BSub => lift l r (p_helper HSubtract va vb) (fun v => Done v r)
  | BMul => lift l r (p_helper HMultiply va vb) (fun v => Done v r)
  | BDiv => lift l r (p_helper HDivide va vb) (fun v => Done v r)
  | BMod => lift l r (p_helper HModulo va vb) (fun v => Done v r)
  | BPow => lift l r (to_float64 va) (fun a => lift l r (to_float64 vb) (fun b =>
              Done (VNum (NFlt KF64 (f_pow fe a b))) r))
  | BContains => lift l r (as_str va) (fun a => lift l r (as_str vb) (fun b => Done (VBool (str_contains a b)) r))
  | BStartsWith => lift l r (as_str va) (fun a => lift l r (as_str vb) (fun b => Done (VBool (str_prefix b a)) r))
  | BEndsWith => lift l r (as_str va) (fun a => lift l r (as_str vb) (fun b => Done (VBool (str_suffix b a)) r))
  | BRange =>
      lift l r (to_int va) (fun lo => lift l r (to_int vb) (fun hi =>
      match range_size lo hi with
      | None => Stop EBudget l r
      | Some n => alloc cfg l n r (fun r3 => Done (make_range lo hi) r3)
      end))
  | _ => Stop EOther l r
  end.

Definition plain_binop (op : binop) : bool :=
  match op with BOrWord | BOrOr | BAndWord | BAndAnd | BUnknown _ => false | _ => true end.

Lemma spec_binop_tail l op x y scs va vb :
  plain_binop op = true ->
  spec (at_ l (binop_code op x y)) scs [vb; va] (binop_sem l op x y va vb).
Proof.
  intros Hop. destruct op; try discriminate; unfold binop_sem; cbn [binop_code at_ map].
  - (* == *)
    destruct (both_kind (RKNum KInt) x y); [|destruct (both_kind RKString x y)]; cbn [at_ map].
    + eapply spec_ext; [|eapply (spec_bin IEqualInt); [reflexivity|bin_step]].
      intros r; cbn. destruct (as_int va); cbn; auto. destruct (as_int vb); reflexivity.
    + eapply spec_ext; [|eapply (spec_bin IEqualString); [reflexivity|bin_step]].
      intros r; cbn. destruct (as_str va); cbn; auto. destruct (as_str vb); reflexivity.
    + eapply (spec_bin IEqual); [reflexivity|bin_step].
  - (* != *)
    eapply spec_ext; [|apply (spec_seq [(IEqual, l)] [(INot, l)] scs [vb; va] []);
      [eapply (spec_bin IEqual); [reflexivity|bin_step]|intros v; apply spec_not]].
    intros r. cbn beta. destruct (p_equal va vb); reflexivity.
  - eapply (spec_bin ILess); [reflexivity|bin_step].
  - eapply (spec_bin IMore); [reflexivity|bin_step].
  - eapply (spec_bin IMoreOrEqual); [reflexivity|bin_step].
  - eapply (spec_bin ILessOrEqual); [reflexivity|bin_step].
  - (* not in *)
    eapply spec_ext; [|apply (spec_seq [(IIn, l)] [(INot, l)] scs [vb; va] []);
      [eapply (spec_bin IIn); [reflexivity|bin_step]|intros v; apply spec_not]].
    intros r. cbn beta. unfold bool_res. destruct (p_in va vb); reflexivity.
  - (* in *)
    eapply spec_ext; [|eapply (spec_bin IIn); [reflexivity|bin_step]].
    intros r. cbn beta. unfold bool_res. destruct (p_in va vb); reflexivity.
  - eapply spec_ext; [|eapply (spec_bin IContains); [reflexivity|bin_step]].
    intros r; cbn. destruct (as_str va); cbn; auto. destruct (as_str vb); reflexivity.
  - eapply spec_ext; [|eapply (spec_bin IStartsWith); [reflexivity|bin_step]].
    intros r; cbn. destruct (as_str va); cbn; auto. destruct (as_str vb); reflexivity.
  - eapply spec_ext; [|eapply (spec_bin IEndsWith); [reflexivity|bin_step]].
    intros r; cbn. destruct (as_str va); cbn; auto. destruct (as_str vb); reflexivity.
  - (* range *)
    one_step. destruct (to_int va) as [lo|]; cbn; auto. destruct (to_int vb) as [hi|]; cbn; auto.
    destruct (range_size lo hi) as [n|]; cbn; auto.
    unfold alloc. destruct (c_limit cfg <=? r_mem r + n)%Z; reflexivity.
  - eapply (spec_bin IAdd); [reflexivity|bin_step].
  - eapply (spec_bin ISubtract); [reflexivity|bin_step].
  - eapply (spec_bin IMultiply); [reflexivity|bin_step].
  - eapply (spec_bin IDivide); [reflexivity|bin_step].
  - eapply (spec_bin IModulo); [reflexivity|bin_step].
  - eapply spec_ext; [|eapply (spec_bin IExponent); [reflexivity|bin_step]].
    intros r; cbn. destruct (to_float64 va); cbn; auto. destruct (to_float64 vb); reflexivity.
Qed.

Lemma eval_plain_binop ctx a op x y r :
  plain_binop op = true ->
  ev ctx (EBinary a op x y) r =
  rbind (ev ctx x r) (fun va r1 => rbind (ev ctx y r1) (fun vb r2 => binop_sem (aloc a) op x y va vb r2)).
Proof. intros Hop. destruct op; try discriminate; reflexivity. Qed.

Lemma compile_plain_binop a op x y :
  plain_binop op = true ->
  comp (EBinary a op x y) = comp x ++ comp y ++ at_ (aloc a) (binop_code op x y).
Proof. intros Hop. destruct op; try discriminate; reflexivity. Qed.

Lemma correct_binary_plain a op x y :
  plain_binop op = true -> correct x -> correct y -> correct (EBinary a op x y).
Proof.
  intros Hop IHx IHy ctx scs CM. rewrite (compile_plain_binop _ _ _ _ Hop).
  eapply spec_ext; [intros r; symmetry; apply (eval_plain_binop _ _ _ _ _ _ Hop)|].
  apply (spec_seq _ _ _ [] []); [apply IHx; exact CM|]. intros va.
  apply (spec_seq _ _ _ [] [va]); [apply IHy; exact CM|]. intros vb.
  apply spec_binop_tail. exact Hop.
Qed.


(* ------------------------------------------------------------------ stepping tactics *)
Ltac explode H :=
  repeat first
  [ match type of H with code_at _ [] => clear H end
  | match type of H with code_at _ (_ :: _) =>
      let F := fresh "F" in apply code_at_cons_iff in H; destruct H as [F H]; cbn [isize] in H end
  | match type of H with code_at _ (_ ++ _) =>
      let G := fresh "G" in apply code_at_app_iff in H; destruct H as [G H]; explode G end ].

Ltac fetch_now :=
  unfold VM.step; cbn [VM.pc VM.stk VM.scs VM.rs];
  match goal with
  | F : fetch C ?P = Some _ |- context[fetch C ?Q] => replace Q with P by first [reflexivity | lia]; rewrite F
  end.

Tactic Notation "go" "by" tactic(t) :=
  eapply star_step; [ fetch_now; cbn; t; cbn; try reflexivity | ].
Tactic Notation "go" := eapply star_step; [ fetch_now; cbn; try reflexivity | ].
Tactic Notation "go_crash" "by" tactic(t) :=
  eapply crash_step; [ fetch_now; cbn; t; cbn; try reflexivity | ].
Tactic Notation "go_crash" := eapply crash_step; [ fetch_now; cbn; try reflexivity | ].
Ltac crash_here := apply crash_now; fetch_now; cbn.
Ltac norm_sz := repeat (progress (cbn [csize isize at_ map app]; rewrite ?csize_app)).
Ltac done_pc := eapply star_pc; [apply star_refl | first [reflexivity | norm_sz; first [lia | reflexivity | idtac]]].

(* ------------------------------------------------------------------ short circuit, conditional *)
Definition is_or (op : binop) : bool := match op with BOrWord | BOrOr => true | _ => false end.
Definition is_and (op : binop) : bool := match op with BAndWord | BAndAnd => true | _ => false end.

Lemma correct_or a op x y : is_or op = true -> correct x -> correct y -> correct (EBinary a op x y).
Proof.
  intros Hop IHx IHy ctx scs CM.
  assert (Ec : comp (EBinary a op x y) = comp x ++ at_ (aloc a) [IJumpIfTrue (1 + csize (comp y)); IPop] ++ comp y)
    by (destruct op; try discriminate; reflexivity).
  assert (Ee : forall r, ev ctx (EBinary a op x y) r =
            rbind (ev ctx x r) (fun va r1 => lift (aloc a) r1 (as_bool va) (fun b => if b then Done va r1 else ev ctx y r1)))
    by (intros r; destruct op; try discriminate; reflexivity).
  rewrite Ec. intros p Hc st r. rewrite Ee. cbn [at_ map] in Hc. explode Hc. cbn [csize isize] in *.
  match goal with G : code_at _ (comp x) |- _ => pose proof (IHx ctx scs CM _ G st r) as Hx end.
  destruct (ev ctx x r) as [va r1|e l r1]; cbn [rbind]; [|exact Hx].
  destruct (as_bool va) as [b|e] eqn:Eb; cbn [lift].
  - destruct b.
    + eapply star_trans; [exact Hx|]. go by (rewrite Eb). done_pc.
    + match goal with G : code_at _ (comp y) |- _ => pose proof (IHy ctx scs CM _ G st r1) as Hy end.
      destruct (ev ctx y r1) as [vb r2|e l r2].
      * eapply star_trans; [exact Hx|]. go by (rewrite Eb). go.
        eapply star_trans; [eapply star_pc0; [exact Hy|lia]|]. done_pc.
      * eapply crash_trans; [exact Hx|]. go_crash by (rewrite Eb). go_crash.
        eapply crash_pc0; [exact Hy|lia].
  - eapply crash_trans; [exact Hx|]. crash_here. rewrite Eb. reflexivity.
Qed.

Lemma correct_and a op x y : is_and op = true -> correct x -> correct y -> correct (EBinary a op x y).
Proof.
  intros Hop IHx IHy ctx scs CM.
  assert (Ec : comp (EBinary a op x y) = comp x ++ at_ (aloc a) [IJumpIfFalse (1 + csize (comp y)); IPop] ++ comp y)
    by (destruct op; try discriminate; reflexivity).
  assert (Ee : forall r, ev ctx (EBinary a op x y) r =
            rbind (ev ctx x r) (fun va r1 => lift (aloc a) r1 (as_bool va) (fun b => if b then ev ctx y r1 else Done va r1)))
    by (intros r; destruct op; try discriminate; reflexivity).
  rewrite Ec. intros p Hc st r. rewrite Ee. cbn [at_ map] in Hc. explode Hc. cbn [csize isize] in *.
  match goal with G : code_at _ (comp x) |- _ => pose proof (IHx ctx scs CM _ G st r) as Hx end.
  destruct (ev ctx x r) as [va r1|e l r1]; cbn [rbind]; [|exact Hx].
  destruct (as_bool va) as [b|e] eqn:Eb; cbn [lift].
  - destruct b.
    + match goal with G : code_at _ (comp y) |- _ => pose proof (IHy ctx scs CM _ G st r1) as Hy end.
      destruct (ev ctx y r1) as [vb r2|e l r2].
      * eapply star_trans; [exact Hx|]. go by (rewrite Eb). go.
        eapply star_trans; [eapply star_pc0; [exact Hy|lia]|]. done_pc.
      * eapply crash_trans; [exact Hx|]. go_crash by (rewrite Eb). go_crash.
        eapply crash_pc0; [exact Hy|lia].
    + eapply star_trans; [exact Hx|]. go by (rewrite Eb). done_pc.
  - eapply crash_trans; [exact Hx|]. crash_here. rewrite Eb. reflexivity.
Qed.

Lemma correct_cond a c x y : correct c -> correct x -> correct y -> correct (ECond a c x y).
Proof.
  intros IHc IHx IHy ctx scs CM. cbn [compile]. intros p Hc st r. cbn [eval loc_of ann_of].
  cbn [at_ map] in Hc. explode Hc. cbn [csize isize] in *.
  match goal with G : code_at _ (comp c) |- _ => pose proof (IHc ctx scs CM _ G st r) as Hcc end.
  destruct (ev ctx c r) as [vc r1|e l r1]; cbn [rbind]; [|exact Hcc].
  destruct (as_bool vc) as [b|e] eqn:Eb; cbn [lift].
  - destruct b.
    + match goal with G : code_at _ (comp x) |- _ => pose proof (IHx ctx scs CM _ G st r1) as Hx end.
      destruct (ev ctx x r1) as [vx r2|e l r2].
      * eapply star_trans; [exact Hcc|]. go by (rewrite Eb). go.
        eapply star_trans; [eapply star_pc0; [exact Hx|lia]|]. go. done_pc.
      * eapply crash_trans; [exact Hcc|]. go_crash by (rewrite Eb). go_crash.
        eapply crash_pc0; [exact Hx|lia].
    + match goal with G : code_at _ (comp y) |- _ => pose proof (IHy ctx scs CM _ G st r1) as Hy end.
      destruct (ev ctx y r1) as [vy r2|e l r2].
      * eapply star_trans; [exact Hcc|]. go by (rewrite Eb). go.
        eapply star_trans; [eapply star_pc0; [exact Hy|rewrite ?csize_app; cbn; lia]|]. done_pc.
      * eapply crash_trans; [exact Hcc|]. go_crash by (rewrite Eb). go_crash.
        eapply crash_pc0; [exact Hy|rewrite ?csize_app; cbn; lia].
  - eapply crash_trans; [exact Hcc|]. crash_here. rewrite Eb. reflexivity.
Qed.


(* ------------------------------------------------------------------ argument lists *)
Inductive lresult := LDone (vs : list value) (r : rstate) | LStop (e : err) (l : loc) (r : rstate).

Fixpoint evl (ctx : list (value * Z)) (es : list expr) (r : rstate) : lresult :=
  match es with
  | [] => LDone [] r
  | x :: rest =>
      match ev ctx x r with
      | Done v r1 => match evl ctx rest r1 with
                     | LDone vs r2 => LDone (v :: vs) r2
                     | stop => stop
                     end
      | Stop e l r1 => LStop e l r1
      end
  end.

Section EvalList.
Variable ctx : list (value * Z).
Fixpoint eval_list (es : list expr) (r : rstate) (k : list value -> rstate -> result) : result :=
  match es with
  | [] => k [] r
  | x :: rest => rbind (ev ctx x r) (fun v r1 => eval_list rest r1 (fun vs r2 => k (v :: vs) r2))
  end.
End EvalList.

Lemma eval_list_evl ctx es : forall r k,
  eval_list ctx es r k = match evl ctx es r with LDone vs r' => k vs r' | LStop e l r' => Stop e l r' end.
Proof.
  induction es as [|x rest IH]; intros r k; cbn [eval_list evl]; auto.
  destruct (ev ctx x r) as [v r1|e l r1]; cbn [rbind]; auto.
  rewrite IH. destruct (evl ctx rest r1); reflexivity.
Qed.

Lemma evl_length ctx es : forall r vs r', evl ctx es r = LDone vs r' -> List.length vs = List.length es.
Proof.
  induction es as [|x rest IH]; intros r vs r' H; cbn in H.
  - inversion H; reflexivity.
  - destruct (ev ctx x r) as [v r1|]; try discriminate.
    destruct (evl ctx rest r1) as [vs1 r2|] eqn:E; try discriminate.
    inversion H; subst. cbn. f_equal. eapply IH; eauto.
Qed.

Lemma correct_list es : (forall e, In e es -> correct e) ->
  forall ctx scs, ctx_match ctx scs -> forall p, code_at p (compile_list mapenv es) -> forall st r,
  match evl ctx es r with
  | LDone vs r' => star (mkSt p st scs r) (mkSt (p + csize (compile_list mapenv es)) (rev vs ++ st) scs r')
  | LStop e l r' => crashes (mkSt p st scs r) e l r'
  end.
Proof.
  induction es as [|x rest IH]; intros Hall ctx scs CM p Hc st r; cbn [evl compile_list].
  - cbn. eapply star_pc; [apply star_refl|lia].
  - cbn [compile_list] in Hc. apply code_at_app_iff in Hc. destruct Hc as [Hx Hr].
    pose proof (Hall x (or_introl eq_refl) ctx scs CM p Hx st r) as Ex. cbn [app] in Ex.
    destruct (ev ctx x r) as [v r1|e l r1]; [|exact Ex].
    specialize (IH (fun e He => Hall e (or_intror He)) ctx scs CM _ Hr (v :: st) r1).
    destruct (evl ctx rest r1) as [vs r2|e l r2].
    + eapply star_trans; [exact Ex|]. eapply star_pc.
      * cbn [rev]. rewrite <- app_assoc. cbn [app]. exact IH.
      * rewrite csize_app. lia.
    + eapply crash_trans; [exact Ex|exact IH].
Qed.

Lemma popn_app vs : forall st acc, popn (List.length vs) (rev vs ++ st) acc = Some (vs ++ acc, st).
Proof.
  induction vs as [|v vs IH] using rev_ind; intros st acc; cbn; auto.
  rewrite rev_app_distr, app_length. cbn [rev app List.length]. rewrite Nat.add_comm. cbn [plus popn].
  rewrite IH. rewrite <- app_assoc. reflexivity.
Qed.

Lemma popn_exact vs st : popn (List.length vs) (rev vs ++ st) [] = Some (vs, st).
Proof. rewrite popn_app, app_nil_r. reflexivity. Qed.

(* the local list evaluators inside eval / compile coincide with the top-level ones *)
Lemma eval_function_eq ctx a name args fast r :
  ev ctx (EFunction a name args fast) r =
  eval_list ctx args r (fun vs r1 => lift (aloc a) r1 (fetch_fn fe env name) (fun id => do_call fe (aloc a) fast id env vs r1)).
Proof. reflexivity. Qed.

Lemma eval_method_eq ctx a x name args ns r :
  ev ctx (EMethod a x name args ns) r =
  rbind (ev ctx x r) (fun v r1 =>
  eval_list ctx args r1 (fun vs r2 =>
    match ns, v with
    | true, VNil => Done VNil r2
    | _, _ => if ns && fetch_fn_zero v name then Done VNil r2
              else lift (aloc a) r2 (fetch_fn fe v name) (fun id => do_call fe (aloc a) false id v vs r2)
    end)).
Proof. reflexivity. Qed.

Local Arguments fetch_fn_zero : simpl never.

Lemma eval_array_eq ctx a es r :
  ev ctx (EArray a es) r =
  eval_list ctx es r (fun vs r1 => alloc cfg (aloc a) (Z.of_nat (List.length vs)) r1 (fun r2 => Done (VArr TIface vs) r2)).
Proof. reflexivity. Qed.

Lemma compile_function_eq a name args fast :
  comp (EFunction a name args fast) =
  compile_list mapenv args ++ at_ (aloc a) [if fast then ICallFast name (List.length args) else ICall name (List.length args)].
Proof. reflexivity. Qed.

Lemma compile_method_eq a x name args ns :
  comp (EMethod a x name args ns) =
  comp x ++ compile_list mapenv args ++
  at_ (aloc a) [if ns then IMethodNilSafe name (List.length args) else IMethod name (List.length args)].
Proof. reflexivity. Qed.

Lemma compile_array_eq a es :
  comp (EArray a es) = compile_list mapenv es ++ at_ (aloc a) [IPush (vint (Z.of_nat (List.length es))); IArray].
Proof. reflexivity. Qed.


(* ------------------------------------------------------------------ calls, arrays *)
Lemma correct_function a name args fast :
  (forall e, In e args -> correct e) -> correct (EFunction a name args fast).
Proof.
  intros Hall ctx scs CM. rewrite compile_function_eq. intros p Hc st r.
  rewrite eval_function_eq, eval_list_evl. apply code_at_app_iff in Hc. destruct Hc as [Hl Hi].
  pose proof (correct_list args Hall ctx scs CM p Hl st r) as El.
  destruct (evl ctx args r) as [vs r1|e l r1] eqn:Ev; [|exact El].
  pose proof (evl_length _ _ _ _ _ Ev) as Hlen.
  cbn [at_ map] in Hi. apply code_at_head in Hi.
  assert (Hpop : popn (List.length args) (rev vs ++ st) [] = Some (vs, st)) by (rewrite <- Hlen; apply popn_exact).
  destruct fast.
  - destruct (fetch_fn fe env name) as [id|e] eqn:Ef; cbn [lift].
    + destruct (do_call fe (aloc a) true id env vs r1) as [v r2|e l r2] eqn:Ed.
      * eapply star_trans; [exact El|]. eapply star_step.
        { unfold VM.step; cbn [VM.pc VM.stk VM.scs VM.rs]; rewrite Hi; cbn. rewrite Hpop, Ef. unfold of_result. rewrite Ed. reflexivity. }
        done_pc.
      * eapply crash_trans; [exact El|]. apply crash_now.
        unfold VM.step; cbn [VM.pc VM.stk VM.scs VM.rs]; rewrite Hi; cbn. rewrite Hpop, Ef. unfold of_result. rewrite Ed. reflexivity.
    + eapply crash_trans; [exact El|]. apply crash_now.
      unfold VM.step; cbn [VM.pc VM.stk VM.scs VM.rs]; rewrite Hi; cbn. rewrite Hpop, Ef. reflexivity.
  - destruct (fetch_fn fe env name) as [id|e] eqn:Ef; cbn [lift].
    + destruct (do_call fe (aloc a) false id env vs r1) as [v r2|e l r2] eqn:Ed.
      * eapply star_trans; [exact El|]. eapply star_step.
        { unfold VM.step; cbn [VM.pc VM.stk VM.scs VM.rs]; rewrite Hi; cbn. rewrite Hpop, Ef. unfold of_result. rewrite Ed. reflexivity. }
        done_pc.
      * eapply crash_trans; [exact El|]. apply crash_now.
        unfold VM.step; cbn [VM.pc VM.stk VM.scs VM.rs]; rewrite Hi; cbn. rewrite Hpop, Ef. unfold of_result. rewrite Ed. reflexivity.
    + eapply crash_trans; [exact El|]. apply crash_now.
      unfold VM.step; cbn [VM.pc VM.stk VM.scs VM.rs]; rewrite Hi; cbn. rewrite Hpop, Ef. reflexivity.
Qed.

Lemma correct_method a x name args ns :
  correct x -> (forall e, In e args -> correct e) -> correct (EMethod a x name args ns).
Proof.
  intros IHx Hall ctx scs CM. rewrite compile_method_eq. intros p Hc st r.
  rewrite eval_method_eq. apply code_at_app_iff in Hc. destruct Hc as [Hx Hc].
  apply code_at_app_iff in Hc. destruct Hc as [Hl Hi].
  pose proof (IHx ctx scs CM p Hx st r) as Ex. cbn [app] in Ex.
  destruct (ev ctx x r) as [v r0|e l r0]; cbn [rbind]; [|exact Ex].
  rewrite eval_list_evl.
  pose proof (correct_list args Hall ctx scs CM _ Hl (v :: st) r0) as El.
  destruct (evl ctx args r0) as [vs r1|e l r1] eqn:Ev; [|eapply crash_trans; [exact Ex|exact El]].
  pose proof (evl_length _ _ _ _ _ Ev) as Hlen.
  cbn [at_ map] in Hi. apply code_at_head in Hi.
  assert (Hpop : popn (List.length args) (rev vs ++ v :: st) [] = Some (vs, v :: st)) by (rewrite <- Hlen; apply popn_exact).
  assert (Pre : star (mkSt p st scs r) (mkSt (p + csize (comp x) + csize (compile_list mapenv args)) (rev vs ++ v :: st) scs r1))
    by (eapply star_trans; [exact Ex|exact El]).
  destruct ns.
  - destruct v eqn:Ev0.
    1: { (* nil receiver: nil *)
      eapply star_trans; [exact Pre|]. eapply star_step.
      { unfold VM.step; cbn [VM.pc VM.stk VM.scs VM.rs]; rewrite Hi; cbn. rewrite Hpop. reflexivity. }
      done_pc. }
    all: cbn [andb]; match goal with |- context[fetch_fn_zero ?V ?N] => destruct (fetch_fn_zero V N) eqn:Ez end; cbn beta iota.
    (* FetchFnNil gave the zero Value (nil entry of the map): nil *)
    all: try solve [ eapply star_trans; [exact Pre|]; eapply star_step;
          [ unfold VM.step; cbn [VM.pc VM.stk VM.scs VM.rs]; rewrite Hi; cbn [isize]; rewrite Hpop; cbn beta iota; rewrite Ez; reflexivity | done_pc ] ].
    all: match goal with |- context[fetch_fn fe ?V ?N] =>
      destruct (fetch_fn fe V N) as [id|e] eqn:Ef; cbn [lift];
      [ destruct (do_call fe (aloc a) false id V vs r1) as [w r2|e2 l2 r2] eqn:Ed;
        [ eapply star_trans; [exact Pre|]; eapply star_step;
          [ unfold VM.step; cbn [VM.pc VM.stk VM.scs VM.rs]; rewrite Hi; cbn [isize]; rewrite Hpop; cbn beta iota; rewrite Ez; cbn beta iota; rewrite Ef; unfold of_result; rewrite Ed; reflexivity | done_pc ]
        | eapply crash_trans; [exact Pre|]; apply crash_now;
          unfold VM.step; cbn [VM.pc VM.stk VM.scs VM.rs]; rewrite Hi; cbn [isize]; rewrite Hpop; cbn beta iota; rewrite Ez; cbn beta iota; rewrite Ef; unfold of_result; rewrite Ed; reflexivity ]
      | eapply crash_trans; [exact Pre|]; apply crash_now;
        unfold VM.step; cbn [VM.pc VM.stk VM.scs VM.rs]; rewrite Hi; cbn [isize]; rewrite Hpop; cbn beta iota; rewrite Ez; cbn beta iota; rewrite Ef; reflexivity ] end.
  - cbn beta iota. cbn [andb].
    destruct (fetch_fn fe v name) as [id|e] eqn:Ef; cbn [lift].
    + destruct (do_call fe (aloc a) false id v vs r1) as [w r2|e l r2] eqn:Ed.
      * eapply star_trans; [exact Pre|]. eapply star_step.
        { unfold VM.step; cbn [VM.pc VM.stk VM.scs VM.rs]; rewrite Hi; cbn. rewrite Hpop, Ef. unfold of_result. rewrite Ed. reflexivity. }
        done_pc.
      * eapply crash_trans; [exact Pre|]. apply crash_now.
        unfold VM.step; cbn [VM.pc VM.stk VM.scs VM.rs]; rewrite Hi; cbn. rewrite Hpop, Ef. unfold of_result. rewrite Ed. reflexivity.
    + eapply crash_trans; [exact Pre|]. apply crash_now.
      unfold VM.step; cbn [VM.pc VM.stk VM.scs VM.rs]; rewrite Hi; cbn. rewrite Hpop, Ef. reflexivity.
Qed.

Lemma as_int_vint z : as_int (vint z) = Ok z.
Proof. reflexivity. Qed.

Lemma correct_array a es : (forall e, In e es -> correct e) -> correct (EArray a es).
Proof.
  intros Hall ctx scs CM. rewrite compile_array_eq. intros p Hc st r.
  rewrite eval_array_eq, eval_list_evl. apply code_at_app_iff in Hc. destruct Hc as [Hl Hi].
  pose proof (correct_list es Hall ctx scs CM p Hl st r) as El.
  destruct (evl ctx es r) as [vs r1|e l r1] eqn:Ev; [|exact El].
  pose proof (evl_length _ _ _ _ _ Ev) as Hlen.
  cbn [at_ map] in Hi. explode Hi.
  assert (Hpop : popn (Z.to_nat (Z.of_nat (List.length es))) (rev vs ++ st) [] = Some (vs, st)).
  { rewrite Nat2Z.id, <- Hlen. apply popn_exact. }
  assert (Hlt : (Z.of_nat (List.length es) <? 0)%Z = false) by (apply Z.ltb_ge; lia).
  assert (Hen : (Z.of_nat (List.length (rev vs ++ st)) <? Z.of_nat (List.length es))%Z = false).
  { apply Z.ltb_ge. rewrite app_length, rev_length, Hlen. lia. }
  rewrite Hlen.
  unfold alloc. destruct (c_limit cfg <=? r_mem r1 + Z.of_nat (List.length es))%Z eqn:Eb.
  - eapply crash_trans; [exact El|]. go_crash. crash_here.
    rewrite Hlt, Hen, Hpop. unfold of_result, alloc. rewrite Eb. reflexivity.
  - eapply star_trans; [exact El|]. go. eapply star_step.
    { fetch_now. cbn. rewrite Hlt, Hen, Hpop. unfold of_result, alloc. rewrite Eb. reflexivity. }
    done_pc.
Qed.


(* ------------------------------------------------------------------ matches, property, index, len *)
Lemma correct_matches a re x y : correct x -> correct y -> correct (EMatches a re x y).
Proof.
  intros IHx IHy ctx scs CM. cbn [compile]. destruct (re_const re y) as [pat|] eqn:Erc.
  - eapply spec_ext; [|eapply (spec_seq _ _ _ [] []); [apply IHx; exact CM|intros va]].
    + intros r; cbn [eval loc_of ann_of]; rewrite Erc; reflexivity.
    + cbn [at_ map]. one_step. destruct (as_str va) as [sx|]; cbn; auto. destruct (re_match fe pat sx); reflexivity.
  - eapply spec_ext; [|eapply (spec_seq _ _ _ [] []); [apply IHx; exact CM|intros va;
      eapply (spec_seq _ _ _ [] [va]); [apply IHy; exact CM|intros vb]]].
    + intros r; cbn [eval loc_of ann_of]; rewrite Erc; reflexivity.
    + cbn [at_ map]. eapply spec_ext; [|eapply (spec_bin IMatches); [reflexivity|bin_step]].
      intros r; cbn. destruct (as_str vb) as [sp|]; cbn; auto. destruct (as_str va) as [sx|]; cbn; auto.
      destruct (re_match fe sp sx); reflexivity.
Qed.

Lemma correct_property a x name ns : correct x -> correct (EProperty a x name ns).
Proof.
  intros IHx ctx scs CM. cbn [compile].
  eapply spec_ext; [|eapply (spec_seq _ _ _ [] []); [apply IHx; exact CM|intros va]].
  - intros r; cbn [eval loc_of ann_of]; reflexivity.
  - cbn [at_ map]. destruct ns; one_step; destruct (p_fetch va (VStr name) _); reflexivity.
Qed.

Lemma correct_index a x i : correct x -> correct i -> correct (EIndex a x i).
Proof.
  intros IHx IHi ctx scs CM. cbn [compile].
  eapply spec_ext; [|eapply (spec_seq _ _ _ [] []); [apply IHx; exact CM|intros va;
    eapply (spec_seq _ _ _ [] [va]); [apply IHi; exact CM|intros vb]]].
  - intros r; cbn [eval loc_of ann_of]; reflexivity.
  - cbn [at_ map]. eapply (spec_bin IIndex _ _ (fun a b => p_fetch a b false)); [reflexivity|bin_step].
Qed.

Lemma correct_closure a x : correct x -> correct (EClosure a x).
Proof. intros IHx ctx scs CM. cbn [compile]. eapply spec_ext; [|apply IHx; exact CM]. intros r; reflexivity. Qed.

Lemma spec_len_tail l scs v :
  spec (at_ l [ILen; IRot; IPop]) scs [v] (fun r => lift l r (p_length v) (fun n => Done (vint n) r)).
Proof.
  intros p Hc st r. cbn [at_ map] in Hc. explode Hc. cbn [app].
  destruct (p_length v) as [n|e] eqn:El; cbn [lift].
  - go by (rewrite El). go. go. done_pc.
  - crash_here. rewrite El. reflexivity.
Qed.

Lemma correct_len a x : correct x -> correct (EBuiltin a BiLen [x]).
Proof.
  intros IHx ctx scs CM. cbn [compile].
  eapply spec_ext; [|eapply (spec_seq _ _ _ [] []); [apply IHx; exact CM|intros va; apply spec_len_tail]].
  intros r; cbn [eval loc_of ann_of]; reflexivity.
Qed.

(* ------------------------------------------------------------------ slice *)
(* the three parts of a slice after the sliced operand, as "push one value above v" blocks *)
Definition pushes_above (p : nat) (c : code) (scs : list scope) (below : list value) (K : rstate -> result) : Prop :=
  forall st r,
    match K r with
    | Done w r' => star (mkSt p (below ++ st) scs r) (mkSt (p + csize c) (w :: below ++ st) scs r')
    | Stop e l r' => crashes (mkSt p (below ++ st) scs r) e l r'
    end.

Lemma pushes_of_spec c scs K below p : spec c scs [] K -> code_at p c -> pushes_above p c scs below K.
Proof. intros H Hc st r. exact (H p Hc (below ++ st) r). Qed.

Lemma pushes_len l scs v below p :
  code_at p (at_ l [ILen]) ->
  pushes_above p (at_ l [ILen]) scs (v :: below) (fun r => lift l r (p_length v) (fun n => Done (vint n) r)).
Proof.
  intros Hc st r. apply (code_at_head _ ILen l []) in Hc. cbn [app].
  destruct (p_length v) as [n|e] eqn:El; cbn [lift].
  - eapply star_step. { fetch_now. cbn. rewrite El. reflexivity. }
    eapply star_pc; [apply star_refl|cbn; lia].
  - apply crash_now. fetch_now. cbn. rewrite El. reflexivity.
Qed.

Lemma pushes_const l scs w below p :
  code_at p (at_ l [IPush w]) -> pushes_above p (at_ l [IPush w]) scs below (fun r => Done w r).
Proof.
  intros Hc st r. apply (code_at_head _ (IPush w) l []) in Hc.
  eapply star_step. { fetch_now. cbn. reflexivity. }
  eapply star_pc; [apply star_refl|cbn; lia].
Qed.

Lemma slice_assemble l scs cx ct cf KX KT KF :
  spec cx scs [] KX ->
  (forall v p, code_at p ct -> pushes_above p ct scs [v] (KT v)) ->
  (forall v vto p, code_at p cf -> pushes_above p cf scs [vto; v] (KF v vto)) ->
  spec (cx ++ ct ++ cf ++ at_ l [ISlice]) scs []
    (fun r => rbind (KX r) (fun v r1 => rbind (KT v r1) (fun vto r2 => rbind (KF v vto r2) (fun vf r3 =>
       lift l r3 (p_slice v vf vto) (fun w => Done w r3))))).
Proof.
  intros HX HT HF p Hc st r.
  apply code_at_app_iff in Hc. destruct Hc as [Hx Hc].
  apply code_at_app_iff in Hc. destruct Hc as [Ht Hc].
  apply code_at_app_iff in Hc. destruct Hc as [Hf Hs].
  apply (code_at_head _ ISlice l []) in Hs.
  pose proof (HX p Hx st r) as Ex. cbn [app] in *.
  destruct (KX r) as [v r1|e le r1]; cbn [rbind]; [|exact Ex].
  pose proof (HT v _ Ht st r1) as Et. cbn [app] in Et.
  destruct (KT v r1) as [vto r2|e le r2]; cbn [rbind]; [|eapply crash_trans; [exact Ex|exact Et]].
  pose proof (HF v vto _ Hf st r2) as Ef. cbn [app] in Ef.
  destruct (KF v vto r2) as [vf r3|e le r3]; cbn [rbind].
  2: { eapply crash_trans; [exact Ex|]. eapply crash_trans; [exact Et|exact Ef]. }
  destruct (p_slice v vf vto) as [w|e] eqn:Es; cbn [lift].
  - eapply star_trans; [exact Ex|]. eapply star_trans; [exact Et|]. eapply star_trans; [exact Ef|].
    eapply star_step. { fetch_now. cbn. rewrite Es. reflexivity. }
    eapply star_pc; [apply star_refl|]. rewrite !csize_app. cbn. lia.
  - eapply crash_trans; [exact Ex|]. eapply crash_trans; [exact Et|]. eapply crash_trans; [exact Ef|].
    apply crash_now. fetch_now. cbn. rewrite Es. reflexivity.
Qed.

Lemma correct_slice a x from to :
  correct x -> (forall f, from = Some f -> correct f) -> (forall t, to = Some t -> correct t) ->
  correct (ESlice a x from to).
Proof.
  intros IHx IHf IHt ctx scs CM.
  destruct to as [t|], from as [f|]; cbn [compile]; unfold loc_of; cbn [ann_of];
    (eapply spec_ext; [|eapply (slice_assemble (aloc a)); [apply IHx; exact CM| |]]).
  all: try (intros r; cbn [eval]; unfold loc_of; cbn [ann_of]; reflexivity).
  all: try (intros v p Hc; apply pushes_of_spec; [apply (IHt t eq_refl); exact CM|exact Hc]).
  all: try (intros v vto p Hc; apply pushes_of_spec; [apply (IHf f eq_refl); exact CM|exact Hc]).
  all: try (intros v p Hc; apply (pushes_len (aloc a) scs v [] p Hc)).
  all: try (intros v vto p Hc; apply (pushes_const (aloc a) scs (vint 0) [vto; v] p Hc)).
Qed.


(* ------------------------------------------------------------------ map literals *)
Inductive presult := PDone (kvs : list (value * value)) (r : rstate) | PStop (e : err) (l : loc) (r : rstate).

Section EvalPairs.
Variable ctx : list (value * Z).
Variable here : loc.
Fixpoint eval_pairs (ps : list expr) (s : rstate) (k : list (value * value) -> rstate -> result) : result :=
  match ps with
  | [] => k [] s
  | EPair _ kx vx :: r =>
      rbind (ev ctx kx s) (fun vk s1 => rbind (ev ctx vx s1) (fun vv s2 =>
      eval_pairs r s2 (fun kvs s3 => k ((vk, vv) :: kvs) s3)))
  | _ :: _ => Stop EOther here s
  end.

Fixpoint evp (ps : list expr) (s : rstate) : presult :=
  match ps with
  | [] => PDone [] s
  | EPair _ kx vx :: r =>
      match ev ctx kx s with
      | Done vk s1 =>
          match ev ctx vx s1 with
          | Done vv s2 => match evp r s2 with
                          | PDone kvs s3 => PDone ((vk, vv) :: kvs) s3
                          | stop => stop
                          end
          | Stop e l s2 => PStop e l s2
          end
      | Stop e l s1 => PStop e l s1
      end
  | _ :: _ => PStop EOther here s
  end.

Lemma eval_pairs_evp ps : forall s k,
  eval_pairs ps s k = match evp ps s with PDone kvs s' => k kvs s' | PStop e l s' => Stop e l s' end.
Proof.
  induction ps as [|x rest IH]; intros s k; cbn [eval_pairs evp]; auto.
  destruct x; auto.
  destruct (ev ctx x1 s) as [vk s1|e l s1]; cbn [rbind]; auto.
  destruct (ev ctx x2 s1) as [vv s2|e l s2]; cbn [rbind]; auto.
  rewrite IH. destruct (evp rest s2); reflexivity.
Qed.
End EvalPairs.

Lemma eval_map_eq ctx a pairs r :
  ev ctx (EMap a pairs) r =
  eval_pairs ctx (aloc a) pairs r (fun kvs r1 =>
    lift (aloc a) r1 (keys_as_str kvs) (fun skvs =>
    alloc cfg (aloc a) (Z.of_nat (List.length kvs)) r1 (fun r2 => Done (VMap TString TIface (build_map skvs)) r2))).
Proof. reflexivity. Qed.

Lemma compile_map_eq a pairs :
  comp (EMap a pairs) = compile_pairs mapenv pairs ++ at_ (aloc a) [IPush (vint (Z.of_nat (List.length pairs))); IMap].
Proof. reflexivity. Qed.

Definition push_pairs (kvs : list (value * value)) (st : list value) : list value :=
  fold_left (fun st kv => snd kv :: fst kv :: st) kvs st.

Lemma push_pairs_snoc kvs k v st : push_pairs (kvs ++ [(k, v)]) st = v :: k :: push_pairs kvs st.
Proof. unfold push_pairs. rewrite fold_left_app. reflexivity. Qed.

Lemma pop_pairs_app kvs : forall st acc, pop_pairs (List.length kvs) (push_pairs kvs st) acc = Some (kvs ++ acc, st).
Proof.
  induction kvs as [|[k v] kvs IH] using rev_ind; intros st acc; cbn; auto.
  rewrite push_pairs_snoc, app_length. cbn [List.length]. rewrite Nat.add_comm. cbn [plus pop_pairs].
  rewrite IH. rewrite <- app_assoc. reflexivity.
Qed.

Lemma push_pairs_length kvs : forall st, List.length (push_pairs kvs st) = 2 * List.length kvs + List.length st.
Proof.
  induction kvs as [|[k v] kvs IH] using rev_ind; intros st; cbn; auto.
  rewrite push_pairs_snoc, app_length. cbn [List.length]. rewrite IH. lia.
Qed.

Definition pairs_ok (ps : list expr) : Prop :=
  forall e, In e ps -> match e with EPair _ k v => correct k /\ correct v | _ => False end.

Lemma evp_length ctx here ps : forall r kvs r', evp ctx here ps r = PDone kvs r' -> List.length kvs = List.length ps.
Proof.
  induction ps as [|x rest IH]; intros r kvs r' H; cbn in H.
  - inversion H; reflexivity.
  - destruct x; try discriminate.
    destruct (ev ctx x1 r) as [vk s1|]; try discriminate.
    destruct (ev ctx x2 s1) as [vv s2|]; try discriminate.
    destruct (evp ctx here rest s2) as [kvs1 s3|] eqn:E; try discriminate.
    inversion H; subst. cbn. f_equal. eapply IH; eauto.
Qed.

Lemma correct_pairs here ps : pairs_ok ps ->
  forall ctx scs, ctx_match ctx scs -> forall p, code_at p (compile_pairs mapenv ps) -> forall st r,
  match evp ctx here ps r with
  | PDone kvs r' => star (mkSt p st scs r) (mkSt (p + csize (compile_pairs mapenv ps)) (push_pairs kvs st) scs r')
  | PStop e l r' => crashes (mkSt p st scs r) e l r'
  end.
Proof.
  induction ps as [|x rest IH]; intros Hall ctx scs CM p Hc st r; cbn [evp compile_pairs].
  - cbn. eapply star_pc; [apply star_refl|lia].
  - pose proof (Hall x (or_introl eq_refl)) as Hx. destruct x; try contradiction. destruct Hx as [Ck Cv].
    cbn [compile_pairs] in Hc. apply code_at_app_iff in Hc. destruct Hc as [Hk Hc].
    apply code_at_app_iff in Hc. destruct Hc as [Hv Hr].
    pose proof (Ck ctx scs CM p Hk st r) as Ek. cbn [app] in Ek.
    destruct (ev ctx x1 r) as [vk r1|e l r1]; [|exact Ek].
    pose proof (Cv ctx scs CM _ Hv (vk :: st) r1) as Ev. cbn [app] in Ev.
    destruct (ev ctx x2 r1) as [vv r2|e l r2]; [|eapply crash_trans; [exact Ek|exact Ev]].
    specialize (IH (fun e He => Hall e (or_intror He)) ctx scs CM _ Hr (vv :: vk :: st) r2).
    destruct (evp ctx here rest r2) as [kvs r3|e l r3].
    + eapply star_trans; [exact Ek|]. eapply star_trans; [exact Ev|]. eapply star_pc.
      * exact IH.
      * rewrite !csize_app. lia.
    + eapply crash_trans; [exact Ek|]. eapply crash_trans; [exact Ev|exact IH].
Qed.

Lemma correct_map a pairs : pairs_ok pairs -> correct (EMap a pairs).
Proof.
  intros Hall ctx scs CM. rewrite compile_map_eq. intros p Hc st r.
  rewrite eval_map_eq, eval_pairs_evp. apply code_at_app_iff in Hc. destruct Hc as [Hl Hi].
  pose proof (correct_pairs (aloc a) pairs Hall ctx scs CM p Hl st r) as El.
  destruct (evp ctx (aloc a) pairs r) as [kvs r1|e l r1] eqn:Ev; [|exact El].
  pose proof (evp_length _ _ _ _ _ _ Ev) as Hlen.
  cbn [at_ map] in Hi. explode Hi.
  assert (Hpop : pop_pairs (Z.to_nat (Z.of_nat (List.length pairs))) (push_pairs kvs st) [] = Some (kvs, st)).
  { rewrite Nat2Z.id, <- Hlen, pop_pairs_app, app_nil_r. reflexivity. }
  assert (Hlt : (Z.of_nat (List.length pairs) <? 0)%Z = false) by (apply Z.ltb_ge; lia).
  assert (Hen : (Z.of_nat (List.length (push_pairs kvs st)) <? 2 * Z.of_nat (List.length pairs))%Z = false).
  { apply Z.ltb_ge. rewrite push_pairs_length, Hlen. lia. }
  rewrite Hlen.
  destruct (keys_as_str kvs) as [skvs|e] eqn:Ek; cbn [lift].
  - unfold alloc. destruct (c_limit cfg <=? r_mem r1 + Z.of_nat (List.length pairs))%Z eqn:Eb.
    + eapply crash_trans; [exact El|]. go_crash. apply crash_now. fetch_now. cbn [as_int vint].
      rewrite Hlt, Hen, Hpop, Ek. unfold of_result, alloc. rewrite Eb. reflexivity.
    + eapply star_trans; [exact El|]. go. eapply star_step.
      { fetch_now. cbn [as_int vint]. rewrite Hlt, Hen, Hpop, Ek. unfold of_result, alloc. rewrite Eb. reflexivity. }
      done_pc.
  - eapply crash_trans; [exact El|]. go_crash. apply crash_now. fetch_now. cbn [as_int vint].
    rewrite Hlt, Hen, Hpop, Ek. reflexivity.
Qed.


(* ------------------------------------------------------------------ loops: common parts *)
Definition loop_scope (sc : scope) (arr : value) (n k : Z) : Prop :=
  sget sc "array" = Some arr /\ sget sc "size" = Some (vint n) /\ sget sc "i" = Some (vint k).

Lemma loop_scope_inc sc arr n k : loop_scope sc arr n k -> loop_scope (sset sc "i" (vint (k + 1)%Z)) arr n (k + 1)%Z.
Proof. intros (A & B & D). unfold loop_scope, sset; cbn. repeat split; auto. Qed.

Lemma loop_scope_ctx sc arr n k ctx scs :
  loop_scope sc arr n k -> ctx_match ctx scs -> ctx_match ((arr, k) :: ctx) (sc :: scs).
Proof. intros (A & B & D) CM. constructor; auto. Qed.

Lemma less_int k n : p_helper HLess (vint k) (vint n) = Ok (VBool (k <? n)%Z).
Proof. reflexivity. Qed.

Lemma equal_int k n : p_equal (vint k) (vint n) = Ok (VBool (k =? n)%Z).
Proof. reflexivity. Qed.

(* the loop head: ILen .. IStore "i" *)
Lemma loop_enter l body p0 arr st sc0 scs r :
  code_at p0 (loop_code l body) ->
  match p_length arr with
  | Ok n => star (mkSt p0 (arr :: st) (sc0 :: scs) r)
                 (mkSt (p0 + 13) st (sset (sset (sset sc0 "size" (vint n)) "array" arr) "i" (vint 0) :: scs) r)
  | Fail e => crashes (mkSt p0 (arr :: st) (sc0 :: scs) r) e l r
  end.
Proof.
  intros Hc. unfold loop_code in Hc. cbn [at_ map app] in Hc. explode Hc. cbn [csize isize] in *.
  destruct (p_length arr) as [n|e] eqn:El.
  - go by (rewrite El). go. go. go. go. done_pc.
  - crash_here. rewrite El. reflexivity.
Qed.

(* the loop test at p0 + 13 *)
Lemma loop_test l body p0 arr n k st sc scs r :
  code_at p0 (loop_code l body) -> loop_scope sc arr n k ->
  if (k <? n)%Z
  then star (mkSt (p0 + 13) st (sc :: scs) r) (mkSt (p0 + 24) st (sc :: scs) r)
  else star (mkSt (p0 + 13) st (sc :: scs) r) (mkSt (p0 + csize (loop_code l body)) st (sc :: scs) r).
Proof.
  intros Hc (Ha & Hs & Hi). unfold loop_code in *. cbn [at_ map app] in Hc. explode Hc. cbn [csize isize] in *.
  destruct (k <? n)%Z eqn:Elt.
  - go by (rewrite Hi). go by (rewrite Hs). go by (unfold bin; cbn; rewrite ?less_int, ?Elt).
    go. go. done_pc.
  - go by (rewrite Hi). go by (rewrite Hs). go by (unfold bin; cbn; rewrite ?less_int, ?Elt).
    go. go. done_pc.
Qed.

(* the loop tail after the body: IInc "i"; IJumpBackward *)
Lemma loop_back l body p0 arr n k st sc scs r :
  code_at p0 (loop_code l body) -> loop_scope sc arr n k ->
  star (mkSt (p0 + 24 + csize body) st (sc :: scs) r)
       (mkSt (p0 + 13) st (sset sc "i" (vint (k + 1)%Z) :: scs) r).
Proof.
  intros Hc (Ha & Hs & Hi). unfold loop_code in *. cbn [at_ map app] in Hc. explode Hc. cbn [csize isize] in *.
  go by (rewrite Hi).
  eapply star_step.
  { fetch_now. cbn.
    match goal with |- context[Nat.ltb ?a ?b] => destruct (Nat.ltb_spec a b); [lia|] end. reflexivity. }
  done_pc.
Qed.


Lemma as_bool_inv v b : as_bool v = Ok b -> v = VBool b.
Proof. destruct v; cbn; intros H; try discriminate. inversion H; reflexivity. Qed.

(* ------------------------------------------------------------------ all / none / any *)
Ltac open_loop H :=
  unfold loop_code in H; cbn [at_ map app] in H; explode H;
  repeat (progress (cbn [csize isize] in *; rewrite ?csize_app in *)).

Lemma all_iter l c (IHc : correct c) p0 ctx scs st arr n :
  code_at p0 (loop_code l (comp c ++ at_ l [IJumpIfFalse 9; IPop]) ++ at_ l [ITrue; IEnd]) ->
  ctx_match ctx scs ->
  forall m k sc r, (k + Z.of_nat m = n)%Z -> loop_scope sc arr n k ->
  match all_loop (fun i s' => ev ((arr, i) :: ctx) c s') l m k r with
  | Done v r' => star (mkSt (p0 + 13) st (sc :: scs) r)
                      (mkSt (p0 + csize (loop_code l (comp c ++ at_ l [IJumpIfFalse 9; IPop])) + 2) (v :: st) scs r')
  | Stop e lc r' => crashes (mkSt (p0 + 13) st (sc :: scs) r) e lc r'
  end.
Proof.
  intros H CM.
  pose proof (code_at_app_l _ _ _ H) as HL.
  pose proof H as HX. open_loop HX.
  match goal with G : code_at _ (comp c) |- _ => rename G into Hbody end.
  induction m as [|m IH]; intros k sc r Hk LS; cbn [all_loop].
  - (* exit *)
    pose proof (loop_test _ _ _ _ _ _ st _ scs r HL LS) as T.
    replace (k <? n)%Z with false in T by (symmetry; apply Z.ltb_ge; lia).
    eapply star_trans; [exact T|]. unfold loop_code. norm_sz. go. go. done_pc.
  - pose proof (loop_test _ _ _ _ _ _ st _ scs r HL LS) as T.
    replace (k <? n)%Z with true in T by (symmetry; apply Z.ltb_lt; lia).
    pose proof (IHc _ _ (loop_scope_ctx _ _ _ _ _ _ LS CM) _ Hbody st r) as Hb. cbn [app] in Hb.
    destruct (ev ((arr, k) :: ctx) c r) as [vb r1|e lc r1]; cbn [rbind].
    2: { eapply crash_trans; [exact T|]. eapply crash_pc0; [exact Hb|lia]. }
    destruct (as_bool vb) as [b|e] eqn:Eb; cbn [lift].
    2: { eapply crash_trans; [exact T|]. eapply crash_trans; [eapply star_pc0; [exact Hb|lia]|].
         crash_here. rewrite Eb. reflexivity. }
    pose proof (as_bool_inv _ _ Eb) as Evb. subst vb. clear Eb.
    destruct b.
    + (* continue *)
      specialize (IH (k + 1)%Z (sset sc "i" (vint (k + 1)%Z)) r1 ltac:(lia) (loop_scope_inc _ _ _ _ LS)).
      pose proof (loop_back _ _ _ _ _ _ st _ scs r1 HL LS) as Bk. rewrite ?csize_app in Bk. cbn [csize isize at_ map] in Bk.
      assert (Pre : star (mkSt (p0 + 13) st (sc :: scs) r) (mkSt (p0 + 13) st (sset sc "i" (vint (k + 1)%Z) :: scs) r1)).
      { eapply star_trans; [exact T|]. eapply star_trans; [eapply star_pc0; [exact Hb|lia]|].
        go. go. eapply star_pc0; [exact Bk|lia]. }
      destruct (all_loop _ l m (k + 1)%Z r1) as [v r'|e lc r'].
      * eapply star_trans; [exact Pre|exact IH].
      * eapply crash_trans; [exact Pre|exact IH].
    + (* break *)
      eapply star_trans; [exact T|]. eapply star_trans; [eapply star_pc0; [exact Hb|lia]|].
      go. go. unfold loop_code. done_pc.
Qed.


Lemma str_len_nonneg s : (0 <= str_len s)%Z.
Proof. induction s as [|c s IH]; cbn [str_len]; lia. Qed.

Lemma p_length_nonneg v n : p_length v = Ok n -> (0 <= n)%Z.
Proof.
  destruct v; cbn [p_length]; intros H; try discriminate; try (inversion H; subst; lia).
  - inversion H; subst. apply str_len_nonneg.
  - destruct v; try discriminate. inversion H; subst. apply str_len_nonneg.
Qed.

Lemma correct_all a x c : correct x -> correct c -> correct (EBuiltin a BiAll [x; c]).
Proof.
  intros IHx IHc ctx scs CM. cbn [compile]. intros p Hc st r. cbn [eval]. unfold loc_of; cbn [ann_of].
  unfold loc_of in Hc; cbn [ann_of] in Hc.
  apply code_at_app_iff in Hc. destruct Hc as [Hx Hc].
  cbn [at_ map app] in Hc. apply code_at_cons_iff in Hc. destruct Hc as [FB Hc]. cbn [isize] in Hc.
  pose proof (IHx ctx scs CM p Hx st r) as Ex. cbn [app] in Ex.
  destruct (ev ctx x r) as [v r1|e l r1]; cbn [rbind]; [|exact Ex].
  pose proof (loop_enter _ _ _ v st [] scs r1 (code_at_app_l _ _ _ Hc)) as En.
  assert (Beg : star (mkSt p st scs r) (mkSt (p + csize (comp x) + 1) (v :: st) ([] :: scs) r1)).
  { eapply star_trans; [exact Ex|]. go. done_pc. }
  destruct (p_length v) as [n|e] eqn:El; cbn [lift].
  2: { eapply crash_trans; [exact Beg|exact En]. }
  pose proof (all_iter (aloc a) c IHc _ ctx scs st v n Hc CM (Z.to_nat n) 0%Z
                (sset (sset (sset [] "size" (vint n)) "array" v) "i" (vint 0)) r1) as It.
  pose proof (p_length_nonneg _ _ El) as Hn.
  specialize (It ltac:(lia) ltac:(repeat split; reflexivity)).
  destruct (all_loop _ (aloc a) (Z.to_nat n) 0%Z r1) as [w r2|e lc r2].
  - eapply star_trans; [exact Beg|]. eapply star_trans; [exact En|]. eapply star_pc; [exact It|]. norm_sz. lia.
  - eapply crash_trans; [exact Beg|]. eapply crash_trans; [exact En|exact It].
Qed.

Lemma none_iter l c (IHc : correct c) p0 ctx scs st arr n :
  code_at p0 (loop_code l (comp c ++ at_ l [INot; IJumpIfFalse 9; IPop]) ++ at_ l [ITrue; IEnd]) ->
  ctx_match ctx scs ->
  forall m k sc r, (k + Z.of_nat m = n)%Z -> loop_scope sc arr n k ->
  match none_loop (fun i s' => ev ((arr, i) :: ctx) c s') l m k r with
  | Done v r' => star (mkSt (p0 + 13) st (sc :: scs) r)
                      (mkSt (p0 + csize (loop_code l (comp c ++ at_ l [INot; IJumpIfFalse 9; IPop])) + 2) (v :: st) scs r')
  | Stop e lc r' => crashes (mkSt (p0 + 13) st (sc :: scs) r) e lc r'
  end.
Proof.
  intros H CM.
  pose proof (code_at_app_l _ _ _ H) as HL.
  pose proof H as HX. open_loop HX.
  match goal with G : code_at _ (comp c) |- _ => rename G into Hbody end.
  induction m as [|m IH]; intros k sc r Hk LS; cbn [none_loop].
  - (* exit *)
    pose proof (loop_test _ _ _ _ _ _ st _ scs r HL LS) as T.
    replace (k <? n)%Z with false in T by (symmetry; apply Z.ltb_ge; lia).
    eapply star_trans; [exact T|]. unfold loop_code. norm_sz. go. go. done_pc.
  - pose proof (loop_test _ _ _ _ _ _ st _ scs r HL LS) as T.
    replace (k <? n)%Z with true in T by (symmetry; apply Z.ltb_lt; lia).
    pose proof (IHc _ _ (loop_scope_ctx _ _ _ _ _ _ LS CM) _ Hbody st r) as Hb. cbn [app] in Hb.
    destruct (ev ((arr, k) :: ctx) c r) as [vb r1|e lc r1]; cbn [rbind].
    2: { eapply crash_trans; [exact T|]. eapply crash_pc0; [exact Hb|lia]. }
    destruct (as_bool vb) as [b|e] eqn:Eb; cbn [lift].
    2: { eapply crash_trans; [exact T|]. eapply crash_trans; [eapply star_pc0; [exact Hb|lia]|].
         crash_here. rewrite Eb. reflexivity. }
    pose proof (as_bool_inv _ _ Eb) as Evb. subst vb. clear Eb.
    destruct b.
    + (* break *)
      eapply star_trans; [exact T|]. eapply star_trans; [eapply star_pc0; [exact Hb|lia]|].
      go. go. go. unfold loop_code. done_pc.
    + (* continue *)
      specialize (IH (k + 1)%Z (sset sc "i" (vint (k + 1)%Z)) r1 ltac:(lia) (loop_scope_inc _ _ _ _ LS)).
      pose proof (loop_back _ _ _ _ _ _ st _ scs r1 HL LS) as Bk. rewrite ?csize_app in Bk. cbn [csize isize at_ map] in Bk.
      assert (Pre : star (mkSt (p0 + 13) st (sc :: scs) r) (mkSt (p0 + 13) st (sset sc "i" (vint (k + 1)%Z) :: scs) r1)).
      { eapply star_trans; [exact T|]. eapply star_trans; [eapply star_pc0; [exact Hb|lia]|].
        go. go. go. eapply star_pc0; [exact Bk|lia]. }
      destruct (none_loop _ l m (k + 1)%Z r1) as [v r'|e lc r'].
      * eapply star_trans; [exact Pre|exact IH].
      * eapply crash_trans; [exact Pre|exact IH].
Qed.



Lemma correct_none a x c : correct x -> correct c -> correct (EBuiltin a BiNone [x; c]).
Proof.
  intros IHx IHc ctx scs CM. cbn [compile]. intros p Hc st r. cbn [eval]. unfold loc_of; cbn [ann_of].
  unfold loc_of in Hc; cbn [ann_of] in Hc.
  apply code_at_app_iff in Hc. destruct Hc as [Hx Hc].
  cbn [at_ map app] in Hc. apply code_at_cons_iff in Hc. destruct Hc as [FB Hc]. cbn [isize] in Hc.
  pose proof (IHx ctx scs CM p Hx st r) as Ex. cbn [app] in Ex.
  destruct (ev ctx x r) as [v r1|e l r1]; cbn [rbind]; [|exact Ex].
  pose proof (loop_enter _ _ _ v st [] scs r1 (code_at_app_l _ _ _ Hc)) as En.
  assert (Beg : star (mkSt p st scs r) (mkSt (p + csize (comp x) + 1) (v :: st) ([] :: scs) r1)).
  { eapply star_trans; [exact Ex|]. go. done_pc. }
  destruct (p_length v) as [n|e] eqn:El; cbn [lift].
  2: { eapply crash_trans; [exact Beg|exact En]. }
  pose proof (none_iter (aloc a) c IHc _ ctx scs st v n Hc CM (Z.to_nat n) 0%Z
                (sset (sset (sset [] "size" (vint n)) "array" v) "i" (vint 0)) r1) as It.
  pose proof (p_length_nonneg _ _ El) as Hn.
  specialize (It ltac:(lia) ltac:(repeat split; reflexivity)).
  destruct (none_loop _ (aloc a) (Z.to_nat n) 0%Z r1) as [w r2|e lc r2].
  - eapply star_trans; [exact Beg|]. eapply star_trans; [exact En|]. eapply star_pc; [exact It|]. norm_sz. lia.
  - eapply crash_trans; [exact Beg|]. eapply crash_trans; [exact En|exact It].
Qed.


Lemma any_iter l c (IHc : correct c) p0 ctx scs st arr n :
  code_at p0 (loop_code l (comp c ++ at_ l [IJumpIfTrue 9; IPop]) ++ at_ l [IFalse; IEnd]) ->
  ctx_match ctx scs ->
  forall m k sc r, (k + Z.of_nat m = n)%Z -> loop_scope sc arr n k ->
  match any_loop (fun i s' => ev ((arr, i) :: ctx) c s') l m k r with
  | Done v r' => star (mkSt (p0 + 13) st (sc :: scs) r)
                      (mkSt (p0 + csize (loop_code l (comp c ++ at_ l [IJumpIfTrue 9; IPop])) + 2) (v :: st) scs r')
  | Stop e lc r' => crashes (mkSt (p0 + 13) st (sc :: scs) r) e lc r'
  end.
Proof.
  intros H CM.
  pose proof (code_at_app_l _ _ _ H) as HL.
  pose proof H as HX. open_loop HX.
  match goal with G : code_at _ (comp c) |- _ => rename G into Hbody end.
  induction m as [|m IH]; intros k sc r Hk LS; cbn [any_loop].
  - (* exit *)
    pose proof (loop_test _ _ _ _ _ _ st _ scs r HL LS) as T.
    replace (k <? n)%Z with false in T by (symmetry; apply Z.ltb_ge; lia).
    eapply star_trans; [exact T|]. unfold loop_code. norm_sz. go. go. done_pc.
  - pose proof (loop_test _ _ _ _ _ _ st _ scs r HL LS) as T.
    replace (k <? n)%Z with true in T by (symmetry; apply Z.ltb_lt; lia).
    pose proof (IHc _ _ (loop_scope_ctx _ _ _ _ _ _ LS CM) _ Hbody st r) as Hb. cbn [app] in Hb.
    destruct (ev ((arr, k) :: ctx) c r) as [vb r1|e lc r1]; cbn [rbind].
    2: { eapply crash_trans; [exact T|]. eapply crash_pc0; [exact Hb|lia]. }
    destruct (as_bool vb) as [b|e] eqn:Eb; cbn [lift].
    2: { eapply crash_trans; [exact T|]. eapply crash_trans; [eapply star_pc0; [exact Hb|lia]|].
         crash_here. rewrite Eb. reflexivity. }
    pose proof (as_bool_inv _ _ Eb) as Evb. subst vb. clear Eb.
    destruct b.
    + (* break *)
      eapply star_trans; [exact T|]. eapply star_trans; [eapply star_pc0; [exact Hb|lia]|].
      go. go. unfold loop_code. done_pc.
    + (* continue *)
      specialize (IH (k + 1)%Z (sset sc "i" (vint (k + 1)%Z)) r1 ltac:(lia) (loop_scope_inc _ _ _ _ LS)).
      pose proof (loop_back _ _ _ _ _ _ st _ scs r1 HL LS) as Bk. rewrite ?csize_app in Bk. cbn [csize isize at_ map] in Bk.
      assert (Pre : star (mkSt (p0 + 13) st (sc :: scs) r) (mkSt (p0 + 13) st (sset sc "i" (vint (k + 1)%Z) :: scs) r1)).
      { eapply star_trans; [exact T|]. eapply star_trans; [eapply star_pc0; [exact Hb|lia]|].
        go. go. eapply star_pc0; [exact Bk|lia]. }
      destruct (any_loop _ l m (k + 1)%Z r1) as [v r'|e lc r'].
      * eapply star_trans; [exact Pre|exact IH].
      * eapply crash_trans; [exact Pre|exact IH].
Qed.



Lemma correct_any a x c : correct x -> correct c -> correct (EBuiltin a BiAny [x; c]).
Proof.
  intros IHx IHc ctx scs CM. cbn [compile]. intros p Hc st r. cbn [eval]. unfold loc_of; cbn [ann_of].
  unfold loc_of in Hc; cbn [ann_of] in Hc.
  apply code_at_app_iff in Hc. destruct Hc as [Hx Hc].
  cbn [at_ map app] in Hc. apply code_at_cons_iff in Hc. destruct Hc as [FB Hc]. cbn [isize] in Hc.
  pose proof (IHx ctx scs CM p Hx st r) as Ex. cbn [app] in Ex.
  destruct (ev ctx x r) as [v r1|e l r1]; cbn [rbind]; [|exact Ex].
  pose proof (loop_enter _ _ _ v st [] scs r1 (code_at_app_l _ _ _ Hc)) as En.
  assert (Beg : star (mkSt p st scs r) (mkSt (p + csize (comp x) + 1) (v :: st) ([] :: scs) r1)).
  { eapply star_trans; [exact Ex|]. go. done_pc. }
  destruct (p_length v) as [n|e] eqn:El; cbn [lift].
  2: { eapply crash_trans; [exact Beg|exact En]. }
  pose proof (any_iter (aloc a) c IHc _ ctx scs st v n Hc CM (Z.to_nat n) 0%Z
                (sset (sset (sset [] "size" (vint n)) "array" v) "i" (vint 0)) r1) as It.
  pose proof (p_length_nonneg _ _ El) as Hn.
  specialize (It ltac:(lia) ltac:(repeat split; reflexivity)).
  destruct (any_loop _ (aloc a) (Z.to_nat n) 0%Z r1) as [w r2|e lc r2].
  - eapply star_trans; [exact Beg|]. eapply star_trans; [exact En|]. eapply star_pc; [exact It|]. norm_sz. lia.
  - eapply crash_trans; [exact Beg|]. eapply crash_trans; [exact En|exact It].
Qed.



(* ------------------------------------------------------------------ count / one *)
Inductive cresult := CDone (c : Z) (r : rstate) | CStop (e : err) (l : loc) (r : rstate).

Fixpoint count_run (body : Z -> rstate -> result) (l : loc) (m : nat) (k c : Z) (r : rstate) : cresult :=
  match m with
  | O => CDone c r
  | S m' =>
      match body k r with
      | Done v r1 => match as_bool v with
                     | Ok b => count_run body l m' (k + 1)%Z (if b then (c + 1)%Z else c) r1
                     | Fail e => CStop e l r1
                     end
      | Stop e lc r1 => CStop e lc r1
      end
  end.

Lemma count_loop_run body l m : forall k c r K,
  count_loop body l m k c r K =
  match count_run body l m k c r with CDone c' r' => K c' r' | CStop e lc r' => Stop e lc r' end.
Proof.
  induction m as [|m IH]; intros k c r K; cbn [count_loop count_run]; auto.
  destruct (body k r) as [v r1|e lc r1]; cbn [rbind]; auto.
  destruct (as_bool v) as [b|e]; cbn [lift]; auto.
Qed.

Definition count_scope (sc : scope) (arr : value) (n k c : Z) : Prop :=
  loop_scope sc arr n k /\ sget sc "count" = Some (vint c).

Lemma count_iter l c (IHc : correct c) p0 ctx scs st arr n :
  code_at p0 (loop_code l (comp c ++ cond_code l (at_ l [IInc "count"]))) ->
  ctx_match ctx scs ->
  forall m k cnt sc r, (k + Z.of_nat m = n)%Z -> count_scope sc arr n k cnt ->
  match count_run (fun i s' => ev ((arr, i) :: ctx) c s') l m k cnt r with
  | CDone cnt' r' => exists sc', sget sc' "count" = Some (vint cnt') /\
       star (mkSt (p0 + 13) st (sc :: scs) r)
            (mkSt (p0 + csize (loop_code l (comp c ++ cond_code l (at_ l [IInc "count"])))) st (sc' :: scs) r')
  | CStop e lc r' => crashes (mkSt (p0 + 13) st (sc :: scs) r) e lc r'
  end.
Proof.
  intros H CM. pose proof H as HX. unfold cond_code in HX. open_loop HX.
  match goal with G : code_at _ (comp c) |- _ => rename G into Hbody end.
  induction m as [|m IH]; intros k cnt sc r Hk [LS Hcnt]; cbn [count_run].
  - pose proof (loop_test _ _ _ _ _ _ st _ scs r H LS) as T.
    replace (k <? n)%Z with false in T by (symmetry; apply Z.ltb_ge; lia).
    exists sc. split; [exact Hcnt|exact T].
  - pose proof (loop_test _ _ _ _ _ _ st _ scs r H LS) as T.
    replace (k <? n)%Z with true in T by (symmetry; apply Z.ltb_lt; lia).
    pose proof (IHc _ _ (loop_scope_ctx _ _ _ _ _ _ LS CM) _ Hbody st r) as Hb. cbn [app] in Hb.
    destruct (ev ((arr, k) :: ctx) c r) as [vb r1|e lc r1].
    2: { eapply crash_trans; [exact T|]. eapply crash_pc0; [exact Hb|lia]. }
    destruct (as_bool vb) as [b|e] eqn:Eb.
    2: { eapply crash_trans; [exact T|]. eapply crash_trans; [eapply star_pc0; [exact Hb|lia]|].
         crash_here. rewrite Eb. reflexivity. }
    pose proof (as_bool_inv _ _ Eb) as Evb. subst vb. clear Eb.
    set (sc1 := if b then sset sc "count" (vint (cnt + 1)%Z) else sc).
    assert (CS1 : count_scope sc1 arr n k (if b then (cnt + 1)%Z else cnt)).
    { subst sc1. destruct b; [|split; auto]. destruct LS as (A & B & D). repeat split; auto. }
    assert (Body : star (mkSt (p0 + 13) st (sc :: scs) r)
                        (mkSt (p0 + 24 + csize (comp c ++ cond_code l (at_ l [IInc "count"]))) st (sc1 :: scs) r1)).
    { eapply star_trans; [exact T|]. eapply star_trans; [eapply star_pc0; [exact Hb|lia]|].
      subst sc1. destruct b.
      - go. go. go by (rewrite Hcnt). go. unfold cond_code. done_pc.
      - go. go. unfold cond_code. done_pc. }
    destruct CS1 as [LS1 Hc1].
    pose proof (loop_back _ _ _ _ _ _ st _ scs r1 H LS1) as Bk.
    specialize (IH (k + 1)%Z (if b then (cnt + 1)%Z else cnt) (sset sc1 "i" (vint (k + 1)%Z)) r1 ltac:(lia)).
    specialize (IH ltac:(split; [apply loop_scope_inc; exact LS1|exact Hc1])).
    destruct (count_run _ l m (k + 1)%Z (if b then (cnt + 1)%Z else cnt) r1) as [cnt' r'|e lc r'].
    + destruct IH as (sc' & Hs' & St'). exists sc'. split; [exact Hs'|].
      eapply star_trans; [exact Body|]. eapply star_trans; [exact Bk|exact St'].
    + eapply crash_trans; [exact Body|]. eapply crash_trans; [exact Bk|exact IH].
Qed.


Lemma count_prefix a x c fin (IHx : correct x) ctx scs (CM : ctx_match ctx scs) p st r :
  code_at p (comp x ++ at_ (aloc a) [IBegin; IPush (vint 0); IStore "count"]
             ++ loop_code (aloc a) (comp c ++ cond_code (aloc a) (at_ (aloc a) [IInc "count"])) ++ fin) ->
  correct c ->
  match ev ctx x r with
  | Stop e l r1 => crashes (mkSt p st scs r) e l r1
  | Done v r1 =>
      match p_length v with
      | Fail e => crashes (mkSt p st scs r) e (aloc a) r1
      | Ok n =>
          match count_run (fun i s' => ev ((v, i) :: ctx) c s') (aloc a) (Z.to_nat n) 0%Z 0%Z r1 with
          | CStop e lc r' => crashes (mkSt p st scs r) e lc r'
          | CDone cnt r' => exists sc', sget sc' "count" = Some (vint cnt) /\
              star (mkSt p st scs r)
                   (mkSt (p + csize (comp x) + 7 + csize (loop_code (aloc a) (comp c ++ cond_code (aloc a) (at_ (aloc a) [IInc "count"]))))
                         st (sc' :: scs) r')
          end
      end
  end.
Proof.
  intros Hc IHc.
  apply code_at_app_iff in Hc. destruct Hc as [Hx Hc].
  apply code_at_app_iff in Hc. destruct Hc as [Hpre Hc].
  apply code_at_app_iff in Hc. destruct Hc as [Hloop _].
  cbn [at_ map] in Hpre. explode Hpre. cbn [csize isize at_ map] in *.
  pose proof (IHx ctx scs CM p Hx st r) as Ex. cbn [app] in Ex.
  destruct (ev ctx x r) as [v r1|e l r1]; [|exact Ex].
  assert (Beg : star (mkSt p st scs r) (mkSt (p + csize (comp x) + 7) (v :: st) (sset [] "count" (vint 0) :: scs) r1)).
  { eapply star_trans; [exact Ex|]. go. go. go. done_pc. }
  assert (Hloop' := code_at_pc _ (p + csize (comp x) + 7) _ Hloop ltac:(lia)).
  pose proof (loop_enter _ _ _ v st (sset [] "count" (vint 0)) scs r1 Hloop') as En.
  destruct (p_length v) as [n|e] eqn:El.
  2: { eapply crash_trans; [exact Beg|exact En]. }
  pose proof (p_length_nonneg _ _ El) as Hn.
  pose proof (count_iter (aloc a) c IHc _ ctx scs st v n Hloop' CM (Z.to_nat n) 0%Z 0%Z
                (sset (sset (sset (sset [] "count" (vint 0)) "size" (vint n)) "array" v) "i" (vint 0)) r1) as It.
  specialize (It ltac:(lia) ltac:(repeat split; reflexivity)).
  destruct (count_run _ (aloc a) (Z.to_nat n) 0%Z 0%Z r1) as [cnt r'|e lc r'].
  - destruct It as (sc' & Hs' & St'). exists sc'. split; [exact Hs'|].
    eapply star_trans; [exact Beg|]. eapply star_trans; [exact En|]. eapply star_pc; [exact St'|cbn [at_ map]; lia].
  - eapply crash_trans; [exact Beg|]. eapply crash_trans; [exact En|exact It].
Qed.


Lemma correct_count a x c : correct x -> correct c -> correct (EBuiltin a BiCount [x; c]).
Proof.
  intros IHx IHc ctx scs CM. cbn [compile]. unfold loc_of; cbn [ann_of]. intros p Hc st r.
  cbn [eval]. unfold loc_of; cbn [ann_of].
  pose proof (count_prefix a x c _ IHx ctx scs CM p st r Hc IHc) as P.
  repeat (apply code_at_app_r in Hc). cbn [at_ map] in Hc. explode Hc.
  repeat (progress (cbn [csize isize at_ map] in *; rewrite ?csize_app in *)).
  destruct (ev ctx x r) as [v r1|e l r1]; cbn [rbind]; [|exact P].
  destruct (p_length v) as [n|e]; cbn [lift]; [|exact P].
  rewrite count_loop_run.
  destruct (count_run _ (aloc a) (Z.to_nat n) 0%Z 0%Z r1) as [cnt r'|e lc r']; [|exact P].
  destruct P as (sc' & Hs' & St').
  eapply star_trans; [exact St'|]. norm_sz. go by (rewrite Hs'). go. done_pc.
Qed.

Lemma correct_one a x c : correct x -> correct c -> correct (EBuiltin a BiOne [x; c]).
Proof.
  intros IHx IHc ctx scs CM. cbn [compile]. unfold loc_of; cbn [ann_of]. intros p Hc st r.
  cbn [eval]. unfold loc_of; cbn [ann_of].
  pose proof (count_prefix a x c _ IHx ctx scs CM p st r Hc IHc) as P.
  repeat (apply code_at_app_r in Hc). cbn [at_ map] in Hc. explode Hc.
  repeat (progress (cbn [csize isize at_ map] in *; rewrite ?csize_app in *)).
  destruct (ev ctx x r) as [v r1|e l r1]; cbn [rbind]; [|exact P].
  destruct (p_length v) as [n|e]; cbn [lift]; [|exact P].
  rewrite count_loop_run.
  destruct (count_run _ (aloc a) (Z.to_nat n) 0%Z 0%Z r1) as [cnt r'|e lc r']; [|exact P].
  destruct P as (sc' & Hs' & St'). rewrite equal_int. cbn [lift].
  eapply star_trans; [exact St'|]. norm_sz. go by (rewrite Hs'). go. go. go. done_pc.
Qed.


(* ------------------------------------------------------------------ filter *)
Inductive fresult := FDone (xs : list value) (r : rstate) | FStop (e : err) (l : loc) (r : rstate).

Fixpoint filter_run (body : Z -> rstate -> result) (elem : Z -> outcome value) (l : loc)
         (m : nat) (k : Z) (acc : list value) (r : rstate) : fresult :=
  match m with
  | O => FDone (rev acc) r
  | S m' =>
      match body k r with
      | Done v r1 =>
          match as_bool v with
          | Ok true => match elem k with
                       | Ok x => filter_run body elem l m' (k + 1)%Z (x :: acc) r1
                       | Fail e => FStop e l r1
                       end
          | Ok false => filter_run body elem l m' (k + 1)%Z acc r1
          | Fail e => FStop e l r1
          end
      | Stop e lc r1 => FStop e lc r1
      end
  end.

Lemma filter_loop_run body elem l m : forall k acc r K,
  filter_loop body l elem m k acc r K =
  match filter_run body elem l m k acc r with FDone xs r' => K xs r' | FStop e lc r' => Stop e lc r' end.
Proof.
  induction m as [|m IH]; intros k acc r K; cbn [filter_loop filter_run]; auto.
  destruct (body k r) as [v r1|e lc r1]; cbn [rbind]; auto.
  destruct (as_bool v) as [[|]|e]; cbn [lift]; auto.
  destruct (elem k); cbn [lift]; auto.
Qed.

Definition filter_body (l : loc) : code := at_ l [IInc "count"; ILoad "array"; ILoad "i"; IIndex].

Lemma filter_iter l c (IHc : correct c) p0 ctx scs st arr n :
  code_at p0 (loop_code l (comp c ++ cond_code l (filter_body l))) ->
  ctx_match ctx scs ->
  forall m k acc sc r, (k + Z.of_nat m = n)%Z -> count_scope sc arr n k (Z.of_nat (List.length acc)) ->
  match filter_run (fun i s' => ev ((arr, i) :: ctx) c s') (fun i => p_fetch arr (vint i) false) l m k acc r with
  | FDone xs r' => exists sc', sget sc' "count" = Some (vint (Z.of_nat (List.length xs))) /\
       star (mkSt (p0 + 13) (acc ++ st) (sc :: scs) r)
            (mkSt (p0 + csize (loop_code l (comp c ++ cond_code l (filter_body l)))) (rev xs ++ st) (sc' :: scs) r')
  | FStop e lc r' => crashes (mkSt (p0 + 13) (acc ++ st) (sc :: scs) r) e lc r'
  end.
Proof.
  intros H CM. pose proof H as HX. unfold cond_code, filter_body in HX. open_loop HX.
  match goal with G : code_at _ (comp c) |- _ => rename G into Hbody end.
  induction m as [|m IH]; intros k acc sc r Hk [LS Hcnt]; cbn [filter_run].
  - pose proof (loop_test _ _ _ _ _ _ (acc ++ st) _ scs r H LS) as T.
    replace (k <? n)%Z with false in T by (symmetry; apply Z.ltb_ge; lia).
    exists sc. rewrite rev_length, rev_involutive. split; [exact Hcnt|exact T].
  - pose proof (loop_test _ _ _ _ _ _ (acc ++ st) _ scs r H LS) as T.
    replace (k <? n)%Z with true in T by (symmetry; apply Z.ltb_lt; lia).
    pose proof (IHc _ _ (loop_scope_ctx _ _ _ _ _ _ LS CM) _ Hbody (acc ++ st) r) as Hb. cbn [app] in Hb.
    destruct (ev ((arr, k) :: ctx) c r) as [vb r1|e lc r1].
    2: { eapply crash_trans; [exact T|]. eapply crash_pc0; [exact Hb|lia]. }
    destruct (as_bool vb) as [b|e] eqn:Eb.
    2: { eapply crash_trans; [exact T|]. eapply crash_trans; [eapply star_pc0; [exact Hb|lia]|].
         crash_here. rewrite Eb. reflexivity. }
    pose proof (as_bool_inv _ _ Eb) as Evb. subst vb. clear Eb.
    assert (ToBody : star (mkSt (p0 + 13) (acc ++ st) (sc :: scs) r)
                          (mkSt (p0 + 24 + csize (comp c)) (VBool b :: acc ++ st) (sc :: scs) r1)).
    { eapply star_trans; [exact T|]. eapply star_pc; [eapply star_pc0; [exact Hb|lia]|lia]. }
    destruct LS as (A & B & D).
    destruct b.
    + destruct (p_fetch arr (vint k) false) as [x|e] eqn:Ex.
      2: { eapply crash_trans; [exact ToBody|]. go_crash. go_crash. go_crash by (rewrite Hcnt).
           go_crash by (rewrite A). go_crash by (rewrite D). crash_here. unfold bin; cbn. rewrite Ex. reflexivity. }
      set (sc1 := sset sc "count" (vint (Z.of_nat (List.length acc) + 1)%Z)).
      assert (LS1 : loop_scope sc1 arr n k) by (repeat split; auto).
      pose proof (loop_back _ _ _ _ _ _ (x :: acc ++ st) _ scs r1 H LS1) as Bk.
      specialize (IH (k + 1)%Z (x :: acc) (sset sc1 "i" (vint (k + 1)%Z)) r1 ltac:(lia)).
      specialize (IH ltac:(split; [apply loop_scope_inc; exact LS1|cbn [List.length]; unfold sc1, sset; cbn; f_equal; f_equal; lia])).
      assert (Body : star (mkSt (p0 + 13) (acc ++ st) (sc :: scs) r)
                          (mkSt (p0 + 13) ((x :: acc) ++ st) (sset sc1 "i" (vint (k + 1)%Z) :: scs) r1)).
      { eapply star_trans; [exact ToBody|]. go. go. go by (rewrite Hcnt). go by (rewrite A). go by (rewrite D).
        go by (unfold bin; cbn; rewrite Ex). go. eapply star_pc0; [exact Bk|unfold cond_code, filter_body; norm_sz; lia]. }
      destruct (filter_run _ _ l m (k + 1)%Z (x :: acc) r1) as [xs r'|e lc r'].
      * destruct IH as (sc' & Hs' & St'). exists sc'. split; [exact Hs'|]. eapply star_trans; [exact Body|exact St'].
      * eapply crash_trans; [exact Body|exact IH].
    + pose proof (loop_back _ _ _ _ _ _ (acc ++ st) _ scs r1 H (conj A (conj B D))) as Bk.
      specialize (IH (k + 1)%Z acc (sset sc "i" (vint (k + 1)%Z)) r1 ltac:(lia)).
      specialize (IH ltac:(split; [apply loop_scope_inc; repeat split; auto|exact Hcnt])).
      assert (Body : star (mkSt (p0 + 13) (acc ++ st) (sc :: scs) r)
                          (mkSt (p0 + 13) (acc ++ st) (sset sc "i" (vint (k + 1)%Z) :: scs) r1)).
      { eapply star_trans; [exact ToBody|]. go. go.
        eapply star_pc0; [exact Bk|unfold cond_code, filter_body; norm_sz; lia]. }
      destruct (filter_run _ _ l m (k + 1)%Z acc r1) as [xs r'|e lc r'].
      * destruct IH as (sc' & Hs' & St'). exists sc'. split; [exact Hs'|]. eapply star_trans; [exact Body|exact St'].
      * eapply crash_trans; [exact Body|exact IH].
Qed.


Lemma array_step p l xs st sc r :
  fetch C p = Some (IArray, l) ->
  step (mkSt p (vint (Z.of_nat (List.length xs)) :: rev xs ++ st) sc r) =
  of_result (p + 1) st sc (alloc cfg l (Z.of_nat (List.length xs)) r (fun r3 => Done (VArr TIface xs) r3)).
Proof.
  intros F. unfold VM.step; cbn [VM.pc VM.stk VM.scs VM.rs]. rewrite F. cbn [as_int vint isize].
  replace (Z.of_nat (List.length xs) <? 0)%Z with false by (symmetry; apply Z.ltb_ge; lia).
  replace (Z.of_nat (List.length (rev xs ++ st)) <? Z.of_nat (List.length xs))%Z with false
    by (symmetry; apply Z.ltb_ge; rewrite app_length, rev_length; lia).
  rewrite Nat2Z.id, popn_exact. reflexivity.
Qed.

Lemma correct_filter a x c : correct x -> correct c -> correct (EBuiltin a BiFilter [x; c]).
Proof.
  intros IHx IHc ctx scs CM. cbn [compile]. unfold loc_of; cbn [ann_of]. fold (filter_body (aloc a)).
  intros p Hc st r. cbn [eval]. unfold loc_of; cbn [ann_of].
  apply code_at_app_iff in Hc. destruct Hc as [Hx Hc].
  apply code_at_app_iff in Hc. destruct Hc as [Hpre Hc].
  apply code_at_app_iff in Hc. destruct Hc as [Hloop Hfin].
  cbn [at_ map] in Hpre, Hfin. explode Hpre. explode Hfin.
  repeat (progress (cbn [csize isize at_ map] in *; rewrite ?csize_app in *)).
  pose proof (IHx ctx scs CM p Hx st r) as Ex. cbn [app] in Ex.
  destruct (ev ctx x r) as [v r1|e l r1]; cbn [rbind]; [|exact Ex].
  assert (Beg : star (mkSt p st scs r) (mkSt (p + csize (comp x) + 7) (v :: st) (sset [] "count" (vint 0) :: scs) r1)).
  { eapply star_trans; [exact Ex|]. go. go. go. done_pc. }
  assert (Hloop' := code_at_pc _ (p + csize (comp x) + 7) _ Hloop ltac:(lia)).
  pose proof (loop_enter _ _ _ v st (sset [] "count" (vint 0)) scs r1 Hloop') as En.
  destruct (p_length v) as [n|e] eqn:El; cbn [lift].
  2: { eapply crash_trans; [exact Beg|exact En]. }
  pose proof (p_length_nonneg _ _ El) as Hn.
  pose proof (filter_iter (aloc a) c IHc _ ctx scs st v n Hloop' CM (Z.to_nat n) 0%Z []
                (sset (sset (sset (sset [] "count" (vint 0)) "size" (vint n)) "array" v) "i" (vint 0)) r1) as It.
  specialize (It ltac:(lia) ltac:(repeat split; reflexivity)). cbn [app] in It.
  rewrite filter_loop_run.
  destruct (filter_run _ _ (aloc a) (Z.to_nat n) 0%Z [] r1) as [xs r'|e lc r'].
  2: { eapply crash_trans; [exact Beg|]. eapply crash_trans; [exact En|exact It]. }
  destruct It as (sc' & Hs' & St').
  match goal with F : fetch C ?P = Some (IArray, _) |- _ =>
    pose proof (array_step _ _ xs st scs r' F) as AS;
    assert (Pre : star (mkSt p st scs r) (mkSt P (vint (Z.of_nat (List.length xs)) :: rev xs ++ st) scs r'))
  end.
  { eapply star_trans; [exact Beg|]. eapply star_trans; [exact En|]. eapply star_trans; [exact St'|].
    go by (rewrite Hs'). go. done_pc. }
  unfold alloc in *. destruct (c_limit cfg <=? r_mem r' + Z.of_nat (List.length xs))%Z.
  - eapply crash_trans; [exact Pre|]. apply crash_now. rewrite AS. reflexivity.
  - eapply star_trans; [exact Pre|]. eapply star_step; [rewrite AS; reflexivity|]. done_pc.
Qed.


(* ------------------------------------------------------------------ map *)
Fixpoint map_run (body : Z -> rstate -> result) (m : nat) (k : Z) (acc : list value) (r : rstate) : fresult :=
  match m with
  | O => FDone (rev acc) r
  | S m' =>
      match body k r with
      | Done v r1 => map_run body m' (k + 1)%Z (v :: acc) r1
      | Stop e lc r1 => FStop e lc r1
      end
  end.

Lemma map_loop_run body m : forall k acc r K,
  map_loop body m k acc r K =
  match map_run body m k acc r with FDone xs r' => K xs r' | FStop e lc r' => Stop e lc r' end.
Proof.
  induction m as [|m IH]; intros k acc r K; cbn [map_loop map_run]; auto.
  destruct (body k r) as [v r1|e lc r1]; cbn [rbind]; auto.
Qed.

Lemma map_run_length body m : forall k acc r xs r',
  map_run body m k acc r = FDone xs r' -> List.length xs = m + List.length acc.
Proof.
  induction m as [|m IH]; intros k acc r xs r' H; cbn [map_run] in H.
  - inversion H; subst. rewrite rev_length. reflexivity.
  - destruct (body k r) as [v r1|]; try discriminate. apply IH in H. cbn [List.length] in H. lia.
Qed.

Lemma map_iter l c (IHc : correct c) p0 ctx scs st arr n :
  code_at p0 (loop_code l (comp c)) ->
  ctx_match ctx scs ->
  forall m k acc sc r, (k + Z.of_nat m = n)%Z -> loop_scope sc arr n k ->
  match map_run (fun i s' => ev ((arr, i) :: ctx) c s') m k acc r with
  | FDone xs r' => exists sc', sget sc' "size" = Some (vint n) /\
       star (mkSt (p0 + 13) (acc ++ st) (sc :: scs) r)
            (mkSt (p0 + csize (loop_code l (comp c))) (rev xs ++ st) (sc' :: scs) r')
  | FStop e lc r' => crashes (mkSt (p0 + 13) (acc ++ st) (sc :: scs) r) e lc r'
  end.
Proof.
  intros H CM. pose proof H as HX. open_loop HX.
  match goal with G : code_at _ (comp c) |- _ => rename G into Hbody end.
  induction m as [|m IH]; intros k acc sc r Hk LS; cbn [map_run].
  - pose proof (loop_test _ _ _ _ _ _ (acc ++ st) _ scs r H LS) as T.
    replace (k <? n)%Z with false in T by (symmetry; apply Z.ltb_ge; lia).
    exists sc. rewrite rev_involutive. split; [apply LS|exact T].
  - pose proof (loop_test _ _ _ _ _ _ (acc ++ st) _ scs r H LS) as T.
    replace (k <? n)%Z with true in T by (symmetry; apply Z.ltb_lt; lia).
    pose proof (IHc _ _ (loop_scope_ctx _ _ _ _ _ _ LS CM) _ Hbody (acc ++ st) r) as Hb. cbn [app] in Hb.
    destruct (ev ((arr, k) :: ctx) c r) as [vb r1|e lc r1].
    2: { eapply crash_trans; [exact T|]. eapply crash_pc0; [exact Hb|lia]. }
    pose proof (loop_back _ _ _ _ _ _ (vb :: acc ++ st) _ scs r1 H LS) as Bk.
    specialize (IH (k + 1)%Z (vb :: acc) (sset sc "i" (vint (k + 1)%Z)) r1 ltac:(lia) (loop_scope_inc _ _ _ _ LS)).
    assert (Body : star (mkSt (p0 + 13) (acc ++ st) (sc :: scs) r)
                        (mkSt (p0 + 13) ((vb :: acc) ++ st) (sset sc "i" (vint (k + 1)%Z) :: scs) r1)).
    { eapply star_trans; [exact T|]. eapply star_trans; [eapply star_pc0; [exact Hb|lia]|]. eapply star_pc0; [exact Bk|lia]. }
    destruct (map_run _ m (k + 1)%Z (vb :: acc) r1) as [xs r'|e lc r'].
    + destruct IH as (sc' & Hs' & St'). exists sc'. split; [exact Hs'|]. eapply star_trans; [exact Body|exact St'].
    + eapply crash_trans; [exact Body|exact IH].
Qed.

Lemma correct_map_builtin a x c : correct x -> correct c -> correct (EBuiltin a BiMap [x; c]).
Proof.
  intros IHx IHc ctx scs CM. cbn [compile]. unfold loc_of; cbn [ann_of].
  intros p Hc st r. cbn [eval]. unfold loc_of; cbn [ann_of].
  apply code_at_app_iff in Hc. destruct Hc as [Hx Hc].
  apply code_at_app_iff in Hc. destruct Hc as [Hpre Hc].
  apply code_at_app_iff in Hc. destruct Hc as [Hloop Hfin].
  cbn [at_ map] in Hpre, Hfin. explode Hpre. explode Hfin.
  repeat (progress (cbn [csize isize at_ map] in *; rewrite ?csize_app in *)).
  pose proof (IHx ctx scs CM p Hx st r) as Ex. cbn [app] in Ex.
  destruct (ev ctx x r) as [v r1|e l r1]; cbn [rbind]; [|exact Ex].
  assert (Beg : star (mkSt p st scs r) (mkSt (p + csize (comp x) + 1) (v :: st) ([] :: scs) r1)).
  { eapply star_trans; [exact Ex|]. go. done_pc. }
  assert (Hloop' := code_at_pc _ (p + csize (comp x) + 1) _ Hloop ltac:(lia)).
  pose proof (loop_enter _ _ _ v st [] scs r1 Hloop') as En.
  destruct (p_length v) as [n|e] eqn:El; cbn [lift].
  2: { eapply crash_trans; [exact Beg|exact En]. }
  pose proof (p_length_nonneg _ _ El) as Hn.
  pose proof (map_iter (aloc a) c IHc _ ctx scs st v n Hloop' CM (Z.to_nat n) 0%Z []
                (sset (sset (sset [] "size" (vint n)) "array" v) "i" (vint 0)) r1) as It.
  specialize (It ltac:(lia) ltac:(repeat split; reflexivity)). cbn [app] in It.
  rewrite map_loop_run.
  destruct (map_run _ (Z.to_nat n) 0%Z [] r1) as [xs r'|e lc r'] eqn:Em.
  2: { eapply crash_trans; [exact Beg|]. eapply crash_trans; [exact En|exact It]. }
  pose proof (map_run_length _ _ _ _ _ _ _ Em) as Hlen. cbn [List.length] in Hlen.
  assert (Hn' : n = Z.of_nat (List.length xs)) by lia.
  destruct It as (sc' & Hs' & St').
  match goal with F : fetch C ?P = Some (IArray, _) |- _ =>
    pose proof (array_step _ _ xs st scs r' F) as AS;
    assert (Pre : star (mkSt p st scs r) (mkSt P (vint (Z.of_nat (List.length xs)) :: rev xs ++ st) scs r'))
  end.
  { eapply star_trans; [exact Beg|]. eapply star_trans; [exact En|]. eapply star_trans; [exact St'|].
    go by (rewrite Hs'; rewrite Hn'). go. done_pc. }
  rewrite Hn'. unfold alloc in *. destruct (c_limit cfg <=? r_mem r' + Z.of_nat (List.length xs))%Z.
  - eapply crash_trans; [exact Pre|]. apply crash_now. rewrite AS. reflexivity.
  - eapply star_trans; [exact Pre|]. eapply star_step; [rewrite AS; reflexivity|]. done_pc.
Qed.


(* ------------------------------------------------------------------ the theorem *)
Lemma in_lsize x l : In x l -> esize x <= lsize l.
Proof.
  induction l as [|y l IH]; cbn [lsize In]; intros H; [contradiction|].
  destruct H as [H|H]; subst; [lia|specialize (IH H); lia].
Qed.

Lemma esize_pos e : 0 < esize e.
Proof. destruct e; cbn; lia. Qed.

Lemma lsize_eq l : (fix lsize (l : list expr) : nat := match l with [] => 0 | x :: r => esize x + lsize r end) l = lsize l.
Proof. induction l; cbn; auto. Qed.

Lemma compilable_list l :
  (fix all_c (es : list expr) : bool := match es with [] => true | x :: r => compilable x && all_c r end) l = true ->
  forall x, In x l -> compilable x = true.
Proof.
  induction l as [|y l IH]; intros H x Hin; [contradiction|].
  apply andb_prop in H. destruct H as [H1 H2]. destruct Hin as [E|E]; subst; auto.
Qed.

Lemma compilable_pairs l :
  (fix all_p (ps : list expr) : bool :=
     match ps with
     | [] => true
     | EPair _ k v :: r => compilable k && compilable v && all_p r
     | _ :: _ => false
     end) l = true ->
  forall x, In x l -> match x with EPair _ k v => compilable k = true /\ compilable v = true | _ => False end.
Proof.
  induction l as [|y l IH]; intros H x Hin; [contradiction|]. destruct Hin as [E|E]; subst.
  - destruct x; try discriminate. apply andb_prop in H. destruct H as [H _]. apply andb_prop in H. exact H.
  - destruct y; try discriminate. apply andb_prop in H. destruct H as [_ H]. apply IH; auto.
Qed.

Theorem compile_correct_sized : forall n e, esize e < n -> compilable e = true -> correct e.
Proof.
  induction n as [|n IH]; intros e Hsz Hc; [lia|].
  destruct e; cbn [esize] in Hsz; cbn [compilable] in Hc; rewrite ?lsize_eq in Hsz.
  - apply correct_nil.
  - apply correct_ident.
  - apply correct_int.
  - apply correct_float.
  - apply correct_bool.
  - apply correct_str.
  - apply correct_const.
  - (* unary *)
    apply correct_unary; [destruct op; auto; discriminate|apply IH; [lia|destruct op; auto; discriminate]].
  - (* binary *)
    assert (Hl : compilable e1 = true /\ compilable e2 = true).
    { destruct op; try discriminate; apply andb_prop in Hc; exact Hc. }
    destruct Hl as [H1 H2].
    assert (C1 : correct e1) by (apply IH; [lia|exact H1]).
    assert (C2 : correct e2) by (apply IH; [lia|exact H2]).
    destruct (plain_binop op) eqn:Ep; [apply correct_binary_plain; auto|].
    destruct (is_or op) eqn:Eo; [apply correct_or; auto|].
    destruct (is_and op) eqn:Ea; [apply correct_and; auto|].
    destruct op; discriminate.
  - (* matches *)
    apply andb_prop in Hc. destruct Hc as [H1 H2]. apply correct_matches; apply IH; auto; lia.
  - apply correct_property. apply IH; auto; lia.
  - apply andb_prop in Hc. destruct Hc as [H1 H2]. apply correct_index; apply IH; auto; lia.
  - (* slice *)
    apply andb_prop in Hc. destruct Hc as [Hc H3]. apply andb_prop in Hc. destruct Hc as [H1 H2].
    apply correct_slice.
    + apply IH; auto; lia.
    + intros f E; subst. apply IH; auto; lia.
    + intros t E; subst. apply IH; auto. destruct from; lia.
  - (* method *)
    apply andb_prop in Hc. destruct Hc as [H1 H2]. apply correct_method.
    + apply IH; auto; lia.
    + intros x Hx. apply IH; [pose proof (in_lsize _ _ Hx); lia|eapply compilable_list; eauto].
  - (* function *)
    apply correct_function. intros x Hx. apply IH; [pose proof (in_lsize _ _ Hx); lia|eapply compilable_list; eauto].
  - (* builtin *)
    destruct b; destruct args as [|x [|c [|z args]]]; try discriminate.
    + cbn [lsize] in Hsz. apply correct_len. apply IH; auto; lia.
    + cbn [lsize] in Hsz. apply andb_prop in Hc. destruct Hc as [H1 H2]. apply correct_all; apply IH; auto; lia.
    + cbn [lsize] in Hsz. apply andb_prop in Hc. destruct Hc as [H1 H2]. apply correct_none; apply IH; auto; lia.
    + cbn [lsize] in Hsz. apply andb_prop in Hc. destruct Hc as [H1 H2]. apply correct_any; apply IH; auto; lia.
    + cbn [lsize] in Hsz. apply andb_prop in Hc. destruct Hc as [H1 H2]. apply correct_one; apply IH; auto; lia.
    + cbn [lsize] in Hsz. apply andb_prop in Hc. destruct Hc as [H1 H2]. apply correct_filter; apply IH; auto; lia.
    + cbn [lsize] in Hsz. apply andb_prop in Hc. destruct Hc as [H1 H2]. apply correct_map_builtin; apply IH; auto; lia.
    + cbn [lsize] in Hsz. apply andb_prop in Hc. destruct Hc as [H1 H2]. apply correct_count; apply IH; auto; lia.
  - apply correct_closure. apply IH; auto; lia.
  - apply correct_pointer.
  - apply andb_prop in Hc. destruct Hc as [Hc H3]. apply andb_prop in Hc. destruct Hc as [H1 H2].
    apply correct_cond; apply IH; auto; lia.
  - (* array *)
    apply correct_array. intros x Hx. apply IH; [pose proof (in_lsize _ _ Hx); lia|eapply compilable_list; eauto].
  - (* map *)
    apply correct_map. intros x Hx. pose proof (compilable_pairs _ Hc x Hx) as Hp. pose proof (in_lsize _ _ Hx) as Hs.
    destruct x; try contradiction. destruct Hp as [Hk Hv]. cbn [esize] in Hs. split; apply IH; auto; lia.
  - discriminate.
Qed.

Theorem compile_correct e : compilable e = true -> correct e.
Proof. intros H. apply (compile_correct_sized (S (esize e))); auto. Qed.

End Correct.

(* Props/C03.v — Static typing is sound and rejects ill-typed expressions.
   Only statements, each closed by `exact`, with Print Assumptions, and non-vacuity Examples.

   Model: Ty/Checker.v (checker.Check with the re-annotated tree and the first error), tied to
   checker/checker.go, checker/types.go and conf/operators_table.go by the executed correspondence
   of harness/c03.go; reference: Sem/Sem.v (reference semantics, tied to the compiled code by C01's
   compile_correct) and the relation ill_typed_ref of Ty/CheckProofs.v (documented typing rules). *)
From Coq Require Import ZArith Bool List String.
Require Import X.Base.Num X.Base.Value X.Syn.Ast X.Sem.Prim X.Sem.Sem X.Ty.Types X.Ty.TypesTable X.Ty.Checker X.Ty.CheckProofs.
Import ListNotations.
Open Scope string_scope.

(* the first error the visitor records survives every later step (v.error keeps the first) *)
Theorem C03_first_error_survives : forall c e cols y, snd (visit c cols e (Some y)) = Some y.
Proof. exact (fun c e cols y => visit_sticky c e cols y). Qed.
Print Assumptions C03_first_error_survives.

(* an expression that violates a documented typing rule AT ANY NODE (ill_typed_ref is closed
   under every enclosing node kind), or in the kind of its result under a directive, is rejected *)
Theorem C03_rejects : forall c e, ill_typed_top c e -> exists l k, snd (check c e) = Some (l, k).
Proof. exact rejects. Qed.
Print Assumptions C03_rejects.

(* ------------------------------------------------------------------------------------------
   The SOUNDNESS half.  Definitions: Ty/Sound.v (value typing has_ty, the assumptions env_ok on
   the environment value and fenv_ok on the environment functions, the decidable carve-out
   in_scope); proofs: Ty/SoundProofs.v.

   res_ok te ftab nn t r  :=  match r with Done v _ => has_ty te ftab nn v t     (dynamic type = reported type)
                                          | Stop er _ _ => is_type_err er = false (never a type reason) end
   nn = true: the environment holds no nil pointer to a struct (then x.f / x.m() through *T are in
   scope); nn = false: nil pointers are values of type *T and those shapes are carved out. *)
From Coq Require Import Permutation.
Require Import X.Ty.Sound X.Ty.SoundProofs.

(* the statement for EVERY accepted expression *)
Definition C03_sound_full_statement : Prop := sound_full_statement.

(* It is FALSE of the pinned tree (the recorded C03 findings): one replayable witness per finding,
   each accepted by check, outside in_scope, and failing for a type reason / yielding a value of
   another type than reported, in the universe SWit of Ty/SoundProofs.v
   (env{ I int; F float64; S string; B bool; AI []int; MI map[string]int; AA []interface{}; In Inner;
        P *Inner (nil); Inc func(int) int; FS func(string) string; M MyInt; PI *int }). *)
Theorem C03_sound_full_statement_refuted : ~ C03_sound_full_statement.
Proof. exact sound_full_refuted. Qed.
Print Assumptions C03_sound_full_statement_refuted.

Theorem C03_sound_refuted_literal_retype :      (* FS(1), FS func(string) string *)
  in_scope SWit.c false SWit.w_literal_retype = false /\ SWit.unsound_at SWit.w_literal_retype.
Proof. exact SWit.refuted_literal_retype. Qed.
Print Assumptions C03_sound_refuted_literal_retype.

Theorem C03_sound_refuted_named_int :           (* M == 1, type MyInt int *)
  in_scope SWit.c false SWit.w_named_int = false /\ SWit.unsound_at SWit.w_named_int.
Proof. exact SWit.refuted_named_int. Qed.
Print Assumptions C03_sound_refuted_named_int.

Theorem C03_sound_refuted_nilsafe_on_slice :    (* AI?.x *)
  in_scope SWit.c false SWit.w_nilsafe_on_slice = false /\ SWit.unsound_at SWit.w_nilsafe_on_slice.
Proof. exact SWit.refuted_nilsafe_on_slice. Qed.
Print Assumptions C03_sound_refuted_nilsafe_on_slice.

Theorem C03_sound_refuted_cond_branch :         (* (B ? 1 : nil) + 1 *)
  in_scope SWit.c false SWit.w_cond_branch = false /\ SWit.unsound_at SWit.w_cond_branch.
Proof. exact SWit.refuted_cond_branch. Qed.
Print Assumptions C03_sound_refuted_cond_branch.

Theorem C03_sound_refuted_index_key :           (* AI["a"] *)
  in_scope SWit.c false SWit.w_index_key = false /\ SWit.unsound_at SWit.w_index_key.
Proof. exact SWit.refuted_index_key. Qed.
Print Assumptions C03_sound_refuted_index_key.

Theorem C03_sound_refuted_slice_of_map :        (* MI[1:2] *)
  in_scope SWit.c false SWit.w_slice_of_map = false /\ SWit.unsound_at SWit.w_slice_of_map.
Proof. exact SWit.refuted_slice_of_map. Qed.
Print Assumptions C03_sound_refuted_slice_of_map.

Theorem C03_sound_refuted_builtin_elem :        (* filter(AI, {# > 0}): reported []int, yields []interface{} *)
  in_scope SWit.c false SWit.w_builtin_elem = false /\ SWit.unsound_at SWit.w_builtin_elem.
Proof. exact SWit.refuted_builtin_elem. Qed.
Print Assumptions C03_sound_refuted_builtin_elem.

Theorem C03_sound_refuted_pointer_operand :     (* PI + 1, PI *int *)
  in_scope SWit.c false SWit.w_pointer_operand = false /\ SWit.unsound_at SWit.w_pointer_operand.
Proof. exact SWit.refuted_pointer_operand. Qed.
Print Assumptions C03_sound_refuted_pointer_operand.

Theorem C03_sound_refuted_map_key :             (* {(1): 2} *)
  in_scope SWit.c false SWit.w_map_key = false /\ SWit.unsound_at SWit.w_map_key.
Proof. exact SWit.refuted_map_key. Qed.
Print Assumptions C03_sound_refuted_map_key.

Theorem C03_sound_refuted_nil_argument :        (* Inc(nil) *)
  in_scope SWit.c false SWit.w_nil_argument = false /\ SWit.unsound_at SWit.w_nil_argument.
Proof. exact SWit.refuted_nil_argument. Qed.
Print Assumptions C03_sound_refuted_nil_argument.

Theorem C03_sound_refuted_nil_struct_pointer :  (* P.X, P a nil *Inner: "cannot fetch X from *Inner" *)
  in_scope SWit.c false SWit.w_nil_struct_pointer = false /\ SWit.unsound_at SWit.w_nil_struct_pointer.
Proof. exact SWit.refuted_nil_struct_pointer. Qed.
Print Assumptions C03_sound_refuted_nil_struct_pointer.

(* PROVED, for all expressions, environments of the declared struct type, run states: an accepted
   expression inside the decidable carve-out never fails for a type reason, and a result has the
   reported type.  Hypotheses: perm is the iteration order of Go maps (any permutation); wf_tenv is
   what the Go compiler guarantees of declarations; c_mapenv = false (struct environment);
   env_ok: the environment is a (pointer to a) struct value of the declared type, well-formed, and
   the types table is the one CreateTypesTable makes for that type; fenv_ok: the environment
   functions have their declared signatures, return values of their declared result type and do
   not fail for a type reason of their own. *)
Theorem C03_sound_partial :
  forall (c : cconfig) (perm : TypesTable.table -> TypesTable.table),
  (forall l, Permutation (perm l) l) -> wf_tenv (cc_te c) = true ->
  forall ftab nn fe cfg env T sn, c_mapenv cfg = false -> env_ok c perm ftab nn T sn env -> fenv_ok (cc_te c) ftab nn fe ->
  forall e t e', check c e = (t, e', None) -> in_scope c nn e = true ->
  forall s, res_ok (cc_te c) ftab nn t (eval fe cfg env [] e' s).
Proof. exact sound_partial. Qed.
Print Assumptions C03_sound_partial.

(* AsBool / AsInt64 / AsFloat64: the run yields exactly a bool / an int64 / a float64 (cast_post),
   and the conversion itself does not fail for a type reason *)
Theorem C03_cast :
  forall (c : cconfig) (perm : TypesTable.table -> TypesTable.table),
  (forall l, Permutation (perm l) l) -> wf_tenv (cc_te c) = true ->
  forall ftab nn fe cfg env T sn, c_mapenv cfg = false -> env_ok c perm ftab nn T sn env -> fenv_ok (cc_te c) ftab nn fe ->
  forall e t e' k, check c e = (t, e', None) -> in_scope c nn e = true ->
  cc_expect c = Some k -> cast_scope k t = true ->
  match run_ref fe cfg env (cast_of (Some k)) e' with
  | Done v _ => cast_post k v
  | Stop er _ _ => is_type_err er = false
  end.
Proof. exact cast_kind. Qed.
Print Assumptions C03_cast.

(* non-vacuity: the universe SWit meets every hypothesis of C03_sound_partial ... *)
Example C03_sound_hypotheses_hold :
  (forall l, Permutation (perm_id l) l) /\ wf_tenv (cc_te SWit.c) = true /\ c_mapenv SWit.cfg = false /\
  env_ok SWit.c perm_id SWit.ftab false (TStruct "Env") "Env" SWit.env /\ fenv_ok (cc_te SWit.c) SWit.ftab false SWit.fe /\
  env_ok SWit.c perm_id SWit.ftab true (TStruct "Env") "Env" SWit.env2 /\ fenv_ok (cc_te SWit.c) SWit.ftab true SWit.fe.
Proof.
  exact (conj SWit.perm_ok (conj SWit.te_wf (conj eq_refl (conj (SWit.env_is_ok None) (conj (SWit.fe_ok false)
          (conj (SWit.env2_is_ok None) (SWit.fe_ok true))))))).
Qed.

(* ... and non-trivial expressions are accepted, in scope, and evaluate to a value of the reported type:
   I + 2 * F > 1.0 ? count(AI, {# > I}) : len(S)   (mixed kinds, comparison, conditional, closure) *)
Example C03_sound_nonvacuous_mixed : SWit.accepted_in_scope SWit.ex_mixed (TNum KInt) (vint 2).
Proof. exact SWit.ex_mixed_ok. Qed.
(* Inc(1) + Twice(I) + In.Get() + In.X + AI[0] + MI["a"] + len(AI[1:2]) *)
Example C03_sound_nonvacuous_calls : SWit.accepted_in_scope SWit.ex_calls (TNum KInt) (vint 25).
Proof. exact SWit.ex_calls_ok. Qed.
(* "a" in MI and S matches "^a" and I in 1..3 and not (S contains "z") and all(AI, {# % 2 == 1}) *)
Example C03_sound_nonvacuous_bools : SWit.accepted_in_scope SWit.ex_bools TBool (VBool true).
Proof. exact SWit.ex_bools_ok. Qed.
(* {"k": [I, S], "n": len(filter(AA, {true}))} *)
Example C03_sound_nonvacuous_literals :
  SWit.accepted_in_scope SWit.ex_literals (TMap TString TIface)
    (VMap TString TIface [(VStr "k", VArr TIface [vint 3; VStr "abc"]); (VStr "n", vint 2)]).
Proof. exact SWit.ex_literals_ok. Qed.
(* P.X + P.Get() with P *Inner, in the environment without nil pointers (nn = true) *)
Example C03_sound_nonvacuous_pointer :
  in_scope SWit.c true SWit.ex_pointer = true /\ in_scope SWit.c false SWit.ex_pointer = false /\
  fst (fst (check SWit.c SWit.ex_pointer)) = TNum KInt /\ snd (check SWit.c SWit.ex_pointer) = None /\
  exists s, eval SWit.fe SWit.cfg SWit.env2 [] (snd (fst (check SWit.c SWit.ex_pointer))) rs0 = Done (vint 18) s.
Proof. exact SWit.ex_pointer_ok. Qed.
(* AsInt64 *)
Example C03_cast_nonvacuous :
  in_scope (SWit.cc (Some (RKNum KInt64))) false SWit.ex_mixed = true /\
  snd (check (SWit.cc (Some (RKNum KInt64))) SWit.ex_mixed) = None /\
  cast_scope (RKNum KInt64) (fst (fst (check (SWit.cc (Some (RKNum KInt64))) SWit.ex_mixed))) = true /\
  exists s, run_ref SWit.fe SWit.cfg SWit.env CastInt64 (snd (fst (check (SWit.cc (Some (RKNum KInt64))) SWit.ex_mixed)))
            = Done (VNum (NInt KInt64 2)) s.
Proof. exact SWit.ex_cast_ok. Qed.

(* ------------------------------------------------------------------------------------------
   WHERE the error is reported.  first_fault c cols e l (Ty/SoundProofs.v, Part 8): the first node in
   visiting order that violates a documented rule (root_fault of Ty/CheckProofs.v) is reached
   through sub-expressions before which nothing fails (step); l is the location the rule is
   reported at: the node itself, or the operand the rule names (slice bound, builtin collection /
   closure, condition, refused argument: fault_loc). *)
Theorem C03_first_error_location : forall c e l, first_fault c [] e l ->
  exists k, snd (check c e) = Some (l, k) \/
            (cc_expect c <> None /\ snd (check c e) = Some (noloc, CExpect)).
Proof. exact first_error_location. Qed.
Print Assumptions C03_first_error_location.

Theorem C03_first_error_location_plain : forall c e l, cc_expect c = None -> first_fault c [] e l ->
  exists k, snd (check c e) = Some (l, k).
Proof. exact first_error_location_plain. Qed.
Print Assumptions C03_first_error_location_plain.

(* first_fault is a refinement of the reference relation of C03_rejects *)
Theorem C03_first_fault_is_violation : forall c cols e l, first_fault c cols e l -> ill_typed_ref c cols e.
Proof. exact first_fault_ill_typed. Qed.
Print Assumptions C03_first_fault_is_violation.

(* non-vacuity: I + S * 2 (fault at the inner node), count(AI, {Inc(#, 1) > 0}) (fault inside a closure) *)
Example C03_first_error_location_nonvacuous :
  first_fault SWit.c [] LWit.e_inner (1%Z, 6%Z) /\ snd (check SWit.c LWit.e_inner) = Some ((1%Z, 6%Z), CMismatch2) /\
  first_fault SWit.c [] LWit.e_closure (1%Z, 11%Z) /\ snd (check SWit.c LWit.e_closure) = Some ((1%Z, 11%Z), CTooMany).
Proof. exact (conj LWit.e_inner_fault (conj LWit.e_inner_reported (conj LWit.e_closure_fault LWit.e_closure_reported))). Qed.
(* ---- lines to append to Props/C03.v (the file must then be listed AFTER Bridge/BrChecker.v) ---- *)
(* The model checker Ty/Checker.v is the Go checker as it stands in the source: checker/checker.go and
   checker/types.go regenerated statement by statement (gen/GenChecker.v), interpreted (Ty/CheckRules.v),
   compute Checker.check.  Side condition checker_bridge_ok (decidable): config.Expect is not written
   Some RKInvalid, builtins have their parser shape, callees have signatures Go can produce (a method has its
   receiver, a variadic function a last parameter; where FunctionNode asks the Kind() of a result / last-parameter /
   element type, that type is not the nil reflect.Type).  Every node kind, FunctionNode included. *)
Require Import X.Ty.CheckRules X.Ty.CheckRulesProofs X.Ty.CheckRulesLoops X.gen.GenChecker X.Bridge.BrCheckerRules
               X.Bridge.BrCheckerFunction X.Bridge.BrChecker.

Theorem C03_model_checker_is_source_rules c e :
  checker_bridge_ok c e = true -> gen_check c checker_src e = Some (Checker.check c e).
Proof. exact (model_checker_is_source_rules c e). Qed.
Print Assumptions C03_model_checker_is_source_rules.

Theorem C03_model_visitor_is_source_rules c e cols st :
  functions_ok c e = true -> bridge_ok c cols e st = true ->
  gen_visit c checker_src (Ast.esize e) cols e st = Some (Checker.visit c cols e st).
Proof. exact (model_visitor_is_source_rules c e cols st). Qed.
Print Assumptions C03_model_visitor_is_source_rules.

(* isInteger ... isFuncType, the package-level types, isIntegerOrArithmeticOperation and
   setTypeForIntegers, read from types.go, are the model's predicates *)
Theorem C03_type_predicates_are_source c : sem_ok c (gen_sem c checker_src).
Proof. exact (gen_sem_ok c). Qed.
Print Assumptions C03_type_predicates_are_source.

Theorem C03_genchecker_recognised : recognised checker_src = true /\ genchecker_unrecognised = nil.
Proof. exact genchecker_recognised. Qed.

Example C03_checker_bridge_nonvacuous :
  checker_bridge_ok BrEx.cfg BrEx.ex_ok = true /\ checker_bridge_ok BrEx.cfg BrEx.ex_bad = true.
Proof. exact checker_bridge_ok_inhabited. Qed.

(* The member cases: the calls `fieldType(base, node.Property)` / `methodType(base, node.Method)` of the
   regenerated PropertyNode / MethodNode methods are primitives of Ty/CheckRules.v answered by the hand
   models field_type / method_type; that answer IS the interpretation of the called function's own body
   as regenerated from checker/types.go (gen/GenMembers.v, Bridge/BrMembers.v: C16_model_field_type_is_source,
   C16_model_method_type_is_source), inside the decidable fragment of those two theorems. *)
Require X.Ty.TableRules X.Ty.MemberRules X.gen.GenMembers X.Bridge.BrMembersChecker.

Theorem C03_member_field_call_is_source : forall c drf t name fuel,
  X.Ty.TableRules.plain t = true -> X.Ty.TableRules.te_plain (cc_te c) = true ->
  X.Ty.MemberRules.lk_fuel (X.Ty.TypesTable.field_type (cc_te c) (cfuel c) t name) = false ->
  (X.Ty.MemberRules.field_fuel (cc_te c) (cfuel c) t <= fuel)%nat ->
  prim_call c drf "fieldType" [VT t; VS name]
  = X.Bridge.BrMembersChecker.gv_found
      (X.Ty.MemberRules.gen_field_type X.gen.GenMembers.member_funcs X.gen.GenMembers.member_consts (cc_te c) fuel t name).
Proof. exact X.Bridge.BrMembersChecker.checker_fieldType_call_is_source. Qed.
Print Assumptions C03_member_field_call_is_source.

Theorem C03_member_method_call_is_source : forall c drf t name fuel,
  X.Ty.MemberRules.member_ty_ok t = true -> X.Ty.MemberRules.member_te_ok (cc_te c) = true ->
  X.Ty.MemberRules.lk_fuel (X.Ty.TypesTable.method_type (cc_te c) (cfuel c) t name) = false ->
  (X.Ty.MemberRules.method_fuel (cfuel c) <= fuel)%nat ->
  prim_call c drf "methodType" [VT t; VS name]
  = X.Bridge.BrMembersChecker.gv_mfound
      (X.Ty.MemberRules.gen_method_type X.gen.GenMembers.member_funcs X.gen.GenMembers.member_consts (cc_te c) fuel t name).
Proof. exact X.Bridge.BrMembersChecker.checker_methodType_call_is_source. Qed.
Print Assumptions C03_member_method_call_is_source.

(* FunctionNode (checker/checker.go) regenerated = the EFunction case of Checker.visit: the lookup in v.types, the
   detection of the fast signature (node.Fast), checkFunc, the non-strict / defaultType tail; for any meaning M of the
   calls that meets the specification and any results `rec` of the visits of the arguments *)
Theorem C03_function_node_is_source_rules c M (HM : sem_ok c M) rec a name args fast cols st :
  seq_ok c rec cols args st ->
  (forall fn m, Checker.function_callee c name = Some (fn, m) -> sig_ok fn m = true /\ fast_probe_ok fn m = true) ->
  visit_node checker_src c M rec cols (Ast.EFunction a name args fast) st
  = Some (Checker.visit c cols (Ast.EFunction a name args fast) st).
Proof. exact (node_function c M HM rec a name args fast cols st). Qed.
Print Assumptions C03_function_node_is_source_rules.

(* the side condition on the probed types cannot be dropped: a "function type" whose result is the nil type *)
Theorem C03_function_node_needs_probe_types_refuted :
  exists c a name args fast,
    (forall fn m, Checker.function_callee c name = Some (fn, m) -> sig_ok fn m = true) /\
    visit_node checker_src c (model_sem c) (fun cols e st => Some (Checker.visit c cols e st)) nil (Ast.EFunction a name args fast) None
    <> Some (Checker.visit c nil (Ast.EFunction a name args fast) None).
Proof. exact node_function_refuted. Qed.
Print Assumptions C03_function_node_needs_probe_types_refuted.

(* the earlier side condition "no FunctionNode in the tree" is a special case of the present one *)
Theorem C03_no_function_is_special_case c e : no_function e = true -> functions_ok c e = true.
Proof. exact (no_function_functions_ok c e). Qed.
Print Assumptions C03_no_function_is_special_case.

Example C03_checker_bridge_functions_nonvacuous :
  checker_bridge_ok BrFnEx.cfg BrFnEx.ex_ok = true /\ checker_bridge_ok BrFnEx.cfg BrFnEx.ex_bad = true /\
  no_function BrFnEx.ex_ok = false.
Proof. exact checker_bridge_ok_functions. Qed.

(* ------------------------------------------------------------------------------------------------------------------
   CAPSTONES: both halves restated over the REGENERATED checker only (Bridge/BrCapstoneC03.v composes C03_rejects,
   C03_first_error_location, C03_sound_partial, C03_cast with C03_model_checker_is_source_rules; the hand model
   Checker.check no longer occurs in the statements).
     gen_check c checker_src e = Some (t, e', st)   the interpretation of checker/checker.go + checker/types.go as regenerated
                                                    into gen/GenChecker.v reports type t, re-annotated tree e', first error st
   Reference side: Sem.eval, has_ty / res_ok, ill_typed_top / first_fault, cast_post.  Hypotheses: the bridge's decidable
   condition checker_bridge_ok c e, the carve-out in_scope and the environment assumptions of C03_sound_partial. *)
Require Import X.Bridge.BrCapstoneC03.

Theorem C03_source_check_total : forall c e, checker_bridge_ok c e = true ->
  exists t e' st, gen_check c checker_src e = Some (t, e', st).
Proof. exact src_check_total. Qed.

(* a single fault at ANY position (ill_typed_ref is closed under every enclosing node kind), or in the kind of the result
   under a directive, is rejected by the regenerated checker *)
Theorem C03_source_rejects : forall c e, checker_bridge_ok c e = true -> ill_typed_top c e ->
  exists t e' l k, gen_check c checker_src e = Some (t, e', Some (l, k)).
Proof. exact src_rejects. Qed.

Theorem C03_source_first_error_location : forall c e l, checker_bridge_ok c e = true -> first_fault c [] e l ->
  exists t e' k, gen_check c checker_src e = Some (t, e', Some (l, k)) \/
                 (cc_expect c <> None /\ gen_check c checker_src e = Some (t, e', Some (noloc, CExpect))).
Proof. exact src_first_error_location. Qed.

Theorem C03_source_first_error_location_plain : forall c e l, checker_bridge_ok c e = true -> cc_expect c = None ->
  first_fault c [] e l -> exists t e' k, gen_check c checker_src e = Some (t, e', Some (l, k)).
Proof. exact src_first_error_location_plain. Qed.

(* a tree the regenerated checker accepts, inside checker_bridge_ok and in_scope, evaluates to a value of the reported
   type or fails with a non-type failure *)
Theorem C03_source_sound_partial :
  forall (c : cconfig) (perm : TypesTable.table -> TypesTable.table),
  (forall l, Permutation (perm l) l) -> wf_tenv (cc_te c) = true ->
  forall ftab nn fe cfg env T sn, c_mapenv cfg = false -> env_ok c perm ftab nn T sn env -> fenv_ok (cc_te c) ftab nn fe ->
  forall e t e', checker_bridge_ok c e = true -> gen_check c checker_src e = Some (t, e', None) -> in_scope c nn e = true ->
  forall s, res_ok (cc_te c) ftab nn t (Sem.eval fe cfg env [] e' s).
Proof. exact src_sound_partial. Qed.

Theorem C03_source_cast :
  forall (c : cconfig) (perm : TypesTable.table -> TypesTable.table),
  (forall l, Permutation (perm l) l) -> wf_tenv (cc_te c) = true ->
  forall ftab nn fe cfg env T sn, c_mapenv cfg = false -> env_ok c perm ftab nn T sn env -> fenv_ok (cc_te c) ftab nn fe ->
  forall e t e' k, checker_bridge_ok c e = true -> gen_check c checker_src e = Some (t, e', None) -> in_scope c nn e = true ->
  cc_expect c = Some k -> cast_scope k t = true ->
  match run_ref fe cfg env (cast_of (Some k)) e' with
  | Done v _ => cast_post k v
  | Stop er _ _ => is_type_err er = false
  end.
Proof. exact src_cast. Qed.

(* without in_scope the statement is false of the regenerated checker: each of the eleven finding witnesses is inside
   checker_bridge_ok, outside in_scope, accepted by the regenerated checker and refutes the full statement *)
Definition C03_source_sound_full_statement : Prop := src_sound_full_statement.
Theorem C03_source_sound_full_statement_refuted :
  finding_witness SWit.w_literal_retype /\ finding_witness SWit.w_named_int /\ finding_witness SWit.w_nilsafe_on_slice /\
  finding_witness SWit.w_cond_branch /\ finding_witness SWit.w_index_key /\ finding_witness SWit.w_slice_of_map /\
  finding_witness SWit.w_builtin_elem /\ finding_witness SWit.w_pointer_operand /\ finding_witness SWit.w_map_key /\
  finding_witness SWit.w_nil_argument /\ finding_witness SWit.w_nil_struct_pointer.
Proof. exact src_sound_full_statement_refuted. Qed.
Theorem C03_source_finding_witness_unfold : forall e,
  finding_witness e <-> (checker_bridge_ok SWit.c e = true /\ in_scope SWit.c false e = false /\ ~ C03_source_sound_full_statement).
Proof. exact (fun e => iff_refl _). Qed.

Definition C03_source_capstones :=
  (C03_source_check_total, C03_source_rejects, C03_source_first_error_location, C03_source_first_error_location_plain,
   C03_source_sound_partial, C03_source_cast, C03_source_sound_full_statement_refuted).
Print Assumptions C03_source_capstones.

(* non-vacuity: ALL hypotheses of C03_source_sound_partial at once on I + 2 * F > 1.0 ? count(AI, {# > I}) : len(S)
   (bridge condition, in scope, accepted by the regenerated checker with type int, evaluates to 2); the theorem applied;
   and the two located faults reported by the regenerated checker *)
Example C03_source_sound_hypotheses_hold :
  (forall l, Permutation (perm_id l) l) /\ wf_tenv (cc_te SWit.c) = true /\ c_mapenv SWit.cfg = false /\
  env_ok SWit.c perm_id SWit.ftab false (TStruct "Env") "Env" SWit.env /\ fenv_ok (cc_te SWit.c) SWit.ftab false SWit.fe /\
  checker_bridge_ok SWit.c SWit.ex_mixed = true /\ in_scope SWit.c false SWit.ex_mixed = true /\
  exists e', gen_check SWit.c checker_src SWit.ex_mixed = Some (TNum KInt, e', None) /\
             exists s, Sem.eval SWit.fe SWit.cfg SWit.env [] e' rs0 = Done (vint 2) s.
Proof. exact src_sound_hypotheses_hold. Qed.

Example C03_source_sound_applied : exists e', gen_check SWit.c checker_src SWit.ex_mixed = Some (TNum KInt, e', None) /\
  forall s, res_ok (cc_te SWit.c) SWit.ftab false (TNum KInt) (Sem.eval SWit.fe SWit.cfg SWit.env [] e' s).
Proof. exact src_sound_applied. Qed.

Example C03_source_first_error_location_nonvacuous :
  checker_bridge_ok SWit.c LWit.e_inner = true /\ first_fault SWit.c [] LWit.e_inner (1%Z, 6%Z) /\
  (exists t e', gen_check SWit.c checker_src LWit.e_inner = Some (t, e', Some ((1%Z, 6%Z), CMismatch2))) /\
  checker_bridge_ok SWit.c LWit.e_closure = true /\ first_fault SWit.c [] LWit.e_closure (1%Z, 11%Z) /\
  (exists t e', gen_check SWit.c checker_src LWit.e_closure = Some (t, e', Some ((1%Z, 11%Z), CTooMany))).
Proof. exact src_first_error_location_nonvacuous. Qed.

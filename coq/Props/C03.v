(* Props/C03.v — Static typing is sound and rejects ill-typed expressions.
   Only statements, each closed by `exact`, with Print Assumptions, and non-vacuity Examples.

   Model: Ty/Checker.v (checker.Check with the re-annotated tree and the first error), tied to
   checker/checker.go, checker/types.go and conf/operators_table.go by the executed correspondence
   of harness/c03.go; reference: Sem/Sem.v (reference semantics, tied to the compiled code by C01's
   compile_correct) and the relation ill_typed_ref of Ty/CheckProofs.v (documented typing rules). *)
From Coq Require Import ZArith Bool List String.
Require Import X.Base.Num X.Base.Value X.Syn.Ast X.Sem.Prim X.Sem.Sem X.Ty.Types X.Ty.TypesTable X.Ty.Checker X.Ty.CheckProofs.
Import ListNotations.
Open Scope string_scope.

(* the first error the visitor records survives every later step (v.error keeps the first) *)
Theorem C03_first_error_survives : forall c e cols y, snd (visit c cols e (Some y)) = Some y.
Proof. exact (fun c e cols y => visit_sticky c e cols y). Qed.
Print Assumptions C03_first_error_survives.

(* an expression that violates a documented typing rule AT ANY NODE (ill_typed_ref is closed
   under every enclosing node kind), or in the kind of its result under a directive, is rejected *)
Theorem C03_rejects : forall c e, ill_typed_top c e -> exists l k, snd (check c e) = Some (l, k).
Proof. exact rejects. Qed.
Print Assumptions C03_rejects.

(* Props/C15.v — Type information only rejects; it never changes meaning (instruction level). *)
From Coq Require Import ZArith Bool List String.
Require Import X.Base.Num X.Base.Value X.Syn.Ast X.Sem.Prim X.Sem.Sem X.BC.ModeProofs.
Import ListNotations.
Local Open Scope Z_scope.

(* == compiled to OpEqualInt / OpEqualString (operands statically int / string): whenever the
   specialised comparison succeeds, the generic comparison returns the same value *)
Theorem C15_eq_specialised_agrees :
  forall l va vb r v r',
  (lift l r (as_int va) (fun a => lift l r (as_int vb) (fun b => Done (VBool (a =? b)) r)) = Done v r' \/
   lift l r (as_str va) (fun a => lift l r (as_str vb) (fun b => Done (VBool (String.eqb a b)) r)) = Done v r') ->
  lift l r (p_equal va vb) (fun w => Done w r) = Done v r'.
Proof. exact eq_specialised_agrees. Qed.
Print Assumptions C15_eq_specialised_agrees.

(* identifiers compiled to OpFetchMap (Env(map[string]interface{})) read what OpFetch reads *)
Theorem C15_fetch_map_generic :
  forall limit m name ns,
  fetch_ident (mkCfg true limit) (VMap TString TIface m) name ns =
  fetch_ident (mkCfg false limit) (VMap TString TIface m) name ns.
Proof. exact fetch_map_generic. Qed.
Print Assumptions C15_fetch_map_generic.

(* calls compiled to OpCallFast behave like OpCall *)
Theorem C15_call_fast_generic :
  forall fe l id recv args s sg,
  fn_sig fe id = Some sg -> s_ins sg = [TSlice TIface] -> s_variadic sg = true -> s_nout sg = 1 -> s_fast sg = true ->
  do_call fe l true id recv args s = do_call fe l false id recv args s.
Proof. exact call_fast_generic. Qed.
Print Assumptions C15_call_fast_generic.

(* typed integer literals are conversions of the untyped literal *)
Theorem C15_typed_literal :
  forall a z k, akind a = RKNum k -> exists n, convert k (NInt KInt z) = Some n /\ int_const a z = VNum n.
Proof. exact int_const_is_conversion. Qed.
Print Assumptions C15_typed_literal.

(* struct, pointer to struct, map with the same members *)
Theorem C15_env_shape_struct_ptr :
  forall n fields i ns, p_fetch (VStruct n false fields) i ns = p_fetch (VStruct n true fields) i ns.
Proof. exact fetch_struct_ptr. Qed.

Theorem C15_env_shape_struct_map :
  forall n p fields name ns v,
  p_fetch (VStruct n p fields) (VStr name) ns = Ok v -> assoc_str name fields <> None ->
  p_fetch (VMap TString TIface (as_map fields)) (VStr name) ns = Ok v.
Proof. exact fetch_struct_map. Qed.
Print Assumptions C15_env_shape_struct_map.

(* The whole-expression statement of the property ("all variants that succeed return equal results")
   is NOT a theorem of this development: it needs the hypothesis that the annotations are the
   checker's and an induction relating a typed and an untyped tree.  It is decided on the
   implementation by the pairwise comparison of the eight variants (harness c15), and each tree's
   compiled code is tied to the reference semantics by compile_correct (C01). *)

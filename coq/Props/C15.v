(* Props/C15.v — Type information only rejects; it never changes meaning.
   First the instruction-level lemmas (BC/ModeProofs.v), then the whole-expression theorems on the
   reference semantics (Sem/ModeAgree.v); compiled code is tied to Sem.eval by compile_correct (C01). *)
From Coq Require Import ZArith Bool List String.
Require Import X.Base.Num X.Base.Value X.Syn.Ast X.Sem.Prim X.Sem.Sem X.BC.ModeProofs X.Sem.ModeAgree.
Import ListNotations.
Local Open Scope Z_scope.

(* == compiled to OpEqualInt / OpEqualString (operands statically int / string): whenever the
   specialised comparison succeeds, the generic comparison returns the same value *)
Theorem C15_eq_specialised_agrees :
  forall l va vb r v r',
  (lift l r (as_int va) (fun a => lift l r (as_int vb) (fun b => Done (VBool (a =? b)) r)) = Done v r' \/
   lift l r (as_str va) (fun a => lift l r (as_str vb) (fun b => Done (VBool (String.eqb a b)) r)) = Done v r') ->
  lift l r (p_equal va vb) (fun w => Done w r) = Done v r'.
Proof. exact eq_specialised_agrees. Qed.
Print Assumptions C15_eq_specialised_agrees.

(* identifiers compiled to OpFetchMap (Env(map[string]interface{})) read what OpFetch reads *)
Theorem C15_fetch_map_generic :
  forall limit m name ns,
  fetch_ident (mkCfg true limit) (VMap TString TIface m) name ns =
  fetch_ident (mkCfg false limit) (VMap TString TIface m) name ns.
Proof. exact fetch_map_generic. Qed.
Print Assumptions C15_fetch_map_generic.

(* calls compiled to OpCallFast behave like OpCall *)
Theorem C15_call_fast_generic :
  forall fe l id recv args s sg,
  fn_sig fe id = Some sg -> s_ins sg = [TSlice TIface] -> s_variadic sg = true -> s_nout sg = 1 -> s_fast sg = true ->
  do_call fe l true id recv args s = do_call fe l false id recv args s.
Proof. exact call_fast_generic. Qed.
Print Assumptions C15_call_fast_generic.

(* typed integer literals are conversions of the untyped literal *)
Theorem C15_typed_literal :
  forall a z k, akind a = RKNum k -> exists n, convert k (NInt KInt z) = Some n /\ int_const a z = VNum n.
Proof. exact int_const_is_conversion. Qed.
Print Assumptions C15_typed_literal.

(* struct, pointer to struct, map with the same members *)
Theorem C15_env_shape_struct_ptr :
  forall n fields i ns, p_fetch (VStruct n false fields) i ns = p_fetch (VStruct n true fields) i ns.
Proof. exact fetch_struct_ptr. Qed.

Theorem C15_env_shape_struct_map :
  forall n p fields name ns v,
  p_fetch (VStruct n p fields) (VStr name) ns = Ok v -> assoc_str name fields <> None ->
  p_fetch (VMap TString TIface (as_map fields)) (VStr name) ns = Ok v.
Proof. exact fetch_struct_map. Qed.
Print Assumptions C15_env_shape_struct_map.

(* ================================================================== whole expressions *)
(* The compilation variants of one source differ, in the model, only in (a) the kind annotations
   (read by int_const for literals and by both_kind at ==), (b) the fast flag of function calls,
   (c) c_mapenv and the shape of the environment value.  same_shape = equal up to (a) and (b).
   ok fe env e = the decidable carve-out `wf e` (every literal is plain, except inside a call argument
   that is a literal-only arithmetic tree retyped as a whole to one kind) + for each such argument the
   typing fact about the callee (site_ok: the parameter at that position has that kind).
   "Equal results" = equal value AND equal run state (call trace with arguments, allocation count). *)

(* two variants of one source on the same environment: whenever both succeed, same value, same state *)
Theorem C15_modes_agree :
  forall fe cfg env ctx s e1 e2 v1 s1 v2 s2,
  fast_sound fe -> same_shape e1 e2 -> ok fe env e1 -> ok fe env e2 ->
  eval fe cfg env ctx e1 s = Done v1 s1 -> eval fe cfg env ctx e2 s = Done v2 s2 -> v1 = v2 /\ s1 = s2.
Proof. exact modes_agree. Qed.
Print Assumptions C15_modes_agree.

(* the general form: the two sides may also differ in configuration and environment value, as long as
   identifiers and callables resolve alike on both *)
Theorem C15_modes_agree_gen :
  forall fe cfg1 cfg2 env1 env2,
  c_limit cfg1 = c_limit cfg2 ->
  (forall name ns v1 v2, fetch_ident cfg1 env1 name ns = Ok v1 -> fetch_ident cfg2 env2 name ns = Ok v2 -> v1 = v2) ->
  (forall name id1 id2, fetch_fn fe env1 name = Ok id1 -> fetch_fn fe env2 name = Ok id2 -> id1 = id2) ->
  (forall name id args, fetch_fn fe env1 name = Ok id -> fetch_fn fe env2 name = Ok id ->
     fn_run fe id env1 args = fn_run fe id env2 args) ->
  fast_sound fe ->
  forall e1 e2 ctx s v1 s1 v2 s2,
  same_shape e1 e2 -> ok fe env1 e1 -> ok fe env2 e2 ->
  eval fe cfg1 env1 ctx e1 s = Done v1 s1 -> eval fe cfg2 env2 ctx e2 s = Done v2 s2 -> v1 = v2 /\ s1 = s2.
Proof. exact modes_agree_gen. Qed.
Print Assumptions C15_modes_agree_gen.

(* Env(map[string]interface{}): OpFetchMap against OpFetch, on top of differing annotations *)
Theorem C15_modes_agree_mapenv :
  forall fe limit m ctx s e1 e2 v1 s1 v2 s2,
  let env := VMap TString TIface m in
  fast_sound fe -> same_shape e1 e2 -> ok fe env e1 -> ok fe env e2 ->
  eval fe (mkCfg true limit) env ctx e1 s = Done v1 s1 ->
  eval fe (mkCfg false limit) env ctx e2 s = Done v2 s2 -> v1 = v2 /\ s1 = s2.
Proof. exact modes_agree_mapenv. Qed.
Print Assumptions C15_modes_agree_mapenv.

(* the environment as a struct value against a pointer to it *)
Theorem C15_modes_agree_struct_ptr :
  forall fe cfg1 cfg2 n fields ctx s e1 e2 v1 s1 v2 s2,
  let env1 := VStruct n false fields in
  let env2 := VStruct n true fields in
  c_limit cfg1 = c_limit cfg2 -> c_mapenv cfg1 = c_mapenv cfg2 ->
  (forall name id, fn_method fe n false name = Some id -> fn_method fe n true name = Some id) ->
  (forall name id, fn_method fe n true name = Some id -> assoc_str name fields = None) ->
  (forall id args, fn_run fe id env1 args = fn_run fe id env2 args) ->
  fast_sound fe -> same_shape e1 e2 -> ok fe env1 e1 -> ok fe env2 e2 ->
  eval fe cfg1 env1 ctx e1 s = Done v1 s1 -> eval fe cfg2 env2 ctx e2 s = Done v2 s2 -> v1 = v2 /\ s1 = s2.
Proof. exact modes_agree_struct_ptr. Qed.
Print Assumptions C15_modes_agree_struct_ptr.

(* the environment as a struct against a map[string]interface{} with the same members *)
Theorem C15_modes_agree_struct_map :
  forall fe cfg1 cfg2 n p fields ctx s e1 e2 v1 s1 v2 s2,
  let env1 := VStruct n p fields in
  let env2 := VMap TString TIface (as_map fields) in
  c_limit cfg1 = c_limit cfg2 ->
  (forall name id, fn_method fe n p name = Some id -> assoc_str name fields = None) ->
  (forall name id tf args, assoc_str name fields = Some (VFunc id tf) -> fn_run fe id env1 args = fn_run fe id env2 args) ->
  fast_sound fe -> same_shape e1 e2 -> ok fe env1 e1 -> ok fe env2 e2 ->
  eval fe cfg1 env1 ctx e1 s = Done v1 s1 -> eval fe cfg2 env2 ctx e2 s = Done v2 s2 -> v1 = v2 /\ s1 = s2.
Proof. exact modes_agree_struct_map. Qed.
Print Assumptions C15_modes_agree_struct_map.

(* a member of the environment reads the same from a struct, a pointer to it and the map *)
Theorem C15_ident_env_shapes :
  forall cfg n p fields name ns v,
  c_mapenv cfg = false ->
  fetch_ident cfg (VStruct n p fields) name ns = Ok v ->
  fetch_ident cfg (VStruct n (negb p) fields) name ns = Ok v /\
  (forall b limit, fetch_ident (mkCfg b limit) (VMap TString TIface (as_map fields)) name ns = Ok v).
Proof. exact ident_env_shapes. Qed.
Print Assumptions C15_ident_env_shapes.

(* ---- the statement for the trees the checker REALLY produces is false (finding C15-arg-retype-mixed):
   checkFunc / setTypeForIntegers retypes the integer literals below + - * / of a call argument even
   when other leaves are not literals (ok_full allows such mixed arguments): `Half(I / 2 + Y)` with
   Env{I int = 1; Y float64 = 0; Half func(float64) float64} is 0.25 with the declared type
   (1 / 2.0 + 0.0) and 0 without it (1 / 2 = 0 in int); both calls succeed.  Replayed on the library. *)
Definition C15_modes_agree_full_statement : Prop :=
  forall fe cfg env ctx s e1 e2 v1 s1 v2 s2,
  fast_sound fe -> same_shape e1 e2 -> ok_full fe env e1 -> ok_full fe env e2 ->
  eval fe cfg env ctx e1 s = Done v1 s1 -> eval fe cfg env ctx e2 s = Done v2 s2 -> v1 = v2 /\ s1 = s2.

Theorem C15_modes_agree_full_statement_refuted : ~ C15_modes_agree_full_statement.
Proof. exact modes_agree_refuted. Qed.
Print Assumptions C15_modes_agree_full_statement_refuted.

(* the full statement under the DECIDABLE carve-out wf (retyped arguments are literal-only trees);
   ok fe env e <-> ok_full fe env e /\ wf e = true *)
Theorem C15_modes_agree_partial :
  forall fe cfg env ctx s e1 e2 v1 s1 v2 s2,
  fast_sound fe -> same_shape e1 e2 -> ok_full fe env e1 -> ok_full fe env e2 ->
  wf e1 = true -> wf e2 = true ->
  eval fe cfg env ctx e1 s = Done v1 s1 -> eval fe cfg env ctx e2 s = Done v2 s2 -> v1 = v2 /\ s1 = s2.
Proof. exact modes_agree_partial. Qed.
Print Assumptions C15_modes_agree_partial.

Theorem C15_ok_is_ok_full_and_wf :
  forall fe env e, ok fe env e <-> (ok_full fe env e /\ wf e = true).
Proof. exact ok_iff_ok_full_wf. Qed.

(* ---- non-vacuity: all([1, 2], # == 1 || Half(1 + 2) > 1.0) && Fast(I, "a") == 2 in two variants
   (int-annotated literals, OpEqualInt, OpCallFast / unannotated, generic; the argument of Half retyped
   to float64 in both) on the harness universe: all hypotheses hold, both runs succeed, equal results *)
Example C15_modes_agree_nonvacuous :
  fast_sound fe_demo /\ same_shape (ex_tree true) (ex_tree false) /\ ex_tree true <> ex_tree false /\
  ok fe_demo env_demo (ex_tree true) /\ ok fe_demo env_demo (ex_tree false) /\
  sites (ex_tree true) = [mkSite false "Half" 0 KF64] /\
  eval fe_demo cfg_demo env_demo [] (ex_tree true) rs0 = ex_result /\
  eval fe_demo cfg_demo env_demo [] (ex_tree false) rs0 = ex_result /\
  (exists st, ex_result = Done (VBool true) st /\ r_mem st = 2 /\ map fst (r_trace st) = ["Half"%string; "Fast"%string]).
Proof.
  split; [exact (u_fenv_fast_sound [] [])|]. split; [exact ex_tree_same|]. split; [exact ex_tree_differ|].
  split; [exact (ex_tree_ok true)|]. split; [exact (ex_tree_ok false)|]. split; [reflexivity|].
  split; [exact (ex_tree_runs true)|]. split; [exact (ex_tree_runs false)|].
  eexists. split; [reflexivity|]. split; reflexivity.
Qed.

(* the hypotheses of the environment-shape theorems hold for the same expression on Env, *Env and the map *)
Example C15_env_shapes_nonvacuous :
  (forall name id, fn_method fe_demo "Env" false name = Some id -> fn_method fe_demo "Env" true name = Some id) /\
  (forall p name id, fn_method fe_demo "Env" p name = Some id -> assoc_str name fields_demo = None) /\
  (forall id args, fn_run fe_demo id env_demo args = fn_run fe_demo id env_demo_ptr args) /\
  (forall name id tf args, assoc_str name fields_demo = Some (VFunc id tf) ->
     fn_run fe_demo id env_demo args = fn_run fe_demo id env_demo_map args) /\
  ok fe_demo env_demo_ptr (ex_tree true) /\ ok fe_demo env_demo_map (ex_tree false) /\
  eval fe_demo cfg_demo env_demo_ptr [] (ex_tree true) rs0 = ex_result /\
  eval fe_demo (mkCfg true 1000) env_demo_map [] (ex_tree false) rs0 = ex_result /\
  eval fe_demo (mkCfg false 1000) env_demo_map [] (ex_tree true) rs0 = ex_result.
Proof.
  split; [exact demo_methods_sub|]. split; [exact demo_methods_disjoint|].
  split; [intros id args; reflexivity|]. split; [exact demo_run_fields|].
  split; [exact (ex_tree_ok_env _ true (or_introl eq_refl))|].
  split; [exact (ex_tree_ok_env _ false (or_intror eq_refl))|].
  split; [exact (ex_tree_runs_ptr true)|]. split; [exact (ex_tree_runs_map false true)|exact (ex_tree_runs_map true false)].
Qed.

(* That the checker model (Ty/Checker.v) establishes ok_full / site_ok for the trees it returns is the
   last part of this file (Ty/ModeBridge.v).  Not proved here: the transfer to compiled code (C01's
   compile_correct, per tree).  The implementation is additionally compared pairwise by harness c15. *)

(* ================================================================== the checker establishes the annotation conditions *)
(* This part supersedes the first half of the note above.
   Ty/ModeBridge.v: the trees the checker model returns satisfy ok_full, so the `ok` hypotheses of
   C15_modes_agree are discharged by theorems about `check` (environment typing as in C03_sound_partial).
     raw e              every integer literal of the source is unannotated (or int) and in the int range
                        (what the parser produces);
     bridge_scope c e   raw + the DECIDABLE carve-out at every function call: where an argument that is a
                        literal or a + - * / node meets a parameter whose Kind is a number kind other than
                        int, the parameter type is that number type itself (no declared `type Celsius
                        float64`), the name is an unambiguous entry of function type proper, and the Go
                        guarantees on signatures hold (sc_sig);
     method_sites e'    the retyped arguments of METHOD calls in the returned tree: for them site_ok is a
                        statement about every callable of that name in the function environment and does
                        not follow from the static type of the receiver (C15_method_sites_not_from_typing);
                        they stay a hypothesis, void under the decidable no_method_sites e'. *)
From Coq Require Import Permutation.
Require Import X.Ty.Types X.Ty.TypesTable X.Ty.Checker X.Ty.Sound X.Ty.ModeBridge.

Theorem C15_checker_establishes_ok :
  forall c perm ftab nn fe env T sn e t e',
  (forall l, Permutation (perm l) l) -> wf_tenv (cc_te c) = true ->
  env_ok c perm ftab nn T sn env -> fenv_ok (cc_te c) ftab nn fe ->
  check c e = (t, e', None) -> bridge_scope c e = true ->
  Forall (site_ok fe env) (method_sites e') ->
  ok_full fe env e' /\ same_shape e e'.
Proof. exact checker_establishes_ok_full. Qed.
Print Assumptions C15_checker_establishes_ok.

Theorem C15_checker_establishes_ok_dec :
  forall c perm ftab nn fe env T sn e t e',
  (forall l, Permutation (perm l) l) -> wf_tenv (cc_te c) = true ->
  env_ok c perm ftab nn T sn env -> fenv_ok (cc_te c) ftab nn fe ->
  check c e = (t, e', None) -> bridge_scope c e = true -> no_method_sites e' = true ->
  ok_full fe env e' /\ same_shape e e'.
Proof. exact checker_establishes_ok_full_dec. Qed.
Print Assumptions C15_checker_establishes_ok_dec.

(* compiled without a declared environment (config.Types == nil): function arguments are not visited *)
Theorem C15_checker_establishes_ok_untyped :
  forall c fe env e t e' st,
  cc_types c = None -> check c e = (t, e', st) -> raw e = true ->
  Forall (site_ok fe env) (method_sites e') ->
  ok_full fe env e' /\ same_shape e e'.
Proof. exact checker_establishes_ok_full_untyped. Qed.
Print Assumptions C15_checker_establishes_ok_untyped.

(* whatever the verdict: same source, well annotated, every function call site established *)
Theorem C15_checker_tree_ok :
  forall c fe env e,
  callee_ok c fe env -> bridge_scope c e = true ->
  same_shape e (checked c e) /\ wf_full None (checked c e) = true /\
  Forall (fun st => st_method st = true \/ site_ok fe env st) (sites_full (checked c e)).
Proof. exact checker_tree_ok. Qed.
Print Assumptions C15_checker_tree_ok.

(* one source checked with the declared environment type (c1) and without one (c0): both accepted
   trees, when both evaluate, give the same value, call log and allocation count.  The `ok` hypotheses
   of C15_modes_agree are gone; what remains: C03's environment typing, fast_sound, the carve-outs
   bridge_scope (source) and wf (finding C15-arg-retype-mixed, both trees), method sites. *)
Theorem C15_typed_vs_untyped :
  forall c1 c0 perm ftab nn fe env T sn e t1 e1 t0 e0,
  (forall l, Permutation (perm l) l) -> wf_tenv (cc_te c1) = true ->
  env_ok c1 perm ftab nn T sn env -> fenv_ok (cc_te c1) ftab nn fe -> fast_sound fe ->
  cc_types c0 = None ->
  bridge_scope c1 e = true ->
  check c1 e = (t1, e1, None) -> check c0 e = (t0, e0, None) ->
  wf e1 = true -> wf e0 = true ->
  Forall (site_ok fe env) (method_sites e1) -> Forall (site_ok fe env) (method_sites e0) ->
  forall cfg ctx s v1 s1 v0 s0,
  eval fe cfg env ctx e1 s = Done v1 s1 -> eval fe cfg env ctx e0 s = Done v0 s0 -> v1 = v0 /\ s1 = s0.
Proof. exact typed_vs_untyped. Qed.
Print Assumptions C15_typed_vs_untyped.

Theorem C15_typed_vs_untyped_dec :
  forall c1 c0 perm ftab nn fe env T sn e t1 e1 t0 e0,
  (forall l, Permutation (perm l) l) -> wf_tenv (cc_te c1) = true ->
  env_ok c1 perm ftab nn T sn env -> fenv_ok (cc_te c1) ftab nn fe -> fast_sound fe ->
  cc_types c0 = None ->
  bridge_scope c1 e = true ->
  check c1 e = (t1, e1, None) -> check c0 e = (t0, e0, None) ->
  wf e1 = true -> wf e0 = true -> no_method_sites e1 = true -> no_method_sites e0 = true ->
  forall cfg ctx s v1 s1 v0 s0,
  eval fe cfg env ctx e1 s = Done v1 s1 -> eval fe cfg env ctx e0 s = Done v0 s0 -> v1 = v0 /\ s1 = s0.
Proof. exact typed_vs_untyped_dec. Qed.
Print Assumptions C15_typed_vs_untyped_dec.

(* every carve-out decidable on the configuration and the SOURCE: bridge_scope_src = bridge_scope + no
   argument of a method call is an integer literal or a + - * / node (then no method argument is retyped) *)
Theorem C15_checker_establishes_ok_src :
  forall c perm ftab nn fe env T sn e t e',
  (forall l, Permutation (perm l) l) -> wf_tenv (cc_te c) = true ->
  env_ok c perm ftab nn T sn env -> fenv_ok (cc_te c) ftab nn fe ->
  check c e = (t, e', None) -> bridge_scope_src c e = true ->
  ok_full fe env e' /\ same_shape e e'.
Proof. exact checker_establishes_ok_full_src. Qed.
Print Assumptions C15_checker_establishes_ok_src.

Theorem C15_typed_vs_untyped_src :
  forall c1 c0 perm ftab nn fe env T sn e t1 e1 t0 e0,
  (forall l, Permutation (perm l) l) -> wf_tenv (cc_te c1) = true ->
  env_ok c1 perm ftab nn T sn env -> fenv_ok (cc_te c1) ftab nn fe -> fast_sound fe ->
  cc_types c0 = None ->
  bridge_scope_src c1 e = true ->
  check c1 e = (t1, e1, None) -> check c0 e = (t0, e0, None) ->
  wf e1 = true -> wf e0 = true ->
  forall cfg ctx s v1 s1 v0 s0,
  eval fe cfg env ctx e1 s = Done v1 s1 -> eval fe cfg env ctx e0 s = Done v0 s0 -> v1 = v0 /\ s1 = s0.
Proof. exact typed_vs_untyped_src. Qed.
Print Assumptions C15_typed_vs_untyped_src.

(* the general form: any two checker configurations whose tables describe the environment value *)
Theorem C15_variants_agree :
  forall c1 c2 fe env e,
  callee_ok c1 fe env -> callee_ok c2 fe env -> fast_sound fe ->
  bridge_scope c1 e = true -> bridge_scope c2 e = true ->
  wf (checked c1 e) = true -> wf (checked c2 e) = true ->
  Forall (site_ok fe env) (method_sites (checked c1 e)) -> Forall (site_ok fe env) (method_sites (checked c2 e)) ->
  forall cfg ctx s v1 s1 v2 s2,
  eval fe cfg env ctx (checked c1 e) s = Done v1 s1 -> eval fe cfg env ctx (checked c2 e) s = Done v2 s2 ->
  v1 = v2 /\ s1 = s2.
Proof. exact variants_agree. Qed.
Print Assumptions C15_variants_agree.

(* callee_ok is what C03's hypotheses give; it is void without a declared environment *)
Theorem C15_callee_ok_env :
  forall c perm ftab nn fe env T sn,
  (forall l, Permutation (perm l) l) -> wf_tenv (cc_te c) = true ->
  env_ok c perm ftab nn T sn env -> fenv_ok (cc_te c) ftab nn fe -> callee_ok c fe env.
Proof. exact callee_ok_env. Qed.

Theorem C15_callee_ok_untyped : forall c fe env, cc_types c = None -> callee_ok c fe env.
Proof. exact callee_ok_untyped. Qed.

(* the carve-out is weaker than C03's: a raw source inside in_scope is inside bridge_scope *)
Theorem C15_in_scope_bridge_scope :
  forall c nn e, raw e = true -> in_scope c nn e = true -> bridge_scope c e = true.
Proof. exact in_scope_bridge_scope. Qed.
Print Assumptions C15_in_scope_bridge_scope.

(* the statement without carve-out and method-site hypothesis is false of the model: `Warm(20)` with
   Warm func(Celsius) bool is accepted, the literal is annotated float64, reflect.Call wants Celsius *)
Definition C15_checker_establishes_ok_full_statement : Prop :=
  forall c perm ftab nn fe env T sn e t e',
  (forall l, Permutation (perm l) l) -> wf_tenv (cc_te c) = true ->
  env_ok c perm ftab nn T sn env -> fenv_ok (cc_te c) ftab nn fe ->
  check c e = (t, e', None) -> raw e = true -> ok_full fe env e'.

Theorem C15_checker_establishes_ok_full_statement_refuted : ~ C15_checker_establishes_ok_full_statement.
Proof. exact ok_full_statement_refuted. Qed.
Print Assumptions C15_checker_establishes_ok_full_statement_refuted.

(* `A.M(1)` with A.M(float64) and B.M(int): accepted, inside bridge_scope and inside C03's in_scope,
   yet site_ok of the method site fails (the receiver B resolves M to func(int)) *)
Theorem C15_method_sites_not_from_typing :
  exists e, bridge_scope BWit.c1 e = true /\ in_scope BWit.c1 false e = true /\ snd (check BWit.c1 e) = None /\
  ~ ok_full BWit.fe BWit.env (checked BWit.c1 e).
Proof. exact method_sites_not_from_typing. Qed.
Print Assumptions C15_method_sites_not_from_typing.

(* fast_sound is not implied by fenv_ok (which constrains listed functions only); it is when every
   function with a signature is listed and variadic types are Go's *)
Theorem C15_fast_sound_not_from_fenv_ok :
  exists te ftab nn fe, fenv_ok te ftab nn fe /\ ~ fast_sound fe.
Proof. exact fast_sound_not_from_fenv_ok. Qed.

Theorem C15_fast_sound_of_listed :
  forall te ftab nn fe, fenv_ok te ftab nn fe -> sigs_listed ftab fe -> fast_plain ftab -> fast_sound fe.
Proof. exact fast_sound_of_listed. Qed.
Print Assumptions C15_fast_sound_of_listed.

(* ---- non-vacuity on the universe BWit of Ty/ModeBridge.v
   (Env{I int = 3; Y; Half func(float64) float64; Inc func(int) int; Fast func(...interface{}) interface{};
        Warm func(Celsius) bool; A; B} with method Scale(float64) float64):
     ex_brief  Half(1 + 2) > 1.0 and I == 3      accepted by both; typed run true; the untyped run passes int(3)
                                                 to func(float64): reflect.Call panics (one side not Done)
     ex_or     I == 3 or Half(1 + 2) > 1.0       both runs true, the retyped site present
     ex_calls  Inc(1 + 2) > 1 and Fast(I, "a") == 2   both runs true with the same call log; the trees differ
   all hypotheses of C15_typed_vs_untyped_dec hold (hyps_hold, by vm_compute) and the theorem applies *)
Example C15_typed_vs_untyped_nonvacuous :
  BWit.hyps_hold BWit.ex_brief /\ BWit.hyps_hold BWit.ex_or /\ BWit.hyps_hold BWit.ex_calls /\ BWit.hyps_hold BWit.ex_scale /\
  fast_sound BWit.fe /\ cc_types BWit.c0 = None /\
  env_ok BWit.c1 perm_id BWit.ftab false (TStruct "Env") "Env" BWit.env /\ fenv_ok BWit.te BWit.ftab false BWit.fe /\
  sites_full (checked BWit.c1 BWit.ex_brief) = [BWit.half_site] /\ site_ok BWit.fe BWit.env BWit.half_site /\
  sites_full (checked BWit.c1 BWit.ex_scale) = [BWit.scale_site] /\ site_ok BWit.fe BWit.env BWit.scale_site /\
  (BWit.run1 BWit.ex_brief = BWit.res_true [("Half"%string, [BWit.f64 3])] /\
   BWit.run0 BWit.ex_brief = Stop EReflect noloc rs0) /\
  (BWit.run1 BWit.ex_or = BWit.res_true [] /\ BWit.run0 BWit.ex_or = BWit.res_true []) /\
  (BWit.run1 BWit.ex_calls = BWit.res_true [("Inc"%string, [vint 3]); ("Fast"%string, [vint 3; VStr "a"])] /\
   BWit.run0 BWit.ex_calls = BWit.res_true [("Inc"%string, [vint 3]); ("Fast"%string, [vint 3; VStr "a"])] /\
   checked BWit.c1 BWit.ex_calls <> checked BWit.c0 BWit.ex_calls).
Proof.
  split; [exact BWit.ex_brief_hyps|]. split; [exact BWit.ex_or_hyps|]. split; [exact BWit.ex_calls_hyps|].
  split; [exact BWit.ex_scale_hyps|]. split; [exact BWit.fe_fast_sound|]. split; [reflexivity|].
  split; [exact (BWit.env_is_ok false)|]. split; [exact (BWit.fe_ok false)|].
  split; [exact (proj1 BWit.ex_brief_sites)|]. split; [exact BWit.half_site_ok|].
  split; [exact BWit.ex_scale_sites|]. split; [exact BWit.scale_site_ok|].
  split; [exact BWit.ex_brief_runs|]. split; [exact BWit.ex_or_runs|exact BWit.ex_calls_runs].
Qed.

(* the corollary instantiated: every expression meeting the decidable hypotheses agrees on this universe *)
Example C15_typed_vs_untyped_applies :
  forall e, BWit.hyps_hold e ->
  forall cfg ctx s v1 s1 v0 s0,
  eval BWit.fe cfg BWit.env ctx (checked BWit.c1 e) s = Done v1 s1 ->
  eval BWit.fe cfg BWit.env ctx (checked BWit.c0 e) s = Done v0 s0 -> v1 = v0 /\ s1 = s0.
Proof. exact BWit.hyps_agree. Qed.

(* the source-level form: A.M(Y) > 0.0 and Inc(1 + 2) > 1 (a method call whose argument is not retyped and a
   function call) and the expressions above meet bridge_scope_src; both runs succeed with the same call log *)
Example C15_typed_vs_untyped_src_nonvacuous :
  (BSrc.src_hyps BSrc.ex_src /\ BSrc.src_hyps BWit.ex_brief /\ BSrc.src_hyps BWit.ex_or /\ BSrc.src_hyps BWit.ex_calls /\
   BSrc.src_hyps BWit.ex_scale) /\
  bridge_scope_src BWit.c1 BWit.ex_meth = false /\
  (exists tr, BWit.run1 BSrc.ex_src = BWit.res_true tr /\ BWit.run0 BSrc.ex_src = BWit.res_true tr /\
              map fst tr = ["A.M"%string; "Inc"%string]) /\
  checked BWit.c1 BSrc.ex_src <> checked BWit.c0 BSrc.ex_src /\
  (forall e, BSrc.src_hyps e ->
   forall cfg ctx s v1 s1 v0 s0,
   eval BWit.fe cfg BWit.env ctx (checked BWit.c1 e) s = Done v1 s1 ->
   eval BWit.fe cfg BWit.env ctx (checked BWit.c0 e) s = Done v0 s0 -> v1 = v0 /\ s1 = s0).
Proof.
  split; [exact BSrc.ex_src_hyps|]. split; [exact BSrc.ex_meth_outside|].
  destruct BSrc.ex_src_runs as (R1 & R0 & D).
  split; [eexists; split; [exact R1|split; [exact R0|reflexivity]]|]. split; [exact D|exact BSrc.src_agree].
Qed.

(* Props/C15.v — Type information only rejects; it never changes meaning.
   First the instruction-level lemmas (BC/ModeProofs.v), then the whole-expression theorems on the
   reference semantics (Sem/ModeAgree.v); compiled code is tied to Sem.eval by compile_correct (C01). *)
From Coq Require Import ZArith Bool List String.
Require Import X.Base.Num X.Base.Value X.Syn.Ast X.Sem.Prim X.Sem.Sem X.BC.ModeProofs X.Sem.ModeAgree.
Import ListNotations.
Local Open Scope Z_scope.

(* == compiled to OpEqualInt / OpEqualString (operands statically int / string): whenever the
   specialised comparison succeeds, the generic comparison returns the same value *)
Theorem C15_eq_specialised_agrees :
  forall l va vb r v r',
  (lift l r (as_int va) (fun a => lift l r (as_int vb) (fun b => Done (VBool (a =? b)) r)) = Done v r' \/
   lift l r (as_str va) (fun a => lift l r (as_str vb) (fun b => Done (VBool (String.eqb a b)) r)) = Done v r') ->
  lift l r (p_equal va vb) (fun w => Done w r) = Done v r'.
Proof. exact eq_specialised_agrees. Qed.
Print Assumptions C15_eq_specialised_agrees.

(* identifiers compiled to OpFetchMap (Env(map[string]interface{})) read what OpFetch reads *)
Theorem C15_fetch_map_generic :
  forall limit m name ns,
  fetch_ident (mkCfg true limit) (VMap TString TIface m) name ns =
  fetch_ident (mkCfg false limit) (VMap TString TIface m) name ns.
Proof. exact fetch_map_generic. Qed.
Print Assumptions C15_fetch_map_generic.

(* calls compiled to OpCallFast behave like OpCall *)
Theorem C15_call_fast_generic :
  forall fe l id recv args s sg,
  fn_sig fe id = Some sg -> s_ins sg = [TSlice TIface] -> s_variadic sg = true -> s_nout sg = 1 -> s_fast sg = true ->
  do_call fe l true id recv args s = do_call fe l false id recv args s.
Proof. exact call_fast_generic. Qed.
Print Assumptions C15_call_fast_generic.

(* typed integer literals are conversions of the untyped literal *)
Theorem C15_typed_literal :
  forall a z k, akind a = RKNum k -> exists n, convert k (NInt KInt z) = Some n /\ int_const a z = VNum n.
Proof. exact int_const_is_conversion. Qed.
Print Assumptions C15_typed_literal.

(* struct, pointer to struct, map with the same members *)
Theorem C15_env_shape_struct_ptr :
  forall n fields i ns, p_fetch (VStruct n false fields) i ns = p_fetch (VStruct n true fields) i ns.
Proof. exact fetch_struct_ptr. Qed.

Theorem C15_env_shape_struct_map :
  forall n p fields name ns v,
  p_fetch (VStruct n p fields) (VStr name) ns = Ok v -> assoc_str name fields <> None ->
  p_fetch (VMap TString TIface (as_map fields)) (VStr name) ns = Ok v.
Proof. exact fetch_struct_map. Qed.
Print Assumptions C15_env_shape_struct_map.

(* ================================================================== whole expressions *)
(* The compilation variants of one source differ, in the model, only in (a) the kind annotations
   (read by int_const for literals and by both_kind at ==), (b) the fast flag of function calls,
   (c) c_mapenv and the shape of the environment value.  same_shape = equal up to (a) and (b).
   ok fe env e = the decidable carve-out `wf e` (every literal is plain, except inside a call argument
   that is a literal-only arithmetic tree retyped as a whole to one kind) + for each such argument the
   typing fact about the callee (site_ok: the parameter at that position has that kind).
   "Equal results" = equal value AND equal run state (call trace with arguments, allocation count). *)

(* two variants of one source on the same environment: whenever both succeed, same value, same state *)
Theorem C15_modes_agree :
  forall fe cfg env ctx s e1 e2 v1 s1 v2 s2,
  fast_sound fe -> same_shape e1 e2 -> ok fe env e1 -> ok fe env e2 ->
  eval fe cfg env ctx e1 s = Done v1 s1 -> eval fe cfg env ctx e2 s = Done v2 s2 -> v1 = v2 /\ s1 = s2.
Proof. exact modes_agree. Qed.
Print Assumptions C15_modes_agree.

(* the general form: the two sides may also differ in configuration and environment value, as long as
   identifiers and callables resolve alike on both *)
Theorem C15_modes_agree_gen :
  forall fe cfg1 cfg2 env1 env2,
  c_limit cfg1 = c_limit cfg2 ->
  (forall name ns v1 v2, fetch_ident cfg1 env1 name ns = Ok v1 -> fetch_ident cfg2 env2 name ns = Ok v2 -> v1 = v2) ->
  (forall name id1 id2, fetch_fn fe env1 name = Ok id1 -> fetch_fn fe env2 name = Ok id2 -> id1 = id2) ->
  (forall name id args, fetch_fn fe env1 name = Ok id -> fetch_fn fe env2 name = Ok id ->
     fn_run fe id env1 args = fn_run fe id env2 args) ->
  fast_sound fe ->
  forall e1 e2 ctx s v1 s1 v2 s2,
  same_shape e1 e2 -> ok fe env1 e1 -> ok fe env2 e2 ->
  eval fe cfg1 env1 ctx e1 s = Done v1 s1 -> eval fe cfg2 env2 ctx e2 s = Done v2 s2 -> v1 = v2 /\ s1 = s2.
Proof. exact modes_agree_gen. Qed.
Print Assumptions C15_modes_agree_gen.

(* Env(map[string]interface{}): OpFetchMap against OpFetch, on top of differing annotations *)
Theorem C15_modes_agree_mapenv :
  forall fe limit m ctx s e1 e2 v1 s1 v2 s2,
  let env := VMap TString TIface m in
  fast_sound fe -> same_shape e1 e2 -> ok fe env e1 -> ok fe env e2 ->
  eval fe (mkCfg true limit) env ctx e1 s = Done v1 s1 ->
  eval fe (mkCfg false limit) env ctx e2 s = Done v2 s2 -> v1 = v2 /\ s1 = s2.
Proof. exact modes_agree_mapenv. Qed.
Print Assumptions C15_modes_agree_mapenv.

(* the environment as a struct value against a pointer to it *)
Theorem C15_modes_agree_struct_ptr :
  forall fe cfg1 cfg2 n fields ctx s e1 e2 v1 s1 v2 s2,
  let env1 := VStruct n false fields in
  let env2 := VStruct n true fields in
  c_limit cfg1 = c_limit cfg2 -> c_mapenv cfg1 = c_mapenv cfg2 ->
  (forall name id, fn_method fe n false name = Some id -> fn_method fe n true name = Some id) ->
  (forall name id, fn_method fe n true name = Some id -> assoc_str name fields = None) ->
  (forall id args, fn_run fe id env1 args = fn_run fe id env2 args) ->
  fast_sound fe -> same_shape e1 e2 -> ok fe env1 e1 -> ok fe env2 e2 ->
  eval fe cfg1 env1 ctx e1 s = Done v1 s1 -> eval fe cfg2 env2 ctx e2 s = Done v2 s2 -> v1 = v2 /\ s1 = s2.
Proof. exact modes_agree_struct_ptr. Qed.
Print Assumptions C15_modes_agree_struct_ptr.

(* the environment as a struct against a map[string]interface{} with the same members *)
Theorem C15_modes_agree_struct_map :
  forall fe cfg1 cfg2 n p fields ctx s e1 e2 v1 s1 v2 s2,
  let env1 := VStruct n p fields in
  let env2 := VMap TString TIface (as_map fields) in
  c_limit cfg1 = c_limit cfg2 ->
  (forall name id, fn_method fe n p name = Some id -> assoc_str name fields = None) ->
  (forall name id tf args, assoc_str name fields = Some (VFunc id tf) -> fn_run fe id env1 args = fn_run fe id env2 args) ->
  fast_sound fe -> same_shape e1 e2 -> ok fe env1 e1 -> ok fe env2 e2 ->
  eval fe cfg1 env1 ctx e1 s = Done v1 s1 -> eval fe cfg2 env2 ctx e2 s = Done v2 s2 -> v1 = v2 /\ s1 = s2.
Proof. exact modes_agree_struct_map. Qed.
Print Assumptions C15_modes_agree_struct_map.

(* a member of the environment reads the same from a struct, a pointer to it and the map *)
Theorem C15_ident_env_shapes :
  forall cfg n p fields name ns v,
  c_mapenv cfg = false ->
  fetch_ident cfg (VStruct n p fields) name ns = Ok v ->
  fetch_ident cfg (VStruct n (negb p) fields) name ns = Ok v /\
  (forall b limit, fetch_ident (mkCfg b limit) (VMap TString TIface (as_map fields)) name ns = Ok v).
Proof. exact ident_env_shapes. Qed.
Print Assumptions C15_ident_env_shapes.

(* ---- the statement for the trees the checker REALLY produces is false (finding C15-arg-retype-mixed):
   checkFunc / setTypeForIntegers retypes the integer literals below + - * / of a call argument even
   when other leaves are not literals (ok_full allows such mixed arguments): `Half(I / 2 + Y)` with
   Env{I int = 1; Y float64 = 0; Half func(float64) float64} is 0.25 with the declared type
   (1 / 2.0 + 0.0) and 0 without it (1 / 2 = 0 in int); both calls succeed.  Replayed on the library. *)
Definition C15_modes_agree_full_statement : Prop :=
  forall fe cfg env ctx s e1 e2 v1 s1 v2 s2,
  fast_sound fe -> same_shape e1 e2 -> ok_full fe env e1 -> ok_full fe env e2 ->
  eval fe cfg env ctx e1 s = Done v1 s1 -> eval fe cfg env ctx e2 s = Done v2 s2 -> v1 = v2 /\ s1 = s2.

Theorem C15_modes_agree_full_statement_refuted : ~ C15_modes_agree_full_statement.
Proof. exact modes_agree_refuted. Qed.
Print Assumptions C15_modes_agree_full_statement_refuted.

(* the full statement under the DECIDABLE carve-out wf (retyped arguments are literal-only trees);
   ok fe env e <-> ok_full fe env e /\ wf e = true *)
Theorem C15_modes_agree_partial :
  forall fe cfg env ctx s e1 e2 v1 s1 v2 s2,
  fast_sound fe -> same_shape e1 e2 -> ok_full fe env e1 -> ok_full fe env e2 ->
  wf e1 = true -> wf e2 = true ->
  eval fe cfg env ctx e1 s = Done v1 s1 -> eval fe cfg env ctx e2 s = Done v2 s2 -> v1 = v2 /\ s1 = s2.
Proof. exact modes_agree_partial. Qed.
Print Assumptions C15_modes_agree_partial.

Theorem C15_ok_is_ok_full_and_wf :
  forall fe env e, ok fe env e <-> (ok_full fe env e /\ wf e = true).
Proof. exact ok_iff_ok_full_wf. Qed.

(* ---- non-vacuity: all([1, 2], # == 1 || Half(1 + 2) > 1.0) && Fast(I, "a") == 2 in two variants
   (int-annotated literals, OpEqualInt, OpCallFast / unannotated, generic; the argument of Half retyped
   to float64 in both) on the harness universe: all hypotheses hold, both runs succeed, equal results *)
Example C15_modes_agree_nonvacuous :
  fast_sound fe_demo /\ same_shape (ex_tree true) (ex_tree false) /\ ex_tree true <> ex_tree false /\
  ok fe_demo env_demo (ex_tree true) /\ ok fe_demo env_demo (ex_tree false) /\
  sites (ex_tree true) = [mkSite false "Half" 0 KF64] /\
  eval fe_demo cfg_demo env_demo [] (ex_tree true) rs0 = ex_result /\
  eval fe_demo cfg_demo env_demo [] (ex_tree false) rs0 = ex_result /\
  (exists st, ex_result = Done (VBool true) st /\ r_mem st = 2 /\ map fst (r_trace st) = ["Half"%string; "Fast"%string]).
Proof.
  split; [exact (u_fenv_fast_sound [] [])|]. split; [exact ex_tree_same|]. split; [exact ex_tree_differ|].
  split; [exact (ex_tree_ok true)|]. split; [exact (ex_tree_ok false)|]. split; [reflexivity|].
  split; [exact (ex_tree_runs true)|]. split; [exact (ex_tree_runs false)|].
  eexists. split; [reflexivity|]. split; reflexivity.
Qed.

(* the hypotheses of the environment-shape theorems hold for the same expression on Env, *Env and the map *)
Example C15_env_shapes_nonvacuous :
  (forall name id, fn_method fe_demo "Env" false name = Some id -> fn_method fe_demo "Env" true name = Some id) /\
  (forall p name id, fn_method fe_demo "Env" p name = Some id -> assoc_str name fields_demo = None) /\
  (forall id args, fn_run fe_demo id env_demo args = fn_run fe_demo id env_demo_ptr args) /\
  (forall name id tf args, assoc_str name fields_demo = Some (VFunc id tf) ->
     fn_run fe_demo id env_demo args = fn_run fe_demo id env_demo_map args) /\
  ok fe_demo env_demo_ptr (ex_tree true) /\ ok fe_demo env_demo_map (ex_tree false) /\
  eval fe_demo cfg_demo env_demo_ptr [] (ex_tree true) rs0 = ex_result /\
  eval fe_demo (mkCfg true 1000) env_demo_map [] (ex_tree false) rs0 = ex_result /\
  eval fe_demo (mkCfg false 1000) env_demo_map [] (ex_tree true) rs0 = ex_result.
Proof.
  split; [exact demo_methods_sub|]. split; [exact demo_methods_disjoint|].
  split; [intros id args; reflexivity|]. split; [exact demo_run_fields|].
  split; [exact (ex_tree_ok_env _ true (or_introl eq_refl))|].
  split; [exact (ex_tree_ok_env _ false (or_intror eq_refl))|].
  split; [exact (ex_tree_runs_ptr true)|]. split; [exact (ex_tree_runs_map false true)|exact (ex_tree_runs_map true false)].
Qed.

(* What is NOT proved here: that the checker model (Ty/Checker.v) establishes ok_full / site_ok for the
   trees it returns (static typing of callees is C03's domain), and the transfer to compiled code (C01's
   compile_correct, per tree).  The implementation is additionally compared pairwise by harness c15. *)

(* Props/C14.v — Mixed-kind arithmetic follows one promotion rule.
   Only statements, each closed by `exact`, with Print Assumptions. *)
From Coq Require Import ZArith Bool List String.
Require Import X.Base.Num X.Base.NumProofs X.gen.GenHelpers X.gen.GenWeights X.Bridge.BrC14.
Import ListNotations.
Open Scope Z_scope.

(* The full statement of the property about the table the code contains now. *)
Definition C14_full_statement : Prop :=
  forall h kx ky, triple_ok helper_case (h, kx, ky) = true.

(* It is FALSE of the pinned tree: known finding C14-rank. Witness replayed on the implementation:
   uint(300) == uint8(44) is true; int(300) + int8(1) is int8(45). *)
Theorem C14_full_statement_refuted : ~ C14_full_statement.
Proof. intros H. pose proof (carve_out_tight HAdd KInt KInt8 eq_refl). rewrite H in H0. discriminate. Qed.
Print Assumptions C14_full_statement_refuted.

(* Proved: outside the carve-out every generated case converts exactly the lower-ranked operand
   to the higher-ranked operand's kind and applies the helper's own operator; `%` has integer
   cases only.  The carve-out is tight (every excluded triple really violates the rule). *)
Theorem C14_table : forall h kx ky, K_rank kx ky = false -> triple_ok helper_case (h, kx, ky) = true.
Proof. exact table_obeys_rule. Qed.
Print Assumptions C14_table.

Theorem C14_carve_out_tight : forall h kx ky, K_rank kx ky = true -> triple_ok helper_case (h, kx, ky) = false.
Proof. exact carve_out_tight. Qed.
Print Assumptions C14_carve_out_tight.

(* Value level, for all operand values (no bound): the helper result is Go's operator applied
   after converting only the lower-ranked operand. *)
Theorem C14_rule : forall h x y,
  K_rank (num_kind x) (num_kind y) = false ->
  has_case h (num_kind x) (num_kind y) = true ->
  exists K, (K = num_kind x \/ K = num_kind y) /\
            ref_rank K = Z.max (ref_rank (num_kind x)) (ref_rank (num_kind y)) /\
            helper_num helper_case h x y = Some (apply_rule (helper_op h) K x y).
Proof. exact helper_follows_rule. Qed.
Print Assumptions C14_rule.

Theorem C14_int_division_truncates : forall k x y, y <> 0 ->
  go_op ODiv (NInt k x) (NInt k y) = NRNum (NInt k (wrap k (Z.quot x y))) /\
  Z.abs (Z.quot x y * y) <= Z.abs x.
Proof. intros k x y H. split; [exact (int_div_truncates k x y H)|exact (quot_toward_zero x y H)]. Qed.
Print Assumptions C14_int_division_truncates.

Theorem C14_int_division_by_zero_is_error : forall k x,
  go_op ODiv (NInt k x) (NInt k 0) = NRDivZero /\ go_op ORem (NInt k x) (NInt k 0) = NRDivZero.
Proof. intros k x. split; [exact (int_div_zero k x)|exact (int_rem_zero k x)]. Qed.
Print Assumptions C14_int_division_by_zero_is_error.

Theorem C14_widening_is_exact : forall k1 k2 z,
  is_intkind k1 = true -> is_intkind k2 = true -> is_signed k1 = is_signed k2 ->
  width k1 <= width k2 -> in_range k1 z = true -> wrap k2 z = z.
Proof. exact widen_exact. Qed.
Print Assumptions C14_widening_is_exact.

(* The result kind is the one the type checker predicts (checker/types.go `combined`). *)
Theorem C14_kind_predicted : forall h kx ky e,
  helper_case h kx ky = Some e -> combined kx ky = Some (entry_kind kx e).
Proof. exact kind_predicted. Qed.
Print Assumptions C14_kind_predicted.

Theorem C14_unary_and_exponent :
  negate_kinds = all_kinds /\ toInt_kinds = all_kinds /\ toInt64_kinds = all_kinds /\
  toFloat64_kinds = all_kinds /\ exponent_is_pow_of_float64 = true.
Proof. exact unary_and_casts_total. Qed.
Print Assumptions C14_unary_and_exponent.

(* non-vacuity: a non-trivial instance meets the hypotheses of C14_rule *)
Example C14_rule_nonvacuous :
  K_rank KUint8 KInt16 = false /\ has_case HSubtract KUint8 KInt16 = true /\
  helper_num helper_case HSubtract (NInt KUint8 200) (NInt KInt16 (-32768)) = Some (NRNum (NInt KInt16 (-32568))).
Proof. vm_compute. repeat split. Qed.

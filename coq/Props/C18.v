(* Props/C18.v — Collection builtins satisfy their defining identities.
   Statements about the reference semantics Sem.eval (tied to the code by C01's compiler-correctness
   proof and by the executed correspondence of harness/c18.go), each closed by `exact`. *)
From Coq Require Import ZArith Bool List String.
Require Import X.Base.Num X.Base.Value X.Syn.Ast X.Sem.Prim X.Sem.Sem X.Sem.SemProofs.
Import ListNotations.
Open Scope list_scope.
Open Scope Z_scope.

(* Reading of the result relation (Sem/SemProofs.v):
     res_agree la lb r1 r2 :  Done/Done  same value, same allocation counter, same call trace;
                              Stop/Stop  same failure class, same state, failing node the same
                                         or one of the identity's own operator nodes (la / lb). *)

(* 1. all(xs, {p}) = not any(xs, {not p}) — every xs, every p (effects, failures), every ctx, state *)
Theorem C18_all_not_any_not : forall fe cfg env ctx a1 a2 a3 a4 a5 a6 n1 n2 x p s,
  is_not n1 = true -> is_not n2 = true ->
  res_agree [aloc a1] [aloc a4; aloc a6]
    (eval fe cfg env ctx (EBuiltin a1 BiAll [x; EClosure a2 p]) s)
    (eval fe cfg env ctx (EUnary a3 n1 (EBuiltin a4 BiAny [x; EClosure a5 (EUnary a6 n2 p)])) s).
Proof. exact SemProofs.C18_all_not_any_not. Qed.
Print Assumptions C18_all_not_any_not.

(* 2. none(xs, c) = not any(xs, c) *)
Theorem C18_none_not_any : forall fe cfg env ctx a1 a3 a4 n1 x c s,
  is_not n1 = true ->
  res_agree [aloc a1] [aloc a4]
    (eval fe cfg env ctx (EBuiltin a1 BiNone [x; c]) s)
    (eval fe cfg env ctx (EUnary a3 n1 (EBuiltin a4 BiAny [x; c])) s).
Proof. exact SemProofs.C18_none_not_any. Qed.
Print Assumptions C18_none_not_any.

(* 3. one(xs, c) = (count(xs, c) == 1); the literal 1 denotes the int 1 and `==` is not the
      string-specialised comparison (annotations the checker never writes on this source) *)
Theorem C18_one_count_eq_1 : forall fe cfg env ctx a1 a2 a3 a4 x c s,
  int_const a4 1 = vint 1 ->
  both_kind RKString (EBuiltin a3 BiCount [x; c]) (EInt a4 1) = false ->
  res_agree [aloc a1] [aloc a3]
    (eval fe cfg env ctx (EBuiltin a1 BiOne [x; c]) s)
    (eval fe cfg env ctx (EBinary a2 BEq (EBuiltin a3 BiCount [x; c]) (EInt a4 1)) s).
Proof. exact SemProofs.C18_one_count_eq_1. Qed.
Print Assumptions C18_one_count_eq_1.

(* 4. count(xs, c) = len(filter(xs, c)) for arrays: same value, same call trace; the allocation
      counter is higher by the count (filter accounts its result), or the budget refuses the
      right side; failures of xs / c coincide *)
Theorem C18_count_len_filter : forall fe cfg env ctx a1 a2 a3 x c s,
  (forall v s1, eval fe cfg env ctx x s = Done v s1 -> arr_ok v) ->
  count_vs_len_filter cfg [aloc a1] [aloc a3] (aloc a3)
    (eval fe cfg env ctx (EBuiltin a1 BiCount [x; c]) s)
    (eval fe cfg env ctx (EBuiltin a2 BiLen [EBuiltin a3 BiFilter [x; c]]) s).
Proof. exact SemProofs.C18_count_len_filter. Qed.
Print Assumptions C18_count_len_filter.

(* 5. len(map(xs, f)) = len(xs) when map succeeds (no side condition) *)
Theorem C18_len_map : forall fe cfg env ctx a1 a2 a3 x c s v s2,
  eval fe cfg env ctx (EBuiltin a1 BiLen [EBuiltin a2 BiMap [x; c]]) s = Done v s2 ->
  exists s1, eval fe cfg env ctx (EBuiltin a3 BiLen [x]) s = Done v s1.
Proof. exact SemProofs.C18_len_map. Qed.
Print Assumptions C18_len_map.

(*    exact form: xs is evaluated, f is run on every element for its effects only, n elements are
      accounted, the value is len(xs) *)
Theorem C18_len_map_eq : forall fe cfg env ctx a1 a2 x c s,
  eval fe cfg env ctx (EBuiltin a1 BiLen [EBuiltin a2 BiMap [x; c]]) s =
  rbind (eval fe cfg env ctx x s) (fun v s1 => lift (aloc a2) s1 (p_length v) (fun n =>
    effects_loop (fun i s' => eval fe cfg env ((v, i) :: ctx) c s') (Z.to_nat n) 0 s1
      (fun s2 => alloc cfg (aloc a2) n s2 (fun s3 => Done (vint n) s3)))).
Proof. exact SemProofs.C18_len_map_eq. Qed.
Print Assumptions C18_len_map_eq.

Theorem C18_len_map_pure : forall fe cfg env ctx a1 a2 a3 x c s xv s1 n,
  eval fe cfg env ctx x s = Done xv s1 -> p_length xv = Ok n ->
  (forall i s', 0 <= i < n -> exists y, eval fe cfg env ((xv, i) :: ctx) c s' = Done y s') ->
  (c_limit cfg <=? r_mem s1 + n) = false ->
  eval fe cfg env ctx (EBuiltin a1 BiLen [EBuiltin a2 BiMap [x; c]]) s = Done (vint n) (add_mem n s1) /\
  eval fe cfg env ctx (EBuiltin a3 BiLen [x]) s = Done (vint n) s1.
Proof. exact SemProofs.C18_len_map_pure. Qed.
Print Assumptions C18_len_map_pure.

(* 6. filter keeps exactly the satisfying elements, in order *)
Theorem C18_filter_spec : forall fe cfg env ctx a x c s t l s1 (pe : value -> bool),
  eval fe cfg env ctx x s = Done (VArr t l) s1 ->
  Z.of_nat (List.length l) <= max_of KInt ->
  (forall i y s', nth_error l i = Some y ->
       eval fe cfg env ((VArr t l, Z.of_nat i) :: ctx) c s' = Done (VBool (pe y)) s') ->
  eval fe cfg env ctx (EBuiltin a BiFilter [x; c]) s =
  alloc cfg (aloc a) (Z.of_nat (List.length (List.filter pe l))) s1
        (fun s3 => Done (VArr TIface (List.filter pe l)) s3).
Proof. exact SemProofs.C18_filter_spec. Qed.
Print Assumptions C18_filter_spec.

(* 7. a closure nested to any depth sees the element of its own innermost collection:
      (a) `#` reads the head frame only; (b) every looping builtin evaluates its closure only under
      ctx extended by (its own collection, index); (c) the evaluation of ANY expression - closures
      nested to any depth inside - is independent of every frame below the head *)
Theorem C18_pointer_innermost : forall fe cfg env v i outer1 outer2 a s,
  eval fe cfg env ((v, i) :: outer1) (EPointer a) s = eval fe cfg env ((v, i) :: outer2) (EPointer a) s /\
  eval fe cfg env ((v, i) :: outer1) (EPointer a) s = lift (aloc a) s (p_fetch v (vint i) false) (fun x => Done x s).
Proof. exact SemProofs.C18_pointer_innermost. Qed.
Print Assumptions C18_pointer_innermost.

Theorem C18_closure_frame : forall fe cfg env a b, is_loop_builtin b = true ->
  exists F : value -> rstate -> (Z -> rstate -> result) -> result,
  forall ctx x c s,
    eval fe cfg env ctx (EBuiltin a b [x; c]) s =
    rbind (eval fe cfg env ctx x s) (fun v s1 => F v s1 (fun i s' => eval fe cfg env ((v, i) :: ctx) c s')).
Proof. exact SemProofs.C18_closure_frame. Qed.
Print Assumptions C18_closure_frame.

Theorem C18_innermost : forall fe cfg env e v i outer1 outer2 s,
  eval fe cfg env ((v, i) :: outer1) e s = eval fe cfg env ((v, i) :: outer2) e s.
Proof. exact SemProofs.C18_innermost. Qed.
Print Assumptions C18_innermost.

(* 8. x in a..b = (x >= a and x <= b) for integer-kinded x, when the bounds are representable in
      the kind in which the helpers compare (cmp_kind k = int for int / unsigned kinds) *)
Theorem C18_in_range : forall k x a b,
  is_intkind k = true ->
  in_range (cmp_kind k) a = true -> in_range (cmp_kind k) b = true ->
  exists r1 r2,
    p_helper HMoreOrEqual (VNum (NInt k x)) (vint a) = Ok (VBool r1) /\
    p_helper HLessOrEqual (VNum (NInt k x)) (vint b) = Ok (VBool r2) /\
    p_in (VNum (NInt k x)) (make_range a b) = Ok (r1 && r2).
Proof. exact SemProofs.C18_in_range. Qed.
Print Assumptions C18_in_range.

(*    The statement for ALL Go-int bounds is false of the faithful model for int8/int16/int32
      operands (consequence of known finding C14-rank): witness int8(-100) in 100..200. *)
Theorem C18_in_range_full_statement_refuted : ~ C18_in_range_full_statement.
Proof. exact SemProofs.C18_in_range_full_statement_refuted. Qed.
Print Assumptions C18_in_range_full_statement_refuted.

Theorem C18_in_range_eval : forall fe cfg env ctx a1 a2 a3 a4 a5 X A B k x a b s,
  (forall s', eval fe cfg env ctx X s' = Done (VNum (NInt k x)) s') ->
  (forall s', eval fe cfg env ctx A s' = Done (vint a) s') ->
  (forall s', eval fe cfg env ctx B s' = Done (vint b) s') ->
  is_intkind k = true ->
  in_range KInt a = true -> in_range KInt b = true ->
  in_range (cmp_kind k) a = true -> in_range (cmp_kind k) b = true ->
  range_count a b <= max_of KInt ->
  (c_limit cfg <=? r_mem s + range_count a b) = false ->
  exists r : bool,
    eval fe cfg env ctx (EBinary a1 BIn X (EBinary a2 BRange A B)) s = Done (VBool r) (add_mem (range_count a b) s) /\
    eval fe cfg env ctx (EBinary a3 BAndWord (EBinary a4 BGe X A) (EBinary a5 BLe X B)) s = Done (VBool r) s.
Proof. exact SemProofs.C18_in_range_eval. Qed.
Print Assumptions C18_in_range_eval.

(* 9. slicing at i partitions a sequence (0 <= i, also i > len); a negative i fails on both sides *)
Theorem C18_slice_partition : forall e l i,
  0 <= i <= max_of KInt -> Z.of_nat (List.length l) <= max_of KInt ->
  p_slice (VArr e l) (vint 0) (vint i) = Ok (VArr e (firstn (Z.to_nat i) l)) /\
  p_slice (VArr e l) (vint i) (vint (Z.of_nat (List.length l))) = Ok (VArr e (skipn (Z.to_nat i) l)) /\
  firstn (Z.to_nat i) l ++ skipn (Z.to_nat i) l = l.
Proof. exact SemProofs.C18_slice_partition. Qed.
Print Assumptions C18_slice_partition.

Theorem C18_slice_negative : forall e l i,
  min_of KInt <= i < 0 -> Z.of_nat (List.length l) <= max_of KInt ->
  p_slice (VArr e l) (vint 0) (vint i) = Fail EIndexRange /\
  p_slice (VArr e l) (vint i) (vint (Z.of_nat (List.length l))) = Fail EIndexRange.
Proof. exact SemProofs.C18_slice_negative. Qed.
Print Assumptions C18_slice_negative.

Theorem C18_slice_partition_eval : forall fe cfg env ctx a1 a2 x I e l i s,
  (forall s', eval fe cfg env ctx x s' = Done (VArr e l) s') ->
  (forall s', eval fe cfg env ctx I s' = Done (vint i) s') ->
  0 <= i <= max_of KInt -> Z.of_nat (List.length l) <= max_of KInt ->
  exists l1 l2,
    eval fe cfg env ctx (ESlice a1 x None (Some I)) s = Done (VArr e l1) s /\
    eval fe cfg env ctx (ESlice a2 x (Some I) None) s = Done (VArr e l2) s /\
    l1 ++ l2 = l /\ Z.of_nat (List.length l1) = Z.min i (Z.of_nat (List.length l)).
Proof. exact SemProofs.C18_slice_partition_eval. Qed.
Print Assumptions C18_slice_partition_eval.

(* non-vacuity: concrete environment with a logging function (Sem/SemProofs.v, module C18Examples) *)
Example C18_nonvacuous_all_any :
  C18Examples.run (EBuiltin (C18Examples.A 0 RKBool) BiAll [C18Examples.ai; EClosure (C18Examples.A 8 RKBool) C18Examples.is_pos_ptr]) =
    Done (VBool false) (mkRS 0 [("IsPos"%string, [vint 1]); ("IsPos"%string, [vint (-2)])]).
Proof. exact (proj1 C18Examples.ex_all_any). Qed.

Example C18_nonvacuous_count_filter_hyp :
  forall v s1, eval C18Examples.ex_fe C18Examples.ex_cfg C18Examples.ex_env [] C18Examples.ai rs0 = Done v s1 -> arr_ok v.
Proof. exact C18Examples.ex_count_filter_hyp. Qed.

Example C18_nonvacuous_nested :
  C18Examples.run (EBuiltin (C18Examples.A 0 RKSlice) BiMap [EIdent (C18Examples.A 4 RKSlice) "NN" false;
        EClosure (C18Examples.A 8 RKInvalid) (EBuiltin (C18Examples.A 9 (RKNum KInt)) BiCount [EPointer (C18Examples.A 15 RKInvalid);
          EClosure (C18Examples.A 18 RKBool) (EBinary (C18Examples.A 21 RKBool) BGt (EPointer (C18Examples.A 19 RKInvalid)) (EInt (C18Examples.A 23 (RKNum KInt)) 0))])]) =
    Done (VArr TIface [vint 1; vint 2; vint 0]) (mkRS 3 []).
Proof. exact C18Examples.ex_nested. Qed.

(* ------------------------------------------------------------------------------------------------------------------
   TRANSFER TO COMPILED CODE over the source-level pipeline (BC/SourceIdentities.v): the identities above composed with the
   capstone of C01 (BC/SourceCorrect.v C01_source_pipeline_correct in its decidable form).  BOTH sides of an identity are
   compiled by the REGENERATED compiler schemes and run by the REGENERATED dispatch loop from machines in ANY state:
     compiled_run fe cfg env c e d before =
       match gen_compile_program GenSchemes.schemes (esize e) (c_mapenv cfg) c e with
       | Some P => VMSteps.interp_run fe cfg env P GenVMSteps.vm_src d before | None => None end
   Side conditions, stated once: `pair_ok fe cfg env c d1 d2 e1 e2 : bool` (decidable, executable: each side compilable,
   VMSteps.run_guard along its run, the fuel d1 / d2 enough for the model run to finish) and `env_ok fe` (= fn_no_machine fe,
   the capstone's hypothesis on the environment functions, a Prop as in the capstone).
   Result relation `runs_rel R o1 o2`: both runs finish and R relates their results up to the allocation counter of a FAILED
   run (erase_stop_mem, as in the capstone); R is the relation of the identity (res_agree / count_vs_len_filter_run). *)
Require Import X.BC.SourceIdentities.

(* the generic transfer: ANY relation proved of the reference runs of two expressions holds of their compiled runs *)
Theorem C18_identity_transfer :
  forall (R : result -> result -> Prop) fe cfg env c d1 d2 e1 e2 before1 before2,
    env_ok fe -> pair_ok fe cfg env c d1 d2 e1 e2 = true ->
    R (X.BC.VMSteps.erase_stop_mem (run_ref fe cfg env c e1))
      (X.BC.VMSteps.erase_stop_mem (run_ref fe cfg env c e2)) ->
    runs_rel R (compiled_run fe cfg env c e1 d1 before1) (compiled_run fe cfg env c e2 d2 before2).
Proof. exact identity_transfer. Qed.
Print Assumptions C18_identity_transfer.

Theorem C18_compiled_all_not_any_not :
  forall fe cfg env c d1 d2 before1 before2 a1 a2 a3 a4 a5 a6 n1 n2 x p,
    env_ok fe ->
    pair_ok fe cfg env c d1 d2
      (EBuiltin a1 BiAll [x; EClosure a2 p])
      (EUnary a3 n1 (EBuiltin a4 BiAny [x; EClosure a5 (EUnary a6 n2 p)])) = true ->
    is_not n1 = true -> is_not n2 = true ->
    runs_rel (res_agree [aloc a1] [aloc a4; aloc a6])
      (compiled_run fe cfg env c (EBuiltin a1 BiAll [x; EClosure a2 p]) d1 before1)
      (compiled_run fe cfg env c (EUnary a3 n1 (EBuiltin a4 BiAny [x; EClosure a5 (EUnary a6 n2 p)])) d2 before2).
Proof. exact compiled_all_not_any_not. Qed.
Print Assumptions C18_compiled_all_not_any_not.

Theorem C18_compiled_none_not_any :
  forall fe cfg env c d1 d2 before1 before2 a1 a3 a4 n1 x cl,
    env_ok fe ->
    pair_ok fe cfg env c d1 d2 (EBuiltin a1 BiNone [x; cl]) (EUnary a3 n1 (EBuiltin a4 BiAny [x; cl])) = true ->
    is_not n1 = true ->
    runs_rel (res_agree [aloc a1] [aloc a4])
      (compiled_run fe cfg env c (EBuiltin a1 BiNone [x; cl]) d1 before1)
      (compiled_run fe cfg env c (EUnary a3 n1 (EBuiltin a4 BiAny [x; cl])) d2 before2).
Proof. exact compiled_none_not_any. Qed.
Print Assumptions C18_compiled_none_not_any.

Theorem C18_compiled_one_count_eq_1 :
  forall fe cfg env c d1 d2 before1 before2 a1 a2 a3 a4 x cl,
    env_ok fe ->
    pair_ok fe cfg env c d1 d2
      (EBuiltin a1 BiOne [x; cl]) (EBinary a2 BEq (EBuiltin a3 BiCount [x; cl]) (EInt a4 1)) = true ->
    int_const a4 1 = vint 1 ->
    both_kind RKString (EBuiltin a3 BiCount [x; cl]) (EInt a4 1) = false ->
    runs_rel (res_agree [aloc a1] [aloc a3])
      (compiled_run fe cfg env c (EBuiltin a1 BiOne [x; cl]) d1 before1)
      (compiled_run fe cfg env c (EBinary a2 BEq (EBuiltin a3 BiCount [x; cl]) (EInt a4 1)) d2 before2).
Proof. exact compiled_one_count_eq_1. Qed.
Print Assumptions C18_compiled_one_count_eq_1.

(* count / len(filter): same number; the right side accounts the filtered slice (or is refused for the budget) *)
Theorem C18_compiled_count_len_filter :
  forall fe cfg env d1 d2 before1 before2 a1 a2 a3 x cl,
    env_ok fe ->
    pair_ok fe cfg env CastNone d1 d2
      (EBuiltin a1 BiCount [x; cl]) (EBuiltin a2 BiLen [EBuiltin a3 BiFilter [x; cl]]) = true ->
    (forall v s1, eval fe cfg env [] x rs0 = Done v s1 -> arr_ok v) ->
    runs_rel (count_vs_len_filter_run cfg [aloc a1] [aloc a3] (aloc a3))
      (compiled_run fe cfg env CastNone (EBuiltin a1 BiCount [x; cl]) d1 before1)
      (compiled_run fe cfg env CastNone (EBuiltin a2 BiLen [EBuiltin a3 BiFilter [x; cl]]) d2 before2).
Proof. exact compiled_count_len_filter. Qed.
Print Assumptions C18_compiled_count_len_filter.

Theorem C18_compiled_len_map :
  forall fe cfg env d1 d2 before1 before2 a1 a2 a3 x cl v s2,
    env_ok fe ->
    pair_ok fe cfg env CastNone d1 d2
      (EBuiltin a1 BiLen [EBuiltin a2 BiMap [x; cl]]) (EBuiltin a3 BiLen [x]) = true ->
    compiled_run fe cfg env CastNone (EBuiltin a1 BiLen [EBuiltin a2 BiMap [x; cl]]) d1 before1 = Some (Done v s2) ->
    exists s1, compiled_run fe cfg env CastNone (EBuiltin a3 BiLen [x]) d2 before2 = Some (Done v s1).
Proof. exact compiled_len_map. Qed.
Print Assumptions C18_compiled_len_map.

(* non-vacuity on a NESTED instance: count(filter([1, 2, 3, 4], {# > 1}), {# > 2}) vs len(filter(filter(..), {# > 2})):
   pair_ok = true by vm_compute, both compiled runs return 2 (the left one from a dirty machine); under budget 8 the
   right side is refused, the left is not: Example compiled_count_len_filter_nonvacuous in BC/SourceIdentities.v (checked there) *)
Check compiled_count_len_filter_nonvacuous.

(* Props/C04.v — Failures are returned as errors, never as panics.      PARTIAL (see the end).
   Only statements, each closed by `exact`, with Print Assumptions; Examples for non-vacuity.

   The pipeline of expr.Compile / expr.Eval / expr.Run (Pipe/Pipeline.v) is an interpreter over the
   stage calls REGENERATED from expr.go, with the recover table REGENERATED from the stage
   functions (coq/gen/GenPipeline.v, tied by Bridge/BrC04.v).  Outcomes: POk (result), PErr (error
   returned), PPanic (a panic that met no recover, or a stage that does not return).  The behaviour
   of EVERY stage is universally quantified (`S : stages`): options, Config.Check, lexer, parser,
   checker, operator patcher, user patch visitors, optimizer passes, compile-time calls of ConstExpr
   functions, compiler, VM loop, environment functions. *)
From Coq Require Import ZArith Bool List String.
Require Import X.Base.Value X.Syn.Ast X.Syn.Tok.
Require X.Lex.Lexer X.Parse.Parser X.Sem.Prim X.Sem.Sem X.BC.Compiler X.BC.VM X.BC.RunProofs.
Require Import X.Pipe.Pipeline X.Pipe.PipeProofs X.gen.GenPipeline X.Bridge.BrC04.
Import ListNotations.

(* ---- 1. containment.  If every stage that runs outside every recover (options other than
   ConstExpr, Config.Check, lexer, parser on the lexer's output, checker, operator patcher, the four
   optimizer passes other than constExpr) never panics, and user visitors do not panic (or the code
   guards them), then Compile, Eval and Run never panic — WHATEVER the compiler, the VM loop, the
   environment functions (called by the VM or at compile time by the constExpr pass) and the
   ConstExpr options do: nothing is assumed about s_compile, s_vm_loop, s_envfn, s_opt_constexpr. *)
Theorem C04_containment : forall S : stages,
  unguarded_stages_total S -> visitors_ok S ->
  (forall opts src env, compile_api gen_recover S nil_on_err_compile compile_calls opts src env <> APanic) /\
  (forall src env, eval_api gen_recover S nil_on_err_eval eval_calls src env <> APanic) /\
  (forall src p env, run_api gen_recover S nil_on_err_run gen_run_nil_guard run_calls_gen src p env <> APanic).
Proof. exact containment_gen. Qed.
Print Assumptions C04_containment.

(* the same for ANY recover table and ANY well-ordered call list: a stage is harmless when some
   function between it and the API caller recovers, or when it never panics *)
Theorem C04_containment_parametric : forall rt S noe calls opts src env,
  unguarded_total rt S ApiCompile -> calls_wf false false calls = true -> visitors_contained rt S ApiCompile calls ->
  compile_api rt S noe calls opts src env <> APanic.
Proof. exact containment_compile. Qed.
Print Assumptions C04_containment_parametric.

(* Run needs no hypothesis: a program is USABLE - running it, on any environment, with any behaviour
   of the VM loop and of the environment functions, returns a value or an error; a nil program is
   refused with an error *)
Theorem C04_program_usable : forall (S : stages) src p env,
  run_api gen_recover S nil_on_err_run gen_run_nil_guard run_calls_gen src p env <> APanic.
Proof. exact run_never_panics_gen. Qed.
Print Assumptions C04_program_usable.

(* ---- 2. user patch visitors run OUTSIDE every recover in the pinned tree: the statement without
   the restriction on visitors holds exactly when the code guards the walk of user visitors.
   Known finding C04-compile-visitor-panic: expr.Compile(.., expr.Patch(v)) panics when v panics. *)
Definition C04_full_statement : Prop := full_statement.

Theorem C04_full_statement_refuted_while_unguarded : visitors_guarded compile_calls = false -> ~ C04_full_statement.
Proof. exact full_statement_refuted_when_unguarded. Qed.
Print Assumptions C04_full_statement_refuted_while_unguarded.

Theorem C04_full_statement_once_guarded : visitors_guarded compile_calls = true -> C04_full_statement.
Proof. exact full_statement_when_guarded. Qed.
Print Assumptions C04_full_statement_once_guarded.

(* the generic form: a visitor that panics escapes through any prefix of successful stages *)
Theorem C04_visitor_panic_escapes : forall rt S noe opts src env cs1 cs2 (s : pst S) t v vs,
  run_calls rt S ApiCompile opts src env cs1 (mkPst S (s_cfg0 S) false None None None) = POk s ->
  p_tree s = Some t -> s_visitors S (p_cfg s) = v :: vs -> s_visit S v t = PPanic ->
  guarded rt ApiCompile StVisitor = false ->
  compile_api rt S noe (cs1 ++ CVisitors false :: cs2) opts src env = APanic.
Proof. exact visitor_panic_escapes. Qed.
Print Assumptions C04_visitor_panic_escapes.

(* ---- 3. result shape: an error comes with nil; a success of Compile comes with a program (never
   (nil, nil)); Eval / Run may return the value nil without an error (the expression `nil`) *)
Theorem C04_result_shape : forall S : stages,
  (forall opts src env, let r := compile_api gen_recover S nil_on_err_compile compile_calls opts src env in
                        r = APanic \/ shape_ok true r = true) /\
  (forall src env, let r := eval_api gen_recover S nil_on_err_eval eval_calls src env in
                   r = APanic \/ shape_ok false r = true) /\
  (forall src p env, let r := run_api gen_recover S nil_on_err_run gen_run_nil_guard run_calls_gen src p env in
                     r = APanic \/ shape_ok false r = true).
Proof. exact result_shape_gen. Qed.
Print Assumptions C04_result_shape.

(* and it NEEDS the literal nil on the error paths: with any other accompanying result the caller
   sees a program together with an error *)
Theorem C04_result_shape_needs_nil : forall rt S calls opts src env,
  run_calls rt S ApiCompile opts src env calls (mkPst S (s_cfg0 S) false None None None) = PErr ->
  compile_api rt S false calls opts src env = AErrWith.
Proof. exact shape_needs_nil. Qed.
Print Assumptions C04_result_shape_needs_nil.

(* ---- 4. "never hang" read as termination: the stages whose model exists.
   lexer: the fuel 2*|input|+2 of Lex/Lexer.v suffices for every rune list *)
Theorem C04_lex_total : forall uni_letter uni_digit uni_space input,
  X.Lex.Lexer.lex uni_letter uni_digit uni_space input <> X.Lex.Lexer.LexOutOfFuel.
Proof. exact LexTotal.lex_total. Qed.
Print Assumptions C04_lex_total.

(* lexer.Lex never returns an empty token list (parser.Parse reads tokens[0]) *)
Theorem C04_lex_ok_nonempty : forall uni_letter uni_digit uni_space input ts,
  X.Lex.Lexer.lex uni_letter uni_digit uni_space input = X.Lex.Lexer.LexOk ts -> ts <> [].
Proof. exact LexTotal.lex_ok_nonempty. Qed.
Print Assumptions C04_lex_ok_nonempty.

(* parser: the fuel S (length tokens) of Parse/Parser.v suffices for every token list, every grammar
   table and every oracle *)
Theorem C04_parse_total : forall g o ts, X.Parse.Parser.parse g o ts <> X.Parse.Parser.RFuel.
Proof. exact ParseTotal.parse_total. Qed.
Print Assumptions C04_parse_total.

(* parser.Parse on the models: a tree or an error for EVERY rune list *)
Theorem C04_parse_never_panics : forall uni_letter uni_digit uni_space gr orc input,
  m_parse_api uni_letter uni_digit uni_space gr orc input <> PPanic.
Proof. exact m_parse_api_total. Qed.
Print Assumptions C04_parse_never_panics.

(* reference semantics: a function; value or located failure *)
Theorem C04_eval_total : forall fe cfg env c e,
  (exists v s, X.Sem.Sem.run_ref fe cfg env c e = X.Sem.Sem.Done v s) \/
  (exists er l s, X.Sem.Sem.run_ref fe cfg env c e = X.Sem.Sem.Stop er l s).
Proof. exact eval_total. Qed.
Print Assumptions C04_eval_total.

(* VM model: terminates on every compiled program (from C01's simulation) *)
Theorem C04_vm_total : forall fe cfg env e,
  X.BC.Compiler.compilable e = true ->
  X.BC.RunProofs.stop_is_locatable (X.Sem.Sem.eval fe cfg env [] e X.Sem.Sem.rs0) ->
  exists d0, forall d, (d0 <= d)%nat ->
    X.BC.VM.run_code fe cfg env (X.BC.Compiler.compile (X.Sem.Sem.c_mapenv cfg) e) d <> None.
Proof. exact vm_total. Qed.
Print Assumptions C04_vm_total.

(* ---- 5. Eval end to end on the models (model lexer, model parser, `compilable`, reference
   semantics incl. panicking environment functions) under the regenerated tables: never a panic,
   without any hypothesis *)
Theorem C04_eval_model_never_panics : forall uni_letter uni_digit uni_space gr orc fe limit input env,
  m_eval_api uni_letter uni_digit uni_space gr orc fe limit gen_recover eval_calls input env <> APanic.
Proof.
  exact (fun ul ud us gr orc fe limit input env =>
    m_eval_never_panics ul ud us gr orc fe limit gen_recover eval_calls input env
      (proj1 (proj2 (proj2 (guarded_facts ApiEval)))) (proj1 (proj2 (proj2 (proj2 (guarded_facts ApiEval))))) eval_calls_wf).
Qed.
Print Assumptions C04_eval_model_never_panics.

(* ---- 6. the regenerated tables are the expected ones *)
Theorem C04_tables :
  pipeline_unrecognised = [] /\
  (decode_calls gen_compile_calls = Some expected_compile_calls \/ decode_calls gen_compile_calls = Some expected_compile_calls_guarded) /\
  decode_calls gen_eval_calls = Some expected_eval_calls /\
  gen_recover = expected_recover /\ table_guards_exactly gen_recover = true /\
  (nil_on_err_compile = true /\ nil_on_err_eval = true /\ nil_on_err_run = true) /\
  gen_run_nil_guard = true /\ gen_optimize_passes = expected_optimize_passes.
Proof.
  exact (conj translator_recognised_pipeline (conj compile_calls_expected (conj eval_calls_expected
        (conj recover_expected (conj recover_guards_exactly (conj errors_come_with_nil (conj run_nil_guard optimize_passes_expected))))))).
Qed.
Print Assumptions C04_tables.

(* ---- non-vacuity *)
(* a non-trivial instance meets the hypotheses of C04_containment: every unguarded stage succeeds,
   the visitors are well-behaved, the compiler / VM / environment functions are left arbitrary *)
Example hypotheses_satisfiable : unguarded_stages_total toy_stages.
Proof. exact toy_total. Qed.

(* the pipeline really runs: with one panicking user visitor the toy instance panics in Compile
   (computed with the regenerated call list and recover table) exactly while the walk is unguarded *)
Example toy_visitor_panics :
  class_of (compile_api gen_recover toy_stages nil_on_err_compile compile_calls [] tt tt) =
  if visitors_guarded compile_calls then KErr else KPanic.
Proof. vm_compute. reflexivity. Qed.

(* the models run: 1 + 2 evaluates, `1 +` is an error, an unknown function is an error, nothing panics *)
Definition ex_fe : X.Sem.Prim.fenv :=
  X.Sem.Prim.mkFenv (fun _ => None) (fun _ _ _ => Fail EUser) (fun _ _ _ => None) (fun _ _ => None) (fun x _ => x).
Definition ex_gr : X.Parse.Parser.grammar :=
  X.Parse.Parser.mkGrammar [("-"%string, 500%Z)] [("+"%string, (30%Z, false))] [].
Definition ex_or : X.Parse.Parser.oracles := X.Parse.Parser.mkOracles (fun _ => None) (fun _ => true).
Definition ex_eval (s : string) : oclass :=
  class_of (m_eval_api (fun _ => false) (fun _ => false) (fun _ => false) ex_gr ex_or ex_fe 1000000%Z
                       gen_recover eval_calls (X.Lex.Lexer.rs s) VNil).
Example eval_examples :
  ex_eval "1 + 2" = KOk /\ ex_eval "1 +" = KErr /\ ex_eval "f(1)" = KErr /\ ex_eval "-'a'" = KErr /\ ex_eval "'a" = KErr.
Proof. vm_compute. repeat split; reflexivity. Qed.

(* PARTIAL.  What these theorems cannot exhibit and the harness (harness/c04.go) searches instead:
   Go stack exhaustion on deep recursion, wall-clock time and memory (a 64 KiB input of constant
   ranges makes expr.Compile allocate tens of gigabytes: finding C04-compile-memory-exhaustion),
   panics inside reflect / regexp / strconv that no model contains (conf.CreateTypesTable on a
   pointer to a map: finding C04-option-env-pointer-to-map), and whether the checker, the operator
   patcher and the optimizer passes (no executable model of the checker exists) meet the totality
   hypotheses of C04_containment on every input. *)

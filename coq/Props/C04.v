(* Props/C04.v — Failures are returned as errors, never as panics.      PARTIAL (see the end).
   Only statements, each closed by `exact`, with Print Assumptions; Examples for non-vacuity.

   The pipeline of expr.Compile / expr.Eval / expr.Run (Pipe/Pipeline.v) is an interpreter over the
   stage calls REGENERATED from expr.go, with the recover table REGENERATED from the stage
   functions (coq/gen/GenPipeline.v, tied by Bridge/BrC04.v).  Outcomes: POk (result), PErr (error
   returned), PPanic (a panic that met no recover, or a stage that does not return).  The behaviour
   of EVERY stage is universally quantified (`S : stages`): options, Config.Check, lexer, parser,
   checker, operator patcher, user patch visitors, optimizer passes, compile-time calls of ConstExpr
   functions, compiler, VM loop, environment functions. *)
From Coq Require Import ZArith Bool List String.
Require Import X.Base.Value X.Syn.Ast X.Syn.Tok.
Require X.Lex.Lexer X.Parse.Parser X.Sem.Prim X.Sem.Sem X.BC.Compiler X.BC.VM X.BC.RunProofs.
Require Import X.Pipe.Pipeline X.Pipe.PipeProofs X.gen.GenPipeline X.Bridge.BrC04.
Import ListNotations.

(* ---- 1. containment.  If every stage that runs outside every recover (options other than
   ConstExpr, Config.Check, lexer, parser on the lexer's output, checker, operator patcher, the four
   optimizer passes other than constExpr) never panics, and user visitors do not panic (or the code
   guards them), then Compile, Eval and Run never panic — WHATEVER the compiler, the VM loop, the
   environment functions (called by the VM or at compile time by the constExpr pass) and the
   ConstExpr options do: nothing is assumed about s_compile, s_vm_loop, s_envfn, s_opt_constexpr. *)
Theorem C04_containment : forall S : stages,
  unguarded_stages_total S -> visitors_ok S ->
  (forall opts src env, compile_api gen_recover S nil_on_err_compile compile_calls opts src env <> APanic) /\
  (forall src env, eval_api gen_recover S nil_on_err_eval eval_calls src env <> APanic) /\
  (forall src p env, run_api gen_recover S nil_on_err_run gen_run_nil_guard run_calls_gen src p env <> APanic).
Proof. exact containment_gen. Qed.
Print Assumptions C04_containment.

(* the same for ANY recover table and ANY well-ordered call list: a stage is harmless when some
   function between it and the API caller recovers, or when it never panics *)
Theorem C04_containment_parametric : forall rt S noe calls opts src env,
  unguarded_total rt S ApiCompile -> calls_wf false false calls = true -> visitors_contained rt S ApiCompile calls ->
  compile_api rt S noe calls opts src env <> APanic.
Proof. exact containment_compile. Qed.
Print Assumptions C04_containment_parametric.

(* Run needs no hypothesis: a program is USABLE - running it, on any environment, with any behaviour
   of the VM loop and of the environment functions, returns a value or an error; a nil program is
   refused with an error *)
Theorem C04_program_usable : forall (S : stages) src p env,
  run_api gen_recover S nil_on_err_run gen_run_nil_guard run_calls_gen src p env <> APanic.
Proof. exact run_never_panics_gen. Qed.
Print Assumptions C04_program_usable.

(* ---- 2. user patch visitors run OUTSIDE every recover in the pinned tree: the statement without
   the restriction on visitors holds exactly when the code guards the walk of user visitors.
   Known finding C04-compile-visitor-panic: expr.Compile(.., expr.Patch(v)) panics when v panics. *)
Definition C04_full_statement : Prop := full_statement.

Theorem C04_full_statement_refuted_while_unguarded : visitors_guarded compile_calls = false -> ~ C04_full_statement.
Proof. exact full_statement_refuted_when_unguarded. Qed.
Print Assumptions C04_full_statement_refuted_while_unguarded.

Theorem C04_full_statement_once_guarded : visitors_guarded compile_calls = true -> C04_full_statement.
Proof. exact full_statement_when_guarded. Qed.
Print Assumptions C04_full_statement_once_guarded.

(* the generic form: a visitor that panics escapes through any prefix of successful stages *)
Theorem C04_visitor_panic_escapes : forall rt S noe opts src env cs1 cs2 (s : pst S) t v vs,
  run_calls rt S ApiCompile opts src env cs1 (mkPst S (s_cfg0 S) false None None None) = POk s ->
  p_tree s = Some t -> s_visitors S (p_cfg s) = v :: vs -> s_visit S v t = PPanic ->
  guarded rt ApiCompile StVisitor = false ->
  compile_api rt S noe (cs1 ++ CVisitors false :: cs2) opts src env = APanic.
Proof. exact visitor_panic_escapes. Qed.
Print Assumptions C04_visitor_panic_escapes.

(* ---- 3. result shape: an error comes with nil; a success of Compile comes with a program (never
   (nil, nil)); Eval / Run may return the value nil without an error (the expression `nil`) *)
Theorem C04_result_shape : forall S : stages,
  (forall opts src env, let r := compile_api gen_recover S nil_on_err_compile compile_calls opts src env in
                        r = APanic \/ shape_ok true r = true) /\
  (forall src env, let r := eval_api gen_recover S nil_on_err_eval eval_calls src env in
                   r = APanic \/ shape_ok false r = true) /\
  (forall src p env, let r := run_api gen_recover S nil_on_err_run gen_run_nil_guard run_calls_gen src p env in
                     r = APanic \/ shape_ok false r = true).
Proof. exact result_shape_gen. Qed.
Print Assumptions C04_result_shape.

(* and it NEEDS the literal nil on the error paths: with any other accompanying result the caller
   sees a program together with an error *)
Theorem C04_result_shape_needs_nil : forall rt S calls opts src env,
  run_calls rt S ApiCompile opts src env calls (mkPst S (s_cfg0 S) false None None None) = PErr ->
  compile_api rt S false calls opts src env = AErrWith.
Proof. exact shape_needs_nil. Qed.
Print Assumptions C04_result_shape_needs_nil.

(* ---- 4. "never hang" read as termination: the stages whose model exists.
   lexer: the fuel 2*|input|+2 of Lex/Lexer.v suffices for every rune list *)
Theorem C04_lex_total : forall uni_letter uni_digit uni_space input,
  X.Lex.Lexer.lex uni_letter uni_digit uni_space input <> X.Lex.Lexer.LexOutOfFuel.
Proof. exact LexTotal.lex_total. Qed.
Print Assumptions C04_lex_total.

(* lexer.Lex never returns an empty token list (parser.Parse reads tokens[0]) *)
Theorem C04_lex_ok_nonempty : forall uni_letter uni_digit uni_space input ts,
  X.Lex.Lexer.lex uni_letter uni_digit uni_space input = X.Lex.Lexer.LexOk ts -> ts <> [].
Proof. exact LexTotal.lex_ok_nonempty. Qed.
Print Assumptions C04_lex_ok_nonempty.

(* parser: the fuel S (length tokens) of Parse/Parser.v suffices for every token list, every grammar
   table and every oracle *)
Theorem C04_parse_total : forall g o ts, X.Parse.Parser.parse g o ts <> X.Parse.Parser.RFuel.
Proof. exact ParseTotal.parse_total. Qed.
Print Assumptions C04_parse_total.

(* parser.Parse on the models: a tree or an error for EVERY rune list *)
Theorem C04_parse_never_panics : forall uni_letter uni_digit uni_space gr orc input,
  m_parse_api uni_letter uni_digit uni_space gr orc input <> PPanic.
Proof. exact m_parse_api_total. Qed.
Print Assumptions C04_parse_never_panics.

(* reference semantics: a function; value or located failure *)
Theorem C04_eval_total : forall fe cfg env c e,
  (exists v s, X.Sem.Sem.run_ref fe cfg env c e = X.Sem.Sem.Done v s) \/
  (exists er l s, X.Sem.Sem.run_ref fe cfg env c e = X.Sem.Sem.Stop er l s).
Proof. exact eval_total. Qed.
Print Assumptions C04_eval_total.

(* VM model: terminates on every compiled program (from C01's simulation) *)
Theorem C04_vm_total : forall fe cfg env e,
  X.BC.Compiler.compilable e = true ->
  X.BC.RunProofs.stop_is_locatable (X.Sem.Sem.eval fe cfg env [] e X.Sem.Sem.rs0) ->
  exists d0, forall d, (d0 <= d)%nat ->
    X.BC.VM.run_code fe cfg env (X.BC.Compiler.compile (X.Sem.Sem.c_mapenv cfg) e) d <> None.
Proof. exact vm_total. Qed.
Print Assumptions C04_vm_total.

(* ---- 5. Eval end to end on the models (model lexer, model parser, `compilable`, reference
   semantics incl. panicking environment functions) under the regenerated tables: never a panic,
   without any hypothesis *)
Theorem C04_eval_model_never_panics : forall uni_letter uni_digit uni_space gr orc fe limit input env,
  m_eval_api uni_letter uni_digit uni_space gr orc fe limit gen_recover eval_calls input env <> APanic.
Proof.
  exact (fun ul ud us gr orc fe limit input env =>
    m_eval_never_panics ul ud us gr orc fe limit gen_recover eval_calls input env
      (proj1 (proj2 (proj2 (guarded_facts ApiEval)))) (proj1 (proj2 (proj2 (proj2 (guarded_facts ApiEval))))) eval_calls_wf).
Qed.
Print Assumptions C04_eval_model_never_panics.

(* ---- 6. the regenerated tables are the expected ones *)
Theorem C04_tables :
  pipeline_unrecognised = [] /\
  (decode_calls gen_compile_calls = Some expected_compile_calls \/ decode_calls gen_compile_calls = Some expected_compile_calls_guarded) /\
  decode_calls gen_eval_calls = Some expected_eval_calls /\
  gen_recover = expected_recover /\ table_guards_exactly gen_recover = true /\
  (nil_on_err_compile = true /\ nil_on_err_eval = true /\ nil_on_err_run = true) /\
  gen_run_nil_guard = true /\ gen_optimize_passes = expected_optimize_passes.
Proof.
  exact (conj translator_recognised_pipeline (conj compile_calls_expected (conj eval_calls_expected
        (conj recover_expected (conj recover_guards_exactly (conj errors_come_with_nil (conj run_nil_guard optimize_passes_expected))))))).
Qed.
Print Assumptions C04_tables.

(* ---- non-vacuity *)
(* a non-trivial instance meets the hypotheses of C04_containment: every unguarded stage succeeds,
   the visitors are well-behaved, the compiler / VM / environment functions are left arbitrary *)
Example hypotheses_satisfiable : unguarded_stages_total toy_stages.
Proof. exact toy_total. Qed.

(* the pipeline really runs: with one panicking user visitor the toy instance panics in Compile
   (computed with the regenerated call list and recover table) exactly while the walk is unguarded *)
Example toy_visitor_panics :
  class_of (compile_api gen_recover toy_stages nil_on_err_compile compile_calls [] tt tt) =
  if visitors_guarded compile_calls then KErr else KPanic.
Proof. vm_compute. reflexivity. Qed.

(* the models run: 1 + 2 evaluates, `1 +` is an error, an unknown function is an error, nothing panics *)
Definition ex_fe : X.Sem.Prim.fenv :=
  X.Sem.Prim.mkFenv (fun _ => None) (fun _ _ _ => Fail EUser) (fun _ _ _ => None) (fun _ _ => None) (fun x _ => x).
Definition ex_gr : X.Parse.Parser.grammar :=
  X.Parse.Parser.mkGrammar [("-"%string, 500%Z)] [("+"%string, (30%Z, false))] [].
Definition ex_or : X.Parse.Parser.oracles := X.Parse.Parser.mkOracles (fun _ => None) (fun _ => true).
Definition ex_eval (s : string) : oclass :=
  class_of (m_eval_api (fun _ => false) (fun _ => false) (fun _ => false) ex_gr ex_or ex_fe 1000000%Z
                       gen_recover eval_calls (X.Lex.Lexer.rs s) VNil).
Example eval_examples :
  ex_eval "1 + 2" = KOk /\ ex_eval "1 +" = KErr /\ ex_eval "f(1)" = KErr /\ ex_eval "-'a'" = KErr /\ ex_eval "'a" = KErr.
Proof. vm_compute. repeat split; reflexivity. Qed.

(* PARTIAL.  What these theorems cannot exhibit and the harness (harness/c04.go) searches instead:
   Go stack exhaustion on deep recursion, wall-clock time and memory (a 64 KiB input of constant
   ranges makes expr.Compile allocate tens of gigabytes: finding C04-compile-memory-exhaustion),
   panics inside reflect / regexp / strconv that no model contains (conf.CreateTypesTable on a
   pointer to a map: finding C04-option-env-pointer-to-map), and whether the checker, the operator
   patcher and the optimizer passes (no executable model of the checker exists) meet the totality
   hypotheses of C04_containment on every input. *)

(* ================================================================== 7. the totality hypotheses of
   C04_containment, discharged for the stages whose executable model exists (Pipe/StageTotality.v).
   This supersedes the last clause of the note above: models of the checker (Ty/Checker.v), the
   operator patcher (Ops/Overload.v) and the optimizer (Opt/Optimizer.v) exist and are total. *)
Require Import X.Pipe.StageTotality.

(* ---- 7.1 the checker model has no panic path.  For every configuration whose declarations embed
   acyclically and whose operator functions have the shape Config.Check demands (`cfg_ok`), and
   every tree - any of the 22 node kinds in any position - whose builtin nodes carry the arguments
   their name indexes (`arity_ok`): Check does not report CStuck, and no node of the tree is a panic
   site behind an earlier error either (`stuck_in`: every node, visited or not, under the
   collection stack and with the operand types the checker computes).  The weight table of
   checker/types.go is the regenerated one (gen_weights_usable). *)
Theorem C04_check_total : forall c : X.Ty.Checker.cconfig, cfg_ok c = true ->
  forall e, arity_ok e = true ->
  (forall l, snd (X.Ty.Checker.check c e) <> Some (l, X.Ty.Checker.CStuck)) /\
  (forall cols, stuck_in c cols e = false).
Proof. exact (fun c => check_never_stuck c gen_weights_usable). Qed.
Print Assumptions C04_check_total.

(* the same from every error state of the visitor, under every collection stack *)
Theorem C04_visit_total : forall c : X.Ty.Checker.cconfig, cfg_ok c = true ->
  forall e, arity_ok e = true -> forall cols st l,
  snd (X.Ty.Checker.visit c cols e st) = Some (l, X.Ty.Checker.CStuck) -> st = Some (l, X.Ty.Checker.CStuck).
Proof. exact (fun c => visit_never_stuck c gen_weights_usable). Qed.
Print Assumptions C04_visit_total.

(* `stuck_in` is adequate, for ALL configurations and trees: a CStuck that the visitor reports comes
   from a node that `stuck_in` flags *)
Theorem C04_stuck_is_flagged : forall (c : X.Ty.Checker.cconfig) e cols,
  match snd (X.Ty.Checker.visit c cols e None) with
  | Some (_, X.Ty.Checker.CStuck) => stuck_in c cols e = true
  | _ => True
  end.
Proof. exact stuck_is_flagged. Qed.
Print Assumptions C04_stuck_is_flagged.

(* fieldType / methodType terminate on acyclic declarations (the fuel of the model suffices) *)
Theorem C04_field_type_total : forall te t name, te_acyclic te = true ->
  X.Ty.TypesTable.field_type te (X.Ty.TypesTable.fuel0 te) t name <> X.Ty.TypesTable.LFuel /\
  X.Ty.TypesTable.method_type te (X.Ty.TypesTable.fuel0 te) t name <> X.Ty.TypesTable.LFuel.
Proof.
  exact (fun te t name H => conj (field_type_total te _ t name (te_acyclic_emb_ok te t H))
                                 (method_type_total te _ t name (te_acyclic_emb_ok te t H))).
Qed.
Print Assumptions C04_field_type_total.

(* the statement without carve-outs is false of the model; each witness is a candidate panic (or
   fatal error) of the real checker:
   (a) a builtin node without its arguments - `len()`, `all(xs)` - which only a user visitor can
       build (the parser never does: C04_parser_arity);
   (b) the same node behind an ordinary error: invisible in the first error, flagged by stuck_in;
   (c) `type T struct{ *T }` in the environment: fieldType recurses without end;
   (d) an operator function missing from the environment: excluded by Config.Check. *)
Definition C04_check_total_full_statement : Prop := check_never_stuck_full_statement.

Theorem C04_check_total_refuted : ~ C04_check_total_full_statement.
Proof. exact check_never_stuck_refuted. Qed.
Print Assumptions C04_check_total_refuted.

Theorem C04_check_total_refuted_arity : cfg_ok CkWit.cc0 = true /\ arity_ok CkWit.len0 = false /\
  snd (X.Ty.Checker.check CkWit.cc0 CkWit.len0) = Some ((1, 0)%Z, X.Ty.Checker.CStuck) /\
  arity_ok CkWit.all1 = false /\ snd (X.Ty.Checker.check CkWit.cc0 CkWit.all1) = Some ((1, 0)%Z, X.Ty.Checker.CStuck).
Proof. exact check_never_stuck_refuted_arity. Qed.

Theorem C04_check_total_refuted_hidden : cfg_ok CkWit.cc_strict0 = true /\ arity_ok CkWit.hidden = false /\
  snd (X.Ty.Checker.check CkWit.cc_strict0 CkWit.hidden) = Some ((1, 1)%Z, X.Ty.Checker.CUnknownName) /\
  stuck_in CkWit.cc_strict0 [] CkWit.hidden = true.
Proof. exact hidden_stuck_refuted. Qed.

Theorem C04_check_total_refuted_cyclic : arity_ok CkWit.x_missing = true /\ X.Ty.Types.wf_tenv CkWit.te_cyc = true /\
  te_acyclic CkWit.te_cyc = false /\ ops_usable CkWit.cc_cyc = true /\
  snd (X.Ty.Checker.check CkWit.cc_cyc CkWit.x_missing) = Some ((1, 1)%Z, X.Ty.Checker.CStuck).
Proof. exact check_never_stuck_refuted_cyclic. Qed.

Theorem C04_check_total_refuted_operator : arity_ok CkWit.one_plus_two = true /\ te_acyclic [] = true /\
  ops_usable CkWit.cc_badop = false /\
  snd (X.Ty.Checker.check CkWit.cc_badop CkWit.one_plus_two) = Some ((1, 2)%Z, X.Ty.Checker.CStuck).
Proof. exact check_never_stuck_refuted_operator. Qed.

(* Config.Check (operator part) establishes the operator half of cfg_ok *)
Theorem C04_config_check_gives_usable : forall c : X.Ty.Checker.cconfig,
  X.Ops.Overload.config_check (types_of c) (ops_of (X.Ty.Checker.cc_ops c)) = true -> ops_usable c = true.
Proof. exact config_check_ops_usable. Qed.
Print Assumptions C04_config_check_gives_usable.

(* the parser builds builtin nodes with the arity of the grammar table, for every token list; the
   regenerated table gives len one argument and the closure builtins two *)
Theorem C04_parser_arity : forall g o ts e, ParseArity.builtins_ok g = true ->
  X.Parse.Parser.parse g o ts = X.Parse.Parser.ROk e -> arity_ok e = true.
Proof. exact ParseArity.parse_arity_ok. Qed.
Print Assumptions C04_parser_arity.

Theorem C04_gen_grammar_arity : ParseArity.builtins_ok gen_grammar = true.
Proof. exact gen_grammar_builtins_ok. Qed.

(* ---- 7.2 compiler.PatchOperators: once Config.Check accepted, for every tree, every side table of
   static types and every Implements oracle the walk finishes within esize e steps and no lookup
   panics *)
Theorem C04_patch_ops_total : forall implements types ops tyof e,
  X.Ops.Overload.config_check types ops = true ->
  exists e', X.Ops.Overload.patch_ops implements types ops tyof (esize e) e = X.Ops.Overload.PDone e'.
Proof. exact patch_ops_total. Qed.
Print Assumptions C04_patch_ops_total.

(* ---- 7.3 optimizer.Optimize (fold loop bounded by 1001 walks, constExpr loop by 101, as in the
   code): a tree, or the error of a constant integer division / modulo by zero or of a failing
   ConstExpr call; the model has no other outcome, for all trees *)
Theorem C04_optimize_total : forall fe env cn e,
  (exists e', X.Opt.Optimizer.optimize fe env cn e = X.Opt.Optimizer.OOk e') \/
  (exists l, X.Opt.Optimizer.optimize fe env cn e = X.Opt.Optimizer.OFail l /\
             (X.Opt.OptProofs.has_dz e = true \/ X.Opt.OptProofs.cx_fails fe env cn)).
Proof. exact optimize_total. Qed.
Print Assumptions C04_optimize_total.

(* ---- 7.4 the pipeline with the stage behaviours INSTANTIATED by the models: options and
   Config.Check (operator part), model lexer, model parser, Ty/Checker.check (CStuck = panic),
   Ops/Overload.patch_ops (out of fuel = panic), the five optimizer passes, `compilable`, the
   reference semantics with arbitrary (panicking) environment functions - under the REGENERATED call
   lists and recover table.  No totality hypothesis on any stage is left.  What remains:
     te_acyclic te       the struct declarations embed acyclically (else: stack overflow, (c) above);
     builtins_ok gr      the grammar table (true of the regenerated one: C04_gen_grammar_arity);
     opt_ok              per option: no pointer-to-map environment (finding
                         C04-option-env-pointer-to-map); a user visitor (any function on trees)
                         returns, and keeps trees inside arity_ok (vis_ok).
   The compiler and the VM are contained by the recovers of the regenerated table (guarded_facts). *)
Theorem C04_containment_models :
  forall uni_letter uni_digit uni_space gr orc fe limit te perm implements tyof,
  te_acyclic te = true -> ParseArity.builtins_ok gr = true ->
  (forall opts src env, Forall opt_ok opts ->
     compile_api gen_recover (x_stages uni_letter uni_digit uni_space gr orc fe limit te perm implements tyof)
                 nil_on_err_compile compile_calls opts src env <> APanic) /\
  (forall src env,
     eval_api gen_recover (x_stages uni_letter uni_digit uni_space gr orc fe limit te perm implements tyof)
              nil_on_err_eval eval_calls src env <> APanic) /\
  (forall src p env,
     run_api gen_recover (x_stages uni_letter uni_digit uni_space gr orc fe limit te perm implements tyof)
             nil_on_err_run gen_run_nil_guard run_calls_gen src p env <> APanic).
Proof. exact containment_models. Qed.
Print Assumptions C04_containment_models.

(* option sets without user visitors: a decidable test *)
Theorem C04_no_visitor_options_ok : forall opts, forallb no_visitor opts = true -> Forall opt_ok opts.
Proof. exact no_visitor_ok. Qed.

(* ---- non-vacuity: the composed model pipeline runs (regenerated grammar, call list, recover table) *)
Definition mx_stages (te : X.Ty.Types.tenv) : stages :=
  x_stages (fun _ => false) (fun _ => false) (fun _ => false) gen_grammar ex_or ex_fe 1000000%Z te
           X.Ty.TypesTable.perm_id (fun _ _ => false) (fun _ _ _ => TNilT).
Definition mx_compile (opts : list xopt) (s : string) : oclass :=
  class_of (compile_api gen_recover (mx_stages []) nil_on_err_compile compile_calls opts (X.Lex.Lexer.rs s) VNil).
Definition mx_env : X.Ty.TypesTable.envty :=
  X.Ty.TypesTable.EMap (TMap TString TIface) [("xs"%string, TSlice (TNum X.Base.Num.KInt)); ("n"%string, TNum X.Base.Num.KInt)].

(* a well-typed program, an ill-typed one, a syntax error *)
Example models_compile_examples :
  mx_compile [] "1 + 2" = KOk /\ mx_compile [] "1 + 'a'" = KErr /\ mx_compile [] "1 +" = KErr.
Proof. vm_compute. repeat split; reflexivity. Qed.

(* with expr.Env and AsBool: builtins, closures, undefined names *)
Example models_compile_env_examples :
  Forall opt_ok [OEnv mx_env VNil; OExpect RKBool] /\ te_acyclic [] = true /\
  mx_compile [OEnv mx_env VNil] "len(xs) + n" = KOk /\ mx_compile [OEnv mx_env VNil] "len(n)" = KErr /\
  mx_compile [OEnv mx_env VNil; OExpect RKBool] "all(xs, {# > n})" = KOk /\
  mx_compile [OEnv mx_env VNil; OExpect RKBool] "n" = KErr /\
  mx_compile [OEnv mx_env VNil] "undefined_name" = KErr.
Proof. split; [repeat constructor|]. vm_compute. repeat split; reflexivity. Qed.

(* user visitors inside the hypothesis: one that leaves the tree alone, one that replaces it *)
Example models_compile_visitor_examples :
  Forall opt_ok [OPatch (fun t => POk t); OPatch (fun _ => POk (EBool ann0 true)); OExpect RKBool] /\
  mx_compile [OPatch (fun t => POk t); OPatch (fun _ => POk (EBool ann0 true)); OExpect RKBool] "1 + 'a'" = KOk.
Proof.
  split; [|vm_compute; reflexivity].
  constructor; [intros t Ht; exact Ht|]. constructor; [intros t Ht; reflexivity|]. constructor; [exact I|constructor].
Qed.

(* the node shapes a visitor can build and the parser cannot - a pair outside a map, a closure
   outside a builtin, a pointer outside a closure, a builtin whose collection is no collection and
   whose second argument is no closure - are inside arity_ok: C04_check_total covers them (they are
   ordinary errors or accepted, in the model as in the code) *)
Example odd_shapes_inside :
  arity_ok (EPair ann0 (EStr ann0 "k") (EInt ann0 1)) = true /\ arity_ok (EClosure ann0 (EInt ann0 1)) = true /\
  arity_ok (EPointer ann0) = true /\ arity_ok (EBuiltin ann0 BiAll [EInt ann0 1; EPointer ann0]) = true /\
  snd (X.Ty.Checker.check CkWit.cc0 (EPair ann0 (EStr ann0 "k") (EInt ann0 1))) = None /\
  snd (X.Ty.Checker.check CkWit.cc0 (EPointer ann0)) = Some (noloc, X.Ty.Checker.CPointerOutside) /\
  snd (X.Ty.Checker.check CkWit.cc0 (EBuiltin ann0 BiAll [EInt ann0 1; EPointer ann0])) = Some (noloc, X.Ty.Checker.CNotArray).
Proof. vm_compute. repeat split; reflexivity. Qed.

(* the three restrictions are needed: a visitor that builds `len()`, a pointer-to-map environment,
   a cyclic embedding make the modelled Compile panic *)
Example models_compile_carve_outs_needed :
  mx_compile [OPatch (fun _ => POk CkWit.len0)] "1" = KPanic /\
  mx_compile [OEnv (X.Ty.TypesTable.EMap (TPtr (TMap TString TIface)) []) VNil] "1" = KPanic /\
  class_of (compile_api gen_recover (mx_stages CkWit.te_cyc) nil_on_err_compile compile_calls
              [OEnv (X.Ty.TypesTable.EStruct (TStruct "T")) VNil] (X.Lex.Lexer.rs "1") VNil) = KPanic.
Proof. vm_compute. repeat split; reflexivity. Qed.

(* STILL PARTIAL.  Outside every model: Go stack exhaustion on deep recursion, time and memory,
   panics inside reflect / regexp / strconv, trees with a nil child or a node type of the user's own
   (ast.Walk and checker.visit panic on them: "undefined node type"), and the conformance of the
   models to the code, which the correspondence runs (Corr/) test rather than prove. *)

(* Props/C01.v — Compiled evaluation conforms to the language definition.
   Only statements, each closed by `exact`, with Print Assumptions. *)
From Coq Require Import ZArith Bool List String.
Require Import X.Base.Num X.Base.Value X.Syn.Ast X.Sem.Prim X.Sem.Sem X.BC.Instr X.BC.Compiler X.BC.VM
               X.BC.CompileProofs X.BC.RunProofs X.BC.SemFacts.
Import ListNotations.

(* Main theorem (simulation, any context): for every compilable expression e, every environment,
   every surrounding code C containing compile e at p, every stack st below, every scope stack
   matching the closure context, every state r (allocation counter, call trace):
   - if the reference semantics yields value v and state r', the machine reaches the end of the
     code of e with exactly v pushed on st, the same scopes, and state r';
   - if the reference semantics stops with class e, location l, state r', the machine reaches a
     state whose next step is a crash with exactly that class, location and state. *)
Theorem C01_compile_correct :
  forall fe cfg env C e, compilable e = true ->
  forall ctx scs, ctx_match ctx scs ->
  forall p, code_at C p (compile (c_mapenv cfg) e) ->
  forall st r,
    match eval fe cfg env ctx e r with
    | Done v r' => star fe cfg env C (mkSt p st scs r) (mkSt (p + csize (compile (c_mapenv cfg) e)) (v :: st) scs r')
    | Stop er l r' => exists s', star fe cfg env C (mkSt p st scs r) s' /\ step fe cfg env C s' = Crash er l r'
    end.
Proof. exact compile_correct. Qed.
Print Assumptions C01_compile_correct.

(* Executable form: running the compiled program on the model VM returns exactly the result of the
   reference semantics — value, or failure class + location — with allocation counter and call
   trace, for every sufficiently large fuel depth. *)
Theorem C01_run :
  forall fe cfg env e, compilable e = true ->
  stop_is_locatable (eval fe cfg env [] e rs0) ->
  exists d0, forall d, (d0 <= d)%nat ->
    run_code fe cfg env (compile (c_mapenv cfg) e) d = Some (eval fe cfg env [] e rs0).
Proof. exact run_compiled. Qed.
Print Assumptions C01_run.

(* Boolean connectives and conditionals evaluate only the operand they need (statements about the
   language definition; transferred to compiled code by C01_compile_correct). *)
Theorem C01_or_short_circuit :
  forall fe cfg env ctx a op l r s s1, is_or op = true ->
  eval fe cfg env ctx l s = Done (VBool true) s1 ->
  eval fe cfg env ctx (EBinary a op l r) s = Done (VBool true) s1.
Proof. exact eval_or_true. Qed.
Print Assumptions C01_or_short_circuit.

Theorem C01_and_short_circuit :
  forall fe cfg env ctx a op l r s s1, is_and op = true ->
  eval fe cfg env ctx l s = Done (VBool false) s1 ->
  eval fe cfg env ctx (EBinary a op l r) s = Done (VBool false) s1.
Proof. exact eval_and_false. Qed.
Print Assumptions C01_and_short_circuit.

Theorem C01_conditional_one_branch :
  forall fe cfg env ctx a c x y s b s1,
  eval fe cfg env ctx c s = Done (VBool b) s1 ->
  eval fe cfg env ctx (ECond a c x y) s = eval fe cfg env ctx (if b then x else y) s1.
Proof. exact eval_cond_branch. Qed.
Print Assumptions C01_conditional_one_branch.

(* every evaluated call of an environment function happens exactly once, after its arguments,
   which are evaluated left to right: the trace of a successful call node is the trace after the
   arguments plus exactly one event *)
Theorem C01_call_once_in_order :
  forall fe cfg env ctx a name args fast s v s',
  eval fe cfg env ctx (EFunction a name args fast) s = Done v s' ->
  exists vs s1 id, evl fe cfg env ctx args s = LDone vs s1 /\
                   r_trace s' = r_trace s1 ++ [(id, vs)] /\ r_mem s' = r_mem s1.
Proof. exact eval_function_trace. Qed.
Print Assumptions C01_call_once_in_order.

Theorem C01_args_left_to_right :
  forall fe cfg env ctx x rest s,
  evl fe cfg env ctx (x :: rest) s =
  match eval fe cfg env ctx x s with
  | Done v s1 => match evl fe cfg env ctx rest s1 with LDone vs s2 => LDone (v :: vs) s2 | stop => stop end
  | Stop e l s1 => LStop e l s1
  end.
Proof. reflexivity. Qed.

(* With environment functions that fail only for reasons of their own (never with the class
   reserved for malformed bytecode), the statement needs no side condition: whole programs,
   result cast included. *)
Require Import X.Sem.NoMachine.

Theorem C01_run_program :
  forall fe cfg env c e, fn_no_machine fe -> compilable e = true ->
  exists d0, forall d, (d0 <= d)%nat ->
    run_code fe cfg env (compile_program (c_mapenv cfg) c e) d = Some (run_ref fe cfg env c e).
Proof.
  intros fe cfg env c e Hf Hc. apply run_compiled_program; [exact Hc|].
  pose proof (eval_no_machine fe cfg env Hf e [] rs0) as H. unfold not_machine, stop_is_locatable in *.
  destruct (eval fe cfg env [] e rs0) as [v r|er l r]; auto. destruct er; auto; try contradiction.
Qed.
Print Assumptions C01_run_program.
From Coq Require Import ZArith Bool List String.
Require Import X.Base.Num X.Base.Value X.Syn.Ast X.Sem.Prim X.Sem.Sem X.BC.Instr X.BC.Compiler X.BC.VM
               X.BC.CompileProofs X.BC.RunProofs X.BC.SemFacts.
Import ListNotations.

(* ---- lines to add to Props/C01.v ---- *)
(* Tie of the model compiler to compiler/compiler.go BY REGENERATION: gen/GenSchemes.v holds, for every
   XNode method, emitLoop / emitCond / emitPush and the tail of Compile, the statements of the current
   source as terms of the scheme DSL of BC/Schemes.v; interp_code runs them as the Go compiler does. *)
Require Import X.BC.Schemes X.gen.GenSchemes X.Bridge.BrSchemes.

(* every statement of those functions is one of the shapes the translator knows *)
Theorem C01_schemes_recognised : recognised GenSchemes.schemes = true.
Proof. exact schemes_recognised. Qed.
Print Assumptions C01_schemes_recognised.

(* one unfolding step, any node kind: the regenerated scheme of the node's method, with the nested
   c.compile calls answered as the model compiler answers them, yields the model compiler's code *)
Theorem C01_model_compiler_is_source_schemes :
  forall rec mapenv e, node_compilable e = true ->
  (forall y, In y (children e) -> rec y = Some (compile_node mapenv y)) ->
  interp_code GenSchemes.schemes rec mapenv e = Some (compile_node mapenv e).
Proof. exact schemes_step. Qed.
Print Assumptions C01_model_compiler_is_source_schemes.

(* by induction on the tree: the compiler obtained from the regenerated schemes alone (gen_compile: the
   interpreter calling itself for the nested c.compile) is the model compiler, with the result cast *)
Theorem C01_model_compiler_is_source_schemes_closed :
  forall d mapenv c e, (esize e <= d)%nat -> compilable e = true ->
  gen_compile_program GenSchemes.schemes d mapenv c e = Some (compile_program mapenv c e).
Proof. exact gen_compile_program_is_compile_program. Qed.
Print Assumptions C01_model_compiler_is_source_schemes_closed.

Example C01_schemes_nonvacuous :
  compilable scheme_ex = true /\ esize scheme_ex = 20%nat /\
  gen_compile_program GenSchemes.schemes 20 true CastFloat64 scheme_ex = Some (compile_program true CastFloat64 scheme_ex) /\
  List.length (compile_program true CastFloat64 scheme_ex) = 53%nat.
Proof. vm_compute. repeat split; reflexivity. Qed.

(* ---- lines to add to Props/C01.v (GenVMSteps: the dispatch loop of vm/vm.go regenerated) ---- *)
(* Tie of the model VM (the machine compile_correct is about) to vm/vm.go BY REGENERATION: gen/GenVMSteps.v
   holds, for every `case OpX:` of VM.Run, for the prologue, the loop head, the epilogue and the small
   methods, the statements of the current source as terms of the DSL of BC/VMSteps.v; interp_case runs
   a case on a model state, calling Sem/Prim.v for the helpers of vm/runtime.go and vm/helpers.go. *)
Require X.BC.VMSteps X.gen.GenVMSteps X.Bridge.BrVMSteps.

(* every statement of Run and of the small methods is one of the shapes the translator knows *)
Theorem C01_vmsteps_recognised : VMSteps.vmsrc_recognised GenVMSteps.vm_src = true.
Proof. exact BrVMSteps.vmsteps_recognised. Qed.
Print Assumptions C01_vmsteps_recognised.

(* the step function of the model VM IS the interpretation of the case of the current source: every
   instruction, every code, every state that stands for a Go state (vm_rep_ok) outside the listed
   places where model and Go text part (vm_in_scope, decidable) *)
Theorem C01_model_vm_is_source_dispatch :
  forall fe cfg env C s i l,
    fetch C (pc s) = Some (i, l) -> VMSteps.vm_rep_ok cfg s = true -> VMSteps.vm_in_scope i s = true ->
    VMSteps.case_agrees fe cfg env C GenVMSteps.vm_src i l s.
Proof. exact BrVMSteps.vm_step_is_source_dispatch. Qed.
Print Assumptions C01_model_vm_is_source_dispatch.

(* 43 of the 52 instructions need no side condition at all *)
Theorem C01_model_vm_is_source_dispatch_unconditional :
  forall fe cfg env C s i l,
    fetch C (pc s) = Some (i, l) -> BrVMSteps.unconditional i = true ->
    VMSteps.case_agrees fe cfg env C GenVMSteps.vm_src i l s.
Proof. exact BrVMSteps.vm_step_is_source_dispatch_unconditional. Qed.
Print Assumptions C01_model_vm_is_source_dispatch_unconditional.

(* the statement without vm_in_scope is false of the model: OpInc at the top of the int range *)
Theorem C01_model_vm_is_source_dispatch_full_refuted : ~ BrVMSteps.vm_step_full_statement.
Proof. exact BrVMSteps.vm_step_full_statement_refuted. Qed.
Print Assumptions C01_model_vm_is_source_dispatch_full_refuted.

(* one turn of the source loop (condition, fetch, switch, or the epilogue) is BC/VM.tick *)
Theorem C01_model_tick_is_source_loop :
  forall fe cfg env C s,
    ((pc s < csize C)%nat -> fetch C (pc s) <> None) ->
    VMSteps.vm_rep_ok cfg s = true -> VMSteps.vm_in_scope_at C s = true ->
    option_map (VMSteps.tick_mem (r_mem (rs s))) (VMSteps.interp_tick fe cfg env C GenVMSteps.vm_src s)
    = Some (tick fe cfg env C s).
Proof. exact BrVMSteps.vm_tick_is_source_loop. Qed.
Print Assumptions C01_model_tick_is_source_loop.

(* Run (prologue on a machine in ANY state, loop, epilogue) read off the current source returns what
   the model VM returns, for as long as the visited states satisfy the side conditions (run_guard) *)
Theorem C01_model_run_is_source_run :
  forall fe cfg env C d before,
    VMSteps.run_guard fe cfg env C d init_state = true ->
    option_map VMSteps.erase_stop_mem (VMSteps.interp_run fe cfg env C GenVMSteps.vm_src d before)
    = option_map VMSteps.erase_stop_mem (run_code fe cfg env C d).
Proof. exact BrVMSteps.vm_run_is_source_run. Qed.
Print Assumptions C01_model_run_is_source_run.

Example C01_vmsteps_nonvacuous :
  VMSteps.run_guard BrVMSteps.w_fe BrVMSteps.w_cfg VNil BrVMSteps.run_ex_code 8 init_state = true /\
  VMSteps.interp_run BrVMSteps.w_fe BrVMSteps.w_cfg VNil BrVMSteps.run_ex_code GenVMSteps.vm_src 8 BrVMSteps.run_ex_dirty
  = run_code BrVMSteps.w_fe BrVMSteps.w_cfg VNil BrVMSteps.run_ex_code 8 /\
  run_code BrVMSteps.w_fe BrVMSteps.w_cfg VNil BrVMSteps.run_ex_code 8
  = Some (Done (VArr TIface [vint 2; vint 3]) (mkRS 5 [])).
Proof. vm_compute. repeat split; reflexivity. Qed.

(* the hypotheses of C01_model_vm_is_source_dispatch are met, e.g., by every state of the run above; here the
   first instruction and, for a conditional one, OpInc on a counter below the top of the int range *)
Example C01_vmsteps_dispatch_nonvacuous :
  fetch BrVMSteps.run_ex_code 0 = Some (IPush (vint 1), noloc) /\
  VMSteps.vm_rep_ok BrVMSteps.w_cfg init_state = true /\ VMSteps.vm_in_scope (IPush (vint 1)) init_state = true /\
  VMSteps.vm_in_scope (IInc "i") (mkSt 0 [] [[("i", vint 41)]] rs0) = true /\
  VMSteps.vm_in_scope (IInc "i") BrVMSteps.w_inc_state = false.
Proof. vm_compute. repeat split; reflexivity. Qed.

(* ---- GenRuntime: the helper functions of vm/runtime.go (fetch, slice, in, length, negate, exponent, makeRange,
   toInt, toInt64, toFloat64, isNil, FetchFn, FetchFnNil, equalSequences) are REGENERATED on every run
   (gen/GenRuntime.v, DSL + interpreter Sem/PrimRules.v; package reflect and math.Pow stay primitives, `equal` of
   vm/helpers.go is a parameter of the interpreter: the model's p_equal here, rebuilt from its regenerated parts
   in Bridge/BrRuntimeEq.v) and
   proved equal to the run-time helpers of the model Sem/Prim.v, one lemma per function (Bridge/BrRuntime.v).
   The statements are `Definition .._statement : Prop` in Bridge/BrRuntime.v; nothing is imported here. ---- *)
Require X.Bridge.BrRuntime.

(* every statement and expression of the fourteen functions is inside the DSL *)
Theorem C01_runtime_source_recognised : X.Bridge.BrRuntime.genruntime_all_recognised = true.
Proof. exact X.Bridge.BrRuntime.genruntime_recognised. Qed.
Print Assumptions C01_runtime_source_recognised.

(* for every function environment, NumMethod oracle, loop fuel F and call depth >= 2: interpreting the
   regenerated fetch / slice / in / length / negate / exponent / makeRange / toInt / toInt64 / toFloat64 / isNil /
   FetchFn / FetchFnNil gives p_fetch / p_slice / p_in / p_length / p_negate / f_pow of the two to_float64 /
   make_range / to_int / to_int64 / to_float64 / is_nil / fetch_fn (for FetchFn: what the machine observes when it
   Calls the returned Value), for all arguments inside the model's value universe (num_ok, named_ok / not_named,
   str_key_ok, len_ok, fn_map_ok, range size within int, F above the slice length for `in`) *)
Theorem C01_model_runtime_is_source : X.Bridge.BrRuntime.model_runtime_is_source_statement.
Proof. exact X.Bridge.BrRuntime.model_runtime_is_source. Qed.
Print Assumptions C01_model_runtime_is_source.

(* no function of runtime.go is left unread *)
Theorem C01_runtime_not_read : X.gen.GenRuntime.genruntime_not_read = nil.
Proof. exact X.Bridge.BrRuntime.genruntime_not_read_is. Qed.
Print Assumptions C01_runtime_not_read.

(* ---- equalSequences (vm/runtime.go) and, through it, `equal` (generated vm/helpers.go): Bridge/BrRuntimeEq.v ---- *)
Require X.Bridge.BrRuntimeEq.

(* for every function environment, NumMethod oracle, loop fuel F above the length of a, call depth >= 1 and all
   values a, b that are not of a declared slice / map / struct type (named_ok) with len(a) a Go int: interpreting
   the regenerated equalSequences (i) whatever `equal` answers on the elements, gives the kind tests, the length
   test and the index loop of eqseq_spec (induction over the element lists); (ii) with the model's `equal` on the
   elements, gives the model's sequence equality (the loop and the length test of Prim.equal_v); (iii) and
   p_equal - what Sem.eval and the model VM use for ==, != and in - is ONE TURN OF THE SOURCE'S `equal`
   (regenerated kind-pair table, then isNil(a) && isNil(b), then equalSequences, then DeepEqual: the regenerated
   order FTNilSeqDeepEqual) whose recursive calls answer p_equal *)
Theorem C01_equal_sequences_is_source : X.Bridge.BrRuntimeEq.equal_sequences_is_source_statement.
Proof. exact X.Bridge.BrRuntimeEq.equal_sequences_is_source. Qed.
Print Assumptions C01_equal_sequences_is_source.

(* the recursion closed: n nested turns of the source's `equal` (the innermost answering "out of depth") ARE
   p_equal on every a whose nesting of sequences is below n - induction on the size of the LEFT value, the rank
   that decreases at every call of `equal` inside equalSequences - inside the decidable fragment eq_frag (at every
   nesting level: declared types are declared basic types, sequences shorter than the loop fuel F, F a Go int) *)
Theorem C01_equal_is_source : X.Bridge.BrRuntimeEq.equal_is_source_statement.
Proof. exact X.Bridge.BrRuntimeEq.equal_is_source_closed. Qed.
Print Assumptions C01_equal_is_source.

(* without named_ok the statement is false of the MODEL: reflect sees a value of a declared slice type as a
   slice (`Ids{1} == []int{1}` is true in the code, as the comment of equalSequences promises), Prim.equal_v has
   no case for it and answers DeepEqual = false; the code is right, the model is narrower *)
Theorem C01_equal_sequences_full_statement_refuted : ~ X.Bridge.BrRuntimeEq.equal_sequences_full_statement.
Proof. exact X.Bridge.BrRuntimeEq.equal_sequences_full_statement_refuted. Qed.
Print Assumptions C01_equal_sequences_full_statement_refuted.

(* non-vacuity: []int against []interface{} with an int64 inside, different lengths, a differing element, a
   non-sequence, nil against empty slice, nested sequences through the rebuilt `equal`, DeepEqual, both nil, the
   table; and the hypotheses of the two theorems on these values *)
Example C01_equal_sequences_examples : X.Bridge.BrRuntimeEq.equal_sequences_examples_statement.
Proof. exact X.Bridge.BrRuntimeEq.equal_sequences_examples. Qed.

(* without the carve-outs on values of declared types the statements are false of the MODEL (reflect sees the
   underlying type of a named slice / string, Sem/Prim.v does not): three witnesses *)
Theorem C01_runtime_length_full_statement_refuted : ~ X.Bridge.BrRuntime.length_full_statement.
Proof. exact X.Bridge.BrRuntime.length_full_statement_refuted. Qed.
Theorem C01_runtime_slice_full_statement_refuted : ~ X.Bridge.BrRuntime.slice_full_statement.
Proof. exact X.Bridge.BrRuntime.slice_full_statement_refuted. Qed.
Theorem C01_runtime_fetch_full_statement_refuted : ~ X.Bridge.BrRuntime.fetch_full_statement.
Proof. exact X.Bridge.BrRuntime.fetch_full_statement_refuted. Qed.
Print Assumptions C01_runtime_fetch_full_statement_refuted.

(* non-vacuity: concrete runs of the regenerated code (index, nil map key, missing key, nil-safe miss through a
   pointer, clamped slice, negative lower bound, `in` through a pointer, nil needle, range) and the hypotheses
   of the theorem on these values *)
Example C01_genruntime_examples : X.Bridge.BrRuntime.genruntime_examples_statement.
Proof. exact X.Bridge.BrRuntime.genruntime_examples. Qed.

(* ---- CAPSTONE (BC/SourceCorrect.v): the ties above COMPOSED into one statement over the regenerated terms ---- *)
(* schemes regenerated from compiler/compiler.go -> code P; dispatch loop regenerated from vm/vm.go, run on P from a
   machine in ANY state -> value / failure class / location / call trace of the language definition.  No hand-written
   compiler or VM occurs in the statement; the executable side condition run_guard (the visited states are states on
   which model VM and Go text do not part) is what remains of them. *)
Require X.BC.SourceCorrect X.BC.SchemesItems X.BC.Assemble X.BC.Decode X.BC.AsmRules X.gen.GenAssemble.

Theorem C01_source_pipeline_correct :
  forall fe cfg env c e dc before,
    fn_no_machine fe -> compilable e = true -> (esize e <= dc)%nat ->
    exists P, gen_compile_program GenSchemes.schemes dc (c_mapenv cfg) c e = Some P /\
    exists d0, forall d, (d0 <= d)%nat ->
      VMSteps.run_guard fe cfg env P d init_state = true ->
      option_map VMSteps.erase_stop_mem (VMSteps.interp_run fe cfg env P GenVMSteps.vm_src d before)
      = Some (VMSteps.erase_stop_mem (run_ref fe cfg env c e)).
Proof. exact X.BC.SourceCorrect.source_pipeline_correct. Qed.
Print Assumptions C01_source_pipeline_correct.

(* down to the bytes: regenerated schemes -> items; regenerated emit / makeConstant / placeholder / patchJump /
   calcBackwardJump / encode in the regenerated skeleton of Compile -> Program; structural decoder -> IR; regenerated
   loop -> run_ref.  items_keys_exact: no by-value struct constant with a negative-zero field (C05) *)
Theorem C01_source_bytes_pipeline_correct :
  forall fe cfg env c e dc before,
    fn_no_machine fe -> compilable e = true -> (esize e <= dc)%nat ->
    exists its, X.BC.SchemesItems.gen_items_program GenSchemes.schemes dc (c_mapenv cfg) c e = Some its /\
    forall p, X.BC.AsmRules.src_assemble X.gen.GenAssemble.asm_src its = X.BC.Assemble.CProgram p ->
              X.BC.Assemble.items_keys_exact its = true ->
    exists C, X.BC.Decode.decode p = X.BC.Decode.DOk C /\
    exists d0, forall d, (d0 <= d)%nat ->
      VMSteps.run_guard fe cfg env C d init_state = true ->
      option_map VMSteps.erase_stop_mem (VMSteps.interp_run fe cfg env C GenVMSteps.vm_src d before)
      = Some (VMSteps.erase_stop_mem (run_ref fe cfg env c e)).
Proof. exact X.BC.SourceCorrect.source_bytes_pipeline_correct. Qed.
Print Assumptions C01_source_bytes_pipeline_correct.

(* the regenerated assembler never gets stuck on the regenerated items: a Program, or the recovered error *)
Theorem C01_source_bytes_assembles_or_errors :
  forall mapenv c e dc, compilable e = true -> (esize e <= dc)%nat ->
    exists its, X.BC.SchemesItems.gen_items_program GenSchemes.schemes dc mapenv c e = Some its /\
      (X.BC.AsmRules.src_assemble X.gen.GenAssemble.asm_src its = X.BC.Assemble.CError \/
       exists p, X.BC.AsmRules.src_assemble X.gen.GenAssemble.asm_src its = X.BC.Assemble.CProgram p).
Proof. exact X.BC.SourceCorrect.source_bytes_assembles_or_errors. Qed.
Print Assumptions C01_source_bytes_assembles_or_errors.

(* non-vacuity: filter(map([1, 2, 3], {# + 1}), {# > 2 ? true : false}) on a dirty machine, IR level and byte level
   (hypotheses compilable / run_guard / items_keys_exact, both sides of the conclusion) *)
Example C01_source_pipeline_nonvacuous :
  compilable X.BC.SourceCorrect.cap_ex = true /\
  match X.BC.SourceCorrect.cap_code with
  | Some P =>
      List.length P = 65%nat /\
      VMSteps.run_guard BrVMSteps.w_fe BrVMSteps.w_cfg VNil P 9 init_state = true /\
      VMSteps.interp_run BrVMSteps.w_fe BrVMSteps.w_cfg VNil P GenVMSteps.vm_src 9 X.BC.SourceCorrect.cap_dirty
      = Some (run_ref BrVMSteps.w_fe BrVMSteps.w_cfg VNil CastNone X.BC.SourceCorrect.cap_ex)
  | None => False
  end /\
  run_ref BrVMSteps.w_fe BrVMSteps.w_cfg VNil CastNone X.BC.SourceCorrect.cap_ex
  = Done (VArr TIface [vint 3; vint 4]) (mkRS 8 []).
Proof. exact X.BC.SourceCorrect.source_pipeline_nonvacuous. Qed.

Example C01_source_bytes_pipeline_nonvacuous :
  match X.BC.SourceCorrect.cap_items with
  | Some its =>
      X.BC.Assemble.items_keys_exact its = true /\
      match X.BC.AsmRules.src_assemble X.gen.GenAssemble.asm_src its with
      | X.BC.Assemble.CProgram p =>
          List.length (X.BC.Decode.p_bytes p) = 143%nat /\
          match X.BC.Decode.decode p with
          | X.BC.Decode.DOk C =>
              VMSteps.run_guard BrVMSteps.w_fe BrVMSteps.w_cfg VNil C 9 init_state = true /\
              VMSteps.interp_run BrVMSteps.w_fe BrVMSteps.w_cfg VNil C GenVMSteps.vm_src 9 X.BC.SourceCorrect.cap_dirty
              = Some (run_ref BrVMSteps.w_fe BrVMSteps.w_cfg VNil CastNone X.BC.SourceCorrect.cap_ex)
          | _ => False
          end
      | _ => False
      end
  | None => False
  end.
Proof. exact X.BC.SourceCorrect.source_bytes_pipeline_nonvacuous. Qed.

Example C01_source_pipeline_fn_hypothesis : fn_no_machine BrVMSteps.w_fe.
Proof. exact X.BC.SourceCorrect.w_fe_no_machine. Qed.

(* ---- which parts of run_guard are theorems for compiled code (BC/SourceGuard.v) ---- *)
(* run_guard = (1) pc on an instruction, (2) vm.memory a non-negative Go int, (3) the budget a Go int, (4) number of
   open scopes a Go int, (5) vm_in_scope_at.  (1) holds of every run that does not end in the malformed-bytecode
   failure, (2) of ANY code (the counter only grows and stays below the budget): the capstone needs (3) - a condition
   on the configuration - and the executable run_guard_dyn = (4) + (5) only. *)
Require X.BC.SourceGuard.

Theorem C01_run_guard_of_dyn :
  forall fe cfg env C d r,
    X.BC.SourceGuard.cfg_int cfg = true -> run_code fe cfg env C d = Some r -> not_machine r ->
    X.BC.SourceGuard.run_guard_dyn fe cfg env C d init_state = true -> VMSteps.run_guard fe cfg env C d init_state = true.
Proof. exact X.BC.SourceGuard.run_guard_of_dyn_init. Qed.
Print Assumptions C01_run_guard_of_dyn.

Theorem C01_source_pipeline_correct_dyn :
  forall fe cfg env c e dc before,
    fn_no_machine fe -> compilable e = true -> (esize e <= dc)%nat -> X.BC.SourceGuard.cfg_int cfg = true ->
    exists P, gen_compile_program GenSchemes.schemes dc (c_mapenv cfg) c e = Some P /\
    exists d0, forall d, (d0 <= d)%nat ->
      X.BC.SourceGuard.run_guard_dyn fe cfg env P d init_state = true ->
      option_map VMSteps.erase_stop_mem (VMSteps.interp_run fe cfg env P GenVMSteps.vm_src d before)
      = Some (VMSteps.erase_stop_mem (run_ref fe cfg env c e)).
Proof. exact X.BC.SourceGuard.source_pipeline_correct_dyn. Qed.
Print Assumptions C01_source_pipeline_correct_dyn.

(* (1) is not implied by the rest on arbitrary code: a jump into the middle of an instruction *)
Example C01_alignment_is_not_implied :
  X.BC.SourceGuard.cfg_int BrVMSteps.w_cfg = true /\
  X.BC.SourceGuard.run_guard_dyn BrVMSteps.w_fe BrVMSteps.w_cfg VNil X.BC.SourceGuard.misaligned_code 2 init_state = true /\
  VMSteps.run_guard BrVMSteps.w_fe BrVMSteps.w_cfg VNil X.BC.SourceGuard.misaligned_code 2 init_state = false /\
  run_code BrVMSteps.w_fe BrVMSteps.w_cfg VNil X.BC.SourceGuard.misaligned_code 2 = Some (Stop EMachine noloc rs0).
Proof. exact X.BC.SourceGuard.alignment_is_not_implied. Qed.

(* the hypotheses on the nested example, also under a budget that refuses the run midway *)
Example C01_source_pipeline_dyn_nonvacuous :
  X.BC.SourceGuard.cfg_int BrVMSteps.w_cfg = true /\ X.BC.SourceGuard.cfg_int (mkCfg false 7) = true /\
  match X.BC.SourceCorrect.cap_code with
  | Some P =>
      X.BC.SourceGuard.run_guard_dyn BrVMSteps.w_fe BrVMSteps.w_cfg VNil P 9 init_state = true /\
      X.BC.SourceGuard.run_guard_dyn BrVMSteps.w_fe (mkCfg false 7) VNil P 9 init_state = true /\
      option_map VMSteps.erase_stop_mem (VMSteps.interp_run BrVMSteps.w_fe (mkCfg false 7) VNil P GenVMSteps.vm_src 9 X.BC.SourceCorrect.cap_dirty)
      = Some (VMSteps.erase_stop_mem (run_ref BrVMSteps.w_fe (mkCfg false 7) VNil CastNone X.BC.SourceCorrect.cap_ex))
  | None => False
  end.
Proof. exact X.BC.SourceGuard.source_pipeline_dyn_nonvacuous. Qed.

(* the stack-depth condition of OpMap follows, like the alignment, from the run not ending in the malformed-bytecode
   failure (the model VM stops with it there): what is left, run_guard_num, is arithmetic on Go ints only - open scopes,
   OpInc counter + 1, vm.memory + n (OpArray / OpMap), argument counts <= MaxInt, and 0 <= n at OpMap (a negative size
   is EOther in the model and an empty map in Go: C06_map_negative_size_in_go; not readable off the result) *)
Theorem C01_run_guard_of_num :
  forall fe cfg env C d r,
    X.BC.SourceGuard.cfg_int cfg = true -> run_code fe cfg env C d = Some r -> not_machine r ->
    X.BC.SourceGuard.run_guard_num fe cfg env C d init_state = true -> VMSteps.run_guard fe cfg env C d init_state = true.
Proof. exact X.BC.SourceGuard.run_guard_of_num_init. Qed.
Print Assumptions C01_run_guard_of_num.

Theorem C01_source_pipeline_correct_num :
  forall fe cfg env c e dc before,
    fn_no_machine fe -> compilable e = true -> (esize e <= dc)%nat -> X.BC.SourceGuard.cfg_int cfg = true ->
    exists P, gen_compile_program GenSchemes.schemes dc (c_mapenv cfg) c e = Some P /\
    exists d0, forall d, (d0 <= d)%nat ->
      X.BC.SourceGuard.run_guard_num fe cfg env P d init_state = true ->
      option_map VMSteps.erase_stop_mem (VMSteps.interp_run fe cfg env P GenVMSteps.vm_src d before)
      = Some (VMSteps.erase_stop_mem (run_ref fe cfg env c e)).
Proof. exact X.BC.SourceGuard.source_pipeline_correct_num. Qed.
Print Assumptions C01_source_pipeline_correct_num.

Example C01_map_underflow_is_not_numeric :
  X.BC.SourceGuard.vm_in_scope_num IMap BrVMSteps.w_mapkey_state = true /\
  VMSteps.vm_in_scope IMap BrVMSteps.w_mapkey_state = false /\
  step BrVMSteps.w_fe BrVMSteps.w_cfg VNil [(IMap, noloc)] BrVMSteps.w_mapkey_state = Crash EMachine noloc rs0.
Proof. exact X.BC.SourceGuard.map_underflow_is_not_numeric. Qed.

Example C01_source_pipeline_num_nonvacuous :
  match X.BC.SourceCorrect.cap_code with
  | Some P => X.BC.SourceGuard.run_guard_num BrVMSteps.w_fe BrVMSteps.w_cfg VNil P 9 init_state = true /\
              X.BC.SourceGuard.run_guard_num BrVMSteps.w_fe (mkCfg false 7) VNil P 9 init_state = true
  | None => False
  end.
Proof. exact X.BC.SourceGuard.source_pipeline_num_nonvacuous. Qed.

(* ---- the numeric rest reduced to a bound invariant (BC/SourceBounds.v) ---- *)
(* if every visited state is num_ok B (open scopes <= B; at OpInc the integer variables of the innermost scope in [0, B];
   at OpArray / OpMap the size operand within [.., B] / [0, B]; argument counts <= B) and B + 1 + max 0 budget <= MaxInt
   (slack), the capstone holds with no reference to vm_in_scope.  That compiled code over a length-bounded universe
   (SourceBounds.len_bounded, fe_len_bounded, code_len_bounded) visits only such states is
   SourceBounds.compiled_states_bounded_statement: NOT proved - it needs the intermediate states of compile_correct. *)
Require X.BC.SourceBounds.

Theorem C01_source_pipeline_correct_bounded :
  forall B fe cfg env c e dc before,
    fn_no_machine fe -> compilable e = true -> (esize e <= dc)%nat ->
    X.BC.SourceGuard.cfg_int cfg = true -> X.BC.SourceBounds.slack B cfg = true ->
    exists P, gen_compile_program GenSchemes.schemes dc (c_mapenv cfg) c e = Some P /\
    exists d0, forall d, (d0 <= d)%nat ->
      X.BC.SourceBounds.run_num_ok B fe cfg env P d init_state = true ->
      option_map VMSteps.erase_stop_mem (VMSteps.interp_run fe cfg env P GenVMSteps.vm_src d before)
      = Some (VMSteps.erase_stop_mem (run_ref fe cfg env c e)).
Proof. exact X.BC.SourceBounds.source_pipeline_correct_bounded. Qed.
Print Assumptions C01_source_pipeline_correct_bounded.

Example C01_source_pipeline_bounded_nonvacuous :
  X.BC.SourceBounds.slack 3 BrVMSteps.w_cfg = true /\
  match X.BC.SourceCorrect.cap_code with
  | Some P => X.BC.SourceBounds.run_num_ok 3 BrVMSteps.w_fe BrVMSteps.w_cfg VNil P 9 init_state = true /\
              X.BC.SourceBounds.run_num_ok 2 BrVMSteps.w_fe BrVMSteps.w_cfg VNil P 9 init_state = false
  | None => False
  end.
Proof. vm_compute. repeat split; reflexivity. Qed.

(* ---- method calls whose callee FetchFn finds as a nil map entry: BC/NilSafeFn.v, Bridge/BrRuntime.v ---- *)
Require X.BC.NilSafeFn.

(* `m?.f(args)`: receiver, then ALL arguments, then nil exactly when the receiver is nil or FetchFnNil yields the
   zero reflect.Value (Prim.fetch_fn_zero: nil interface entry of an interface-typed map, nil pointer entry of a
   pointer-typed map) - otherwise the call; for every expression, function environment, environment and state *)
Theorem C01_nilsafe_method_closed_form : forall fe cfg env ctx a x name args s,
  X.Sem.Sem.eval fe cfg env ctx (X.Syn.Ast.EMethod a x name args true) s =
  match X.Sem.Sem.eval fe cfg env ctx x s with
  | X.Sem.Sem.Stop e l s1 => X.Sem.Sem.Stop e l s1
  | X.Sem.Sem.Done v s1 =>
      match X.BC.CompileProofs.evl fe cfg env ctx args s1 with
      | X.BC.CompileProofs.LStop e l s2 => X.Sem.Sem.Stop e l s2
      | X.BC.CompileProofs.LDone vs s2 =>
          if X.BC.NilSafeFn.skips_call v name then X.Sem.Sem.Done X.Base.Value.VNil s2
          else X.Sem.Sem.lift (X.Syn.Ast.aloc a) s2 (X.Sem.Prim.fetch_fn fe v name)
                 (fun id => X.Sem.Sem.do_call fe (X.Syn.Ast.aloc a) false id v vs s2)
      end
  end.
Proof. exact X.BC.NilSafeFn.nilsafe_method_closed_form. Qed.
Print Assumptions C01_nilsafe_method_closed_form.

(* `m.f(args)` on such an entry fails in reflect at the call node, after the arguments *)
Theorem C01_plain_method_closed_form : forall fe cfg env ctx a x name args s,
  X.Sem.Sem.eval fe cfg env ctx (X.Syn.Ast.EMethod a x name args false) s =
  match X.Sem.Sem.eval fe cfg env ctx x s with
  | X.Sem.Sem.Stop e l s1 => X.Sem.Sem.Stop e l s1
  | X.Sem.Sem.Done v s1 =>
      match X.BC.CompileProofs.evl fe cfg env ctx args s1 with
      | X.BC.CompileProofs.LStop e l s2 => X.Sem.Sem.Stop e l s2
      | X.BC.CompileProofs.LDone vs s2 =>
          if X.Sem.Prim.fetch_fn_zero v name then X.Sem.Sem.Stop X.Base.Value.EReflect (X.Syn.Ast.aloc a) s2
          else X.Sem.Sem.lift (X.Syn.Ast.aloc a) s2 (X.Sem.Prim.fetch_fn fe v name)
                 (fun id => X.Sem.Sem.do_call fe (X.Syn.Ast.aloc a) false id v vs s2)
      end
  end.
Proof. exact X.BC.NilSafeFn.plain_method_closed_form. Qed.
Print Assumptions C01_plain_method_closed_form.

(* the zero-Value test is the SOURCE's: the Value the regenerated FetchFn / FetchFnNil of vm/runtime.go return is the
   zero Value exactly when Prim.fetch_fn_zero holds (resp. the receiver is nil or it holds) *)
Theorem C01_fetch_fn_zero_is_source : X.Bridge.BrRuntime.fetch_fn_zero_is_source_statement.
Proof. exact X.Bridge.BrRuntime.fetch_fn_zero_is_source. Qed.
Print Assumptions C01_fetch_fn_zero_is_source.

(* the model as it was before (fetch_fn alone deciding) does not answer like the code on the probe's first input *)
Theorem C01_method_zero_entry_old_model_refuted : ~ X.BC.NilSafeFn.old_model_agrees_with_code.
Proof. exact X.BC.NilSafeFn.old_model_refuted. Qed.

(* non-vacuity: the twelve inputs of the Go probe (nil interface / typed nil pointer / non-callable / missing entries,
   pointer-typed map, nil receiver; plain and nil-safe) through the reference semantics AND the model compiler's code
   on the model VM, with the classes vm.Run gave *)
Example C01_method_zero_entry_examples : X.BC.NilSafeFn.probe_replayed_statement.
Proof. exact X.BC.NilSafeFn.probe_replayed. Qed.

(* Props/C01.v — placeholder until BC/CompileProofs.v lands *)
From Coq Require Import ZArith.
Require Import X.Sem.Sem.
Example C01_placeholder : rs0 = rs0.
Proof. reflexivity. Qed.

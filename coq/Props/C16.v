(* Props/C16.v — Names the checker accepts are exactly those the VM resolves.
   Only statements, each closed by `exact`, with Print Assumptions, and non-vacuity Examples.

   Model: Ty/TypesTable.v (create_types_table/ffs = conf.CreateTypesTable/FieldsFromStruct,
   field_type/method_type/check_access = checker, fetch/fetch_fn/run_access = vm, doc_names = docgen);
   reference: go_resolve (Ty/Types.v), the selector rule of the Go specification.
   `perm` is the order in which Go iterates a map; wf_tenv is what the Go compiler guarantees about
   declarations (distinct field and method names, embedded fields T or *T); fuel_ok says the
   embedding is acyclic (on `type T struct{ *T }` the real code overflows the stack);
   populate te keys k T is the fully populated value (every pointer to a struct non-nil, every
   map[string]T holding the keys `keys`) to nesting depth k. *)
From Coq Require Import ZArith Bool List String Permutation.
Require Import X.Base.Num X.Base.Value X.Ty.Types X.Ty.TypesTable X.Ty.TyProofs.
Import ListNotations.
Open Scope string_scope.
Open Scope nat_scope.

(* ------------------------------------------------------------------------------------------
   C16_accepted_resolves: identifier / member-path, method and function positions.
   Since fix b9d2c0f (conf.FieldsFromStruct resolves every name with Go's own rule) the function
   position holds at FULL strength and bare identifiers need one carve-out only (method names).
   The full statements of the member-path, method and map-call positions are still FALSE of the
   tree (checker/types.go fieldType / methodType, vm/runtime.go FetchFn): each open finding has a
   decidable carve-out predicate and a refutation with a replayed witness. *)
Definition C16_accepted_resolves_full_statement : Prop :=
  accepted_resolves_path_full_statement /\ accepted_resolves_method_full_statement /\
  accepted_resolves_func_full_statement /\ accepted_resolves_map_func_full_statement.

Theorem C16_accepted_resolves_refuted_unexported_member :
  K_unexported_step Wit.te (TStruct "WithUnexp") "lower" = true /\ ~ accepted_resolves_path_full_statement.
Proof. exact accepted_resolves_refuted_unexported. Qed.
Print Assumptions C16_accepted_resolves_refuted_unexported_member.

Theorem C16_accepted_resolves_refuted_unexported_member_call :
  K_unexported_step Wit.te (TStruct "WithUnexp") "fn" = true /\ ~ accepted_resolves_method_full_statement.
Proof. exact accepted_resolves_method_refuted_unexported. Qed.
Print Assumptions C16_accepted_resolves_refuted_unexported_member_call.

Theorem C16_accepted_resolves_refuted_method_ident :
  K_method_ident Wit.te (TStruct "M1") "Foo" = true /\ ~ accepted_resolves_path_full_statement.
Proof. exact accepted_resolves_refuted_method_ident. Qed.
Print Assumptions C16_accepted_resolves_refuted_method_ident.

Theorem C16_accepted_resolves_refuted_member_ambiguous :
  K_member_multi Wit.te (TStruct "SameDepth") "X" = true /\ ~ accepted_resolves_path_full_statement.
Proof. exact accepted_resolves_refuted_member_ambiguous. Qed.
Print Assumptions C16_accepted_resolves_refuted_member_ambiguous.

Theorem C16_accepted_resolves_refuted_member_dfs :
  K_member_multi Wit.te (TStruct "DiffDepthRev") "X" = true /\ ~ accepted_resolves_path_full_statement.
Proof. exact accepted_resolves_refuted_member_dfs. Qed.
Print Assumptions C16_accepted_resolves_refuted_member_dfs.

Theorem C16_accepted_resolves_refuted_promoted_method :
  K_promoted_only Wit.te (TStruct "AmbM") "Foo" = true /\ ~ accepted_resolves_method_full_statement.
Proof. exact accepted_resolves_method_refuted_promoted. Qed.
Print Assumptions C16_accepted_resolves_refuted_promoted_method.

Theorem C16_accepted_resolves_refuted_funcmap :
  K_funcmap Wit.fn0 = true /\ ~ accepted_resolves_map_func_full_statement.
Proof. exact accepted_resolves_map_func_refuted. Qed.
Print Assumptions C16_accepted_resolves_refuted_funcmap.

Theorem C16_accepted_resolves_full_statement_refuted : ~ C16_accepted_resolves_full_statement.
Proof. intros [H _]. exact (proj2 accepted_resolves_refuted_member_ambiguous H). Qed.
Print Assumptions C16_accepted_resolves_full_statement_refuted.

(* identifier and member path n0.n1...: struct environments (T or *T).  Scope hypotheses:
   path_scope (every base on the path is a struct / pointer to struct with acyclic embedding, or
   a map[string]T whose key is populated - accesses through interface{} are dynamically typed).
   Carve-outs: K_method_ident for n0; K_unexported_step, K_member_multi for the MEMBER steps. *)
Theorem C16_accepted_resolves_path : forall te perm, valid_perm perm -> wf_tenv te = true ->
  forall T sn tb n0 ns tau keys k,
  structish T = Some sn ->
  create_types_table te perm (EStruct T) = Some tb ->
  check_access te tb (APath n0 ns) = LFound (CVal tau) ->
  (forall t0, check_ident tb n0 = LFound t0 -> path_scope te keys t0 ns = true) ->
  S (List.length ns) * fuel0 te <= k ->
  K_method_ident te T n0 = false ->
  (forall t0, check_ident tb n0 = LFound t0 ->
     path_K te (K_unexported_step te) t0 ns = false /\ path_K te (K_member_multi te) t0 ns = false) ->
  exists v, run_access te false (populate te keys k T) (APath n0 ns) = Ok v /\ conforms v tau.
Proof. exact accepted_resolves_path. Qed.
Print Assumptions C16_accepted_resolves_path.

(* bare identifier: every accepted name that is no method resolves (unexported fields are no
   longer accepted: fix b9d2c0f) *)
Theorem C16_accepted_resolves_ident : forall te perm, valid_perm perm -> wf_tenv te = true ->
  forall T sn tb n0 tau keys k,
  structish T = Some sn ->
  create_types_table te perm (EStruct T) = Some tb ->
  check_access te tb (APath n0 []) = LFound (CVal tau) ->
  fuel0 te <= k ->
  K_method_ident te T n0 = false ->
  exists v, run_access te false (populate te keys k T) (APath n0 []) = Ok v /\ conforms v tau.
Proof. exact accepted_resolves_ident. Qed.
Print Assumptions C16_accepted_resolves_ident.

(* method position n0.n1...m(): the callable is a method of the base type's method set
   (K_promoted_only = false) or a function-valued field on which methodType and fieldType agree *)
Theorem C16_accepted_resolves_method : forall te perm, valid_perm perm -> wf_tenv te = true ->
  forall T sn tb n0 ns m c keys k,
  structish T = Some sn ->
  create_types_table te perm (EStruct T) = Some tb ->
  check_access te tb (AMethod n0 ns m) = LFound c ->
  (forall t0, check_ident tb n0 = LFound t0 -> path_scope te keys t0 ns = true) ->
  S (S (List.length ns)) * fuel0 te <= k ->
  K_method_ident te T n0 = false ->
  (forall t0, check_ident tb n0 = LFound t0 ->
     path_K te (K_unexported_step te) t0 ns = false /\ path_K te (K_member_multi te) t0 ns = false) ->
  (forall t0 t, check_ident tb n0 = LFound t0 -> check_path te t0 ns = LFound t ->
     K_promoted_only te t m = false /\
     (method_by_name te t m = None ->
        exists sn' f, structish t = Some sn' /\ method_type te (fuel0 te) t m = LFound (f, false)
                      /\ field_type te (fuel0 te) t m = LFound f
                      /\ scope_step te keys t m = true /\ K_unexported_step te t m = false /\ K_member_multi te t m = false)) ->
  exists v, run_access te false (populate te keys k T) (AMethod n0 ns m) = Ok v /\ cres_conforms v c.
Proof. exact accepted_resolves_method. Qed.
Print Assumptions C16_accepted_resolves_method.

(* function position n(): methods of the environment and function-valued fields - FULL strength *)
Theorem C16_accepted_resolves_func : forall te perm, valid_perm perm -> wf_tenv te = true ->
  forall T sn tb n c keys k,
  structish T = Some sn ->
  create_types_table te perm (EStruct T) = Some tb ->
  check_access te tb (AFunc n) = LFound c -> fuel0 te <= k ->
  exists v, run_access te false (populate te keys k T) (AFunc n) = Ok v /\ cres_conforms v c.
Proof. exact accepted_resolves_func. Qed.
Print Assumptions C16_accepted_resolves_func.

(* map environments map[string]T (typed) and map[string]interface{} (OpFetchMap) *)
Theorem C16_accepted_resolves_map_path : forall te perm, valid_perm perm -> wf_tenv te = true ->
  forall e entries tb n0 ns tau keys k, NoDup (map fst entries) ->
  create_types_table te perm (EMap (TMap TString e) entries) = Some tb ->
  check_access te tb (APath n0 ns) = LFound (CVal tau) ->
  (forall t0, check_ident tb n0 = LFound t0 -> path_scope te keys t0 ns = true) ->
  List.length ns * fuel0 te <= k ->
  (forall t0, check_ident tb n0 = LFound t0 ->
     path_K te (K_unexported_step te) t0 ns = false /\ path_K te (K_member_multi te) t0 ns = false) ->
  exists v, run_access te (is_map_env (EMap (TMap TString e) entries))
              (populate_env te keys k (EMap (TMap TString e) entries)) (APath n0 ns) = Ok v /\ conforms v tau.
Proof. exact accepted_resolves_map_path. Qed.
Print Assumptions C16_accepted_resolves_map_path.

Theorem C16_accepted_resolves_map_func : forall te perm, valid_perm perm ->
  forall e entries tb n c keys k, NoDup (map fst entries) ->
  create_types_table te perm (EMap (TMap TString e) entries) = Some tb ->
  check_access te tb (AFunc n) = LFound c ->
  K_funcmap e = false ->
  exists v, run_access te (is_map_env (EMap (TMap TString e) entries))
              (populate_env te keys k (EMap (TMap TString e) entries)) (AFunc n) = Ok v /\ cres_conforms v c.
Proof. exact accepted_resolves_map_func. Qed.
Print Assumptions C16_accepted_resolves_map_func.

(* the two top-level positions together *)
Theorem C16_accepted_resolves :
  (forall te perm, valid_perm perm -> wf_tenv te = true ->
   forall T sn tb n0 ns tau keys k,
   structish T = Some sn ->
   create_types_table te perm (EStruct T) = Some tb ->
   check_access te tb (APath n0 ns) = LFound (CVal tau) ->
   (forall t0, check_ident tb n0 = LFound t0 -> path_scope te keys t0 ns = true) ->
   S (List.length ns) * fuel0 te <= k ->
   K_method_ident te T n0 = false ->
   (forall t0, check_ident tb n0 = LFound t0 ->
      path_K te (K_unexported_step te) t0 ns = false /\ path_K te (K_member_multi te) t0 ns = false) ->
   exists v, run_access te false (populate te keys k T) (APath n0 ns) = Ok v /\ conforms v tau)
  /\ accepted_resolves_func_full_statement.
Proof. exact (conj accepted_resolves_path accepted_resolves_func). Qed.
Print Assumptions C16_accepted_resolves.

(* ------------------------------------------------------------------------------------------
   C16_struct_complete: what Go resolves to an exported member is accepted, with that type.
   FULL strength since fix b9d2c0f (the carve-outs K_shadow_order / K_depth are gone). *)
Definition C16_struct_complete_full_statement : Prop := struct_complete_full_statement.

Theorem C16_struct_complete : forall te perm, valid_perm perm -> wf_tenv te = true ->
  forall T sn tb name p tau,
  structish T = Some sn -> fuel_ok te (fuel0 te) (TStruct sn) = true ->
  create_types_table te perm (EStruct T) = Some tb ->
  go_resolve te T name = RField p tau true ->
  check_ident tb name = LFound tau.
Proof. exact struct_complete_fields. Qed.
Print Assumptions C16_struct_complete.

Theorem C16_struct_complete_methods : forall te perm, valid_perm perm -> wf_tenv te = true ->
  forall T sn tb name mt,
  structish T = Some sn -> fuel_ok te (fuel0 te) (TStruct sn) = true ->
  create_types_table te perm (EStruct T) = Some tb ->
  go_resolve te T name = RMethod mt ->
  tget name tb = Some (method_tag mt) /\
  (forall fn ret, is_func_type mt = Some fn -> call_type fn = Some ret ->
     check_access te tb (AFunc name) = LFound (CCall fn true ret)).
Proof. exact struct_complete_methods. Qed.
Print Assumptions C16_struct_complete_methods.

(* both directions at once: an identifier that is no method name is accepted with type tau
   EXACTLY when Go resolves it to an exported field of type tau *)
Theorem C16_ident_accepted_iff_go : forall te perm, valid_perm perm -> wf_tenv te = true ->
  forall T sn tb name tau,
  structish T = Some sn -> fuel_ok te (fuel0 te) (TStruct sn) = true ->
  create_types_table te perm (EStruct T) = Some tb ->
  method_by_name te T name = None ->
  (check_ident tb name = LFound tau <-> exists p, go_resolve te T name = RField p tau true).
Proof. exact ident_accepted_iff_go. Qed.
Print Assumptions C16_ident_accepted_iff_go.

(* a non-ambiguous entry of FieldsFromStruct is the unique shallowest field of Go's rule, and exported *)
Theorem C16_table_entry_is_go_field : forall te,
  forall n t sn name tg, dereference t = TStruct sn ->
  ffs_name te n t name = Some tg -> tg_amb tg = false ->
  exists d p f, resolves_at te sn name d p f /\ tg = field_tag f /\ fd_exp f = true /\ d < fuel0 te.
Proof. exact ffs_name_sound. Qed.
Print Assumptions C16_table_entry_is_go_field.

(* historical (findings fixed by b9d2c0f), about the OLD algorithm kept as ffs_old *)
Example C16_fixed_shadow_order_old_algorithm :
  dup_class Wit.te (fuel0 Wit.te) (TStruct "ShadowBefore") "X" = DShadowOrder /\
  tget "X" (Wit.tbl_old "ShadowBefore") = Some amb_tag /\
  go_resolve Wit.te (TStruct "ShadowBefore") "X" = RField [0] TString true /\
  check_ident (Wit.tbl (EStruct (TStruct "ShadowBefore"))) "X" = LFound TString.
Proof. exact old_table_shadow_order. Qed.

Example C16_fixed_depth_old_algorithm :
  dup_class Wit.te (fuel0 Wit.te) (TStruct "DiffDepth") "X" = DMulti /\
  tget "X" (Wit.tbl_old "DiffDepth") = Some amb_tag /\
  go_resolve Wit.te (TStruct "DiffDepth") "X" = RField [0; 0] Wit.tint true /\
  check_ident (Wit.tbl (EStruct (TStruct "DiffDepth"))) "X" = LFound Wit.tint.
Proof. exact old_table_depth. Qed.

Example C16_fixed_unexported_top_level :
  tget "lower" (Wit.tbl_old "WithUnexp") = Some (mkTag Wit.tint false false) /\
  tget "lower" (Wit.tbl (EStruct (TStruct "WithUnexp"))) = None /\
  check_access Wit.te (Wit.tbl (EStruct (TStruct "WithUnexp"))) (AFunc "fn") = LMissing /\
  tget "U" (Wit.tbl (EStruct (TStruct "WithUnexp"))) = Some (mkTag Wit.tint false false) /\
  tget "unexp" (Wit.tbl (EStruct (TStruct "WithUnexp"))) = None.
Proof. exact old_table_unexported. Qed.

(* ------------------------------------------------------------------------------------------
   C16_doc_exact: the documentation lists exactly the accepted top-level names and the fixed
   operator / builtin names (holds of the pinned tree without carve-out). *)
Theorem C16_doc_exact : forall te perm, valid_perm perm ->
  forall env tb names, create_types_table te perm env = Some tb -> doc_names te perm env = Some names ->
  forall n, In n names <-> ((exists tau, check_ident tb n = LFound tau) \/ In n doc_fixed).
Proof. exact doc_exact. Qed.
Print Assumptions C16_doc_exact.

(* ------------------------------------------------------------------------------------------
   C16_perm_independent: the table (hence acceptance and documentation) does not depend on the
   order in which Go iterates FieldsFromStruct(f.Type), MapKeys() or the table. *)
Theorem C16_perm_independent : forall te perm1 perm2, valid_perm perm1 -> valid_perm perm2 -> wf_tenv te = true ->
  forall env, match env with EMap _ entries => NoDup (map fst entries) | EStruct _ => True end ->
  match create_types_table te perm1 env, create_types_table te perm2 env with
  | Some t1, Some t2 => forall n, tget n t1 = tget n t2
  | None, None => True
  | _, _ => False
  end.
Proof. exact perm_independent. Qed.
Print Assumptions C16_perm_independent.

Theorem C16_ffs_is_function_of_declarations : forall te perm, valid_perm perm ->
  forall n t tb, ffs te perm n t = Some tb -> NoDup (map fst tb) /\ forall name, tget name tb = ffs_name te n t name.
Proof. exact ffs_spec. Qed.
Print Assumptions C16_ffs_is_function_of_declarations.

Theorem C16_doc_perm_independent : forall te perm1 perm2, valid_perm perm1 -> valid_perm perm2 -> wf_tenv te = true ->
  forall env n1 n2, match env with EMap _ entries => NoDup (map fst entries) | EStruct _ => True end ->
  doc_names te perm1 env = Some n1 -> doc_names te perm2 env = Some n2 -> forall n, In n n1 <-> In n n2.
Proof. exact doc_perm_independent. Qed.
Print Assumptions C16_doc_perm_independent.

(* ------------------------------------------------------------------------------------------
   non-vacuity: non-trivial inputs meet every hypothesis *)
Definition holder_tb : table := Wit.tbl (EStruct HolderT).

(* P.X: P *Deeper, X two embedding levels down, one of them through a pointer *)
Example C16_path_nonvacuous :
  wf_tenv Wit.te = true /\ structish HolderT = Some "Holder" /\ fuel_ok Wit.te (fuel0 Wit.te) HolderT = true /\
  create_types_table Wit.te perm_rev (EStruct HolderT) <> None /\
  check_access Wit.te holder_tb (APath "P" ["X"]) = LFound (CVal TString) /\
  path_scope Wit.te ["k"] (TPtr (TStruct "Deeper")) ["X"] = true /\
  K_method_ident Wit.te HolderT "P" = false /\
  path_K Wit.te (K_unexported_step Wit.te) (TPtr (TStruct "Deeper")) ["X"] = false /\
  path_K Wit.te (K_member_multi Wit.te) (TPtr (TStruct "Deeper")) ["X"] = false /\
  go_resolve Wit.te (TPtr (TStruct "Deeper")) "X" = RField [0; 0; 0] TString true /\
  run_access Wit.te false (populate Wit.te ["k"] Wit.K HolderT) (APath "P" ["X"]) = Ok (VStr "").
Proof. vm_compute. repeat split; discriminate. Qed.

(* MS.k.Y: through a map[string]*Inner member *)
Example C16_path_map_member_nonvacuous :
  check_access Wit.te holder_tb (APath "MS" ["k"; "Y"]) = LFound (CVal TString) /\
  path_scope Wit.te ["k"] (TMap TString (TPtr (TStruct "Inner"))) ["k"; "Y"] = true /\
  run_access Wit.te false (populate Wit.te ["k"] Wit.K HolderT) (APath "MS" ["k"; "Y"]) = Ok (VStr "").
Proof. vm_compute. repeat split. Qed.

(* PM.PFoo(): pointer-receiver method through a pointer member; Foo(): promoted method of the environment;
   Fs.Fn(): exported function-valued field *)
Example C16_method_nonvacuous :
  check_access Wit.te holder_tb (AMethod "PM" [] "PFoo") = LFound (CCall (TFunc [TPtr (TStruct "M1")] false [TString]) true TString) /\
  K_promoted_only Wit.te (TPtr (TStruct "M1")) "PFoo" = false /\
  run_access Wit.te false (populate Wit.te ["k"] Wit.K HolderT) (AMethod "PM" [] "PFoo") = Ok (VFunc "PFoo" (TFunc [] false [TString])) /\
  check_access Wit.te holder_tb (AFunc "Foo") = LFound (CCall (TFunc [HolderT] false [Wit.tint]) true Wit.tint) /\
  run_access Wit.te false (populate Wit.te ["k"] Wit.K HolderT) (AFunc "Foo") = Ok (VFunc "Foo" Wit.fn0) /\
  check_access Wit.te holder_tb (AMethod "Fs" [] "Fn") = LFound (CCall Wit.fn0 false Wit.tint) /\
  field_type Wit.te (fuel0 Wit.te) (TStruct "WithUnexp") "Fn" = LFound Wit.fn0 /\
  method_type Wit.te (fuel0 Wit.te) (TStruct "WithUnexp") "Fn" = LFound (Wit.fn0, false) /\
  run_access Wit.te false (populate Wit.te ["k"] Wit.K HolderT) (AMethod "Fs" [] "Fn") = Ok (VFunc "" Wit.fn0).
Proof. vm_compute. repeat split. Qed.

(* a map[string]interface{} environment with a struct and a function member *)
Definition mapenv : envty := EMap (TMap TString TIface) [("f", Wit.fn0); ("h", TPtr HolderT)].
Example C16_map_nonvacuous :
  check_access Wit.te (Wit.tbl mapenv) (APath "h" ["P"; "W"]) = LFound (CVal (TNum KF64)) /\
  run_access Wit.te (is_map_env mapenv) (populate_env Wit.te ["k"] Wit.K mapenv) (APath "h" ["P"; "W"]) = Ok (VNum (zero_num KF64)) /\
  K_funcmap TIface = false /\
  check_access Wit.te (Wit.tbl mapenv) (AFunc "f") = LFound (CCall Wit.fn0 false Wit.tint) /\
  run_access Wit.te (is_map_env mapenv) (populate_env Wit.te ["k"] Wit.K mapenv) (AFunc "f") = Ok (VFunc "" Wit.fn0).
Proof. vm_compute. repeat split. Qed.

(* completeness: correct shadowing (own field declared after the embedded struct), a field promoted
   through a pointer from depth 3, a promoted method *)
Example C16_complete_nonvacuous :
  go_resolve Wit.te (TStruct "ShadowAfter") "X" = RField [1] TString true /\
  check_ident (Wit.tbl (EStruct (TStruct "ShadowAfter"))) "X" = LFound TString /\
  go_resolve Wit.te (TPtr (TStruct "Deeper")) "Z" = RField [0; 0; 1] TBool true /\
  check_ident (Wit.tbl (EStruct (TPtr (TStruct "Deeper")))) "Z" = LFound TBool /\
  go_resolve Wit.te (TPtr HolderT) "PFoo" = RMethod (TFunc [TPtr HolderT] false [TString]) /\
  go_resolve Wit.te (TStruct "SameDepth") "X" = RAmbiguous /\
  check_ident (Wit.tbl (EStruct (TStruct "SameDepth"))) "X" = LMissing /\
  go_resolve Wit.te (TStruct "DiffDepthRev") "X" = RField [1; 0] Wit.tint true /\
  check_ident (Wit.tbl (EStruct (TStruct "DiffDepthRev"))) "X" = LFound Wit.tint.
Proof. vm_compute. repeat split. Qed.

Example C16_doc_nonvacuous :
  doc_names Wit.te perm_id (EStruct (TStruct "SameDepth")) =
  Some (["Inner2"; "Z"; "Inner"; "Y"] ++ doc_fixed)%list /\
  tget "X" (Wit.tbl (EStruct (TStruct "SameDepth"))) = Some amb_tag.
Proof. vm_compute. split; reflexivity. Qed.

(* an embedding cycle is outside every theorem: the model runs out of fuel where the real
   FieldsFromStruct recurses until the Go runtime kills the process (replayed) *)
Example C16_cycle_out_of_fuel :
  let te := [("T", mkStruct [mkField "T" (TPtr (TStruct "T")) true true; mkField "V" (TNum KInt) false true] [] [])] in
  wf_tenv te = true /\ fuel_ok te (fuel0 te) (TStruct "T") = false /\
  create_types_table te perm_id (EStruct (TStruct "T")) = None /\
  go_resolve te (TStruct "T") "V" = RField [1] (TNum KInt) true /\ go_resolve te (TStruct "T") "Q" = RNone.
Proof. vm_compute. repeat split. Qed.

(* ------------------------------------------------------------------------------------------
   The model table IS the source (GenTables): conf/types_table.go is read statement by statement by
   /verif/translator/gen_tables.go on every run into gen/GenTables.v (CreateTypesTable,
   FieldsFromStruct, dereference as terms of the DSL of Ty/TableRules.v); interpreting the
   REGENERATED statements gives the hand model, for every declaration set, iteration order and
   environment of the model's fragment.  reflect (Kind, Elem, NumField, Field, FieldByName,
   NumMethod, Method, MapKeys, MapIndex) is the oracle on the type descriptions of Ty/Types.v.
   Fragment (decidable): `env_in_fragment`, `te_plain` - no declared type whose underlying type is
   a pointer or struct along a pointer chain (`type P *S`, `type N S`), no pointer to a map as
   environment (Go panics in MapKeys), map keys of kind String are `string` itself.  Outside it
   the statement is false: the hand model is narrower than Go's reflect (C16_model_table_is_source_refuted;
   replayed on the real CreateTypesTable). *)
Require X.Ty.TableRules X.gen.GenTables X.Bridge.BrTables.

Theorem C16_gentables_recognised : forallb X.Ty.TableRules.fdef_ok X.gen.GenTables.funcs = true.
Proof. exact X.Bridge.BrTables.gentables_recognised. Qed.
Print Assumptions C16_gentables_recognised.

Theorem C16_model_table_is_source : forall te perm env tb fuel,
  (forall l e, In e (perm l) -> In e l) ->
  create_types_table te perm env = Some tb ->
  X.Ty.TableRules.env_in_fragment env = true -> X.Ty.TableRules.te_plain te = true ->
  X.Ty.TableRules.tables_fuel te <= fuel ->
  X.Ty.TableRules.gen_create_types_table X.gen.GenTables.funcs te perm fuel env = X.Ty.TableRules.Got tb.
Proof. exact X.Bridge.BrTables.create_types_table_bridge. Qed.
Print Assumptions C16_model_table_is_source.

(* under the hypothesis the theorems of this file use for `perm` *)
Theorem C16_model_table_is_source_perm : forall te perm env tb fuel,
  (forall l, Permutation (perm l) l) ->
  create_types_table te perm env = Some tb ->
  X.Ty.TableRules.env_in_fragment env = true -> X.Ty.TableRules.te_plain te = true ->
  X.Ty.TableRules.tables_fuel te <= fuel ->
  X.Ty.TableRules.gen_create_types_table X.gen.GenTables.funcs te perm fuel env = X.Ty.TableRules.Got tb.
Proof.
  exact (fun te perm env tb fuel Hp =>
           X.Bridge.BrTables.create_types_table_bridge te perm env tb fuel (fun l e H => Permutation_in e (Hp l) H)).
Qed.
Print Assumptions C16_model_table_is_source_perm.

Theorem C16_model_fields_from_struct_is_source : forall te perm n t tb fuel,
  ffs te perm n t = Some tb -> X.Ty.TableRules.plain t = true -> X.Ty.TableRules.te_plain te = true ->
  n + Nat.max (X.Ty.TableRules.ptr_depth t) (X.Ty.TableRules.te_ptr_depth te) + 1 < fuel ->
  X.Ty.TableRules.gen_fields_from_struct X.gen.GenTables.funcs te perm fuel t = X.Ty.TableRules.Got tb.
Proof. exact X.Bridge.BrTables.fields_from_struct_bridge. Qed.
Print Assumptions C16_model_fields_from_struct_is_source.

Theorem C16_model_dereference_is_source : forall t fuel,
  X.Ty.TableRules.plain t = true -> X.Ty.TableRules.ptr_depth t < fuel ->
  X.Ty.TableRules.gen_dereference X.gen.GenTables.funcs fuel t = X.Ty.TableRules.Got (dereference t).
Proof. exact X.Bridge.BrTables.dereference_bridge. Qed.
Print Assumptions C16_model_dereference_is_source.

Definition C16_model_table_is_source_full_statement : Prop := X.Bridge.BrTables.create_types_table_bridge_full_statement.
Theorem C16_model_table_is_source_refuted :
  create_types_table X.Bridge.BrTables.TWit.te perm_id X.Bridge.BrTables.TWit.named_ptr = Some [] /\
  X.Ty.TableRules.gen_create_types_table X.gen.GenTables.funcs X.Bridge.BrTables.TWit.te perm_id
      (X.Ty.TableRules.tables_fuel X.Bridge.BrTables.TWit.te) X.Bridge.BrTables.TWit.named_ptr
    = X.Ty.TableRules.Got [("Y", mkTag TString false false); ("X", mkTag (TNum KInt) false false)] /\
  create_types_table X.Bridge.BrTables.TWit.te perm_id X.Bridge.BrTables.TWit.ptr_map = Some [("a", mkTag TBool false false)] /\
  X.Ty.TableRules.gen_create_types_table X.gen.GenTables.funcs X.Bridge.BrTables.TWit.te perm_id
      (X.Ty.TableRules.tables_fuel X.Bridge.BrTables.TWit.te) X.Bridge.BrTables.TWit.ptr_map = X.Ty.TableRules.Panics /\
  create_types_table X.Bridge.BrTables.TWit.te perm_id X.Bridge.BrTables.TWit.named_key = Some [] /\
  X.Ty.TableRules.gen_create_types_table X.gen.GenTables.funcs X.Bridge.BrTables.TWit.te perm_id
      (X.Ty.TableRules.tables_fuel X.Bridge.BrTables.TWit.te) X.Bridge.BrTables.TWit.named_key
    = X.Ty.TableRules.Got [("a", mkTag TBool false false)] /\
  ~ C16_model_table_is_source_full_statement.
Proof. exact X.Bridge.BrTables.create_types_table_bridge_refuted. Qed.
Print Assumptions C16_model_table_is_source_refuted.

(* non-vacuity: *Outer (embedded pointer, unexported field, methods on both receivers) and a map
   environment are inside the fragment; the interpreted source yields the model's six-entry table *)
Example C16_model_table_is_source_nonvacuous :
  X.Ty.TableRules.env_in_fragment X.Bridge.BrTables.TWit.outer_ptr = true /\
  X.Ty.TableRules.env_in_fragment X.Bridge.BrTables.TWit.a_map = true /\
  X.Ty.TableRules.te_plain X.Bridge.BrTables.TWit.te = true /\
  (forall l e, In e (perm_rev l) -> In e l) /\
  exists tb, create_types_table X.Bridge.BrTables.TWit.te perm_rev X.Bridge.BrTables.TWit.outer_ptr = Some tb /\ List.length tb = 6.
Proof.
  exact (conj (proj1 X.Bridge.BrTables.create_types_table_bridge_inhabited)
        (conj (proj1 (proj2 X.Bridge.BrTables.create_types_table_bridge_inhabited))
        (conj (proj1 (proj2 (proj2 X.Bridge.BrTables.create_types_table_bridge_inhabited)))
        (conj X.Bridge.BrTables.perm_rev_sub
              (ex_intro _ _ (conj (proj1 (proj2 (proj2 (proj2 X.Bridge.BrTables.create_types_table_bridge_inhabited)))) eq_refl)))))).
Qed.

(* ---- P6: tie by regeneration of docgen.CreateDoc (docgen/docgen.go) ----
   gen/GenDocgen.v holds the package-level `Operators` slice, the sorted keys of the `Builtins` map
   literal and the body of CreateDoc statement by statement (translator/gen_docgen.go); Ty/DocRules.v
   interprets it to the key set of c.Variables (a duplicate-free list: a later store under a present
   key overwrites).  For EVERY types table and every visiting order of the two Go maps its elements
   are those of the model's doc_names; no side condition.  The comparison is between sets because the
   model's list repeats a name when a map environment has a key called like an operator / builtin. *)
Require X.Ty.DocRules X.gen.GenDocgen X.Bridge.BrDocgen X.Bridge.BrDocgenEnv.

Theorem C16_gendocgen_recognised : X.Ty.DocRules.doc_ok X.gen.GenDocgen.doc_src = true.
Proof. exact X.Bridge.BrDocgen.gendocgen_recognised. Qed.
Print Assumptions C16_gendocgen_recognised.

Theorem C16_model_doc_operators_is_source : X.gen.GenDocgen.operators = doc_operators.
Proof. exact X.Bridge.BrDocgen.operators_bridge. Qed.
Print Assumptions C16_model_doc_operators_is_source.

Theorem C16_model_doc_builtins_is_source :
  Permutation X.gen.GenDocgen.builtin_keys doc_builtins /\ NoDup X.gen.GenDocgen.builtin_keys.
Proof. exact (conj X.Bridge.BrDocgen.builtin_keys_bridge X.Bridge.BrDocgen.builtin_keys_nodup). Qed.
Print Assumptions C16_model_doc_builtins_is_source.

(* the regenerated CreateDoc on an arbitrary table: the exact key list, then its elements *)
Theorem C16_model_doc_keys_is_source : forall perm permk (tb : table),
  (forall l e, In e (perm l) <-> In e l) ->
  (forall l k, In k (permk l) <-> In k l) ->
  exists keys, X.Ty.DocRules.run_doc X.gen.GenDocgen.doc_src perm permk tb = X.Ty.DocRules.Got keys /\ NoDup keys /\
               forall k, In k keys <-> In k (doc_vars tb ++ doc_fixed).
Proof. exact X.Bridge.BrDocgen.create_doc_keys_bridge. Qed.
Print Assumptions C16_model_doc_keys_is_source.

Theorem C16_model_doc_names_is_source : forall te tperm env names perm permk,
  (forall l, Permutation (perm l) l) ->
  (forall l, Permutation (permk l) l) ->
  doc_names te tperm env = Some names ->
  exists tb keys, create_types_table te tperm env = Some tb /\
                  X.Ty.DocRules.run_doc X.gen.GenDocgen.doc_src perm permk tb = X.Ty.DocRules.Got keys /\ NoDup keys /\
                  forall k, In k keys <-> In k names.
Proof. exact X.Bridge.BrDocgen.doc_names_bridge_perm. Qed.
Print Assumptions C16_model_doc_names_is_source.

(* both regenerated functions composed: the table is the interpreted source of conf.CreateTypesTable
   (inside the fragment of C16_model_table_is_source), the keys the interpreted source of CreateDoc *)
Theorem C16_model_doc_names_is_source_from_env : forall te tperm env names perm permk fuel,
  (forall l e, In e (tperm l) -> In e l) ->
  (forall l e, In e (perm l) <-> In e l) ->
  (forall l k, In k (permk l) <-> In k l) ->
  doc_names te tperm env = Some names ->
  X.Ty.TableRules.env_in_fragment env = true -> X.Ty.TableRules.te_plain te = true ->
  X.Ty.TableRules.tables_fuel te <= fuel ->
  exists tb keys,
    X.Ty.TableRules.gen_create_types_table X.gen.GenTables.funcs te tperm fuel env = X.Ty.TableRules.Got tb /\
    X.Ty.DocRules.run_doc X.gen.GenDocgen.doc_src perm permk tb = X.Ty.DocRules.Got keys /\
    NoDup keys /\ forall k, In k keys <-> In k names.
Proof. exact X.Bridge.BrDocgenEnv.doc_names_bridge_from_env. Qed.
Print Assumptions C16_model_doc_names_is_source_from_env.

(* non-vacuity: a table with an ambiguous entry, a method and a key colliding with an operator,
   both maps visited in reverse; and an environment inside the fragment with 20 documented names *)
Example C16_model_doc_names_is_source_nonvacuous :
  X.Ty.DocRules.run_doc X.gen.GenDocgen.doc_src perm_rev (@rev string)
    [("Name", mkTag TString false false); ("Dup", amb_tag); ("Get", mkTag (TFunc [] false [TBool]) true false);
     ("matches", mkTag TBool false false)]
  = X.Ty.DocRules.Got ["matches"; "Get"; "Name"; "contains"; "startsWith"; "endsWith";
         "true"; "one"; "none"; "map"; "len"; "filter"; "false"; "count"; "any"; "all"].
Proof. exact X.Bridge.BrDocgen.create_doc_run_example. Qed.

Example C16_model_doc_names_is_source_from_env_nonvacuous :
  X.Ty.TableRules.env_in_fragment X.Bridge.BrTables.TWit.outer_ptr = true /\
  X.Ty.TableRules.te_plain X.Bridge.BrTables.TWit.te = true /\
  exists names, doc_names X.Bridge.BrTables.TWit.te perm_rev X.Bridge.BrTables.TWit.outer_ptr = Some names /\
                List.length names = 20.
Proof. exact X.Bridge.BrDocgenEnv.doc_names_bridge_from_env_inhabited. Qed.
(* ------------------------------------------------------------------------------------------
   The member lookups ARE the source (GenMembers): checker/types.go's fieldType, methodType and
   dereference are read statement by statement by /verif/translator/gen_members.go on every run into
   gen/GenMembers.v (terms of the DSL of Ty/TableRules.v: the switch on Kind, the two loops over
   NumField with their early returns, the recursion through embedded fields, the pointer dereference,
   the map element, the interface case); run by Ty/MemberRules.v they give the hand models
   field_type / method_type - the functions C16_accepted_resolves_* are ABOUT - for every declaration
   set, every type description of the fragment and every name (induction on the embedding depth).
   Oracle: `t.MethodByName(name)` is the method table of the declarations (method_by_name; promotion
   is reflect's, not recomputed); C16_model_method_type_is_source_any_oracle holds for ANY oracle, so
   that the interface-receiver statement of methodType is covered too.
   Side conditions (decidable): `plain` / `te_plain` / `member_ty_ok` / `member_te_ok` - no declared type
   over a pointer or struct along a pointer chain, no pointer to nothing; `lk_fuel .. = false` - the
   model's search ends within its fuel (implied by the acyclicity test fuel_ok: C16_member_lookups_in_fuel);
   enough fuel for the nested calls of the regenerated functions.  Outside the fragment the statements
   are false: the hand model is narrower than reflect (`type P *Inner`: C16_model_field_type_is_source_refuted,
   C16_model_method_type_is_source_refuted). *)
Require X.Ty.MemberRules X.gen.GenMembers X.Bridge.BrMembersBase X.Bridge.BrMembers.

Theorem C16_genmembers_recognised :
  forallb X.Ty.TableRules.fdef_ok X.gen.GenMembers.member_funcs = true /\ X.gen.GenMembers.genmembers_problems = [].
Proof. exact X.Bridge.BrMembersBase.genmembers_recognised. Qed.
Print Assumptions C16_genmembers_recognised.

Theorem C16_model_field_type_is_source : forall te n t name fuel,
  X.Ty.TableRules.plain t = true -> X.Ty.TableRules.te_plain te = true ->
  X.Ty.MemberRules.lk_fuel (field_type te n t name) = false ->
  X.Ty.MemberRules.field_fuel te n t <= fuel ->
  X.Ty.MemberRules.gen_field_type X.gen.GenMembers.member_funcs X.gen.GenMembers.member_consts te fuel t name
  = X.Ty.MemberRules.lk_res (field_type te n t name).
Proof. exact X.Bridge.BrMembers.field_type_bridge. Qed.
Print Assumptions C16_model_field_type_is_source.

Theorem C16_model_method_type_is_source : forall te n t name fuel,
  X.Ty.MemberRules.member_ty_ok t = true -> X.Ty.MemberRules.member_te_ok te = true ->
  X.Ty.MemberRules.lk_fuel (method_type te n t name) = false ->
  X.Ty.MemberRules.method_fuel n <= fuel ->
  X.Ty.MemberRules.gen_method_type X.gen.GenMembers.member_funcs X.gen.GenMembers.member_consts te fuel t name
  = X.Ty.MemberRules.lk_res (method_type te n t name).
Proof. exact X.Bridge.BrMembers.method_type_bridge. Qed.
Print Assumptions C16_model_method_type_is_source.

Theorem C16_model_method_type_is_source_any_oracle : forall te mb n t name fuel,
  X.Ty.MemberRules.member_ty_ok t = true -> X.Ty.MemberRules.member_te_ok te = true ->
  X.Ty.MemberRules.lk_fuel (X.Ty.MemberRules.method_type_of te mb n t name) = false ->
  X.Ty.MemberRules.method_fuel n <= fuel ->
  X.Ty.MemberRules.gen_method_type_of mb X.gen.GenMembers.member_funcs X.gen.GenMembers.member_consts te fuel t name
  = X.Ty.MemberRules.lk_res (X.Ty.MemberRules.method_type_of te mb n t name).
Proof. exact X.Bridge.BrMembers.method_type_of_bridge. Qed.
Print Assumptions C16_model_method_type_is_source_any_oracle.

Theorem C16_method_type_of_is_model : forall te n t name,
  X.Ty.MemberRules.method_type_of te (method_by_name te) n t name = method_type te n t name.
Proof. exact X.Bridge.BrMembers.method_type_of_model. Qed.
Print Assumptions C16_method_type_of_is_model.

Theorem C16_checker_dereference_is_source : forall t fuel,
  X.Ty.TableRules.plain t = true -> X.Ty.TableRules.ptr_depth t < fuel ->
  X.Ty.MemberRules.gen_checker_dereference X.gen.GenMembers.member_funcs X.gen.GenMembers.member_consts fuel t
  = X.Ty.TableRules.Got (dereference t).
Proof. exact X.Bridge.BrMembersBase.checker_dereference_bridge. Qed.
Print Assumptions C16_checker_dereference_is_source.

(* the fuel hypothesis follows from the acyclicity test the other theorems of this file use *)
Theorem C16_member_lookups_in_fuel :
  (forall te n t name, X.Ty.TableRules.te_plain te = true -> X.Ty.TableRules.plain t = true ->
     fuel_ok te n t = true -> X.Ty.MemberRules.lk_fuel (field_type te n t name) = false) /\
  (forall te n t name, X.Ty.MemberRules.member_te_ok te = true -> X.Ty.MemberRules.member_ty_ok t = true ->
     fuel_ok te n t = true -> X.Ty.MemberRules.lk_fuel (method_type te n t name) = false).
Proof. exact (conj X.Bridge.BrMembers.field_type_in_fuel X.Bridge.BrMembers.method_type_in_fuel). Qed.
Print Assumptions C16_member_lookups_in_fuel.

Definition C16_model_field_type_is_source_full_statement : Prop := X.Bridge.BrMembers.field_type_bridge_full_statement.
Definition C16_model_method_type_is_source_full_statement : Prop := X.Bridge.BrMembers.method_type_bridge_full_statement.

Theorem C16_model_field_type_is_source_refuted :
  field_type X.Bridge.BrMembers.MWit.te (fuel0 X.Bridge.BrMembers.MWit.te) X.Bridge.BrMembers.MWit.named_ptr "X" = LMissing /\
  X.Ty.MemberRules.gen_field_type X.gen.GenMembers.member_funcs X.gen.GenMembers.member_consts X.Bridge.BrMembers.MWit.te
      (X.Ty.MemberRules.field_fuel X.Bridge.BrMembers.MWit.te (fuel0 X.Bridge.BrMembers.MWit.te) X.Bridge.BrMembers.MWit.named_ptr)
      X.Bridge.BrMembers.MWit.named_ptr "X"
    = X.Ty.TableRules.Got (Some X.Bridge.BrMembers.MWit.tint) /\
  ~ C16_model_field_type_is_source_full_statement.
Proof. exact X.Bridge.BrMembers.field_type_bridge_refuted. Qed.
Print Assumptions C16_model_field_type_is_source_refuted.

Theorem C16_model_method_type_is_source_refuted :
  method_type X.Bridge.BrMembers.MWit.te (fuel0 X.Bridge.BrMembers.MWit.te) X.Bridge.BrMembers.MWit.named_ptr "X" = LMissing /\
  X.Ty.MemberRules.gen_method_type X.gen.GenMembers.member_funcs X.gen.GenMembers.member_consts X.Bridge.BrMembers.MWit.te
      (X.Ty.MemberRules.method_fuel (fuel0 X.Bridge.BrMembers.MWit.te)) X.Bridge.BrMembers.MWit.named_ptr "X"
    = X.Ty.TableRules.Got (Some (X.Bridge.BrMembers.MWit.tint, false)) /\
  method_type X.Bridge.BrMembers.MWit.te (fuel0 X.Bridge.BrMembers.MWit.te) X.Bridge.BrMembers.MWit.ptr_nil "X" = LMissing /\
  X.Ty.MemberRules.gen_method_type X.gen.GenMembers.member_funcs X.gen.GenMembers.member_consts X.Bridge.BrMembers.MWit.te
      (X.Ty.MemberRules.method_fuel (fuel0 X.Bridge.BrMembers.MWit.te)) X.Bridge.BrMembers.MWit.ptr_nil "X"
    = X.Ty.TableRules.Panics /\
  ~ C16_model_method_type_is_source_full_statement.
Proof. exact X.Bridge.BrMembers.method_type_bridge_refuted. Qed.
Print Assumptions C16_model_method_type_is_source_refuted.

(* non-vacuity: a declaration set inside the fragment (struct embedded by value that embeds a pointer,
   unexported / interface / map fields, methods on both receivers), acyclic; X found two embedding
   levels down through a pointer by the model AND by the interpreted source; a pointer-receiver method *)
Example C16_model_member_lookups_nonvacuous :
  X.Ty.MemberRules.member_te_ok X.Bridge.BrMembers.MWit.te = true /\
  X.Ty.TableRules.te_plain X.Bridge.BrMembers.MWit.te = true /\
  X.Ty.MemberRules.member_ty_ok (TPtr X.Bridge.BrMembers.MWit.outer) = true /\
  X.Ty.TableRules.plain (TPtr (TPtr X.Bridge.BrMembers.MWit.outer)) = true /\
  fuel_ok X.Bridge.BrMembers.MWit.te (fuel0 X.Bridge.BrMembers.MWit.te) X.Bridge.BrMembers.MWit.outer = true /\
  field_type X.Bridge.BrMembers.MWit.te (fuel0 X.Bridge.BrMembers.MWit.te) (TPtr (TPtr X.Bridge.BrMembers.MWit.outer)) "X"
    = LFound X.Bridge.BrMembers.MWit.tint /\
  X.Ty.MemberRules.gen_field_type X.gen.GenMembers.member_funcs X.gen.GenMembers.member_consts X.Bridge.BrMembers.MWit.te
      (X.Ty.MemberRules.field_fuel X.Bridge.BrMembers.MWit.te (fuel0 X.Bridge.BrMembers.MWit.te) (TPtr (TPtr X.Bridge.BrMembers.MWit.outer)))
      (TPtr (TPtr X.Bridge.BrMembers.MWit.outer)) "X"
    = X.Ty.TableRules.Got (Some X.Bridge.BrMembers.MWit.tint).
Proof. repeat split; vm_compute; reflexivity. Qed.

(* ------------------------------------------------------------------------------------------
   Front-end capstone (Bridge/BrCapstoneC16.v): the MAIN theorems once more, over the interpreters of the REGENERATED
   source only - the hand model (create_types_table, field_type, method_type, check_access, doc_names) is an
   intermediate term of the proofs:
     source_table te perm Ft env          interpretation of the regenerated conf.CreateTypesTable (gen/GenTables.v)
     source_check_access te F tb a        identifier by the table; every member step by the regenerated fieldType, the
                                          callee by the regenerated methodType (gen/GenMembers.v); Some c = accepted as c
     source_doc_keys perm permk tb        interpretation of the regenerated docgen.CreateDoc (gen/GenDocgen.v)
   Decidable side conditions of the bridges: env_in_fragment, member_te_ok (implies te_plain), src_access_ok (every
   type met on the path is plain, acyclic and within the fuel F), fuel_ok (acyclic embedding: on a cycle the real
   FieldsFromStruct does not return), fuel bounds.  The carve-outs K_* are those of C16_accepted_resolves_*. *)
Require Import X.Bridge.BrCapstoneC16.

Theorem C16_source_accepted_resolves_path : forall te perm Ft F,
  valid_perm perm -> wf_tenv te = true -> X.Ty.MemberRules.member_te_ok te = true -> X.Ty.TableRules.tables_fuel te <= Ft ->
  forall T sn tb n0 ns tau keys k,
  structish T = Some sn -> fuel_ok te (fuel0 te) (TStruct sn) = true -> X.Ty.TableRules.env_in_fragment (EStruct T) = true ->
  source_table te perm Ft (EStruct T) = X.Ty.TableRules.Got tb ->
  src_access_ok te F tb (APath n0 ns) = true ->
  source_check_access te F tb (APath n0 ns) = Some (CVal tau) ->
  (forall t0, check_ident tb n0 = LFound t0 -> path_scope te keys t0 ns = true) ->
  S (List.length ns) * fuel0 te <= k ->
  K_method_ident te T n0 = false ->
  (forall t0, check_ident tb n0 = LFound t0 ->
     path_K te (K_unexported_step te) t0 ns = false /\ path_K te (K_member_multi te) t0 ns = false) ->
  exists v, run_access te false (populate te keys k T) (APath n0 ns) = Ok v /\ conforms v tau.
Proof. exact src_accepted_resolves_path. Qed.
Print Assumptions C16_source_accepted_resolves_path.

Theorem C16_source_accepted_resolves_method : forall te perm Ft F,
  valid_perm perm -> wf_tenv te = true -> X.Ty.MemberRules.member_te_ok te = true -> X.Ty.TableRules.tables_fuel te <= Ft ->
  forall T sn tb n0 ns m c keys k,
  structish T = Some sn -> fuel_ok te (fuel0 te) (TStruct sn) = true -> X.Ty.TableRules.env_in_fragment (EStruct T) = true ->
  source_table te perm Ft (EStruct T) = X.Ty.TableRules.Got tb ->
  src_access_ok te F tb (AMethod n0 ns m) = true ->
  source_check_access te F tb (AMethod n0 ns m) = Some c ->
  (forall t0, check_ident tb n0 = LFound t0 -> path_scope te keys t0 ns = true) ->
  S (S (List.length ns)) * fuel0 te <= k ->
  K_method_ident te T n0 = false ->
  (forall t0, check_ident tb n0 = LFound t0 ->
     path_K te (K_unexported_step te) t0 ns = false /\ path_K te (K_member_multi te) t0 ns = false) ->
  (forall t0 t, check_ident tb n0 = LFound t0 -> source_check_path te F t0 ns = Some t ->
     K_promoted_only te t m = false /\
     (method_by_name te t m = None ->
        exists sn' f, structish t = Some sn' /\ method_type te (fuel0 te) t m = LFound (f, false)
                      /\ field_type te (fuel0 te) t m = LFound f
                      /\ scope_step te keys t m = true /\ K_unexported_step te t m = false /\ K_member_multi te t m = false)) ->
  exists v, run_access te false (populate te keys k T) (AMethod n0 ns m) = Ok v /\ cres_conforms v c.
Proof. exact src_accepted_resolves_method. Qed.
Print Assumptions C16_source_accepted_resolves_method.

(* function position: FULL strength *)
Theorem C16_source_accepted_resolves_func : forall te perm Ft F,
  valid_perm perm -> wf_tenv te = true -> X.Ty.MemberRules.member_te_ok te = true -> X.Ty.TableRules.tables_fuel te <= Ft ->
  forall T sn tb n c keys k,
  structish T = Some sn -> fuel_ok te (fuel0 te) (TStruct sn) = true -> X.Ty.TableRules.env_in_fragment (EStruct T) = true ->
  source_table te perm Ft (EStruct T) = X.Ty.TableRules.Got tb ->
  source_check_access te F tb (AFunc n) = Some c -> fuel0 te <= k ->
  exists v, run_access te false (populate te keys k T) (AFunc n) = Ok v /\ cres_conforms v c.
Proof. exact src_accepted_resolves_func. Qed.
Print Assumptions C16_source_accepted_resolves_func.

(* struct completeness over the regenerated table: what Go resolves to an exported member is accepted, with that type *)
Theorem C16_source_struct_complete : forall te perm Ft,
  valid_perm perm -> wf_tenv te = true -> X.Ty.MemberRules.member_te_ok te = true -> X.Ty.TableRules.tables_fuel te <= Ft ->
  forall T sn tb name p tau,
  structish T = Some sn -> fuel_ok te (fuel0 te) (TStruct sn) = true -> X.Ty.TableRules.env_in_fragment (EStruct T) = true ->
  source_table te perm Ft (EStruct T) = X.Ty.TableRules.Got tb ->
  go_resolve te T name = RField p tau true ->
  check_ident tb name = LFound tau.
Proof. exact src_struct_complete. Qed.
Print Assumptions C16_source_struct_complete.

Theorem C16_source_struct_complete_methods : forall te perm Ft F,
  valid_perm perm -> wf_tenv te = true -> X.Ty.MemberRules.member_te_ok te = true -> X.Ty.TableRules.tables_fuel te <= Ft ->
  forall T sn tb name mt,
  structish T = Some sn -> fuel_ok te (fuel0 te) (TStruct sn) = true -> X.Ty.TableRules.env_in_fragment (EStruct T) = true ->
  source_table te perm Ft (EStruct T) = X.Ty.TableRules.Got tb ->
  go_resolve te T name = RMethod mt ->
  tget name tb = Some (method_tag mt) /\
  (forall fn ret, is_func_type mt = Some fn -> call_type fn = Some ret ->
     source_check_access te F tb (AFunc name) = Some (CCall fn true ret)).
Proof. exact src_struct_complete_methods. Qed.
Print Assumptions C16_source_struct_complete_methods.

Theorem C16_source_ident_accepted_iff_go : forall te perm Ft,
  valid_perm perm -> wf_tenv te = true -> X.Ty.MemberRules.member_te_ok te = true -> X.Ty.TableRules.tables_fuel te <= Ft ->
  forall T sn tb name tau,
  structish T = Some sn -> fuel_ok te (fuel0 te) (TStruct sn) = true -> X.Ty.TableRules.env_in_fragment (EStruct T) = true ->
  source_table te perm Ft (EStruct T) = X.Ty.TableRules.Got tb ->
  method_by_name te T name = None ->
  (check_ident tb name = LFound tau <-> exists p, go_resolve te T name = RField p tau true).
Proof. exact src_ident_accepted_iff_go. Qed.
Print Assumptions C16_source_ident_accepted_iff_go.

(* documentation: the regenerated CreateDoc run on the regenerated table lists exactly the accepted names and the
   fixed operator / builtin names, without duplicates, for any visiting order of the Go maps *)
Theorem C16_source_doc_exact : forall te perm Ft,
  valid_perm perm -> X.Ty.MemberRules.member_te_ok te = true -> X.Ty.TableRules.tables_fuel te <= Ft ->
  forall env tb dperm permk,
  env_acyclic te env = true -> X.Ty.TableRules.env_in_fragment env = true ->
  (forall l e, In e (dperm l) <-> In e l) -> (forall l k, In k (permk l) <-> In k l) ->
  source_table te perm Ft env = X.Ty.TableRules.Got tb ->
  exists keys, source_doc_keys dperm permk tb = X.Ty.DocRules.Got keys /\ NoDup keys /\
    forall n, In n keys <-> ((exists tau, check_ident tb n = LFound tau) \/ In n doc_fixed).
Proof. exact src_doc_exact. Qed.
Print Assumptions C16_source_doc_exact.

Theorem C16_source_table_perm_independent : forall te perm Ft,
  valid_perm perm -> wf_tenv te = true -> X.Ty.MemberRules.member_te_ok te = true -> X.Ty.TableRules.tables_fuel te <= Ft ->
  forall perm2 env tb1 tb2, valid_perm perm2 ->
  env_acyclic te env = true -> X.Ty.TableRules.env_in_fragment env = true ->
  match env with EMap _ entries => NoDup (map fst entries) | EStruct _ => True end ->
  source_table te perm Ft env = X.Ty.TableRules.Got tb1 -> source_table te perm2 Ft env = X.Ty.TableRules.Got tb2 ->
  forall n, tget n tb1 = tget n tb2.
Proof. exact src_table_perm_independent. Qed.
Print Assumptions C16_source_table_perm_independent.

(* the regenerated terms accept exactly what the hand model accepts (the step the capstones go through) *)
Theorem C16_source_check_access_is_model : forall te F tb a c, X.Ty.MemberRules.member_te_ok te = true ->
  src_access_ok te F tb a = true -> source_check_access te F tb a = Some c -> check_access te tb a = LFound c.
Proof. exact source_check_access_is_model. Qed.
Print Assumptions C16_source_check_access_is_model.

(* non-vacuity: ONE declaration set (pointer environment *Env, member P *Mid, Mid embeds *Inner, methods on both
   receivers, an unexported field) meets all the hypotheses above at once: P.X, P.Hello(), Name(), Z *)
Example C16_source_capstone_nonvacuous :
  wf_tenv CWit.te = true /\ X.Ty.MemberRules.member_te_ok CWit.te = true /\ X.Ty.TableRules.tables_fuel CWit.te <= CWit.Ft /\
  structish CWit.T = Some "Env" /\ fuel_ok CWit.te (fuel0 CWit.te) (TStruct "Env") = true /\
  X.Ty.TableRules.env_in_fragment (EStruct CWit.T) = true /\
  source_table CWit.te perm_rev CWit.Ft (EStruct CWit.T) = X.Ty.TableRules.Got CWit.tb /\ List.length CWit.tb = 3 /\
  src_access_ok CWit.te CWit.F CWit.tb (APath "P" ["X"]) = true /\
  source_check_access CWit.te CWit.F CWit.tb (APath "P" ["X"]) = Some (CVal CWit.tint) /\
  check_ident CWit.tb "P" = LFound (TPtr (TStruct "Mid")) /\
  path_scope CWit.te ["k"] (TPtr (TStruct "Mid")) ["X"] = true /\
  K_method_ident CWit.te CWit.T "P" = false /\
  path_K CWit.te (K_unexported_step CWit.te) (TPtr (TStruct "Mid")) ["X"] = false /\
  path_K CWit.te (K_member_multi CWit.te) (TPtr (TStruct "Mid")) ["X"] = false /\
  src_access_ok CWit.te CWit.F CWit.tb (AMethod "P" [] "Hello") = true /\
  source_check_access CWit.te CWit.F CWit.tb (AMethod "P" [] "Hello")
    = Some (CCall (TFunc [TPtr (TStruct "Mid")] false [TString]) true TString) /\
  K_promoted_only CWit.te (TPtr (TStruct "Mid")) "Hello" = false /\
  source_check_access CWit.te CWit.F CWit.tb (AFunc "Name")
    = Some (CCall (TFunc [TPtr (TStruct "Env")] false [TString]) true TString) /\
  go_resolve CWit.te CWit.T "Z" = RField [1] TBool true /\
  source_doc_keys perm_rev (@rev string) CWit.tb <> X.Ty.DocRules.Wrong.
Proof. exact src_capstone_hypotheses_inhabited. Qed.

(* Props/C12.v — Literals and token positions are lexed faithfully.
   Only statements, each closed by `exact`, with Print Assumptions (+ non-vacuity Examples).
   Model: Lex/Lexer.v (tied to parser/lexer/*.go and parser.go by the executed correspondence
   Corr/CorrC12.v on every run).  uni_letter/uni_digit/uni_space = unicode.IsLetter/IsDigit/IsSpace
   on code points >= 128 and parse_float = strconv.ParseFloat are oracle arguments: every theorem
   holds for every oracle. *)
From Coq Require Import ZArith Bool List String.
Require Import X.Base.Value X.Syn.Tok X.Lex.Lexer X.Lex.LexProofs.
Import ListNotations.
Open Scope Z_scope.

(* (1) Strings.  For both quote characters q (34 = double quote, 39 = single quote) and EVERY list of spelling items that
   item_ok accepts — a raw rune (any valid scalar except the quote, backslash, LF, CR), a named
   escape \a \b \f \n \r \t \v \\ \q, \xHH, \uHHHH, \UHHHHHHHH with hex digits in either case
   denoting a valid scalar, \ooo — the literal lexes to ONE String token at line 1 column 0 whose
   value is exactly the UTF-8 encoding of the denoted runes, followed by EOF. *)
Theorem C12_string_all_spellings : forall uni_letter uni_digit uni_space q items,
  (q = 34 \/ q = 39) -> forallb (item_ok q) items = true ->
  lex uni_letter uni_digit uni_space (q :: body_runes items ++ [q]) =
  LexOk [mkTok (1, 0) TkString (utf8_encode (map item_val items));
         mkTok (advance (1, 0) (q :: body_runes items)) TkEOF EmptyString].
Proof. exact string_items_roundtrip. Qed.
Print Assumptions C12_string_all_spellings.

(* Every string value (list of valid scalars: controls, quotes, backslashes, non-BMP ...) written by
   the printer `quote` (\\ \q \a \b \f \n \r \t \v, \xHH for the other controls, raw otherwise)
   lexes back to exactly that string. *)
Theorem C12_string : forall uni_letter uni_digit uni_space q s,
  (q = 34 \/ q = 39) -> forallb valid_scalar s = true ->
  lex uni_letter uni_digit uni_space (quote q s) =
  LexOk [mkTok (1, 0) TkString (utf8_encode s);
         mkTok (advance (1, 0) (removelast (quote q s))) TkEOF EmptyString].
Proof. exact string_roundtrip. Qed.
Print Assumptions C12_string.

(* The same statement with a RAW carriage return allowed inside the literal is false of the code
   (known finding C12-raw-cr; witness "a<CR>b" lexes to a<LF>b), and the raw CR is the only spelling
   item carved out. *)
Definition C12_string_full_statement : Prop := string_full_statement.
Theorem C12_string_raw_cr_refuted : ~ C12_string_full_statement.
Proof. exact raw_cr_refuted. Qed.
Print Assumptions C12_string_raw_cr_refuted.
Theorem C12_string_carve_out_tight : forall q it,
  item_ok_full q it = true -> item_ok q it = false -> it = IRaw 13.
Proof. exact item_ok_full_carve. Qed.
Print Assumptions C12_string_carve_out_tight.

(* (2) Integers.  Every decimal spelling: a digit followed by any digits and `_` separators in any
   positions (leading zeros included), of value < 2^63: one Number token carrying the spelling,
   classified as that integer. *)
Theorem C12_int_dec_all_spellings : forall uni_letter uni_digit uni_space parse_float d ds,
  is_dec d = true -> forallb is_dec_us ds = true -> dval (filter not_us (d :: ds)) < 2 ^ 63 ->
  lex uni_letter uni_digit uni_space (d :: ds) =
    LexOk [mkTok (1, 0) TkNumber (utf8_encode (d :: ds));
           mkTok (advance (1, 0) (removelast (d :: ds))) TkEOF EmptyString] /\
  classify_number parse_float (utf8_encode (d :: ds)) = LitInt (dval (filter not_us (d :: ds))).
Proof. exact int_dec_literal. Qed.
Print Assumptions C12_int_dec_all_spellings.

(* ... and every n in 0 .. 2^63-1 written in plain decimal parses to n. *)
Theorem C12_int_dec : forall uni_letter uni_digit uni_space parse_float n, 0 <= n < 2 ^ 63 ->
  lex uni_letter uni_digit uni_space (dec_runes n) =
    LexOk [mkTok (1, 0) TkNumber (utf8_encode (dec_runes n));
           mkTok (advance (1, 0) (removelast (dec_runes n))) TkEOF EmptyString] /\
  classify_number parse_float (utf8_encode (dec_runes n)) = LitInt n.
Proof. exact int_dec_canonical. Qed.
Print Assumptions C12_int_dec.

(* Every hexadecimal spelling 0x / 0X + hex digits in either case (e, E, b, d, f included) and `_`
   separators, of value < 2^63. *)
Theorem C12_int_hex : forall uni_letter uni_digit uni_space parse_float x ds,
  mem x [120; 88] = true -> forallb is_hex_us ds = true -> filter not_us ds <> [] ->
  hexval (filter not_us ds) < 2 ^ 63 ->
  lex uni_letter uni_digit uni_space (48 :: x :: ds) =
    LexOk [mkTok (1, 0) TkNumber (utf8_encode (48 :: x :: ds));
           mkTok (advance (1, 0) (removelast (48 :: x :: ds))) TkEOF EmptyString] /\
  classify_number parse_float (utf8_encode (48 :: x :: ds)) = LitInt (hexval (filter not_us ds)).
Proof. exact int_hex_literal. Qed.
Print Assumptions C12_int_hex.

(* ... and every n in 0 .. 2^63-1 written as 0x + its hexadecimal digits parses to n. *)
Theorem C12_int_hex_canonical : forall uni_letter uni_digit uni_space parse_float n, 0 <= n < 2 ^ 63 ->
  lex uni_letter uni_digit uni_space (hex_runes n) =
    LexOk [mkTok (1, 0) TkNumber (utf8_encode (hex_runes n));
           mkTok (advance (1, 0) (removelast (hex_runes n))) TkEOF EmptyString] /\
  classify_number parse_float (utf8_encode (hex_runes n)) = LitInt n.
Proof. exact int_hex_canonical. Qed.
Print Assumptions C12_int_hex_canonical.

(* (3) Floats.  Every spelling digits[.digits][(e|E)[+-]digits] with a fraction or an exponent, and
   every leading-dot spelling .digits[exponent] (`_` allowed among the digits): ONE Number token
   whose text is exactly the spelling; it is classified float and strconv.ParseFloat receives
   exactly the spelling without `_` (its result is returned unchanged). *)
Theorem C12_float_class : forall uni_letter uni_digit uni_space parse_float n,
  num_ok n = true -> float_sp n = true ->
  lex uni_letter uni_digit uni_space (num_runes n) =
    LexOk [mkTok (1, 0) TkNumber (utf8_encode (num_runes n));
           mkTok (advance (1, 0) (removelast (num_runes n))) TkEOF EmptyString] /\
  classify_number parse_float (utf8_encode (num_runes n)) =
    match parse_float (utf8_encode (filter not_us (num_runes n))) with
    | Some f => LitFloat f
    | None => LitErr
    end.
Proof. exact float_literal. Qed.
Print Assumptions C12_float_class.

(* (4) Positions.  For EVERY sequence of tokens (identifiers / word operators, decimal-hex-float
   numbers, one- and two-rune operators, the dot operators . .. ?., brackets, string literals) each preceded by an arbitrary run
   of white space (space, tab, LF, CR, VT, FF; possibly empty where the next rune cannot extend the
   token: follow_ok) and an arbitrary trailing run: the lexer returns exactly the spelled tokens, each
   located at the position of its first character (line 1-based, column 0-based in runes, column
   reset by LF), then EOF located at the last rune of the source. *)
Theorem C12_positions : forall uni_letter uni_digit uni_space items trail,
  layout_ok uni_letter uni_digit uni_space items trail = true ->
  lex uni_letter uni_digit uni_space (layout items trail) =
  LexOk (expected (1, 0) items ++
         [mkTok (lastpos (1, 0) (1, 0) (layout items trail)) TkEOF EmptyString]).
Proof. exact positions_hold. Qed.
Print Assumptions C12_positions.

(* ---- non-vacuity *)
Definition no_uni (_ : Z) : bool := false.
Definition greek (r : Z) : bool := (913 <=? r) && (r <=? 969).

(* a string with a control, both quotes, a backslash, CR, LF, a Latin-1, a BMP and a non-BMP rune *)
Example C12_string_nonvacuous :
  forallb valid_scalar [1; 34; 39; 92; 13; 10; 233; 22793; 128512] = true /\
  quote 34 [1; 34; 39; 92; 13; 10; 233; 22793; 128512] =
    rs """\x01\""'\\\r\n" ++ [233; 22793; 128512] ++ rs """" /\
  lex no_uni no_uni no_uni (quote 34 [1; 34; 39; 92; 13; 10; 233; 22793; 128512]) =
    LexOk [mkTok (1, 0) TkString (utf8_encode [1; 34; 39; 92; 13; 10; 233; 22793; 128512]); mkTok (1, 17) TkEOF EmptyString].
Proof. vm_compute. repeat split. Qed.

Example C12_string_spellings_nonvacuous :   (* the literal \u00E9 \U0001f600 \101 \x4a in single quotes *)
  forallb (item_ok 39) [IHex 117 (rs "00E9"); IHex 85 (rs "0001f600"); IOct 49 48 49; IHex 120 (rs "4a")] = true /\
  map item_val [IHex 117 (rs "00E9"); IHex 85 (rs "0001f600"); IOct 49 48 49; IHex 120 (rs "4a")] = [233; 128512; 65; 74].
Proof. vm_compute. repeat split. Qed.

Example C12_int_nonvacuous :
  dec_runes 9223372036854775807 = rs "9223372036854775807" /\ hex_runes 9223372036854775807 = rs "0x7fffffffffffffff" /\ hex_runes 0 = rs "0x0" /\
  (is_dec 49 = true /\ forallb is_dec_us (rs "_000__0") = true /\ dval (filter not_us (rs "1_000__0")) = 10000) /\
  (forallb is_hex_us (rs "1e_EbdF") = true /\ hexval (filter not_us (rs "1e_EbdF")) = 2026463) /\
  classify_number (fun _ => None) "0X1e_EbdF" = LitInt 2026463.
Proof. vm_compute. repeat split. Qed.

Example C12_float_nonvacuous :   (* 1_0.2_5e-1_0  and  .5E3 *)
  num_ok (NDec 49 (rs "_0") (Some (rs "2_5")) (Some (101, Some 45, rs "1_0"))) = true /\
  float_sp (NDec 49 (rs "_0") (Some (rs "2_5")) (Some (101, Some 45, rs "1_0"))) = true /\
  num_runes (NDec 49 (rs "_0") (Some (rs "2_5")) (Some (101, Some 45, rs "1_0"))) = rs "1_0.2_5e-1_0" /\
  utf8_encode (filter not_us (rs "1_0.2_5e-1_0")) = "10.25e-10"%string /\
  num_ok (NDot 53 [] (Some (69, None, [51]))) = true /\ num_runes (NDot 53 [] (Some (69, None, [51]))) = rs ".5E3".
Proof. vm_compute. repeat split. Qed.

(*  alpha beta 1 <= LF TAB ( 0x1F , 'a\tb' )  .5e3 CR LF or _x?.y...z   with a Greek-letter oracle: three lines, multi-byte runes *)
Definition C12_sample_layout : list (list Z * ptok) :=
  [([], PIdent 945 [946; 49]); ([32], POp2 60 (Some 61)); ([10; 9], PBracket 40);
   ([], PNum (NHex 120 (rs "1F"))); ([], POp1 44); ([], PStr 39 [IRaw 97; INamed 116; IRaw 98]); ([], PBracket 41);
   ([32; 32], PNum (NDot 53 [] (Some (101, None, [51])))); ([13; 10; 32], PIdent 111 [114]); ([32], PIdent 95 [120]);
   ([], PDot DNilsafe); ([], PIdent 121 []); ([], PDot DDotDot); ([], PDot DDot); ([], PIdent 122 [])].
Example C12_positions_nonvacuous :
  layout_ok greek no_uni no_uni C12_sample_layout [32; 10] = true /\
  expected (1, 0) C12_sample_layout =
    [mkTok (1, 0) TkIdentifier (utf8_encode [945; 946; 49]); mkTok (1, 4) TkOperator "<="; mkTok (2, 1) TkBracket "(";
     mkTok (2, 2) TkNumber "0x1F"; mkTok (2, 6) TkOperator ","; mkTok (2, 7) TkString (utf8_encode [97; 9; 98]);
     mkTok (2, 13) TkBracket ")"; mkTok (2, 16) TkNumber ".5e3"; mkTok (3, 1) TkOperator "or"; mkTok (3, 4) TkIdentifier "_x";
     mkTok (3, 6) TkOperator "?."; mkTok (3, 8) TkIdentifier "y"; mkTok (3, 9) TkOperator ".."; mkTok (3, 11) TkOperator ".";
     mkTok (3, 12) TkIdentifier "z"] /\
  lastpos (1, 0) (1, 0) (layout C12_sample_layout [32; 10]) = (3, 14) /\
  lex greek no_uni no_uni (layout C12_sample_layout [32; 10]) =
    LexOk (expected (1, 0) C12_sample_layout ++ [mkTok (3, 14) TkEOF EmptyString]).
Proof. vm_compute. repeat split. Qed.
From Coq Require Import ZArith Bool List String.
Require Import X.Base.Value X.Syn.Tok X.Lex.Lexer X.Lex.LexProofs.
Require Import X.Lex.LexRules X.Lex.LexRulesProofs X.gen.GenLexer X.Bridge.BrLexerFns X.Bridge.BrLexer.
Import ListNotations.
Open Scope Z_scope.

(* (6) The model lexer IS the source.  gen/GenLexer.v is regenerated on every run from parser/lexer/{lexer,state,
   utils,token}.go: one term of the DSL of Lex/LexRules.v per Go function (Lex, next, peek, backup, emit, emitValue,
   emitEOF, word, ignore, accept, acceptRun, acceptWord, error, digitVal, lower, scanDigits, scanEscape, scanString,
   root, number, scanNumber, dot, nilsafe, identifier, not, IsSpace, IsAlphaNumeric, IsAlphabetic), statements in
   source order.  Nothing in the current source is outside the shapes the translator reads. *)
Theorem C12_lexer_source_recognised : genlexer_all_recognised = true.
Proof. exact genlexer_recognised. Qed.
Print Assumptions C12_lexer_source_recognised.

(* Running the interpreter of Lex/LexRules.v on the REGENERATED state functions, with the driver loop and the fuel
   of the model, gives exactly Lexer.lex: on EVERY input (list of runes) and for every unicode oracle.  The tokens,
   their kinds, values and locations, the error location, and out-of-fuel all coincide. *)
Theorem C12_model_lexer_is_source : forall uni_letter uni_digit uni_space input,
  gen_lex uni_letter uni_digit uni_space lexer_funs input = of_lex (lex uni_letter uni_digit uni_space input).
Proof. exact gen_lex_is_lex. Qed.
Print Assumptions C12_model_lexer_is_source.

(* ... in particular the interpretation never reaches an ill-typed operation or an unrecognised statement. *)
Theorem C12_regenerated_lexer_never_crashes : forall uni_letter uni_digit uni_space input w,
  gen_lex uni_letter uni_digit uni_space lexer_funs input <> GenCrash w.
Proof. exact gen_lex_never_crashes. Qed.
Print Assumptions C12_regenerated_lexer_never_crashes.

(* The regenerated `Lex` itself (set-up, loop, error test), run by the interpreter with 2*len+10 iterations for
   every loop: the model's answer, whenever the model's own fuel 2*len+2 suffices. *)
Theorem C12_model_Lex_is_source : forall uni_letter uni_digit uni_space input,
  lex uni_letter uni_digit uni_space input <> LexOutOfFuel ->
  gen_Lex uni_letter uni_digit uni_space (2 * List.length input + 10) lexer_funs input =
  of_lex (lex uni_letter uni_digit uni_space input).
Proof. exact gen_Lex_is_lex. Qed.
Print Assumptions C12_model_Lex_is_source.

(* One call of any state function (root, number, dot, nilsafe, identifier, not) on ANY well-formed Go-shaped state g
   (0 <= start <= end <= len(input)), inner loops given len(unread)+10 iterations: the regenerated function returns
   the state function and the state that Lexer.step computes on abs g (offsets -> the zipper of Lexer.v). *)
Theorem C12_state_functions_are_source : forall uni_letter uni_digit uni_space F st g,
  wf g -> rl g + 10 <= Z.of_nat F ->
  ret (sem_of uni_letter uni_digit uni_space F lexer_funs (stfn_name st) [] g)
      [vfn (fst (step uni_letter uni_digit uni_space st (abs g)))]
      (snd (step uni_letter uni_digit uni_space st (abs g))).
Proof. exact state_fn_is_model. Qed.
Print Assumptions C12_state_functions_are_source.

(* The primitive the position theorems rest on: next (loc/prev bookkeeping, newline). *)
Theorem C12_next_is_source : forall uni_letter uni_digit uni_space F g, wf g ->
  ret (sem_of uni_letter uni_digit uni_space F lexer_funs "next" [] g) [VInt (fst (next (abs g)))] (snd (next (abs g))).
Proof. exact next_is_model. Qed.
Print Assumptions C12_next_is_source.

(* unescape is a primitive of the DSL; its escape table (the switch of unescapeChar on the character after the
   backslash) is regenerated and agrees with Lexer.unescapeChar on all 256 byte values: the one-character escapes
   with their values, the letters opening a hex escape with their digit counts, the digits opening an octal escape.
   The text around the table (unescape, unhex, newlineNormalizer, the hex and octal loops) is compared with the text
   the model was written against (genlexer_recognised). *)
Theorem C12_unescape_table_is_source : esc_table_agrees = true /\ esc_hex_agrees = true /\ esc_oct_agrees = true.
Proof. exact (conj unescapeChar_escapes_bridge (conj unescapeChar_hex_bridge unescapeChar_octal_bridge)). Qed.
Print Assumptions C12_unescape_table_is_source.

(* non-vacuity: a concrete input through the regenerated functions *)
Example C12_model_lexer_is_source_example :
  gen_lex no_uni no_uni no_uni lexer_funs example_input = GenOk example_tokens.
Proof. exact gen_lex_example. Qed.

(* ------------------------------------------------------------------------------------------------------------------
   (7) CAPSTONES: the theorems (1)-(4) restated over the REGENERATED lexer only.  Bridge/BrCapstoneC12.v composes each
   property theorem (about the hand model Lexer.lex) with C12_model_lexer_is_source / C12_model_Lex_is_source; the hand
   model no longer occurs in the statements.  `source_lexes ul ud us input ts` unfolds to
       gen_lex ul ud us lexer_funs input = GenOk ts /\ gen_Lex ul ud us (2*len+10) lexer_funs input = GenOk ts :
   the interpretation of the state functions regenerated from parser/lexer/*.go under the driver loop, AND the
   interpretation of the regenerated function `Lex` itself, both return exactly the token list ts (no error, no crash
   of the interpreter, fuel sufficient).  Reference definitions on the right: the spellings (item_val, quote,
   dec_runes, hex_runes, num_runes, layout), utf8_encode, advance / lastpos / expected, classify_number. *)
Require Import X.Bridge.BrCapstoneC12.

Theorem C12_source_lexes_unfold : forall uni_letter uni_digit uni_space input ts,
  source_lexes uni_letter uni_digit uni_space input ts <->
  (gen_lex uni_letter uni_digit uni_space lexer_funs input = GenOk ts /\
   gen_Lex uni_letter uni_digit uni_space (2 * List.length input + 10) lexer_funs input = GenOk ts).
Proof. exact (fun ul ud us input ts => iff_refl _). Qed.

Theorem C12_source_string_all_spellings : forall uni_letter uni_digit uni_space q items,
  (q = 34 \/ q = 39) -> forallb (item_ok q) items = true ->
  source_lexes uni_letter uni_digit uni_space (q :: body_runes items ++ [q])
    [mkTok (1, 0) TkString (utf8_encode (map item_val items));
     mkTok (advance (1, 0) (q :: body_runes items)) TkEOF EmptyString].
Proof. exact src_string_all_spellings. Qed.

Theorem C12_source_string : forall uni_letter uni_digit uni_space q s,
  (q = 34 \/ q = 39) -> forallb valid_scalar s = true ->
  source_lexes uni_letter uni_digit uni_space (quote q s)
    [mkTok (1, 0) TkString (utf8_encode s);
     mkTok (advance (1, 0) (removelast (quote q s))) TkEOF EmptyString].
Proof. exact src_string. Qed.

(* the finding C12-raw-cr stated of the regenerated lexer: with a raw CR allowed the statement is false *)
Definition C12_source_string_full_statement : Prop := src_string_full_statement.
Theorem C12_source_string_raw_cr_refuted : ~ C12_source_string_full_statement.
Proof. exact src_string_raw_cr_refuted. Qed.

Theorem C12_source_int_dec_all_spellings : forall uni_letter uni_digit uni_space parse_float d ds,
  is_dec d = true -> forallb is_dec_us ds = true -> dval (filter not_us (d :: ds)) < 2 ^ 63 ->
  source_lexes uni_letter uni_digit uni_space (d :: ds)
    [mkTok (1, 0) TkNumber (utf8_encode (d :: ds));
     mkTok (advance (1, 0) (removelast (d :: ds))) TkEOF EmptyString] /\
  classify_number parse_float (utf8_encode (d :: ds)) = LitInt (dval (filter not_us (d :: ds))).
Proof. exact src_int_dec_all_spellings. Qed.

Theorem C12_source_int_dec : forall uni_letter uni_digit uni_space parse_float n, 0 <= n < 2 ^ 63 ->
  source_lexes uni_letter uni_digit uni_space (dec_runes n)
    [mkTok (1, 0) TkNumber (utf8_encode (dec_runes n));
     mkTok (advance (1, 0) (removelast (dec_runes n))) TkEOF EmptyString] /\
  classify_number parse_float (utf8_encode (dec_runes n)) = LitInt n.
Proof. exact src_int_dec. Qed.

Theorem C12_source_int_hex : forall uni_letter uni_digit uni_space parse_float x ds,
  mem x [120; 88] = true -> forallb is_hex_us ds = true -> filter not_us ds <> [] ->
  hexval (filter not_us ds) < 2 ^ 63 ->
  source_lexes uni_letter uni_digit uni_space (48 :: x :: ds)
    [mkTok (1, 0) TkNumber (utf8_encode (48 :: x :: ds));
     mkTok (advance (1, 0) (removelast (48 :: x :: ds))) TkEOF EmptyString] /\
  classify_number parse_float (utf8_encode (48 :: x :: ds)) = LitInt (hexval (filter not_us ds)).
Proof. exact src_int_hex. Qed.

Theorem C12_source_int_hex_canonical : forall uni_letter uni_digit uni_space parse_float n, 0 <= n < 2 ^ 63 ->
  source_lexes uni_letter uni_digit uni_space (hex_runes n)
    [mkTok (1, 0) TkNumber (utf8_encode (hex_runes n));
     mkTok (advance (1, 0) (removelast (hex_runes n))) TkEOF EmptyString] /\
  classify_number parse_float (utf8_encode (hex_runes n)) = LitInt n.
Proof. exact src_int_hex_canonical. Qed.

Theorem C12_source_float_class : forall uni_letter uni_digit uni_space parse_float n,
  num_ok n = true -> float_sp n = true ->
  source_lexes uni_letter uni_digit uni_space (num_runes n)
    [mkTok (1, 0) TkNumber (utf8_encode (num_runes n));
     mkTok (advance (1, 0) (removelast (num_runes n))) TkEOF EmptyString] /\
  classify_number parse_float (utf8_encode (num_runes n)) =
    match parse_float (utf8_encode (filter not_us (num_runes n))) with
    | Some f => LitFloat f
    | None => LitErr
    end.
Proof. exact src_float_class. Qed.

Theorem C12_source_positions : forall uni_letter uni_digit uni_space items trail,
  layout_ok uni_letter uni_digit uni_space items trail = true ->
  source_lexes uni_letter uni_digit uni_space (layout items trail)
    (expected (1, 0) items ++
     [mkTok (lastpos (1, 0) (1, 0) (layout items trail)) TkEOF EmptyString]).
Proof. exact src_positions. Qed.

(* whatever the regenerated lexer accepts or rejects, the model does, and conversely (used by the capstones of C11 / C13) *)
Theorem C12_source_lex_accepts_iff : forall uni_letter uni_digit uni_space input ts,
  gen_lex uni_letter uni_digit uni_space lexer_funs input = GenOk ts <-> lex uni_letter uni_digit uni_space input = LexOk ts.
Proof. exact (fun ul ud us input ts => conj (model_of_source_lex ul ud us input ts) (fun H => proj1 (source_lexes_of_model ul ud us input ts H))). Qed.

(* non-vacuity: the hypotheses of the position capstone hold of the three-line sample (Greek-letter oracle), the theorem
   applied (not recomputed) gives both regenerated readings; and recomputed through the interpreter of the regenerated
   functions (vm_compute over gen/GenLexer.v) *)
Example C12_source_positions_applied :
  source_lexes greek no_uni no_uni (layout C12_sample_layout [32; 10])
    (expected (1, 0) C12_sample_layout ++ [mkTok (lastpos (1, 0) (1, 0) (layout C12_sample_layout [32; 10])) TkEOF EmptyString]).
Proof. exact (C12_source_positions greek no_uni no_uni C12_sample_layout [32; 10] (proj1 C12_positions_nonvacuous)). Qed.

Example C12_source_positions_computed :
  gen_lex greek no_uni no_uni lexer_funs (layout C12_sample_layout [32; 10]) =
    GenOk (expected (1, 0) C12_sample_layout ++ [mkTok (3, 14) TkEOF EmptyString]) /\
  gen_Lex greek no_uni no_uni (2 * List.length (layout C12_sample_layout [32; 10]) + 10) lexer_funs (layout C12_sample_layout [32; 10]) =
    GenOk (expected (1, 0) C12_sample_layout ++ [mkTok (3, 14) TkEOF EmptyString]).
Proof. vm_compute. split; reflexivity. Qed.

Example C12_source_string_applied :
  source_lexes no_uni no_uni no_uni (quote 34 [1; 34; 39; 92; 13; 10; 233; 22793; 128512])
    [mkTok (1, 0) TkString (utf8_encode [1; 34; 39; 92; 13; 10; 233; 22793; 128512]);
     mkTok (advance (1, 0) (removelast (quote 34 [1; 34; 39; 92; 13; 10; 233; 22793; 128512]))) TkEOF EmptyString].
Proof. exact (C12_source_string no_uni no_uni no_uni 34 _ (or_introl eq_refl) (proj1 C12_string_nonvacuous)). Qed.

(* one Print Assumptions for all capstones of this section (each walk through the lexer bridge costs ~15 s) *)
Definition C12_source_capstones :=
  (C12_source_string_all_spellings, C12_source_string, C12_source_string_raw_cr_refuted, C12_source_int_dec_all_spellings,
   C12_source_int_dec, C12_source_int_hex, C12_source_int_hex_canonical, C12_source_float_class, C12_source_positions,
   C12_source_lex_accepts_iff).
Print Assumptions C12_source_capstones.

(* Props/C08.v — A compiled program can be run concurrently.
   Only statements, each closed by `exact`, with Print Assumptions (+ Examples for non-vacuity).

   PARTIAL.  The theorems are about the model of Conc/Frame.v: goroutines whose step is a function
   of (shared immutable world, own private state) -> own private state.  That the library's own
   code has this shape is the bridge obligation over the write set regenerated from vm/*.go and
   the compile path on every run (Bridge/BrC0809.v).  What no Gallina model can exhibit — data
   races under the Go memory model inside reflect, regexp, the allocator or functions of the
   environment — is searched by the harness under the Go race detector (harness/c08.go). *)
From Coq Require Import ZArith Bool List String Arith Permutation.
Require Import X.Base.Num X.Base.Value X.Syn.Ast X.Sem.Prim X.Sem.Sem X.BC.Instr X.BC.Compiler X.BC.VM.
Require Import X.Conc.Frame X.Conc.FrameProofs X.gen.GenFrame X.Bridge.BrC0809.
Import ListNotations.
Local Open Scope nat_scope.

(* FRAME.  Whatever the schedule and whatever the goroutines do (runs of shared programs on
   shared environments, Compile calls on shared sources/options), the shared world — programs
   with their constants, environment values, sources, oracles, memory budget — is unchanged:
   a step returns a private state only.  Made non-trivial by the second conjunct: every write of
   the CURRENT vm package reachable from Run goes to the per-call VM value, a local or an object
   created by this call; no reflect mutator, no in-place library routine, no map iteration;
   vm.MemoryBudget is the only package-level variable and is only read. *)
Theorem C08_frame :
  (forall sched w, fst (run_world sched w) = fst w) /\ bridge_run_frame.
Proof. exact (conj world_frame bridge_run_frame_holds). Qed.
Print Assumptions C08_frame.

(* The same for concurrent Compile calls: every write of the compile path goes to a local, to
   the per-call object (compiler, Config, checker visitor, parser, lexer, optimizer pass) or into
   an object handed in by the caller of the same call (the tree; the Config an Option receives). *)
Theorem C08_compile_frame : bridge_compile_frame.
Proof. exact bridge_compile_frame_holds. Qed.
Print Assumptions C08_compile_frame.

(* Steps of distinct goroutines commute (each reads and writes its own slot only). *)
Theorem C08_steps_commute : forall sh (p : list gor) i j,
  sched_step gor (gstep sh) (sched_step gor (gstep sh) p i) j
  = sched_step gor (gstep sh) (sched_step gor (gstep sh) p j) i.
Proof. intros sh. exact (sched_step_comm gor (gstep sh)). Qed.
Print Assumptions C08_steps_commute.

(* ANY SCHEDULE, exact form: under every schedule, goroutine i is in the state it reaches alone
   after as many steps as the schedule gave it. *)
Theorem C08_thread_state : forall sh sched (p : list gor) i,
  nth_error (run_sched gor (gstep sh) sched p) i
  = option_map (iter gor (gstep sh) (count i sched)) (nth_error p i).
Proof. intros sh. exact (any_schedule gor (gstep sh)). Qed.
Print Assumptions C08_thread_state.

(* ANY SCHEDULE, outcome form: N goroutines, each with its list of jobs (runs of shared programs
   on shared environments, Compile calls).  If the jobs of goroutine i, executed alone, return rs
   (every run within 2^d dispatch steps), then there is a number n of steps such that under EVERY
   schedule that gives goroutine i at least n steps — interleaved in any way with any number of
   steps of the others — its results are exactly rs: every run returns what it returns alone. *)
Theorem C08_any_schedule : forall sh d (pool : list (list job)) i jobs rs,
  nth_error pool i = Some jobs ->
  solo_results sh d jobs = Some rs ->
  exists n, forall sched, n <= count i sched ->
    option_map g_done (nth_error (snd (run_world sched (sh, map start pool))) i) = Some rs.
Proof. exact goroutine_any_schedule. Qed.
Print Assumptions C08_any_schedule.

(* Two schedules that are permutations of one another end in the same world. *)
Theorem C08_schedule_order_irrelevant : forall s1 s2 w, Permutation s1 s2 -> run_world s1 w = run_world s2 w.
Proof. exact schedule_order_irrelevant. Qed.
Print Assumptions C08_schedule_order_irrelevant.

(* ------------------------------------------------------------------------------------------
   non-vacuity: a world with two programs (one with a closure and a call-free loop, one failing),
   two environments, one Compile source; three goroutines; an interleaved schedule. *)
Module Wit.
Open Scope string_scope.
Open Scope Z_scope.
Definition fe0 : fenv := mkFenv (fun _ => None) (fun _ _ _ => Fail EOther) (fun _ _ _ => None) (fun _ _ => Some true) (fun x _ => x).
Definition cfg0 : config := mkCfg false 1000000.
(* count(1..3, {# > x}) *)
Definition e1 : expr :=
  EBuiltin ann0 BiCount [EBinary ann0 BRange (EInt ann0 1) (EInt ann0 3);
                          EClosure ann0 (EBinary ann0 BGt (EPointer ann0) (EIdent ann0 "x" false))].
(* 1 / y *)
Definition e2 : expr := EBinary ann0 BMod (EInt ann0 7) (EIdent ann0 "y" false).
Definition envA : value := VMap TString TIface [(VStr "x", vint 1); (VStr "y", vint 0)].
Definition envB : value := VMap TString TIface [(VStr "x", vint 2); (VStr "y", vint 4)].
Definition sh0 : shared :=
  mkShared fe0 cfg0 [compile false e1; compile false e2] [envA; envB] [(false, CastNone, e1)].
Definition pool0 : list (list job) :=
  [[JRun 0 0; JRun 1 1; JCompile 0]; [JRun 1 0; JRun 0 1]; [JRun 0 0; JRun 0 0; JRun 7 0]].
(* round robin, then each thread to the end *)
Definition rr (n : nat) : list nat := List.concat (repeat [0; 1; 2]%nat n).
Definition sched0 : list nat := (rr 40 ++ repeat 2%nat 300 ++ repeat 0%nat 300 ++ repeat 1%nat 300)%list.
Definition sched1 : list nat := (repeat 1%nat 340 ++ rr 40 ++ repeat 0%nat 300 ++ repeat 2%nat 300)%list.
Definition dones (sched : list nat) : list (option (list jres)) :=
  map (fun i => option_map g_done (nth_error (snd (run_world sched (sh0, map start pool0))) i)) [0; 1; 2]%nat.
Definition solos : list (option (list jres)) := map (solo_results sh0 8) pool0.
End Wit.

Example C08_witness_solo_terminates :
  forallb (fun o => match o with Some _ => true | None => false end) Wit.solos = true.
Proof. vm_compute. reflexivity. Qed.

Example C08_witness_results_nontrivial :
  nth_error Wit.solos 1
  = Some (Some [RRan (Stop EDivZero noloc rs0); RRan (Done (VNum (NInt KInt 1)) (mkRS 3 []))]).
Proof. vm_compute. reflexivity. Qed.

Example C08_witness_interleaved_equals_solo :
  Wit.dones Wit.sched0 = Wit.solos /\ Wit.dones Wit.sched1 = Wit.solos.
Proof. split; vm_compute; reflexivity. Qed.

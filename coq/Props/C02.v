(* Props/C02.v — The optimizer is observationally transparent.
   Only statements, each closed by `exact`, with Print Assumptions (+ non-vacuity Examples).
   Model: Opt/Optimizer.v (the five visitors of /repo/optimizer, the post-order walk, Optimize with
   its pass order and bounds), tied to optimizer.Optimize by the executed correspondence
   Corr/CorrC02.v on every run.  Reference semantics: Sem/Sem.v.  math.Pow (`f_pow`), the regexp
   oracle and the behaviour of environment functions (`fn_run`) are fields of `fenv`: every
   theorem holds for every `fenv`. *)
From Coq Require Import ZArith Bool List String.
Require Import X.Base.Num X.Base.Value X.Syn.Ast X.Sem.Prim X.Sem.Sem X.Opt.Optimizer X.Opt.OptProofs.
Require Import X.Opt.OptRules X.gen.GenOpt X.Bridge.BrOpt.
Require X.Parse.Parser.
Import ListNotations.
Open Scope Z_scope.

(* ------------------------------------------------------------------ the property, full strength *)
(* For every expression the optimizer accepts, every environment value, closure context and run
   state: the optimized and the original tree both fail or both succeed with ~v-equal values
   (numbers equal in kind and value, sequences element by element) and the same call log. *)
Definition C02_transparent_full_statement : Prop := OptProofs.C02_transparent_full_statement.

(* It is FALSE of the pinned tree.  Each recorded finding is a decidable predicate on expressions
   and a witness evaluated by vm_compute (the same inputs are replayed on the implementation by
   harness/c02.go on every run). *)
Theorem C02_budget_refuted : K_budget w_budget = true /\ ~ C02_transparent_full_statement.
Proof. exact OptProofs.C02_budget_refuted. Qed.
Print Assumptions C02_budget_refuted.

Theorem C02_array_fold_type_refuted : K_array_fold w_array_type = true /\ ~ C02_transparent_full_statement.
Proof. exact OptProofs.C02_array_fold_type_refuted. Qed.
Print Assumptions C02_array_fold_type_refuted.

Theorem C02_array_fold_deep_equal_refuted : K_array_fold w_array_deep = true /\ ~ C02_transparent_full_statement.
Proof. exact OptProofs.C02_array_fold_deep_equal_refuted. Qed.
Print Assumptions C02_array_fold_deep_equal_refuted.

Theorem C02_in_range_double_eval_refuted : K_in_range_double_eval w_double = true /\ ~ C02_transparent_full_statement.
Proof. exact OptProofs.C02_in_range_double_eval_refuted. Qed.
Print Assumptions C02_in_range_double_eval_refuted.

Theorem C02_in_range_nil_type_refuted : K_in_range_nil_type w_nil_range = true /\ ~ C02_transparent_full_statement.
Proof. exact OptProofs.C02_in_range_nil_type_refuted. Qed.
Print Assumptions C02_in_range_nil_type_refuted.

Theorem C02_in_range_narrow_int_refuted : K_in_range_narrow w_narrow = true /\ ~ C02_transparent_full_statement.
Proof. exact OptProofs.C02_in_range_narrow_int_refuted. Qed.
Print Assumptions C02_in_range_narrow_int_refuted.

Theorem C02_in_array_nil_type_refuted : ~ C02_transparent_full_statement.
Proof. exact OptProofs.C02_in_array_nil_type_refuted. Qed.
Print Assumptions C02_in_array_nil_type_refuted.

Theorem C02_fold_retyped_int_refuted : K_retyped [] w_retyped_int = true /\ ~ C02_transparent_full_statement.
Proof. exact OptProofs.C02_fold_retyped_int_refuted. Qed.
Print Assumptions C02_fold_retyped_int_refuted.

Theorem C02_fold_retyped_float_refuted : K_retyped [] w_retyped_float = true /\ ~ C02_transparent_full_statement.
Proof. exact OptProofs.C02_fold_retyped_float_refuted. Qed.
Print Assumptions C02_fold_retyped_float_refuted.

(* ------------------------------------------------------------------ what is proved *)
(* PARTIAL (named so): all 22 node kinds, all five passes with their iteration, every environment /
   context / state, under `side_conditions` = the negations of the findings above (decidable:
   `good`) plus soundness of the type annotation at the rewrite sites (semantic: `Site_ia`,
   `Site_ir`, `Site_cr`; property C03's concern).  Conclusion `rsim vsim cn`: both fail with the
   same class at the same location, or both succeed with ~v-equal (here: equal) values; equal call
   logs up to the calls of the functions marked ConstExpr; the optimized run never accounts more
   memory - and no claim when the UNOPTIMIZED run exceeds the memory budget (C02-budget).
   MISSING from the full statement: array literals folded to typed []int / []string constants in
   arbitrary contexts (carved out by `good`; their local soundness up to ~v is C02_fold_array_sound). *)
Theorem C02_transparent_partial : forall fe cfg env cn e e',
  side_conditions fe cfg env cn e -> optimize fe env cn e = OOk e' ->
  forall ctx s, rsim vsim cn (eval fe cfg env ctx e' s) (eval fe cfg env ctx e s).
Proof. exact OptProofs.C02_transparent_partial. Qed.
Print Assumptions C02_transparent_partial.

(* the same in the vocabulary of the full statement *)
Theorem C02_transparent_obs : forall fe cfg env cn e e',
  side_conditions fe cfg env cn e -> optimize fe env cn e = OOk e' ->
  forall ctx s, (forall l s1, eval fe cfg env ctx e s <> Stop EBudget l s1) ->
  obs_eq cn (eval fe cfg env ctx e' s) (eval fe cfg env ctx e s).
Proof. exact OptProofs.C02_transparent_obs. Qed.
Print Assumptions C02_transparent_obs.

(* non-vacuity: (I in 1..(1 + 2)) and (len(1..4) == 2 * 2) and (I in [3, 5]) meets every side
   condition, and in_range, fold, const_range and in_array all fire on it *)
Example C02_side_conditions_inhabited : side_conditions w_fe (w_cfg 1000) x_env [] x_expr.
Proof. exact OptProofs.x_side_conditions. Qed.
Example C02_rewrites_fire : exists e', optimize w_fe x_env [] x_expr = OOk e' /\ e' <> x_expr.
Proof. eexists. split; [exact OptProofs.x_optimized|discriminate]. Qed.

(* the congruence the induction runs on, as a statement about the reference semantics alone:
   evaluation is monotone in the accounted memory (same value, same failure, same log) *)
Theorem C02_eval_monotone_in_budget : forall fe cfg env cn e ctx s' s,
  ssim cn s' s -> rsim eq cn (eval fe cfg env ctx e s') (eval fe cfg env ctx e s).
Proof. exact OptProofs.eval_mono. Qed.
Print Assumptions C02_eval_monotone_in_budget.

(* ------------------------------------------------------------------ one rewrite at a time *)
(* for ALL literal values, annotations, contexts and states; these are the induction cases *)
Theorem C02_fold_unary_sound : forall fe cfg env a ai k z ctx s,
  akind ai = RKNum k -> is_intkind k = true ->
  eval fe cfg env ctx (fst (fold_v (f_pow fe) (EUnary a UMinus (EInt ai z)))) s = eval fe cfg env ctx (EUnary a UMinus (EInt ai z)) s /\
  eval fe cfg env ctx (fst (fold_v (f_pow fe) (EUnary a UPlus (EInt ai z)))) s = eval fe cfg env ctx (EUnary a UPlus (EInt ai z)) s.
Proof. exact OptProofs.fold_unary_sound. Qed.
Print Assumptions C02_fold_unary_sound.

Theorem C02_fold_add_sound : forall fe cfg env a a1 a2 k x y ctx s,
  akind a1 = RKNum k -> akind a2 = RKNum k -> is_intkind k = true ->
  eval fe cfg env ctx (fst (fold_v (f_pow fe) (int_redex a BAdd a1 x a2 y))) s = eval fe cfg env ctx (int_redex a BAdd a1 x a2 y) s.
Proof. exact OptProofs.fold_add_sound. Qed.
Print Assumptions C02_fold_add_sound.

Theorem C02_fold_sub_sound : forall fe cfg env a a1 a2 k x y ctx s,
  akind a1 = RKNum k -> akind a2 = RKNum k -> is_intkind k = true ->
  eval fe cfg env ctx (fst (fold_v (f_pow fe) (int_redex a BSub a1 x a2 y))) s = eval fe cfg env ctx (int_redex a BSub a1 x a2 y) s.
Proof. exact OptProofs.fold_sub_sound. Qed.
Print Assumptions C02_fold_sub_sound.

Theorem C02_fold_mul_sound : forall fe cfg env a a1 a2 k x y ctx s,
  akind a1 = RKNum k -> akind a2 = RKNum k -> is_intkind k = true ->
  eval fe cfg env ctx (fst (fold_v (f_pow fe) (int_redex a BMul a1 x a2 y))) s = eval fe cfg env ctx (int_redex a BMul a1 x a2 y) s.
Proof. exact OptProofs.fold_mul_sound. Qed.
Print Assumptions C02_fold_mul_sound.

Theorem C02_fold_div_sound : forall fe cfg env a a1 a2 k x y ctx s,
  akind a1 = RKNum k -> akind a2 = RKNum k -> int64_kind k = true ->
  (iv y = 0 -> snd (fold_v (f_pow fe) (int_redex a BDiv a1 x a2 y)) = acc_err (aloc a) /\
               eval fe cfg env ctx (int_redex a BDiv a1 x a2 y) s = Stop EDivZero (aloc a) s) /\
  (iv y <> 0 -> snd (fold_v (f_pow fe) (int_redex a BDiv a1 x a2 y)) = acc_applied /\
               eval fe cfg env ctx (fst (fold_v (f_pow fe) (int_redex a BDiv a1 x a2 y))) s = eval fe cfg env ctx (int_redex a BDiv a1 x a2 y) s).
Proof. exact OptProofs.fold_div_sound. Qed.
Print Assumptions C02_fold_div_sound.

Theorem C02_fold_mod_sound : forall fe cfg env a a1 a2 k x y ctx s,
  akind a = RKNum k -> akind a1 = RKNum k -> akind a2 = RKNum k -> int64_kind k = true ->
  (iv y = 0 -> snd (fold_v (f_pow fe) (int_redex a BMod a1 x a2 y)) = acc_err (aloc a) /\
               eval fe cfg env ctx (int_redex a BMod a1 x a2 y) s = Stop EDivZero (aloc a) s) /\
  (iv y <> 0 -> snd (fold_v (f_pow fe) (int_redex a BMod a1 x a2 y)) = acc_applied /\
               eval fe cfg env ctx (fst (fold_v (f_pow fe) (int_redex a BMod a1 x a2 y))) s = eval fe cfg env ctx (int_redex a BMod a1 x a2 y) s).
Proof. exact OptProofs.fold_mod_sound. Qed.
Print Assumptions C02_fold_mod_sound.

Theorem C02_fold_pow_sound : forall fe cfg env a a1 a2 k x y ctx s,
  akind a1 = RKNum k -> akind a2 = RKNum k -> int64_kind k = true ->
  eval fe cfg env ctx (fst (fold_v (f_pow fe) (int_redex a BPow a1 x a2 y))) s = eval fe cfg env ctx (int_redex a BPow a1 x a2 y) s.
Proof. exact OptProofs.fold_pow_sound. Qed.
Print Assumptions C02_fold_pow_sound.

Theorem C02_fold_string_concat_sound : forall fe cfg env a a1 a2 x y ctx s,
  eval fe cfg env ctx (fst (fold_v (f_pow fe) (EBinary a BAdd (EStr a1 x) (EStr a2 y)))) s =
  eval fe cfg env ctx (EBinary a BAdd (EStr a1 x) (EStr a2 y)) s.
Proof. exact OptProofs.fold_string_concat_sound. Qed.
Print Assumptions C02_fold_string_concat_sound.

(* array literal of int (string) literals -> []int ([]string) constant: the optimized tree yields
   the typed slice without touching the state; the original one yields the same elements as
   []interface{} after accounting them, or exceeds the budget; the two values are ~v *)
Theorem C02_fold_array_sound : forall fe cfg env a es vs ctx s,
  is_nil_list es = false -> forallb lit_child_ok es = true ->
  (exists zs, all_ints es = Some zs /\ vs = map vint zs) \/ (all_ints es = None /\ exists ss, all_strs es = Some ss /\ vs = map VStr ss) ->
  exists t, eval fe cfg env ctx (fst (fold_v (f_pow fe) (EArray a es))) s = Done (VArr t vs) s /\
  (eval fe cfg env ctx (EArray a es) s = Stop EBudget (aloc a) s \/
   eval fe cfg env ctx (EArray a es) s = Done (VArr TIface vs) (mkRS (r_mem s + Z.of_nat (List.length vs)) (r_trace s))) /\
  VArr t vs ~v VArr TIface vs.
Proof. exact OptProofs.fold_array_sound. Qed.
Print Assumptions C02_fold_array_sound.

(* membership in the lookup map = linear membership in the array literal, for a left VALUE of
   exactly kind int / string (any other left value: findings 1 in ["a"] (fixed), C02-in-array-nil-type) *)
Theorem C02_in_array_int_sound : forall z zs t, p_in (vint z) (int_set zs) = p_in (vint z) (VArr t (map vint zs)).
Proof. exact OptProofs.in_array_int_sound. Qed.
Print Assumptions C02_in_array_int_sound.

Theorem C02_in_array_string_sound : forall z ss t, p_in (VStr z) (str_set ss) = p_in (VStr z) (VArr t (map VStr ss)).
Proof. exact OptProofs.in_array_string_sound. Qed.
Print Assumptions C02_in_array_string_sound.

(* x in lo..hi = lo <= x and x <= hi, for a left value that is an integer of kind int, int64 or
   an unsigned kind (the helpers then compare in int / int64 without wrapping the bounds) *)
Theorem C02_in_range_sound : forall k z lo hi,
  exact_kind k = true -> in_range k z = true -> wrap KInt lo = lo -> wrap KInt hi = hi ->
  p_in (VNum (NInt k z)) (make_range lo hi) = Ok ((lo <=? wrap KInt z) && (wrap KInt z <=? hi)) /\
  p_helper HMoreOrEqual (VNum (NInt k z)) (vint lo) = Ok (VBool (lo <=? wrap KInt z)) /\
  p_helper HLessOrEqual (VNum (NInt k z)) (vint hi) = Ok (VBool (wrap KInt z <=? hi)).
Proof. exact OptProofs.in_range_sound. Qed.
Print Assumptions C02_in_range_sound.

(* ... in expression form, for a left operand that is `simple` (evaluating it twice is unobservable) *)
Theorem C02_in_range_expr_sound : forall fe cfg env cn a op x ar af f at_ t n1 n2,
  is_in_op op = true -> esim fe cfg env cn x n1 -> esim fe cfg env cn (EBinary ar BRange (EInt af f) (EInt at_ t)) n2 ->
  simple x = true ->
  (forall ctx s v s1, eval fe cfg env ctx n1 s = Done v s1 -> exists k z, v = VNum (NInt k z) /\ exact_kind k = true /\ in_range k z = true) ->
  good cn (EBinary a op x (EBinary ar BRange (EInt af f) (EInt at_ t))) = true ->
  esim fe cfg env cn
    (match op with BNotIn => EUnary a UNotWord (conj_of a x (EInt af f) (EInt at_ t)) | _ => conj_of a x (EInt af f) (EInt at_ t) end)
    (EBinary a op n1 n2).
Proof. exact OptProofs.in_range_core. Qed.
Print Assumptions C02_in_range_expr_sound.

(* since the repair of const_range.go (80e2856: a descending range is recognised on the values, an
   ascending one is materialised only when its Go-int size is in 1..10^6) for EVERY pair of bounds *)
Theorem C02_const_range_sound : forall fe cfg env a a1 lo a2 hi ctx s,
  akind a1 = RKNum KInt -> akind a2 = RKNum KInt ->
  rsim eq [] (eval fe cfg env ctx (fst (const_range_v (EBinary a BRange (EInt a1 lo) (EInt a2 hi)))) s)
             (eval fe cfg env ctx (EBinary a BRange (EInt a1 lo) (EInt a2 hi)) s).
Proof. exact OptProofs.const_range_sound. Qed.
Print Assumptions C02_const_range_sound.

(* ------------------------------------------------------------------ rejection, ConstExpr *)
(* the optimizer rejects only: a constant integer sub-expression d / 0 or d % 0 (`has_dz`, with
   `cint` = built from integer literals by + - * / % and unary + -), or a ConstExpr call that
   fails when it is made at compile time *)
Theorem C02_only_div_zero_rejected : forall fe env cn e l,
  optimize fe env cn e = OFail l -> has_dz e = true \/ cx_fails fe env cn.
Proof. exact OptProofs.C02_only_div_zero_rejected. Qed.
Print Assumptions C02_only_div_zero_rejected.

Example C02_div_zero_is_rejected :
  exists l, optimize w_fe w_env [] (EBinary (A ki) BDiv (lit 1) (EBinary (A ki) BSub (lit 1) (lit 1))) = OFail l.
Proof. eexists. vm_compute. reflexivity. Qed.

(* such a call fails at run time too: the failure only moved *)
Theorem C02_constexpr_failure_moves : forall fe cfg env a name args vs er ctx s,
  const_args args = Some vs -> forallb lit_child_ok args = true -> fetch_fn fe env name = Ok name ->
  const_call fe env name vs = Fail er ->
  exists er' s', eval fe cfg env ctx (EFunction a name args false) s = Stop er' (aloc a) s'.
Proof. exact OptProofs.const_call_failure_is_runtime_failure. Qed.
Print Assumptions C02_constexpr_failure_moves.

Theorem C02_constexpr_pure : forall fe cfg env cn e,
  side_conditions fe cfg env cn e ->
  (forall e', optimize fe env cn e = OOk e' ->
     forall ctx s, rsim vsim cn (eval fe cfg env ctx e' s) (eval fe cfg env ctx e s)) /\
  (forall l, optimize fe env cn e = OFail l -> has_dz e = true \/ cx_fails fe env cn).
Proof. exact OptProofs.C02_constexpr_pure. Qed.
Print Assumptions C02_constexpr_pure.

(* ------------------------------------------------------------------ the model optimizer is the source's rules *)
(* gen/GenOpt.v is regenerated from /repo/optimizer/*.go on every run (translator/gen_opt.go): the
   statements of each pass's Exit and of Optimize as terms of the DSL of Opt/OptRules.v, whose
   interpreter runs them the way Go does (sequencing, goto, return, panics and the recover of
   const_expr.go, Go int wrap-around).  Nothing of the current source is outside the DSL: *)
Theorem C02_genopt_recognised : genopt_all_recognised = true.
Proof. exact BrOpt.genopt_recognised. Qed.
Print Assumptions C02_genopt_recognised.

(* Running the regenerated statements of Optimize, every `Walk(node, &pass{})` being the post-order
   walk with the regenerated Exit of that pass, gives the model's `optimize`: the same tree or the same
   rejection.  Side condition (decidable): operators are canonical throughout the tree, i.e. no
   `BUnknown "+"`, a second representation of a known spelling that the parser never builds
   (C02_parser_operators_canonical). *)
Theorem C02_model_optimizer_is_source_rules : forall fe env cnames e,
  optimize_bridge_ok e = true ->
  interp_optimize (gen_visitors GenOpt.passes fe env cnames) (has_names cnames) GenOpt.optimize_steps e
  = Some (optimize fe env cnames e).
Proof. exact BrOpt.model_optimizer_is_source_rules. Qed.
Print Assumptions C02_model_optimizer_is_source_rules.

Example C02_source_rules_side_condition_inhabited : optimize_bridge_ok x_expr = true.
Proof. exact BrOpt.optimize_bridge_ok_inhabited. Qed.
Example C02_source_rules_fire :
  exists e', interp_optimize (gen_visitors GenOpt.passes w_fe x_env []) (has_names []) GenOpt.optimize_steps x_expr = Some (OOk e')
             /\ e' <> x_expr.
Proof. exact BrOpt.gen_optimize_rewrites. Qed.

(* the driver alone: pass order, bounds 1000 / 100 (at most 1001 / 101 walks), `return x.err`,
   `break` when nothing was applied, the ConstExprFns guard *)
Theorem C02_optimize_steps_are_source : forall fe env cnames e,
  interp_optimize (model_visitors fe env cnames) (has_names cnames) GenOpt.optimize_steps e = Some (optimize fe env cnames e).
Proof. exact BrOpt.optimize_steps_bridge. Qed.
Print Assumptions C02_optimize_steps_are_source.

(* one node at a time: the regenerated Exit of each pass is the model's per-node visitor (same node,
   same `applied` flag, same error location) *)
Theorem C02_fold_is_source_rules : forall fe e, node_canonical e = true ->
  interp_rules (f_pow fe) (p_body GenOpt.fold_pass) e = rw_of (fold_v (f_pow fe) e).
Proof. exact (fun fe e => BrOpt.fold_rules_bridge (f_pow fe) e). Qed.
Print Assumptions C02_fold_is_source_rules.

Theorem C02_in_array_is_source_rules : forall fe e, node_canonical e = true ->
  interp_rules (f_pow fe) (p_body GenOpt.in_array_pass) e = rw_of (in_array_v e).
Proof. exact (fun fe e => BrOpt.in_array_rules_bridge (f_pow fe) e). Qed.
Print Assumptions C02_in_array_is_source_rules.

Theorem C02_in_range_is_source_rules : forall fe e, node_canonical e = true ->
  interp_rules (f_pow fe) (p_body GenOpt.in_range_pass) e = rw_of (in_range_v e).
Proof. exact (fun fe e => BrOpt.in_range_rules_bridge (f_pow fe) e). Qed.
Print Assumptions C02_in_range_is_source_rules.

Theorem C02_const_expr_is_source_rules : forall fe env cnames e,
  interp_pass (f_pow fe) (is_const_fn cnames) (const_call fe env) GenOpt.const_expr_pass e
  = rw_of (const_expr_v fe env cnames e).
Proof. exact (fun fe env cnames e => BrOpt.const_expr_bridge (f_pow fe) fe env cnames e). Qed.
Print Assumptions C02_const_expr_is_source_rules.

(* const_range.go fills the slice with `min.Value + i` in Go int arithmetic; the model's range_list
   does not wrap.  They agree for EVERY node since the repair 80e2856 (before it the statement was
   false: 9223372036854775807..-9223372036854775808 had the wrapped size 2 and was folded to
   [MaxInt, MinInt], the unoptimized program yielding []). *)
Theorem C02_const_range_is_source_rules : forall fe e, node_canonical e = true ->
  interp_rules (f_pow fe) (p_body GenOpt.const_range_pass) e = rw_of (const_range_v e).
Proof. exact (fun fe e => BrOpt.const_range_rules_bridge (f_pow fe) e). Qed.
Print Assumptions C02_const_range_is_source_rules.

(* the repaired inputs: the descending extreme range is folded to [] by rules and model alike, the
   full span MinInt..MaxInt (2^64 elements, wrapped size 0) is left to the run-time memory budget *)
Example C02_const_range_repaired :
  rw_of (const_range_v w_const_range_wrap) = RwOk (EConst ann0 (VArr (TNum KInt) [])) acc0 /\
  rw_of (const_range_v w_const_range_full) = RwOk w_const_range_full acc0.
Proof. exact (conj (proj2 BrOpt.const_range_repaired_witness) (proj2 BrOpt.const_range_full_span_untouched)). Qed.

(* the operators the parser stores are canonical *)
Theorem C02_parser_operators_canonical :
  (forall s, canon_unop (X.Parse.Parser.unop_of_string s) = true) /\
  (forall s, canon_binop (X.Parse.Parser.binop_of_string s) = true).
Proof. exact BrOpt.canonical_of_parser. Qed.
Print Assumptions C02_parser_operators_canonical.

(* ------------------------------------------------------------------------------------------------------------------
   CAPSTONES: the main theorems restated over the REGENERATED rewrite rules only (Bridge/BrCapstoneC02.v composes them with
   C02_model_optimizer_is_source_rules; the hand model Optimizer.optimize no longer occurs in the statements).
     source_optimize fe env cn e  =  interp_optimize (gen_visitors GenOpt.passes fe env cn) (has_names cn) GenOpt.optimize_steps e
   : the interpretation of the statements of optimizer.Optimize and of the five passes as regenerated into gen/GenOpt.v
   (Some r: the interpreter finished with the optimizer's result r).  Reference side: Sem.eval, rsim / obs_eq, has_dz.
   Hypotheses: `optimize_bridge_ok e` (the bridge's decidable condition: canonical operators throughout the tree) and the
   `side_conditions` of C02_transparent_partial (negations of the recorded findings + annotation soundness at rewrite sites). *)
Require Import X.Bridge.BrCapstoneC02.

Theorem C02_source_optimize_unfold : forall fe env cn e,
  source_optimize fe env cn e = interp_optimize (gen_visitors GenOpt.passes fe env cn) (has_names cn) GenOpt.optimize_steps e.
Proof. exact (fun fe env cn e => eq_refl). Qed.

Theorem C02_source_optimize_total : forall fe env cn e, optimize_bridge_ok e = true ->
  exists r, source_optimize fe env cn e = Some r.
Proof. exact src_optimize_total. Qed.

Theorem C02_source_transparent_partial : forall fe cfg env cn e e',
  optimize_bridge_ok e = true -> side_conditions fe cfg env cn e -> source_optimize fe env cn e = Some (OOk e') ->
  forall ctx s, rsim vsim cn (eval fe cfg env ctx e' s) (eval fe cfg env ctx e s).
Proof. exact src_transparent_partial. Qed.

Theorem C02_source_transparent_obs : forall fe cfg env cn e e',
  optimize_bridge_ok e = true -> side_conditions fe cfg env cn e -> source_optimize fe env cn e = Some (OOk e') ->
  forall ctx s, (forall l s1, eval fe cfg env ctx e s <> Stop EBudget l s1) ->
  obs_eq cn (eval fe cfg env ctx e' s) (eval fe cfg env ctx e s).
Proof. exact src_transparent_obs. Qed.

(* the regenerated rules reject only constant /0 and %0 (or a ConstExpr call failing at compile time) *)
Theorem C02_source_only_div_zero_rejected : forall fe env cn e l,
  optimize_bridge_ok e = true -> source_optimize fe env cn e = Some (OFail l) -> has_dz e = true \/ cx_fails fe env cn.
Proof. exact src_only_div_zero_rejected. Qed.

Theorem C02_source_constexpr_pure : forall fe cfg env cn e,
  optimize_bridge_ok e = true -> side_conditions fe cfg env cn e ->
  (forall e', source_optimize fe env cn e = Some (OOk e') ->
     forall ctx s, rsim vsim cn (eval fe cfg env ctx e' s) (eval fe cfg env ctx e s)) /\
  (forall l, source_optimize fe env cn e = Some (OFail l) -> has_dz e = true \/ cx_fails fe env cn).
Proof. exact src_constexpr_pure. Qed.

(* the full statement over the regenerated rules (every canonical tree, no side condition) is false: the nine
   witnesses of the recorded findings are canonical trees *)
Definition C02_source_transparent_full_statement : Prop := src_transparent_full_statement.
Theorem C02_source_full_statement_refuted :
  (optimize_bridge_ok w_budget = true /\ K_budget w_budget = true /\ ~ C02_source_transparent_full_statement) /\
  (optimize_bridge_ok w_array_type = true /\ K_array_fold w_array_type = true /\ ~ C02_source_transparent_full_statement) /\
  (optimize_bridge_ok w_array_deep = true /\ K_array_fold w_array_deep = true /\ ~ C02_source_transparent_full_statement) /\
  (optimize_bridge_ok w_double = true /\ K_in_range_double_eval w_double = true /\ ~ C02_source_transparent_full_statement) /\
  (optimize_bridge_ok w_nil_range = true /\ K_in_range_nil_type w_nil_range = true /\ ~ C02_source_transparent_full_statement) /\
  (optimize_bridge_ok w_narrow = true /\ K_in_range_narrow w_narrow = true /\ ~ C02_source_transparent_full_statement) /\
  (optimize_bridge_ok w_nil_array = true /\ ~ C02_source_transparent_full_statement) /\
  (optimize_bridge_ok w_retyped_int = true /\ K_retyped [] w_retyped_int = true /\ ~ C02_source_transparent_full_statement) /\
  (optimize_bridge_ok w_retyped_float = true /\ K_retyped [] w_retyped_float = true /\ ~ C02_source_transparent_full_statement).
Proof.
  exact (conj src_budget_refuted (conj src_array_fold_type_refuted (conj src_array_fold_deep_equal_refuted
        (conj src_in_range_double_eval_refuted (conj src_in_range_nil_type_refuted (conj src_in_range_narrow_int_refuted
        (conj src_in_array_nil_type_refuted (conj src_fold_retyped_int_refuted src_fold_retyped_float_refuted)))))))).
Qed.

Definition C02_source_capstones :=
  (C02_source_optimize_total, C02_source_transparent_partial, C02_source_transparent_obs, C02_source_only_div_zero_rejected,
   C02_source_constexpr_pure, C02_source_full_statement_refuted).
Print Assumptions C02_source_capstones.

(* non-vacuity: one tree meets ALL hypotheses at once and the regenerated rules rewrite it; the theorem applied;
   a constant 1 / (1 - 1) is rejected by the regenerated rules *)
Example C02_source_hypotheses_inhabited :
  optimize_bridge_ok x_expr = true /\ side_conditions w_fe (w_cfg 1000) x_env [] x_expr /\
  exists e', source_optimize w_fe x_env [] x_expr = Some (OOk e') /\ e' <> x_expr.
Proof. exact src_hypotheses_inhabited. Qed.

Example C02_source_transparent_applied : exists e', source_optimize w_fe x_env [] x_expr = Some (OOk e') /\ e' <> x_expr /\
  forall ctx s, rsim vsim [] (eval w_fe (w_cfg 1000) x_env ctx e' s) (eval w_fe (w_cfg 1000) x_env ctx x_expr s).
Proof. exact src_transparent_applied. Qed.

Example C02_source_div_zero_is_rejected :
  optimize_bridge_ok (EBinary (A ki) BDiv (lit 1) (EBinary (A ki) BSub (lit 1) (lit 1))) = true /\
  exists l, source_optimize w_fe w_env [] (EBinary (A ki) BDiv (lit 1) (EBinary (A ki) BSub (lit 1) (lit 1))) = Some (OFail l).
Proof. exact src_div_zero_is_rejected. Qed.

(* ------------------------------------------------------------------------------------------------------------------
   FINDING C02-iface-arith-typed-int (tenth recorded finding; Opt/IfaceArithFinding.v, everything by vm_compute).
   `checker.combined` ranks interface{} below every numeric kind, so `Any + 1` (Any : interface{}) is statically int;
   in_array / in_range then rewrite a membership test whose left value is a float64 at run time.
   Environment type: struct{ Any interface{} } (`ia_cc`, types table built by create_types_table); value: Any = 2.5. *)
Require X.Ty.Checker.
Require Import X.Opt.IfaceArithFinding.

(* the model checker types `Any + 1` int, and annotates the two raw trees exactly as the witnesses are annotated *)
Theorem C02_iface_arith_typed_int :
  X.Ty.Checker.check ia_cc raw_any_plus_1 = (TNum KInt, any_plus_1, None) /\
  X.Ty.Checker.check ia_cc raw_iface_array = (TBool, w_iface_array, None) /\
  X.Ty.Checker.check ia_cc raw_iface_range = (TBool, w_iface_range, None).
Proof. exact (conj iface_arith_typed_int (conj iface_array_checked iface_range_checked)). Qed.
Print Assumptions C02_iface_arith_typed_int.

(* the model optimizer rewrites both: `(Any + 1) in MAP{2, 3}` and `(Any + 1) >= 1 and (Any + 1) <= 5` *)
Theorem C02_iface_arith_rewritten :
  (optimize w_fe ia_env [] w_iface_array = OOk o_iface_array /\ o_iface_array <> w_iface_array) /\
  (optimize w_fe ia_env [] w_iface_range = OOk o_iface_range /\ o_iface_range <> w_iface_range).
Proof. exact (conj iface_array_rewritten iface_range_rewritten). Qed.
Print Assumptions C02_iface_arith_rewritten.

(* on Any = 2.5: false unoptimized vs a run-time failure optimized; false unoptimized vs true optimized *)
Theorem C02_iface_arith_observed :
  (val_of (ia_run w_iface_array) = Some (VBool false) /\ is_stop (ia_opt_run w_iface_array) = true) /\
  (val_of (ia_run w_iface_range) = Some (VBool false) /\ option_map val_of (ia_opt_run w_iface_range) = Some (Some (VBool true))).
Proof. exact (conj iface_array_false_vs_failure iface_range_false_vs_true). Qed.
Print Assumptions C02_iface_arith_observed.

Theorem C02_iface_arith_refuted : K_iface_arith w_iface_array = true /\ ~ C02_transparent_full_statement.
Proof. exact IfaceArithFinding.C02_iface_arith_refuted. Qed.
Print Assumptions C02_iface_arith_refuted.

Theorem C02_iface_arith_range_refuted : K_iface_arith w_iface_range = true /\ ~ C02_transparent_full_statement.
Proof. exact IfaceArithFinding.C02_iface_arith_range_refuted. Qed.
Print Assumptions C02_iface_arith_range_refuted.

(* the witnesses are OUTSIDE the hypotheses of C02_transparent_partial: the annotation-soundness side conditions
   `sc_in_array` (Site_ia: a left operand typed int evaluates to an int) resp. `sc_in_range` (Site_ir: the left operand
   evaluates to an integer of kind int / int64 / uint* ) fail at the root, while the syntactic carve-out `sc_good` holds *)
Theorem C02_iface_arith_outside_partial :
  ~ side_conditions w_fe (w_cfg 1000) ia_env [] w_iface_array /\
  ~ side_conditions w_fe (w_cfg 1000) ia_env [] w_iface_range.
Proof. exact IfaceArithFinding.C02_iface_arith_outside_partial. Qed.
Print Assumptions C02_iface_arith_outside_partial.

Theorem C02_iface_arith_excluded_by_site_conditions :
  ~ sites (Site_ia w_fe (w_cfg 1000) ia_env) w_iface_array /\
  (exists e3, before_in_range w_fe ia_env [] w_iface_range = OOk e3 /\ ~ sites (Site_ir w_fe (w_cfg 1000) ia_env) e3) /\
  good [] (pass_in_array w_iface_array) = true /\ good [] (pass_in_array w_iface_range) = true.
Proof. exact (conj iface_array_fails_Site_ia (conj iface_range_fails_Site_ir iface_witnesses_good)). Qed.
Print Assumptions C02_iface_arith_excluded_by_site_conditions.

(* Props/C13.v — Errors point at the offending source position.
   Only statements, each closed by `exact`, with Print Assumptions (+ Examples for non-vacuity).
   Models: File/Source.v (file/source.go, file/error.go), Lex/Lexer.v, Parse/Parser.v, Sem/Sem.v,
   BC/Compiler.v + BC/VM.v; each is tied to the code by executed correspondence on every run
   (Corr/CorrC13.v; Corr/CorrC12.v and Corr/CorrC11.v on the fault-injected multi-line sources of
   the C13 harness; Corr/CorrCore.v for compiler and VM in C01). *)
From Coq Require Import ZArith Bool List String.
Require Import X.Base.Num X.Base.Value X.Syn.Ast X.Syn.Tok X.Lex.Lexer X.Lex.LexProofs
               X.Parse.Parser X.Parse.Printer X.Parse.ParseProofs X.gen.GenGrammar X.Corr.CorrC11 X.Bridge.BrC11
               X.Sem.Prim X.Sem.Sem X.BC.Instr X.BC.Compiler X.BC.VM
               X.File.Source X.File.SourceProofs X.Corr.CorrC13.
Import ListNotations.
Open Scope Z_scope.
Open Scope list_scope.

(* ---- 1. the snippet: for EVERY source text (shorter than 2^31 - 1 runes: offsets are int32) and
   every line number between 1 and the number of lines, Snippet returns exactly that line of the
   text split at line feeds; for every other line number, and for every line of the empty text
   (special case of the code), it reports "not found"; it never slices out of range. *)
Theorem C13_snippet : forall s, len s < 2147483647 -> forall line, s <> [] -> 1 <= line <= nlines s ->
  snippet (newSource s) line = SFound (line_of s line).
Proof. exact snippet_is_line. Qed.
Print Assumptions C13_snippet.

Theorem C13_snippet_not_found : forall s, len s < 2147483647 -> forall line, line < 1 \/ nlines s < line ->
  snippet (newSource s) line = SNotFound.
Proof. exact snippet_not_found. Qed.
Print Assumptions C13_snippet_not_found.

Theorem C13_snippet_empty_source : forall line, snippet (newSource []) line = SNotFound.
Proof. exact snippet_empty_source. Qed.

Theorem C13_snippet_never_panics : forall s line, len s < 2147483647 -> snippet (newSource s) line <> SPanic.
Proof. exact snippet_never_panics. Qed.
Print Assumptions C13_snippet_never_panics.

(* `lines` is the split at LF: joined by LF the pieces give the text back, and no piece contains LF *)
Theorem C13_lines_is_split : forall s, join (lines s) = s /\ forall l, In l (lines s) -> ~ In 10 l.
Proof. exact (fun s => conj (join_lines s) (lines_no_lf s)). Qed.

(* ---- 2. every position the lexer can assign — `advance (1,0) pre` for a prefix `pre` of the text,
   which is what C12_positions proves token locations to be — lies inside the text: the line exists,
   0 <= column <= length of the line; the line begins with the last line of the prefix; the rune
   at that column is the rune that follows the prefix (so column < length), and column = length
   exactly when the position is the end of the text. *)
Theorem C13_position_inside : forall pre post,
  let s := pre ++ post in
  let p := advance (1, 0) pre in
  inside s p /\
  firstn (Z.to_nat (snd p)) (line_of s (fst p)) = last (lines pre) [] /\
  (forall r t, post = r :: t -> r <> 10 -> nth_error (line_of s (fst p)) (Z.to_nat (snd p)) = Some r) /\
  (post = [] -> snd p = len (line_of s (fst p))).
Proof. exact prefix_position. Qed.
Print Assumptions C13_position_inside.

(* every token the lexer returns for a laid-out token sequence (the domain of C12_positions:
   arbitrary tokens, arbitrary white space incl. line feeds, multi-byte runes) is located inside
   the text; for every token but EOF the column is strictly inside its line and the rune there is
   not a line feed; the EOF token sits at the last rune *)
Theorem C13_token_inside : forall uni_letter uni_digit uni_space items trail,
  layout_ok uni_letter uni_digit uni_space items trail = true ->
  exists toks, lex uni_letter uni_digit uni_space (layout items trail) = LexOk toks /\
    forall tok, In tok toks -> token_located (layout items trail) tok.
Proof. exact tokens_located. Qed.
Print Assumptions C13_token_inside.

(* ... and for EVERY input text, well-formed or not (invariant of the lexer state machine: every
   location in the state is a prefix position): every token the lexer returns and the location of
   the error it reports lie inside the text *)
Theorem C13_lexer_locations_inside : forall uni_letter uni_digit uni_space input,
  match lex uni_letter uni_digit uni_space input with
  | LexOk toks => forall t, In t toks -> inside input (tloc t)
  | LexErr e => inside input e
  | LexOutOfFuel => True
  end.
Proof. exact lex_locations_inside. Qed.
Print Assumptions C13_lexer_locations_inside.

(* ---- 3. the snippet of a token: for a token the lexer locates at (line, col), Snippet(line) is
   found, is that source line, and its rune at column col is the first rune of the token *)
Theorem C13_snippet_of_token : forall uni_letter uni_digit uni_space items trail tok,
  layout_ok uni_letter uni_digit uni_space items trail = true ->
  len (layout items trail) < 2147483647 ->
  In tok (expected (1, 0) items) ->
  exists ws t r w text,
    In (ws, t) items /\ tkind_of tok = tok_kind t /\ tval tok = tok_value t /\ tok_runes t = r :: w /\
    snippet (newSource (layout items trail)) (fst (tloc tok)) = SFound text /\
    text = line_of (layout items trail) (fst (tloc tok)) /\
    nth_error text (Z.to_nat (snd (tloc tok))) = Some r.
Proof. exact token_snippet. Qed.
Print Assumptions C13_snippet_of_token.

(* ---- 4. the indicator line: when the snippet up to and including the column is ASCII, the
   rendered snippet is "\n | " line "\n | " followed by exactly `col` dots and `^` (tabs of the line
   shown as blanks, which keeps the caret under the rune); after a multi-byte rune the indicator
   line is dropped (documented rendering of Error.Bind, finding (e): modelled, not counted) *)
Theorem C13_caret : forall c line col text,
  snippet (newSource c) line = SFound text -> 0 <= col <= len text ->
  ascii_run (firstn (S (Z.to_nat col)) text) = true ->
  bind (newSource c) (line, col) =
    BSnippet (line_prefix ++ untab text ++ line_prefix ++ repeat 46 (Z.to_nat col) ++ [94]).
Proof. exact caret_line. Qed.
Print Assumptions C13_caret.

Theorem C13_caret_dropped_after_multibyte : forall c line col text,
  snippet (newSource c) line = SFound text ->
  ascii_run (firstn (S (Z.to_nat col)) text) = false ->
  bind (newSource c) (line, col) = BSnippet (line_prefix ++ untab text).
Proof. exact caret_dropped. Qed.

Theorem C13_snippet_shows_line : forall c l text,
  snippet (newSource c) (fst l) = SFound text ->
  exists rest, bind (newSource c) l = BSnippet (line_prefix ++ untab text ++ rest).
Proof. exact bind_shows_line. Qed.
Print Assumptions C13_snippet_shows_line.

(* ---- 5. node locations = anchor tokens (glue to C11_roundtrip).  For every printable tree t — i.e.
   every tree the parser can produce, with ARBITRARY locations on its nodes — and every choice of
   parentheses: parsing the printed token list returns t, locations included, and the location of
   every node is carried by that node's anchor token in the list: operator token for
   unary/binary/matches, name token for identifier/property/method/function/builtin, `[` for
   index/slice/array, `{` for closure/map, `#` for the pointer (no other token carries a location).
   C13_parse_anchor_partial: the conditional is excluded (anchor_of = None), see below. *)
Theorem C13_parse_anchor_partial : forall (o : oracles) (fmt_int : Z -> string) (fmt_float : PrimFloat.float -> string) (c : poracle) (t : expr),
  printable gen_grammar fmt_int fmt_float o c t ->
  parse gen_grammar o (print_any gen_grammar fmt_int fmt_float c t) = ROk t /\
  forall path x kv, node_at_nb t path = Some x -> anchor_of fmt_int fmt_float x = Some kv ->
    In (anchor_token x kv) (print_any gen_grammar fmt_int fmt_float c t).
Proof. exact (fun o fi ff => parse_anchor gen_grammar fi ff o gen_grammar_wf). Qed.
Print Assumptions C13_parse_anchor_partial.

(* full statement for the conditional (DESIGN: anchored at `?`) — false of the code: the parser
   never gives ConditionalNode a location (known finding C13-conditional-no-location) *)
Definition C13_parse_anchor_full_statement : Prop := cond_anchor_full_statement.
Theorem C13_parse_anchor_conditional_refuted : ~ C13_parse_anchor_full_statement.
Proof. exact cond_anchor_refuted. Qed.
Print Assumptions C13_parse_anchor_conditional_refuted.

(* ---- 6. syntax errors: the first error of the parser carries the location of a token of the
   list (the token that was current when it was raised) — for every token list *)
Theorem C13_syntax_error_at_token : forall (o : oracles) ts l, ts <> [] ->
  parse gen_grammar o ts = RErr l -> exists t, In t ts /\ l = tloc t.
Proof. exact (syntax_error_at_token gen_grammar). Qed.
Print Assumptions C13_syntax_error_at_token.

(* lexer + parser: whatever Parse reports for ANY source text — the lexer's error, or the parser's
   first error on the lexer's tokens — is located inside the text *)
Theorem C13_syntax_error_inside : forall uni_letter uni_digit uni_space (o : oracles) src,
  match lex uni_letter uni_digit uni_space src with
  | LexErr e => inside src e
  | LexOk toks => forall l, parse gen_grammar o toks = RErr l -> inside src l
  | LexOutOfFuel => True
  end.
Proof. exact (fun ul ud us => syntax_error_inside ul ud us gen_grammar). Qed.
Print Assumptions C13_syntax_error_inside.

(* full statement for literals: an invalid number literal is reported AT the literal — false of the
   code (p.error reads p.current after p.next(): known finding C13-parse-error-at-next-token);
   what holds: it is reported at the token that follows *)
Definition C13_literal_error_full_statement : Prop := literal_error_full_statement.
Theorem C13_literal_error_refuted : ~ C13_literal_error_full_statement.
Proof. exact literal_error_refuted. Qed.
Print Assumptions C13_literal_error_refuted.
Theorem C13_literal_error_at_following_token : forall (g : grammar) (o : oracles) l0 v t1 rest,
  number_value (o_float o) v = NLBad ->
  parse g o (mkTok l0 TkNumber v :: t1 :: rest) = RErr (tloc t1).
Proof. exact literal_error_at_next. Qed.

(* ---- 7. run time (the Stop half of C01_compile_correct, executable form): when the language
   definition stops at the node located at l with class er, the compiled program run on the model
   VM stops with exactly that class and location (program.Locations[vm.pp]) *)
Theorem C13_run_loc : forall fe cfg env e er l r',
  compilable e = true ->
  eval fe cfg env [] e rs0 = Stop er l r' ->
  (er = EMachine -> l <> noloc) ->
  exists d0, forall d, (d0 <= d)%nat ->
    run_code fe cfg env (compile (c_mapenv cfg) e) d = Some (Stop er l r').
Proof. exact run_loc. Qed.
Print Assumptions C13_run_loc.

(* ... and that location is the location of a node of the expression — the node whose own operation
   fails (every Stop of the reference semantics is raised at `loc_of` the node being evaluated) *)
Theorem C13_run_loc_is_a_node : forall fe cfg env e ctx s er l s',
  eval fe cfg env ctx e s = Stop er l s' -> exists x, sub_of x e /\ l = loc_of x.
Proof. exact stop_located. Qed.
Print Assumptions C13_run_loc_is_a_node.

Theorem C13_run_loc_at_node : forall fe cfg env e er l r',
  compilable e = true ->
  eval fe cfg env [] e rs0 = Stop er l r' ->
  (er = EMachine -> l <> noloc) ->
  located_in e l /\
  exists d0, forall d, (d0 <= d)%nat ->
    run_code fe cfg env (compile (c_mapenv cfg) e) d = Some (Stop er l r').
Proof. exact run_loc_at_node. Qed.
Print Assumptions C13_run_loc_at_node.

(* ---- non-vacuity *)
Open Scope string_scope.
Open Scope list_scope.
(* three lines, a tab, multi-byte runes, a trailing line feed:  "a +<TAB>é\n  日本 * nope\n" *)
Definition C13_sample : list Z := [97; 32; 43; 9; 233; 10; 32; 32; 26085; 26412; 32; 42; 32; 110; 111; 112; 101; 10].
Example C13_snippet_nonvacuous :
  nlines C13_sample = 3 /\
  snippet (newSource C13_sample) 2 = SFound [32; 32; 26085; 26412; 32; 42; 32; 110; 111; 112; 101] /\
  snippet (newSource C13_sample) 3 = SFound [] /\ snippet (newSource C13_sample) 4 = SNotFound /\
  snippet (newSource C13_sample) 0 = SNotFound /\
  (* `nope` is at line 2 column 7: after the multi-byte runes the indicator line is dropped *)
  bind (newSource C13_sample) (2, 7) = BSnippet ([10; 32; 124; 32] ++ [32; 32; 26085; 26412; 32; 42; 32; 110; 111; 112; 101]) /\
  (* `+` at line 1 column 2: ASCII prefix, two dots and the caret; the tab is shown as a blank *)
  bind (newSource C13_sample) (1, 2) = BSnippet [10; 32; 124; 32; 97; 32; 43; 32; 233; 10; 32; 124; 32; 46; 46; 94] /\
  render C13_sample (1, 2) = Some ([10; 32; 124; 32; 97; 32; 43; 32; 233; 10; 32; 124; 32; 46; 46; 94],
                                   [32; 40; 49; 58; 51; 41; 10; 32; 124; 32; 97; 32; 43; 32; 233; 10; 32; 124; 32; 46; 46; 94]).
Proof. vm_compute. repeat split. Qed.

Example C13_token_nonvacuous :   (* the sample layout of C12: three lines, Greek identifiers *)
  layout_ok (fun r => ((913 <=? r)%Z && (r <=? 969)%Z)%bool) (fun _ => false) (fun _ => false)
    [([], PIdent 945 [946; 49]); ([32], POp2 60 (Some 61)); ([10; 9], PBracket 40); ([], PNum (NHex 120 [49; 70]));
     ([13; 10; 32], PIdent 111 [114])] [32; 10] = true.
Proof. vm_compute. reflexivity. Qed.

(* an unterminated literal broken by a line feed: the lexer reports (2,0), inside the two-line text *)
Example C13_lexer_error_nonvacuous :
  lex (fun _ => false) (fun _ => false) (fun _ => false) [97; 32; 43; 32; 34; 98; 10; 99] = LexErr (2, 0) /\
  nlines [97; 32; 43; 32; 34; 98; 10; 99] = 2.
Proof. vm_compute. split; reflexivity. Qed.

(* a ? b : c located as the lexer would: the conditional has no location in the model either *)
Example C13_conditional_has_no_location :
  parse gen_grammar (mkOracles (fun _ => None) (fun _ => true)) cond_witness =
  ROk (ECond ann0 (EIdent (at_loc (1, 0)) "a" false) (EIdent (at_loc (1, 4)) "b" false) (EIdent (at_loc (1, 8)) "c" false)).
Proof. vm_compute. reflexivity. Qed.

(* `99999999999999999999 + 1`: reported at the `+` (1,21), not at the literal (1,0) *)
Example C13_literal_error_witness :
  parse gen_grammar (mkOracles (fun _ => None) (fun _ => true))
    [mkTok (1, 0) TkNumber "99999999999999999999"; mkTok (1, 21) TkOperator "+"; mkTok (1, 23) TkNumber "1"; mkTok (1, 23) TkEOF ""]
  = RErr (1, 21).
Proof. vm_compute. reflexivity. Qed.

(* the anchor theorem applied to the example tree of C11 (all node kinds, extra parentheses) *)
Example C13_parse_anchor_nonvacuous :
  printable gen_grammar dec (fun _ => "1.5") (mkOracles (fun s => if String.eqb s "1.5" then Some PrimFloat.one else None) (fun _ => true)) no_extra
    (EBinary (at_loc (2, 3)) BAdd (EIdent (at_loc (1, 0)) "a" false)
       (EIndex (at_loc (3, 1)) (EIdent (at_loc (3, 0)) "b" false) (EUnary (at_loc (3, 2)) UMinus (EInt (at_loc (3, 3)) 1)))).
Proof. vm_compute. repeat split; try reflexivity; intros; discriminate. Qed.

(* ------------------------------------------------------------------------------------------
   Compile-time TYPE errors point at the offending node.  The checker model (Ty/Checker.v, tied to
   checker/checker.go by C03's executed correspondence) reports the FIRST fault in visiting order at
   the location of the node - or of the operand - that the violated rule names (first_fault /
   fault_loc of Ty/SoundProofs.v: single faults are the special case where nothing else fails).
   Under a result directive (AsBool / AsInt64 / AsFloat64) the pinned checker tests the expected kind
   BEFORE it returns the recorded error, so the position can be lost: that disjunct is the recorded
   finding C13-expect-kind-hides-position. *)
Require Import X.Ty.Types X.Ty.TypesTable X.Ty.Checker X.Ty.CheckProofs X.Ty.Sound X.Ty.SoundProofs.

Theorem C13_check_loc : forall c e l, cc_expect c = None -> first_fault c [] e l ->
  exists k, snd (check c e) = Some (l, k).
Proof. exact first_error_location_plain. Qed.
Print Assumptions C13_check_loc.

Theorem C13_check_loc_under_directive : forall c e l, first_fault c [] e l ->
  exists k, snd (check c e) = Some (l, k) \/
            (cc_expect c <> None /\ snd (check c e) = Some (noloc, CExpect)).
Proof. exact first_error_location. Qed.
Print Assumptions C13_check_loc_under_directive.

(* non-vacuity: `I + S * 2` (fault at the inner operator, column 6) and a fault inside a closure *)
Example C13_check_loc_nonvacuous :
  first_fault SWit.c [] LWit.e_inner (1%Z, 6%Z) /\ snd (check SWit.c LWit.e_inner) = Some ((1%Z, 6%Z), CMismatch2) /\
  first_fault SWit.c [] LWit.e_closure (1%Z, 11%Z) /\ snd (check SWit.c LWit.e_closure) = Some ((1%Z, 11%Z), CTooMany).
Proof. exact (conj LWit.e_inner_fault (conj LWit.e_inner_reported (conj LWit.e_closure_fault LWit.e_closure_reported))). Qed.

(* ---- GenSource: the functions of file/{source,error,location}.go (NewSource, updateOffsets, findLineOffset,
   Snippet, Content, findLine, Location.Empty, Error.format, Error.Error, Error.Bind) are REGENERATED on every
   run (gen/GenSource.v, DSL + interpreter File/SourceRules.v) and proved equal to the model File/Source.v,
   one lemma per function (Bridge/BrSource.v).  The statements are `Definition .._statement : Prop` in
   Bridge/BrSource.v; nothing is imported here (File/SourceRules.v has its own `eval`, `VStr`, ...). ---- *)
Require X.Bridge.BrSource.

(* every statement and expression of the ten functions is inside the DSL *)
Theorem C13_source_code_recognised : X.Bridge.BrSource.gensource_all_recognised = true.
Proof. exact X.Bridge.BrSource.gensource_recognised. Qed.
Print Assumptions C13_source_code_recognised.

(* for every fuel F: interpreting the regenerated NewSource / updateOffsets / findLineOffset / Snippet / Content /
   findLine / Empty / format / Error / Bind gives newSource / updateOffsets / findLineOffset / snippet / contents /
   findLine / the (0,0) test / msg ++ format_suffix / the same / bind, for all arguments that are Go values
   (line and column are ints, a slice length is an int, Column < MaxInt for Error(), at most 2^31 lines for
   NewSource, F above the number of runes for the loop of Bind) *)
Theorem C13_model_source_is_source_code : X.Bridge.BrSource.model_source_is_source_code_statement.
Proof. exact X.Bridge.BrSource.model_source_is_source_code. Qed.
Print Assumptions C13_model_source_is_source_code.

(* NewSource, then Bind, then Error() of the regenerated code produce exactly `render c l` of File/Source.v *)
Theorem C13_render_is_source_code : X.Bridge.BrSource.render_is_source_code_statement.
Proof. exact X.Bridge.BrSource.render_is_source_code. Qed.
Print Assumptions C13_render_is_source_code.

(* the struct declarations are the ones the model's records stand for; the only functions not read are the
   encoding/json glue MarshalJSON / UnmarshalJSON *)
Theorem C13_source_decls_are_model : X.Bridge.BrSource.source_decls_statement.
Proof. exact X.Bridge.BrSource.source_decls_are_model. Qed.
Print Assumptions C13_source_decls_are_model.

(* without `Column < MaxInt` the format statement is false of the Go code (Column+1 wraps, the model does not) *)
Theorem C13_error_format_full_statement_refuted : ~ X.Bridge.BrSource.format_full_statement.
Proof. exact X.Bridge.BrSource.format_full_statement_refuted. Qed.
Print Assumptions C13_error_format_full_statement_refuted.

(* non-vacuity: a three-line text with a tab and a two-byte rune; caret line, caret dropped after the
   two-byte rune, the text of Error(); all hypotheses of the theorems above hold for it *)
Example C13_gensource_examples : X.Bridge.BrSource.gensource_examples_statement.
Proof. exact X.Bridge.BrSource.gensource_examples. Qed.

(* ------------------------------------------------------------------------------------------------------------------
   CAPSTONES: sections 1-6 restated over the REGENERATED code only (Bridge/BrCapstoneC13.v composes the theorems about
   File/Source.v, Lex/Lexer.v, Parse/Parser.v with C13_model_source_is_source_code / C13_render_is_source_code,
   C12_model_lexer_is_source and C11_model_parser_is_source).  In the statements:
     source_Snippet F c line          results of the regenerated Snippet on the value the regenerated NewSource returns for text c
     source_error_text F c l msg      results of the regenerated Error() on the error the regenerated Bind returns for
                                      &Error{Location: l, Message: msg} and the regenerated NewSource(c)
                                      (both unfold to `interp F source_funs ...` over gen/GenSource.v: C13_source_file_package_unfold)
     LexRules.gen_lex .. lexer_funs / source_lexes, ParseRules.gen_parse parser_program, source_parse_text  (as in C12 / C11)
   Reference side: lines / line_of / nlines (split at LF), inside, token_located, untab, line_prefix, format_suffix.
   F bounds the iterations of every Go loop; hypotheses are those of the bridges: fewer than 2^31 - 1 runes, line and
   column are Go ints (in_int), Column < MaxInt, F above the number of runes. *)
Require X.File.SourceRules X.File.SourceRulesProofs X.gen.GenSource X.Lex.LexRules X.gen.GenLexer X.Parse.ParseRules X.gen.GenParser
        X.Bridge.BrCapstoneC12 X.Bridge.BrCapstoneC11.
Require Import X.Bridge.BrCapstoneC13.
Module SR := X.File.SourceRules.
Module SRP := X.File.SourceRulesProofs.

Theorem C13_source_file_package_unfold : forall F c line l msg,
  source_Snippet F c line =
    match SR.interp F GenSource.source_funs "NewSource" SR.VNone [SR.VStr c] with
    | SR.ROk (_, [src]) => results (SR.interp F GenSource.source_funs "Snippet" src [SR.VInt line])
    | SR.ROk _ => SR.RCrash "results of NewSource"
    | SR.RPanic => SR.RPanic | SR.RCrash w => SR.RCrash w | SR.RFuel => SR.RFuel
    end /\
  source_error_text F c l msg =
    match SR.interp F GenSource.source_funs "NewSource" SR.VNone [SR.VStr c] with
    | SR.ROk (_, [src]) =>
        match SR.interp F GenSource.source_funs "Bind" (SR.VErr (SR.mkErr l msg [])) [src] with
        | SR.ROk (_, [e']) => results (SR.interp F GenSource.source_funs "Error" e' [])
        | SR.ROk _ => SR.RCrash "results of Bind"
        | SR.RPanic => SR.RPanic | SR.RCrash w => SR.RCrash w | SR.RFuel => SR.RFuel
        end
    | SR.ROk _ => SR.RCrash "results of NewSource"
    | SR.RPanic => SR.RPanic | SR.RCrash w => SR.RCrash w | SR.RFuel => SR.RFuel
    end.
Proof. exact (fun F c line l msg => conj eq_refl eq_refl). Qed.

(* 1'. the regenerated Snippet: that line of the text split at LF / not found / never a panic, crash or fuel shortage *)
Theorem C13_source_snippet : forall F s, Source.len s < 2147483647 -> forall line, s <> [] -> 1 <= line <= nlines s ->
  source_Snippet F s line = SR.ROk [SR.VStr (line_of s line); SR.VBool true].
Proof. exact src_snippet. Qed.

Theorem C13_source_snippet_not_found : forall F s, Source.len s < 2147483647 -> forall line, SRP.in_int line ->
  line < 1 \/ nlines s < line -> source_Snippet F s line = SR.ROk [SR.VStr []; SR.VBool false].
Proof. exact src_snippet_not_found. Qed.

Theorem C13_source_snippet_empty_source : forall F line, SRP.in_int line -> source_Snippet F [] line = SR.ROk [SR.VStr []; SR.VBool false].
Proof. exact src_snippet_empty_source. Qed.

Theorem C13_source_snippet_total : forall F s line, Source.len s < 2147483647 -> SRP.in_int line ->
  exists t b, source_Snippet F s line = SR.ROk [SR.VStr t; SR.VBool b].
Proof. exact src_snippet_total. Qed.

(* 4'. the rendered error of the regenerated Bind / Error points at the given location, for all texts: message, then
   " (line:col+1)", then the line of the text and the indicator line with exactly col dots before the caret *)
Theorem C13_source_caret : forall F c msg line col,
  Source.len c < 2147483647 -> (List.length c < F)%nat -> c <> [] -> 1 <= line <= nlines c ->
  0 <= col <= Source.len (line_of c line) ->
  ascii_run (firstn (S (Z.to_nat col)) (line_of c line)) = true ->
  source_error_text F c (line, col) msg =
    SR.ROk [SR.VStr (msg ++ format_suffix (line, col)
                       (line_prefix ++ untab (line_of c line) ++ line_prefix ++ repeat 46 (Z.to_nat col) ++ [94]))].
Proof. exact src_caret. Qed.

Theorem C13_source_caret_dropped_after_multibyte : forall F c msg line col,
  Source.len c < 2147483647 -> (List.length c < F)%nat -> c <> [] -> 1 <= line <= nlines c -> 0 <= col < SRP.max_int ->
  ascii_run (firstn (S (Z.to_nat col)) (line_of c line)) = false ->
  source_error_text F c (line, col) msg =
    SR.ROk [SR.VStr (msg ++ format_suffix (line, col) (line_prefix ++ untab (line_of c line)))].
Proof. exact src_caret_dropped_after_multibyte. Qed.

Theorem C13_source_error_shows_line : forall F c msg l,
  Source.len c < 2147483647 -> (List.length c < F)%nat -> c <> [] -> 1 <= fst l <= nlines c -> 0 <= snd l < SRP.max_int ->
  exists rest, source_error_text F c l msg =
    SR.ROk [SR.VStr (msg ++ format_suffix l (line_prefix ++ untab (line_of c (fst l)) ++ rest))].
Proof. exact src_error_shows_line. Qed.

(* 2'./3'. every location the regenerated lexer assigns or reports lies inside the text (ANY input); on laid-out token
   sequences every token is located at its first rune, and the regenerated Snippet of its line shows it there *)
Theorem C13_source_lexer_locations_inside : forall uni_letter uni_digit uni_space input,
  match LexRules.gen_lex uni_letter uni_digit uni_space GenLexer.lexer_funs input with
  | LexRules.GenOk toks => forall t, In t toks -> inside input (tloc t)
  | LexRules.GenErr e => inside input e
  | LexRules.GenOutOfFuel => True
  | LexRules.GenCrash _ => False
  end.
Proof. exact src_lexer_locations_inside. Qed.

Theorem C13_source_token_inside : forall uni_letter uni_digit uni_space items trail,
  layout_ok uni_letter uni_digit uni_space items trail = true ->
  exists toks, BrCapstoneC12.source_lexes uni_letter uni_digit uni_space (LexProofs.layout items trail) toks /\
    forall tok, In tok toks -> token_located (LexProofs.layout items trail) tok.
Proof. exact src_token_inside. Qed.

Theorem C13_source_snippet_of_token : forall F uni_letter uni_digit uni_space items trail tok,
  layout_ok uni_letter uni_digit uni_space items trail = true ->
  Source.len (LexProofs.layout items trail) < 2147483647 ->
  In tok (expected (1, 0) items) ->
  BrCapstoneC12.source_lexes uni_letter uni_digit uni_space (LexProofs.layout items trail)
    (expected (1, 0) items ++ [mkTok (lastpos (1, 0) (1, 0) (LexProofs.layout items trail)) TkEOF EmptyString]) /\
  exists ws t r w text,
    In (ws, t) items /\ tkind_of tok = tok_kind t /\ tval tok = tok_value t /\ tok_runes t = r :: w /\
    source_Snippet F (LexProofs.layout items trail) (fst (tloc tok)) = SR.ROk [SR.VStr text; SR.VBool true] /\
    text = line_of (LexProofs.layout items trail) (fst (tloc tok)) /\
    nth_error text (Z.to_nat (snd (tloc tok))) = Some r.
Proof. exact src_snippet_of_token. Qed.

(* 5'./6'. the regenerated parser: node locations = anchor tokens; errors at a token of the list / inside the text *)
Theorem C13_source_parse_anchor_partial : forall (o : oracles) (fmt_int : Z -> string) (fmt_float : PrimFloat.float -> string) (c : poracle) (t : expr),
  printable gen_grammar fmt_int fmt_float o c t ->
  ParseRules.gen_parse GenParser.parser_program gen_grammar o (print_any gen_grammar fmt_int fmt_float c t) = Some (Parser.ROk t) /\
  forall path x kv, node_at_nb t path = Some x -> anchor_of fmt_int fmt_float x = Some kv ->
    In (anchor_token x kv) (print_any gen_grammar fmt_int fmt_float c t).
Proof. exact src_parse_anchor_partial. Qed.

Definition C13_source_parse_anchor_full_statement : Prop := src_cond_anchor_full_statement.
Theorem C13_source_parse_anchor_conditional_refuted : ~ C13_source_parse_anchor_full_statement.
Proof. exact src_cond_anchor_refuted. Qed.

Theorem C13_source_syntax_error_at_token : forall (o : oracles) ts l, ts <> [] ->
  ParseRules.gen_parse GenParser.parser_program gen_grammar o ts = Some (Parser.RErr l) -> exists t, In t ts /\ l = tloc t.
Proof. exact src_syntax_error_at_token. Qed.

Theorem C13_source_syntax_error_inside : forall uni_letter uni_digit uni_space (o : oracles) txt l,
  BrCapstoneC11.source_parse_text uni_letter uni_digit uni_space gen_grammar o txt = Some (Parser.RErr l) -> inside txt l.
Proof. exact src_syntax_error_inside. Qed.

Definition C13_source_literal_error_full_statement : Prop := src_literal_error_full_statement.
Theorem C13_source_literal_error_refuted : ~ C13_source_literal_error_full_statement.
Proof. exact src_literal_error_refuted. Qed.
Theorem C13_source_literal_error_at_following_token : forall (g : grammar) (o : oracles) l0 v t1 rest,
  number_value (o_float o) v = NLBad ->
  ParseRules.gen_parse GenParser.parser_program g o (mkTok l0 TkNumber v :: t1 :: rest) = Some (Parser.RErr (tloc t1)).
Proof. exact src_literal_error_at_following_token. Qed.

(* front to back, ANY text: the location the regenerated lexer + parser report lies inside the text, and the error text
   the regenerated NewSource / Bind / Error render for it shows exactly that line of the text *)
Theorem C13_source_syntax_error_rendered : forall F uni_letter uni_digit uni_space (o : oracles) txt l msg,
  Source.len txt < 2147483647 -> (List.length txt < F)%nat -> txt <> [] ->
  BrCapstoneC11.source_parse_text uni_letter uni_digit uni_space gen_grammar o txt = Some (Parser.RErr l) ->
  inside txt l /\
  exists rest, source_error_text F txt l msg =
    SR.ROk [SR.VStr (msg ++ format_suffix l (line_prefix ++ untab (line_of txt (fst l)) ++ rest))].
Proof. exact src_syntax_error_rendered. Qed.

Definition C13_source_capstones :=
  (C13_source_snippet, C13_source_snippet_not_found, C13_source_snippet_empty_source, C13_source_snippet_total, C13_source_caret,
   C13_source_caret_dropped_after_multibyte, C13_source_error_shows_line, C13_source_lexer_locations_inside, C13_source_token_inside,
   C13_source_snippet_of_token, C13_source_parse_anchor_partial, C13_source_parse_anchor_conditional_refuted,
   C13_source_syntax_error_at_token, C13_source_syntax_error_inside, C13_source_literal_error_refuted,
   C13_source_literal_error_at_following_token, C13_source_syntax_error_rendered).
Print Assumptions C13_source_capstones.

(* ---- non-vacuity: all hypotheses of C13_source_caret hold of the three-line sample at (1,2), the theorem applied; and the
   same RECOMPUTED through the interpreter of the regenerated NewSource / Bind / Error: "m (1:3)" + line + "..^" *)
Example C13_source_caret_nonvacuous :
  Source.len C13_sample < 2147483647 /\ (List.length C13_sample < 40)%nat /\ C13_sample <> [] /\ 1 <= 1 <= nlines C13_sample /\
  0 <= 2 <= Source.len (line_of C13_sample 1) /\ ascii_run (firstn (S (Z.to_nat 2)) (line_of C13_sample 1)) = true.
Proof. repeat split; vm_compute; try reflexivity; try discriminate; try (intro; discriminate); try (repeat constructor). Qed.

Example C13_source_caret_applied :
  source_error_text 40 C13_sample (1, 2) [109] =
    SR.ROk [SR.VStr ([109] ++ format_suffix (1, 2)
                       (line_prefix ++ untab (line_of C13_sample 1) ++ line_prefix ++ repeat 46 (Z.to_nat 2) ++ [94]))].
Proof.
  exact (C13_source_caret 40 C13_sample [109] 1 2
           (proj1 C13_source_caret_nonvacuous) (proj1 (proj2 C13_source_caret_nonvacuous))
           (proj1 (proj2 (proj2 C13_source_caret_nonvacuous))) (proj1 (proj2 (proj2 (proj2 C13_source_caret_nonvacuous))))
           (proj1 (proj2 (proj2 (proj2 (proj2 C13_source_caret_nonvacuous))))) (proj2 (proj2 (proj2 (proj2 (proj2 C13_source_caret_nonvacuous)))))).
Qed.

Example C13_source_caret_computed :
  source_error_text 40 C13_sample (1, 2) [109] =
    SR.ROk [SR.VStr [109; 32; 40; 49; 58; 51; 41; 10; 32; 124; 32; 97; 32; 43; 32; 233; 10; 32; 124; 32; 46; 46; 94]] /\
  source_Snippet 40 C13_sample 2 = SR.ROk [SR.VStr [32; 32; 26085; 26412; 32; 42; 32; 110; 111; 112; 101]; SR.VBool true] /\
  source_Snippet 40 C13_sample 4 = SR.ROk [SR.VStr []; SR.VBool false].
Proof. vm_compute. repeat split. Qed.

(* front to back, computed through the three regenerated interpreters: the unterminated literal of the two-line text  a + DQUOTE b LF c  is
   reported at (2,0) by the regenerated lexer, and rendered with line 2 of the text *)
Example C13_source_syntax_error_computed :
  BrCapstoneC11.source_parse_text (fun _ => false) (fun _ => false) (fun _ => false) gen_grammar (mkOracles (fun _ => None) (fun _ => true))
    [97; 32; 43; 32; 34; 98; 10; 99] = Some (Parser.RErr (2, 0)) /\
  source_error_text 20 [97; 32; 43; 32; 34; 98; 10; 99] (2, 0) [109] =
    SR.ROk [SR.VStr [109; 32; 40; 50; 58; 49; 41; 10; 32; 124; 32; 99; 10; 32; 124; 32; 94]].
Proof. vm_compute. split; reflexivity. Qed.

(* ---- ast/node.go `base` regenerated: a node's location is stored as the file.Location it was given and returned unchanged
        (the node locations of the theorems above are pairs (line, column) of unbounded integers) ---- *)
Require X.Bridge.BrAstBase.
Theorem C13_node_location_storage_is_source :
  X.gen.GenWalk.gen_base_fields = X.Bridge.BrAstBase.base_fields_model /\
  X.gen.GenWalk.gen_base_methods = X.Bridge.BrAstBase.base_methods_model /\
  X.Bridge.BrAstBase.stores_and_returns "loc" "Location" "SetLocation".
Proof. exact (conj (proj1 X.Bridge.BrAstBase.gen_base_is_model) (conj (proj2 X.Bridge.BrAstBase.gen_base_is_model) X.Bridge.BrAstBase.location_read_after_write)). Qed.
Print Assumptions C13_node_location_storage_is_source.

(* ------------------------------------------------------------------------------------------
   Front to back (Bridge/BrCapstoneFront.v): ONE statement over the four regenerated stages - lexer (gen/GenLexer.v),
   parser (gen/GenParser.v), checker (gen/GenChecker.v), file.Source / Error (gen/GenSource.v).  For EVERY text that
   spells a printable tree (any tree, any redundant parentheses, any white-space layout): the regenerated lexer and
   parser accept it and return the tree it spells; if the regenerated checker's first fault is at l, the checker rejects
   with location l; l - the location of the faulty node - is the position the regenerated lexer gave to that node's anchor
   token; it lies inside the text, and the regenerated NewSource / Bind / Error() show exactly that line.
   Carve-outs as explicit hypotheses: cc_expect c = None (finding C13-expect-kind-hides-position), l <> noloc (finding
   C13-conditional-no-location: a fault reported at a conditional node has the empty location). *)
Require X.Bridge.BrCapstoneFront.
Import ListNotations.
Local Open Scope Z_scope.
Local Open Scope list_scope.

Theorem C13_source_front_to_back : forall (F : nat) (ul ud us : Z -> bool) (o : X.Parse.Parser.oracles)
    (fmt_int : Z -> string) (fmt_float : PrimFloat.float -> string) (cp : X.Parse.Printer.poracle) (t : expr)
    (L : X.Parse.Render.layout) (c : X.Ty.Checker.cconfig) (msg : list Z),
  let toks := X.Parse.Printer.print_any X.Corr.CorrC11.gen_grammar fmt_int fmt_float cp t in
  let txt := X.Parse.Render.render ul ud us L toks in
  X.Parse.Printer.printable X.Corr.CorrC11.gen_grammar fmt_int fmt_float o cp t ->
  X.Parse.Render.tree_textable ul ud us fmt_int fmt_float t = true ->
  X.Parse.TextProofs.white L toks = true -> X.Parse.Render.distinct_locs toks = true ->
  X.File.Source.len txt < 2147483647 -> (List.length txt < F)%nat -> txt <> [] ->
  exists t',
    (* the regenerated lexer and parser accept the text, with the tree it spells *)
    X.Bridge.BrCapstoneC11.source_parse_text ul ud us X.Corr.CorrC11.gen_grammar o txt = Some (X.Parse.Parser.ROk t') /\
    X.Parse.Render.erase_loc t' = X.Parse.Render.erase_loc t /\
    (* if the regenerated checker's first fault is at l ... *)
    forall l, X.Bridge.BrChecker.checker_bridge_ok c t' = true -> X.Ty.Checker.cc_expect c = None ->
      X.Ty.SoundProofs.first_fault c [] t' l ->
      (* ... the regenerated checker rejects the tree and reports l *)
      (exists ty e'' k, X.Ty.CheckRules.gen_check c X.gen.GenChecker.checker_src t' = Some (ty, e'', Some (l, k))) /\
      (* ... l, being the location of the node at `path`, is the position the regenerated lexer gave to the anchor token
         of that node (the token of the spelling labelled with the node's label) *)
      forall path x x', X.Parse.Printer.node_at t path = Some x -> Ast.loc_of x <> noloc ->
        X.Parse.Printer.node_at t' path = Some x' -> Ast.loc_of x' = l ->
        l = X.Parse.Render.loc_at toks (X.Bridge.BrCapstoneC11.source_text_positions ul ud us txt) (Ast.loc_of x) /\
        (l <> noloc ->
           X.File.SourceProofs.inside txt l /\
           (* ... and the regenerated NewSource / Bind / Error() render exactly that line of the text *)
           exists rest, X.Bridge.BrCapstoneC13.source_error_text F txt l msg =
             X.File.SourceRules.ROk [X.File.SourceRules.VStr
               (msg ++ X.File.Source.format_suffix l
                         (X.File.Source.line_prefix ++ X.File.Source.untab (X.File.SourceProofs.line_of txt (fst l)) ++ rest))]).
Proof. exact X.Bridge.BrCapstoneFront.src_front_to_back. Qed.
Print Assumptions C13_source_front_to_back.

(* non-vacuity: the text "I + S * 2 " in the environment of C03 (I int, S string) meets every hypothesis; the fault is
   the inner node, reported at (1, 6) = the position of `*`; 32 runes of rendered error *)
Example C13_source_front_to_back_nonvacuous :
  X.Parse.Printer.printable X.Corr.CorrC11.gen_grammar X.Parse.Printer.dec X.Bridge.BrCapstoneFront.FWit.ff X.Bridge.BrCapstoneFront.FWit.o0 X.Parse.Printer.no_extra X.Bridge.BrCapstoneFront.FWit.tree /\
  X.Parse.Render.tree_textable X.Bridge.BrCapstoneFront.FWit.nf X.Bridge.BrCapstoneFront.FWit.nf X.Bridge.BrCapstoneFront.FWit.nf X.Parse.Printer.dec X.Bridge.BrCapstoneFront.FWit.ff X.Bridge.BrCapstoneFront.FWit.tree = true /\
  X.Parse.TextProofs.white X.Bridge.BrCapstoneFront.FWit.layout1 X.Bridge.BrCapstoneFront.FWit.toks = true /\ X.Parse.Render.distinct_locs X.Bridge.BrCapstoneFront.FWit.toks = true /\
  X.Bridge.BrCapstoneFront.FWit.txt = [73; 32; 43; 32; 83; 32; 42; 32; 50; 32] /\
  X.Bridge.BrCapstoneC11.source_parse_text X.Bridge.BrCapstoneFront.FWit.nf X.Bridge.BrCapstoneFront.FWit.nf X.Bridge.BrCapstoneFront.FWit.nf X.Corr.CorrC11.gen_grammar X.Bridge.BrCapstoneFront.FWit.o0 X.Bridge.BrCapstoneFront.FWit.txt
    = Some (X.Parse.Parser.ROk X.Bridge.BrCapstoneFront.FWit.tree) /\
  X.Bridge.BrChecker.checker_bridge_ok X.Ty.SoundProofs.SWit.c X.Bridge.BrCapstoneFront.FWit.tree = true /\
  X.Ty.Checker.cc_expect X.Ty.SoundProofs.SWit.c = None /\
  X.Ty.SoundProofs.first_fault X.Ty.SoundProofs.SWit.c [] X.Bridge.BrCapstoneFront.FWit.tree (1, 6) /\
  X.Parse.Printer.node_at X.Bridge.BrCapstoneFront.FWit.tree [1%nat] = Some X.Ty.SoundProofs.LWit.inner /\
  X.Parse.Render.loc_at X.Bridge.BrCapstoneFront.FWit.toks (X.Bridge.BrCapstoneC11.source_text_positions X.Bridge.BrCapstoneFront.FWit.nf X.Bridge.BrCapstoneFront.FWit.nf X.Bridge.BrCapstoneFront.FWit.nf X.Bridge.BrCapstoneFront.FWit.txt) (1, 6) = (1, 6) /\
  exists shown, X.Bridge.BrCapstoneC13.source_error_text 40 X.Bridge.BrCapstoneFront.FWit.txt (1, 6) [33] = X.File.SourceRules.ROk [X.File.SourceRules.VStr shown] /\
                List.length shown = 32%nat.
Proof. exact X.Bridge.BrCapstoneFront.src_front_to_back_hypotheses_inhabited. Qed.

(* the location of the checker's first fault is no free-floating pair: it is the location of a NODE of the checked tree
   (the faulty node, or the operand / argument / slice bound the violated rule names), reached by a path of child
   indices - or the empty location.  With C13_source_front_to_back (instantiate `path`, `x'` with this node): the
   reported position is the lexer position of that node's anchor token and its line is the one rendered. *)
Theorem C13_first_fault_at_node : forall c cols e l, X.Ty.SoundProofs.first_fault c cols e l ->
  l = noloc \/ exists path x, X.Parse.Printer.node_at e path = Some x /\ Ast.loc_of x = l.
Proof. exact X.Bridge.BrCapstoneFront.first_fault_at_node. Qed.
Print Assumptions C13_first_fault_at_node.

Example C13_first_fault_at_node_nonvacuous :
  X.Ty.SoundProofs.first_fault X.Ty.SoundProofs.SWit.c [] X.Ty.SoundProofs.LWit.e_closure (1, 11) /\
  exists path x, X.Parse.Printer.node_at X.Ty.SoundProofs.LWit.e_closure path = Some x /\ Ast.loc_of x = (1, 11) /\ path <> [].
Proof.
  split; [exact X.Ty.SoundProofs.LWit.e_closure_fault|].
  destruct (X.Bridge.BrCapstoneFront.first_fault_at_node _ _ _ _ X.Ty.SoundProofs.LWit.e_closure_fault) as [H|(path & x & H1 & H2)];
    [discriminate H|].
  exists path, x. split; [exact H1|]. split; [exact H2|]. intros ->. cbn in H1. injection H1 as <-. vm_compute in H2. discriminate H2.
Qed.

(* Props/C17.v — Operator overloading is equivalent to calling the function.
   Only statements, each closed by `exact`, with Print Assumptions; Examples for non-vacuity.

   Model (Ops/Overload.v): conf.FindSuitableOperatorOverload (find_overload), the checker's and the
   patcher's use of it (checker_binary_overload, overload_at), operatorPatcher.Exit (rewrite_one),
   compiler.PatchOperators (patch_ops: the walker model of Walk/Walk.v over `gen_walked`, the slot
   table REGENERATED from ast/visitor.go on this run), Config.Check (config_check).
   Static types of nodes: side table `tyof : loc -> ty` keyed by node location (node.Type()).
   reflect's Implements: oracle `implements`.  All theorems are for every oracle, types table,
   operators table, side table, tree, environment and function behaviour.

   REFERENCE (from the property text): ref_resolve (first candidate in table order whose two
   declared parameters equal the operand types or are interfaces they implement), explicit_form
   (structural recursion: every matching binary node becomes the call on its two operands in
   order), eval_overloaded = Sem.eval of the explicit-call form. *)
From Coq Require Import ZArith Bool List String.
Require Import X.Ty.Types X.Ty.TypesTable.
Require Import X.Base.Num X.Base.Value X.Syn.Ast X.Sem.Prim X.Sem.Sem X.Walk.Walk X.Walk.WalkProofs
               X.gen.GenWalk X.Bridge.BrC10 X.Ops.Overload X.Ops.OverloadProofs.
Import ListNotations.
Local Open Scope nat_scope.
Local Open Scope string_scope.

(* ---------------- the tie of the traversal to the code: the regenerated table is the reference *)
Theorem C17_walk_table_is_reference : forall k, gen_walked k = ref_slots k.
Proof. exact gen_walked_is_reference. Qed.
Print Assumptions C17_walk_table_is_reference.

(* ---------------- PatchOperators = the Exit rewrite applied at EVERY position *)
Theorem C17_patch_is_map_tree : forall implements types ops tyof,
  config_check types ops = true ->
  forall e n, esize e <= n ->
  patch_ops implements types ops tyof n e = PDone (map_tree (rewrite_one implements types ops tyof) e).
Proof. exact patch_is_map_tree. Qed.
Print Assumptions C17_patch_is_map_tree.

(* ... at every path through any child slot of any node kind (sliced / indexed operand, closure
   body, argument, map key / value, branch), to any depth *)
Theorem C17_every_position : forall implements types ops tyof p e x,
  subterm_at p e = Some x ->
  subterm_at p (map_tree (rewrite_one implements types ops tyof) e)
  = Some (map_tree (rewrite_one implements types ops tyof) x).
Proof. exact every_position. Qed.
Print Assumptions C17_every_position.

(* the code's lookup (receiver skipped through firstInIndex) is the reference resolution on the
   declared parameters, once Config.Check has accepted the functions; it cannot panic *)
Theorem C17_lookup_is_reference : forall implements types fns l r,
  (forall fn, In fn fns -> check_fn types fn = FnOk) ->
  find_overload implements types fns l r =
  match ref_resolve implements types fns l r with Some fn => FHit (out_of types fn) fn | None => FMiss end.
Proof. exact find_overload_ref. Qed.
Print Assumptions C17_lookup_is_reference.

(* the result of PatchOperators is the explicit-call form of the reference *)
Theorem C17_patch_is_explicit_form : forall implements types ops tyof,
  config_check types ops = true ->
  forall e n, esize e <= n ->
  patch_ops implements types ops tyof n e = PDone (explicit_form implements types ops tyof e).
Proof. exact patch_is_explicit_form. Qed.
Print Assumptions C17_patch_is_explicit_form.

(* ---------------- equivalence with the reference semantics, for every tree and environment *)
Theorem C17_equiv : forall implements types ops tyof,
  config_check types ops = true ->
  forall e n, esize e <= n ->
  exists t, patch_ops implements types ops tyof n e = PDone t /\
    forall fe cfg env ctx s,
      eval fe cfg env ctx t s = eval_overloaded implements types ops tyof fe cfg env ctx e s.
Proof. exact equiv. Qed.
Print Assumptions C17_equiv.

(* what the reference semantics says at an occurrence whose operand types match: operands left to
   right, then the first matching function is fetched and called with them (logged), failures at
   the operator's location *)
Theorem C17_overloaded_binary_sem : forall implements types ops tyof fe cfg env a op l r fn ctx s,
  ref_overload implements types ops tyof op l r = Some fn ->
  eval_overloaded implements types ops tyof fe cfg env ctx (EBinary a op l r) s =
  rbind (eval_overloaded implements types ops tyof fe cfg env ctx l s) (fun va s1 =>
  rbind (eval_overloaded implements types ops tyof fe cfg env ctx r s1) (fun vb s2 =>
  lift (aloc a) s2 (fetch_fn fe env fn) (fun id => do_call fe (aloc a) false id env [va; vb] s2))).
Proof. exact overloaded_binary_sem. Qed.
Print Assumptions C17_overloaded_binary_sem.

(* `a op b` (overloaded) evaluates exactly like `f(a, b)`: value, call trace, allocation count,
   failure class and location *)
Theorem C17_explicit_call : forall implements types ops tyof fe cfg env a op l r fn ctx s,
  ref_overload implements types ops tyof op l r = Some fn ->
  eval_overloaded implements types ops tyof fe cfg env ctx (EBinary a op l r) s =
  eval_overloaded implements types ops tyof fe cfg env ctx (EFunction a fn [l; r] false) s.
Proof. exact explicit_call. Qed.
Print Assumptions C17_explicit_call.

Theorem C17_call_trace : forall implements types ops tyof fe cfg env a op l r fn ctx s va s1 vb s2 id sg v,
  ref_overload implements types ops tyof op l r = Some fn ->
  eval_overloaded implements types ops tyof fe cfg env ctx l s = Done va s1 ->
  eval_overloaded implements types ops tyof fe cfg env ctx r s1 = Done vb s2 ->
  fetch_fn fe env fn = Ok id -> fn_sig fe id = Some sg ->
  args_ok (s_ins sg) (s_variadic sg) [va; vb] = true ->
  fn_run fe id env [va; vb] = Ok v -> (s_nout sg =? 0)%Z = false ->
  eval_overloaded implements types ops tyof fe cfg env ctx (EBinary a op l r) s = Done v (log_call s2 id [va; vb]).
Proof. exact overloaded_call_trace. Qed.
Print Assumptions C17_call_trace.

(* writing the calls out by hand gives a tree that the patcher leaves alone *)
Theorem C17_explicit_form_idempotent : forall implements types ops tyof e,
  explicit_form implements types ops tyof (explicit_form implements types ops tyof e)
  = explicit_form implements types ops tyof e.
Proof. exact explicit_form_idempotent. Qed.
Print Assumptions C17_explicit_form_idempotent.

(* ---------------- occurrences with other operand types keep the built-in meaning *)
Theorem C17_unmatched_keeps_builtin : forall implements types ops tyof a op l r,
  match overload_at implements types ops tyof op l r with FHit _ _ => False | _ => True end ->
  rewrite_one implements types ops tyof (EBinary a op l r) = EBinary a op l r.
Proof. exact unmatched_keeps_builtin. Qed.
Print Assumptions C17_unmatched_keeps_builtin.

Theorem C17_unmatched_sem : forall implements types ops tyof fe cfg env a op l r ctx s,
  ref_overload implements types ops tyof op l r = None ->
  eval_overloaded implements types ops tyof fe cfg env ctx (EBinary a op l r) s =
  eval fe cfg env ctx (EBinary a op (explicit_form implements types ops tyof l) (explicit_form implements types ops tyof r)) s.
Proof. exact unmatched_sem. Qed.
Print Assumptions C17_unmatched_sem.

Theorem C17_no_occurrence_unchanged : forall implements types ops tyof,
  config_check types ops = true ->
  forall e, (forall x, In x (preorder e) -> is_overloaded implements types ops tyof x = false) ->
  explicit_form implements types ops tyof e = e.
Proof. exact no_occurrence_unchanged. Qed.
Print Assumptions C17_no_occurrence_unchanged.

(* every node that is not an overloaded occurrence is interpreted as in Sem.eval: same node, the
   children in their overload-aware form *)
Theorem C17_other_nodes_as_in_sem : forall implements types ops tyof e,
  is_overloaded implements types ops tyof e = false ->
  explicit_form implements types ops tyof e
  = set_children e (map (explicit_form implements types ops tyof) (children e)).
Proof. exact explicit_form_children. Qed.
Print Assumptions C17_other_nodes_as_in_sem.

(* after PatchOperators the compiler never sees a binary node whose operand types match a candidate *)
Theorem C17_no_occurrence_remains : forall implements types ops tyof e,
  exists_node (is_overloaded implements types ops tyof) (explicit_form implements types ops tyof e) = false.
Proof. exact no_occurrence_remains. Qed.
Print Assumptions C17_no_occurrence_remains.

(* ---------------- expr.Compile with user visitors (expr.Patch): check, PatchOperators, visitors, check *)
(* FULL STATEMENT (false of the pinned tree): no binary node that the second check types as an
   overload reaches the compiler.  Refuted: a visitor's replacement can make operand types match
   only afterwards (`Y + B` with Y renamed to A), and PatchOperators is not run again *)
Definition C17_visitors_full_statement : Prop := visitors_full_statement.

Theorem C17_visitors_full_statement_refuted : ~ C17_visitors_full_statement.
Proof. exact visitors_full_statement_refuted. Qed.
Print Assumptions C17_visitors_full_statement_refuted.

(* carve-out: no visitor (finding C17-visitor-after-operators otherwise) *)
Theorem C17_visitors_partial : forall implements types ops tyof1 n e t,
  config_check types ops = true -> esize e <= n ->
  tree_for_compiler implements types ops tyof1 (fun x => x) n e = Some t ->
  exists_node (is_overloaded implements types ops tyof1) t = false.
Proof. exact visitors_partial. Qed.
Print Assumptions C17_visitors_partial.

(* ---------------- a mapping that names a missing or ill-shaped function is rejected *)
Theorem C17_config_rejects : forall types ops op fns fn,
  In (op, fns) ops -> In fn fns -> bad_target types fn -> config_check types ops = false.
Proof. exact config_rejects. Qed.
Print Assumptions C17_config_rejects.

Theorem C17_ambiguous_is_bad : forall types fn, tget fn types = Some amb_tag -> bad_target types fn.
Proof. exact ambiguous_is_bad. Qed.
Print Assumptions C17_ambiguous_is_bad.

Theorem C17_compile_rejects : forall implements types ops tyof op fns fn n e,
  In (op, fns) ops -> In fn fns -> bad_target types fn ->
  compile_front implements types ops tyof n e = None.
Proof. exact compile_rejects. Qed.
Print Assumptions C17_compile_rejects.

Theorem C17_config_accepts_well_shaped : forall types ops, config_check types ops = true ->
  forall op fns fn, In (op, fns) ops -> In fn fns -> well_shaped types fn.
Proof. exact config_accepts_well_shaped. Qed.
Print Assumptions C17_config_accepts_well_shaped.

(* ---------------- checker vs patcher *)
(* FULL STATEMENT (false of the pinned tree): the patcher resolves every binary node as the checker
   did, whatever checkFunc does to an enclosing argument afterwards *)
Definition C17_checker_patcher_agree_full_statement : Prop := checker_patcher_agree_full_statement.

Theorem C17_checker_patcher_agree_refuted : ~ C17_checker_patcher_agree_full_statement.
Proof. exact checker_patcher_agree_refuted. Qed.
Print Assumptions C17_checker_patcher_agree_refuted.

(* carve-out K_arg_retype: the node sits in a call argument that is an integer / arithmetic
   operation with a reachable integer literal (finding C17-arg-retype) *)
Theorem C17_checker_patcher_agree_partial : forall implements types ops tyof arg t op l r,
  K_arg_retype arg = false ->
  overload_at implements types ops (retyped tyof arg t) op l r = overload_at implements types ops tyof op l r.
Proof. exact checker_patcher_agree_partial. Qed.
Print Assumptions C17_checker_patcher_agree_partial.

(* ---------------- non-vacuity (vm_compute on the small universe of OverloadProofs.Ex) *)
Import Ex.
Local Notation patchE o := (patch_ops impl types o tyof).

(* the configuration is accepted; overloaded occurrences sit under a slice, an index, in a closure,
   as call argument, as map key and value, in both branches, nested, beside an unmatched one and
   one with interface parameters: all nine are rewritten, the unmatched one is kept *)
Example C17_everywhere_nonvacuous :
  config_check types ops = true /\
  patchE ops (esize everywhere) everywhere = PDone everywhere_explicit /\
  explicit_form impl types ops tyof everywhere = everywhere_explicit /\
  List.length (filter (is_overloaded impl types ops tyof) (preorder everywhere)) = 11 /\
  exists_node (is_overloaded impl types ops tyof) everywhere_explicit = false /\
  List.length (filter (fun x => match x with EBinary _ _ _ _ => true | _ => false end) (preorder everywhere_explicit)) = 1.
Proof. vm_compute. repeat split. Qed.

(* the order of the candidates matters: with Eq before EqMD, `A == D` resolves to Eq *)
Example C17_order_matters :
  ref_overload impl types ops tyof BEq (idt 4 "A") (idt 30 "D") = Some "EqMD" /\
  ref_overload impl types ops_rev tyof BEq (idt 4 "A") (idt 30 "D") = Some "Eq" /\
  config_check types ops_rev = true.
Proof. vm_compute. repeat split. Qed.

(* a method of the environment: its first input is the receiver *)
Example C17_method_receiver :
  config_check types ops_method = true /\
  patchE ops_method 3 (bin 53 BAdd (idt 6 "A") (idt 7 "B")) = PDone (call 53 "MAdd" (idt 6 "A") (idt 7 "B")).
Proof. vm_compute. repeat split. Qed.

(* running: (A + B) + 1 calls Add then AddInt with the operands in order *)
Example C17_run_nested :
  match patchE ops 5 nested with
  | PDone t =>
      eval fe cfg env [] t rs0
      = Done (money 4) (mkRS 0 [("Add", [money 1; money 2]); ("AddInt", [money 3; vint 1])]) /\
      eval_overloaded impl types ops tyof fe cfg env [] nested rs0 = eval fe cfg env [] t rs0
  | _ => False
  end.
Proof. vm_compute. repeat split. Qed.

(* hypotheses of C17_call_trace are satisfiable *)
Example C17_call_trace_nonvacuous :
  ref_overload impl types ops tyof BAdd (idt 9 "A") (idt 0 "B") = Some "Add" /\
  eval_overloaded impl types ops tyof fe cfg env [] (idt 9 "A") rs0 = Done (money 1) rs0 /\
  fetch_fn fe env "Add" = Ok "Add" /\
  args_ok [tMoney; tMoney] false [money 1; money 2] = true.
Proof. vm_compute. repeat split. Qed.

(* rejected mappings: missing, not a function, ambiguous, one operand, a method with one operand
   (NumIn = 2 counts the receiver), three operands, two results, no result *)
Example C17_rejects_nonvacuous :
  map (fun fn => verdict_idx (check_fn types fn)) ["Nope"; "N"; "Amb"; "Id"; "MOne"; "Three"; "TwoOut"; "NoOut"; "Add"; "MAdd"]
  = [1; 1; 1; 2; 2; 2; 2; 2; 0; 0]%Z /\
  map (fun fn => config_check types [(BAdd, ["Add"; fn])]) ["Nope"; "N"; "Amb"; "Id"; "MOne"; "Three"; "TwoOut"; "NoOut"]
  = repeat false 8.
Proof. vm_compute. repeat split. Qed.

Example C17_bad_target_nonvacuous : bad_target types "MOne" /\ bad_target types "Nope" /\ bad_target types "Amb".
Proof.
  repeat split.
  - right. eexists. split; [reflexivity|]. right. right. exists [tEnv; tMoney], [tMoney]. split; [reflexivity|].
    left. cbn. discriminate.
  - left. reflexivity.
  - apply ambiguous_is_bad. reflexivity.
Qed.

(* without Config.Check the lookup panics on such a function (In(1) of a one-input func) *)
Example C17_unchecked_lookup_panics :
  find_overload impl types ["Id"] tMoney tMoney = FPanic /\
  patchE [(BAdd, ["Id"])] 3 (bin 53 BAdd (idt 6 "A") (idt 7 "B")) = PPanic.
Proof. vm_compute. repeat split. Qed.

(* ------------------------------------------------------------------------------------------
   The model IS the source (GenTables): conf/operators_table.go FindSuitableOperatorOverload,
   conf/config.go Config.Check and compiler/patcher.go operatorPatcher.Exit are read statement by
   statement by /verif/translator/gen_tables.go on every run into gen/GenTables.v; interpreting the
   REGENERATED statements (Ty/TableRules.v; reflect's In/Out/NumIn/NumOut/Kind/Implements and
   node.Type() are the oracles of Ops/Overload.v, ast.Patch is Walk.patch) gives find_overload,
   rewrite_one / panics_at and config_check, for every oracle, table, operand type and node.
   `table_sigs_ok` (decidable): no function type of the table has a nil parameter type - a
   description no Go type has; without it the statement is false (C17_model_overload_is_source_refuted). *)
Require X.Ty.TableRules X.gen.GenTables X.Ops.OverloadRules X.Bridge.BrTables.

Theorem C17_gentables_recognised : forallb X.Ty.TableRules.fdef_ok X.gen.GenTables.funcs = true.
Proof. exact X.Bridge.BrTables.gentables_recognised. Qed.
Print Assumptions C17_gentables_recognised.

Theorem C17_model_overload_is_source : forall implements types cands l r fuel,
  X.Ops.OverloadRules.table_sigs_ok types = true -> 0 < fuel ->
  X.Ops.OverloadRules.gen_find_overload X.gen.GenTables.funcs implements types fuel cands l r
  = Some (find_overload implements types cands l r).
Proof. exact X.Bridge.BrTables.find_overload_bridge. Qed.
Print Assumptions C17_model_overload_is_source.

(* Exit on EVERY node: XDone (rewrite_one e), or XPanic exactly where panics_at e *)
Theorem C17_model_patcher_is_source : forall implements types ops tyof e fuel,
  X.Ops.OverloadRules.table_sigs_ok types = true -> 2 <= fuel ->
  X.Ops.OverloadRules.gen_exit X.gen.GenTables.funcs implements types ops tyof fuel e
  = Some (X.Ops.OverloadRules.exit_model implements types ops tyof e).
Proof. exact X.Bridge.BrTables.exit_bridge. Qed.
Print Assumptions C17_model_patcher_is_source.

Theorem C17_model_patcher_rewrites : forall implements types ops tyof e fuel,
  X.Ops.OverloadRules.table_sigs_ok types = true -> 2 <= fuel -> panics_at implements types ops tyof e = false ->
  X.Ops.OverloadRules.gen_exit X.gen.GenTables.funcs implements types ops tyof fuel e
  = Some (X.Ops.OverloadRules.XDone (rewrite_one implements types ops tyof e)).
Proof. exact X.Bridge.BrTables.exit_rewrites. Qed.
Print Assumptions C17_model_patcher_rewrites.

(* Config.Check: the error it returns (ordinal of the fmt.Errorf, or the stored c.err) *)
Theorem C17_model_config_check_is_source : forall types ops cfns err fuel, 0 < fuel ->
  X.Ops.OverloadRules.gen_config_check X.gen.GenTables.funcs types ops cfns err fuel
  = X.Ty.TableRules.Got (X.Ops.OverloadRules.check_outcome types ops cfns err).
Proof. exact X.Bridge.BrTables.config_check_bridge. Qed.
Print Assumptions C17_model_config_check_is_source.

(* ... an operator error (first or second fmt.Errorf) exactly when the model's config_check rejects *)
Theorem C17_model_config_check_gate : forall types ops cfns err fuel, 0 < fuel ->
  (config_check types ops = false <->
   (X.Ops.OverloadRules.gen_config_check X.gen.GenTables.funcs types ops cfns err fuel = X.Ty.TableRules.Got (Some 0) \/
    X.Ops.OverloadRules.gen_config_check X.gen.GenTables.funcs types ops cfns err fuel = X.Ty.TableRules.Got (Some 1))
   /\ X.Ops.OverloadRules.first_bad types ops <> FnOk).
Proof. exact X.Bridge.BrTables.config_check_gate. Qed.
Print Assumptions C17_model_config_check_gate.

Definition C17_model_overload_is_source_full_statement : Prop := X.Bridge.BrTables.find_overload_bridge_full_statement.
Theorem C17_model_overload_is_source_refuted :
  find_overload (fun _ _ => false) X.Bridge.BrTables.OWit.bad_types ["f"] TBool TBool = FMiss /\
  X.Ops.OverloadRules.gen_find_overload X.gen.GenTables.funcs (fun _ _ => false) X.Bridge.BrTables.OWit.bad_types 1 ["f"] TBool TBool
    = Some FPanic /\
  ~ C17_model_overload_is_source_full_statement.
Proof. exact X.Bridge.BrTables.find_overload_bridge_refuted. Qed.
Print Assumptions C17_model_overload_is_source_refuted.

(* non-vacuity: a table with a method candidate, an interface parameter, a one-parameter function and
   an ambiguous entry has well-formed signatures; lookup hits (plain, method, interface), misses and panics *)
Example C17_model_overload_is_source_nonvacuous :
  X.Ops.OverloadRules.table_sigs_ok X.Bridge.BrTables.OWit.types = true /\
  X.Ops.OverloadRules.gen_find_overload X.gen.GenTables.funcs X.Bridge.BrTables.OWit.impl X.Bridge.BrTables.OWit.types 1
    ["Scale"; "add"] X.Bridge.BrTables.OWit.V X.Bridge.BrTables.OWit.V = Some (FHit X.Bridge.BrTables.OWit.V "add").
Proof.
  exact (conj (proj1 X.Bridge.BrTables.overload_bridges_inhabited) (proj1 (proj2 X.Bridge.BrTables.overload_bridges_inhabited))).
Qed.

(* ------------------------------------------------------------------------------------------------------------------
   CAPSTONES (C17 / C10): the main theorems restated over the REGENERATED patcher only (Bridge/BrCapstoneC17.v composes them
   with C17_model_patcher_is_source, C17_model_overload_is_source, C17_model_config_check_gate; Overload.patch_ops /
   rewrite_one / config_check no longer occur in the statements).
     source_exit impl types ops tyof F x         what the interpretation of the regenerated operatorPatcher.Exit leaves in *node
     source_patch_ops impl types ops tyof F n e  compiler.PatchOperators: the walker over the slot table gen_walked REGENERATED
                                                 from ast/visitor.go, with the regenerated Exit as visitor
     source_config_accepts types ops cfns err F  the interpretation of the regenerated Config.Check returns no error
   Reference side: map_tree, subterm_at, explicit_form, ref_resolve, eval_overloaded, Sem.eval.
   Hypotheses: table_sigs_ok (decidable condition of the bridge), fuel F >= 2 for Exit, esize e <= n for the walk. *)
Require Import X.Bridge.BrCapstoneC17.

Theorem C17_source_patcher_unfold : forall implements types ops tyof F n e x cfns err,
  source_exit implements types ops tyof F x =
    match X.Ops.OverloadRules.gen_exit X.gen.GenTables.funcs implements types ops tyof F x with
    | Some (X.Ops.OverloadRules.XDone x') => x' | _ => x end /\
  source_patch_ops implements types ops tyof F n e =
    match ops with
    | [] => PDone e
    | _ :: _ =>
        match walk n gen_walked (to_visitor (source_exit_visitor implements types ops tyof F)) false e with
        | WDone false e' => PDone e' | WDone true _ => PPanic | WPanic => PPanic | WOutOfFuel => PFuel
        end
    end /\
  (source_config_accepts types ops cfns err F <->
   X.Ops.OverloadRules.gen_config_check X.gen.GenTables.funcs types ops cfns err F = X.Ty.TableRules.Got None).
Proof. exact (fun implements types ops tyof F n e x cfns err => conj eq_refl (conj eq_refl (iff_refl _))). Qed.

(* regenerated patcher over the regenerated walk table = the regenerated Exit applied at EVERY position *)
Theorem C17_source_patch_is_map_tree : forall implements types ops tyof,
  X.Ops.OverloadRules.table_sigs_ok types = true ->
  forall cfns err F, 2 <= F -> source_config_accepts types ops cfns err F ->
  forall e n, esize e <= n ->
  source_patch_ops implements types ops tyof F n e = PDone (map_tree (source_exit implements types ops tyof F) e).
Proof. exact src_patch_is_map_tree. Qed.

Theorem C17_source_every_position : forall implements types ops tyof,
  X.Ops.OverloadRules.table_sigs_ok types = true ->
  forall F p e x, 2 <= F -> subterm_at p e = Some x ->
  subterm_at p (map_tree (source_exit implements types ops tyof F) e) = Some (map_tree (source_exit implements types ops tyof F) x).
Proof. exact src_every_position. Qed.

(* ... = the explicit-call form of the reference *)
Theorem C17_source_patch_is_explicit_form : forall implements types ops tyof,
  X.Ops.OverloadRules.table_sigs_ok types = true ->
  forall cfns err F, 2 <= F -> source_config_accepts types ops cfns err F ->
  forall e n, esize e <= n ->
  source_patch_ops implements types ops tyof F n e = PDone (explicit_form implements types ops tyof e).
Proof. exact src_patch_is_explicit_form. Qed.

(* ... = the reference overloaded semantics, every tree / environment / context / state *)
Theorem C17_source_equiv : forall implements types ops tyof,
  X.Ops.OverloadRules.table_sigs_ok types = true ->
  forall cfns err F, 2 <= F -> source_config_accepts types ops cfns err F ->
  forall e n, esize e <= n ->
  exists t, source_patch_ops implements types ops tyof F n e = PDone t /\
    forall fe cfg env ctx s,
      eval fe cfg env ctx t s = eval_overloaded implements types ops tyof fe cfg env ctx e s.
Proof. exact src_equiv. Qed.

(* the regenerated lookup of operators_table.go is the reference resolution on the declared parameters *)
Theorem C17_source_lookup_is_reference : forall implements types,
  X.Ops.OverloadRules.table_sigs_ok types = true ->
  forall F fns l r, 0 < F -> (forall fn, In fn fns -> check_fn types fn = FnOk) ->
  X.Ops.OverloadRules.gen_find_overload X.gen.GenTables.funcs implements types F fns l r =
  Some (match ref_resolve implements types fns l r with Some fn => FHit (out_of types fn) fn | None => FMiss end).
Proof. exact src_lookup_is_reference. Qed.

(* the regenerated Config.Check rejects a mapping naming a missing / ambiguous / ill-shaped function *)
Theorem C17_source_config_rejects : forall types ops cfns err F op fns fn, 0 < F ->
  In (op, fns) ops -> In fn fns -> bad_target types fn ->
  X.Ops.OverloadRules.gen_config_check X.gen.GenTables.funcs types ops cfns err F = X.Ty.TableRules.Got (Some 0) \/
  X.Ops.OverloadRules.gen_config_check X.gen.GenTables.funcs types ops cfns err F = X.Ty.TableRules.Got (Some 1).
Proof. exact src_config_rejects. Qed.

Definition C17_source_capstones :=
  (C17_source_patch_is_map_tree, C17_source_every_position, C17_source_patch_is_explicit_form, C17_source_equiv,
   C17_source_lookup_is_reference, C17_source_config_rejects).
Print Assumptions C17_source_capstones.

(* non-vacuity: the universe of C17_everywhere_nonvacuous meets ALL hypotheses at once (signatures well formed, the
   regenerated Config.Check accepts), and the regenerated patcher over the regenerated walk table, RECOMPUTED through the
   interpreter, rewrites all overloaded occurrences (under a slice, an index, in a closure, as argument, map key / value,
   both branches, nested) to the explicit-call form; the theorem applied *)
Example C17_source_hypotheses_hold :
  X.Ops.OverloadRules.table_sigs_ok types = true /\ source_config_accepts types ops [] None 2 /\
  source_patch_ops impl types ops tyof 2 (esize everywhere) everywhere = PDone everywhere_explicit /\
  everywhere_explicit <> everywhere.
Proof. split; [vm_compute; reflexivity|]. split; [vm_compute; reflexivity|]. split; [vm_compute; reflexivity|discriminate]. Qed.

Example C17_source_equiv_applied :
  exists t, source_patch_ops impl types ops tyof 2 (esize everywhere) everywhere = PDone t /\
    forall fe cfg env ctx s, eval fe cfg env ctx t s = eval_overloaded impl types ops tyof fe cfg env ctx everywhere s.
Proof.
  exact (C17_source_equiv impl types ops tyof (proj1 C17_source_hypotheses_hold) [] None 2 (le_n 2)
           (proj1 (proj2 C17_source_hypotheses_hold)) everywhere (esize everywhere) (le_n _)).
Qed.

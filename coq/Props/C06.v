(* Props/C06.v — The memory budget bounds what a run can allocate.  Statements about the model VM
   for ANY program (compiled or not), any environment, any budget. *)
From Coq Require Import ZArith Bool List String Lia.
Require Import X.Base.Num X.Base.Value X.Sem.Prim X.Sem.Sem X.BC.Instr X.BC.VM X.BC.Budget X.BC.RunProofs X.BC.BudgetRun X.Bridge.BrVM.
Import ListNotations.
Local Open Scope Z_scope.

(* one step: the counter of created elements never decreases; whenever it grows the new value is
   below the budget; a failing step leaves it unchanged *)
Theorem C06_step_invariant : forall fe env C cfg s, step_ok fe env C cfg s.
Proof. exact step_ok_all. Qed.
Print Assumptions C06_step_invariant.

(* a run that completes successfully has created fewer elements than the budget *)
Theorem C06_success_below :
  forall fe env C cfg n s v r last, mem s < c_limit cfg ->
  iter_tick fe cfg env C n s = Finished (Done v r) last -> r_mem r < c_limit cfg.
Proof. exact run_success_below. Qed.
Print Assumptions C06_success_below.

(* a run that needs fewer is never refused: whatever a run did under one budget (result or
   non-budget failure), it does identically under every budget above what it created *)
Theorem C06_never_refused :
  forall fe env C cfg cfg' n s r last,
  iter_tick fe cfg env C n s = Finished r last ->
  (match r with Stop EBudget _ _ => False | _ => True end) ->
  res_mem r < c_limit cfg' ->
  iter_tick fe cfg' env C n s = Finished r last.
Proof. exact run_limit_up. Qed.
Print Assumptions C06_never_refused.

(* a run whose evaluation has to create at least the budget fails with a budget error *)
Theorem C06_refused_at_budget :
  forall fe env C cfg cfg' n s v r last,
  iter_tick fe cfg env C n s = Finished (Done v r) last ->
  mem s < c_limit cfg' -> c_limit cfg' <= r_mem r ->
  exists m l r' last', (m <= n)%nat /\ iter_tick fe cfg' env C m s = Finished (Stop EBudget l r') last'.
Proof. exact run_limit_down. Qed.
Print Assumptions C06_refused_at_budget.

(* ranges whose end precedes their start create nothing; a range is accounted with its exact size *)
Theorem C06_range_size :
  forall lo hi, (hi < lo -> range_size lo hi = Some 0) /\
                (lo <= hi -> hi - lo + 1 <= max_of KInt -> range_size lo hi = Some (hi - lo + 1)) /\
                (forall n, range_size lo hi = Some n -> 0 <= n).
Proof.
  intros lo hi. unfold range_size. repeat split.
  - intros H. apply Z.ltb_lt in H. rewrite H. reflexivity.
  - intros H1 H2. replace (hi <? lo) with false by (symmetry; apply Z.ltb_ge; lia).
    apply Z.leb_le in H2. rewrite H2. reflexivity.
  - intros n. exact (range_size_nonneg lo hi n).
Qed.

(* the accounting code of vm/vm.go has the modelled shape (regenerated on every run) *)
Theorem C06_source_accounting_shape : GenVM.vm_unrecognised = [] /\ List.length GenVM.budget_events = 3%nat.
Proof. split; [exact translator_recognised_vm|rewrite budget_accounting_shape; reflexivity]. Qed.

(* ---- lines to add to Props/C06.v (GenVMSteps: the accounting statements of vm/vm.go, executed) ---- *)
Require X.BC.VMSteps X.gen.GenVMSteps X.Bridge.BrVMSteps.

(* the three allocating cases of the CURRENT vm/vm.go (size computation, overflow test, budget test,
   `vm.memory += size`, with Go's 64-bit wrap-around), run on a model state, are the model's step
   (alloc: refuse when the budget is reached, else count) *)
Theorem C06_range_accounting_is_source :
  forall fe cfg env C s l, fetch C (pc s) = Some (IRange, l) -> VMSteps.vm_rep_ok cfg s = true ->
  VMSteps.case_agrees fe cfg env C GenVMSteps.vm_src IRange l s.
Proof. exact BrVMSteps.case_OpRange_is_step. Qed.
Print Assumptions C06_range_accounting_is_source.

Theorem C06_array_accounting_is_source :
  forall fe cfg env C s l, fetch C (pc s) = Some (IArray, l) -> VMSteps.vm_rep_ok cfg s = true ->
  VMSteps.vm_in_scope IArray s = true -> VMSteps.case_agrees fe cfg env C GenVMSteps.vm_src IArray l s.
Proof. exact BrVMSteps.case_OpArray_is_step. Qed.
Print Assumptions C06_array_accounting_is_source.

Theorem C06_map_accounting_is_source :
  forall fe cfg env C s l, fetch C (pc s) = Some (IMap, l) -> VMSteps.vm_rep_ok cfg s = true ->
  VMSteps.vm_in_scope IMap s = true -> VMSteps.case_agrees fe cfg env C GenVMSteps.vm_src IMap l s.
Proof. exact BrVMSteps.case_OpMap_is_step. Qed.
Print Assumptions C06_map_accounting_is_source.

(* outside vm_in_scope the model and the Go text part: OpMap with a NEGATIVE size builds an empty map in Go
   and SUBTRACTS from vm.memory (make(map) takes no size); the model refuses the instruction.  No compiled
   program contains it (the size is len(node.Pairs)). *)
Theorem C06_map_negative_size_in_go :
  VMSteps.vm_rep_ok BrVMSteps.w_cfg BrVMSteps.w_mapneg_state = true /\
  VMSteps.vm_in_scope_at BrVMSteps.w_mapneg_code BrVMSteps.w_mapneg_state = false /\
  VMSteps.interp_case BrVMSteps.w_fe BrVMSteps.w_cfg VNil [] VMSteps.GOpcode
     (VMSteps.case_of GenVMSteps.vm_src "OpMap") VMSteps.VwNone noloc BrVMSteps.w_mapneg_state
    = Some (Next (mkSt 1 [VMap TString TIface []] [] (mkRS 4 []))) /\
  step BrVMSteps.w_fe BrVMSteps.w_cfg VNil BrVMSteps.w_mapneg_code BrVMSteps.w_mapneg_state
    = Crash EOther noloc (mkRS 5 []).
Proof. exact BrVMSteps.map_negative_size_in_go. Qed.
Print Assumptions C06_map_negative_size_in_go.

Example C06_vmsteps_nonvacuous :
  let s := mkSt 0 [vint 2; VBool true; VNil] [] (mkRS 7 []) in
  fetch [(IArray, noloc)] (pc s) = Some (IArray, noloc) /\
  VMSteps.vm_rep_ok BrVMSteps.w_cfg s = true /\ VMSteps.vm_in_scope IArray s = true /\
  step BrVMSteps.w_fe BrVMSteps.w_cfg VNil [(IArray, noloc)] s
    = Next (mkSt 1 [VArr TIface [VNil; VBool true]] [] (mkRS 9 [])).
Proof. vm_compute. repeat split; reflexivity. Qed.

(* ---- over the REGENERATED compiler schemes and the REGENERATED Run (BC/SourceCorrect.v) ---- *)
Require X.BC.SourceCorrect X.Sem.NoMachine X.BC.Compiler X.BC.Schemes X.gen.GenSchemes X.Syn.Ast.

(* the run read off the source - code from the regenerated schemes, accounting statements of OpArray / OpMap / OpRange
   inside the regenerated loop, machine in any state - is refused for the memory budget exactly when the language
   definition refuses *)
Theorem C06_source_budget_verdict_is_ref :
  forall fe cfg env c e dc before,
    X.Sem.NoMachine.fn_no_machine fe -> X.BC.Compiler.compilable e = true -> (X.Syn.Ast.esize e <= dc)%nat ->
    exists P, X.BC.Schemes.gen_compile_program X.gen.GenSchemes.schemes dc (c_mapenv cfg) c e = Some P /\
    exists d0, forall d, (d0 <= d)%nat ->
      VMSteps.run_guard fe cfg env P d init_state = true ->
      option_map X.BC.SourceCorrect.budget_verdict (VMSteps.interp_run fe cfg env P GenVMSteps.vm_src d before)
      = Some (X.BC.SourceCorrect.budget_verdict (run_ref fe cfg env c e)).
Proof. exact X.BC.SourceCorrect.source_budget_verdict_is_ref. Qed.
Print Assumptions C06_source_budget_verdict_is_ref.

(* filter(map([1, 2, 3], {# + 1}), ..) creates 8 elements: accepted under budget 9, refused under 8 and 7, on both
   sides; run_guard holds of the three runs *)
Example C06_source_budget_verdict_nonvacuous :
  match X.BC.SourceCorrect.cap_code with
  | Some P =>
      map (fun b => option_map X.BC.SourceCorrect.budget_verdict
                      (VMSteps.interp_run BrVMSteps.w_fe (mkCfg false b) VNil P GenVMSteps.vm_src 9 X.BC.SourceCorrect.cap_dirty))
          [9; 8; 7]
      = [Some false; Some true; Some true] /\
      map (fun b => X.BC.SourceCorrect.budget_verdict (run_ref BrVMSteps.w_fe (mkCfg false b) VNil CastNone X.BC.SourceCorrect.cap_ex))
          [9; 8; 7] = [false; true; true] /\
      forallb (fun b => VMSteps.run_guard BrVMSteps.w_fe (mkCfg false b) VNil P 9 init_state) [9; 8; 7] = true
  | None => False
  end.
Proof. exact X.BC.SourceCorrect.source_budget_verdict_nonvacuous. Qed.

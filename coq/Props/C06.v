(* Props/C06.v — The memory budget bounds what a run can allocate.  Statements about the model VM
   for ANY program (compiled or not), any environment, any budget. *)
From Coq Require Import ZArith Bool List String Lia.
Require Import X.Base.Num X.Base.Value X.Sem.Prim X.Sem.Sem X.BC.Instr X.BC.VM X.BC.Budget X.BC.RunProofs X.BC.BudgetRun X.Bridge.BrVM.
Import ListNotations.
Local Open Scope Z_scope.

(* one step: the counter of created elements never decreases; whenever it grows the new value is
   below the budget; a failing step leaves it unchanged *)
Theorem C06_step_invariant : forall fe env C cfg s, step_ok fe env C cfg s.
Proof. exact step_ok_all. Qed.
Print Assumptions C06_step_invariant.

(* a run that completes successfully has created fewer elements than the budget *)
Theorem C06_success_below :
  forall fe env C cfg n s v r last, mem s < c_limit cfg ->
  iter_tick fe cfg env C n s = Finished (Done v r) last -> r_mem r < c_limit cfg.
Proof. exact run_success_below. Qed.
Print Assumptions C06_success_below.

(* a run that needs fewer is never refused: whatever a run did under one budget (result or
   non-budget failure), it does identically under every budget above what it created *)
Theorem C06_never_refused :
  forall fe env C cfg cfg' n s r last,
  iter_tick fe cfg env C n s = Finished r last ->
  (match r with Stop EBudget _ _ => False | _ => True end) ->
  res_mem r < c_limit cfg' ->
  iter_tick fe cfg' env C n s = Finished r last.
Proof. exact run_limit_up. Qed.
Print Assumptions C06_never_refused.

(* a run whose evaluation has to create at least the budget fails with a budget error *)
Theorem C06_refused_at_budget :
  forall fe env C cfg cfg' n s v r last,
  iter_tick fe cfg env C n s = Finished (Done v r) last ->
  mem s < c_limit cfg' -> c_limit cfg' <= r_mem r ->
  exists m l r' last', (m <= n)%nat /\ iter_tick fe cfg' env C m s = Finished (Stop EBudget l r') last'.
Proof. exact run_limit_down. Qed.
Print Assumptions C06_refused_at_budget.

(* ranges whose end precedes their start create nothing; a range is accounted with its exact size *)
Theorem C06_range_size :
  forall lo hi, (hi < lo -> range_size lo hi = Some 0) /\
                (lo <= hi -> hi - lo + 1 <= max_of KInt -> range_size lo hi = Some (hi - lo + 1)) /\
                (forall n, range_size lo hi = Some n -> 0 <= n).
Proof.
  intros lo hi. unfold range_size. repeat split.
  - intros H. apply Z.ltb_lt in H. rewrite H. reflexivity.
  - intros H1 H2. replace (hi <? lo) with false by (symmetry; apply Z.ltb_ge; lia).
    apply Z.leb_le in H2. rewrite H2. reflexivity.
  - intros n. exact (range_size_nonneg lo hi n).
Qed.

(* the accounting code of vm/vm.go has the modelled shape (regenerated on every run) *)
Theorem C06_source_accounting_shape : GenVM.vm_unrecognised = [] /\ List.length GenVM.budget_events = 3%nat.
Proof. split; [exact translator_recognised_vm|rewrite budget_accounting_shape; reflexivity]. Qed.

(* Props/C11.v — Parsing follows the documented precedence and associativity.
   Only statements, each closed by `exact`, with Print Assumptions; Examples for non-vacuity. *)
From Coq Require Import ZArith Bool List String Ascii.
From Coq Require Floats.
Require Import X.Base.Num X.Base.Value X.Syn.Ast X.Syn.Tok X.Parse.Parser X.Parse.Printer X.Parse.ParseProofs
               X.Parse.RefGrammar X.gen.GenGrammar X.Corr.CorrC11 X.Bridge.BrC11.
Import ListNotations.
Open Scope Z_scope.
Open Scope string_scope.

(* ---- 1. the tables of parser/parser.go ARE the documented tables *)
Theorem C11_tables_are_reference :
  (forall s, lookup s gen_unary = lookup s ref_unary) /\
  (forall s, lookup s gen_binary = lookup s ref_binary) /\
  (forall s, lookup s gen_builtins = lookup s ref_builtins) /\
  gen_grammar = canon_grammar ref_grammar.
Proof. exact (conj gen_unary_is_ref (conj gen_binary_is_ref (conj gen_builtins_is_ref gen_grammar_is_ref))). Qed.
Print Assumptions C11_tables_are_reference.

(* ---- 2. round trip, for ALL trees and ALL parenthesis oracles (no depth bound), locations included.
   `printable c t` (Parse/Printer.v) characterises the trees the parser can produce and excludes
   additional parentheses only where they are not redundant (see 4. below). *)
Theorem C11_roundtrip : forall (o : oracles) (fmt_int : Z -> string) (fmt_float : PrimFloat.float -> string) (c : poracle) (t : expr),
  printable gen_grammar fmt_int fmt_float o c t ->
  parse gen_grammar o (print_any gen_grammar fmt_int fmt_float c t) = ROk t.
Proof. exact roundtrip_gen. Qed.
Print Assumptions C11_roundtrip.

(* printing with only the required parentheses *)
Theorem C11_roundtrip_min : forall (o : oracles) (fmt_int : Z -> string) (fmt_float : PrimFloat.float -> string) (t : expr),
  printable gen_grammar fmt_int fmt_float o no_extra t ->
  parse gen_grammar o (print_min gen_grammar fmt_int fmt_float t) = ROk t.
Proof. exact roundtrip_min_gen. Qed.
Print Assumptions C11_roundtrip_min.

(* redundant parentheses never change the tree *)
Theorem C11_redundant_parentheses : forall (o : oracles) (fmt_int : Z -> string) (fmt_float : PrimFloat.float -> string) (c1 c2 : poracle) (t : expr),
  printable gen_grammar fmt_int fmt_float o c1 t -> printable gen_grammar fmt_int fmt_float o c2 t ->
  parse gen_grammar o (print_any gen_grammar fmt_int fmt_float c1 t) =
  parse gen_grammar o (print_any gen_grammar fmt_int fmt_float c2 t).
Proof. exact redundant_parens_gen. Qed.
Print Assumptions C11_redundant_parentheses.

(* the printer follows the DOCUMENTED rules (reference tables), the parser uses the code's tables *)
Theorem C11_roundtrip_reference_printer : forall (o : oracles) (fmt_int : Z -> string) (fmt_float : PrimFloat.float -> string) (c : poracle) (t : expr),
  printable (canon_grammar ref_grammar) fmt_int fmt_float o c t ->
  parse gen_grammar o (print_any (canon_grammar ref_grammar) fmt_int fmt_float c t) = ROk t.
Proof. exact roundtrip_ref. Qed.
Print Assumptions C11_roundtrip_reference_printer.

(* the theorem is parametric in the tables: it holds for every grammar meeting the decidable side
   conditions, which the generated and the reference grammar do *)
Theorem C11_roundtrip_parametric : forall (g : grammar) (o : oracles) (fmt_int : Z -> string) (fmt_float : PrimFloat.float -> string),
  wf_grammar g = true -> forall (c : poracle) (t : expr),
  printable g fmt_int fmt_float o c t -> parse g o (print_any g fmt_int fmt_float c t) = ROk t.
Proof. exact roundtrip. Qed.
Print Assumptions C11_roundtrip_parametric.

Theorem C11_side_conditions : wf_grammar gen_grammar = true /\ wf_grammar ref_grammar = true /\ grammar_unrecognised = [].
Proof. exact (conj gen_grammar_wf (conj ref_grammar_wf translator_recognised_grammar)). Qed.
Print Assumptions C11_side_conditions.

(* the precedence-climbing invariant itself: an operand printed for level q with follower precedence
   f < q is returned by parseExpression(q) untouched, whatever follows *)
Theorem C11_operand : forall (o : oracles) (fmt_int : Z -> string) (fmt_float : PrimFloat.float -> string)
    (c : poracle) (d : nat) (t : expr) (q f : Z) (n : nat) (rest : list token),
  1 <= q -> f < q -> folb gen_grammar f rest = true ->
  wfp gen_grammar fmt_int fmt_float o c d (COp false q f) t ->
  (List.length (pr gen_grammar fmt_int fmt_float c (COp false q f) t) < n)%nat ->
  parse_expr gen_grammar o n q d (pr gen_grammar fmt_int fmt_float c (COp false q f) t ++ rest) = POk t rest.
Proof. exact (fun o fi ff => operand_parse gen_grammar o fi ff gen_grammar_wf). Qed.
Print Assumptions C11_operand.

(* ---- 3. the documented order of the binding powers, read off the generated table *)
Theorem C11_documented_order : documented_order_check = true.
Proof. exact documented_order. Qed.
Print Assumptions C11_documented_order.

(* every choice of additional parentheses is harmless, except around closures and map pairs (which
   are not expressions) and around an identifier whose NilSafe flag is set (known finding below):
   the decidable carve-out is `no_parens_allowed` of Parse/Printer.v *)
Theorem C11_any_parentheses : forall (o : oracles) (fmt_int : Z -> string) (fmt_float : PrimFloat.float -> string) (c : poracle) (t : expr),
  printable gen_grammar fmt_int fmt_float o no_extra t ->
  (forall path x, node_at t path = Some x -> no_parens_allowed x = true -> c path = O) ->
  parse gen_grammar o (print_any gen_grammar fmt_int fmt_float c t) = ROk t.
Proof. exact roundtrip_any_parens_gen. Qed.
Print Assumptions C11_any_parentheses.

(* ---- 4. what is NOT true of the pinned tree (known finding C11-paren-nilsafe-ident).
   Full statement: additional parentheses around ANY expression node are harmless whenever the tree
   is printable with the required ones only (closures and map pairs are not expressions). *)
Definition not_an_expression (x : expr) : bool :=
  match x with EClosure _ _ | EPair _ _ _ => true | _ => false end.

Definition C11_full_statement : Prop :=
  forall (o : oracles) (fmt_int : Z -> string) (fmt_float : PrimFloat.float -> string) (c : poracle) (t : expr),
    printable gen_grammar fmt_int fmt_float o no_extra t ->
    (forall path x, node_at t path = Some x -> not_an_expression x = true -> c path = O) ->
    parse gen_grammar o (print_any gen_grammar fmt_int fmt_float c t) = ROk t.

Definition o_none : oracles := mkOracles (fun _ => None) (fun _ => true).
Definition nilsafe_witness : expr := EProperty ann0 (EIdent ann0 "a" true) "b" true.
Definition paren_base : poracle := fun path => match path with [O] => 1%nat | _ => O end.

(* `a ?. b` and `( a ) ?. b`: IdentifierNode.NilSafe is true in the first tree, false in the second *)
Theorem C11_full_statement_refuted : ~ C11_full_statement.
Proof.
  intros H.
  assert (P : printable gen_grammar dec (fun _ => "") o_none no_extra nilsafe_witness).
  { vm_compute. repeat split; try reflexivity; intros; discriminate. }
  specialize (H o_none dec (fun _ => "") paren_base nilsafe_witness P).
  assert (B : forall path x, node_at nilsafe_witness path = Some x -> not_an_expression x = true -> paren_base path = O).
  { intros [|[|i] [|j r]] x N E; cbn in N; inversion N; subst; try discriminate E; reflexivity. }
  specialize (H B). vm_compute in H. discriminate H.
Qed.
Print Assumptions C11_full_statement_refuted.

Example C11_nilsafe_paren_trees :
  map tval (print_any gen_grammar dec (fun _ => "") paren_base nilsafe_witness) = ["("; "a"; ")"; "?."; "b"; ""] /\
  parse gen_grammar o_none (print_any gen_grammar dec (fun _ => "") paren_base nilsafe_witness)
    = ROk (EProperty ann0 (EIdent ann0 "a" false) "b" true) /\
  parse gen_grammar o_none (print_min gen_grammar dec (fun _ => "") nilsafe_witness) = ROk nilsafe_witness.
Proof. vm_compute. repeat split. Qed.

(* ---- non-vacuity: a tree with every kind of form meets the hypothesis, with and without extra parentheses *)
Definition ex_oracles : oracles :=
  mkOracles (fun s => if String.eqb s "1.5" then Some ex_float else None) (fun s => negb (String.eqb s "[a")).
Definition ex_fmt_float (f : PrimFloat.float) : string := "1.5".
Definition A0 := ann0.
Definition idt (s : string) := EIdent A0 s false.

Definition ex_tree : expr :=
  ECond A0
    (EBinary A0 BOrWord
       (EUnary A0 UNotWord (EMatches A0 (Some "^b.+") (idt "s") (EStr A0 "^b.+")))
       (EBinary A0 BLt (EBinary A0 BPow (EUnary A0 UMinus (EInt A0 2)) (EBinary A0 BPow (idt "x") (EFloat A0 ex_float)))
                      (EBinary A0 BMul (EBinary A0 BAdd (idt "a") (EInt A0 12)) (EUnary A0 UNotBang (idt "b")))))
    (EBuiltin A0 BiAll
       [EProperty A0 (EIndex A0 (EMethod A0 (EIdent A0 "u" true) "m" [idt "k"; ENil A0] true) (EInt A0 0)) "p" false;
        EClosure A0 (EBinary A0 BIn (EProperty A0 (EPointer A0) "z" false)
                       (ESlice A0 (EFunction A0 "f" [EBool A0 true] false) None (Some (EBinary A0 BRange (EInt A0 1) (EInt A0 3)))))])
    (ECond A0 (idt "c")
       (EArray A0 [idt "x"; EMap A0 [EPair A0 (EStr A0 "k") (idt "y"); EPair A0 (EBinary A0 BAdd (idt "k") (idt "l")) (ENil A0)]])
       (EBinary A0 BSub (EBinary A0 BSub (idt "p") (idt "q")) (ECond A0 (idt "r") (idt "s") (idt "t")))).

Definition ex_parens : poracle :=
  fun path => match path with [] => 2%nat | [O] => 1%nat | [O; O] => 1%nat | [2%nat; 1%nat; 0%nat] => 3%nat | [1%nat; 0%nat] => 1%nat | _ => O end.

Example C11_roundtrip_nonvacuous_min : printable gen_grammar dec ex_fmt_float ex_oracles no_extra ex_tree.
Proof.
  vm_compute. repeat split; try reflexivity; intros; try discriminate; try congruence;
    match goal with H : Some _ = Some _ |- _ => injection H as <-; reflexivity end.
Qed.

Example C11_roundtrip_nonvacuous_any : printable gen_grammar dec ex_fmt_float ex_oracles ex_parens ex_tree.
Proof.
  vm_compute. repeat split; try reflexivity; intros; try discriminate; try congruence;
    match goal with H : Some _ = Some _ |- _ => injection H as <-; reflexivity end.
Qed.

Example C11_any_parentheses_nonvacuous :
  forall path x, node_at ex_tree path = Some x -> no_parens_allowed x = true -> ex_parens path = O.
Proof.
  intros path x N E.
  assert (D : ex_parens path = O \/ In path [[]; [O]; [O; O]; [2%nat; 1%nat; 0%nat]; [1%nat; 0%nat]]).
  { unfold ex_parens. destruct path as [|[|[|[|a]]] [|[|[|b]] [|[|c] [|e r]]]]; cbn; tauto. }
  destruct D as [D|D]; [exact D|]. cbn in D.
  repeat (destruct D as [D|D]; [subst path; vm_compute in N; inversion N; subst x; discriminate E|]). contradiction.
Qed.

(* what the two printings look like *)
Example C11_example_tokens_min :
  map tval (print_min gen_grammar dec ex_fmt_float ex_tree) =
  ["not"; "("; "s"; "matches"; "^b.+"; ")"; "or"; "-"; "2"; "**"; "x"; "**"; "1.5"; "<"; "("; "a"; "+"; "12"; ")"; "*"; "!"; "b";
   "?"; "all"; "("; "("; "u"; "?."; "m"; "("; "k"; ","; "nil"; ")"; "["; "0"; "]"; ")"; "."; "p"; ",";
        "{"; "#"; "."; "z"; "in"; "f"; "("; "true"; ")"; "["; ":"; "1"; ".."; "3"; "]"; "}"; ")";
   ":"; "c"; "?"; "["; "x"; ","; "{"; "k"; ":"; "y"; ","; "("; "k"; "+"; "l"; ")"; ":"; "nil"; "}"; "]";
        ":"; "p"; "-"; "q"; "-"; "("; "r"; "?"; "s"; ":"; "t"; ")"; ""].
Proof. vm_compute. reflexivity. Qed.

(* the theorem applied (not recomputed) *)
Example C11_example_roundtrip :
  parse gen_grammar ex_oracles (print_any gen_grammar dec ex_fmt_float ex_parens ex_tree) = ROk ex_tree /\
  parse gen_grammar ex_oracles (print_min gen_grammar dec ex_fmt_float ex_tree) = ROk ex_tree.
Proof.
  split.
  - exact (C11_roundtrip ex_oracles dec ex_fmt_float ex_parens ex_tree C11_roundtrip_nonvacuous_any).
  - exact (C11_roundtrip_min ex_oracles dec ex_fmt_float ex_tree C11_roundtrip_nonvacuous_min).
Qed.

(* the documentation's own example: `not ("foo" matches "^b.+")` needs its parentheses *)
Example C11_doc_not_matches :
  let o := mkOracles (fun _ => None) (fun _ => true) in
  parse gen_grammar o [tO 1 0 "not"; tB 1 4 "("; tS 1 5 "foo"; tO 1 11 "matches"; tS 1 19 "^b.+"; tB 1 25 ")"; tE 1 25]
  = ROk (EUnary (at_loc (1, 0)) UNotWord
           (EMatches (at_loc (1, 11)) (Some "^b.+") (EStr (at_loc (1, 5)) "foo") (EStr (at_loc (1, 19)) "^b.+"))) /\
  parse gen_grammar o [tO 1 0 "not"; tS 1 4 "foo"; tO 1 10 "matches"; tS 1 18 "^b.+"; tE 1 23]
  = ROk (EMatches (at_loc (1, 10)) (Some "^b.+")
           (EUnary (at_loc (1, 0)) UNotWord (EStr (at_loc (1, 4)) "foo")) (EStr (at_loc (1, 18)) "^b.+")).
Proof. vm_compute. split; reflexivity. Qed.

(* ================================================================== 5. TEXT level: lexer composed with parser.
   Parse/Render.v: `render L toks` spells the printer's tokens (identifiers, numbers, operators incl. the
   word operators, `not` and `not in`, brackets, quoted strings with the escapes \\ \q \a \b \f \n \r \t \v
   \xHH) and puts the white-space run `gap L i` chosen by the layout L in front of token i (`inner L i`
   between the words of `not in`, `dquote L i` chooses the quote character); `parse_text` is parser.Parse on
   a source text (Lex/Lexer.v `lex`, then `parse`).  The round-trip theorems are stated UP TO NODE LOCATIONS
   (`erase_loc`: the tree parsed from a text has the positions of that text as locations, whatever locations
   the printed tree had); C11_text_locations says where the nodes of the parsed tree are located: at the
   positions (C11_lexer_layout) of their anchor tokens, for trees whose locations are distinct labels.
   Everything holds for EVERY unicode oracle (uni_letter/uni_digit/uni_space = unicode.IsLetter/IsDigit/
   IsSpace on code points >= 128), every float/regexp oracle and every number formatter.  White space in the
   layouts is space, tab, LF, CR, VT, FF (`ascii_ws`); white space >= U+0080 is not covered. *)
Require Import X.Lex.Lexer X.Lex.LexProofs X.Parse.Render X.Parse.TextProofs.

(* 5a. the lexer on every layout of spellable tokens (C12_positions extended to `not` and `not in`):
   kinds, values and the position of the first rune of every token *)
Theorem C11_lexer_layout : forall (uni_letter uni_digit uni_space : Z -> bool) (items : list (list Z * xtok)) (trail : list Z),
  layoutx_ok uni_letter uni_digit uni_space items trail = true ->
  lex uni_letter uni_digit uni_space (layoutx items trail) =
  LexOk (expectedx (1, 0) items ++ [mkTok (lastpos (1, 0) (1, 0) (layoutx items trail)) TkEOF EmptyString])%list.
Proof. exact lex_text. Qed.
Print Assumptions C11_lexer_layout.

(* 5b. the parser never looks at token positions: same outcome class, same tree up to locations *)
Theorem C11_parser_ignores_positions : forall (g : grammar) (o : oracles) (ts : list token),
  parse g o (strip ts) = erase_result (parse g o ts).
Proof. exact parse_strip. Qed.
Print Assumptions C11_parser_ignores_positions.

(* 5c. EVERY token list that has a spelling, under EVERY good layout (`layout_good`, decidable: white-space
   runs, non-empty where juxtaposition would change the token list, U+0020 around `not in`): parsing the text
   = parsing the tokens — accepted with the same tree up to locations, or rejected *)
Theorem C11_text_tokens : forall (uni_letter uni_digit uni_space : Z -> bool) (g : grammar) (o : oracles) (L : layout) (toks : list token),
  layout_good uni_letter uni_digit uni_space L toks = true ->
  erase_result (parse_text uni_letter uni_digit uni_space g o (render uni_letter uni_digit uni_space L toks)) =
  erase_result (parse g o toks).
Proof. exact text_tokens. Qed.
Print Assumptions C11_text_tokens.

(* ... and ANY spelling of a token sequence (`items`: white-space run and spelling per token — every number
   spelling, strings with either quote and any supported escape, `not in` with any number of spaces) parses
   like the sequence it spells (`xtoken`: kind and value of the spelled token) *)
Theorem C11_text_any_spelling : forall (uni_letter uni_digit uni_space : Z -> bool) (g : grammar) (o : oracles)
    (items : list (list Z * xtok)) (trail : list Z),
  layoutx_ok uni_letter uni_digit uni_space items trail = true ->
  erase_result (parse_text uni_letter uni_digit uni_space g o (layoutx items trail)) =
  parse g o (map (fun it => xtoken (snd it)) items ++ [mkTok noloc TkEOF ""])%list.
Proof. exact text_items. Qed.
Print Assumptions C11_text_any_spelling.

Theorem C11_whitespace_irrelevant_tokens : forall (uni_letter uni_digit uni_space : Z -> bool) (g : grammar) (o : oracles) (L1 L2 : layout) (toks : list token),
  layout_good uni_letter uni_digit uni_space L1 toks = true -> layout_good uni_letter uni_digit uni_space L2 toks = true ->
  erase_result (parse_text uni_letter uni_digit uni_space g o (render uni_letter uni_digit uni_space L1 toks)) =
  erase_result (parse_text uni_letter uni_digit uni_space g o (render uni_letter uni_digit uni_space L2 toks)).
Proof. exact whitespace_irrelevant_tokens. Qed.
Print Assumptions C11_whitespace_irrelevant_tokens.

(* 5d. the printer's tokens all have a spelling, whatever the parentheses, for every `tree_textable` tree
   (decidable: names are identifiers of the lexer, the formatters produce number literals, strings are valid
   UTF-8, operators are operators of the lexer); and `not` is never directly followed by `in` *)
Theorem C11_printer_tokens_spellable : forall (uni_letter uni_digit uni_space : Z -> bool) (g : grammar)
    (fmt_int : Z -> string) (fmt_float : PrimFloat.float -> string) (t : expr) (c : poracle),
  tree_textable uni_letter uni_digit uni_space fmt_int fmt_float t = true ->
  lexable uni_letter uni_digit uni_space (print_any g fmt_int fmt_float c t) = true /\
  not_in_free (print_any g fmt_int fmt_float c t) = true.
Proof. exact textable_tokens. Qed.
Print Assumptions C11_printer_tokens_spellable.

(* 5e. round trip through the TEXT: print (any redundant parentheses), lay out, lex, parse.
   Most general layout condition: *)
Theorem C11_text_roundtrip_good_layout : forall (uni_letter uni_digit uni_space : Z -> bool) (o : oracles)
    (fmt_int : Z -> string) (fmt_float : PrimFloat.float -> string) (c : poracle) (t : expr) (L : layout),
  printable gen_grammar fmt_int fmt_float o c t ->
  layout_good uni_letter uni_digit uni_space L (print_any gen_grammar fmt_int fmt_float c t) = true ->
  exists t', parse_text uni_letter uni_digit uni_space gen_grammar o
               (render uni_letter uni_digit uni_space L (print_any gen_grammar fmt_int fmt_float c t)) = ROk t' /\
             erase_loc t' = erase_loc t.
Proof. exact (fun ul ud us o fi ff => text_roundtrip ul ud us gen_grammar o fi ff gen_grammar_wf). Qed.
Print Assumptions C11_text_roundtrip_good_layout.

(* ... and with the simple condition `white L toks`: every run is white space (space, tab, LF, CR, VT, FF),
   the runs between two tokens are non-empty, and inside / directly after `not in` there is U+0020 *)
Theorem C11_text_roundtrip : forall (uni_letter uni_digit uni_space : Z -> bool) (o : oracles)
    (fmt_int : Z -> string) (fmt_float : PrimFloat.float -> string) (c : poracle) (t : expr) (L : layout),
  printable gen_grammar fmt_int fmt_float o c t ->
  tree_textable uni_letter uni_digit uni_space fmt_int fmt_float t = true ->
  white L (print_any gen_grammar fmt_int fmt_float c t) = true ->
  exists t', parse_text uni_letter uni_digit uni_space gen_grammar o
               (render uni_letter uni_digit uni_space L (print_any gen_grammar fmt_int fmt_float c t)) = ROk t' /\
             erase_loc t' = erase_loc t.
Proof. exact (fun ul ud us o fi ff => text_roundtrip_tree ul ud us gen_grammar o fi ff gen_grammar_wf). Qed.
Print Assumptions C11_text_roundtrip.

(* LOCATIONS.  5b'. Two token lists with the same kinds and values: every node location of either parse comes
   from the token at the same index (both parses are relabellings, by `nth_loc`, of one tree over index labels) *)
Theorem C11_parser_location_provenance : forall (g : grammar) (o : oracles) (ts1 ts2 : list token),
  strip ts1 = strip ts2 ->
  exists R, parse g o ts1 = map_result (nth_loc ts1) R /\ parse g o ts2 = map_result (nth_loc ts2) R.
Proof. exact parse_provenance. Qed.
Print Assumptions C11_parser_location_provenance.

(* ... hence, for a tree whose node locations are pairwise distinct labels (`distinct_locs` of the printed
   tokens, decidable): in the tree parsed from the text, every labelled node stands at the position the lexer
   gives to the token that carries its label (`text_positions`: positions of the tokens of the text, made
   explicit by C11_lexer_layout; `loc_at ts ps l`: the element of ps at the index of the token of ts located
   at l).  Conditional nodes carry no label and are not covered by this statement (they get no location:
   see the computed Example below). *)
Theorem C11_text_locations : forall (uni_letter uni_digit uni_space : Z -> bool) (o : oracles)
    (fmt_int : Z -> string) (fmt_float : PrimFloat.float -> string) (c : poracle) (t : expr) (L : layout),
  let toks := print_any gen_grammar fmt_int fmt_float c t in
  printable gen_grammar fmt_int fmt_float o c t ->
  tree_textable uni_letter uni_digit uni_space fmt_int fmt_float t = true ->
  white L toks = true -> distinct_locs toks = true ->
  exists t', parse_text uni_letter uni_digit uni_space gen_grammar o (render uni_letter uni_digit uni_space L toks) = ROk t' /\
    erase_loc t' = erase_loc t /\
    forall path x, node_at t path = Some x -> loc_of x <> noloc ->
      exists x', node_at t' path = Some x' /\
        loc_of x' = loc_at toks (text_positions uni_letter uni_digit uni_space (render uni_letter uni_digit uni_space L toks)) (loc_of x).
Proof. exact (fun ul ud us o fi ff => text_locations_tree ul ud us gen_grammar o fi ff gen_grammar_wf). Qed.
Print Assumptions C11_text_locations.

(* in particular: any non-empty white-space run that starts with U+0020, the same between all tokens *)
Theorem C11_text_roundtrip_uniform : forall (uni_letter uni_digit uni_space : Z -> bool) (o : oracles)
    (fmt_int : Z -> string) (fmt_float : PrimFloat.float -> string) (c : poracle) (t : expr) (ws : list Z) (dq : bool),
  printable gen_grammar fmt_int fmt_float o c t ->
  tree_textable uni_letter uni_digit uni_space fmt_int fmt_float t = true ->
  forallb ascii_ws ws = true -> ws <> [] -> hd_okb (fun c => c =? 32) ws = true ->
  exists t', parse_text uni_letter uni_digit uni_space gen_grammar o
               (render uni_letter uni_digit uni_space (uniform_layout ws dq) (print_any gen_grammar fmt_int fmt_float c t)) = ROk t' /\
             erase_loc t' = erase_loc t.
Proof. exact text_roundtrip_uniform. Qed.
Print Assumptions C11_text_roundtrip_uniform.

(* white space never changes the tree *)
Theorem C11_whitespace_irrelevant : forall (uni_letter uni_digit uni_space : Z -> bool) (o : oracles)
    (fmt_int : Z -> string) (fmt_float : PrimFloat.float -> string) (c : poracle) (t : expr) (L1 L2 : layout),
  printable gen_grammar fmt_int fmt_float o c t ->
  tree_textable uni_letter uni_digit uni_space fmt_int fmt_float t = true ->
  white L1 (print_any gen_grammar fmt_int fmt_float c t) = true ->
  white L2 (print_any gen_grammar fmt_int fmt_float c t) = true ->
  exists t1 t2,
    parse_text uni_letter uni_digit uni_space gen_grammar o
      (render uni_letter uni_digit uni_space L1 (print_any gen_grammar fmt_int fmt_float c t)) = ROk t1 /\
    parse_text uni_letter uni_digit uni_space gen_grammar o
      (render uni_letter uni_digit uni_space L2 (print_any gen_grammar fmt_int fmt_float c t)) = ROk t2 /\
    erase_loc t1 = erase_loc t2 /\ erase_loc t1 = erase_loc t.
Proof. exact (fun ul ud us o fi ff => whitespace_irrelevant_tree ul ud us gen_grammar o fi ff gen_grammar_wf). Qed.
Print Assumptions C11_whitespace_irrelevant.

(* redundant parentheses never change the tree, in the text either (two parenthesis oracles, two layouts) *)
Theorem C11_redundant_parentheses_text : forall (uni_letter uni_digit uni_space : Z -> bool) (o : oracles)
    (fmt_int : Z -> string) (fmt_float : PrimFloat.float -> string) (c1 c2 : poracle) (t : expr) (L1 L2 : layout),
  printable gen_grammar fmt_int fmt_float o c1 t -> printable gen_grammar fmt_int fmt_float o c2 t ->
  tree_textable uni_letter uni_digit uni_space fmt_int fmt_float t = true ->
  white L1 (print_any gen_grammar fmt_int fmt_float c1 t) = true ->
  white L2 (print_any gen_grammar fmt_int fmt_float c2 t) = true ->
  exists t1 t2,
    parse_text uni_letter uni_digit uni_space gen_grammar o
      (render uni_letter uni_digit uni_space L1 (print_any gen_grammar fmt_int fmt_float c1 t)) = ROk t1 /\
    parse_text uni_letter uni_digit uni_space gen_grammar o
      (render uni_letter uni_digit uni_space L2 (print_any gen_grammar fmt_int fmt_float c2 t)) = ROk t2 /\
    erase_loc t1 = erase_loc t2 /\ erase_loc t1 = erase_loc t.
Proof. exact (fun ul ud us o fi ff => redundant_parentheses_tree ul ud us gen_grammar o fi ff gen_grammar_wf). Qed.
Print Assumptions C11_redundant_parentheses_text.

(* ---- 6. what is NOT true of the pinned lexer (known finding C11-notin-spacing): with ANY non-empty
   white-space run inside `not in` (`notin_white`) the statement is false — `1 not<TAB>in [ 1 ]` is rejected;
   the carve-out `notin_spaced` (decidable, on the layout and the tokens) demands U+0020 only inside `not in`
   and U+0020 directly after it, and is vacuous for token lists without the operator `not in`. *)
Definition C11_text_full_statement : Prop := text_full_statement.
Theorem C11_text_full_statement_refuted : ~ C11_text_full_statement.
Proof. exact text_full_statement_refuted. Qed.
Print Assumptions C11_text_full_statement_refuted.

Theorem C11_text_partial : forall (uni_letter uni_digit uni_space : Z -> bool) (o : oracles)
    (fmt_int : Z -> string) (fmt_float : PrimFloat.float -> string) (c : poracle) (t : expr) (L : layout),
  let toks := print_any gen_grammar fmt_int fmt_float c t in
  printable gen_grammar fmt_int fmt_float o c t ->
  tree_textable uni_letter uni_digit uni_space fmt_int fmt_float t = true ->
  gaps_ok L 0 toks = true -> notin_spaced L 0 toks = true ->
  exists t', parse_text uni_letter uni_digit uni_space gen_grammar o (render uni_letter uni_digit uni_space L toks) = ROk t' /\
             erase_loc t' = erase_loc t.
Proof. exact text_partial. Qed.
Print Assumptions C11_text_partial.

(* the carve-out is a restriction of the hypothesis of the full statement *)
Theorem C11_notin_carve_out_restricts : forall (toks : list token) (L : layout) (i : nat),
  notin_spaced L i toks = true -> notin_white L i toks = true.
Proof. exact notin_spaced_white. Qed.
Print Assumptions C11_notin_carve_out_restricts.

Theorem C11_notin_carve_out_vacuous_without_notin : forall (toks : list token) (L : layout) (i : nat),
  forallb (fun t => negb (is_op_tok "not in" t)) toks = true -> notin_spaced L i toks = true.
Proof. exact notin_spaced_absent. Qed.
Print Assumptions C11_notin_carve_out_vacuous_without_notin.

(* each clause of the carve-out is needed: a tab inside `not in`, a tab directly after it, are both rejected;
   `in` alone accepts the tab *)
Definition tab_after_layout : layout :=
  mkLayout (fun i => match i with O => [] | 2%nat => [9] | S _ => [32] end) (fun _ => [32]) (fun _ => true).
Definition in_witness : expr := EBinary ann0 BIn (EInt ann0 1) (EArray ann0 [EInt ann0 1]).

Example C11_notin_tab_rejected :
  let nf := fun _ : Z => false in
  let toks := print_min gen_grammar dec (fun _ => "") notin_witness in
  utf8_encode (render nf nf nf space_layout toks) = "1 not in [ 1 ] " /\
  render nf nf nf tab_layout toks = [49; 32; 110; 111; 116; 9; 105; 110; 32; 91; 32; 49; 32; 93; 32] /\
  render nf nf nf tab_after_layout toks = [49; 32; 110; 111; 116; 32; 105; 110; 9; 91; 32; 49; 32; 93; 32] /\
  parse_text nf nf nf gen_grammar notin_oracles (render nf nf nf tab_layout toks) = RErr (1, 2) /\
  parse_text nf nf nf gen_grammar notin_oracles (render nf nf nf tab_after_layout toks) = RErr (1, 2) /\
  erase_result (parse_text nf nf nf gen_grammar notin_oracles (render nf nf nf space_layout toks)) = ROk (erase_loc notin_witness) /\
  erase_result (parse_text nf nf nf gen_grammar notin_oracles
                  (render nf nf nf tab_after_layout (print_min gen_grammar dec (fun _ => "") in_witness))) = ROk (erase_loc in_witness).
Proof. vm_compute. repeat split. Qed.

(* ---- non-vacuity: unary, binary, conditional, function and method call, builtin with closure, array, map,
   a string with escapes (quote, backslash, LF, tab, apostrophe, a two-byte rune, BEL); two layouts, the
   second with tabs, line breaks (LF and CR LF), single quotes on odd token positions *)
Definition nf : Z -> bool := fun _ => false.
Definition s_esc : string :=
  String "q" (String """" (String "\" (String (ascii_of_nat 10) (String (ascii_of_nat 9) (String "'"
    (String (ascii_of_nat 195) (String (ascii_of_nat 169) (String (ascii_of_nat 7) "z")))))))).

Definition tx_tree : expr :=
  ECond A0
    (EBinary A0 BAndWord
       (EUnary A0 UNotWord (EBinary A0 BLt (idt "a") (EUnary A0 UMinus (EInt A0 3))))
       (EBinary A0 BNotIn (EStr A0 s_esc) (EArray A0 [EStr A0 "x"; EFloat A0 ex_float])))
    (EBuiltin A0 BiFilter [EFunction A0 "f" [idt "xs"; EInt A0 0] false;
                           EClosure A0 (EBinary A0 BGt (EPointer A0) (EInt A0 10))])
    (EMap A0 [EPair A0 (EStr A0 "k") (EMethod A0 (idt "u") "m" [ENil A0] false);
              EPair A0 (EBinary A0 BAdd (idt "p") (idt "q")) (EBool A0 true)]).

Definition tx_parens : poracle :=
  fun path => match path with [] => 1%nat | [O; O] => 2%nat | [1%nat; 0%nat; 1%nat] => 1%nat | _ => O end.

Definition tx_layout1 : layout := uniform_layout [32] true.
Definition tx_layout2 : layout :=
  mkLayout (fun i => match i with
                     | O => [9]
                     | 10%nat => [32; 10; 9]
                     | S _ => nth (Nat.modulo i 4) [[10; 9]; [32; 32]; [13; 10]; [9; 32]] [32]
                     end)
           (fun _ => [32; 32; 32]) (fun i => Nat.even i).

Example C11_text_nonvacuous_printable :
  printable gen_grammar dec ex_fmt_float ex_oracles no_extra tx_tree /\
  printable gen_grammar dec ex_fmt_float ex_oracles tx_parens tx_tree.
Proof. split; vm_compute; repeat split; try reflexivity; intros; try discriminate; try congruence. Qed.

Example C11_text_nonvacuous_textable : tree_textable nf nf nf dec ex_fmt_float tx_tree = true.
Proof. vm_compute. reflexivity. Qed.

Example C11_text_nonvacuous_layouts :
  white tx_layout1 (print_min gen_grammar dec ex_fmt_float tx_tree) = true /\
  white tx_layout2 (print_min gen_grammar dec ex_fmt_float tx_tree) = true /\
  white tx_layout1 (print_any gen_grammar dec ex_fmt_float tx_parens tx_tree) = true.
Proof. vm_compute. repeat split. Qed.

(* what the first text looks like *)
Example C11_text_example_text1 :
  render nf nf nf tx_layout1 (print_min gen_grammar dec ex_fmt_float tx_tree) =
  rs "not ( a < - 3 ) and ""q\""\\\n\t'" ++ [233] ++ rs "\az"" not in [ ""x"" , 1.5 ] ? filter ( f ( xs , 0 ) , { # > 10 } ) : { ""k"" : u . m ( nil ) , ( p + q ) : true } ".
Proof. vm_compute. reflexivity. Qed.

(* the theorems applied (not recomputed): two layouts, and two parenthesisations *)
Example C11_text_example_whitespace :
  exists t1 t2,
    parse_text nf nf nf gen_grammar ex_oracles (render nf nf nf tx_layout1 (print_min gen_grammar dec ex_fmt_float tx_tree)) = ROk t1 /\
    parse_text nf nf nf gen_grammar ex_oracles (render nf nf nf tx_layout2 (print_min gen_grammar dec ex_fmt_float tx_tree)) = ROk t2 /\
    erase_loc t1 = erase_loc t2 /\ erase_loc t1 = erase_loc tx_tree.
Proof.
  exact (C11_whitespace_irrelevant nf nf nf ex_oracles dec ex_fmt_float no_extra tx_tree tx_layout1 tx_layout2
           (proj1 C11_text_nonvacuous_printable) C11_text_nonvacuous_textable
           (proj1 C11_text_nonvacuous_layouts) (proj1 (proj2 C11_text_nonvacuous_layouts))).
Qed.

Example C11_text_example_parentheses :
  exists t1 t2,
    parse_text nf nf nf gen_grammar ex_oracles (render nf nf nf tx_layout2 (print_min gen_grammar dec ex_fmt_float tx_tree)) = ROk t1 /\
    parse_text nf nf nf gen_grammar ex_oracles (render nf nf nf tx_layout1 (print_any gen_grammar dec ex_fmt_float tx_parens tx_tree)) = ROk t2 /\
    erase_loc t1 = erase_loc t2 /\ erase_loc t1 = erase_loc tx_tree.
Proof.
  exact (C11_redundant_parentheses_text nf nf nf ex_oracles dec ex_fmt_float no_extra tx_parens tx_tree tx_layout2 tx_layout1
           (proj1 C11_text_nonvacuous_printable) (proj2 C11_text_nonvacuous_printable) C11_text_nonvacuous_textable
           (proj1 (proj2 C11_text_nonvacuous_layouts)) (proj2 (proj2 C11_text_nonvacuous_layouts))).
Qed.

(* and recomputed on the model: the second layout (tabs, line breaks) gives the tree, with the positions of
   the anchor tokens as locations *)
Example C11_text_example_computed :
  erase_result (parse_text nf nf nf gen_grammar ex_oracles (render nf nf nf tx_layout2 (print_min gen_grammar dec ex_fmt_float tx_tree)))
    = ROk (erase_loc tx_tree) /\
  match parse_text nf nf nf gen_grammar ex_oracles (render nf nf nf tx_layout2 (print_min gen_grammar dec ex_fmt_float tx_tree)) with
  | ROk (ECond _ (EBinary a _ (EUnary u _ _) _) _ _) => (aloc a, aloc u) = ((4, 3), (1, 1))
  | _ => False
  end.
Proof. vm_compute. split; reflexivity. Qed.

(* ---- non-vacuity of C11_text_locations: a tree with pairwise distinct labels (the map, its pair and the bare
   key share the label of `{`, as the parser has it) *)
Definition at9 (n : Z) : ann := at_loc (9, n).
Definition lab_tree : expr :=
  ECond ann0
    (EBinary (at9 1) BNotIn (EIdent (at9 2) "a" false) (EArray (at9 3) [EInt (at9 4) 1; EStr (at9 5) "s"]))
    (EBuiltin (at9 6) BiAll [EIdent (at9 7) "xs" false;
                             EClosure (at9 8) (EBinary (at9 9) BGt (EPointer (at9 10)) (EInt (at9 11) 0))])
    (EMap (at9 12) [EPair (at9 12) (EStr (at9 12) "k")
                      (EUnary (at9 13) UMinus (EMethod (at9 14) (EIdent (at9 15) "u" false) "m" [] false))]).
Definition lab_layout : layout :=
  mkLayout (fun i => match i with
                     | O => [9]
                     | 2%nat => [32; 10; 9]
                     | S _ => nth (Nat.modulo i 4) [[10; 9]; [32; 32]; [13; 10]; [9; 32]] [32]
                     end)
           (fun _ => [32; 32]) (fun i => Nat.even i).

Example C11_text_locations_nonvacuous :
  let toks := print_min gen_grammar dec ex_fmt_float lab_tree in
  printable gen_grammar dec ex_fmt_float ex_oracles no_extra lab_tree /\
  tree_textable nf nf nf dec ex_fmt_float lab_tree = true /\ white lab_layout toks = true /\ distinct_locs toks = true.
Proof. vm_compute. repeat split; try reflexivity; intros; try discriminate; try congruence. Qed.

(* computed on the model: the parsed tree IS the labelled tree with every label replaced by the position of the
   token carrying it (conditional node: no location); e.g. `not in` (label (9,1)) stands at line 1, column 4 *)
Example C11_text_locations_computed :
  let toks := print_min gen_grammar dec ex_fmt_float lab_tree in
  let txt := render nf nf nf lab_layout toks in
  parse_text nf nf nf gen_grammar ex_oracles txt = ROk (map_loc (label_pos toks (text_positions nf nf nf txt)) lab_tree) /\
  label_pos toks (text_positions nf nf nf txt) (9, 1) = (1, 4) /\
  label_pos toks (text_positions nf nf nf txt) (9, 12) = (10, 3).
Proof. vm_compute. repeat split. Qed.

(* ================================================================== 7. SOUNDNESS: every accepted token sequence is a printing of its tree,
   and what the reference grammar does not generate is rejected (second sentence of the property).
   The reference grammar's language is the image of the printer: `ref_parses ts t` (Parse/Sound.v) says that the
   NORMALISED sequence `normalize ts` is `print_any c t` for a parenthesis oracle c with `printable c t`.
   `normalize` is an explicit function of the token sequence alone (left-to-right scan, one token of look-ahead,
   a stack of the open brackets; it never runs the parser).  It forgets the locations of the tokens no node is
   anchored at — ( ) ] } , : ? . ?. EOF and bare map keys — and rewrites the spellings the parser treats alike to
   the printer's: number literals to the formatter's spelling of their value, Operator-kind member names (`a.not`) to
   Identifier tokens, bare map keys to String tokens, the implicit pointer `.x` to `# . x`, a `.` after `?.` in the same
   chain to `?.` (sticky NilSafe), trailing commas of arrays and maps and everything after EOF dropped.  All other
   tokens are kept with their kind, value and location: the equality of token lists includes that every node is
   located at its anchor token.
   Carve-out `sound_scope ts` (decidable): `good (brace_locs ts) ts` — Bracket tokens are one of ( ) [ ] { } and `[`
   is no Operator token (what lexer.Lex guarantees), no String token stands at the location of a `{` token, the
   formatter's spelling of every number token's value denotes that value — and `clean (normalize ts)` — none of the
   four situations in which `normalize` emits its `poison` token: a literal directly followed by `.` `?.` `[`
   (accepted behind a unary operator: `- "a" . b` is parsed as (-"a").b), the conditional with omitted middle `a ?: b`,
   a map key that starts with `(` without being one parenthesised expression (`{(a).b: 1}`), an identifier followed
   by a non-operator token whose value is "?.".  The first three are ACCEPTED by the pinned parser although no
   printing has that shape: C11_sound_full_statement_refuted. *)
Require Import X.Parse.Sound X.Parse.SoundCorProofs.

Theorem C11_parse_sound : forall (o : oracles) (fmt_int : Z -> string) (fmt_float : PrimFloat.float -> string) (ts : list token) (t : expr),
  sound_scope gen_grammar o fmt_int fmt_float ts = true -> parse gen_grammar o ts = ROk t ->
  exists c, printable gen_grammar fmt_int fmt_float o c t /\
            normalize gen_grammar o fmt_int fmt_float ts = print_any gen_grammar fmt_int fmt_float c t.
Proof. exact parse_sound_gen_grammar. Qed.
Print Assumptions C11_parse_sound.

(* parametric in the tables, like the round trip *)
Theorem C11_parse_sound_parametric : forall (g : grammar) (o : oracles) (fmt_int : Z -> string) (fmt_float : PrimFloat.float -> string),
  wf_grammar g = true -> forall (ts : list token) (t : expr),
  sound_scope g o fmt_int fmt_float ts = true -> parse g o ts = ROk t -> ref_parses g o fmt_int fmt_float ts t.
Proof. exact parse_sound. Qed.
Print Assumptions C11_parse_sound_parametric.

(* the tree the parser returns is THE tree of the reference grammar (which is unambiguous) *)
Theorem C11_unique_tree : forall (o : oracles) (fmt_int : Z -> string) (fmt_float : PrimFloat.float -> string) (ts : list token) (t1 t2 : expr),
  sound_scope gen_grammar o fmt_int fmt_float ts = true -> parse gen_grammar o ts = ROk t1 ->
  ref_parses gen_grammar o fmt_int fmt_float ts t2 -> t1 = t2.
Proof. exact unique_tree_gen. Qed.
Print Assumptions C11_unique_tree.

Theorem C11_reference_unambiguous : forall (o : oracles) (fmt_int : Z -> string) (fmt_float : PrimFloat.float -> string) (ts : list token) (t1 t2 : expr),
  ref_parses gen_grammar o fmt_int fmt_float ts t1 -> ref_parses gen_grammar o fmt_int fmt_float ts t2 -> t1 = t2.
Proof. exact (fun o fi ff => ref_unambiguous gen_grammar o fi ff gen_grammar_wf). Qed.
Print Assumptions C11_reference_unambiguous.

(* rejected <-> not generated.  `plain ts` (decidable): the normalisation changes nothing but locations.  The
   direction <- (C11_not_generated_rejected) needs no such restriction; the direction -> for sequences that use one
   of the alternative spellings is not proved (it needs the parser's invariance under `normalize`). *)
Theorem C11_rejects_iff : forall (o : oracles) (fmt_int : Z -> string) (fmt_float : PrimFloat.float -> string) (ts : list token),
  sound_scope gen_grammar o fmt_int fmt_float ts = true -> plain gen_grammar o fmt_int fmt_float ts = true ->
  ((exists e, parse gen_grammar o ts = RErr e) <-> ~ (exists t, ref_parses gen_grammar o fmt_int fmt_float ts t)).
Proof. exact rejects_iff_gen. Qed.
Print Assumptions C11_rejects_iff.

Theorem C11_not_generated_rejected : forall (o : oracles) (fmt_int : Z -> string) (fmt_float : PrimFloat.float -> string) (ts : list token),
  sound_scope gen_grammar o fmt_int fmt_float ts = true ->
  ~ (exists t, ref_parses gen_grammar o fmt_int fmt_float ts t) -> exists e, parse gen_grammar o ts = RErr e.
Proof. exact not_ref_rejected_gen. Qed.
Print Assumptions C11_not_generated_rejected.

Theorem C11_generated_accepted : forall (o : oracles) (fmt_int : Z -> string) (fmt_float : PrimFloat.float -> string) (ts : list token) (t : expr),
  plain gen_grammar o fmt_int fmt_float ts = true -> ref_parses gen_grammar o fmt_int fmt_float ts t ->
  exists t', parse gen_grammar o ts = ROk t' /\ erase_loc t' = erase_loc t.
Proof. exact ref_accepted_gen. Qed.
Print Assumptions C11_generated_accepted.

(* the fuel of the model is sufficient for every token list (same statement as C04_parse_total) *)
Theorem C11_parse_total : forall (g : grammar) (o : oracles) (ts : list token), parse g o ts <> RFuel.
Proof. exact X.Parse.FuelProofs.parse_total. Qed.
Print Assumptions C11_parse_total.

(* ---- what is NOT true of the pinned tree: without the `clean` part of the carve-out the statement is false *)
Definition C11_sound_full_statement : Prop := parse_sound_full_statement gen_grammar o_any dec ff0.
Theorem C11_sound_full_statement_refuted : ~ C11_sound_full_statement.
Proof. exact full_statement_refuted. Qed.
Print Assumptions C11_sound_full_statement_refuted.

(* the three accepted shapes no printing has: accepted with the tree shown, in `good`, not `clean`, not generated *)
Theorem C11_sound_witnesses :
  (parse gen_grammar o_any w_unary_postfix = ROk t_unary_postfix /\
   good o_any dec ff0 (brace_locs w_unary_postfix) w_unary_postfix = true /\
   clean (normalize gen_grammar o_any dec ff0 w_unary_postfix) = false) /\
  (parse gen_grammar o_any w_elvis = ROk t_elvis /\
   good o_any dec ff0 (brace_locs w_elvis) w_elvis = true /\
   clean (normalize gen_grammar o_any dec ff0 w_elvis) = false) /\
  (parse gen_grammar o_any w_open_key = ROk t_open_key /\
   good o_any dec ff0 (brace_locs w_open_key) w_open_key = true /\
   clean (normalize gen_grammar o_any dec ff0 w_open_key) = false).
Proof. exact witness_facts. Qed.

Theorem C11_sound_witnesses_not_generated :
  ~ ref_parses gen_grammar o_any dec ff0 w_unary_postfix t_unary_postfix /\
  ~ ref_parses gen_grammar o_any dec ff0 w_elvis t_elvis /\
  ~ ref_parses gen_grammar o_any dec ff0 w_open_key t_open_key.
Proof. exact witness_not_ref. Qed.
Print Assumptions C11_sound_witnesses_not_generated.

(* ---- non-vacuity.  16 tokens + EOF with nested parentheses, a conditional, a builtin call and a closure:
        ( ( a ) ) ? all ( x , { # } ) : b *)
Definition snd_ts : list token :=
  [tB 1 0 "("; tB 1 1 "("; tI 1 2 "a"; tB 1 3 ")"; tB 1 4 ")"; tO 1 6 "?"; tI 1 8 "all"; tB 1 11 "("; tI 1 12 "x"; tO 1 13 ",";
   tB 1 15 "{"; tO 1 16 "#"; tB 1 17 "}"; tB 1 18 ")"; tO 1 20 ":"; tI 1 22 "b"; tE 1 23].
Definition snd_tree : expr :=
  ECond ann0 (EIdent (at_loc (1, 2)) "a" false)
        (EBuiltin (at_loc (1, 8)) BiAll [EIdent (at_loc (1, 12)) "x" false; EClosure (at_loc (1, 15)) (EPointer (at_loc (1, 16)))])
        (EIdent (at_loc (1, 22)) "b" false).
Definition snd_oracle : poracle := fun path => match path with [O] => 2%nat | _ => O end.

Example C11_sound_nonvacuous :
  sound_scope gen_grammar ex_oracles dec ex_fmt_float snd_ts = true /\
  plain gen_grammar ex_oracles dec ex_fmt_float snd_ts = true /\
  parse gen_grammar ex_oracles snd_ts = ROk snd_tree /\
  normalize gen_grammar ex_oracles dec ex_fmt_float snd_ts = print_any gen_grammar dec ex_fmt_float snd_oracle snd_tree /\
  print_any gen_grammar dec ex_fmt_float (oracle_of_tokens gen_grammar ex_oracles dec ex_fmt_float snd_ts) snd_tree
    = normalize gen_grammar ex_oracles dec ex_fmt_float snd_ts /\
  map (oracle_of_tokens gen_grammar ex_oracles dec ex_fmt_float snd_ts) [[]; [O]; [1%nat]; [2%nat]; [1%nat; 1%nat]]
    = map snd_oracle [[]; [O]; [1%nat]; [2%nat]; [1%nat; 1%nat]] /\
  map (fun t => (tval t, tloc t)) (normalize gen_grammar ex_oracles dec ex_fmt_float snd_ts) =
    [("(", noloc); ("(", noloc); ("a", (1, 2)); (")", noloc); (")", noloc); ("?", noloc); ("all", (1, 8)); ("(", noloc);
     ("x", (1, 12)); (",", noloc); ("{", (1, 15)); ("#", (1, 16)); ("}", noloc); (")", noloc); (":", noloc); ("b", (1, 22)); ("", noloc)].
Proof. vm_compute. repeat split. Qed.

Example C11_sound_nonvacuous_printable : printable gen_grammar dec ex_fmt_float ex_oracles snd_oracle snd_tree.
Proof. vm_compute. repeat split; try reflexivity; intros; try discriminate; try congruence. Qed.

(* the theorem applied (not recomputed) *)
Example C11_sound_example_applied :
  exists c, printable gen_grammar dec ex_fmt_float ex_oracles c snd_tree /\
            normalize gen_grammar ex_oracles dec ex_fmt_float snd_ts = print_any gen_grammar dec ex_fmt_float c snd_tree.
Proof.
  exact (C11_parse_sound ex_oracles dec ex_fmt_float snd_ts snd_tree
           (proj1 C11_sound_nonvacuous) (proj1 (proj2 (proj2 C11_sound_nonvacuous)))).
Qed.

(* a sequence that uses every alternative spelling: implicit pointer, sticky `.` after `?.`, hexadecimal number,
   identifier and parenthesised map keys, trailing comma, redundant parentheses, Operator-kind member name:
        filter(xs, {.a?.b.c > 0x10}) ? {k: 1, (z): [1, ((2)),]} : f(1, (g.not))
   in scope, not plain; its normalisation is the printing of its tree with the computed oracle *)
Definition sugar_ts : list token :=
  [tI 1 0 "filter"; tB 1 1 "("; tI 1 2 "xs"; tO 1 3 ","; tB 1 4 "{"; tO 1 5 "."; tI 1 6 "a"; tO 1 7 "?."; tI 1 8 "b"; tO 1 9 "."; tI 1 10 "c";
   tO 1 11 ">"; tN 1 12 "0x10"; tB 1 13 "}"; tB 1 14 ")"; tO 1 15 "?";
   tB 1 16 "{"; tI 1 17 "k"; tO 1 18 ":"; tN 1 19 "1"; tO 1 20 ","; tB 1 21 "("; tI 1 22 "z"; tB 1 23 ")"; tO 1 24 ":";
   tB 1 25 "["; tN 1 26 "1"; tO 1 27 ","; tB 1 50 "("; tB 1 51 "("; tN 1 28 "2"; tB 1 52 ")"; tB 1 53 ")"; tO 1 29 ","; tB 1 30 "]"; tB 1 31 "}"; tO 1 32 ":";
   tI 1 33 "f"; tB 1 34 "("; tN 1 35 "1"; tO 1 36 ","; tB 1 60 "("; tI 1 37 "g"; tO 1 38 "."; tO 1 39 "not"; tB 1 61 ")"; tB 1 40 ")"; tE 1 41].

Example C11_sound_sugar :
  sound_scope gen_grammar ex_oracles dec ex_fmt_float sugar_ts = true /\
  plain gen_grammar ex_oracles dec ex_fmt_float sugar_ts = false /\
  match parse gen_grammar ex_oracles sugar_ts with
  | ROk t => print_any gen_grammar dec ex_fmt_float (oracle_of_tokens gen_grammar ex_oracles dec ex_fmt_float sugar_ts) t
             = normalize gen_grammar ex_oracles dec ex_fmt_float sugar_ts
  | _ => False
  end /\
  map tval (normalize gen_grammar ex_oracles dec ex_fmt_float sugar_ts) =
    ["filter"; "("; "xs"; ","; "{"; "#"; "."; "a"; "?."; "b"; "?."; "c"; ">"; "16"; "}"; ")"; "?";
     "{"; "k"; ":"; "1"; ","; "("; "z"; ")"; ":"; "["; "1"; ","; "("; "("; "2"; ")"; ")"; "]"; "}"; ":";
     "f"; "("; "1"; ","; "("; "g"; "."; "not"; ")"; ")"; ""].
Proof. vm_compute. repeat split. Qed.

(* the carve-out holds of what lexer.Lex produces: the text of the sequence above, lexed by the model lexer, is in scope,
   and its normalisation is the printing of its tree with the computed oracle *)
Example C11_sound_lexed_text :
  match lex nf nf nf (rs "filter(xs, {.a?.b.c > 0x10}) ? {k: 1, (z): [1, ((2)),]} : f(1, (g.not)) ") with
  | LexOk toks =>
      sound_scope gen_grammar ex_oracles dec ex_fmt_float toks = true /\
      match parse gen_grammar ex_oracles toks with
      | ROk t => print_any gen_grammar dec ex_fmt_float (oracle_of_tokens gen_grammar ex_oracles dec ex_fmt_float toks) t
                 = normalize gen_grammar ex_oracles dec ex_fmt_float toks
      | _ => False
      end
  | _ => False
  end.
Proof. vm_compute. split; reflexivity. Qed.

(* ---- computed in Coq on EVERY sequence of at most 4 tokens (+ EOF) over a 20-symbol alphabet, 168 421 sequences
   (`check_seq`, Parse/SoundCorProofs.v): in scope and accepted -> the normalised sequence is the printing of the
   returned tree with the COMPUTED oracle `oracle_for`; in scope and rejected -> the normalised sequence is rejected
   too, hence the reference grammar assigns it no tree (C11_sweep_rejected): on these sequences `rejected -> not
   generated` holds without the restriction `plain` of C11_rejects_iff *)
Example C11_sound_bounded_sweep : check_all 4 [] = true /\ count_all 4 = 168421.
Proof. exact bounded_sweep_4. Qed.

Theorem C11_sweep_rejected : forall (s : list (tkind * string)) (e : loc),
  check_seq s = true -> sound_scope gen_grammar o_any dec ff0 (locate 1 s) = true ->
  parse gen_grammar o_any (locate 1 s) = RErr e ->
  ~ (exists t, ref_parses gen_grammar o_any dec ff0 (locate 1 s) t).
Proof. exact check_seq_rejected. Qed.
Print Assumptions C11_sweep_rejected.

(* ------------------------------------------------------------------------------------------------------------------
   9. The model parser IS the source: parser/parser.go is read statement by statement by translator/gen_parser.go into
      gen/GenParser.v on every run; interpreting those regenerated functions gives Parser.parse on every token list. *)
Require Import X.Parse.ParseRules X.gen.GenParser X.Bridge.BrParser.

Theorem C11_model_parser_is_source : forall (g : grammar) (o : oracles) (ts : list token),
  gen_parse parser_program g o ts = Some (parse g o ts).
Proof. exact gen_parse_is_parse. Qed.
Print Assumptions C11_model_parser_is_source.

Theorem C11_model_parse_expr_is_source : forall (g : grammar) (o : oracles) (n : nat) (prec : Z) (d : nat) (ts : list token),
  gen_parse_expr parser_program g o n prec d ts = lift_e d (parse_expr g o n prec d ts).
Proof. exact gen_parse_expr_is_parse_expr. Qed.
Print Assumptions C11_model_parse_expr_is_source.

Theorem C11_parser_source_recognised : recognised parser_program = true.
Proof. exact genparser_recognised. Qed.
Print Assumptions C11_parser_source_recognised.

Example C11_model_parser_is_source_nonvacuous :
  gen_parse parser_program gen_grammar C11.ex_oracles (print_min gen_grammar dec ex_fmt_float ex_tree) = Some (ROk ex_tree).
Proof. rewrite gen_parse_is_parse. rewrite (proj2 C11_example_roundtrip). reflexivity. Qed.

(* ------------------------------------------------------------------------------------------------------------------
   10. CAPSTONES: the theorems of 2, 4, 5, 7 restated over the REGENERATED front end only (Bridge/BrCapstoneC11.v composes
       each property theorem with C11_model_parser_is_source and C12_model_lexer_is_source; neither Parser.parse nor
       Lexer.lex occurs in the statements below).
         gen_parse parser_program g o ts        the interpretation of parser/parser.go as regenerated into gen/GenParser.v
                                                (Some r: the interpreter finished with parser result r),
         source_parse_text ul ud us g o txt     parser.Parse on a text: the interpretation of the regenerated lexer
                                                (gen_lex .. lexer_funs, gen/GenLexer.v), then gen_parse on its tokens,
         source_text_positions ul ud us txt     the locations the regenerated lexer gives to the tokens of txt,
         gen_grammar                            the regenerated operator / builtin tables.
       Reference side: the printers, the renderer and its layouts, normalize / ref_parses, erase_loc, loc_at.
       Carve-outs are those of the model-level theorems (printable, tree_textable, white / notin_spaced, sound_scope, plain). *)
Require Import X.Lex.LexRules X.gen.GenLexer X.Bridge.BrLexerFns X.Bridge.BrCapstoneC11.

Theorem C11_source_front_end_unfold : forall (uni_letter uni_digit uni_space : Z -> bool) (g : grammar) (o : oracles) (txt : list Z),
  source_parse_text uni_letter uni_digit uni_space g o txt =
    match gen_lex uni_letter uni_digit uni_space lexer_funs txt with
    | GenOk ts => gen_parse parser_program g o ts
    | GenErr l => Some (RErr l)
    | GenOutOfFuel => Some RFuel
    | GenCrash _ => None
    end /\
  source_text_positions uni_letter uni_digit uni_space txt =
    match gen_lex uni_letter uni_digit uni_space lexer_funs txt with GenOk ts => map tloc ts | _ => [] end.
Proof. exact (fun ul ud us g o txt => conj eq_refl eq_refl). Qed.

(* 10a. token level: round trip for all trees and all redundant parentheses; printer over the DOCUMENTED tables *)
Theorem C11_source_roundtrip : forall (o : oracles) (fmt_int : Z -> string) (fmt_float : PrimFloat.float -> string) (c : poracle) (t : expr),
  printable gen_grammar fmt_int fmt_float o c t ->
  gen_parse parser_program gen_grammar o (print_any gen_grammar fmt_int fmt_float c t) = Some (ROk t).
Proof. exact src_roundtrip. Qed.

Theorem C11_source_redundant_parentheses : forall (o : oracles) (fmt_int : Z -> string) (fmt_float : PrimFloat.float -> string) (c1 c2 : poracle) (t : expr),
  printable gen_grammar fmt_int fmt_float o c1 t -> printable gen_grammar fmt_int fmt_float o c2 t ->
  gen_parse parser_program gen_grammar o (print_any gen_grammar fmt_int fmt_float c1 t) =
  gen_parse parser_program gen_grammar o (print_any gen_grammar fmt_int fmt_float c2 t).
Proof. exact src_redundant_parentheses. Qed.

Theorem C11_source_roundtrip_reference_printer : forall (o : oracles) (fmt_int : Z -> string) (fmt_float : PrimFloat.float -> string) (c : poracle) (t : expr),
  printable (canon_grammar ref_grammar) fmt_int fmt_float o c t ->
  gen_parse parser_program gen_grammar o (print_any (canon_grammar ref_grammar) fmt_int fmt_float c t) = Some (ROk t).
Proof. exact src_roundtrip_reference_printer. Qed.

Theorem C11_source_any_parentheses : forall (o : oracles) (fmt_int : Z -> string) (fmt_float : PrimFloat.float -> string) (c : poracle) (t : expr),
  printable gen_grammar fmt_int fmt_float o no_extra t ->
  (forall path x, node_at t path = Some x -> no_parens_allowed x = true -> c path = O) ->
  gen_parse parser_program gen_grammar o (print_any gen_grammar fmt_int fmt_float c t) = Some (ROk t).
Proof. exact src_any_parentheses. Qed.

Theorem C11_source_parse_total : forall (g : grammar) (o : oracles) (ts : list token),
  gen_parse parser_program g o ts <> None /\ gen_parse parser_program g o ts <> Some RFuel.
Proof. exact src_parse_total. Qed.

(* 10b. TEXT level: print (any redundant parentheses), lay out (any white layout), regenerated lexer, regenerated parser *)
Theorem C11_source_text_roundtrip : forall (uni_letter uni_digit uni_space : Z -> bool) (o : oracles)
    (fmt_int : Z -> string) (fmt_float : PrimFloat.float -> string) (c : poracle) (t : expr) (L : layout),
  printable gen_grammar fmt_int fmt_float o c t ->
  tree_textable uni_letter uni_digit uni_space fmt_int fmt_float t = true ->
  white L (print_any gen_grammar fmt_int fmt_float c t) = true ->
  exists t', source_parse_text uni_letter uni_digit uni_space gen_grammar o
               (render uni_letter uni_digit uni_space L (print_any gen_grammar fmt_int fmt_float c t)) = Some (ROk t') /\
             erase_loc t' = erase_loc t.
Proof. exact src_text_roundtrip. Qed.

Theorem C11_source_text_roundtrip_good_layout : forall (uni_letter uni_digit uni_space : Z -> bool) (o : oracles)
    (fmt_int : Z -> string) (fmt_float : PrimFloat.float -> string) (c : poracle) (t : expr) (L : layout),
  printable gen_grammar fmt_int fmt_float o c t ->
  layout_good uni_letter uni_digit uni_space L (print_any gen_grammar fmt_int fmt_float c t) = true ->
  exists t', source_parse_text uni_letter uni_digit uni_space gen_grammar o
               (render uni_letter uni_digit uni_space L (print_any gen_grammar fmt_int fmt_float c t)) = Some (ROk t') /\
             erase_loc t' = erase_loc t.
Proof. exact src_text_roundtrip_good_layout. Qed.

(* every token list that has a spelling, any good layout: the regenerated front end on the text = the regenerated parser
   on the tokens, up to locations; and any spelling of a token sequence parses like the sequence it spells *)
Theorem C11_source_text_tokens : forall (uni_letter uni_digit uni_space : Z -> bool) (g : grammar) (o : oracles) (L : layout) (toks : list token),
  layout_good uni_letter uni_digit uni_space L toks = true ->
  option_map erase_result (source_parse_text uni_letter uni_digit uni_space g o (render uni_letter uni_digit uni_space L toks)) =
  option_map erase_result (gen_parse parser_program g o toks).
Proof. exact src_text_tokens. Qed.

Theorem C11_source_text_any_spelling : forall (uni_letter uni_digit uni_space : Z -> bool) (g : grammar) (o : oracles)
    (items : list (list Z * xtok)) (trail : list Z),
  layoutx_ok uni_letter uni_digit uni_space items trail = true ->
  option_map erase_result (source_parse_text uni_letter uni_digit uni_space g o (layoutx items trail)) =
  gen_parse parser_program g o (map (fun it => xtoken (snd it)) items ++ [mkTok noloc TkEOF ""])%list.
Proof. exact src_text_any_spelling. Qed.

(* node locations of the tree returned by the regenerated parser = positions the regenerated lexer gave to the anchor tokens *)
Theorem C11_source_text_locations : forall (uni_letter uni_digit uni_space : Z -> bool) (o : oracles)
    (fmt_int : Z -> string) (fmt_float : PrimFloat.float -> string) (c : poracle) (t : expr) (L : layout),
  let toks := print_any gen_grammar fmt_int fmt_float c t in
  printable gen_grammar fmt_int fmt_float o c t ->
  tree_textable uni_letter uni_digit uni_space fmt_int fmt_float t = true ->
  white L toks = true -> distinct_locs toks = true ->
  exists t', source_parse_text uni_letter uni_digit uni_space gen_grammar o (render uni_letter uni_digit uni_space L toks) = Some (ROk t') /\
    erase_loc t' = erase_loc t /\
    forall path x, node_at t path = Some x -> Ast.loc_of x <> noloc ->
      exists x', node_at t' path = Some x' /\
        Ast.loc_of x' = loc_at toks (source_text_positions uni_letter uni_digit uni_space (render uni_letter uni_digit uni_space L toks)) (Ast.loc_of x).
Proof. exact src_text_locations. Qed.

Theorem C11_source_whitespace_irrelevant : forall (uni_letter uni_digit uni_space : Z -> bool) (o : oracles)
    (fmt_int : Z -> string) (fmt_float : PrimFloat.float -> string) (c : poracle) (t : expr) (L1 L2 : layout),
  printable gen_grammar fmt_int fmt_float o c t ->
  tree_textable uni_letter uni_digit uni_space fmt_int fmt_float t = true ->
  white L1 (print_any gen_grammar fmt_int fmt_float c t) = true ->
  white L2 (print_any gen_grammar fmt_int fmt_float c t) = true ->
  exists t1 t2,
    source_parse_text uni_letter uni_digit uni_space gen_grammar o
      (render uni_letter uni_digit uni_space L1 (print_any gen_grammar fmt_int fmt_float c t)) = Some (ROk t1) /\
    source_parse_text uni_letter uni_digit uni_space gen_grammar o
      (render uni_letter uni_digit uni_space L2 (print_any gen_grammar fmt_int fmt_float c t)) = Some (ROk t2) /\
    erase_loc t1 = erase_loc t2 /\ erase_loc t1 = erase_loc t.
Proof. exact src_whitespace_irrelevant. Qed.

Theorem C11_source_redundant_parentheses_text : forall (uni_letter uni_digit uni_space : Z -> bool) (o : oracles)
    (fmt_int : Z -> string) (fmt_float : PrimFloat.float -> string) (c1 c2 : poracle) (t : expr) (L1 L2 : layout),
  printable gen_grammar fmt_int fmt_float o c1 t -> printable gen_grammar fmt_int fmt_float o c2 t ->
  tree_textable uni_letter uni_digit uni_space fmt_int fmt_float t = true ->
  white L1 (print_any gen_grammar fmt_int fmt_float c1 t) = true ->
  white L2 (print_any gen_grammar fmt_int fmt_float c2 t) = true ->
  exists t1 t2,
    source_parse_text uni_letter uni_digit uni_space gen_grammar o
      (render uni_letter uni_digit uni_space L1 (print_any gen_grammar fmt_int fmt_float c1 t)) = Some (ROk t1) /\
    source_parse_text uni_letter uni_digit uni_space gen_grammar o
      (render uni_letter uni_digit uni_space L2 (print_any gen_grammar fmt_int fmt_float c2 t)) = Some (ROk t2) /\
    erase_loc t1 = erase_loc t2 /\ erase_loc t1 = erase_loc t.
Proof. exact src_redundant_parentheses_text. Qed.

(* the finding C11-notin-spacing stated of the regenerated front end: full statement refuted, carved statement beside it *)
Definition C11_source_text_full_statement : Prop := src_text_full_statement.
Theorem C11_source_text_full_statement_refuted : ~ C11_source_text_full_statement.
Proof. exact src_text_full_statement_refuted. Qed.

Theorem C11_source_text_partial : forall (uni_letter uni_digit uni_space : Z -> bool) (o : oracles)
    (fmt_int : Z -> string) (fmt_float : PrimFloat.float -> string) (c : poracle) (t : expr) (L : layout),
  let toks := print_any gen_grammar fmt_int fmt_float c t in
  printable gen_grammar fmt_int fmt_float o c t ->
  tree_textable uni_letter uni_digit uni_space fmt_int fmt_float t = true ->
  gaps_ok L 0 toks = true -> notin_spaced L 0 toks = true ->
  exists t', source_parse_text uni_letter uni_digit uni_space gen_grammar o (render uni_letter uni_digit uni_space L toks) = Some (ROk t') /\
             erase_loc t' = erase_loc t.
Proof. exact src_text_partial. Qed.

(* 10c. SOUNDNESS of the regenerated parser against the reference grammar (second sentence of the property) *)
Theorem C11_source_parse_sound : forall (o : oracles) (fmt_int : Z -> string) (fmt_float : PrimFloat.float -> string) (ts : list token) (t : expr),
  sound_scope gen_grammar o fmt_int fmt_float ts = true -> gen_parse parser_program gen_grammar o ts = Some (ROk t) ->
  exists c, printable gen_grammar fmt_int fmt_float o c t /\
            normalize gen_grammar o fmt_int fmt_float ts = print_any gen_grammar fmt_int fmt_float c t.
Proof. exact src_parse_sound. Qed.

Theorem C11_source_unique_tree : forall (o : oracles) (fmt_int : Z -> string) (fmt_float : PrimFloat.float -> string) (ts : list token) (t1 t2 : expr),
  sound_scope gen_grammar o fmt_int fmt_float ts = true -> gen_parse parser_program gen_grammar o ts = Some (ROk t1) ->
  ref_parses gen_grammar o fmt_int fmt_float ts t2 -> t1 = t2.
Proof. exact src_unique_tree. Qed.

Theorem C11_source_rejects_iff : forall (o : oracles) (fmt_int : Z -> string) (fmt_float : PrimFloat.float -> string) (ts : list token),
  sound_scope gen_grammar o fmt_int fmt_float ts = true -> plain gen_grammar o fmt_int fmt_float ts = true ->
  ((exists e, gen_parse parser_program gen_grammar o ts = Some (RErr e)) <-> ~ (exists t, ref_parses gen_grammar o fmt_int fmt_float ts t)).
Proof. exact src_rejects_iff. Qed.

Theorem C11_source_not_generated_rejected : forall (o : oracles) (fmt_int : Z -> string) (fmt_float : PrimFloat.float -> string) (ts : list token),
  sound_scope gen_grammar o fmt_int fmt_float ts = true ->
  ~ (exists t, ref_parses gen_grammar o fmt_int fmt_float ts t) -> exists e, gen_parse parser_program gen_grammar o ts = Some (RErr e).
Proof. exact src_not_generated_rejected. Qed.

Theorem C11_source_generated_accepted : forall (o : oracles) (fmt_int : Z -> string) (fmt_float : PrimFloat.float -> string) (ts : list token) (t : expr),
  plain gen_grammar o fmt_int fmt_float ts = true -> ref_parses gen_grammar o fmt_int fmt_float ts t ->
  exists t', gen_parse parser_program gen_grammar o ts = Some (ROk t') /\ erase_loc t' = erase_loc t.
Proof. exact src_generated_accepted. Qed.

Definition C11_source_sound_full_statement : Prop := src_sound_full_statement.
Theorem C11_source_sound_full_statement_refuted : ~ C11_source_sound_full_statement.
Proof. exact src_sound_full_statement_refuted. Qed.

(* 10d. front to back on ANY text: if the regenerated lexer followed by the regenerated parser accepts txt with tree t, then the
   regenerated lexer produced a token list ts and, inside the carve-out, normalize ts IS the printing of t: equality of token
   lists includes the locations, so every node of t is located at the position the regenerated lexer gave its anchor token *)
Theorem C11_source_text_parse_sound : forall (uni_letter uni_digit uni_space : Z -> bool) (o : oracles)
    (fmt_int : Z -> string) (fmt_float : PrimFloat.float -> string) (txt : list Z) (t : expr),
  source_parse_text uni_letter uni_digit uni_space gen_grammar o txt = Some (ROk t) ->
  exists ts, gen_lex uni_letter uni_digit uni_space lexer_funs txt = GenOk ts /\
    (sound_scope gen_grammar o fmt_int fmt_float ts = true ->
     exists c, printable gen_grammar fmt_int fmt_float o c t /\
               normalize gen_grammar o fmt_int fmt_float ts = print_any gen_grammar fmt_int fmt_float c t).
Proof. exact src_text_parse_sound. Qed.

Definition C11_source_capstones :=
  (C11_source_roundtrip, C11_source_redundant_parentheses, C11_source_roundtrip_reference_printer, C11_source_any_parentheses,
   C11_source_parse_total, C11_source_text_roundtrip, C11_source_text_roundtrip_good_layout, C11_source_text_tokens,
   C11_source_text_any_spelling, C11_source_text_locations, C11_source_whitespace_irrelevant, C11_source_redundant_parentheses_text,
   C11_source_text_full_statement_refuted, C11_source_text_partial, C11_source_parse_sound, C11_source_unique_tree,
   C11_source_rejects_iff, C11_source_not_generated_rejected, C11_source_generated_accepted,
   C11_source_sound_full_statement_refuted, C11_source_text_parse_sound).
Print Assumptions C11_source_capstones.

(* ---- non-vacuity.  All hypotheses of the text capstones at once, on the tree / layouts / parentheses of section 5
   (unary, binary, conditional, calls, builtin with closure, array, map, a string with escapes; tabs, LF, CR LF): applied *)
Example C11_source_text_example_applied :
  exists t1 t2,
    source_parse_text nf nf nf gen_grammar C11.ex_oracles (render nf nf nf tx_layout2 (print_min gen_grammar dec ex_fmt_float tx_tree)) = Some (ROk t1) /\
    source_parse_text nf nf nf gen_grammar C11.ex_oracles (render nf nf nf tx_layout1 (print_any gen_grammar dec ex_fmt_float tx_parens tx_tree)) = Some (ROk t2) /\
    erase_loc t1 = erase_loc t2 /\ erase_loc t1 = erase_loc tx_tree.
Proof.
  exact (C11_source_redundant_parentheses_text nf nf nf C11.ex_oracles dec ex_fmt_float no_extra tx_parens tx_tree tx_layout2 tx_layout1
           (proj1 C11_text_nonvacuous_printable) (proj2 C11_text_nonvacuous_printable) C11_text_nonvacuous_textable
           (proj1 (proj2 C11_text_nonvacuous_layouts)) (proj2 (proj2 C11_text_nonvacuous_layouts))).
Qed.

(* ... and RECOMPUTED through the interpreters of the regenerated lexer and parser (vm_compute over gen/GenLexer.v and
   gen/GenParser.v): the labelled tree of C11_text_locations_nonvacuous comes back with every label replaced by the
   position the regenerated lexer gave to the token that carries it *)
Example C11_source_text_locations_computed :
  let toks := print_min gen_grammar dec ex_fmt_float lab_tree in
  let txt := render nf nf nf lab_layout toks in
  source_parse_text nf nf nf gen_grammar C11.ex_oracles txt = Some (ROk (map_loc (label_pos toks (source_text_positions nf nf nf txt)) lab_tree)) /\
  label_pos toks (source_text_positions nf nf nf txt) (9, 1) = (1, 4) /\
  label_pos toks (source_text_positions nf nf nf txt) (9, 12) = (10, 3).
Proof. vm_compute. repeat split. Qed.

(* soundness applied: token list with nested parentheses / conditional / builtin / closure, and the text with every
   alternative spelling, through the regenerated lexer and parser *)
Example C11_source_sound_example_applied :
  gen_parse parser_program gen_grammar C11.ex_oracles snd_ts = Some (ROk snd_tree) /\
  exists c, printable gen_grammar dec ex_fmt_float C11.ex_oracles c snd_tree /\
            normalize gen_grammar C11.ex_oracles dec ex_fmt_float snd_ts = print_any gen_grammar dec ex_fmt_float c snd_tree.
Proof.
  assert (E : gen_parse parser_program gen_grammar C11.ex_oracles snd_ts = Some (ROk snd_tree)) by (vm_compute; reflexivity).
  exact (conj E (C11_source_parse_sound C11.ex_oracles dec ex_fmt_float snd_ts snd_tree (proj1 C11_sound_nonvacuous) E)).
Qed.

Example C11_source_sound_lexed_text :
  match gen_lex nf nf nf lexer_funs (rs "filter(xs, {.a?.b.c > 0x10}) ? {k: 1, (z): [1, ((2)),]} : f(1, (g.not)) ") with
  | GenOk toks =>
      sound_scope gen_grammar C11.ex_oracles dec ex_fmt_float toks = true /\
      match gen_parse parser_program gen_grammar C11.ex_oracles toks with
      | Some (ROk t) => print_any gen_grammar dec ex_fmt_float (oracle_of_tokens gen_grammar C11.ex_oracles dec ex_fmt_float toks) t
                        = normalize gen_grammar C11.ex_oracles dec ex_fmt_float toks
      | _ => False
      end
  | _ => False
  end.
Proof. vm_compute. split; reflexivity. Qed.

(* Props/C11.v — Parsing follows the documented precedence and associativity.
   Only statements, each closed by `exact`, with Print Assumptions; Examples for non-vacuity. *)
From Coq Require Import ZArith Bool List String Ascii.
From Coq Require Floats.
Require Import X.Base.Num X.Base.Value X.Syn.Ast X.Syn.Tok X.Parse.Parser X.Parse.Printer X.Parse.ParseProofs
               X.Parse.RefGrammar X.gen.GenGrammar X.Corr.CorrC11 X.Bridge.BrC11.
Import ListNotations.
Open Scope Z_scope.
Open Scope string_scope.

(* ---- 1. the tables of parser/parser.go ARE the documented tables *)
Theorem C11_tables_are_reference :
  (forall s, lookup s gen_unary = lookup s ref_unary) /\
  (forall s, lookup s gen_binary = lookup s ref_binary) /\
  (forall s, lookup s gen_builtins = lookup s ref_builtins) /\
  gen_grammar = canon_grammar ref_grammar.
Proof. exact (conj gen_unary_is_ref (conj gen_binary_is_ref (conj gen_builtins_is_ref gen_grammar_is_ref))). Qed.
Print Assumptions C11_tables_are_reference.

(* ---- 2. round trip, for ALL trees and ALL parenthesis oracles (no depth bound), locations included.
   `printable c t` (Parse/Printer.v) characterises the trees the parser can produce and excludes
   additional parentheses only where they are not redundant (see 4. below). *)
Theorem C11_roundtrip : forall (o : oracles) (fmt_int : Z -> string) (fmt_float : PrimFloat.float -> string) (c : poracle) (t : expr),
  printable gen_grammar fmt_int fmt_float o c t ->
  parse gen_grammar o (print_any gen_grammar fmt_int fmt_float c t) = ROk t.
Proof. exact roundtrip_gen. Qed.
Print Assumptions C11_roundtrip.

(* printing with only the required parentheses *)
Theorem C11_roundtrip_min : forall (o : oracles) (fmt_int : Z -> string) (fmt_float : PrimFloat.float -> string) (t : expr),
  printable gen_grammar fmt_int fmt_float o no_extra t ->
  parse gen_grammar o (print_min gen_grammar fmt_int fmt_float t) = ROk t.
Proof. exact roundtrip_min_gen. Qed.
Print Assumptions C11_roundtrip_min.

(* redundant parentheses never change the tree *)
Theorem C11_redundant_parentheses : forall (o : oracles) (fmt_int : Z -> string) (fmt_float : PrimFloat.float -> string) (c1 c2 : poracle) (t : expr),
  printable gen_grammar fmt_int fmt_float o c1 t -> printable gen_grammar fmt_int fmt_float o c2 t ->
  parse gen_grammar o (print_any gen_grammar fmt_int fmt_float c1 t) =
  parse gen_grammar o (print_any gen_grammar fmt_int fmt_float c2 t).
Proof. exact redundant_parens_gen. Qed.
Print Assumptions C11_redundant_parentheses.

(* the printer follows the DOCUMENTED rules (reference tables), the parser uses the code's tables *)
Theorem C11_roundtrip_reference_printer : forall (o : oracles) (fmt_int : Z -> string) (fmt_float : PrimFloat.float -> string) (c : poracle) (t : expr),
  printable (canon_grammar ref_grammar) fmt_int fmt_float o c t ->
  parse gen_grammar o (print_any (canon_grammar ref_grammar) fmt_int fmt_float c t) = ROk t.
Proof. exact roundtrip_ref. Qed.
Print Assumptions C11_roundtrip_reference_printer.

(* the theorem is parametric in the tables: it holds for every grammar meeting the decidable side
   conditions, which the generated and the reference grammar do *)
Theorem C11_roundtrip_parametric : forall (g : grammar) (o : oracles) (fmt_int : Z -> string) (fmt_float : PrimFloat.float -> string),
  wf_grammar g = true -> forall (c : poracle) (t : expr),
  printable g fmt_int fmt_float o c t -> parse g o (print_any g fmt_int fmt_float c t) = ROk t.
Proof. exact roundtrip. Qed.
Print Assumptions C11_roundtrip_parametric.

Theorem C11_side_conditions : wf_grammar gen_grammar = true /\ wf_grammar ref_grammar = true /\ grammar_unrecognised = [].
Proof. exact (conj gen_grammar_wf (conj ref_grammar_wf translator_recognised_grammar)). Qed.
Print Assumptions C11_side_conditions.

(* the precedence-climbing invariant itself: an operand printed for level q with follower precedence
   f < q is returned by parseExpression(q) untouched, whatever follows *)
Theorem C11_operand : forall (o : oracles) (fmt_int : Z -> string) (fmt_float : PrimFloat.float -> string)
    (c : poracle) (d : nat) (t : expr) (q f : Z) (n : nat) (rest : list token),
  1 <= q -> f < q -> folb gen_grammar f rest = true ->
  wfp gen_grammar fmt_int fmt_float o c d (COp false q f) t ->
  (List.length (pr gen_grammar fmt_int fmt_float c (COp false q f) t) < n)%nat ->
  parse_expr gen_grammar o n q d (pr gen_grammar fmt_int fmt_float c (COp false q f) t ++ rest) = POk t rest.
Proof. exact (fun o fi ff => operand_parse gen_grammar o fi ff gen_grammar_wf). Qed.
Print Assumptions C11_operand.

(* ---- 3. the documented order of the binding powers, read off the generated table *)
Theorem C11_documented_order : documented_order_check = true.
Proof. exact documented_order. Qed.
Print Assumptions C11_documented_order.

(* every choice of additional parentheses is harmless, except around closures and map pairs (which
   are not expressions) and around an identifier whose NilSafe flag is set (known finding below):
   the decidable carve-out is `no_parens_allowed` of Parse/Printer.v *)
Theorem C11_any_parentheses : forall (o : oracles) (fmt_int : Z -> string) (fmt_float : PrimFloat.float -> string) (c : poracle) (t : expr),
  printable gen_grammar fmt_int fmt_float o no_extra t ->
  (forall path x, node_at t path = Some x -> no_parens_allowed x = true -> c path = O) ->
  parse gen_grammar o (print_any gen_grammar fmt_int fmt_float c t) = ROk t.
Proof. exact roundtrip_any_parens_gen. Qed.
Print Assumptions C11_any_parentheses.

(* ---- 4. what is NOT true of the pinned tree (known finding C11-paren-nilsafe-ident).
   Full statement: additional parentheses around ANY expression node are harmless whenever the tree
   is printable with the required ones only (closures and map pairs are not expressions). *)
Definition not_an_expression (x : expr) : bool :=
  match x with EClosure _ _ | EPair _ _ _ => true | _ => false end.

Definition C11_full_statement : Prop :=
  forall (o : oracles) (fmt_int : Z -> string) (fmt_float : PrimFloat.float -> string) (c : poracle) (t : expr),
    printable gen_grammar fmt_int fmt_float o no_extra t ->
    (forall path x, node_at t path = Some x -> not_an_expression x = true -> c path = O) ->
    parse gen_grammar o (print_any gen_grammar fmt_int fmt_float c t) = ROk t.

Definition o_none : oracles := mkOracles (fun _ => None) (fun _ => true).
Definition nilsafe_witness : expr := EProperty ann0 (EIdent ann0 "a" true) "b" true.
Definition paren_base : poracle := fun path => match path with [O] => 1%nat | _ => O end.

(* `a ?. b` and `( a ) ?. b`: IdentifierNode.NilSafe is true in the first tree, false in the second *)
Theorem C11_full_statement_refuted : ~ C11_full_statement.
Proof.
  intros H.
  assert (P : printable gen_grammar dec (fun _ => "") o_none no_extra nilsafe_witness).
  { vm_compute. repeat split; try reflexivity; intros; discriminate. }
  specialize (H o_none dec (fun _ => "") paren_base nilsafe_witness P).
  assert (B : forall path x, node_at nilsafe_witness path = Some x -> not_an_expression x = true -> paren_base path = O).
  { intros [|[|i] [|j r]] x N E; cbn in N; inversion N; subst; try discriminate E; reflexivity. }
  specialize (H B). vm_compute in H. discriminate H.
Qed.
Print Assumptions C11_full_statement_refuted.

Example C11_nilsafe_paren_trees :
  map tval (print_any gen_grammar dec (fun _ => "") paren_base nilsafe_witness) = ["("; "a"; ")"; "?."; "b"; ""] /\
  parse gen_grammar o_none (print_any gen_grammar dec (fun _ => "") paren_base nilsafe_witness)
    = ROk (EProperty ann0 (EIdent ann0 "a" false) "b" true) /\
  parse gen_grammar o_none (print_min gen_grammar dec (fun _ => "") nilsafe_witness) = ROk nilsafe_witness.
Proof. vm_compute. repeat split. Qed.

(* ---- non-vacuity: a tree with every kind of form meets the hypothesis, with and without extra parentheses *)
Definition ex_oracles : oracles :=
  mkOracles (fun s => if String.eqb s "1.5" then Some ex_float else None) (fun s => negb (String.eqb s "[a")).
Definition ex_fmt_float (f : PrimFloat.float) : string := "1.5".
Definition A0 := ann0.
Definition idt (s : string) := EIdent A0 s false.

Definition ex_tree : expr :=
  ECond A0
    (EBinary A0 BOrWord
       (EUnary A0 UNotWord (EMatches A0 (Some "^b.+") (idt "s") (EStr A0 "^b.+")))
       (EBinary A0 BLt (EBinary A0 BPow (EUnary A0 UMinus (EInt A0 2)) (EBinary A0 BPow (idt "x") (EFloat A0 ex_float)))
                      (EBinary A0 BMul (EBinary A0 BAdd (idt "a") (EInt A0 12)) (EUnary A0 UNotBang (idt "b")))))
    (EBuiltin A0 BiAll
       [EProperty A0 (EIndex A0 (EMethod A0 (EIdent A0 "u" true) "m" [idt "k"; ENil A0] true) (EInt A0 0)) "p" false;
        EClosure A0 (EBinary A0 BIn (EProperty A0 (EPointer A0) "z" false)
                       (ESlice A0 (EFunction A0 "f" [EBool A0 true] false) None (Some (EBinary A0 BRange (EInt A0 1) (EInt A0 3)))))])
    (ECond A0 (idt "c")
       (EArray A0 [idt "x"; EMap A0 [EPair A0 (EStr A0 "k") (idt "y"); EPair A0 (EBinary A0 BAdd (idt "k") (idt "l")) (ENil A0)]])
       (EBinary A0 BSub (EBinary A0 BSub (idt "p") (idt "q")) (ECond A0 (idt "r") (idt "s") (idt "t")))).

Definition ex_parens : poracle :=
  fun path => match path with [] => 2%nat | [O] => 1%nat | [O; O] => 1%nat | [2%nat; 1%nat; 0%nat] => 3%nat | [1%nat; 0%nat] => 1%nat | _ => O end.

Example C11_roundtrip_nonvacuous_min : printable gen_grammar dec ex_fmt_float ex_oracles no_extra ex_tree.
Proof.
  vm_compute. repeat split; try reflexivity; intros; try discriminate; try congruence;
    match goal with H : Some _ = Some _ |- _ => injection H as <-; reflexivity end.
Qed.

Example C11_roundtrip_nonvacuous_any : printable gen_grammar dec ex_fmt_float ex_oracles ex_parens ex_tree.
Proof.
  vm_compute. repeat split; try reflexivity; intros; try discriminate; try congruence;
    match goal with H : Some _ = Some _ |- _ => injection H as <-; reflexivity end.
Qed.

Example C11_any_parentheses_nonvacuous :
  forall path x, node_at ex_tree path = Some x -> no_parens_allowed x = true -> ex_parens path = O.
Proof.
  intros path x N E.
  assert (D : ex_parens path = O \/ In path [[]; [O]; [O; O]; [2%nat; 1%nat; 0%nat]; [1%nat; 0%nat]]).
  { unfold ex_parens. destruct path as [|[|[|[|a]]] [|[|[|b]] [|[|c] [|e r]]]]; cbn; tauto. }
  destruct D as [D|D]; [exact D|]. cbn in D.
  repeat (destruct D as [D|D]; [subst path; vm_compute in N; inversion N; subst x; discriminate E|]). contradiction.
Qed.

(* what the two printings look like *)
Example C11_example_tokens_min :
  map tval (print_min gen_grammar dec ex_fmt_float ex_tree) =
  ["not"; "("; "s"; "matches"; "^b.+"; ")"; "or"; "-"; "2"; "**"; "x"; "**"; "1.5"; "<"; "("; "a"; "+"; "12"; ")"; "*"; "!"; "b";
   "?"; "all"; "("; "("; "u"; "?."; "m"; "("; "k"; ","; "nil"; ")"; "["; "0"; "]"; ")"; "."; "p"; ",";
        "{"; "#"; "."; "z"; "in"; "f"; "("; "true"; ")"; "["; ":"; "1"; ".."; "3"; "]"; "}"; ")";
   ":"; "c"; "?"; "["; "x"; ","; "{"; "k"; ":"; "y"; ","; "("; "k"; "+"; "l"; ")"; ":"; "nil"; "}"; "]";
        ":"; "p"; "-"; "q"; "-"; "("; "r"; "?"; "s"; ":"; "t"; ")"; ""].
Proof. vm_compute. reflexivity. Qed.

(* the theorem applied (not recomputed) *)
Example C11_example_roundtrip :
  parse gen_grammar ex_oracles (print_any gen_grammar dec ex_fmt_float ex_parens ex_tree) = ROk ex_tree /\
  parse gen_grammar ex_oracles (print_min gen_grammar dec ex_fmt_float ex_tree) = ROk ex_tree.
Proof.
  split.
  - exact (C11_roundtrip ex_oracles dec ex_fmt_float ex_parens ex_tree C11_roundtrip_nonvacuous_any).
  - exact (C11_roundtrip_min ex_oracles dec ex_fmt_float ex_tree C11_roundtrip_nonvacuous_min).
Qed.

(* the documentation's own example: `not ("foo" matches "^b.+")` needs its parentheses *)
Example C11_doc_not_matches :
  let o := mkOracles (fun _ => None) (fun _ => true) in
  parse gen_grammar o [tO 1 0 "not"; tB 1 4 "("; tS 1 5 "foo"; tO 1 11 "matches"; tS 1 19 "^b.+"; tB 1 25 ")"; tE 1 25]
  = ROk (EUnary (at_loc (1, 0)) UNotWord
           (EMatches (at_loc (1, 11)) (Some "^b.+") (EStr (at_loc (1, 5)) "foo") (EStr (at_loc (1, 19)) "^b.+"))) /\
  parse gen_grammar o [tO 1 0 "not"; tS 1 4 "foo"; tO 1 10 "matches"; tS 1 18 "^b.+"; tE 1 23]
  = ROk (EMatches (at_loc (1, 10)) (Some "^b.+")
           (EUnary (at_loc (1, 0)) UNotWord (EStr (at_loc (1, 4)) "foo")) (EStr (at_loc (1, 18)) "^b.+")).
Proof. vm_compute. split; reflexivity. Qed.

(* Props/C07.v — A reused VM behaves like a fresh one. *)
From Coq Require Import ZArith Bool List String.
Require Import X.Base.Value X.Sem.Prim X.Sem.Sem X.BC.Instr X.BC.VM X.BC.Reuse X.BC.ReuseProofs X.Bridge.BrVM.
Import ListNotations.

(* For EVERY history of runs (any programs, any environments, any budgets, succeeding, failing
   midway or exhausting the budget) performed on one VM value in ANY state, each run returns what a
   fresh VM returns — with the reset set READ OFF THE CURRENT vm/vm.go (gen_resets). *)
Theorem C07_reuse :
  forall fe fuel (h : list job) (vm : vmrec),
    run_history fe gen_resets fuel vm h = fresh_results fe gen_resets fuel h.
Proof. exact (fun fe fuel => reuse_history fe gen_resets fuel gen_resets_all). Qed.
Print Assumptions C07_reuse.

(* generic form: any prologue that resets stack, scopes, ip and the allocation counter *)
Theorem C07_reuse_generic :
  forall fe resets fuel, resets_all resets = true ->
  forall h vm, run_history fe resets fuel vm h = fresh_results fe resets fuel h.
Proof. exact reuse_history. Qed.
Print Assumptions C07_reuse_generic.

(* the statement is FALSE for the prologue of the pinned tree before fix c75f069 (no reset of the
   allocation counter): two runs of a program allocating two elements under budget 3 *)
Theorem C07_memory_reset_needed :
  let resets := [FStack; FScopes; FIp] in
  let h := [(mkCfg false 3, VNil, alloc2); (mkCfg false 3, VNil, alloc2)] in
  run_history no_fenv resets 10 fresh_vm h <> fresh_results no_fenv resets 10 h.
Proof. exact memory_reset_needed. Qed.
Print Assumptions C07_memory_reset_needed.

Theorem C07_source_resets_everything :
  resets_all gen_resets = true /\ GenVM.vm_unrecognised = [].
Proof. exact (conj gen_resets_all translator_recognised_vm). Qed.

Example C07_nonvacuous :
  resets_all all_vfields = true /\
  run_history no_fenv all_vfields 10 fresh_vm [(mkCfg false 3, VNil, alloc2); (mkCfg false 3, VNil, alloc2)]
  = [Some (Done (VArr TIface [vint 1; vint 2]) (mkRS 2 [])); Some (Done (VArr TIface [vint 1; vint 2]) (mkRS 2 []))].
Proof. exact reuse_nonvacuous. Qed.

(* ---- lines to add to Props/C07.v (GenVMSteps: the prologue of Run, executed) ---- *)
Require X.BC.VMSteps X.gen.GenVMSteps X.Bridge.BrVMSteps.

(* the prologue of the CURRENT VM.Run, run on a machine in ANY state (ip, pp, stack, scopes, memory
   counter left by an earlier run), leaves the initial state of the model: ip = pp = 0, empty stack,
   no scopes, counter 0 *)
Theorem C07_prologue_resets :
  forall fe cfg env view bytes ip pp st sc m tr lc,
    VMSteps.gexec_list fe cfg env view bytes (VMSteps.v_prologue GenVMSteps.vm_src) (VMSteps.mkG ip pp st sc m tr lc None)
    = VMSteps.GOk tt (VMSteps.mkG 0 0 [] [] 0 tr lc None).
Proof. exact BrVMSteps.prologue_is. Qed.
Print Assumptions C07_prologue_resets.

(* hence Run read off the current source (prologue, loop, epilogue) returns on a reused machine what the
   model VM returns from its initial state *)
Theorem C07_source_run_ignores_previous_state :
  forall fe cfg env C d before,
    VMSteps.run_guard fe cfg env C d init_state = true ->
    option_map VMSteps.erase_stop_mem (VMSteps.interp_run fe cfg env C GenVMSteps.vm_src d before)
    = option_map VMSteps.erase_stop_mem (run_code fe cfg env C d).
Proof. exact BrVMSteps.vm_run_is_source_run. Qed.
Print Assumptions C07_source_run_ignores_previous_state.

Example C07_vmsteps_nonvacuous :
  VMSteps.run_guard BrVMSteps.w_fe BrVMSteps.w_cfg VNil BrVMSteps.run_ex_code 8 init_state = true /\
  VMSteps.interp_run BrVMSteps.w_fe BrVMSteps.w_cfg VNil BrVMSteps.run_ex_code GenVMSteps.vm_src 8 BrVMSteps.run_ex_dirty
  = run_code BrVMSteps.w_fe BrVMSteps.w_cfg VNil BrVMSteps.run_ex_code 8.
Proof. vm_compute. split; reflexivity. Qed.

(* ---- over the REGENERATED compiler schemes and the REGENERATED Run (BC/SourceCorrect.v) ---- *)
Require X.BC.SourceCorrect X.Sem.NoMachine.

(* any history of jobs (budget, environment, result cast, expression, fuel) on ONE machine in any state, each run
   starting from what the previous one left (success, failure midway, budget exhausted): every run returns what the
   language definition says (up to the unobservable memory counter inside a failure) ... *)
Theorem C07_source_history_is_ref :
  forall fe, X.Sem.NoMachine.fn_no_machine fe ->
  forall h vm, forallb (X.BC.SourceCorrect.sjob_ok fe) h = true ->
  map (option_map VMSteps.erase_stop_mem) (X.BC.SourceCorrect.source_history fe vm h)
  = map (fun j => Some (VMSteps.erase_stop_mem
                          (run_ref fe (X.BC.SourceCorrect.j_cfg j) (X.BC.SourceCorrect.j_env j)
                                   (X.BC.SourceCorrect.j_cast j) (X.BC.SourceCorrect.j_expr j)))) h.
Proof. exact X.BC.SourceCorrect.source_history_is_ref. Qed.
Print Assumptions C07_source_history_is_ref.

(* ... hence what the same job returns alone on a machine in the initial state *)
Theorem C07_source_history_is_fresh :
  forall fe, X.Sem.NoMachine.fn_no_machine fe ->
  forall h vm, forallb (X.BC.SourceCorrect.sjob_ok fe) h = true ->
  map (option_map VMSteps.erase_stop_mem) (X.BC.SourceCorrect.source_history fe vm h)
  = flat_map (fun j => map (option_map VMSteps.erase_stop_mem) (X.BC.SourceCorrect.source_history fe init_state [j])) h.
Proof. exact X.BC.SourceCorrect.source_history_is_fresh. Qed.
Print Assumptions C07_source_history_is_fresh.

(* a success, a run refused for the budget midway, a run failing inside a closure, the first job again - on a dirty
   machine; the jobs meet sjob_ok (compilable, run_guard, enough fuel) *)
Example C07_source_history_nonvacuous :
  forallb (X.BC.SourceCorrect.sjob_ok BrVMSteps.w_fe) X.BC.SourceCorrect.cap_history = true /\
  map (option_map VMSteps.erase_stop_mem)
      (X.BC.SourceCorrect.source_history BrVMSteps.w_fe X.BC.SourceCorrect.cap_dirty X.BC.SourceCorrect.cap_history)
  = map (fun j => Some (VMSteps.erase_stop_mem
                          (run_ref BrVMSteps.w_fe (X.BC.SourceCorrect.j_cfg j) (X.BC.SourceCorrect.j_env j)
                                   (X.BC.SourceCorrect.j_cast j) (X.BC.SourceCorrect.j_expr j))))
        X.BC.SourceCorrect.cap_history /\
  map (option_map X.BC.SourceCorrect.budget_verdict)
      (X.BC.SourceCorrect.source_history BrVMSteps.w_fe X.BC.SourceCorrect.cap_dirty X.BC.SourceCorrect.cap_history)
  = [Some false; Some true; Some false; Some false] /\
  map (option_map (fun r => match r with Done _ _ => true | _ => false end))
      (X.BC.SourceCorrect.source_history BrVMSteps.w_fe X.BC.SourceCorrect.cap_dirty X.BC.SourceCorrect.cap_history)
  = [Some true; Some false; Some false; Some true].
Proof. exact X.BC.SourceCorrect.source_history_nonvacuous. Qed.

(* Props/C05.v — Emitted bytecode is well-formed and stack-balanced. *)
From Coq Require Import ZArith Bool List String Arith.
Require Import X.Base.Num X.Base.Value X.Syn.Ast X.Sem.Prim X.Sem.Sem X.BC.Instr X.BC.Compiler X.BC.VM X.BC.Decode
               X.BC.CompileProofs X.BC.Verify.
Import ListNotations.
Local Open Scope nat_scope.

(* The structural verifier is sound: in code that passes the jump check the program counter
   stays on instruction boundaries whatever the run does, so the machine never decodes from the
   middle of an instruction nor beyond the end of the program. *)
Theorem C05_verifier_sound :
  forall fe cfg env C, jumps_ok C = true ->
  forall s s', boundary C (pc s) = true -> step fe cfg env C s = Next s' -> boundary C (pc s') = true.
Proof. exact step_keeps_boundary. Qed.
Print Assumptions C05_verifier_sound.

Theorem C05_on_boundary_decodes :
  forall C s, boundary C (pc s) = true -> pc s < csize C -> exists x, fetch C (pc s) = Some x.
Proof. exact verified_never_misdecodes. Qed.
Print Assumptions C05_on_boundary_decodes.

(* Everything the compiler emits passes the jump check: every jump of every compiled program lands
   on an instruction boundary inside the program or exactly at its end (all expressions, all nestings). *)
Theorem C05_compile_wf :
  forall mapenv c e, compilable e = true -> jumps_ok (compile_program mapenv c e) = true.
Proof. exact compile_program_wf. Qed.
Print Assumptions C05_compile_wf.

(* Stack balance: a successful evaluation ends with exactly the result on the stack and no scope
   left open (instance st = [], scs = [] of the simulation theorem). *)
Theorem C05_balanced :
  forall fe cfg env e, compilable e = true ->
  let C := compile (c_mapenv cfg) e in
  forall r v r', eval fe cfg env [] e r = Done v r' ->
  star fe cfg env C (mkSt 0 [] [] r) (mkSt (csize C) [v] [] r').
Proof.
  intros fe cfg env e Hc C r v r' He.
  pose proof (compile_correct fe cfg env C e Hc [] [] cm_nil 0) as H.
  assert (Hat : code_at C 0 (compile (c_mapenv cfg) e)) by (exists [], []; split; [rewrite app_nil_r; reflexivity|reflexivity]).
  specialize (H Hat [] r). rewrite He in H. exact H.
Qed.
Print Assumptions C05_balanced.

(* No run of a compiled program fails for a machine reason of its own: whenever it stops, it stops
   exactly where and why the reference semantics stops (which has no notion of a stack). *)
Theorem C05_failures_are_semantic :
  forall fe cfg env e, compilable e = true ->
  let C := compile (c_mapenv cfg) e in
  forall r er l r', eval fe cfg env [] e r = Stop er l r' ->
  exists s', star fe cfg env C (mkSt 0 [] [] r) s' /\ step fe cfg env C s' = Crash er l r'.
Proof.
  intros fe cfg env e Hc C r er l r' He.
  pose proof (compile_correct fe cfg env C e Hc [] [] cm_nil 0) as H.
  assert (Hat : code_at C 0 (compile (c_mapenv cfg) e)) by (exists [], []; split; [rewrite app_nil_r; reflexivity|reflexivity]).
  specialize (H Hat [] r). rewrite He in H. exact H.
Qed.
Print Assumptions C05_failures_are_semantic.

(* the verifier rejects what it should (non-vacuity): a jump into the middle of an instruction *)
Example C05_verifier_rejects :
  wf_progb (mkProg [14; 1; 0; 0; 0; 0]%Z [CVal VNil] []) = false /\
  wf_progb (mkProg [14; 3; 0; 0; 0; 0]%Z [CVal VNil] []) = true.
Proof. vm_compute. split; reflexivity. Qed.

(* No run of a compiled program ever fails for a machine reason (popping an empty stack, a
   missing scope, decoding outside an instruction): its outcome is the reference outcome, and the
   reference semantics never produces the machine class. *)
Require Import X.Sem.NoMachine X.BC.RunProofs.

Theorem C05_no_machine_failure :
  forall fe cfg env c e, fn_no_machine fe -> compilable e = true ->
  exists d0, forall d, (d0 <= d)%nat ->
    exists r, run_code fe cfg env (compile_program (c_mapenv cfg) c e) d = Some r /\ not_machine r.
Proof.
  intros fe cfg env c e Hf Hc.
  assert (Hl : stop_is_locatable (eval fe cfg env [] e rs0)).
  { pose proof (eval_no_machine fe cfg env Hf e [] rs0) as H. unfold not_machine, stop_is_locatable in *.
    destruct (eval fe cfg env [] e rs0) as [v r|er l r]; auto. destruct er; auto; try contradiction. }
  destruct (run_compiled_program fe cfg env e c Hc Hl) as [d0 H]. exists d0. intros d Hd.
  exists (run_ref fe cfg env c e). split; [apply H; exact Hd|apply run_ref_no_machine; exact Hf].
Qed.
Print Assumptions C05_no_machine_failure.

(* ------------------------------------------------------------------------------------------
   The byte level of the compiler (BC/Assemble.v): emit, makeConstant (constant pool with the index
   map), encode, the 65535 limits of makeConstant / patchJump / calcBackwardJump.
   assemble / assemble_items turn IR into Bytecode + Constants + Locations; decode inverts them. *)
Require Import X.BC.Assemble X.BC.AssembleProofs.

(* Whatever is assembled decodes: every opcode is known, every operand is in range and of the kind
   its instruction expects, and the decoded instructions are the assembled ones - up to a pushed
   constant being replaced by an earlier constant that Go's index map considers equal (code_sim:
   both are hashable keys - never a float zero of its own - and equal for Go's ==). *)
Theorem C05_decode_assemble :
  forall C p, assemble C = Some p -> exists C', decode p = DOk C' /\ code_sim C C'.
Proof. exact decode_assemble. Qed.
Print Assumptions C05_decode_assemble.

(* the same for item lists, i.e. with the constant numbering of the Go compiler *)
Theorem C05_decode_assemble_items :
  forall its p, assemble_items its = Some p -> exists C', decode p = DOk C' /\ code_sim (items_code its) C'.
Proof. exact decode_assemble_items. Qed.
Print Assumptions C05_decode_assemble_items.

(* decode returns the very code when no by-value struct constant has a negative float zero in a field
   (code_keys_exact; float constants of their own need no condition: a zero is never shared) ... *)
Theorem C05_decode_assemble_exact :
  forall C p, assemble C = Some p -> code_keys_exact C = true -> decode p = DOk C.
Proof. exact decode_assemble_exact. Qed.
Print Assumptions C05_decode_assemble_exact.

(* ... and not in general: Go's == on structs identifies T{X: 0.0} and T{X: -0.0}, so makeConstant gives
   the second the pool index of the first (witness negzero_struct_code) *)
Theorem C05_decode_assemble_exact_refuted : ~ decode_assemble_exact_full_statement.
Proof. exact decode_assemble_exact_refuted. Qed.
Print Assumptions C05_decode_assemble_exact_refuted.

(* The bytes assembled from any compiled expression pass the structural verifier: they decode
   (operands in range and of the expected kind) and every jump lands on an instruction boundary. *)
Theorem C05_bytes_wf :
  forall mapenv c e p, compilable e = true ->
  assemble (compile_program mapenv c e) = Some p -> wf_progb p = true.
Proof. exact assemble_compiled_wf. Qed.
Print Assumptions C05_bytes_wf.

(* compile_bytes = compiler.Compile at byte level (constants numbered in the order of the Go
   makeConstant calls); erasing the bare makeConstant calls of its input gives the IR compiler *)
Theorem C05_items_erase_to_compile :
  forall mapenv c e, items_code (compile_items_program mapenv c e) = compile_program mapenv c e.
Proof. exact items_code_compile_program. Qed.
Print Assumptions C05_items_erase_to_compile.

Theorem C05_compile_bytes_decodes :
  forall mapenv c e p, compile_bytes mapenv c e = Some p ->
  exists C', decode p = DOk C' /\ code_sim (compile_program mapenv c e) C'.
Proof. exact compile_bytes_decodes. Qed.
Print Assumptions C05_compile_bytes_decodes.

Theorem C05_compile_bytes_exact :
  forall mapenv c e p, compile_bytes mapenv c e = Some p ->
  items_keys_exact (compile_items_program mapenv c e) = true -> decode p = DOk (compile_program mapenv c e).
Proof. exact compile_bytes_exact. Qed.
Print Assumptions C05_compile_bytes_exact.

Theorem C05_compile_bytes_wf :
  forall mapenv c e p, compile_bytes mapenv c e = Some p -> wf_progb p = true.
Proof. exact compile_bytes_wf. Qed.
Print Assumptions C05_compile_bytes_wf.

(* Assembling fails only for the panics of the Go code: a jump offset above 65535, a pool of more
   than 65535 entries, or an instruction no Go compile emits / a constant makeConstant cannot hash. *)
Theorem C05_assemble_fails_only_when_too_big :
  forall C, assemble C = None -> code_fail_reason C.
Proof. exact assemble_fails_only_when_too_big. Qed.
Print Assumptions C05_assemble_fails_only_when_too_big.

Theorem C05_assemble_items_fails_iff :
  forall its, assemble_items its = None <-> asm_fail_reason its [].
Proof. exact assemble_items_fails_iff. Qed.
Print Assumptions C05_assemble_items_fails_iff.

Theorem C05_compile_bytes_fails_iff :
  forall mapenv c e, compile_bytes mapenv c e = None <->
  compilable e = false \/ asm_fail_reason (compile_items_program mapenv c e) [].
Proof. exact compile_bytes_fails_iff. Qed.
Print Assumptions C05_compile_bytes_fails_iff.

(* ---- examples (non-vacuity) ---- *)
(* c05_ex (BC/Assemble.v): s matches "^a" ? f(1.5, 1, f(1.5, 2, 1)) : filter(1..3, {# > 1}), compiled with AsInt64 *)
(* the bytes and the pool are those of the Go compiler for this source (pool in makeConstant call
   order: "count" before the operands of filter, "i" "size" "array" at the head of the loop;
   1.5, 1 and Call{f,3} are de-duplicated, the regexp is not a key); they decode back to the IR *)
Example C05_compile_bytes_example :
  exists p, compile_bytes false CastInt64 c05_ex = Some p /\
    p_bytes p = [3; 0; 0; 31; 1; 0; 16; 25; 0; 1; 0; 2; 0; 0; 3; 0; 0; 2; 0; 0; 4; 0; 0; 3; 0; 39; 5; 0; 39; 5; 0; 14; 80;
                 0; 1; 0; 3; 0; 0; 7; 0; 29; 50; 0; 8; 0; 47; 6; 0; 45; 47; 10; 0; 47; 11; 0; 0; 8; 0; 47; 9; 0; 48; 9; 0;
                 48; 10; 0; 19; 16; 36; 0; 1; 48; 11; 0; 48; 9; 0; 35; 0; 3; 0; 20; 16; 14; 0; 1; 49; 6; 0; 48; 11; 0; 48;
                 9; 0; 35; 14; 1; 0; 1; 49; 9; 0; 17; 46; 0; 1; 48; 6; 0; 51; 43; 46; 0; 0]%Z /\
    p_consts p = c05_ex_pool /\
    items_keys_exact (compile_items_program false CastInt64 c05_ex) = true /\
    decode p = DOk (compile_program false CastInt64 c05_ex) /\
    wf_progb p = true.
Proof. eexists. vm_compute. repeat split; reflexivity. Qed.

(* first-use numbering of the plain IR: same bytes up to the pool permutation, decodes back as well *)
Example C05_assemble_example :
  exists p, assemble (compile_program false CastInt64 c05_ex) = Some p /\
    code_keys_exact (compile_program false CastInt64 c05_ex) = true /\
    decode p = DOk (compile_program false CastInt64 c05_ex) /\ wf_progb p = true.
Proof. eexists. vm_compute. repeat split; reflexivity. Qed.

(* c05_big_cond n (BC/Assemble.v): true ? [1, 1, ... n times] : 2 — the branch is 3n + 4 bytes, the
   conditional jump spans 3n + 8.  Offset 65534: accepted, 65542 bytes, the operand bytes are 254 255 *)
Example C05_jump_65534_accepted :
  match compile_bytes false CastNone (c05_big_cond 21842) with
  | Some p => (Z.of_nat (List.length (p_bytes p)) =? 65542)%Z &&
              match firstn 4 (p_bytes p) with [6; 16; 254; 255]%Z => true | _ => false end
  | None => false
  end = true.
Proof. vm_compute. reflexivity. Qed.

(* offset 65537: refused (the Go compiler panics "exceeded jump offset limit"), by both assemblers,
   and the reason is the one the failure theorem names *)
Example C05_jump_64k_refused :
  compile_bytes false CastNone (c05_big_cond 21843) = None /\
  assemble (compile_program false CastNone (c05_big_cond 21843)) = None /\
  existsb jump_too_far (compile_items_program false CastNone (c05_big_cond 21843)) = true.
Proof. vm_compute. repeat split; reflexivity. Qed.

(* constants the Go compiler cannot hash: pushing a nil interface or a func value is refused *)
Example C05_unhashable_refused :
  assemble [(IPush VNil, noloc)] = None /\ assemble [(IPush (VFunc "f" (TFunc [] false [TBool])), noloc)] = None /\
  assemble [(ICast 2, noloc)] = None.
Proof. vm_compute. repeat split; reflexivity. Qed.

(* For an expression whose ConstantNodes carry hashable values, Compile fails at byte level only for
   an unknown operator / builtin or for size: a jump offset above 65535 or more than 65535 pool entries. *)
Theorem C05_compile_bytes_fails_only_when_too_big :
  forall mapenv c e, consts_hashable e = true -> compile_bytes mapenv c e = None ->
  compilable e = false \/
  (exists it, In it (compile_items_program mapenv c e) /\ jump_too_far it = true) \/
  (max_uint16 < Z.of_nat (List.length (pool_of (compile_items_program mapenv c e) [])))%Z.
Proof. exact compile_bytes_fails_only_when_too_big. Qed.
Print Assumptions C05_compile_bytes_fails_only_when_too_big.

Example C05_fails_only_when_too_big_nonvacuous :
  consts_hashable (c05_big_cond 21843) = true /\ compilable (c05_big_cond 21843) = true /\
  compile_bytes false CastNone (c05_big_cond 21843) = None.
Proof. vm_compute. repeat split; reflexivity. Qed.

(* a ConstantNode holding a func value is the other way to fail (hash of unhashable type) *)
Example C05_unhashable_constant_refused :
  consts_hashable (EConst ann0 (VFunc "f" (TFunc [] false [TBool]))) = false /\
  compile_bytes false CastNone (EConst ann0 (VFunc "f" (TFunc [] false [TBool]))) = None.
Proof. vm_compute. split; reflexivity. Qed.

(* every element of an assembled Bytecode is a byte (0..255) and the pool has at most 65535 entries *)
Theorem C05_assembled_bytes_are_bytes :
  forall its p, assemble_items its = Some p ->
  Forall is_byte (p_bytes p) /\ (Z.of_nat (List.length (p_consts p)) <= max_uint16)%Z.
Proof. exact assemble_items_bytes. Qed.
Print Assumptions C05_assembled_bytes_are_bytes.

(* the repaired defect (fix "0.0 and -0.0 do not share a constant-pool entry"): the two zeros as
   constants of their own are two pool entries and decode back exactly *)
Example C05_negzero_kept_apart :
  exists p, assemble negzero_code = Some p /\ List.length (p_consts p) = 2%nat /\
            code_keys_exact negzero_code = true /\ decode p = DOk negzero_code.
Proof.
  destruct negzero_kept_apart as [p [Ha [Hc [Hk Hd]]]]. exists p. rewrite Hc. repeat split; assumption.
Qed.
From Coq Require Import ZArith Bool List String Arith.
Require Import X.Base.Num X.Base.Value X.Syn.Ast X.Sem.Prim X.Sem.Sem X.BC.Instr X.BC.Compiler X.BC.VM X.BC.Decode.
Require Import X.BC.Assemble X.BC.AssembleProofs.
Import ListNotations.

(* ---- lines to add to Props/C05.v ---- *)
(* Tie of BC/Assemble.compile_items (the model compiler WITH the order of the makeConstant calls, i.e.
   the numbering of the constant pool) to compiler/compiler.go by regeneration (gen/GenSchemes.v). *)
Require Import X.BC.Schemes X.BC.SchemesItems X.gen.GenSchemes X.Bridge.BrSchemesItems.

Theorem C05_compile_items_is_source_schemes :
  forall rec mapenv e, node_compilable e = true ->
  (forall y, In y (children e) -> rec y = Some (items_node mapenv y)) ->
  interp_items GenSchemes.schemes rec mapenv e = Some (items_node mapenv e).
Proof. exact schemes_step_items. Qed.
Print Assumptions C05_compile_items_is_source_schemes.

Theorem C05_compile_items_is_source_schemes_closed :
  forall d mapenv c e, (esize e <= d)%nat -> compilable e = true ->
  gen_items_program GenSchemes.schemes d mapenv c e = Some (compile_items_program mapenv c e).
Proof. exact gen_items_program_is_compile_items_program. Qed.
Print Assumptions C05_compile_items_is_source_schemes_closed.

(* the bytes, constant pool and Locations of compiler.Compile are the assembler applied to what the
   regenerated schemes produce *)
Theorem C05_compile_bytes_from_source_schemes :
  forall mapenv c e, compilable e = true ->
  compile_bytes mapenv c e =
  match gen_items_program GenSchemes.schemes (esize e) mapenv c e with
  | Some its => assemble_items its
  | None => None
  end.
Proof. exact compile_bytes_from_schemes. Qed.
Print Assumptions C05_compile_bytes_from_source_schemes.

Example C05_schemes_nonvacuous :
  compilable c05_ex = true /\
  gen_items_program GenSchemes.schemes (esize c05_ex) false CastInt64 c05_ex = Some (compile_items_program false CastInt64 c05_ex) /\
  (exists p, compile_bytes false CastInt64 c05_ex = Some p /\ p_consts p = c05_ex_pool).
Proof. split; [reflexivity|]. split; [vm_compute; reflexivity|]. eexists. split; vm_compute; reflexivity. Qed.

(* ---- lines to add to Props/C05.v (GenVMSteps: how vm/vm.go reads the bytecode) ---- *)
Require X.BC.VMSteps X.gen.GenVMSteps X.Bridge.BrVMSteps.

(* `switch op`: every opcode of vm/opcodes.go has exactly one case in the current vm/vm.go, there is no
   case for anything else *)
Theorem C05_dispatch_covers_opcodes :
  forallb (fun n => match VMSteps.lookup_case n (VMSteps.v_cases GenVMSteps.vm_src) with Some _ => true | None => false end)
          GenOpcodes.opcode_names = true
  /\ forallb (fun c => existsb (String.eqb (fst c)) GenOpcodes.opcode_names) (VMSteps.v_cases GenVMSteps.vm_src) = true
  /\ BrVMSteps.nodupb (map fst (VMSteps.v_cases GenVMSteps.vm_src)) = true.
Proof. exact BrVMSteps.dispatch_covers_opcodes. Qed.
Print Assumptions C05_dispatch_covers_opcodes.

(* what the loop reads at vm.pp from vm.bytecode / vm.constants / program.Locations of a program the
   structural verifier decodes is what the IR instruction at that offset carries (opcode name, operand
   as raw number or pool constant, location): the model's inline operands ARE the pool lookups *)
Theorem C05_source_reads_are_ir_operands :
  forall p C q i l,
    Forall (fun b => 0 <= b < 256)%Z (p_bytes p) -> decode p = DOk C -> fetch C q = Some (i, l) ->
    VMSteps.reads_at (p_consts p) (p_locs p) 0 (p_bytes p) q i l.
Proof. exact BrVMSteps.source_reads_are_ir_operands. Qed.
Print Assumptions C05_source_reads_are_ir_operands.

(* the regenerated body of vm.arg(), run on those bytes after `vm.ip++`, returns the number the operand
   view of the IR instruction describes, and advances vm.ip by 2 *)
Theorem C05_arg_body_returns_described_operand :
  forall fe cfg env view bytes p C s i l pp st sc m tr lc,
    bytes = p_bytes p ->
    Forall (fun b => 0 <= b < 256)%Z (p_bytes p) -> decode p = DOk C ->
    fetch C (pc s) = Some (i, l) -> VMSteps.view_of i <> VMSteps.VwNone -> (Z.of_nat (pc s) + 1 < max_of KInt)%Z ->
    exists k,
      VMSteps.run_method fe cfg env view bytes (BrVMSteps.method_body "arg") [] (VMSteps.mkG (pc s + 1) pp st sc m tr lc None)
      = VMSteps.GOk (VMSteps.GU16 k) (VMSteps.mkG (pc s + 1 + 2) pp st sc m tr lc None)
      /\ VMSteps.view_describes (p_consts p) k i.
Proof. exact BrVMSteps.arg_body_returns_described_operand. Qed.
Print Assumptions C05_arg_body_returns_described_operand.

Example C05_vmsteps_nonvacuous :
  match BrVMSteps.run_ex_prog with
  | Some p => forallb (fun b => (0 <=? b)%Z && (b <? 256)%Z) (p_bytes p) = true /\ decode p = DOk BrVMSteps.run_ex_code
  | None => False
  end.
Proof. exact BrVMSteps.run_ex_prog_decodes. Qed.

(* ---- the BYTE-LEVEL functions of compiler/compiler.go, regenerated (gen/GenAssemble.v; DSL + interpreter BC/AsmRules.v) ---- *)
(* emit, makeConstant, placeholder, patchJump, calcBackwardJump and encode are read statement by statement (limit tests,
   panics, the index map, the two byte stores, binary.LittleEndian.PutUint16) together with the skeleton of Compile (deferred
   recover, fresh maps, Program{Bytecode, Constants, Locations}).  Bridge/BrAssemble.v proves each regenerated body equal,
   for all states and arguments, to the Go-shaped model function of BC/Assemble.v (go_emit ...), and BC/AsmDriveProofs.v
   proves that driving an item list through those functions the way the Go compiler calls them (placeholder at a forward
   jump, patchJump when the target position is reached, calcBackwardJump of the target for a backward one) is asm. *)
Require Import X.BC.AsmRules X.BC.AsmRulesProofs X.BC.AsmDriveProofs X.gen.GenAssemble X.Bridge.BrAssemble.

Theorem C05_genassemble_recognised : AsmRules.recognised GenAssemble.asm_src = true.
Proof. exact genassemble_recognised. Qed.
Print Assumptions C05_genassemble_recognised.

(* one statement per Go function: interpretation of the regenerated body = the model function, all states, all arguments *)
Theorem C05_source_funcs_are_model : funcs_eq (AsmRules.src_funcs GenAssemble.asm_src) go_funcs.
Proof. exact source_funcs_are_model. Qed.
Print Assumptions C05_source_funcs_are_model.

(* the hand-written Go-shaped functions, driven over any item list whose forward jumps are all patched, are the model
   assembler: same bytes, same pool, same Locations, failure exactly when asm fails (induction over the item list) *)
Theorem C05_model_functions_are_asm : forall its, fwd_closed its 0 = true ->
  match drive go_funcs its cs0 [] with
  | GOk (s, pend) => pend = [] /\ asm its [] 0%Z = Some (cs_bytecode s, cs_constants s, cs_locations s)
  | GPanic => asm its [] 0%Z = None
  | GStuck => False
  end.
Proof. exact drive_go_is_asm. Qed.
Print Assumptions C05_model_functions_are_asm.

(* assembling an item list with the REGENERATED functions inside the regenerated skeleton of Compile gives the bytes / pool /
   Locations of the model assembler, and the recovered error exactly when the model assembler fails.  Side condition
   (decidable): every forward jump lands where an item starts or at the end - true of all compiled code (C05_compile_wf) *)
Theorem C05_model_assembler_is_source : forall its, fwd_closed its 0 = true ->
  AsmRules.src_assemble GenAssemble.asm_src its = cres_of_option (assemble_items its).
Proof. exact model_assembler_is_source. Qed.
Print Assumptions C05_model_assembler_is_source.

(* for every compilable expression the side condition holds (C05_compile_wf), so: compiler.Compile at byte level, as the
   regenerated byte-level functions compute it on the item list of the model compiler, is compile_bytes - together with
   C05_compile_bytes_from_source_schemes both halves of the compiler (which calls are made, what each call does) are the source *)
Theorem C05_compiled_items_fwd_closed : forall mapenv c e, compilable e = true ->
  fwd_closed (compile_items_program mapenv c e) 0 = true.
Proof. exact X.BC.AsmClosedProofs.compiled_items_fwd_closed. Qed.
Print Assumptions C05_compiled_items_fwd_closed.

Theorem C05_compile_bytes_is_source_assembler : forall mapenv c e, compilable e = true ->
  AsmRules.src_assemble GenAssemble.asm_src (compile_items_program mapenv c e) = cres_of_option (compile_bytes mapenv c e).
Proof. exact compile_bytes_is_source_assembler. Qed.
Print Assumptions C05_compile_bytes_is_source_assembler.

(* the reflect primitives of the DSL are the classification BC/Assemble.v uses (slice_or_map, float_zero, nil interface) *)
Theorem C05_reflect_primitives_are_models : forall c,
  match AsmRules.const_kind c with
  | None => kind_panics c = true
  | Some k =>
      kind_panics c = false /\
      match k with
      | AsmRules.CKSlice | AsmRules.CKMap => const_slice_or_map c = true
      | AsmRules.CKFloat32 | AsmRules.CKFloat64 =>
          const_slice_or_map c = false /\ AsmRules.const_float_is_zero c = Some (const_float_zero c)
      | AsmRules.CKOther => const_slice_or_map c = false /\ const_float_zero c = false
      end
  end.
Proof. exact const_kind_spec. Qed.
Print Assumptions C05_reflect_primitives_are_models.

Example C05_model_assembler_is_source_nonvacuous :
  fwd_closed (compile_items_program false CastInt64 c05_ex) 0 = true /\
  exists p, AsmRules.src_assemble GenAssemble.asm_src (compile_items_program false CastInt64 c05_ex) = CProgram p /\
            compile_bytes false CastInt64 c05_ex = Some p /\ p_consts p = c05_ex_pool.
Proof. exact model_assembler_is_source_nonvacuous. Qed.

(* a jump that is never patched keeps its placeholder: the side condition is needed (and the regenerated code, not the
   model, is what leaves 255 255 there) *)
Example C05_unpatched_jump_keeps_placeholder :
  fwd_closed [AIns (IJump 5) noloc] 0 = false /\
  AsmRules.src_assemble GenAssemble.asm_src [AIns (IJump 5) noloc] = CProgram (mkProg [14; 255; 255]%Z [] [(0%Z, noloc)]) /\
  assemble_items [AIns (IJump 5) noloc] = Some (mkProg [14; 5; 0]%Z [] [(0%Z, noloc)]).
Proof. vm_compute. repeat split; reflexivity. Qed.

(* ---- over the REGENERATED terms only (BC/SourceBytes.v, continuation of the C01 capstone BC/SourceCorrect.v) ---- *)
Require X.BC.SourceCorrect X.BC.SourceBytes X.BC.SchemesItems X.gen.GenSchemes X.Sem.NoMachine.

(* the Program that the regenerated emit / makeConstant / placeholder / patchJump / calcBackwardJump / encode assemble, inside
   the regenerated skeleton of Compile, from the items of the regenerated code-generation schemes: passes the structural
   verifier, consists of bytes with a pool within the uint16 limit, decodes to those items (up to the key identification of
   constants; exactly under items_keys_exact), and the jumps of the items land on instruction boundaries *)
Theorem C05_source_bytes_wf :
  forall mapenv c e dc, compilable e = true -> (esize e <= dc)%nat ->
    exists its, X.BC.SchemesItems.gen_items_program X.gen.GenSchemes.schemes dc mapenv c e = Some its /\
    forall p, AsmRules.src_assemble GenAssemble.asm_src its = CProgram p ->
      wf_progb p = true /\
      Forall is_byte (p_bytes p) /\ (Z.of_nat (List.length (p_consts p)) <= max_uint16)%Z /\
      (exists C', decode p = DOk C' /\ code_sim (items_code its) C') /\
      (items_keys_exact its = true -> decode p = DOk (items_code its)) /\
      jumps_ok (items_code its) = true.
Proof. exact X.BC.SourceBytes.source_bytes_wf. Qed.
Print Assumptions C05_source_bytes_wf.

(* stack balance at source level: the decoded Program, run by the dispatch loop regenerated from vm/vm.go on a machine in ANY
   state, returns the result of the language definition and - when that is a value - leaves the machine at the end of the
   code with an EMPTY stack and NO open scope (run_guard: the executable side condition of the VM bridge) *)
Theorem C05_source_bytes_run_balanced :
  forall fe cfg env c e dc before,
    X.Sem.NoMachine.fn_no_machine fe -> compilable e = true -> (esize e <= dc)%nat ->
    exists its, X.BC.SchemesItems.gen_items_program X.gen.GenSchemes.schemes dc (c_mapenv cfg) c e = Some its /\
    forall p, AsmRules.src_assemble GenAssemble.asm_src its = CProgram p -> items_keys_exact its = true ->
    exists C, decode p = DOk C /\
    exists d0, forall d, (d0 <= d)%nat ->
      VMSteps.run_guard fe cfg env C d init_state = true ->
      exists r last, X.BC.SourceCorrect.interp_run_state fe cfg env C GenVMSteps.vm_src d before = Some (r, last) /\
        VMSteps.erase_stop_mem r = VMSteps.erase_stop_mem (run_ref fe cfg env c e) /\
        (forall v s, r = Done v s -> last = mkSt (csize C) [] [] s).
Proof. exact X.BC.SourceBytes.source_bytes_run_balanced. Qed.
Print Assumptions C05_source_bytes_run_balanced.

(* filter(map([1, 2, 3], {# + 1}), {# > 2 ? true : false}) through the whole source-level chain, from a dirty machine *)
Example C05_source_bytes_nonvacuous :
  match X.BC.SourceCorrect.cap_items with
  | Some its =>
      match AsmRules.src_assemble GenAssemble.asm_src its with
      | CProgram p =>
          wf_progb p = true /\ decode p = DOk (items_code its) /\ jumps_ok (items_code its) = true /\
          forallb (fun b => (0 <=? b)%Z && (b <? 256)%Z) (p_bytes p) = true /\
          X.BC.SourceCorrect.interp_run_state BrVMSteps.w_fe BrVMSteps.w_cfg VNil (items_code its) GenVMSteps.vm_src 9
            X.BC.SourceCorrect.cap_dirty
          = Some (Done (VArr TIface [vint 3; vint 4]) (mkRS 8 []), mkSt (csize (items_code its)) [] [] (mkRS 8 []))
      | _ => False
      end
  | None => False
  end.
Proof. exact X.BC.SourceBytes.source_bytes_wf_nonvacuous. Qed.

(* Props/C05.v — Emitted bytecode is well-formed and stack-balanced. *)
From Coq Require Import ZArith Bool List String Arith.
Require Import X.Base.Num X.Base.Value X.Syn.Ast X.Sem.Prim X.Sem.Sem X.BC.Instr X.BC.Compiler X.BC.VM X.BC.Decode
               X.BC.CompileProofs X.BC.Verify.
Import ListNotations.
Local Open Scope nat_scope.

(* The structural verifier is sound: in code that passes the jump check the program counter
   stays on instruction boundaries whatever the run does, so the machine never decodes from the
   middle of an instruction nor beyond the end of the program. *)
Theorem C05_verifier_sound :
  forall fe cfg env C, jumps_ok C = true ->
  forall s s', boundary C (pc s) = true -> step fe cfg env C s = Next s' -> boundary C (pc s') = true.
Proof. exact step_keeps_boundary. Qed.
Print Assumptions C05_verifier_sound.

Theorem C05_on_boundary_decodes :
  forall C s, boundary C (pc s) = true -> pc s < csize C -> exists x, fetch C (pc s) = Some x.
Proof. exact verified_never_misdecodes. Qed.
Print Assumptions C05_on_boundary_decodes.

(* Everything the compiler emits passes the jump check: every jump of every compiled program lands
   on an instruction boundary inside the program or exactly at its end (all expressions, all nestings). *)
Theorem C05_compile_wf :
  forall mapenv c e, compilable e = true -> jumps_ok (compile_program mapenv c e) = true.
Proof. exact compile_program_wf. Qed.
Print Assumptions C05_compile_wf.

(* Stack balance: a successful evaluation ends with exactly the result on the stack and no scope
   left open (instance st = [], scs = [] of the simulation theorem). *)
Theorem C05_balanced :
  forall fe cfg env e, compilable e = true ->
  let C := compile (c_mapenv cfg) e in
  forall r v r', eval fe cfg env [] e r = Done v r' ->
  star fe cfg env C (mkSt 0 [] [] r) (mkSt (csize C) [v] [] r').
Proof.
  intros fe cfg env e Hc C r v r' He.
  pose proof (compile_correct fe cfg env C e Hc [] [] cm_nil 0) as H.
  assert (Hat : code_at C 0 (compile (c_mapenv cfg) e)) by (exists [], []; split; [rewrite app_nil_r; reflexivity|reflexivity]).
  specialize (H Hat [] r). rewrite He in H. exact H.
Qed.
Print Assumptions C05_balanced.

(* No run of a compiled program fails for a machine reason of its own: whenever it stops, it stops
   exactly where and why the reference semantics stops (which has no notion of a stack). *)
Theorem C05_failures_are_semantic :
  forall fe cfg env e, compilable e = true ->
  let C := compile (c_mapenv cfg) e in
  forall r er l r', eval fe cfg env [] e r = Stop er l r' ->
  exists s', star fe cfg env C (mkSt 0 [] [] r) s' /\ step fe cfg env C s' = Crash er l r'.
Proof.
  intros fe cfg env e Hc C r er l r' He.
  pose proof (compile_correct fe cfg env C e Hc [] [] cm_nil 0) as H.
  assert (Hat : code_at C 0 (compile (c_mapenv cfg) e)) by (exists [], []; split; [rewrite app_nil_r; reflexivity|reflexivity]).
  specialize (H Hat [] r). rewrite He in H. exact H.
Qed.
Print Assumptions C05_failures_are_semantic.

(* the verifier rejects what it should (non-vacuity): a jump into the middle of an instruction *)
Example C05_verifier_rejects :
  wf_progb (mkProg [14; 1; 0; 0; 0; 0]%Z [CVal VNil] []) = false /\
  wf_progb (mkProg [14; 3; 0; 0; 0; 0]%Z [CVal VNil] []) = true.
Proof. vm_compute. split; reflexivity. Qed.

(* No run of a compiled program ever fails for a machine reason (popping an empty stack, a
   missing scope, decoding outside an instruction): its outcome is the reference outcome, and the
   reference semantics never produces the machine class. *)
Require Import X.Sem.NoMachine X.BC.RunProofs.

Theorem C05_no_machine_failure :
  forall fe cfg env c e, fn_no_machine fe -> compilable e = true ->
  exists d0, forall d, (d0 <= d)%nat ->
    exists r, run_code fe cfg env (compile_program (c_mapenv cfg) c e) d = Some r /\ not_machine r.
Proof.
  intros fe cfg env c e Hf Hc.
  assert (Hl : stop_is_locatable (eval fe cfg env [] e rs0)).
  { pose proof (eval_no_machine fe cfg env Hf e [] rs0) as H. unfold not_machine, stop_is_locatable in *.
    destruct (eval fe cfg env [] e rs0) as [v r|er l r]; auto. destruct er; auto; try contradiction. }
  destruct (run_compiled_program fe cfg env e c Hc Hl) as [d0 H]. exists d0. intros d Hd.
  exists (run_ref fe cfg env c e). split; [apply H; exact Hd|apply run_ref_no_machine; exact Hf].
Qed.
Print Assumptions C05_no_machine_failure.

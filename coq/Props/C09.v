(* Props/C09.v — Compile and Run are pure and deterministic.
   Only statements, each closed by `exact`, with Print Assumptions (+ Examples for non-vacuity).

   PARTIAL.  Determinism of the Go runtime itself is outside any Gallina model; map iteration
   randomisation is covered for the loops of the regenerated inventory (Bridge/BrC0809.v:
   `compile_map_ranges = expected_map_ranges`), each of which is an explicit permutation argument
   of the model.  The implementation-level search (harness/c09.go) compiles every generated
   (source, options) repeatedly in one process and in fresh processes and snapshots the
   environment, the sample environment and the program around every run. *)
From Coq Require Import ZArith Bool List String Arith Permutation.
Require Import X.Base.Num X.Base.Value X.Syn.Ast X.Sem.Prim X.Sem.Sem X.BC.Instr X.BC.Compiler X.BC.VM.
Require Import X.Ty.Types X.Ty.TypesTable X.Ty.TyProofs.
Require Import X.Conc.Frame X.Conc.FrameProofs X.gen.GenFrame X.Bridge.BrC0809.
Import ListNotations.
Local Open Scope nat_scope.

(* COMPILE, same program.  For every permutation of every inventoried map iteration
   (FieldsFromStruct, MapKeys, range c.Operators, range c.ConstExprFns): the verdict is the same
   and when a program comes out it is the same program — instructions with their inline
   constants in AST order and locations.  `front` is checker + patcher + visitors + optimizer
   as a function that uses the configuration's maps by key lookup only (bridge:
   front_iterates_no_map); the types table is independent of the order by C16's theorem. *)
Theorem C09_compile_perm_indep : forall te front, front_lookup_only front -> wf_tenv te = true ->
  forall P1 P2 o e, valid_perms P1 -> valid_perms P2 -> env_keys_distinct o ->
  cres_same (compile_with te front P1 o e) (compile_with te front P2 o e).
Proof. exact compile_perm_indep. Qed.
Print Assumptions C09_compile_perm_indep.

Theorem C09_compile_perm_indep_prog : forall te front, front_lookup_only front -> wf_tenv te = true ->
  forall P1 P2 o e c, valid_perms P1 -> valid_perms P2 -> env_keys_distinct o ->
  compile_with te front P1 o e = CProg c -> compile_with te front P2 o e = CProg c.
Proof. exact compile_perm_indep_prog. Qed.
Print Assumptions C09_compile_perm_indep_prog.

(* Including the configuration error that is reported — outside the recorded defect
   C09-check-error-order (more than one complaint in one loop of Config.Check). *)
Theorem C09_compile_perm_indep_full : forall te front, front_lookup_only front -> wf_tenv te = true ->
  forall P1 P2 o e, valid_perms P1 -> valid_perms P2 -> env_keys_distinct o ->
  K_check_order te o = false ->
  compile_with te front P1 o e = compile_with te front P2 o e.
Proof. exact compile_perm_indep_full. Qed.
Print Assumptions C09_compile_perm_indep_full.

(* The full statement (no carve-out) stays visible, and is refuted by a computed witness:
   Operator("+", "nope"), Operator("-", "nada") — Check returns whichever it visits first. *)
Definition C09_compile_perm_indep_full_statement : Prop := compile_perm_indep_full_statement.

Theorem C09_check_error_order_refuted :
  K_check_order [] two_bad_operators = true /\
  compile_with [] ident_front id_perms two_bad_operators (ENil ann0)
  <> compile_with [] ident_front rev_perms two_bad_operators (ENil ann0).
Proof. exact check_error_order_refuted. Qed.
Print Assumptions C09_check_error_order_refuted.

Theorem C09_compile_perm_indep_full_refuted : ~ C09_compile_perm_indep_full_statement.
Proof. exact compile_perm_indep_full_refuted. Qed.
Print Assumptions C09_compile_perm_indep_full_refuted.

(* Whether Config.Check complains never depends on the order. *)
Theorem C09_check_verdict : forall P1 P2 t1 t2 o, valid_perms P1 -> valid_perms P2 ->
  (forall n, tget n t1 = tget n t2) ->
  (config_check P1 t1 o = None <-> config_check P2 t2 o = None).
Proof. exact config_check_verdict. Qed.
Print Assumptions C09_check_verdict.

(* makeConstant: Constants and the operands written into Bytecode do not depend on the internal
   order of the compiler's `index` map (it is looked up, never iterated: bridge). *)
Theorem C09_constant_pool_order : forall (K : Type) (keqb : K -> K -> bool),
  (forall a b, keqb a b = true <-> a = b) ->
  forall hashable pi1 pi2, (forall l, Permutation (pi1 l) l) -> (forall l, Permutation (pi2 l) l) ->
  forall ks, pool_of K keqb hashable pi1 ks = pool_of K keqb hashable pi2 ks.
Proof. exact pool_perm_indep. Qed.
Print Assumptions C09_constant_pool_order.

(* RUN, frame.  A run (any number of runs, in any interleaving) leaves the programs, the
   environment values and the sources unchanged: the step returns VM-private state only.  Every
   array/map the VM builds is fresh (OpArray / OpMap / makeRange allocate; the bridge finds every
   element store rooted in a `make` of the same call), `slice` aliases but nothing stores
   through it: no store rooted in a stack or environment value, no reflect mutator. *)
Theorem C09_run_frame :
  (forall sched w, fst (run_world sched w) = fst w) /\ bridge_run_frame /\ bridge_compile_frame.
Proof. exact (conj world_frame (conj bridge_run_frame_holds bridge_compile_frame_holds)). Qed.
Print Assumptions C09_run_frame.

(* RUN, determinism.  The model's run is a function of (oracle answers, budget, environment,
   code, fuel): two oracle records that answer alike — regexp matching, math.Pow, the signatures,
   method tables and results of the environment's functions — give the same result.  The
   dependence on the oracles is explicit: a function of the environment that answers differently
   on the second call is a different oracle. *)
Theorem C09_run_deterministic : forall fe1 fe2, fenv_agree fe1 fe2 ->
  forall cfg env C d, run_code fe1 cfg env C d = run_code fe2 cfg env C d.
Proof. exact run_deterministic. Qed.
Print Assumptions C09_run_deterministic.

(* Running again on the same environment returns the same result (second run = first run). *)
Theorem C09_rerun : forall sh d p e r,
  solo_job sh d (JRun p e) = Some r ->
  solo_results sh d [JRun p e; JRun p e] = Some [r; r].
Proof. exact rerun_same. Qed.
Print Assumptions C09_rerun.

(* ------------------------------------------------------------------------------------------
   non-vacuity *)
Module Wit.
Open Scope string_scope.
Definition fnT : ty := TFunc [TNum KInt; TNum KInt] false [TNum KInt].
Definition te0 : tenv :=
  [("Base", mkStruct [mkField "ID" (TNum KInt) false true; mkField "Name" TString false true] [] []);
   ("Env", mkStruct [mkField "Base" (TStruct "Base") true true; mkField "Add" fnT false true; mkField "X" (TNum KInt) false true] [] [])].
Definition opts0 : copts := mkOpts (Some (EStruct (TStruct "Env"))) [("+", ["Add"])] [("Add", true)] None CastNone true.
Definition opts_map : copts :=
  mkOpts (Some (EMap (TMap TString TIface) [("a", TNum KInt); ("b", TString); ("Add", fnT)])) [("+", ["Add"]); ("-", ["Add"])] [] None CastInt64 false.
Definition one_bad : copts := mkOpts (Some (EStruct (TStruct "Env"))) [("+", ["Add"]); ("-", ["nada"])] [] None CastNone true.
End Wit.

Example C09_witness_hypotheses :
  wf_tenv Wit.te0 = true /\ front_lookup_only ident_front /\ valid_perms id_perms /\ valid_perms rev_perms /\
  env_keys_distinct Wit.opts0 /\ env_keys_distinct Wit.opts_map /\
  K_check_order Wit.te0 Wit.opts0 = false /\ K_check_order Wit.te0 Wit.opts_map = false /\ K_check_order Wit.te0 Wit.one_bad = false.
Proof.
  repeat split; try reflexivity; try exact ident_front_lookup_only; try apply id_perms_valid; try apply rev_perms_valid.
  cbn. repeat constructor; cbn; intuition discriminate.
Qed.

Example C09_witness_programs :
  compile_with Wit.te0 ident_front id_perms Wit.opts0 (EIdent ann0 "ID" false)
    = CProg [(IFetch "ID", noloc)] /\
  compile_with Wit.te0 ident_front rev_perms Wit.opts0 (EIdent ann0 "ID" false)
    = CProg [(IFetch "ID", noloc)] /\
  compile_with Wit.te0 ident_front rev_perms Wit.opts_map (EIdent ann0 "a" false)
    = CProg [(IFetchMap "a", noloc); (ICast 0, noloc)] /\
  compile_with Wit.te0 ident_front rev_perms Wit.opts0 (EIdent ann0 "Missing" false) = CRejected /\
  compile_with Wit.te0 ident_front id_perms Wit.one_bad (ENil ann0) = CConfigErr (ENoFunc "nada" "-") /\
  compile_with Wit.te0 ident_front rev_perms Wit.one_bad (ENil ann0) = CConfigErr (ENoFunc "nada" "-").
Proof. vm_compute. repeat split; reflexivity. Qed.

(* Props/C10.v — AST traversal reaches every node exactly once.
   Only statements, each closed by `exact`, with Print Assumptions; Examples for non-vacuity.
   `gen_walked` is the table REGENERATED from ast/visitor.go on this run (coq/gen/GenWalk.v); the
   theorems below are about the walker model instantiated with THAT table.  Reference notions
   (`children`, `spec_events`, `preorder`, `postorder`, `map_tree`, `ref_traverse`, `subterm_at`)
   are written from Syn/Ast.v `children` = every Node-typed slot in source order. *)
From Coq Require Import ZArith Bool List String Permutation.
Require Import X.Base.Num X.Base.Value X.Syn.Ast X.Walk.Walk X.Walk.WalkProofs X.gen.GenWalk X.Bridge.BrC10.
Import ListNotations.
Local Open Scope nat_scope.
Local Open Scope list_scope.

(* ---------------- the tie to the code (finite, recomputed from the regenerated table) *)
Theorem C10_translator_recognised : walk_unrecognised = [].
Proof. exact translator_recognised_walk. Qed.
Print Assumptions C10_translator_recognised.

Theorem C10_table_is_reference : forall k, gen_walked k = ref_slots k.
Proof. exact gen_walked_is_reference. Qed.
Print Assumptions C10_table_is_reference.

Theorem C10_every_declared_field_walked : forall k, map decl_of (gen_walked k) = gen_declared k.
Proof. exact gen_walked_covers_declared. Qed.
Print Assumptions C10_every_declared_field_walked.

Theorem C10_walked_slots_are_children : forall e,
  flat_map (fun sl => slot_get e (fst sl)) (gen_walked (nkind_of e)) = children e.
Proof. exact gen_slots_are_children. Qed.
Print Assumptions C10_walked_slots_are_children.

Theorem C10_patch_copies_type_and_location :
  gen_patch_copies_type && gen_patch_copies_location && gen_patch_assigns = true.
Proof. exact gen_patch_is_model. Qed.
Print Assumptions C10_patch_copies_type_and_location.

(* ---------------- the law of one walk step: ALL visitors (replacing at Enter, at Exit, both; any
   state), ALL trees.  Enter the node; then every child of the entered node, in source order;
   then Exit on the node carrying the walked children; the result is what Exit returns. *)
Theorem C10_walk_step : forall St n (v : visitor St) s e,
  walk (S n) gen_walked v s e =
  match walk_list (walk n gen_walked v) (fst (v_enter v s e)) (children (snd (v_enter v s e))) with
  | LDone s2 cs =>
      WDone (fst (v_exit v s2 (set_children (snd (v_enter v s e)) cs)))
            (snd (v_exit v s2 (set_children (snd (v_enter v s e)) cs)))
  | LPanic => WPanic
  | LOutOfFuel => WOutOfFuel
  end.
Proof. exact (fun St n v s e => walk_step n gen_walked v s e gen_table_ok). Qed.
Print Assumptions C10_walk_step.

(* ---------------- events: the recording visitor sees exactly the specified stream (enter parent,
   children left to right with their sub-trees, exit parent), the tree is returned unchanged, and
   fuel esize e is always enough *)
Theorem C10_events : forall e n l, esize e <= n ->
  walk n gen_walked logger l e = WDone (l ++ spec_events e) e.
Proof. exact (walk_logger_events gen_walked gen_table_ok). Qed.
Print Assumptions C10_events.

Theorem C10_spec_events_shape : forall e,
  spec_events e = EvEnter e :: List.concat (map spec_events (children e)) ++ [EvExit e].
Proof. exact spec_events_eq. Qed.
Print Assumptions C10_spec_events_shape.

(* every node is entered once (pre-order = all esize e nodes) and exited once (post-order, a
   permutation of the pre-order) *)
Theorem C10_enters_are_all_nodes : forall e,
  enters (spec_events e) = preorder e /\ exits (spec_events e) = postorder e /\
  List.length (preorder e) = esize e /\ Permutation (preorder e) (postorder e).
Proof.
  exact (fun e => conj (spec_enters_preorder e) (conj (spec_exits_postorder e)
                  (conj (preorder_length e) (pre_post_permutation e)))).
Qed.
Print Assumptions C10_enters_are_all_nodes.

Theorem C10_exactly_once : forall e,
  NoDup (map loc_of (preorder e)) ->
  forall x, In x (preorder e) ->
    count_occ loc_eq_dec (map loc_of (enters (spec_events e))) (loc_of x) = 1 /\
    count_occ loc_eq_dec (map loc_of (exits (spec_events e))) (loc_of x) = 1.
Proof. exact spec_events_exactly_once. Qed.
Print Assumptions C10_exactly_once.

(* ---------------- replacing visitors *)
(* no replacement at Enter (any replacement at Exit, any state): Enter is called on exactly the
   nodes of the ORIGINAL tree, in pre-order *)
Theorem C10_enters_original : forall St (v : visitor St),
  (forall s e, snd (v_enter v s e) = e) ->
  forall n e s l s' l' e', walk n gen_walked (instrument v) (s, l) e = WDone (s', l') e' ->
    enters l' = enters l ++ preorder e.
Proof. exact (fun St v => walk_enters_original gen_walked v gen_table_ok). Qed.
Print Assumptions C10_enters_original.

(* no replacement at Exit (any replacement at Enter, any state): Exit is called on exactly the
   nodes of the RESULTING tree, in post-order *)
Theorem C10_exits_result : forall St (v : visitor St),
  (forall s e, snd (v_exit v s e) = e) ->
  forall n e s l s' l' e', walk n gen_walked (instrument v) (s, l) e = WDone (s', l') e' ->
    exits l' = exits l ++ postorder e'.
Proof. exact (fun St v => walk_exits_result gen_walked v gen_table_ok). Qed.
Print Assumptions C10_exits_result.

(* no replacement at Enter: the walker IS the reference traversal (structural recursion over the
   tree through `children`), for every state-passing visitor and every tree *)
Theorem C10_replace_effective : forall St (x : xvisitor St) e n s, esize e <= n ->
  walk n gen_walked (to_visitor x) s e = WDone (fst (ref_traverse x e s)) (snd (ref_traverse x e s)).
Proof. exact (fun St x => walk_is_ref_traverse gen_walked x gen_table_ok). Qed.
Print Assumptions C10_replace_effective.

Theorem C10_ref_traverse_shape : forall St (x : xvisitor St) e s,
  ref_traverse x e s =
  x_exit x (fst (thread (map (ref_traverse x) (children e)) (x_enter x s e)))
           (set_children e (snd (thread (map (ref_traverse x) (children e)) (x_enter x s e)))).
Proof. exact (fun St x => ref_traverse_eq x). Qed.
Print Assumptions C10_ref_traverse_shape.

(* ... whose events have the identities (phase, kind, location) of spec_events of the original
   tree whatever is replaced at Exit *)
Theorem C10_event_ids_replacing : forall St (x : xvisitor St) e s l,
  map ev_id (snd (fst (ref_traverse (xinstrument x) e (s, l)))) = map ev_id l ++ map ev_id (spec_events e).
Proof. exact (fun St x => ref_traverse_event_ids x). Qed.
Print Assumptions C10_event_ids_replacing.

(* a replacement function applied at Exit: the result is the function applied at EVERY position, bottom-up *)
Theorem C10_replace_everywhere : forall f e n s, esize e <= n ->
  walk n gen_walked (to_visitor (pure_exit f)) s e = WDone s (map_tree f e).
Proof. exact (fun f => walk_pure_exit_map_tree gen_walked f gen_table_ok). Qed.
Print Assumptions C10_replace_everywhere.

Theorem C10_map_tree_shape : forall f e,
  map_tree f e = f (set_children e (map (map_tree f) (children e))).
Proof. exact map_tree_eq. Qed.
Print Assumptions C10_map_tree_shape.

Theorem C10_set_children_laws : forall e,
  set_children e (children e) = e /\
  forall cs, List.length cs = List.length (children e) ->
    children (set_children e cs) = cs /\ nkind_of (set_children e cs) = nkind_of e /\
    ann_of (set_children e cs) = ann_of e.
Proof.
  exact (fun e => conj (set_children_id e) (fun cs H =>
           conj (children_set_children e cs H) (conj (nkind_set_children e cs) (ann_set_children e cs)))).
Qed.
Print Assumptions C10_set_children_laws.

(* a marked sub-expression at ANY position (path through any child slot of any node kind: sliced
   or indexed operand, closure body, argument, map key or value, branch, to any depth) is replaced *)
Theorem C10_replace_at_any_position : forall m t,
  (forall x, m x = true -> children x = []) ->
  forall p e x, subterm_at p e = Some x -> m x = true ->
    subterm_at p (map_tree (replace_marked m t) e) = Some (patch x t).
Proof. exact replace_at_any_position. Qed.
Print Assumptions C10_replace_at_any_position.

Theorem C10_no_marked_node_remains : forall m t,
  (forall a, exists_node m (set_ann t a) = false) ->
  forall e, exists_node m (map_tree (replace_marked m t) e) = false.
Proof. exact replace_marked_eliminates. Qed.
Print Assumptions C10_no_marked_node_remains.

(* ---------------- necessity of the bridge: a table that omits ANY declared slot of ANY kind
   leaves a node un-entered on some tree; the pinned tree had exactly this defect (fixed by
   commit 911c67a); an un-guarded optional child is a panic *)
Theorem C10_every_slot_necessary : forall k sl, In sl (ref_slots k) ->
  exists e c, nkind_of e = k /\ In c (children e) /\
    expr_loc_in c (entered_by (drop_slot k (fst sl) ref_slots) e) = false /\
    expr_loc_in c (entered_by ref_slots e) = true.
Proof. exact every_slot_necessary. Qed.
Print Assumptions C10_every_slot_necessary.

Theorem C10_skipped_slot_refuted :
  exists e c, In c (preorder e) /\
    match walk (esize e) table_before_fix logger [] e with
    | WDone l _ => List.length (exits l) = 3 /\ esize e = 4 /\ expr_loc_in c (enters l) = false
    | _ => False
    end.
Proof. exact skipped_slot_refuted. Qed.
Print Assumptions C10_skipped_slot_refuted.

Theorem C10_unguarded_optional_panics :
  walk 5 table_unguarded logger []
       (ESlice (at_loc (1%Z, 1%Z)) (EIdent (at_loc (1%Z, 0%Z)) "A" false) None None) = WPanic.
Proof. exact unguarded_optional_panics. Qed.
Print Assumptions C10_unguarded_optional_panics.

(* ---------------- non-vacuity *)
Definition mark_paths : list (list nat) := [[0; 0]; [1; 1]; [2; 1; 0]; [3; 1]; [4; 0; 0]; [4; 0; 1]; [5; 1]; [5; 2]].
Local Open Scope Z_scope.
Definition idA := EIdent (at_loc (1, 0)) "A" false.
Definition mark := EIdent (at_loc (1, 9)) "M" false.
Definition is_mark (e : expr) : bool := match e with EIdent _ "M" _ => true | _ => false end.
Definition int_at (c v : Z) := EInt (at_loc (1, c)) v.

(* A[1:2] with the generated table: four nodes, A entered second, all exited *)
Example C10_events_slice :
  walk 4 gen_walked logger [] slice_witness
  = WDone [EvEnter slice_witness; EvEnter idA; EvExit idA; EvEnter (int_at 2 1); EvExit (int_at 2 1);
           EvEnter (int_at 4 2); EvExit (int_at 4 2); EvExit slice_witness] slice_witness.
Proof. vm_compute. reflexivity. Qed.

Example C10_exactly_once_nonvacuous :
  NoDup (map loc_of (preorder slice_witness)) /\ In idA (preorder slice_witness).
Proof.
  split.
  - vm_compute. repeat constructor; cbn; intuition discriminate.
  - vm_compute. right. left. reflexivity.
Qed.

(* the marked identifier is a leaf, occurs as sliced operand, index, closure body, argument, map
   key, map value and in both branches, and is replaced at each of these positions *)
Definition everywhere : expr :=
  EArray (at_loc (1, 1))
    [ESlice (at_loc (1, 2)) mark (Some (int_at 3 0)) None;
     EIndex (at_loc (1, 4)) idA mark;
     EBuiltin (at_loc (1, 5)) BiMap [idA; EClosure (at_loc (1, 6)) mark];
     EFunction (at_loc (1, 7)) "f" [int_at 8 1; mark] false;
     EMap (at_loc (1, 10)) [EPair (at_loc (1, 11)) mark mark];
     ECond (at_loc (1, 12)) (EBool (at_loc (1, 13)) true) mark mark].

Example C10_replace_positions_nonvacuous :
  (forall x, is_mark x = true -> children x = []) /\
  map (fun p => subterm_at p everywhere) mark_paths
  = repeat (Some mark) 8%nat /\
  map (fun p => subterm_at p (map_tree (replace_marked is_mark (int_at 0 1000)) everywhere)) mark_paths
  = repeat (Some (int_at 9 1000)) 8%nat /\
  exists_node is_mark everywhere = true /\
  exists_node is_mark (map_tree (replace_marked is_mark (int_at 0 1000)) everywhere) = false.
Proof.
  split.
  - intros x H. destruct x; try discriminate. reflexivity.
  - vm_compute. repeat split.
Qed.

(* a visitor that replaces at Enter: the children of the NEW node are walked and exited *)
Example C10_enter_replacement_nonvacuous :
  let v := mkVisitor (fun (s : unit) e => (s, if is_mark e then patch e (EUnary ann0 UMinus (int_at 5 7)) else e))
                     (fun s e => (s, e)) in
  match walk 5 gen_walked (instrument v) (tt, []) (EArray (at_loc (1, 1)) [mark]) with
  | WDone (_, l) e' => exits l = postorder e' /\ List.length (postorder e') = 3%nat
  | _ => False
  end.
Proof. vm_compute. repeat split. Qed.

(* a visitor that replaces at Exit (every marked identifier by -7): Enter still sees exactly the
   nodes of the original tree, and the walker returns the reference replacement *)
Example C10_exit_replacement_nonvacuous :
  let f := replace_marked is_mark (EUnary ann0 UMinus (int_at 5 7)) in
  match walk (esize everywhere) gen_walked (instrument (to_visitor (pure_exit f))) (tt, []) everywhere with
  | WDone (_, l) e' =>
      enters l = preorder everywhere /\ List.length (enters l) = 22%nat /\
      e' = map_tree f everywhere /\ exists_node is_mark e' = false /\ esize e' = 30%nat
  | _ => False
  end.
Proof. vm_compute. repeat split. Qed.

(* ---------------- MatchesNode: a replaced pattern operand takes effect in what is compiled and run.
   The parser pre-compiles a literal pattern into MatchesNode.Regexp (`re` of EMatches); the walker
   replaces the Right slot and keeps the field (set_children), which is then STALE.  The compiler
   repaired by the `fix:` commit "MatchesNode looks at the right operand again" and the reference
   semantics use the field only through Ast.re_const: while the right operand still IS the literal
   the field was compiled from. *)
Require Import X.Sem.Prim X.Sem.Sem X.Sem.MatchesFacts X.BC.Instr X.BC.Compiler X.BC.VM X.BC.RunProofs X.BC.MatchesPatch.
Require X.BC.Schemes X.gen.GenSchemes X.Bridge.BrSchemesMatches.

(* the node as the walker rebuilds it from walked children l', r' (any replacement of either slot, any
   environment, closure context and state): its reference value is the DYNAMIC reading of
   `l' matches r'` - left operand, right operand, the pattern is the value of the right operand -
   and, unless r' is again the very literal p, its code is left, right, OpMatches *)
Theorem C10_matches_pattern_replacement_effective :
  forall fe cfg env ctx mapenv a p l b l' r' s,
  eval fe cfg env ctx (set_children (EMatches a (Some p) l (EStr b p)) [l'; r']) s
    = matches_dyn fe cfg env ctx a l' r' s
  /\ (re_const (Some p) r' = None ->
      compile mapenv (set_children (EMatches a (Some p) l (EStr b p)) [l'; r'])
      = compile mapenv l' ++ compile mapenv r' ++ at_ (aloc a) [IMatches]).
Proof. exact matches_walker_rebuild. Qed.
Print Assumptions C10_matches_pattern_replacement_effective.

(* the reading that names no field: the Regexp field NEVER decides the reference value *)
Theorem C10_matches_dynamic_reading :
  forall fe cfg env ctx a re l r s,
  eval fe cfg env ctx (EMatches a re l r) s = matches_dyn fe cfg env ctx a l r s.
Proof. exact eval_matches_dyn. Qed.
Print Assumptions C10_matches_dynamic_reading.

Theorem C10_matches_patched_value :
  forall fe cfg env ctx a p l b r' s,
  eval fe cfg env ctx (set_children (EMatches a (Some p) l (EStr b p)) [l; r']) s
  = eval fe cfg env ctx (EMatches a None l r') s.
Proof. exact matches_patch_value. Qed.
Print Assumptions C10_matches_patched_value.

Theorem C10_matches_patched_code :
  forall mapenv a p l b r', re_const (Some p) r' = None ->
  compile mapenv (set_children (EMatches a (Some p) l (EStr b p)) [l; r'])
  = compile mapenv (EMatches a None l r').
Proof. exact matches_patch_code. Qed.
Print Assumptions C10_matches_patched_code.

(* the side condition is decidable and excludes exactly one replacement: the literal p itself *)
Theorem C10_matches_side_condition :
  forall p r', re_const (Some p) r' = None <-> (forall b, r' <> EStr b p).
Proof. exact matches_patch_side_condition. Qed.
Print Assumptions C10_matches_side_condition.

(* EVERY replacement (that literal included): running the code compiled from the patched node on the
   model VM returns the reference result of `l matches r'` without any field (through C01's
   compile_correct; stop_is_locatable excludes only the failure class reserved for malformed bytecode) *)
Theorem C10_matches_patched_run :
  forall fe cfg env a p l b r',
  compilable l = true -> compilable r' = true ->
  stop_is_locatable (eval fe cfg env [] (EMatches a None l r') rs0) ->
  exists d0, forall d, (d0 <= d)%nat ->
    run_code fe cfg env (compile (c_mapenv cfg) (set_children (EMatches a (Some p) l (EStr b p)) [l; r'])) d
    = Some (eval fe cfg env [] (EMatches a None l r') rs0).
Proof. exact matches_patch_run. Qed.
Print Assumptions C10_matches_patched_run.

(* tie to the code BY REGENERATION: the MatchesNode method of compiler/compiler.go as read on this run
   (gen/GenSchemes.v: type assertion on node.Right, Regexp != nil, Regexp.String() == the literal's
   Value) is the model rule, for every field and every right operand; with a stale field and a
   replaced operand it compiles the replacement.  The guard before the repair (`node.Regexp != nil`)
   fails this lemma. *)
Theorem C10_matches_method_is_source :
  forall rec mapenv a re l r,
  rec l = Some (compile mapenv l) -> (re_const re r = None -> rec r = Some (compile mapenv r)) ->
  X.BC.Schemes.interp_code X.gen.GenSchemes.schemes rec mapenv (EMatches a re l r)
  = Some (compile mapenv (EMatches a re l r)).
Proof. exact X.Bridge.BrSchemesMatches.matches_scheme_is_model. Qed.
Print Assumptions C10_matches_method_is_source.

Theorem C10_matches_method_compiles_replacement :
  forall rec mapenv a p l r', re_const (Some p) r' = None ->
  rec l = Some (compile mapenv l) -> rec r' = Some (compile mapenv r') ->
  X.BC.Schemes.interp_code X.gen.GenSchemes.schemes rec mapenv (EMatches a (Some p) l r')
  = Some (compile mapenv l ++ compile mapenv r' ++ at_ (aloc a) [IMatches]).
Proof. exact X.Bridge.BrSchemesMatches.matches_scheme_compiles_replacement. Qed.
Print Assumptions C10_matches_method_compiles_replacement.

(* historical (finding fixed in compiler.MatchesNode), about the OLD rule kept as old_matches_code:
   "abc" matches "^a" with the literal replaced by "^z" ran to true; repaired code, model and
   reference give false *)
Example C10_fixed_matches_stale_regexp_old_rule :
  patch_witness = EMatches ann0 (Some "^a"%string) (EStr ann0 "abc") (EStr ann0 "^z") /\
  run_code patch_fe patch_cfg VNil (old_matches_code false patch_witness) 10%nat = Some (Done (VBool true) rs0) /\
  run_code patch_fe patch_cfg VNil (compile false patch_witness) 10%nat = Some (Done (VBool false) rs0) /\
  eval patch_fe patch_cfg VNil [] patch_witness rs0 = Done (VBool false) rs0.
Proof. exact old_rule_ignored_replacement. Qed.

(* non-vacuity of the side condition: another literal, an identifier; and the one excluded replacement *)
Example C10_matches_side_condition_nonvacuous :
  re_const (Some "^a"%string) (EStr ann0 "^z") = None /\
  re_const (Some "^a"%string) (EIdent ann0 "P" false) = None /\
  re_const (Some "^a"%string) (EStr (at_loc (1, 5)) "^a") = Some "^a"%string.
Proof. exact patch_side_condition_examples. Qed.

Example C10_matches_method_nonvacuous :
  X.BC.Schemes.interp_code X.gen.GenSchemes.schemes (fun e => Some (compile false e)) false
    (EMatches ann0 (Some "^a"%string) (EStr ann0 "abc") (EStr ann0 "^z"))
  = Some [(IPush (VStr "abc"), noloc); (IPush (VStr "^z"), noloc); (IMatches, noloc)].
Proof. exact X.Bridge.BrSchemesMatches.matches_scheme_example. Qed.

(* ================ Front-end capstone (Bridge/BrCapstoneC10.v): the main theorems once more, with the children of a
   node, the walker and the necessity statement all read through the table REGENERATED from ast/visitor.go.
     source_children e              = the nodes held by the fields walked by the regenerated case of walker.walk
     source_entered e               = what the recording visitor is handed at Enter by `walk .. gen_walked`
     source_entered_without k f e   = the same with field f left out of the regenerated case of kind k
   No hand-written slot table occurs below. *)
Require Import X.Bridge.BrCapstoneC10.
Local Open Scope nat_scope.

Theorem C10_source_children_are_reference : forall e, source_children e = children e.
Proof. exact src_children_are_reference. Qed.
Print Assumptions C10_source_children_are_reference.

Theorem C10_source_spec_events_shape : forall e,
  spec_events e = EvEnter e :: List.concat (map spec_events (source_children e)) ++ [EvExit e].
Proof. exact src_spec_events_shape. Qed.
Print Assumptions C10_source_spec_events_shape.

Theorem C10_source_preorder_shape : forall e,
  preorder e = e :: List.concat (map preorder (source_children e)) /\
  postorder e = List.concat (map postorder (source_children e)) ++ [e].
Proof. exact src_preorder_shape. Qed.
Print Assumptions C10_source_preorder_shape.

Theorem C10_source_subterm_step : forall i q e,
  subterm_at (i :: q) e = match nth_error (source_children e) i with Some c => subterm_at q c | None => None end.
Proof. exact src_subterm_step. Qed.
Print Assumptions C10_source_subterm_step.

Theorem C10_source_map_tree_shape : forall f e,
  map_tree f e = f (set_children e (map (map_tree f) (source_children e))).
Proof. exact src_map_tree_shape. Qed.
Print Assumptions C10_source_map_tree_shape.

(* one step, ALL visitors, ALL trees *)
Theorem C10_source_walk_step : forall St n (v : visitor St) s e,
  walk (S n) gen_walked v s e =
  match walk_list (walk n gen_walked v) (fst (v_enter v s e)) (source_children (snd (v_enter v s e))) with
  | LDone s2 cs =>
      WDone (fst (v_exit v s2 (set_children (snd (v_enter v s e)) cs)))
            (snd (v_exit v s2 (set_children (snd (v_enter v s e)) cs)))
  | LPanic => WPanic
  | LOutOfFuel => WOutOfFuel
  end.
Proof. exact src_walk_step. Qed.
Print Assumptions C10_source_walk_step.

(* events = specification, every node entered once and exited once, in ONE statement about the walker's output *)
Theorem C10_source_events_exactly_once : forall e n l, esize e <= n ->
  exists l', walk n gen_walked logger l e = WDone (l ++ l') e /\ l' = spec_events e /\
    enters l' = preorder e /\ exits l' = postorder e /\ List.length (enters l') = esize e /\
    Permutation (enters l') (exits l') /\
    (NoDup (map loc_of (preorder e)) -> forall x, In x (preorder e) ->
       count_occ loc_eq_dec (map loc_of (enters l')) (loc_of x) = 1 /\
       count_occ loc_eq_dec (map loc_of (exits l')) (loc_of x) = 1).
Proof. exact src_events_exactly_once. Qed.
Print Assumptions C10_source_events_exactly_once.

(* ... for ALL state-passing visitors replacing at Exit: the walker terminates and the event identities are the
   specified ones of the original tree *)
Theorem C10_source_events_all_visitors : forall St (x : xvisitor St) e n s l, esize e <= n ->
  exists s' l' e', walk n gen_walked (to_visitor (xinstrument x)) (s, l) e = WDone (s', l') e' /\
    map ev_id l' = map ev_id l ++ map ev_id (spec_events e).
Proof. exact src_events_all_visitors. Qed.
Print Assumptions C10_source_events_all_visitors.

(* ... and for ALL visitors (replacing at Enter too) on finished runs *)
Theorem C10_source_enters_exits_general : forall St (v : visitor St) n e s l s' l' e',
  walk n gen_walked (instrument v) (s, l) e = WDone (s', l') e' ->
  ((forall s e, snd (v_enter v s e) = e) -> enters l' = enters l ++ preorder e) /\
  ((forall s e, snd (v_exit v s e) = e) -> exits l' = exits l ++ postorder e').
Proof. exact src_enters_exits_general. Qed.
Print Assumptions C10_source_enters_exits_general.

(* replacement effective everywhere: a statement about the tree the walker RETURNS *)
Theorem C10_source_replace_at_every_position : forall m t e n s,
  (forall x, m x = true -> children x = []) -> esize e <= n ->
  exists e', walk n gen_walked (to_visitor (pure_exit (replace_marked m t))) s e = WDone s e' /\
    (forall p x, subterm_at p e = Some x -> m x = true -> subterm_at p e' = Some (patch x t)) /\
    ((forall a, exists_node m (set_ann t a) = false) -> exists_node m e' = false).
Proof. exact src_replace_at_every_position. Qed.
Print Assumptions C10_source_replace_at_every_position.

(* every field walked by every regenerated case is necessary; the walker as regenerated enters every node *)
Theorem C10_source_every_slot_necessary : forall k sl, In sl (gen_walked k) ->
  exists e c, nkind_of e = k /\ In c (source_children e) /\
    expr_loc_in c (source_entered_without k (fst sl) e) = false /\
    expr_loc_in c (source_entered e) = true.
Proof. exact src_every_slot_necessary. Qed.
Print Assumptions C10_source_every_slot_necessary.

Theorem C10_source_enters_every_node : forall e, source_entered e = preorder e.
Proof. exact src_enters_every_node. Qed.
Print Assumptions C10_source_enters_every_node.

(* non-vacuity: the hypotheses of C10_source_replace_at_every_position are met by `everywhere` / is_mark (leaf marker,
   8 marked positions, replacement free of the marker), and the slice case of the regenerated table has three
   necessary slots *)
Example C10_source_nonvacuous :
  (forall x, is_mark x = true -> children x = []) /\
  (forall a, exists_node is_mark (set_ann (int_at 0 1000) a) = false) /\
  (esize everywhere <= 22)%nat /\
  map (fun p => subterm_at p everywhere) mark_paths = repeat (Some mark) 8%nat /\
  List.length (gen_walked NkSlice) = 3%nat /\
  source_children slice_witness = [idA; int_at 2 1; int_at 4 2] /\
  expr_loc_in idA (source_entered_without NkSlice FNode slice_witness) = false /\
  expr_loc_in idA (source_entered slice_witness) = true.
Proof.
  split; [intros x H; destruct x; try discriminate; reflexivity|].
  split; [intros a; reflexivity|]. vm_compute. repeat split. apply le_n.
Qed.

(* Opt/OptProofs.v — soundness of the optimizer model (Opt/Optimizer.v) relative to the
   reference semantics (Sem/Sem.v).  See Props/C02.v for the statements that are exported.

   Part 1  arithmetic of the Go int model and the helper table on same-kind integers
   Part 2  observational equivalence: ~v on values, ssim on run states, rsim on results
   Part 3  the per-rewrite soundness lemmas on concrete redexes (all operands / contexts / states)
   Part 4  congruence: unfolding equations of eval, combinator lemmas, rel1 -> esim (22 node kinds)
   Part 5  the visitors in relational form, map_post, the passes, C02_transparent_partial
   Part 6  rejection, ConstExpr purity
   Part 7  known findings: decidable predicates, refutations by vm_compute, non-vacuity *)
From Coq Require Import ZArith Bool List String Floats Lia.
Require Import X.Base.Num X.Base.NumProofs X.Base.Value X.Syn.Ast X.gen.GenHelpers X.Sem.Prim X.Sem.Sem X.Sem.MatchesFacts X.Opt.Optimizer.
Import ListNotations.
Open Scope Z_scope.
Open Scope list_scope.

(* ================================================================== Part 1 *)
Lemma wrap_mod_signed w z : 0 < w ->
  ((z + 2 ^ (w - 1)) mod 2 ^ w - 2 ^ (w - 1)) mod 2 ^ w = z mod 2 ^ w.
Proof.
  intros Hw. rewrite Zminus_mod, Zmod_mod, <- Zminus_mod. f_equal. lia.
Qed.

Lemma wrap_cong k a b : is_intkind k = true -> a mod 2 ^ width k = b mod 2 ^ width k -> wrap k a = wrap k b.
Proof.
  intros Hk H. unfold wrap. destruct (is_signed k).
  - f_equal. rewrite Zplus_mod, H, <- Zplus_mod. reflexivity.
  - exact H.
Qed.

Lemma wrap_mod k z : is_intkind k = true -> (wrap k z) mod 2 ^ width k = z mod 2 ^ width k.
Proof.
  intros Hk. unfold wrap. destruct (is_signed k).
  - apply wrap_mod_signed. destruct k; cbn; lia.
  - apply Zmod_mod.
Qed.

Lemma wrap_idem k z : is_intkind k = true -> wrap k (wrap k z) = wrap k z.
Proof. intros Hk. apply wrap_cong; auto. apply wrap_mod; auto. Qed.

(* narrowing after 64-bit arithmetic = arithmetic in the narrow kind, for + - * (ring homomorphism) *)
Lemma width_divides k : is_intkind k = true -> exists c, 0 < c /\ 2 ^ 64 = c * 2 ^ width k.
Proof.
  intros Hk. destruct k; cbn in *; try discriminate.
  all: first [ exists 1; split; [lia|reflexivity] | exists (2 ^ 56); split; [lia|reflexivity]
             | exists (2 ^ 48); split; [lia|reflexivity] | exists (2 ^ 32); split; [lia|reflexivity] ].
Qed.

Lemma mod64_mod k z : is_intkind k = true -> (z mod 2 ^ 64) mod 2 ^ width k = z mod 2 ^ width k.
Proof.
  intros Hk. destruct (width_divides k Hk) as (c & Hc & E). rewrite E.
  rewrite Z.mul_comm. rewrite Z.rem_mul_r by (destruct k; cbn; lia).
  rewrite Z.mul_comm, Z_mod_plus_full. apply Zmod_mod.
Qed.

Lemma wrapint_mod k z : is_intkind k = true -> (wrap KInt z) mod 2 ^ width k = z mod 2 ^ width k.
Proof.
  intros Hk. rewrite <- (mod64_mod k (wrap KInt z)) by auto.
  replace 64 with (width KInt) by reflexivity. rewrite wrap_mod by reflexivity.
  apply (mod64_mod k z Hk).
Qed.

Lemma wrap_wrapint k z : is_intkind k = true -> wrap k (wrap KInt z) = wrap k z.
Proof. intros Hk. apply wrap_cong; auto. apply wrapint_mod; auto. Qed.

Lemma wrap_add_hom k x y : is_intkind k = true ->
  wrap k (wrap KInt (wrap KInt x + wrap KInt y)) = wrap k (wrap k x + wrap k y).
Proof.
  intros Hk. rewrite wrap_wrapint by auto. apply wrap_cong; auto.
  rewrite (Zplus_mod (wrap KInt x)), !wrapint_mod by auto.
  rewrite (Zplus_mod (wrap k x)), !wrap_mod by auto. reflexivity.
Qed.

Lemma wrap_sub_hom k x y : is_intkind k = true ->
  wrap k (wrap KInt (wrap KInt x - wrap KInt y)) = wrap k (wrap k x - wrap k y).
Proof.
  intros Hk. rewrite wrap_wrapint by auto. apply wrap_cong; auto.
  rewrite (Zminus_mod (wrap KInt x)), !wrapint_mod by auto.
  rewrite (Zminus_mod (wrap k x)), !wrap_mod by auto. reflexivity.
Qed.

Lemma wrap_mul_hom k x y : is_intkind k = true ->
  wrap k (wrap KInt (wrap KInt x * wrap KInt y)) = wrap k (wrap k x * wrap k y).
Proof.
  intros Hk. rewrite wrap_wrapint by auto. apply wrap_cong; auto.
  rewrite (Zmult_mod (wrap KInt x)), !wrapint_mod by auto.
  rewrite (Zmult_mod (wrap k x)), !wrap_mod by auto. reflexivity.
Qed.

Lemma wrap_neg_hom k x : is_intkind k = true ->
  wrap k (wrap KInt (- wrap KInt x)) = wrap k (- wrap k x).
Proof.
  intros Hk. rewrite wrap_wrapint by auto. apply wrap_cong; auto.
  replace (- wrap KInt x) with (0 - wrap KInt x) by lia. replace (- wrap k x) with (0 - wrap k x) by lia.
  rewrite (Zminus_mod 0 (wrap KInt x)), wrapint_mod by auto.
  rewrite (Zminus_mod 0 (wrap k x)), wrap_mod by auto. reflexivity.
Qed.

(* the helper table on two integers of one and the same kind: no conversion, Go's operator *)
Lemma helper_same_kind h k : is_intkind k = true -> helper_case h k k = Some (None, None, helper_op h).
Proof. intros Hk. destruct h, k; try discriminate Hk; reflexivity. Qed.

Lemma helper_num_same h k x y : is_intkind k = true ->
  helper_num helper_case h (NInt k x) (NInt k y) = Some (go_op (helper_op h) (NInt k x) (NInt k y)).
Proof. intros Hk. unfold helper_num. cbn [num_kind]. rewrite helper_same_kind by auto. reflexivity. Qed.

Lemma p_helper_ints h k x y : is_intkind k = true ->
  p_helper h (VNum (NInt k x)) (VNum (NInt k y)) = of_nres (go_op (helper_op h) (NInt k x) (NInt k y)).
Proof. intros Hk. unfold p_helper. rewrite helper_num_same by auto. reflexivity. Qed.

Lemma go_op_int o k x y :
  go_op o (NInt k x) (NInt k y) =
  match o with
  | OEq => NRBool (x =? y) | OLt => NRBool (x <? y) | OGt => NRBool (y <? x)
  | OLe => NRBool (x <=? y) | OGe => NRBool (y <=? x)
  | OAdd => NRNum (NInt k (wrap k (x + y)))
  | OSub => NRNum (NInt k (wrap k (x - y)))
  | OMul => NRNum (NInt k (wrap k (x * y)))
  | ODiv => if y =? 0 then NRDivZero else NRNum (NInt k (wrap k (Z.quot x y)))
  | ORem => if y =? 0 then NRDivZero else NRNum (NInt k (wrap k (Z.rem x y)))
  | OBad => NRInvalid
  end.
Proof. unfold go_op. rewrite kind_eqb_refl. reflexivity. Qed.

(* an integer literal evaluates to the Go conversion of its value to the literal's static kind *)
Lemma int_const_int a k z : akind a = RKNum k -> is_intkind k = true -> int_const a z = VNum (NInt k (wrap k z)).
Proof. intros Ha Hk. unfold int_const. rewrite Ha. unfold is_intkind in Hk. destruct (is_float k); [discriminate|reflexivity]. Qed.

Lemma int_const_mk l k z : is_intkind k = true -> int_const (mkAnn l (RKNum k)) z = VNum (NInt k (wrap k z)).
Proof. intros. apply int_const_int; auto. Qed.

(* ================================================================== Part 2 *)
(* ~v on values: numbers equal in kind and value (floats by bits, all NaNs identified), sequences
   compared element by element whatever their element type ([]interface{}{1,2} ~v []int{1,2}, a nil
   slice ~v an empty one), everything else structurally. *)
Fixpoint vsimb (a b : value) {struct a} : bool :=
  let fix leq (l1 l2 : list value) {struct l1} : bool :=
    match l1, l2 with [], [] => true | x :: r1, y :: r2 => vsimb x y && leq r1 r2 | _, _ => false end in
  let fix meq (m1 m2 : list (value * value)) {struct m1} : bool :=
    match m1, m2 with
    | [], [] => true
    | (k1, x) :: r1, (k2, y) :: r2 => vsimb k1 k2 && vsimb x y && meq r1 r2
    | _, _ => false end in
  let fix feq (f1 f2 : list (string * value)) {struct f1} : bool :=
    match f1, f2 with
    | [], [] => true
    | (n1, x) :: r1, (n2, y) :: r2 => String.eqb n1 n2 && vsimb x y && feq r1 r2
    | _, _ => false end in
  match a, b with
  | VNil, VNil => true
  | VBool x, VBool y => Bool.eqb x y
  | VNum x, VNum y => num_same x y
  | VStr x, VStr y => String.eqb x y
  | VArr _ l, VArr _ l' => leq l l'
  | VArr _ l, VNilArr _ => match l with [] => true | _ => false end
  | VNilArr _, VArr _ l' => match l' with [] => true | _ => false end
  | VNilArr _, VNilArr _ => true
  | VMap k e m, VMap k' e' m' => ty_eqb k k' && ty_eqb e e' && meq m m'
  | VNilMap k e, VNilMap k' e' => ty_eqb k k' && ty_eqb e e'
  | VStruct n p f, VStruct n' p' f' => String.eqb n n' && Bool.eqb p p' && feq f f'
  | VNilPtr t, VNilPtr t' => ty_eqb t t'
  | VFunc n _, VFunc n' _ => String.eqb n n'
  | VNamed n x, VNamed n' y => String.eqb n n' && vsimb x y
  | VOpaque n, VOpaque n' => String.eqb n n'
  | _, _ => false
  end.
Definition vsim (a b : value) : Prop := vsimb a b = true.
Infix "~v" := vsim (at level 70).

Lemma kind_eqb_rf k : kind_eqb k k = true. Proof. destruct k; reflexivity. Qed.
Lemma f_same_refl f : f_same f f = true.
Proof. unfold f_same, f_is_nan. destruct (PrimFloat.eqb f f) eqn:E; cbn; [|reflexivity]. rewrite eqb_reflx. reflexivity. Qed.
Lemma num_same_refl n : num_same n n = true.
Proof. destruct n; cbn; rewrite kind_eqb_rf; cbn; [apply Z.eqb_refl|apply f_same_refl]. Qed.

Lemma ty_eqb_refl : forall t, ty_eqb t t = true.
Proof.
  fix IH 1. intros t. destruct t; cbn; try reflexivity; try apply kind_eqb_rf; try apply String.eqb_refl;
    try apply IH.
  - rewrite !IH. reflexivity.
  - assert (L : forall l, (fix list_eqb (l1 l2 : list ty) {struct l1} : bool :=
        match l1, l2 with [], [] => true | x :: r1, y :: r2 => ty_eqb x y && list_eqb r1 r2 | _, _ => false end) l l = true).
    { induction l as [|x r IHr]; [reflexivity|]. rewrite IH, IHr. reflexivity. }
    rewrite !L, eqb_reflx. reflexivity.
  - rewrite String.eqb_refl, IH. reflexivity.
Qed.

Lemma vsimb_refl : forall v, vsimb v v = true.
Proof.
  fix IH 1. intros v. destruct v; cbn; try reflexivity; try apply eqb_reflx; try apply num_same_refl;
    try apply String.eqb_refl; try apply ty_eqb_refl.
  - induction l as [|x r IHr]; [reflexivity|]. rewrite IH, IHr. reflexivity.
  - rewrite !ty_eqb_refl. cbn. induction m as [|[k x] r IHr]; [reflexivity|]. rewrite !IH, IHr. reflexivity.
  - rewrite String.eqb_refl, eqb_reflx. cbn. induction fields as [|[n x] r IHr]; [reflexivity|].
    rewrite String.eqb_refl, IH, IHr. reflexivity.
  - rewrite !ty_eqb_refl. reflexivity.
  - rewrite String.eqb_refl, IH. reflexivity.
Qed.

Lemma vsim_refl v : v ~v v. Proof. apply vsimb_refl. Qed.

(* run states.  cn = the names marked ConstExpr: their calls disappear from the run-time call log
   (they were made at compile time); with cn = [] the logs are equal.  The optimized run never
   holds more accounted memory than the unoptimized one: folded constants (array literals, ranges
   with literal bounds, the range of `x in a..b`) are NOT charged to the run-time budget. *)
Definition strip (cn : list string) (t : list (string * list value)) : list (string * list value) :=
  filter (fun ev => negb (existsb (String.eqb (fst ev)) cn)) t.

Definition ssim (cn : list string) (so su : rstate) : Prop :=
  r_mem so <= r_mem su /\ strip cn (r_trace so) = strip cn (r_trace su).

(* results: optimized `ro` against unoptimized `ru`.  Same failure-or-success, related values, same
   failure class and location, related states -- unless the UNOPTIMIZED run exceeds the memory
   budget (known finding C02-budget: the optimized run may then go on). *)
Definition rsim (R : value -> value -> Prop) (cn : list string) (ro ru : result) : Prop :=
  match ru with
  | Done v s => exists v' s', ro = Done v' s' /\ R v' v /\ ssim cn s' s
  | Stop e l s => e = EBudget \/ exists s', ro = Stop e l s' /\ ssim cn s' s
  end.

Lemma strip_app cn a b : strip cn (a ++ b)%list = (strip cn a ++ strip cn b)%list.
Proof. apply filter_app. Qed.

Lemma ssim_refl cn s : ssim cn s s.
Proof. split; [lia|reflexivity]. Qed.

Lemma ssim_trans cn a b c : ssim cn a b -> ssim cn b c -> ssim cn a c.
Proof. intros [H1 H2] [H3 H4]. split; [lia|congruence]. Qed.

Lemma ssim_log cn s' s id args : ssim cn s' s -> ssim cn (log_call s' id args) (log_call s id args).
Proof. intros [H1 H2]. split; [exact H1|]. unfold log_call. cbn [r_trace]. rewrite !strip_app, H2. reflexivity. Qed.

Lemma rsim_refl cn r : rsim eq cn r r.
Proof. destruct r; cbn; [eexists _, _; split; [reflexivity|split; [reflexivity|apply ssim_refl]]|right; eexists; split; [reflexivity|apply ssim_refl]]. Qed.

Lemma rsim_trans cn r1 r2 r3 : rsim eq cn r1 r2 -> rsim eq cn r2 r3 -> rsim eq cn r1 r3.
Proof.
  unfold rsim. destruct r3 as [v s|e l s].
  - intros H12 (v2 & s2 & -> & <- & S2). destruct H12 as (v1 & s1 & -> & <- & S1).
    eexists _, _. split; [reflexivity|split; [reflexivity|eapply ssim_trans; eauto]].
  - intros H12 [->|(s2 & -> & S2)]; [left; reflexivity|].
    destruct H12 as [->|(s1 & -> & S1)]; [left; reflexivity|]. right. eexists. split; [reflexivity|]. eapply ssim_trans; eauto.
Qed.

Lemma rsim_weaken (R : value -> value -> Prop) cn r1 r2 : (forall v, R v v) -> rsim eq cn r1 r2 -> rsim R cn r1 r2.
Proof.
  intros HR. unfold rsim. destruct r2; [|auto]. intros (v' & s' & -> & <- & S). eexists _, _. eauto.
Qed.

Lemma rsim_Done cn v s' s : ssim cn s' s -> rsim eq cn (Done v s') (Done v s).
Proof. intros. cbn. eexists _, _. eauto. Qed.

Lemma rsim_Stop cn e l s' s : ssim cn s' s -> rsim eq cn (Stop e l s') (Stop e l s).
Proof. intros. cbn. right. eexists. eauto. Qed.

(* what a Done on the optimized side says about the unoptimized side *)
Lemma rsim_Done_inv cn v s' ru : rsim eq cn (Done v s') ru ->
  (exists l s, ru = Stop EBudget l s) \/ exists s, ru = Done v s /\ ssim cn s' s.
Proof.
  destruct ru as [v2 s2|e l s2]; cbn.
  - intros (v1 & s1 & E & <- & S). inversion E; subst. right. eauto.
  - intros [->|(s1 & E & _)]; [left; eauto|discriminate].
Qed.

Lemma rsim_Stop_inv cn e l s' ru : rsim eq cn (Stop e l s') ru ->
  (exists l2 s, ru = Stop EBudget l2 s) \/ exists s, ru = Stop e l s /\ ssim cn s' s.
Proof.
  destruct ru as [v2 s2|e2 l2 s2]; cbn.
  - intros (v1 & s1 & E & _); discriminate.
  - intros [->|(s1 & E & S)]; [left; eauto|]. inversion E; subst. right. eauto.
Qed.

(* ================================================================== Part 4a: eval, one step *)
Section Ev.
Variable fe : fenv.
Variable cfg : config.
Variable env : value.
Notation ev := (eval fe cfg env).

Definition ev_list (ctx : list (value * Z)) :=
  fix eval_list (es : list expr) (s : rstate) (k : list value -> rstate -> result) : result :=
    match es with
    | [] => k [] s
    | x :: r => rbind (ev ctx x s) (fun v s1 => eval_list r s1 (fun vs s2 => k (v :: vs) s2))
    end.

Definition ev_pairs (ctx : list (value * Z)) (here : loc) :=
  fix eval_pairs (ps : list expr) (s : rstate) (k : list (value * value) -> rstate -> result) : result :=
    match ps with
    | [] => k [] s
    | EPair _ kx vx :: r =>
        rbind (ev ctx kx s) (fun vk s1 => rbind (ev ctx vx s1) (fun vv s2 =>
        eval_pairs r s2 (fun kvs s3 => k ((vk, vv) :: kvs) s3)))
    | _ :: _ => Stop EOther here s
    end.

Definition bin_strict (here : loc) (fe : fenv) (cfg : config) (op : binop) (l r : expr) (va vb : value) (s2 : rstate) : result :=
  match op with
  | BEq =>
      if both_kind (RKNum KInt) l r then
        lift here s2 (as_int va) (fun x => lift here s2 (as_int vb) (fun y => Done (VBool (x =? y)) s2))
      else if both_kind RKString l r then
        lift here s2 (as_str va) (fun x => lift here s2 (as_str vb) (fun y => Done (VBool (String.eqb x y)) s2))
      else lift here s2 (p_equal va vb) (fun v => Done v s2)
  | BNe => lift here s2 (p_equal va vb) (fun v => lift here s2 (as_bool v) (fun b => Done (VBool (negb b)) s2))
  | BIn => lift here s2 (p_in va vb) (fun b => Done (VBool b) s2)
  | BNotIn => lift here s2 (p_in va vb) (fun b => Done (VBool (negb b)) s2)
  | BLt => lift here s2 (p_helper HLess va vb) (fun v => Done v s2)
  | BGt => lift here s2 (p_helper HMore va vb) (fun v => Done v s2)
  | BLe => lift here s2 (p_helper HLessOrEqual va vb) (fun v => Done v s2)
  | BGe => lift here s2 (p_helper HMoreOrEqual va vb) (fun v => Done v s2)
  | BAdd => lift here s2 (p_helper HAdd va vb) (fun v => Done v s2)
  | BSub => lift here s2 (p_helper HSubtract va vb) (fun v => Done v s2)
  | BMul => lift here s2 (p_helper HMultiply va vb) (fun v => Done v s2)
  | BDiv => lift here s2 (p_helper HDivide va vb) (fun v => Done v s2)
  | BMod => lift here s2 (p_helper HModulo va vb) (fun v => Done v s2)
  | BPow => lift here s2 (to_float64 va) (fun x => lift here s2 (to_float64 vb) (fun y =>
              Done (VNum (NFlt KF64 (f_pow fe x y))) s2))
  | BContains => lift here s2 (as_str va) (fun x => lift here s2 (as_str vb) (fun y => Done (VBool (str_contains x y)) s2))
  | BStartsWith => lift here s2 (as_str va) (fun x => lift here s2 (as_str vb) (fun y => Done (VBool (str_prefix y x)) s2))
  | BEndsWith => lift here s2 (as_str va) (fun x => lift here s2 (as_str vb) (fun y => Done (VBool (str_suffix y x)) s2))
  | BRange =>
      lift here s2 (to_int va) (fun lo => lift here s2 (to_int vb) (fun hi =>
      match range_size lo hi with
      | None => Stop EBudget here s2
      | Some n => alloc cfg here n s2 (fun s3 => Done (make_range lo hi) s3)
      end))
  | _ => Stop EOther here s2
  end.

Definition is_or (op : binop) : bool := match op with BOrWord | BOrOr => true | _ => false end.
Definition is_and (op : binop) : bool := match op with BAndWord | BAndAnd => true | _ => false end.

Lemma ev_unary ctx a op x s :
  ev ctx (EUnary a op x) s =
  rbind (ev ctx x s) (fun v s1 =>
    match op with
    | UNotBang | UNotWord => lift (aloc a) s1 (as_bool v) (fun b => Done (VBool (negb b)) s1)
    | UPlus => Done v s1
    | UMinus => lift (aloc a) s1 (p_negate v) (fun r => Done r s1)
    | UUnknown _ => Stop EOther (aloc a) s1
    end).
Proof. reflexivity. Qed.

Lemma ev_binary ctx a op l r s :
  ev ctx (EBinary a op l r) s =
  if is_or op then
    rbind (ev ctx l s) (fun va s1 => lift (aloc a) s1 (as_bool va) (fun b => if b then Done va s1 else ev ctx r s1))
  else if is_and op then
    rbind (ev ctx l s) (fun va s1 => lift (aloc a) s1 (as_bool va) (fun b => if b then ev ctx r s1 else Done va s1))
  else
    rbind (ev ctx l s) (fun va s1 => rbind (ev ctx r s1) (fun vb s2 => bin_strict (aloc a) fe cfg op l r va vb s2)).
Proof. destruct op; reflexivity. Qed.

Lemma ev_matches ctx a re l r s :
  ev ctx (EMatches a re l r) s =
  (* the pre-compiled pattern is only a shortcut for the value of the right operand (Sem/MatchesFacts.v) *)
  rbind (ev ctx l s) (fun va s1 =>
  rbind (ev ctx r s1) (fun vb s2 =>
  lift (aloc a) s2 (as_str vb) (fun p => lift (aloc a) s2 (as_str va) (fun x =>
  match re_match fe p x with Some b => Done (VBool b) s2 | None => Stop ERegexp (aloc a) s2 end)))).
Proof. exact (eval_matches_dyn _ _ _ ctx a re l r s). Qed.

Lemma ev_property ctx a x name ns s :
  ev ctx (EProperty a x name ns) s =
  rbind (ev ctx x s) (fun v s1 => lift (aloc a) s1 (p_fetch v (VStr name) ns) (fun r => Done r s1)).
Proof. reflexivity. Qed.

Lemma ev_index ctx a x i s :
  ev ctx (EIndex a x i) s =
  rbind (ev ctx x s) (fun v s1 => rbind (ev ctx i s1) (fun vi s2 =>
  lift (aloc a) s2 (p_fetch v vi false) (fun r => Done r s2))).
Proof. reflexivity. Qed.

Lemma ev_slice ctx a x from to s :
  ev ctx (ESlice a x from to) s =
  rbind (ev ctx x s) (fun v s1 =>
  rbind (match to with
         | Some t => ev ctx t s1
         | None => lift (aloc a) s1 (p_length v) (fun n => Done (vint n) s1)
         end) (fun vto s2 =>
  rbind (match from with
         | Some f => ev ctx f s2
         | None => Done (vint 0) s2
         end) (fun vfrom s3 =>
  lift (aloc a) s3 (p_slice v vfrom vto) (fun r => Done r s3)))).
Proof. reflexivity. Qed.

Lemma ev_method ctx a x name args ns s :
  ev ctx (EMethod a x name args ns) s =
  rbind (ev ctx x s) (fun v s1 =>
  ev_list ctx args s1 (fun vs s2 =>
  match ns, v with
  | true, VNil => Done VNil s2
  | _, _ => if ns && fetch_fn_zero v name then Done VNil s2
            else lift (aloc a) s2 (fetch_fn fe v name) (fun id => do_call fe (aloc a) false id v vs s2)
  end)).
Proof. reflexivity. Qed.

Lemma ev_function ctx a name args fast s :
  ev ctx (EFunction a name args fast) s =
  ev_list ctx args s (fun vs s1 =>
  lift (aloc a) s1 (fetch_fn fe env name) (fun id => do_call fe (aloc a) fast id env vs s1)).
Proof. reflexivity. Qed.

Definition builtin_body (ctx : list (value * Z)) (here : loc) (b : builtin) (c : expr) (v : value) (n : Z) (s1 : rstate) : result :=
  let body := fun i s' => ev ((v, i) :: ctx) c s' in
  match b with
  | BiAll => all_loop body here (Z.to_nat n) 0 s1
  | BiNone => none_loop body here (Z.to_nat n) 0 s1
  | BiAny => any_loop body here (Z.to_nat n) 0 s1
  | BiOne => count_loop body here (Z.to_nat n) 0 0 s1
               (fun cnt s2 => lift here s2 (p_equal (vint cnt) (vint 1)) (fun r => Done r s2))
  | BiCount => count_loop body here (Z.to_nat n) 0 0 s1 (fun cnt s2 => Done (vint cnt) s2)
  | BiFilter => filter_loop body here (fun i => p_fetch v (vint i) false) (Z.to_nat n) 0 [] s1
                  (fun xs s2 => alloc cfg here (Z.of_nat (List.length xs)) s2 (fun s3 => Done (VArr TIface xs) s3))
  | BiMap => map_loop body (Z.to_nat n) 0 [] s1
               (fun xs s2 => alloc cfg here n s2 (fun s3 => Done (VArr TIface xs) s3))
  | _ => Stop EOther here s1
  end.

Definition is_loop_builtin (b : builtin) : bool :=
  match b with BiAll | BiNone | BiAny | BiOne | BiCount | BiFilter | BiMap => true | _ => false end.

Lemma ev_builtin ctx a b args s :
  ev ctx (EBuiltin a b args) s =
  match b, args with
  | BiLen, [x] => rbind (ev ctx x s) (fun v s1 => lift (aloc a) s1 (p_length v) (fun n => Done (vint n) s1))
  | _, [x; c] =>
      if is_loop_builtin b then
        rbind (ev ctx x s) (fun v s1 => lift (aloc a) s1 (p_length v) (fun n => builtin_body ctx (aloc a) b c v n s1))
      else Stop EOther (aloc a) s
  | _, _ => Stop EOther (aloc a) s
  end.
Proof.
  destruct b; try reflexivity; destruct args as [|x [|c [|d r]]]; reflexivity.
Qed.

Lemma ev_closure ctx a x s : ev ctx (EClosure a x) s = ev ctx x s.
Proof. reflexivity. Qed.

Lemma ev_cond ctx a c x y s :
  ev ctx (ECond a c x y) s =
  rbind (ev ctx c s) (fun vc s1 => lift (aloc a) s1 (as_bool vc) (fun b => if b then ev ctx x s1 else ev ctx y s1)).
Proof. reflexivity. Qed.

Lemma ev_array ctx a es s :
  ev ctx (EArray a es) s =
  ev_list ctx es s (fun vs s1 => alloc cfg (aloc a) (Z.of_nat (List.length vs)) s1 (fun s2 => Done (VArr TIface vs) s2)).
Proof. reflexivity. Qed.

Lemma ev_map ctx a ps s :
  ev ctx (EMap a ps) s =
  ev_pairs ctx (aloc a) ps s (fun kvs s1 =>
  lift (aloc a) s1 (keys_as_str kvs) (fun skvs =>
  alloc cfg (aloc a) (Z.of_nat (List.length kvs)) s1 (fun s2 =>
  Done (VMap TString TIface (build_map skvs)) s2))).
Proof. reflexivity. Qed.

Lemma ev_pair ctx a k v s : ev ctx (EPair a k v) s = Stop EOther (aloc a) s.
Proof. reflexivity. Qed.

Lemma ev_int ctx a z s : ev ctx (EInt a z) s = Done (int_const a z) s.
Proof. reflexivity. Qed.
Lemma ev_const ctx a v s : ev ctx (EConst a v) s = Done v s.
Proof. reflexivity. Qed.
Lemma ev_str ctx a x s : ev ctx (EStr a x) s = Done (VStr x) s.
Proof. reflexivity. Qed.
Lemma ev_float ctx a f s : ev ctx (EFloat a f) s = Done (VNum (NFlt KF64 f)) s.
Proof. reflexivity. Qed.

Lemma ev_list_nil ctx s k : ev_list ctx [] s k = k [] s.
Proof. reflexivity. Qed.
Lemma ev_list_cons ctx x r s k :
  ev_list ctx (x :: r) s k = rbind (ev ctx x s) (fun v s1 => ev_list ctx r s1 (fun vs s2 => k (v :: vs) s2)).
Proof. reflexivity. Qed.

End Ev.

(* ================================================================== Part 3: one rewrite at a time *)
Opaque wrap.

Definition int64_kind (k : kind) : bool := match k with KInt | KInt64 => true | _ => false end.

Lemma wrap_int64 k z : int64_kind k = true -> wrap k z = wrap KInt z.
Proof. destruct k; try discriminate; reflexivity. Qed.

Lemma int64_intkind k : int64_kind k = true -> is_intkind k = true.
Proof. destruct k; try discriminate; reflexivity. Qed.

Section Rewrites.
Variable fe : fenv.
Variable cfg : config.
Variable env : value.
Notation ev := (eval fe cfg env).
Notation fold := (fold_v (f_pow fe)).

(* unary minus / plus on an integer literal of ANY integer kind (retyped or not) *)
Lemma fold_unary_sound : forall a ai k z ctx s,
  akind ai = RKNum k -> is_intkind k = true ->
  ev ctx (fst (fold (EUnary a UMinus (EInt ai z)))) s = ev ctx (EUnary a UMinus (EInt ai z)) s /\
  ev ctx (fst (fold (EUnary a UPlus (EInt ai z)))) s = ev ctx (EUnary a UPlus (EInt ai z)) s.
Proof.
  intros a ai k z ctx s Ha Hk. cbn [fold_v int_lit fst patch_ty set_ann]. rewrite !ev_unary, !ev_int. cbn [rbind].
  rewrite Ha, !int_const_mk, (int_const_int ai k z Ha Hk) by auto. cbn [p_negate lift go_neg]. split.
  - unfold iv. rewrite wrap_neg_hom by auto. reflexivity.
  - unfold iv. rewrite wrap_wrapint by auto. reflexivity.
Qed.

Definition int_redex (a : ann) (op : binop) (a1 : ann) (x : Z) (a2 : ann) (y : Z) : expr :=
  EBinary a op (EInt a1 x) (EInt a2 y).

Lemma ev_int_redex ctx a op a1 x a2 y s :
  is_or op = false -> is_and op = false ->
  ev ctx (int_redex a op a1 x a2 y) s =
  bin_strict (aloc a) fe cfg op (EInt a1 x) (EInt a2 y) (int_const a1 x) (int_const a2 y) s.
Proof. intros H1 H2. unfold int_redex. rewrite ev_binary, H1, H2, !ev_int. reflexivity. Qed.

(* + - * on integer literals of one and the same integer kind k, whatever k: 64-bit wrap-around
   followed by the conversion to k equals wrap-around arithmetic in k *)
Lemma fold_add_sound : forall a a1 a2 k x y ctx s,
  akind a1 = RKNum k -> akind a2 = RKNum k -> is_intkind k = true ->
  ev ctx (fst (fold (int_redex a BAdd a1 x a2 y))) s = ev ctx (int_redex a BAdd a1 x a2 y) s.
Proof.
  intros a a1 a2 k x y ctx s H1 H2 Hk. rewrite ev_int_redex by reflexivity.
  cbn [int_redex fold_v int_lit fold_int_bin fst patch_ty set_ann bin_strict]. rewrite ev_int, H1, int_const_mk by auto.
  rewrite (int_const_int a1 k x H1 Hk), (int_const_int a2 k y H2 Hk), p_helper_ints, go_op_int by auto.
  cbn [helper_op of_nres lift]. unfold iv. rewrite wrap_add_hom by auto. reflexivity.
Qed.

Lemma fold_sub_sound : forall a a1 a2 k x y ctx s,
  akind a1 = RKNum k -> akind a2 = RKNum k -> is_intkind k = true ->
  ev ctx (fst (fold (int_redex a BSub a1 x a2 y))) s = ev ctx (int_redex a BSub a1 x a2 y) s.
Proof.
  intros a a1 a2 k x y ctx s H1 H2 Hk. rewrite ev_int_redex by reflexivity.
  cbn [int_redex fold_v int_lit fold_int_bin fst patch_ty set_ann bin_strict]. rewrite ev_int, H1, int_const_mk by auto.
  rewrite (int_const_int a1 k x H1 Hk), (int_const_int a2 k y H2 Hk), p_helper_ints, go_op_int by auto.
  cbn [helper_op of_nres lift]. unfold iv. rewrite wrap_sub_hom by auto. reflexivity.
Qed.

Lemma fold_mul_sound : forall a a1 a2 k x y ctx s,
  akind a1 = RKNum k -> akind a2 = RKNum k -> is_intkind k = true ->
  ev ctx (fst (fold (int_redex a BMul a1 x a2 y))) s = ev ctx (int_redex a BMul a1 x a2 y) s.
Proof.
  intros a a1 a2 k x y ctx s H1 H2 Hk. rewrite ev_int_redex by reflexivity.
  cbn [int_redex fold_v int_lit fold_int_bin fst patch_ty set_ann bin_strict]. rewrite ev_int, H1, int_const_mk by auto.
  rewrite (int_const_int a1 k x H1 Hk), (int_const_int a2 k y H2 Hk), p_helper_ints, go_op_int by auto.
  cbn [helper_op of_nres lift]. unfold iv. rewrite wrap_mul_hom by auto. reflexivity.
Qed.

(* / on literals of kind int or int64: truncated quotient; a zero divisor is REJECTED by the
   optimizer exactly where the unoptimized program fails at run time *)
Lemma fold_div_sound : forall a a1 a2 k x y ctx s,
  akind a1 = RKNum k -> akind a2 = RKNum k -> int64_kind k = true ->
  (iv y = 0 -> snd (fold (int_redex a BDiv a1 x a2 y)) = acc_err (aloc a) /\
               ev ctx (int_redex a BDiv a1 x a2 y) s = Stop EDivZero (aloc a) s) /\
  (iv y <> 0 -> snd (fold (int_redex a BDiv a1 x a2 y)) = acc_applied /\
               ev ctx (fst (fold (int_redex a BDiv a1 x a2 y))) s = ev ctx (int_redex a BDiv a1 x a2 y) s).
Proof.
  intros a a1 a2 k x y ctx s H1 H2 Hk64. pose proof (int64_intkind k Hk64) as Hk.
  rewrite ev_int_redex by reflexivity.
  cbn [int_redex fold_v int_lit fold_int_bin bin_strict]. rewrite H1, H2.
  replace (is_float_kind (RKNum k)) with false by (destruct k; try discriminate; reflexivity). cbn [orb].
  rewrite (int_const_int a1 k x H1 Hk), (int_const_int a2 k y H2 Hk), p_helper_ints, go_op_int by auto.
  cbn [helper_op]. rewrite !(wrap_int64 k) by auto. fold (iv x) (iv y). split; intros Hy.
  - rewrite Hy. cbn [Z.eqb snd of_nres lift]. auto.
  - destruct (Z.eqb_spec (iv y) 0) as [E|_]; [contradiction|].
    cbn [snd fst patch_ty set_ann of_nres lift]. split; [reflexivity|]. rewrite ev_int, int_const_mk by auto.
    rewrite !(wrap_int64 k), wrap_idem by auto. reflexivity.
Qed.

(* % : the folded literal takes the type of the `%` node *)
Lemma fold_mod_sound : forall a a1 a2 k x y ctx s,
  akind a = RKNum k -> akind a1 = RKNum k -> akind a2 = RKNum k -> int64_kind k = true ->
  (iv y = 0 -> snd (fold (int_redex a BMod a1 x a2 y)) = acc_err (aloc a) /\
               ev ctx (int_redex a BMod a1 x a2 y) s = Stop EDivZero (aloc a) s) /\
  (iv y <> 0 -> snd (fold (int_redex a BMod a1 x a2 y)) = acc_applied /\
               ev ctx (fst (fold (int_redex a BMod a1 x a2 y))) s = ev ctx (int_redex a BMod a1 x a2 y) s).
Proof.
  intros a a1 a2 k x y ctx s H0 H1 H2 Hk64. pose proof (int64_intkind k Hk64) as Hk.
  rewrite ev_int_redex by reflexivity.
  cbn [int_redex fold_v int_lit fold_int_bin bin_strict].
  rewrite (int_const_int a1 k x H1 Hk), (int_const_int a2 k y H2 Hk), p_helper_ints, go_op_int by auto.
  cbn [helper_op]. rewrite !(wrap_int64 k) by auto. fold (iv x) (iv y). split; intros Hy.
  - rewrite Hy. cbn [Z.eqb snd of_nres lift]. auto.
  - destruct (Z.eqb_spec (iv y) 0) as [E|_]; [contradiction|].
    cbn [snd fst patch set_ann ann_of of_nres lift]. split; [reflexivity|]. rewrite ev_int.
    rewrite (int_const_int a k _ H0 Hk), !(wrap_int64 k), wrap_idem by auto. reflexivity.
Qed.

(* ** : math.Pow on the two literals converted to float64 (math.Pow = the f_pow oracle) *)
Lemma fold_pow_sound : forall a a1 a2 k x y ctx s,
  akind a1 = RKNum k -> akind a2 = RKNum k -> int64_kind k = true ->
  ev ctx (fst (fold (int_redex a BPow a1 x a2 y))) s = ev ctx (int_redex a BPow a1 x a2 y) s.
Proof.
  intros a a1 a2 k x y ctx s H1 H2 Hk64. pose proof (int64_intkind k Hk64) as Hk.
  rewrite ev_int_redex by reflexivity.
  cbn [int_redex fold_v int_lit fold_int_bin fst patch set_ann ann_of bin_strict]. rewrite ev_float.
  rewrite (int_const_int a1 k x H1 Hk), (int_const_int a2 k y H2 Hk), !(wrap_int64 k) by auto.
  unfold to_float64, convert. cbn [is_float fround lift]. reflexivity.
Qed.

Lemma fold_string_concat_sound : forall a a1 a2 x y ctx s,
  ev ctx (fst (fold (EBinary a BAdd (EStr a1 x) (EStr a2 y)))) s = ev ctx (EBinary a BAdd (EStr a1 x) (EStr a2 y)) s.
Proof.
  intros. rewrite ev_binary. cbn [is_or is_and fold_v int_lit str_lit fst patch set_ann ann_of bin_strict].
  rewrite !ev_str. reflexivity.
Qed.

End Rewrites.

(* ================================================================== Part 4b: trees, children, invariants *)
Fixpoint intlike (e : expr) : bool :=
  match e with
  | EInt _ _ => true
  | EUnary _ (UPlus | UMinus) x => intlike x
  | EBinary _ (BAdd | BSub | BMul | BDiv | BMod) l r => intlike l && intlike r
  | _ => false
  end.

Fixpoint strlike (e : expr) : bool :=
  match e with
  | EStr _ _ => true
  | EBinary _ BAdd l r => strlike l && strlike r
  | _ => false
  end.

Definition is_lit (e : expr) : bool := match e with EInt _ _ => true | _ => false end.
Definition is_range (e : expr) : bool := match e with EBinary _ BRange _ _ => true | _ => false end.

(* expressions whose evaluation neither calls an environment function nor allocates: evaluating
   them twice is unobservable (side condition of the in_range rewrite) *)
Fixpoint simple (e : expr) : bool :=
  match e with
  | ENil _ | EIdent _ _ _ | EInt _ _ | EFloat _ _ | EBool _ _ | EStr _ _ | EConst _ _ | EPointer _ => true
  | EUnary _ _ x => simple x
  | EBinary _ op l r => negb (match op with BRange => true | _ => false end) && simple l && simple r
  | EProperty _ x _ _ => simple x
  | EIndex _ x i => simple x && simple i
  | ECond _ c x y => simple c && simple x && simple y
  | _ => false
  end.
Definition kint (e : expr) : bool := rkind_eqb (kind_of e) (RKNum KInt).

(* replace the children of a node, positionally *)
Definition rebuild (n : expr) (cs : list expr) : expr :=
  match n, cs with
  | EUnary a op _, [x] => EUnary a op x
  | EBinary a op _ _, [l; r] => EBinary a op l r
  | EMatches a re _ _, [l; r] => EMatches a re l r
  | EProperty a _ nm s, [x] => EProperty a x nm s
  | EIndex a _ _, [x; i] => EIndex a x i
  | ESlice a _ None None, [x] => ESlice a x None None
  | ESlice a _ (Some _) None, [x; f] => ESlice a x (Some f) None
  | ESlice a _ None (Some _), [x; t] => ESlice a x None (Some t)
  | ESlice a _ (Some _) (Some _), [x; f; t] => ESlice a x (Some f) (Some t)
  | EMethod a _ nm _ s, x :: args => EMethod a x nm args s
  | EFunction a nm _ fast, args => EFunction a nm args fast
  | EBuiltin a b _, args => EBuiltin a b args
  | EClosure a _, [x] => EClosure a x
  | ECond a _ _ _, [c; x; y] => ECond a c x y
  | EArray a _, es => EArray a es
  | EMap a _, ps => EMap a ps
  | EPair a _ _, [k; v] => EPair a k v
  | _, _ => n
  end.

Lemma rebuild_children n : rebuild n (children n) = n.
Proof. destruct n; try reflexivity. destruct from, to; reflexivity. Qed.

Fixpoint subterms (e : expr) : list expr :=
  let sl := fix sl (l : list expr) : list expr := match l with [] => [] | x :: r => subterms x ++ sl r end in
  e :: match e with
       | ENil _ | EIdent _ _ _ | EInt _ _ | EFloat _ _ | EBool _ _ | EStr _ _ | EConst _ _ | EPointer _ => []
       | EUnary _ _ x | EProperty _ x _ _ | EClosure _ x => subterms x
       | EBinary _ _ l r | EMatches _ _ l r | EIndex _ l r | EPair _ l r => subterms l ++ subterms r
       | ESlice _ x f t => subterms x ++ match f with Some y => subterms y | None => [] end
                                       ++ match t with Some y => subterms y | None => [] end
       | EMethod _ x _ args _ => subterms x ++ sl args
       | EFunction _ _ args _ | EBuiltin _ _ args | EArray _ args | EMap _ args => sl args
       | ECond _ c x y => subterms c ++ subterms x ++ subterms y
       end.

Lemma sl_flat_map (l : list expr) :
  (fix sl (l : list expr) : list expr := match l with [] => [] | x :: r => subterms x ++ sl r end) l = flat_map subterms l.
Proof. induction l as [|x r IH]; [reflexivity|]. cbn [flat_map]. rewrite <- IH. reflexivity. Qed.

Lemma subterms_children e : subterms e = e :: flat_map subterms (children e).
Proof.
  destruct e; cbn [subterms children flat_map]; rewrite ?sl_flat_map, ?app_nil_r; try reflexivity.
  all: try (destruct from, to; cbn [opt_list flat_map app]; rewrite ?app_nil_r; reflexivity).
  all: try (rewrite app_assoc_reverse; reflexivity).
Qed.

Definition allsub (p : expr -> bool) (e : expr) : bool := forallb p (subterms e).

Lemma allsub_node p e : allsub p e = p e && forallb (allsub p) (children e).
Proof.
  unfold allsub. rewrite subterms_children. cbn [forallb]. f_equal.
  induction (children e) as [|c r IH]; [reflexivity|]. cbn [flat_map forallb]. rewrite forallb_app, IH. reflexivity.
Qed.

Lemma esize_child e c : In c (children e) -> (esize c < esize e)%nat.
Proof.
  assert (L : forall (l : list expr) c, In c l -> (esize c <= lsize l)%nat).
  { induction l as [|x r IH]; intros c0 H; [destruct H|]. destruct H as [<-|H]; cbn [lsize]; [lia|]. specialize (IH _ H). lia. }
  destruct e; cbn [children]; intros H; try contradiction.
  - destruct H as [<-|[]]. cbn. lia.
  - destruct H as [<-|[<-|[]]]; cbn; lia.
  - destruct H as [<-|[<-|[]]]; cbn; lia.
  - destruct H as [<-|[]]. cbn. lia.
  - destruct H as [<-|[<-|[]]]; cbn; lia.
  - destruct H as [<-|H]; [cbn; lia|]. apply in_app_or in H.
    destruct from as [f|], to as [t|]; cbn [opt_list] in H; cbn [esize];
      destruct H as [H|H]; try contradiction; destruct H as [<-|[]]; lia.
  - destruct H as [<-|H]; [cbn; lia|]. apply L in H. change (esize (EMethod a e name args nilsafe)) with (S (esize e + lsize args)). lia.
  - apply L in H. change (esize (EFunction a name args fast)) with (S (lsize args)). lia.
  - apply L in H. change (esize (EBuiltin a b args)) with (S (lsize args)). lia.
  - destruct H as [<-|[]]. cbn. lia.
  - destruct H as [<-|[<-|[<-|[]]]]; cbn; lia.
  - apply L in H. change (esize (EArray a es)) with (S (lsize es)). lia.
  - apply L in H. change (esize (EMap a pairs)) with (S (lsize pairs)). lia.
  - destruct H as [<-|[<-|[]]]; cbn; lia.
Qed.

Lemma expr_children_ind (P : expr -> Prop) :
  (forall e, (forall c, In c (children e) -> P c) -> P e) -> forall e, P e.
Proof.
  intros H e. remember (esize e) as n eqn:En. revert e En.
  induction n as [n IH] using lt_wf_ind. intros e ->. apply H. intros c Hc. eapply IH; [apply esize_child; exact Hc|reflexivity].
Qed.

(* ---- the syntactic side conditions of the global theorem (decidable) ---- *)
Definition lit_child_ok (c : expr) : bool := negb (is_lit c) || kint c.
Definition is_call (n : expr) : bool := match n with EFunction _ _ _ _ | EMethod _ _ _ _ _ => true | _ => false end.

(* an array literal the fold pass will (eventually) turn into a typed slice constant *)
Definition foldable_array (e : expr) : bool :=
  match e with
  | EArray _ es => negb (is_nil_list es) && (forallb intlike es || forallb strlike es)
  | _ => false
  end.

(* integer literals keep the static type int wherever the optimizer reads their value: every
   constant-integer expression (and every literal that is not a call argument) is of kind int *)
Definition wt_node (n : expr) : bool :=
  (negb (intlike n) || is_lit n || kint n) && (is_call n || forallb lit_child_ok (children n)).

(* integer literals passed to a ConstExpr function keep the static type int; the call is an ordinary
   (reflect) call, not the fast path for func(...interface{}) interface{} *)
Definition cx_node (cn : list string) (n : expr) : bool :=
  match n with
  | EFunction _ name args fast => negb (is_const_fn cn name) || (negb fast && forallb lit_child_ok args)
  | _ => true
  end.

Definition good_node (cn : list string) (n : expr) : bool :=
  wt_node n && cx_node cn n && forallb (fun c => negb (foldable_array c)) (children n).

Definition good (cn : list string) (e : expr) : bool := allsub (good_node cn) e && negb (foldable_array e).

Lemma good_inv cn e : good cn e = true ->
  good_node cn e = true /\ foldable_array e = false /\ forall c, In c (children e) -> good cn c = true.
Proof.
  unfold good. rewrite allsub_node. intros H. apply andb_prop in H. destruct H as [H Hf].
  apply andb_prop in H. destruct H as [Hn Hc]. apply negb_true_iff in Hf. repeat split; auto.
  intros c Hin. rewrite forallb_forall in Hc. rewrite (Hc _ Hin). cbn.
  unfold good_node in Hn. apply andb_prop in Hn. destruct Hn as [_ Hn]. rewrite forallb_forall in Hn. exact (Hn _ Hin).
Qed.

Lemma good_intro cn e : good_node cn e = true -> foldable_array e = false ->
  (forall c, In c (children e) -> good cn c = true) -> good cn e = true.
Proof.
  intros Hn Hf Hc. unfold good. rewrite allsub_node, Hn, Hf. cbn. rewrite andb_true_r.
  apply forallb_forall. intros c Hin. specialize (Hc _ Hin). unfold good in Hc. apply andb_prop in Hc. tauto.
Qed.

(* ================================================================== Part 4c: congruence *)
Section Cong.
Variable fe : fenv.
Variable cfg : config.
Variable env : value.
Variable cn : list string.
Notation ev := (eval fe cfg env).
Notation "ro ≲ ru" := (rsim eq cn ro ru) (at level 70).

Lemma rbind_sim ro ru k' k :
  ro ≲ ru -> (forall v s' s, ssim cn s' s -> k' v s' ≲ k v s) -> rbind ro k' ≲ rbind ru k.
Proof.
  intros H Hk. destruct ru as [v s|e l s]; cbn in H.
  - destruct H as (v' & s' & -> & <- & S). cbn [rbind]. apply Hk; exact S.
  - destruct H as [->|(s' & -> & S)]; cbn [rbind]; [left; reflexivity|]. right. eexists; eauto.
Qed.

Lemma lift_sim {A} l s' s (o : outcome A) k' k :
  ssim cn s' s -> (forall a, k' a ≲ k a) -> lift l s' o k' ≲ lift l s o k.
Proof. intros S Hk. destruct o; cbn [lift]; [apply Hk|apply rsim_Stop; exact S]. Qed.

Lemma alloc_sim l n s' s k' k :
  ssim cn s' s -> (forall t' t, ssim cn t' t -> k' t' ≲ k t) -> alloc cfg l n s' k' ≲ alloc cfg l n s k.
Proof.
  intros [Sm St] Hk. unfold alloc. destruct (c_limit cfg <=? r_mem s + n) eqn:E.
  - left. reflexivity.
  - apply Z.leb_gt in E. destruct (c_limit cfg <=? r_mem s' + n) eqn:E'; [apply Z.leb_le in E'; lia|].
    apply Hk. split; cbn; [lia|exact St].
Qed.

Lemma do_call_sim l fast id recv args s' s :
  ssim cn s' s -> do_call fe l fast id recv args s' ≲ do_call fe l fast id recv args s.
Proof.
  intros S. unfold do_call. destruct (fn_sig fe id) as [sg|]; [|apply rsim_Stop; exact S].
  pose proof (ssim_log cn s' s id args S) as SL.
  destruct fast.
  - destruct (s_fast sg); [|apply rsim_Stop; exact S].
    destruct (fn_run fe id recv args); [apply rsim_Done|apply rsim_Stop]; exact SL.
  - destruct (args_ok (s_ins sg) (s_variadic sg) args); [|apply rsim_Stop; exact S].
    destruct (fn_run fe id recv args); [|apply rsim_Stop; exact SL].
    destruct (s_nout sg =? 0); [apply rsim_Stop|apply rsim_Done]; exact SL.
Qed.

(* ---- loops ---- *)
Section LoopSim.
Variables body' body : Z -> rstate -> result.
Hypothesis Hbody : forall i t' t, ssim cn t' t -> body' i t' ≲ body i t.
Variable l : loc.

Lemma all_loop_sim n : forall i s' s, ssim cn s' s -> all_loop body' l n i s' ≲ all_loop body l n i s.
Proof.
  induction n as [|n IH]; intros i s' s S; cbn [all_loop]; [apply rsim_Done; exact S|].
  apply rbind_sim; [apply Hbody; exact S|]. intros v t' t St. apply lift_sim; [exact St|].
  intros b. destruct b; [apply IH; exact St|apply rsim_Done; exact St].
Qed.

Lemma none_loop_sim n : forall i s' s, ssim cn s' s -> none_loop body' l n i s' ≲ none_loop body l n i s.
Proof.
  induction n as [|n IH]; intros i s' s S; cbn [none_loop]; [apply rsim_Done; exact S|].
  apply rbind_sim; [apply Hbody; exact S|]. intros v t' t St. apply lift_sim; [exact St|].
  intros b. destruct b; [apply rsim_Done; exact St|apply IH; exact St].
Qed.

Lemma any_loop_sim n : forall i s' s, ssim cn s' s -> any_loop body' l n i s' ≲ any_loop body l n i s.
Proof.
  induction n as [|n IH]; intros i s' s S; cbn [any_loop]; [apply rsim_Done; exact S|].
  apply rbind_sim; [apply Hbody; exact S|]. intros v t' t St. apply lift_sim; [exact St|].
  intros b. destruct b; [apply rsim_Done; exact St|apply IH; exact St].
Qed.

Lemma count_loop_sim n : forall i c s' s k' k, ssim cn s' s ->
  (forall c t' t, ssim cn t' t -> k' c t' ≲ k c t) ->
  count_loop body' l n i c s' k' ≲ count_loop body l n i c s k.
Proof.
  induction n as [|n IH]; intros i c s' s k' k S Hk; cbn [count_loop]; [apply Hk; exact S|].
  apply rbind_sim; [apply Hbody; exact S|]. intros v t' t St. apply lift_sim; [exact St|].
  intros b. apply IH; [exact St|exact Hk].
Qed.

Lemma filter_loop_sim elem n : forall i acc s' s k' k, ssim cn s' s ->
  (forall xs t' t, ssim cn t' t -> k' xs t' ≲ k xs t) ->
  filter_loop body' l elem n i acc s' k' ≲ filter_loop body l elem n i acc s k.
Proof.
  induction n as [|n IH]; intros i acc s' s k' k S Hk; cbn [filter_loop]; [apply Hk; exact S|].
  apply rbind_sim; [apply Hbody; exact S|]. intros v t' t St. apply lift_sim; [exact St|].
  intros b. destruct b; [|apply IH; [exact St|exact Hk]].
  apply lift_sim; [exact St|]. intros x. apply IH; [exact St|exact Hk].
Qed.

Lemma map_loop_sim n : forall i acc s' s k' k, ssim cn s' s ->
  (forall xs t' t, ssim cn t' t -> k' xs t' ≲ k xs t) ->
  map_loop body' n i acc s' k' ≲ map_loop body n i acc s k.
Proof.
  induction n as [|n IH]; intros i acc s' s k' k S Hk; cbn [map_loop]; [apply Hk; exact S|].
  apply rbind_sim; [apply Hbody; exact S|]. intros v t' t St. apply IH; [exact St|exact Hk].
Qed.
End LoopSim.

(* ---- the relation between an optimized sub-tree e' and the sub-tree e it replaces ---- *)
Definition sem_sim (e' e : expr) : Prop :=
  forall ctx s' s, ssim cn s' s -> ev ctx e' s' ≲ ev ctx e s.

Record esim0 (e' e : expr) : Prop := mkEsim0 {
  es_kind : kind_of e' = kind_of e;
  es_int : intlike e' = true -> intlike e = true;
  es_str : strlike e' = true -> strlike e = true;
  es_rng : is_range e' = true -> is_range e = true;
  es_simple : simple e = true -> simple e' = true;
  es_good : good cn e = true -> good cn e' = true;
  es_sem : sem_sim e' e
}.

Definition as_pair (e : expr) : option (expr * expr) := match e with EPair _ k v => Some (k, v) | _ => None end.

Definition pair_rel (e' e : expr) : Prop :=
  match as_pair e', as_pair e with
  | Some (k', v'), Some (k, v) => esim0 k' k /\ esim0 v' v
  | None, None => True
  | _, _ => False
  end.

(* an array literal on the optimized side stands for an array literal with related elements *)
Definition arr_rel (e' e : expr) : Prop :=
  forall aa es', e' = EArray aa es' -> exists es, e = EArray aa es /\ Forall2 esim0 es' es.

Definition esim (e' e : expr) : Prop := esim0 e' e /\ pair_rel e' e /\ arr_rel e' e.

Definition rel1 (n' n : expr) : Prop := exists cs, n' = rebuild n cs /\ Forall2 esim cs (children n).

Lemma ev_list_sim ctx es' es : Forall2 esim es' es -> forall s' s k' k, ssim cn s' s ->
  (forall vs t' t, ssim cn t' t -> k' vs t' ≲ k vs t) -> ev_list fe cfg env ctx es' s' k' ≲ ev_list fe cfg env ctx es s k.
Proof.
  induction 1 as [|x' x r' r Hx Hr IH]; intros s' s k' k S Hk.
  - rewrite !ev_list_nil. apply Hk; exact S.
  - rewrite !ev_list_cons. apply rbind_sim; [apply Hx; exact S|].
    intros v t' t St. apply IH; [exact St|]. intros vs u' u Su. apply Hk; exact Su.
Qed.

Lemma ev_pairs_cons ctx here p r s k :
  ev_pairs fe cfg env ctx here (p :: r) s k =
  match as_pair p with
  | Some (kx, vx) =>
      rbind (ev ctx kx s) (fun vk s1 => rbind (ev ctx vx s1) (fun vv s2 =>
      ev_pairs fe cfg env ctx here r s2 (fun kvs s3 => k ((vk, vv) :: kvs) s3)))
  | None => Stop EOther here s
  end.
Proof. destruct p; reflexivity. Qed.

Lemma ev_pairs_sim ctx here ps' ps : Forall2 esim ps' ps -> forall s' s k' k, ssim cn s' s ->
  (forall kvs t' t, ssim cn t' t -> k' kvs t' ≲ k kvs t) ->
  ev_pairs fe cfg env ctx here ps' s' k' ≲ ev_pairs fe cfg env ctx here ps s k.
Proof.
  induction 1 as [|p' p r' r Hp Hr IH]; intros s' s k' k S Hk.
  - cbn. apply Hk; exact S.
  - rewrite !ev_pairs_cons. destruct Hp as [_ [Hp _]]. unfold pair_rel in Hp.
    destruct (as_pair p') as [[k1' v1']|], (as_pair p) as [[k1 v1]|]; try contradiction.
    + destruct Hp as [Hk1 Hv1]. apply rbind_sim; [apply Hk1; exact S|]. intros vk t' t St.
      apply rbind_sim; [apply Hv1; exact St|]. intros vv u' u Su. apply IH; [exact Su|].
      intros kvs w' w Sw. apply Hk; exact Sw.
    + apply rsim_Stop; exact S.
Qed.

Lemma bin_strict_sim here op l' r' l r va vb s' s :
  kind_of l' = kind_of l -> kind_of r' = kind_of r -> ssim cn s' s ->
  bin_strict here fe cfg op l' r' va vb s' ≲ bin_strict here fe cfg op l r va vb s.
Proof.
  intros Kl Kr S. unfold bin_strict, both_kind. rewrite Kl, Kr.
  assert (D : forall v t' t, ssim cn t' t -> Done v t' ≲ Done v t) by (intros; apply rsim_Done; assumption).
  destruct op; try (apply rsim_Stop; exact S).
  - destruct (rkind_eqb (kind_of l) (RKNum KInt) && rkind_eqb (kind_of r) (RKNum KInt)).
    + apply lift_sim; [exact S|]. intros x. apply lift_sim; [exact S|]. intros y. apply D; exact S.
    + destruct (rkind_eqb (kind_of l) RKString && rkind_eqb (kind_of r) RKString).
      * apply lift_sim; [exact S|]. intros x. apply lift_sim; [exact S|]. intros y. apply D; exact S.
      * apply lift_sim; [exact S|]. intros x. apply D; exact S.
  - apply lift_sim; [exact S|]. intros x. apply lift_sim; [exact S|]. intros y. apply D; exact S.
  - apply lift_sim; [exact S|]. intros x. apply D; exact S.
  - apply lift_sim; [exact S|]. intros x. apply D; exact S.
  - apply lift_sim; [exact S|]. intros x. apply D; exact S.
  - apply lift_sim; [exact S|]. intros x. apply D; exact S.
  - apply lift_sim; [exact S|]. intros x. apply D; exact S.
  - apply lift_sim; [exact S|]. intros x. apply D; exact S.
  - apply lift_sim; [exact S|]. intros x. apply lift_sim; [exact S|]. intros y. apply D; exact S.
  - apply lift_sim; [exact S|]. intros x. apply lift_sim; [exact S|]. intros y. apply D; exact S.
  - apply lift_sim; [exact S|]. intros x. apply lift_sim; [exact S|]. intros y. apply D; exact S.
  - apply lift_sim; [exact S|]. intros x. apply lift_sim; [exact S|]. intros y.
    destruct (range_size x y); [|left; reflexivity].
    apply alloc_sim; [exact S|]. intros t' t St. apply D; exact St.
  - apply lift_sim; [exact S|]. intros x. apply D; exact S.
  - apply lift_sim; [exact S|]. intros x. apply D; exact S.
  - apply lift_sim; [exact S|]. intros x. apply D; exact S.
  - apply lift_sim; [exact S|]. intros x. apply D; exact S.
  - apply lift_sim; [exact S|]. intros x. apply D; exact S.
  - apply lift_sim; [exact S|]. intros x. apply lift_sim; [exact S|]. intros y. apply D; exact S.
Qed.

(* ---- syntactic facts about rebuild ---- *)
Lemma Forall2_len {A B} (R : A -> B -> Prop) l1 l2 : Forall2 R l1 l2 -> List.length l1 = List.length l2.
Proof. induction 1; cbn; congruence. Qed.

Ltac inv_f2 :=
  repeat match goal with
  | H : Forall2 _ _ (_ :: _) |- _ => inversion H; clear H; subst
  | H : Forall2 _ _ [] |- _ => inversion H; clear H; subst
  | H : Forall2 _ _ (opt_list _ ++ opt_list _) |- _ => cbn [opt_list app] in H
  end.

Ltac prep_children H n :=
  destruct n; cbn [children] in H;
  try match goal with |- context[ESlice _ _ ?f ?t] => destruct f, t; cbn [opt_list app] in H end;
  inv_f2.

Lemma rebuild_ann n cs : Forall2 esim cs (children n) -> ann_of (rebuild n cs) = ann_of n.
Proof. intros H. prep_children H n; reflexivity. Qed.

Lemma rebuild_as_pair n cs : Forall2 esim cs (children n) ->
  match as_pair n with
  | Some (k, v) => exists k' v', cs = [k'; v'] /\ as_pair (rebuild n cs) = Some (k', v') /\ esim k' k /\ esim v' v
  | None => as_pair (rebuild n cs) = None
  end.
Proof. intros H. prep_children H n; cbn [as_pair]; try reflexivity. eexists _, _. split; [reflexivity|]. split; [reflexivity|]. split; assumption. Qed.

Lemma rebuild_children_eq n cs : Forall2 esim cs (children n) -> children (rebuild n cs) = cs.
Proof. intros H. prep_children H n; reflexivity. Qed.

Lemma rebuild_intlike n cs : Forall2 esim cs (children n) -> intlike (rebuild n cs) = true -> intlike n = true.
Proof.
  intros H. prep_children H n; cbn [rebuild intlike]; auto.
  - destruct op; auto. all: match goal with E : esim _ _ |- _ => exact (es_int _ _ (proj1 E)) end.
  - destruct op; auto;
    intros Hb; apply andb_prop in Hb; destruct Hb as [Hb1 Hb2]; apply andb_true_intro; split;
    match goal with
    | E : esim ?a ?b, Hi : intlike ?a = true |- intlike ?b = true => exact (es_int _ _ (proj1 E) Hi)
    end.
Qed.

Lemma rebuild_strlike n cs : Forall2 esim cs (children n) -> strlike (rebuild n cs) = true -> strlike n = true.
Proof.
  intros H. prep_children H n; cbn [rebuild strlike]; auto.
  destruct op; auto;
    intros Hb; apply andb_prop in Hb; destruct Hb as [Hb1 Hb2]; apply andb_true_intro; split;
    match goal with
    | E : esim ?a ?b, Hi : strlike ?a = true |- strlike ?b = true => exact (es_str _ _ (proj1 E) Hi)
    end.
Qed.

Lemma rebuild_is_range n cs : Forall2 esim cs (children n) -> is_range (rebuild n cs) = is_range n.
Proof. intros H. prep_children H n; reflexivity. Qed.

Lemma rebuild_simple n cs : Forall2 esim cs (children n) -> simple n = true -> simple (rebuild n cs) = true.
Proof.
  intros H. prep_children H n; cbn [rebuild simple]; auto; intros Hs;
    repeat match goal with
    | Hx : _ && _ = true |- _ => apply andb_prop in Hx; destruct Hx
    end;
    repeat (apply andb_true_intro; split); auto;
    match goal with
    | E : esim ?a ?b, Hi : simple ?b = true |- simple ?a = true => exact (es_simple _ _ (proj1 E) Hi)
    end.
Qed.

Lemma rebuild_is_lit n cs : Forall2 esim cs (children n) -> is_lit (rebuild n cs) = is_lit n.
Proof. intros H. prep_children H n; reflexivity. Qed.

Lemma rebuild_is_call n cs : Forall2 esim cs (children n) -> is_call (rebuild n cs) = is_call n.
Proof. intros H. prep_children H n; reflexivity. Qed.

Lemma ev_nil ctx a s : ev ctx (ENil a) s = Done VNil s. Proof. reflexivity. Qed.
Lemma ev_bool ctx a b s : ev ctx (EBool a b) s = Done (VBool b) s. Proof. reflexivity. Qed.
Lemma ev_ident ctx a name ns s :
  ev ctx (EIdent a name ns) s = lift (aloc a) s (fetch_ident cfg env name ns) (fun v => Done v s).
Proof. reflexivity. Qed.
Lemma ev_pointer ctx a s :
  ev ctx (EPointer a) s =
  match ctx with
  | (arr, i) :: _ => lift (aloc a) s (p_fetch arr (vint i) false) (fun v => Done v s)
  | [] => Stop ECannotFetch (aloc a) s
  end.
Proof. reflexivity. Qed.

Lemma Forall2_In_l {A B} (R : A -> B -> Prop) l1 l2 x : Forall2 R l1 l2 -> In x l1 -> exists y, In y l2 /\ R x y.
Proof.
  induction 1 as [|a b r1 r2 Hab Hr IH]; intros Hin; [destruct Hin|].
  destruct Hin as [<-|Hin]; [exists b; split; [left; reflexivity|exact Hab]|].
  destruct (IH Hin) as (y & Hy & Rxy). exists y. split; [right; exact Hy|exact Rxy].
Qed.

Lemma is_lit_intlike c : is_lit c = true -> intlike c = true.
Proof. destruct c; try discriminate; reflexivity. Qed.

Lemma good_wt c : good cn c = true -> wt_node c = true.
Proof.
  intros H. apply good_inv in H. destruct H as (H & _ & _). unfold good_node in H.
  apply andb_prop in H. destruct H as [H _]. apply andb_prop in H. tauto.
Qed.

Lemma child_lit_ok c' c : esim c' c -> good cn c = true -> lit_child_ok c = true -> lit_child_ok c' = true.
Proof.
  intros [E _] G H. unfold lit_child_ok in *. destruct (is_lit c') eqn:L; [|reflexivity]. cbn [negb orb].
  pose proof (es_int _ _ E (is_lit_intlike _ L)) as Ic.
  unfold kint. rewrite (es_kind _ _ E). fold (kint c).
  destruct (is_lit c) eqn:Lc; [exact H|].
  pose proof (good_wt _ G) as W. unfold wt_node in W. apply andb_prop in W. destruct W as [W _].
  rewrite Ic, Lc in W. exact W.
Qed.

Lemma children_lit_ok cs es : Forall2 esim cs es -> (forall c, In c es -> good cn c = true) ->
  forallb lit_child_ok es = true -> forallb lit_child_ok cs = true.
Proof.
  induction 1 as [|c' c r' r Hc Hr IH]; intros G H; [reflexivity|]. cbn [forallb] in *.
  apply andb_prop in H. destruct H as [H1 H2]. apply andb_true_intro. split.
  - eapply child_lit_ok; eauto. apply G. left; reflexivity.
  - apply IH; auto. intros x Hx. apply G. right; exact Hx.
Qed.

Lemma forallb_transfer (p : expr -> bool) cs es :
  Forall2 (fun c' c => p c' = true -> p c = true) cs es -> forallb p cs = true -> forallb p es = true.
Proof.
  induction 1 as [|c' c r' r Hc Hr IH]; intros H; [reflexivity|]. cbn [forallb] in *.
  apply andb_prop in H. destruct H as [H1 H2]. rewrite (Hc H1), (IH H2). reflexivity.
Qed.

Lemma Forall2_weaken {A B} (R S : A -> B -> Prop) l1 l2 : (forall a b, R a b -> S a b) -> Forall2 R l1 l2 -> Forall2 S l1 l2.
Proof. intros H. induction 1; constructor; auto. Qed.

Lemma rebuild_foldable n cs : Forall2 esim cs (children n) -> foldable_array (rebuild n cs) = true -> foldable_array n = true.
Proof.
  intros H. prep_children H n; cbn [rebuild foldable_array]; try (intros; discriminate); try (intros; assumption).
  intros Hf. apply andb_prop in Hf. destruct Hf as [Hn Hf]. apply andb_true_intro. split.
  - destruct cs, es; auto; inversion H.
  - apply orb_prop in Hf. apply orb_true_intro. destruct Hf as [Hf|Hf].
    + left. revert Hf. apply forallb_transfer. eapply Forall2_weaken; [|exact H]. intros a0 b [E _]. apply (es_int _ _ E).
    + right. revert Hf. apply forallb_transfer. eapply Forall2_weaken; [|exact H]. intros a0 b [E _]. apply (es_str _ _ E).
Qed.

Lemma rebuild_good n cs : Forall2 esim cs (children n) -> good cn n = true -> good cn (rebuild n cs) = true.
Proof.
  intros H G. pose proof (good_inv _ _ G) as (Gn & Gf & Gc).
  assert (Gcs : forall c', In c' cs -> good cn c' = true).
  { intros c' Hin. destruct (Forall2_In_l _ _ _ _ H Hin) as (c & Hc & [E _]). apply (es_good _ _ E). apply Gc; exact Hc. }
  apply good_intro.
  - unfold good_node in *. apply andb_prop in Gn. destruct Gn as [Gn Gnf]. apply andb_prop in Gn. destruct Gn as [Gw Gx].
    rewrite (rebuild_children_eq _ _ H).
    assert (Hnf : forallb (fun c => negb (foldable_array c)) cs = true).
    { apply forallb_forall. intros c' Hin. specialize (Gcs _ Hin). unfold good in Gcs. apply andb_prop in Gcs. tauto. }
    rewrite Hnf, andb_true_r. apply andb_true_intro. split.
    + unfold wt_node in *. rewrite (rebuild_children_eq _ _ H), (rebuild_is_lit _ _ H), (rebuild_is_call _ _ H).
      apply andb_prop in Gw. destruct Gw as [G1 G2]. apply andb_true_intro. split.
      * unfold kint, kind_of. rewrite (rebuild_ann _ _ H). fold (kind_of n). fold (kint n).
        destruct (intlike (rebuild n cs)) eqn:I; [|reflexivity]. rewrite (rebuild_intlike _ _ H I) in G1. exact G1.
      * destruct (is_call n); [reflexivity|]. cbn [orb] in *. eapply children_lit_ok; eauto.
    + clear Gw Gnf Hnf. unfold cx_node in *. prep_children H n; cbn [rebuild]; auto.
      destruct (is_const_fn cn name); [|reflexivity]. cbn [negb orb] in *.
      apply andb_prop in Gx. destruct Gx as [Gx1 Gx2]. rewrite Gx1. cbn [andb]. eapply children_lit_ok; eauto.
  - destruct (foldable_array (rebuild n cs)) eqn:F; [|reflexivity]. rewrite (rebuild_foldable _ _ H F) in Gf. discriminate.
  - rewrite (rebuild_children_eq _ _ H). exact Gcs.
Qed.

(* ---- THE congruence: every node kind evaluates related children to related results ---- *)
Ltac sim_step :=
  match goal with
  | |- rsim eq _ (Done _ _) (Done _ _) => apply rsim_Done; assumption
  | |- rsim eq _ (Stop _ _ _) (Stop _ _ _) => apply rsim_Stop; assumption
  | |- rsim eq _ (lift _ _ _ _) (lift _ _ _ _) => apply lift_sim; [assumption|let x := fresh "lv" in intro x]
  | |- rsim eq _ (alloc _ _ _ _ _) (alloc _ _ _ _ _) => apply alloc_sim; [assumption|intros ? ? ?]
  | |- rsim eq _ (do_call _ _ _ _ _ _ _) (do_call _ _ _ _ _ _ _) => apply do_call_sim; assumption
  | E : esim ?a ?b |- rsim eq _ (eval _ _ _ _ ?a _) (eval _ _ _ _ ?b _) => apply (es_sem _ _ (proj1 E)); assumption
  | |- rsim eq _ (rbind _ _) (rbind _ _) => apply rbind_sim; [|intros ? ? ? ?]
  end.

Lemma builtin_body_sim ctx here b c' c v n s' s :
  esim c' c -> ssim cn s' s ->
  builtin_body fe cfg env ctx here b c' v n s' ≲ builtin_body fe cfg env ctx here b c v n s.
Proof.
  intros E S. unfold builtin_body.
  assert (B : forall i t' t, ssim cn t' t -> ev ((v, i) :: ctx) c' t' ≲ ev ((v, i) :: ctx) c t).
  { intros. apply (es_sem _ _ (proj1 E)); assumption. }
  destruct b.
  - apply rsim_Stop; exact S.
  - apply all_loop_sim; assumption.
  - apply none_loop_sim; assumption.
  - apply any_loop_sim; assumption.
  - apply count_loop_sim; [assumption|assumption|]. intros cnt t' t St. repeat sim_step.
  - apply filter_loop_sim; [assumption|assumption|]. intros xs t' t St. repeat sim_step.
  - apply map_loop_sim; [assumption|assumption|]. intros xs t' t St. repeat sim_step.
  - apply count_loop_sim; [assumption|assumption|]. intros cnt t' t St. repeat sim_step.
  - apply rsim_Stop; exact S.
Qed.

Lemma rebuild_sem n cs : Forall2 esim cs (children n) -> sem_sim (rebuild n cs) n.
Proof.
  intros H ctx s' s S. prep_children H n; cbn [rebuild].
  - rewrite !ev_nil. sim_step.
  - rewrite !ev_ident. repeat sim_step.
  - rewrite !ev_int. sim_step.
  - rewrite !ev_float. sim_step.
  - rewrite !ev_bool. sim_step.
  - rewrite !ev_str. sim_step.
  - rewrite !ev_const. sim_step.
  - (* unary *) rewrite !ev_unary. sim_step; [sim_step|]. destruct op; repeat sim_step.
  - (* binary *) rewrite !ev_binary.
    destruct (is_or op); [|destruct (is_and op)].
    + sim_step; [sim_step|]. sim_step. destruct lv; repeat sim_step.
    + sim_step; [sim_step|]. sim_step. destruct lv; repeat sim_step.
    + sim_step; [sim_step|]. sim_step; [sim_step|].
      apply bin_strict_sim; try assumption;
        match goal with E : esim ?a ?b |- kind_of ?a = kind_of ?b => exact (es_kind _ _ (proj1 E)) end.
  - (* matches *) rewrite !ev_matches.
    + sim_step; [sim_step|]. sim_step; [sim_step|]. sim_step. sim_step.
      destruct (re_match fe _ _); repeat sim_step.
  - (* property *) rewrite !ev_property. repeat sim_step.
  - (* index *) rewrite !ev_index. repeat sim_step.
  - (* slice: from, to *) rewrite !ev_slice. repeat sim_step.
  - rewrite !ev_slice. repeat sim_step.
  - rewrite !ev_slice. repeat sim_step.
  - rewrite !ev_slice. repeat sim_step.
  - (* method *) rewrite !ev_method. sim_step; [sim_step|].
    apply ev_list_sim; [assumption|assumption|]. intros vs t' t St.
    destruct nilsafe, v; cbn [andb]; try (destruct (fetch_fn_zero _ _)); repeat sim_step.
  - (* function *) rewrite !ev_function. apply ev_list_sim; [assumption|assumption|]. intros vs t' t St. repeat sim_step.
  - (* builtin *) rewrite !ev_builtin.
    destruct H as [|x' x r' r Hx Hr]; [destruct b; sim_step|].
    destruct Hr as [|c' c r2' r2 Hc Hr2].
    + destruct b; repeat sim_step.
    + destruct Hr2 as [|d' d r3' r3 Hd Hr3].
      * destruct b; cbn [is_loop_builtin]; try (sim_step; fail);
          (sim_step; [sim_step|]); sim_step; apply builtin_body_sim; assumption.
      * destruct b; sim_step.
  - (* closure *) rewrite !ev_closure. sim_step.
  - (* pointer *) rewrite !ev_pointer. destruct ctx as [|[arr i] ?]; repeat sim_step.
  - (* cond *) rewrite !ev_cond. sim_step; [sim_step|]. sim_step. destruct lv; sim_step.
  - (* array *) rewrite !ev_array. apply ev_list_sim; [assumption|assumption|]. intros vs t' t St. repeat sim_step.
  - (* map *) rewrite !ev_map. apply ev_pairs_sim; [assumption|assumption|]. intros kvs t' t St. repeat sim_step.
  - (* pair *) rewrite !ev_pair. sim_step.
Qed.

Lemma rel1_esim n' n : rel1 n' n -> esim n' n.
Proof.
  intros (cs & -> & H). split; [constructor|split].
  - unfold kind_of. rewrite (rebuild_ann _ _ H). reflexivity.
  - apply rebuild_intlike; exact H.
  - apply rebuild_strlike; exact H.
  - rewrite (rebuild_is_range _ _ H). auto.
  - apply rebuild_simple; exact H.
  - apply rebuild_good; exact H.
  - apply rebuild_sem; exact H.
  - unfold pair_rel. pose proof (rebuild_as_pair _ _ H) as P.
    destruct (as_pair n) as [[k v]|].
    + destruct P as (k' & v' & _ & -> & Ek & Ev). split; [exact (proj1 Ek)|exact (proj1 Ev)].
    + rewrite P. exact I.
  - intros aa es' E. clear -H E. prep_children H n; cbn [rebuild] in E; try discriminate.
    inversion E; subst. eexists. split; [reflexivity|]. eapply Forall2_weaken; [|exact H]. intros x y Hxy. exact (proj1 Hxy).
Qed.

Lemma esim_refl : forall e, esim e e.
Proof.
  apply expr_children_ind. intros e IH. apply rel1_esim. exists (children e). split; [symmetry; apply rebuild_children|].
  induction (children e) as [|c r IHr]; constructor; [apply IH; left; reflexivity|].
  apply IHr. intros x Hx. apply IH. right; exact Hx.
Qed.

(* the reference semantics is monotone in the accounted memory: corollary of the congruence *)
Lemma eval_mono e ctx s' s : ssim cn s' s -> ev ctx e s' ≲ ev ctx e s.
Proof. intros S. apply (es_sem _ _ (proj1 (esim_refl e))); exact S. Qed.

Lemma esim0_trans a b c : esim0 a b -> esim0 b c -> esim0 a c.
Proof.
  intros [K1 I1 S1 R1 P1 G1 M1] [K2 I2 S2 R2 P2 G2 M2]. constructor; auto; try congruence.
  intros ctx s' s S. eapply rsim_trans; [apply M1; apply ssim_refl|apply M2; exact S].
Qed.

Lemma esim_trans a b c : esim a b -> esim b c -> esim a c.
Proof.
  intros [E1 [P1 A1]] [E2 [P2 A2]]. split; [eapply esim0_trans; eauto|split].
  - unfold pair_rel in *. destruct (as_pair a) as [[k1 v1]|], (as_pair b) as [[k2 v2]|], (as_pair c) as [[k3 v3]|];
      try contradiction; auto.
    destruct P1, P2. split; eapply esim0_trans; eauto.
  - intros aa es1 Ea. destruct (A1 _ _ Ea) as (es2 & Eb & F12). destruct (A2 _ _ Eb) as (es3 & Ec & F23).
    exists es3. split; [exact Ec|]. clear -F12 F23. revert es3 F23.
    induction F12 as [|x y r1 r2 Hxy Hr IH]; intros es3 F23; inversion F23; subst; constructor.
    + eapply esim0_trans; eauto.
    + apply IH; assumption.
Qed.

End Cong.

(* ================================================================== Part 5: the passes *)
Ltac inv_f2 :=
  repeat match goal with
  | H : Forall2 _ _ (_ :: _) |- _ => inversion H; clear H; subst
  | H : Forall2 _ _ [] |- _ => inversion H; clear H; subst
  end.

Ltac prep_children H n :=
  destruct n; cbn [children] in H;
  try match goal with |- context[ESlice _ _ ?f ?t] => destruct f, t; cbn [opt_list app] in H end;
  inv_f2.

Lemma mp_list_eq f l :
  (fix mp_list (l : list expr) : list expr * acc :=
     match l with
     | [] => ([], acc0)
     | x :: r => let '(x', a1) := map_post f x in let '(r', a2) := mp_list r in (x' :: r', join a1 a2)
     end) l = map_post_list f l.
Proof. induction l as [|x r IH]; [reflexivity|]. cbn [map_post_list]. rewrite <- IH. reflexivity. Qed.

Lemma map_post_list_fst f l : fst (map_post_list f l) = map (fun c => fst (map_post f c)) l.
Proof.
  induction l as [|x r IH]; [reflexivity|]. cbn [map_post_list map].
  destruct (map_post f x) as [x' a1]. destruct (map_post_list f r) as [r' a2]. cbn [fst] in *. rewrite IH. reflexivity.
Qed.

Lemma map_post_fst (vis : visitor) e :
  fst (map_post vis e) = fst (vis (rebuild e (map (fun c => fst (map_post vis c)) (children e)))).
Proof.
  destruct e; cbn [map_post children map rebuild]; try reflexivity; rewrite ?mp_list_eq;
  try (destruct from as [fr|], to as [tt|]; cbn [opt_list app map rebuild]);
  repeat match goal with
       | |- context[map_post_list vis ?l] =>
           let H := fresh in pose proof (map_post_list_fst vis l) as H; destruct (map_post_list vis l); cbn [fst] in H; subst
       | |- context[let '(_, _) := map_post vis ?x in _] => destruct (map_post vis x); cbn [fst]
       | |- context[let '(_, _) := vis ?x in _] => destruct (vis x); cbn [fst]
       end; try reflexivity.
Qed.

Section Passes.
Variable fe : fenv.
Variable cfg : config.
Variable env : value.
Variable cn : list string.
Notation ev := (eval fe cfg env).
Notation "ro ≲ ru" := (rsim eq cn ro ru) (at level 70).
Notation esim := (esim fe cfg env cn).
Notation esim0 := (esim0 fe cfg env cn).
Notation rel1 := (rel1 fe cfg env cn).
Notation sem_sim := (sem_sim fe cfg env cn).

Lemma Forall_flat_map {A B} (P : B -> Prop) (g : A -> list B) l :
  Forall P (flat_map g l) -> forall x, In x l -> Forall P (g x).
Proof.
  induction l as [|a r IH]; intros H x Hin; [destruct Hin|]. cbn [flat_map] in H. apply Forall_app in H.
  destruct H as [H1 H2]. destruct Hin as [<-|Hin]; [exact H1|apply IH; assumption].
Qed.

(* a pass = one post-order walk with visitor f.  If f is sound at every node, given the node it
   is applied to (children already rewritten: n') and the original node n, the pass is sound. *)
Theorem map_post_esim (f : visitor) (Site : expr -> Prop) :
  (forall n' n, rel1 n' n -> good cn n = true -> Site n -> esim (fst (f n')) n) ->
  forall e, good cn e = true -> Forall Site (subterms e) -> esim (fst (map_post f e)) e.
Proof.
  intros Hloc. apply (expr_children_ind (fun e => good cn e = true -> Forall Site (subterms e) -> esim (fst (map_post f e)) e)).
  intros e IH G HS. rewrite map_post_fst. rewrite subterms_children in HS. inversion HS as [|? ? Hs Hsub]; subst.
  destruct (good_inv _ _ G) as (_ & _ & Gc).
  apply Hloc; [|exact G|exact Hs].
  exists (map (fun c => fst (map_post f c)) (children e)). split; [reflexivity|].
  assert (L : forall l, (forall c, In c l -> In c (children e)) -> Forall2 esim (map (fun c => fst (map_post f c)) l) l).
  { induction l as [|c r IHr]; intros Hl; cbn [map]; constructor.
    - apply IH; [apply Hl; left; reflexivity|apply Gc; apply Hl; left; reflexivity|].
      eapply Forall_flat_map; [exact Hsub|apply Hl; left; reflexivity].
    - apply IHr. intros x Hx. apply Hl. right; exact Hx. }
  apply L. auto.
Qed.

Theorem map_post_esim0 (f : visitor) (Site : expr -> Prop) :
  (forall n' n, rel1 n' n -> Site n -> esim (fst (f n')) n) ->
  forall e, Forall Site (subterms e) -> esim (fst (map_post f e)) e.
Proof.
  intros Hloc. apply (expr_children_ind (fun e => Forall Site (subterms e) -> esim (fst (map_post f e)) e)).
  intros e IH HS. rewrite map_post_fst. rewrite subterms_children in HS. inversion HS as [|? ? Hs Hsub]; subst.
  apply Hloc; [|exact Hs].
  exists (map (fun c => fst (map_post f c)) (children e)). split; [reflexivity|].
  assert (L : forall l, (forall c, In c l -> In c (children e)) -> Forall2 esim (map (fun c => fst (map_post f c)) l) l).
  { induction l as [|c r IHr]; intros Hl; cbn [map]; constructor.
    - apply IH; [apply Hl; left; reflexivity|]. eapply Forall_flat_map; [exact Hsub|apply Hl; left; reflexivity].
    - apply IHr. intros x Hx. apply Hl. right; exact Hx. }
  apply L. auto.
Qed.

Lemma esim_nonpair e' e : as_pair e' = None -> as_pair e = None -> arr_lit e' = None -> esim0 e' e -> esim e' e.
Proof.
  intros P1 P2 A E. split; [exact E|split].
  - unfold pair_rel. rewrite P1, P2. exact I.
  - intros aa es' ->. discriminate.
Qed.

Lemma esim_sem_eq e' n' n : (forall ctx s, ev ctx e' s = ev ctx n' s) -> esim n' n -> sem_sim e' n.
Proof. intros Heq [E _] ctx s' s S. rewrite Heq. apply (es_sem _ _ _ _ _ _ E); exact S. Qed.

(* good is about kinds: a leaf is good *)
Lemma good_leaf_int a z : good cn (EInt a z) = true. Proof. reflexivity. Qed.
Lemma good_leaf_const a v : good cn (EConst a v) = true. Proof. reflexivity. Qed.
Lemma good_leaf_str a v : good cn (EStr a v) = true. Proof. reflexivity. Qed.
Lemma good_leaf_float a v : good cn (EFloat a v) = true. Proof. reflexivity. Qed.

Lemma kint_eq e : kint e = true -> kind_of e = RKNum KInt.
Proof.
  unfold kint. destruct (kind_of e); try discriminate. cbn. intros H. f_equal. destruct k; try discriminate; reflexivity.
Qed.

(* a literal that replaced the child c of a non-call node n has kind int, and so has c *)
Lemma lit_child_kint (n : expr) a z c :
  esim (EInt a z) c -> good cn c = true -> lit_child_ok c = true -> akind a = RKNum KInt /\ kind_of c = RKNum KInt.
Proof.
  intros E G L. pose proof (child_lit_ok _ _ _ _ _ _ E G L) as H. unfold lit_child_ok in H. cbn [is_lit negb orb] in H.
  apply kint_eq in H. split; [exact H|]. rewrite <- (es_kind _ _ _ _ _ _ (proj1 E)). exact H.
Qed.

Lemma good_children_lit_ok n : good cn n = true -> is_call n = false -> forallb lit_child_ok (children n) = true.
Proof.
  intros G C. pose proof (good_wt _ _ G) as W. unfold wt_node in W. apply andb_prop in W. destruct W as [_ W].
  rewrite C in W. exact W.
Qed.

Lemma good_intlike_kint n : good cn n = true -> intlike n = true -> is_lit n = false -> kind_of n = RKNum KInt.
Proof.
  intros G I L. pose proof (good_wt _ _ G) as W. unfold wt_node in W. apply andb_prop in W. destruct W as [W _].
  rewrite I, L in W. apply kint_eq. exact W.
Qed.

(* ---------------- fold ---------------- *)
Lemma int_lit_inv x a z : int_lit x = Some (a, z) -> x = EInt a z.
Proof. destruct x; try discriminate. cbn. intros E; inversion E; reflexivity. Qed.
Lemma str_lit_inv x s : str_lit x = Some s -> exists a, x = EStr a s.
Proof. destruct x; try discriminate. cbn. intros E; inversion E; eauto. Qed.
Lemma all_ints_intlike es zs : all_ints es = Some zs -> forallb intlike es = true.
Proof.
  revert zs. induction es as [|x r IH]; intros zs H; [reflexivity|]. cbn [all_ints] in H. destruct x; try discriminate.
  destruct (all_ints r) eqn:E; [|discriminate]. cbn. eapply IH; reflexivity.
Qed.
Lemma all_strs_strlike es ss : all_strs es = Some ss -> forallb strlike es = true.
Proof.
  revert ss. induction es as [|x r IH]; intros ss H; [reflexivity|]. cbn [all_strs] in H. destruct x; try discriminate.
  destruct (all_strs r) eqn:E; [|discriminate]. cbn. eapply IH; reflexivity.
Qed.

Lemma leaf_esim e' n :
  as_pair e' = None -> as_pair n = None -> arr_lit e' = None -> kind_of e' = kind_of n ->
  (intlike e' = true -> intlike n = true) -> (strlike e' = true -> strlike n = true) ->
  is_range e' = false -> simple e' = true -> good cn e' = true -> sem_sim e' n -> esim e' n.
Proof.
  intros P1 P2 A K I S R Si G M. apply esim_nonpair; [exact P1|exact P2|exact A|]. constructor; auto.
  rewrite R. discriminate.
Qed.

Lemma lit_esim n' n l z' :
  esim n' n -> good cn n = true -> intlike n = true -> is_lit n = false -> as_pair n = None ->
  (forall ctx s, ev ctx (EInt (mkAnn l (RKNum KInt)) z') s = ev ctx n' s) ->
  esim (EInt (mkAnn l (RKNum KInt)) z') n.
Proof.
  intros Hdef G I L P Heq. apply esim_nonpair; [reflexivity|exact P|reflexivity|]. constructor.
  - symmetry. apply good_intlike_kint; assumption.
  - intros _. exact I.
  - discriminate.
  - discriminate.
  - reflexivity.
  - intros _. apply good_leaf_int.
  - eapply esim_sem_eq; eauto.
Qed.

Lemma fold_local n' n : rel1 n' n -> good cn n = true -> esim (fst (fold_v (f_pow fe) n')) n.
Proof.
  intros Hrel G. pose proof (rel1_esim _ _ _ _ _ _ Hrel) as Hdef. destruct Hrel as (cs & -> & H).
  destruct (good_inv _ _ G) as (_ & Gf & Gc).
  prep_children H n; cbn [rebuild] in *; cbn [fold_v]; try exact Hdef.
  - (* unary *)
    destruct (int_lit x) as [[ai z]|] eqn:L; [|exact Hdef]. apply int_lit_inv in L. subst x.
    pose proof (good_children_lit_ok _ G eq_refl) as Lc. cbn [children forallb] in Lc. rewrite andb_true_r in Lc.
    match goal with E : esim (EInt ai z) ?c |- _ =>
      destruct (lit_child_kint (EUnary a op c) _ _ _ E (Gc _ (or_introl eq_refl)) Lc) as [Ka Kc];
      pose proof (es_int _ _ _ _ _ _ (proj1 E) eq_refl) as Ic end.
    destruct op; try exact Hdef; cbn [fst patch_ty set_ann loc_of ann_of]; rewrite Ka.
    + apply (lit_esim _ _ _ _ Hdef G); [exact Ic|reflexivity|reflexivity|].
      intros ctx s. pose proof (fold_unary_sound fe cfg env a ai KInt z ctx s Ka eq_refl) as [_ E2].
      cbn [fold_v int_lit fst patch_ty set_ann loc_of ann_of] in E2. rewrite Ka in E2. exact E2.
    + apply (lit_esim _ _ _ _ Hdef G); [exact Ic|reflexivity|reflexivity|].
      intros ctx s. pose proof (fold_unary_sound fe cfg env a ai KInt z ctx s Ka eq_refl) as [E1 _].
      cbn [fold_v int_lit fst patch_ty set_ann loc_of ann_of] in E1. rewrite Ka in E1. exact E1.
  - (* binary *)
    pose proof (good_children_lit_ok _ G eq_refl) as Lc. cbn [children forallb] in Lc. rewrite andb_true_r in Lc.
    apply andb_prop in Lc. destruct Lc as [Lc1 Lc2].
    destruct (int_lit x) as [[a1 z1]|] eqn:L1; [destruct (int_lit x0) as [[a2 z2]|] eqn:L2|].
    + apply int_lit_inv in L1. apply int_lit_inv in L2. subst x x0.
      match goal with E1 : esim (EInt a1 z1) ?c1, E2 : esim (EInt a2 z2) ?c2 |- _ =>
        destruct (lit_child_kint (EBinary a op c1 c2) _ _ _ E1 (Gc _ (or_introl eq_refl)) Lc1) as [Ka1 Kc1];
        destruct (lit_child_kint (EBinary a op c1 c2) _ _ _ E2 (Gc _ (or_intror (or_introl eq_refl))) Lc2) as [Ka2 Kc2];
        pose proof (es_int _ _ _ _ _ _ (proj1 E1) eq_refl) as I1;
        pose proof (es_int _ _ _ _ _ _ (proj1 E2) eq_refl) as I2 end.
      destruct op; try exact Hdef; cbn [fold_int_bin].
      * (* + *) cbn [fst patch_ty set_ann loc_of ann_of]. rewrite Ka1.
        apply (lit_esim _ _ _ _ Hdef G); [cbn; rewrite I1, I2; reflexivity|reflexivity|reflexivity|].
        intros ctx s. pose proof (fold_add_sound fe cfg env a a1 a2 KInt z1 z2 ctx s Ka1 Ka2 eq_refl) as E.
        cbn [int_redex fold_v int_lit fold_int_bin fst patch_ty set_ann loc_of ann_of] in E. rewrite Ka1 in E. exact E.
      * (* - *) cbn [fst patch_ty set_ann loc_of ann_of]. rewrite Ka1.
        apply (lit_esim _ _ _ _ Hdef G); [cbn; rewrite I1, I2; reflexivity|reflexivity|reflexivity|].
        intros ctx s. pose proof (fold_sub_sound fe cfg env a a1 a2 KInt z1 z2 ctx s Ka1 Ka2 eq_refl) as E.
        cbn [int_redex fold_v int_lit fold_int_bin fst patch_ty set_ann loc_of ann_of] in E. rewrite Ka1 in E. exact E.
      * (* * *) cbn [fst patch_ty set_ann loc_of ann_of]. rewrite Ka1.
        apply (lit_esim _ _ _ _ Hdef G); [cbn; rewrite I1, I2; reflexivity|reflexivity|reflexivity|].
        intros ctx s. pose proof (fold_mul_sound fe cfg env a a1 a2 KInt z1 z2 ctx s Ka1 Ka2 eq_refl) as E.
        cbn [int_redex fold_v int_lit fold_int_bin fst patch_ty set_ann loc_of ann_of] in E. rewrite Ka1 in E. exact E.
      * (* / *) rewrite Ka1, Ka2. cbn [is_float_kind orb].
        destruct (Z.eqb_spec (iv z2) 0) as [Z0|Z0]; [exact Hdef|].
        cbn [fst patch_ty set_ann loc_of ann_of].
        apply (lit_esim _ _ _ _ Hdef G); [cbn; rewrite I1, I2; reflexivity|reflexivity|reflexivity|].
        intros ctx s. pose proof (fold_div_sound fe cfg env a a1 a2 KInt z1 z2 ctx s Ka1 Ka2 eq_refl) as [_ E].
        destruct (E Z0) as [_ E']. cbn [int_redex fold_v int_lit fold_int_bin] in E'. rewrite Ka1, Ka2 in E'. cbn [is_float_kind orb] in E'.
        destruct (Z.eqb_spec (iv z2) 0) as [Z1|_]; [contradiction|]. cbn [fst patch_ty set_ann loc_of ann_of] in E'. exact E'.
      * (* % *)
        destruct (Z.eqb_spec (iv z2) 0) as [Z0|Z0]; [exact Hdef|].
        assert (Kn : akind a = RKNum KInt).
        { apply (good_intlike_kint _ G); [cbn; rewrite I1, I2; reflexivity|reflexivity]. }
        cbn [fst patch set_ann ann_of]. destruct a as [la ka]. cbn [akind] in Kn. subst ka.
        apply (lit_esim _ _ _ _ Hdef G); [cbn; rewrite I1, I2; reflexivity|reflexivity|reflexivity|].
        intros ctx s. pose proof (fold_mod_sound fe cfg env (mkAnn la (RKNum KInt)) a1 a2 KInt z1 z2 ctx s eq_refl Ka1 Ka2 eq_refl) as [_ E].
        destruct (E Z0) as [_ E']. cbn [int_redex fold_v int_lit fold_int_bin] in E'.
        destruct (Z.eqb_spec (iv z2) 0) as [Z1|_]; [contradiction|]. cbn [fst patch set_ann ann_of] in E'. exact E'.
      * (* ** *) cbn [fst patch set_ann ann_of].
        apply leaf_esim; try reflexivity; try discriminate.
        eapply esim_sem_eq; [|exact Hdef]. intros ctx s.
        pose proof (fold_pow_sound fe cfg env a a1 a2 KInt z1 z2 ctx s Ka1 Ka2 eq_refl) as E.
        cbn [int_redex fold_v int_lit fold_int_bin fst patch set_ann ann_of] in E. exact E.
    + (* left literal, right not: only the string rule could fire, and it does not *)
      destruct op; try exact Hdef. destruct (str_lit x) eqn:S1; [|exact Hdef].
      apply int_lit_inv in L1. subst x. discriminate.
    + destruct op; try exact Hdef. destruct (str_lit x) as [s1|] eqn:S1; [|exact Hdef].
      destruct (str_lit x0) as [s2|] eqn:S2; [|exact Hdef].
      apply str_lit_inv in S1. apply str_lit_inv in S2. destruct S1 as (a1 & ->). destruct S2 as (a2 & ->).
      cbn [fst patch set_ann ann_of]. apply leaf_esim; try reflexivity; try discriminate.
      * intros _. cbn.
        match goal with E1 : esim (EStr a1 s1) ?c1, E2 : esim (EStr a2 s2) ?c2 |- _ =>
          rewrite (es_str _ _ _ _ _ _ (proj1 E1) eq_refl), (es_str _ _ _ _ _ _ (proj1 E2) eq_refl) end. reflexivity.
      * eapply esim_sem_eq; [|exact Hdef]. intros ctx s.
        pose proof (fold_string_concat_sound fe cfg env a a1 a2 s1 s2 ctx s) as E.
        cbn [fold_v int_lit str_lit fst patch set_ann ann_of] in E. exact E.
  - (* array: the array rule never fires on a tree without foldable array literals *)
    unfold fold_array. destruct (is_nil_list cs) eqn:N; [exact Hdef|].
    assert (F : forall p, forallb p cs = true -> (forall c' c, esim c' c -> p c' = true -> p c = true) -> forallb p es = true).
    { intros p Hp Hi. revert Hp. apply forallb_transfer. eapply Forall2_weaken; [|exact H]. intros c' c E. apply Hi; exact E. }
    cbn [foldable_array] in Gf.
    assert (Nn : is_nil_list es = false) by (destruct cs, es; try discriminate; try reflexivity; inversion H).
    rewrite Nn in Gf. cbn [negb andb] in Gf. apply orb_false_iff in Gf. destruct Gf as [Gi Gs].
    destruct (all_ints cs) as [zs|] eqn:Ai.
    + rewrite (F intlike (all_ints_intlike _ _ Ai)) in Gi; [discriminate|]. intros c' c E. apply (es_int _ _ _ _ _ _ (proj1 E)).
    + destruct (all_strs cs) as [ss|] eqn:As; [|exact Hdef].
      rewrite (F strlike (all_strs_strlike _ _ As)) in Gs; [discriminate|]. intros c' c E. apply (es_str _ _ _ _ _ _ (proj1 E)).
Qed.

Lemma fold_walk_esim e : good cn e = true -> esim (fst (map_post (fold_v (f_pow fe)) e)) e.
Proof.
  intros G. apply (map_post_esim _ (fun _ => True)); [|exact G|apply Forall_forall; auto].
  intros n' n R Gn _. apply fold_local; assumption.
Qed.

Lemma iter_pass_esim (f : visitor) :
  (forall e, good cn e = true -> esim (fst (map_post f e)) e) ->
  forall n e e', good cn e = true -> iter_pass f n e = OOk e' -> esim e' e.
Proof.
  intros Hf. induction n as [|n IH]; intros e e' G H; cbn [iter_pass] in H.
  - inversion H; subst. apply esim_refl.
  - pose proof (Hf e G) as E1. destruct (map_post f e) as [e1 [ap er]]. cbn [fst] in E1.
    destruct er; [discriminate|]. destruct ap.
    + eapply esim_trans; [|exact E1]. apply IH; [|exact H]. apply (es_good _ _ _ _ _ _ (proj1 E1)); exact G.
    + inversion H; subst. exact E1.
Qed.

(* ---------------- const_expr ---------------- *)
Definition is_budget (r : result) : Prop := exists l s, r = Stop EBudget l s.

Lemma budget_sim ro ru : is_budget ru -> ro ≲ ru.
Proof. intros (l & s & ->). left. reflexivity. Qed.

Lemma rbind_budget r k : is_budget r -> is_budget (rbind r k).
Proof. intros (l & s & ->). exists l, s. reflexivity. Qed.

Definition evals_to (e : expr) (v : value) : Prop := forall ctx s, ev ctx e s = Done v s.

Lemma const_args_vals es vs : const_args es = Some vs -> forallb lit_child_ok es = true -> Forall2 evals_to es vs.
Proof.
  revert vs. induction es as [|x r IH]; intros vs H L; cbn [const_args] in H.
  - inversion H. constructor.
  - cbn [forallb] in L. apply andb_prop in L. destruct L as [Lx Lr].
    destruct (const_args r) as [vr|]; [|destruct x; discriminate].
    destruct x; try discriminate; inversion H; subst; constructor; try (apply IH; auto; fail); intros ctx st; try reflexivity.
    unfold lit_child_ok in Lx. cbn [is_lit negb orb] in Lx. apply kint_eq in Lx. cbn in Lx.
    rewrite ev_int, (int_const_int a KInt z Lx eq_refl). reflexivity.
Qed.

Lemma ev_list_inv ctx es' es : Forall2 esim es' es -> forall vs, Forall2 evals_to es' vs ->
  forall s' s K, ssim cn s' s ->
  is_budget (ev_list fe cfg env ctx es s K) \/ exists s1, ssim cn s' s1 /\ ev_list fe cfg env ctx es s K = K vs s1.
Proof.
  induction 1 as [|x' x r' r Hx Hr IH]; intros vs Hv s' s K S.
  - inversion Hv; subst. right. exists s. split; [exact S|reflexivity].
  - inversion Hv as [|? v ? vr Hxv Hrv]; subst. rewrite ev_list_cons.
    pose proof (es_sem _ _ _ _ _ _ (proj1 Hx) ctx s' s S) as Hs. rewrite Hxv in Hs.
    apply rsim_Done_inv in Hs. destruct Hs as [(l & s0 & E)|(s1 & E & S1)]; rewrite E.
    + left. exists l, s0. reflexivity.
    + cbn [rbind]. apply (IH vr Hrv s' s1 (fun vs s2 => K (v :: vs) s2) S1).
Qed.

Lemma ssim_log_const s' s1 name vs : is_const_fn cn name = true -> ssim cn s' s1 -> ssim cn s' (log_call s1 name vs).
Proof.
  intros C [Sm St]. split; [exact Sm|]. unfold log_call. cbn [r_trace]. rewrite strip_app, St.
  unfold strip at 3. cbn [filter fst]. unfold is_const_fn in C. rewrite C. cbn. rewrite app_nil_r. reflexivity.
Qed.

(* the run-time environment resolves a ConstExpr name to the function that was marked at compile time *)
Definition const_fns_resolve : Prop := forall name, is_const_fn cn name = true -> fetch_fn fe env name = Ok name.

Lemma const_expr_local n' n : const_fns_resolve -> rel1 n' n -> good cn n = true -> esim (fst (const_expr_v fe env cn n')) n.
Proof.
  intros HS Hrel G. pose proof (rel1_esim _ _ _ _ _ _ Hrel) as Hdef. destruct Hrel as (cs & -> & H).
  prep_children H n; cbn [rebuild] in *; cbn [const_expr_v]; try exact Hdef.
  destruct (is_const_fn cn name) eqn:C; [|exact Hdef].
  destruct (const_args cs) as [vs|] eqn:A; [|exact Hdef].
  destruct (const_call fe env name vs) as [v|er] eqn:Call; [|exact Hdef].
  cbn [fst patch set_ann ann_of].
  pose proof (es_good _ _ _ _ _ _ (proj1 Hdef) G) as G'.
  assert (L : fast = false /\ forallb lit_child_ok cs = true).
  { apply good_inv in G'. destruct G' as (Gn & _ & _). unfold good_node in Gn. apply andb_prop in Gn. destruct Gn as [Gn _].
    apply andb_prop in Gn. destruct Gn as [_ Gx]. cbn [cx_node] in Gx. rewrite C in Gx. cbn [negb orb] in Gx.
    apply andb_prop in Gx. destruct Gx as [Gx1 Gx2]. apply negb_true_iff in Gx1. auto. }
  destruct L as [-> L].
  pose proof (const_args_vals _ _ A L) as Hv.
  pose proof (HS name C) as Hfetch.
  apply leaf_esim; try reflexivity; try discriminate.
  intros ctx s' s S. rewrite ev_const, ev_function.
  destruct (ev_list_inv ctx _ _ H _ Hv s' s
    (fun vs0 s1 => lift (aloc a) s1 (fetch_fn fe env name) (fun id => do_call fe (aloc a) false id env vs0 s1)) S) as [B|(s1 & S1 & E)];
    [apply budget_sim; exact B|]. rewrite E, Hfetch. cbn [lift].
  unfold const_call in Call. unfold do_call. destruct (fn_sig fe name) as [sg|] eqn:Sg; [|discriminate].
  destruct (args_ok (s_ins sg) (s_variadic sg) vs) eqn:Ok; [|discriminate].
  destruct (fn_run fe name env vs) as [v0|] eqn:Run; [|discriminate].
  destruct (s_nout sg =? 0) eqn:N; [discriminate|]. inversion Call; subst v0.
  apply rsim_Done. apply ssim_log_const; assumption.
Qed.

(* ---------------- in_array ---------------- *)
Lemma rbind_sim2 ro ru k' k :
  ro ≲ ru -> (forall v s' s, ru = Done v s -> ssim cn s' s -> k' v s' ≲ k v s) -> rbind ro k' ≲ rbind ru k.
Proof.
  intros H Hk. destruct ru as [v s|e l s]; cbn in H.
  - destruct H as (v' & s' & -> & <- & S). cbn [rbind]. apply Hk; [reflexivity|exact S].
  - destruct H as [->|(s' & -> & S)]; cbn [rbind]; [left; reflexivity|]. right. eexists; eauto.
Qed.

Lemma ev_list_vals ctx es vs : Forall2 evals_to es vs -> forall s k, ev_list fe cfg env ctx es s k = k vs s.
Proof.
  induction 1 as [|x v r vr Hx Hr IH]; intros s k; [reflexivity|].
  rewrite ev_list_cons, Hx. cbn [rbind]. rewrite IH. reflexivity.
Qed.

Lemma all_ints_const_args es zs : all_ints es = Some zs -> const_args es = Some (map vint zs).
Proof.
  revert zs. induction es as [|x r IH]; intros zs H; cbn [all_ints] in H.
  - inversion H. reflexivity.
  - destruct x; try discriminate. destruct (all_ints r) as [zr|]; [|discriminate]. inversion H; subst.
    cbn [const_args map]. rewrite (IH zr eq_refl). reflexivity.
Qed.

Lemma all_strs_const_args es ss : all_strs es = Some ss -> const_args es = Some (map VStr ss).
Proof.
  revert ss. induction es as [|x r IH]; intros ss H; cbn [all_strs] in H.
  - inversion H. reflexivity.
  - destruct x; try discriminate. destruct (all_strs r) as [sr|]; [|discriminate]. inversion H; subst.
    cbn [const_args map]. rewrite (IH sr eq_refl). reflexivity.
Qed.

Lemma in_array_core a op x aa es' n1 n2 setv lits (P : value -> Prop) :
  is_in_op op = true -> esim x n1 -> esim (EArray aa es') n2 -> Forall2 evals_to es' lits ->
  (forall ctx s v t, ev ctx n1 s = Done v t -> P v) ->
  (forall v, P v -> p_in v setv = p_in v (VArr TIface lits)) ->
  esim (EBinary a op x (EArray aa es')) (EBinary a op n1 n2) ->
  esim (EBinary a op x (EConst ann0 setv)) (EBinary a op n1 n2).
Proof.
  intros Hop Hx Hr Hl HP Hin Hdef.
  assert (Oo : is_or op = false) by (destruct op; try discriminate; reflexivity).
  assert (Oa : is_and op = false) by (destruct op; try discriminate; reflexivity).
  apply esim_nonpair; [reflexivity|reflexivity|reflexivity|]. constructor.
  - reflexivity.
  - destruct op; discriminate.
  - destruct op; discriminate.
  - destruct op; discriminate.
  - intros Hs. cbn [simple] in Hs. apply andb_prop in Hs. destruct Hs as [_ Hs].
    pose proof (es_simple _ _ _ _ _ _ (proj1 Hr) Hs) as Hc. discriminate.
  - intros Gn. pose proof (es_good _ _ _ _ _ _ (proj1 Hdef) Gn) as G'.
    destruct (good_inv _ _ G') as (Gn' & _ & Gc').
    assert (Lx : lit_child_ok x = true).
    { pose proof (good_children_lit_ok _ G' eq_refl) as L. cbn [children forallb] in L. apply andb_prop in L. tauto. }
    assert (Gx : good cn x = true) by (apply Gc'; left; reflexivity).
    assert (Fx : foldable_array x = false).
    { unfold good in Gx. apply andb_prop in Gx. destruct Gx as [_ Gx]. apply negb_true_iff in Gx. exact Gx. }
    apply good_intro.
    + unfold good_node, wt_node. cbn [children forallb is_call orb]. rewrite Lx, Fx.
      destruct op; try discriminate; reflexivity.
    + reflexivity.
    + intros c [<-|[<-|[]]]; [exact Gx|reflexivity].
  - intros ctx s' s S. rewrite !ev_binary, Oo, Oa.
    apply rbind_sim2; [apply (es_sem _ _ _ _ _ _ (proj1 Hx)); exact S|].
    intros v t' t En1 St. rewrite ev_const. cbn [rbind].
    pose proof (es_sem _ _ _ _ _ _ (proj1 Hr) ctx t' t St) as Ha.
    rewrite ev_array, (ev_list_vals ctx _ _ Hl) in Ha. unfold alloc in Ha.
    destruct (c_limit cfg <=? r_mem t' + Z.of_nat (Datatypes.length lits)) eqn:B.
    + apply rsim_Stop_inv in Ha. apply budget_sim. apply rbind_budget.
      destruct Ha as [(l2 & s2 & E)|(s2 & E & _)]; rewrite E; eexists _, _; reflexivity.
    + apply rsim_Done_inv in Ha. destruct Ha as [(l2 & s2 & E)|(t2 & E & S2)].
      * apply budget_sim. apply rbind_budget. rewrite E. eexists _, _; reflexivity.
      * rewrite E. cbn [rbind].
        assert (St2 : ssim cn t' t2).
        { destruct S2 as [M2 T2]. cbn [r_mem r_trace] in *. split; [lia|exact T2]. }
        pose proof (Hin v (HP _ _ _ _ En1)) as Hv.
        destruct op; try discriminate; cbn [bin_strict]; rewrite Hv;
          (apply lift_sim; [exact St2|]); intros b; apply rsim_Done; exact St2.
Qed.

Lemma p_equal_ints a b : p_equal (vint a) (vint b) = Ok (VBool (a =? b)).
Proof. unfold p_equal, vint. rewrite p_helper_ints by reflexivity. rewrite go_op_int. reflexivity. Qed.

Lemma p_equal_strs a b : p_equal (VStr a) (VStr b) = Ok (VBool (String.eqb a b)).
Proof. reflexivity. Qed.

Lemma p_in_cons needle t x r :
  p_in needle (VArr t (x :: r)) =
  bind (p_equal x needle) (fun e => match e with VBool true => Ok true | VBool false => p_in needle (VArr t r) | _ => Fail EIfaceConv end).
Proof. reflexivity. Qed.

Lemma p_in_ints z t zs : p_in (vint z) (VArr t (map vint zs)) = Ok (existsb (fun y => y =? z) zs).
Proof.
  induction zs as [|y r IH]; [reflexivity|]. cbn [map]. rewrite p_in_cons, p_equal_ints. cbn [bind existsb].
  destruct (y =? z); [reflexivity|exact IH].
Qed.

Lemma p_in_strs z t ss : p_in (VStr z) (VArr t (map VStr ss)) = Ok (existsb (fun y => String.eqb y z) ss).
Proof.
  induction ss as [|y r IH]; [reflexivity|]. cbn [map]. rewrite p_in_cons, p_equal_strs. cbn [bind existsb].
  destruct (String.eqb y z); [reflexivity|exact IH].
Qed.

Lemma existsb_zset_add z a l : existsb (fun y => y =? z) (zset_add a l) = (a =? z) || existsb (fun y => y =? z) l.
Proof.
  induction l as [|y r IH]; [reflexivity|]. cbn [zset_add]. destruct (a <? y); [reflexivity|].
  destruct (Z.eqb_spec a y) as [->|N].
  - cbn [existsb]. destruct (y =? z); reflexivity.
  - cbn [existsb]. rewrite IH. destruct (a =? z), (y =? z); reflexivity.
Qed.

Lemma existsb_zset z zs : existsb (fun y => y =? z) (fold_right zset_add [] zs) = existsb (fun y => y =? z) zs.
Proof. induction zs as [|a r IH]; [reflexivity|]. cbn [fold_right existsb]. rewrite existsb_zset_add, IH. reflexivity. Qed.

Lemma existsb_sset_add z a l : existsb (fun y => String.eqb y z) (sset_add a l) = String.eqb a z || existsb (fun y => String.eqb y z) l.
Proof.
  induction l as [|y r IH]; [reflexivity|]. cbn [sset_add]. destruct (String.compare a y) eqn:C.
  - apply String.compare_eq_iff in C. subst y. cbn [existsb]. destruct (String.eqb a z); reflexivity.
  - reflexivity.
  - cbn [existsb]. rewrite IH. destruct (String.eqb a z), (String.eqb y z); reflexivity.
Qed.

Lemma existsb_sset z ss : existsb (fun y => String.eqb y z) (fold_right sset_add [] ss) = existsb (fun y => String.eqb y z) ss.
Proof. induction ss as [|a r IH]; [reflexivity|]. cbn [fold_right existsb]. rewrite existsb_sset_add, IH. reflexivity. Qed.

Lemma assoc_val_ints z l :
  assoc_val (vint z) (map (fun y => (vint y, unit_val)) l) = if existsb (fun y => y =? z) l then Some unit_val else None.
Proof.
  induction l as [|y r IH]; [reflexivity|]. cbn [map assoc_val existsb key_eqb vint num_same]. rewrite kind_eqb_rf. cbn [andb].
  destruct (y =? z); [reflexivity|exact IH].
Qed.

Lemma assoc_val_strs z l :
  assoc_val (VStr z) (map (fun y => (VStr y, unit_val)) l) = if existsb (fun y => String.eqb y z) l then Some unit_val else None.
Proof.
  induction l as [|y r IH]; [reflexivity|]. cbn [map assoc_val existsb key_eqb].
  destruct (String.eqb y z); [reflexivity|exact IH].
Qed.

(* membership in the lookup map = linear membership in the array, for a left value of exactly kind int / string *)
Lemma in_array_int_sound z zs t : p_in (vint z) (int_set zs) = p_in (vint z) (VArr t (map vint zs)).
Proof.
  rewrite p_in_ints. unfold int_set, p_in. cbn [vint dyn_type num_kind assignable ty_eqb]. rewrite ?kind_eqb_rf. cbn [orb].
  change (VNum (NInt KInt z)) with (vint z). rewrite assoc_val_ints, existsb_zset. destruct (existsb _ zs); reflexivity.
Qed.

Lemma in_array_string_sound z ss t : p_in (VStr z) (str_set ss) = p_in (VStr z) (VArr t (map VStr ss)).
Proof.
  rewrite p_in_strs. unfold str_set, p_in. cbn [dyn_type assignable ty_eqb orb].
  rewrite assoc_val_strs, existsb_sset. destruct (existsb _ ss); reflexivity.
Qed.

Definition Site_ia (n : expr) : Prop :=
  forall a op n1 n2, n = EBinary a op n1 n2 -> is_in_op op = true ->
  (forall ctx s v t, ev ctx n1 s = Done v t ->
     (kind_of n1 = RKNum KInt -> exists z, v = vint z) /\ (kind_of n1 = RKString -> exists str, v = VStr str)) /\
  (forall aa es c, n2 = EArray aa es -> In c es -> intlike c = true -> kind_of c = RKNum KInt).

Lemma arr_lit_inv x es : arr_lit x = Some es -> exists aa, x = EArray aa es.
Proof. destruct x; try discriminate. cbn. intros E; inversion E; eauto. Qed.

Lemma lits_from_site es es0 : Forall2 esim0 es es0 ->
  (forall c, In c es0 -> intlike c = true -> kind_of c = RKNum KInt) -> forallb lit_child_ok es = true.
Proof.
  induction 1 as [|c' c r' r Hc Hr IH]; intros HK; [reflexivity|]. cbn [forallb]. apply andb_true_intro. split.
  - unfold lit_child_ok. destruct (is_lit c') eqn:L; [|reflexivity]. cbn [negb orb]. unfold kint.
    rewrite (es_kind _ _ _ _ _ _ Hc), (HK c (or_introl eq_refl) (es_int _ _ _ _ _ _ Hc (is_lit_intlike _ L))). reflexivity.
  - apply IH. intros x Hx. apply HK. right; exact Hx.
Qed.

Lemma in_array_local n' n : rel1 n' n -> Site_ia n -> esim (fst (in_array_v n')) n.
Proof.
  intros Hrel HS. pose proof (rel1_esim _ _ _ _ _ _ Hrel) as Hdef. destruct Hrel as (cs & -> & H).
  prep_children H n; cbn [rebuild] in *; cbn [in_array_v]; try exact Hdef.
  destruct (arr_lit x0) as [es|] eqn:A; [|exact Hdef]. apply arr_lit_inv in A. destruct A as (aa & ->).
  destruct (is_in_op op && negb (is_nil_list es)) eqn:C; [|exact Hdef]. apply andb_prop in C. destruct C as [Cop _].
  match goal with E : esim (EArray aa es) ?c |- _ => destruct (proj2 (proj2 E) aa es eq_refl) as (es0 & -> & F0) end.
  destruct (HS _ _ _ _ eq_refl Cop) as [HSv HSk].
  assert (L : forallb lit_child_ok es = true).
  { eapply lits_from_site; [exact F0|]. intros c Hc. apply (HSk aa es0 c eq_refl Hc). }
  match goal with E : esim x ?c |- _ => pose proof (es_kind _ _ _ _ _ _ (proj1 E)) as Kx end.
  destruct (kind_of x) as [| |k| | | | | | | |] eqn:K; try exact Hdef.
  - destruct k; try exact Hdef. destruct (all_ints es) as [zs|] eqn:Ai; [|exact Hdef].
    cbn [fst patch set_ann ann_of].
    apply (in_array_core a op x aa es _ _ (int_set zs) (map vint zs) (fun v => exists z, v = vint z)); try assumption.
    + apply const_args_vals; [apply all_ints_const_args; exact Ai|exact L].
    + intros ctx s v t Ev. destruct (HSv ctx s v t Ev) as [Hi _]. apply Hi. symmetry; exact Kx.
    + intros v (z & ->). apply in_array_int_sound.
  - destruct (all_strs es) as [ss|] eqn:As; [|exact Hdef].
    cbn [fst patch set_ann ann_of].
    apply (in_array_core a op x aa es _ _ (str_set ss) (map VStr ss) (fun v => exists z, v = VStr z)); try assumption.
    + apply const_args_vals; [apply all_strs_const_args; exact As|exact L].
    + intros ctx s v t Ev. destruct (HSv ctx s v t Ev) as [_ Hs]. apply Hs. symmetry; exact Kx.
    + intros v (z & ->). apply in_array_string_sound.
Qed.

(* ---------------- in_range ---------------- *)
Definition stateless (f : rstate -> result) : Prop :=
  (exists v, forall s, f s = Done v s) \/ (exists er l, forall s, f s = Stop er l s).

Lemma stateless_ext f g : (forall s, f s = g s) -> stateless g -> stateless f.
Proof. intros E [(v & H)|(er & l & H)]; [left; exists v|right; exists er, l]; intros s; rewrite E; apply H. Qed.

Lemma stateless_Done v : stateless (fun s => Done v s). Proof. left; eauto. Qed.
Lemma stateless_Stop e l : stateless (fun s => Stop e l s). Proof. right; eauto. Qed.

Lemma stateless_lift {A} l (o : outcome A) (k : A -> rstate -> result) :
  (forall a, stateless (k a)) -> stateless (fun s => lift l s o (fun a => k a s)).
Proof. intros H. destruct o; cbn [lift]; [apply H|apply stateless_Stop]. Qed.

Lemma stateless_rbind f (k : value -> rstate -> result) :
  stateless f -> (forall v, stateless (k v)) -> stateless (fun s => rbind (f s) k).
Proof.
  intros [(v & H)|(er & l & H)] Hk.
  - apply (stateless_ext _ (k v)); [intros s; rewrite H; reflexivity|apply Hk].
  - apply (stateless_ext _ (fun s => Stop er l s)); [intros s; rewrite H; reflexivity|apply stateless_Stop].
Qed.

Lemma stateless_bin_strict here op l r va vb :
  match op with BRange => false | _ => true end = true ->
  stateless (fun s => bin_strict here fe cfg op l r va vb s).
Proof.
  intros Hop. unfold bin_strict.
  destruct op; try discriminate; try apply stateless_Stop;
    repeat first [ apply stateless_Done | apply stateless_lift; intros ? ].
  destruct (both_kind (RKNum KInt) l r); [|destruct (both_kind RKString l r)];
    repeat first [ apply stateless_Done | apply stateless_lift; intros ? ].
Qed.

Lemma simple_eval e : simple e = true -> forall ctx, stateless (fun s => ev ctx e s).
Proof.
  induction e; intros Hs ctx; cbn [simple] in Hs; try discriminate.
  - apply stateless_Done.
  - apply (stateless_ext _ _ (ev_ident fe cfg env ctx a name nilsafe)). apply stateless_lift. intros v. apply stateless_Done.
  - apply stateless_Done.
  - apply stateless_Done.
  - apply stateless_Done.
  - apply stateless_Done.
  - apply stateless_Done.
  - apply (stateless_ext _ _ (ev_unary fe cfg env ctx a op e)). apply stateless_rbind; [apply IHe; exact Hs|].
    intros v. destruct op; repeat first [ apply stateless_Done | apply stateless_Stop | apply stateless_lift; intros ? ].
  - apply andb_prop in Hs. destruct Hs as [Hs H2]. apply andb_prop in Hs. destruct Hs as [Hop H1].
    apply (stateless_ext _ _ (ev_binary fe cfg env ctx a op e1 e2)).
    destruct (is_or op); [|destruct (is_and op)].
    + apply stateless_rbind; [apply IHe1; exact H1|]. intros va. apply stateless_lift. intros b.
      destruct b; [apply stateless_Done|apply IHe2; exact H2].
    + apply stateless_rbind; [apply IHe1; exact H1|]. intros va. apply stateless_lift. intros b.
      destruct b; [apply IHe2; exact H2|apply stateless_Done].
    + apply stateless_rbind; [apply IHe1; exact H1|]. intros va.
      apply stateless_rbind; [apply IHe2; exact H2|]. intros vb. apply stateless_bin_strict.
      destruct op; try reflexivity; discriminate.
  - apply (stateless_ext _ _ (ev_property fe cfg env ctx a e name nilsafe)). apply stateless_rbind; [apply IHe; exact Hs|].
    intros v. apply stateless_lift. intros r. apply stateless_Done.
  - apply andb_prop in Hs. destruct Hs as [H1 H2].
    apply (stateless_ext _ _ (ev_index fe cfg env ctx a e1 e2)). apply stateless_rbind; [apply IHe1; exact H1|].
    intros v. apply stateless_rbind; [apply IHe2; exact H2|]. intros vi. apply stateless_lift. intros r. apply stateless_Done.
  - apply (stateless_ext _ _ (ev_pointer fe cfg env ctx a)). destruct ctx as [|[arr i] ?]; [apply stateless_Stop|].
    apply stateless_lift. intros v. apply stateless_Done.
  - apply andb_prop in Hs. destruct Hs as [Hs H3]. apply andb_prop in Hs. destruct Hs as [H1 H2].
    apply (stateless_ext _ _ (ev_cond fe cfg env ctx a e1 e2 e3)). apply stateless_rbind; [apply IHe1; exact H1|].
    intros vc. apply stateless_lift. intros b. destruct b; [apply IHe2; exact H2|apply IHe3; exact H3].
Qed.

(* integer kinds for which comparing with an int converts toward int / int64 without wrap-around of
   the int operand (int8 / int16 / int32 are excluded: known findings C14-rank, C02-in-range-narrow-int) *)
Definition exact_kind (k : kind) : bool :=
  match k with KInt8 | KInt16 | KInt32 | KF32 | KF64 => false | _ => true end.

Lemma cmp_exact k z i : exact_kind k = true -> in_range k z = true -> wrap KInt i = i ->
  p_helper HMoreOrEqual (VNum (NInt k z)) (vint i) = Ok (VBool (i <=? wrap KInt z)) /\
  p_helper HLessOrEqual (VNum (NInt k z)) (vint i) = Ok (VBool (wrap KInt z <=? i)) /\
  p_equal (vint i) (VNum (NInt k z)) = Ok (VBool (i =? wrap KInt z)).
Proof.
  intros Hk Hz Hi. unfold p_equal, p_helper, vint, helper_num. cbn [num_kind].
  destruct k; try discriminate; cbn; rewrite ?(wrap_int64 KInt64) by reflexivity; rewrite ?Hi;
    try (repeat split; reflexivity).
  - rewrite (wrap_in_range KInt z eq_refl Hz). repeat split; reflexivity.
  - assert (Hz' : wrap KInt z = z) by (apply (wrap_in_range KInt z eq_refl); exact Hz).
    rewrite ?Hz'. repeat split; reflexivity.
Qed.

Lemma p_in_range_list v z' t : (forall i, p_equal (vint i) v = Ok (VBool (i =? z'))) ->
  forall n lo, p_in v (VArr t (range_list lo n)) = Ok ((lo <=? z') && (z' <? lo + Z.of_nat n)).
Proof.
  intros He. induction n as [|n IH]; intros lo.
  - cbn [range_list]. replace (lo + Z.of_nat 0) with lo by lia.
    destruct (Z.leb_spec lo z'), (Z.ltb_spec z' lo); try reflexivity; lia.
  - cbn [range_list]. rewrite p_in_cons, He. cbn [bind]. destruct (Z.eqb_spec lo z') as [->|N].
    + destruct (Z.leb_spec z' z'), (Z.ltb_spec z' (z' + Z.of_nat (S n))); try reflexivity; lia.
    + rewrite IH. destruct (Z.leb_spec (lo + 1) z'), (Z.ltb_spec z' (lo + 1 + Z.of_nat n)),
        (Z.leb_spec lo z'), (Z.ltb_spec z' (lo + Z.of_nat (S n))); try reflexivity; lia.
Qed.

(* membership in lo..hi = the two-sided comparison, for an integer of an exact kind *)
Lemma in_range_sound k z lo hi : exact_kind k = true -> in_range k z = true -> wrap KInt lo = lo -> wrap KInt hi = hi ->
  p_in (VNum (NInt k z)) (make_range lo hi) = Ok ((lo <=? wrap KInt z) && (wrap KInt z <=? hi)) /\
  p_helper HMoreOrEqual (VNum (NInt k z)) (vint lo) = Ok (VBool (lo <=? wrap KInt z)) /\
  p_helper HLessOrEqual (VNum (NInt k z)) (vint hi) = Ok (VBool (wrap KInt z <=? hi)).
Proof.
  intros Hk Hz Hlo Hhi. split; [|split; [apply (cmp_exact k z lo Hk Hz Hlo)|apply (cmp_exact k z hi Hk Hz Hhi)]].
  set (z' := wrap KInt z).
  assert (He : forall i, wrap KInt i = i -> p_equal (vint i) (VNum (NInt k z)) = Ok (VBool (i =? z'))).
  { intros i Hi. apply (cmp_exact k z i Hk Hz Hi). }
  unfold make_range. destruct (Z.ltb_spec hi lo) as [L|L].
  - cbn. destruct (Z.leb_spec lo z'), (Z.leb_spec z' hi); try reflexivity; lia.
  - (* every element of the range is within int64, so He applies: generalise p_in_range_list to bounded i *)
    assert (G : forall n l, lo <= l -> l + Z.of_nat n <= hi + 1 ->
              p_in (VNum (NInt k z)) (VArr (TNum KInt) (range_list l n)) = Ok ((l <=? z') && (z' <? l + Z.of_nat n))).
    { assert (Rlo : in_range KInt lo = true) by (rewrite <- Hlo; apply wrap_range; reflexivity).
      assert (Rhi : in_range KInt hi = true) by (rewrite <- Hhi; apply wrap_range; reflexivity).
      unfold in_range in Rlo, Rhi. apply andb_prop in Rlo. apply andb_prop in Rhi.
      destruct Rlo as [Rlo _]. destruct Rhi as [_ Rhi]. apply Z.leb_le in Rlo. apply Z.leb_le in Rhi.
      induction n as [|n IH]; intros l H1 H2.
      - cbn [range_list]. replace (l + Z.of_nat 0) with l by lia.
        destruct (Z.leb_spec l z'), (Z.ltb_spec z' l); try reflexivity; lia.
      - cbn [range_list]. rewrite p_in_cons, He.
        + cbn [bind]. destruct (Z.eqb_spec l z') as [->|N].
          * destruct (Z.leb_spec z' z'), (Z.ltb_spec z' (z' + Z.of_nat (S n))); try reflexivity; lia.
          * rewrite IH by lia. destruct (Z.leb_spec (l + 1) z'), (Z.ltb_spec z' (l + 1 + Z.of_nat n)),
              (Z.leb_spec l z'), (Z.ltb_spec z' (l + Z.of_nat (S n))); try reflexivity; lia.
        + apply wrap_in_range; [reflexivity|]. unfold in_range. apply andb_true_intro. split; apply Z.leb_le; lia. }
    rewrite G by (rewrite ?Z2Nat.id; lia). rewrite Z2Nat.id by lia.
    destruct (Z.leb_spec lo z'), (Z.ltb_spec z' (lo + (hi - lo + 1))), (Z.leb_spec z' hi); try reflexivity; lia.
Qed.

Lemma iv_idem z : wrap KInt (iv z) = iv z.
Proof. unfold iv. apply wrap_idem. reflexivity. Qed.

Lemma to_int_vint z : to_int (vint (iv z)) = Ok (iv z).
Proof. unfold to_int, vint, convert. cbn [is_float]. rewrite iv_idem. reflexivity. Qed.

Lemma range_size_nonneg lo hi n : range_size lo hi = Some n -> 0 <= n.
Proof.
  unfold range_size. destruct (Z.ltb_spec hi lo); [intros E; inversion E; lia|].
  destruct (hi - lo + 1 <=? max_of KInt); intros E; inversion E; lia.
Qed.

(* a range with literal bounds of kind int: budget failure, or the range value after accounting n >= 0 elements *)
Lemma ev_range_lit ctx ar af f at_ t s :
  akind af = RKNum KInt -> akind at_ = RKNum KInt ->
  ev ctx (EBinary ar BRange (EInt af f) (EInt at_ t)) s =
  match range_size (iv f) (iv t) with
  | None => Stop EBudget (aloc ar) s
  | Some n => alloc cfg (aloc ar) n s (fun s3 => Done (make_range (iv f) (iv t)) s3)
  end.
Proof.
  intros Kf Kt. change (EBinary ar BRange (EInt af f) (EInt at_ t)) with (int_redex ar BRange af f at_ t).
  rewrite ev_int_redex by reflexivity. cbn [bin_strict].
  rewrite (int_const_int af KInt f Kf eq_refl), (int_const_int at_ KInt t Kt eq_refl).
  fold (iv f) (iv t). fold (vint (iv f)) (vint (iv t)). rewrite !to_int_vint. reflexivity.
Qed.

Lemma range_lit_cases ctx ar af f at_ t s :
  akind af = RKNum KInt -> akind at_ = RKNum KInt ->
  is_budget (ev ctx (EBinary ar BRange (EInt af f) (EInt at_ t)) s) \/
  exists n, 0 <= n /\ range_size (iv f) (iv t) = Some n /\
    ev ctx (EBinary ar BRange (EInt af f) (EInt at_ t)) s = Done (make_range (iv f) (iv t)) (mkRS (r_mem s + n) (r_trace s)).
Proof.
  intros Kf Kt. rewrite (ev_range_lit ctx ar af f at_ t s Kf Kt).
  destruct (range_size (iv f) (iv t)) as [n|] eqn:R; [|left; eexists _, _; reflexivity].
  unfold alloc. destruct (c_limit cfg <=? r_mem s + n); [left; eexists _, _; reflexivity|].
  right. exists n. split; [eapply range_size_nonneg; eauto|]. split; reflexivity.
Qed.

Lemma budget_left_inv l s' ru : Stop EBudget l s' ≲ ru -> is_budget ru.
Proof.
  intros H. apply rsim_Stop_inv in H. destruct H as [(l2 & s2 & E)|(s2 & E & _)]; rewrite E; eexists _, _; reflexivity.
Qed.

Lemma good_cmp op x al z :
  match op with BGe | BLe => true | _ => false end = true ->
  good cn x = true -> lit_child_ok x = true -> akind al = RKNum KInt ->
  good cn (EBinary ann0 op x (EInt al z)) = true.
Proof.
  intros Hop Gx Lx Ka. apply good_intro.
  - assert (Fx : foldable_array x = false).
    { unfold good in Gx. apply andb_prop in Gx. destruct Gx as [_ Gx]. apply negb_true_iff in Gx. exact Gx. }
    unfold good_node, wt_node. cbn [children forallb is_call orb]. rewrite Lx, Fx.
    unfold lit_child_ok, kint, kind_of. cbn [is_lit negb orb ann_of]. rewrite Ka.
    destruct op; try discriminate; reflexivity.
  - reflexivity.
  - intros c [<-|[<-|[]]]; [exact Gx|reflexivity].
Qed.

Definition conj_of (a : ann) (x from to : expr) : expr :=
  EBinary a BAndWord (EBinary ann0 BGe x from) (EBinary ann0 BLe x to).

Lemma in_range_core a op x ar af f at_ t n1 n2 :
  is_in_op op = true -> esim x n1 -> esim (EBinary ar BRange (EInt af f) (EInt at_ t)) n2 ->
  simple x = true ->
  (forall ctx s v s1, ev ctx n1 s = Done v s1 -> exists k z, v = VNum (NInt k z) /\ exact_kind k = true /\ in_range k z = true) ->
  good cn (EBinary a op x (EBinary ar BRange (EInt af f) (EInt at_ t))) = true ->
  esim (match op with BNotIn => EUnary a UNotWord (conj_of a x (EInt af f) (EInt at_ t)) | _ => conj_of a x (EInt af f) (EInt at_ t) end)
       (EBinary a op n1 n2).
Proof.
  intros Hop Hx Hr Sx HP G'.
  destruct (good_inv _ _ G') as (Gn' & _ & Gc').
  assert (Lx : lit_child_ok x = true).
  { pose proof (good_children_lit_ok _ G' eq_refl) as L. cbn [children forallb] in L. apply andb_prop in L. tauto. }
  assert (Gx : good cn x = true) by (apply Gc'; left; reflexivity).
  assert (Gr : good cn (EBinary ar BRange (EInt af f) (EInt at_ t)) = true) by (apply Gc'; right; left; reflexivity).
  pose proof (good_children_lit_ok _ Gr eq_refl) as Lr. cbn [children forallb] in Lr.
  apply andb_prop in Lr. destruct Lr as [Lf Lt]. rewrite andb_true_r in Lt.
  unfold lit_child_ok in Lf, Lt. cbn [is_lit negb orb] in Lf, Lt. apply kint_eq in Lf. apply kint_eq in Lt.
  cbn in Lf, Lt.
  assert (Gconj : good cn (conj_of a x (EInt af f) (EInt at_ t)) = true).
  { apply good_intro.
    - reflexivity.
    - reflexivity.
    - intros c [<-|[<-|[]]]; apply good_cmp; auto. }
  assert (Enew : esim0 (match op with BNotIn => EUnary a UNotWord (conj_of a x (EInt af f) (EInt at_ t)) | _ => conj_of a x (EInt af f) (EInt at_ t) end)
                       (EBinary a op n1 n2)).
  { constructor.
    - destruct op; try discriminate; reflexivity.
    - destruct op; discriminate.
    - destruct op; discriminate.
    - destruct op; discriminate.
    - intros Hs. cbn [simple] in Hs. apply andb_prop in Hs. destruct Hs as [_ Hs].
      pose proof (es_simple _ _ _ _ _ _ (proj1 Hr) Hs) as Hc. discriminate.
    - intros _. destruct op; try discriminate; [|exact Gconj].
      apply good_intro; [reflexivity|reflexivity|]. intros c [<-|[]]. exact Gconj.
    - intros ctx s' s S.
      assert (Oo : is_or op = false) by (destruct op; try discriminate; reflexivity).
      assert (Oa : is_and op = false) by (destruct op; try discriminate; reflexivity).
      rewrite (ev_binary fe cfg env ctx a op n1 n2), Oo, Oa.
      pose proof (es_sem _ _ _ _ _ _ (proj1 Hx) ctx s' s S) as Hxs.
      assert (Conj : forall st, ev ctx (conj_of a x (EInt af f) (EInt at_ t)) st =
                rbind (ev ctx x st) (fun va s1 => rbind (bin_strict (aloc ann0) fe cfg BGe x (EInt af f) va (vint (iv f)) s1)
                  (fun vc s2 => lift (aloc a) s2 (as_bool vc) (fun b =>
                     if b then rbind (ev ctx x s2) (fun vd s3 => bin_strict (aloc ann0) fe cfg BLe x (EInt at_ t) vd (vint (iv t)) s3)
                     else Done vc s2)))).
      { intros st. unfold conj_of. rewrite ev_binary. cbn [is_or is_and]. rewrite (ev_binary fe cfg env ctx ann0 BGe).
        cbn [is_or is_and].
        destruct (ev ctx x st) as [va s1|er l s1]; cbn [rbind]; [|reflexivity].
        rewrite ev_int, (int_const_int af KInt f Lf eq_refl). cbn [rbind]. fold (iv f). fold (vint (iv f)).
        destruct (bin_strict (aloc ann0) fe cfg BGe x (EInt af f) va (vint (iv f)) s1) as [vc s2|? ? ?]; cbn [rbind]; [|reflexivity].
        destruct (as_bool vc) as [b|]; cbn [lift]; [|reflexivity]. destruct b; [|reflexivity].
        rewrite (ev_binary fe cfg env ctx ann0 BLe). cbn [is_or is_and].
        destruct (ev ctx x s2); cbn [rbind]; [|reflexivity].
        rewrite ev_int, (int_const_int at_ KInt t Lt eq_refl). reflexivity. }
      destruct (simple_eval x Sx ctx) as [(v & Ev)|(er & l & Ev)].
      + (* the left operand evaluates to v, twice *)
        rewrite Ev in Hxs. apply rsim_Done_inv in Hxs. destruct Hxs as [(l2 & s2 & E)|(s1 & E & S1)].
        * apply budget_sim. rewrite E. eexists _, _; reflexivity.
        * rewrite E. cbn [rbind]. destruct (HP _ _ _ _ E) as (k & z & -> & Hk & Hz).
          pose proof (es_sem _ _ _ _ _ _ (proj1 Hr) ctx s' s1 S1) as Hrs.
          destruct (range_lit_cases ctx ar af f at_ t s' Lf Lt) as [(lb & sb & Eb)|(n & Hn & _ & Er)].
          -- rewrite Eb in Hrs. apply budget_sim. apply rbind_budget. eapply budget_left_inv; exact Hrs.
          -- rewrite Er in Hrs. apply rsim_Done_inv in Hrs. destruct Hrs as [(l2 & s2 & E2)|(s2 & E2 & S2)].
             ++ apply budget_sim. rewrite E2. eexists _, _; reflexivity.
             ++ rewrite E2. cbn [rbind].
                assert (St2 : ssim cn s' s2).
                { destruct S2 as [M2 T2]. cbn [r_mem r_trace] in *. split; [lia|exact T2]. }
                destruct (in_range_sound k z (iv f) (iv t) Hk Hz (iv_idem f) (iv_idem t)) as (Pin & Pge & Ple).
                assert (Cv : ev ctx (conj_of a x (EInt af f) (EInt at_ t)) s' =
                             Done (VBool ((iv f <=? wrap KInt z) && (wrap KInt z <=? iv t))) s').
                { rewrite Conj, Ev. cbn [rbind bin_strict]. rewrite Pge. cbn [lift rbind as_bool].
                  destruct (iv f <=? wrap KInt z); cbn [andb]; [|reflexivity].
                  rewrite Ev. cbn [rbind bin_strict]. rewrite Ple. reflexivity. }
                destruct op; try discriminate; cbn [bin_strict]; rewrite Pin; cbn [lift].
                ** rewrite ev_unary, Cv. cbn [rbind lift as_bool]. apply rsim_Done; exact St2.
                ** rewrite Cv. apply rsim_Done; exact St2.
      + (* the left operand fails: at the same place in both programs *)
        rewrite Ev in Hxs. apply rsim_Stop_inv in Hxs. destruct Hxs as [(l2 & s2 & E)|(s1 & E & S1)].
        * apply budget_sim. rewrite E. eexists _, _; reflexivity.
        * rewrite E. cbn [rbind].
          assert (Cv : ev ctx (conj_of a x (EInt af f) (EInt at_ t)) s' = Stop er l s') by (rewrite Conj, Ev; reflexivity).
          destruct op; try discriminate.
          -- rewrite ev_unary, Cv. cbn [rbind]. apply rsim_Stop; exact S1.
          -- rewrite Cv. apply rsim_Stop; exact S1. }
  apply esim_nonpair; [destruct op; reflexivity|reflexivity|destruct op; reflexivity|exact Enew].
Qed.

Definition Site_ir (n : expr) : Prop :=
  forall a op n1 n2, n = EBinary a op n1 n2 -> is_in_op op = true -> is_range n2 = true ->
    in_range_left_ok (kind_of n1) = true ->
    simple n1 = true /\
    forall ctx s v s1, ev ctx n1 s = Done v s1 ->
      exists k z, v = VNum (NInt k z) /\ exact_kind k = true /\ in_range k z = true.

Lemma range_lit_inv x from to : range_lit x = Some (from, to) ->
  exists ar af f at_ t, x = EBinary ar BRange (EInt af f) (EInt at_ t) /\ from = EInt af f /\ to = EInt at_ t.
Proof.
  destruct x; try discriminate. cbn [range_lit]. destruct op; try discriminate.
  destruct (int_lit x1) as [[af f]|] eqn:L1; [|discriminate]. destruct (int_lit x2) as [[at_ t]|] eqn:L2; [|discriminate].
  apply int_lit_inv in L1. apply int_lit_inv in L2. subst. intros E. inversion E; subst. eexists _, _, _, _, _. eauto.
Qed.

Lemma in_range_local n' n : rel1 n' n -> good cn n = true -> Site_ir n -> esim (fst (in_range_v n')) n.
Proof.
  intros Hrel G HS. pose proof (rel1_esim _ _ _ _ _ _ Hrel) as Hdef. destruct Hrel as (cs & -> & H).
  prep_children H n; cbn [rebuild] in *; cbn [in_range_v]; try exact Hdef.
  destruct (range_lit x0) as [[from to]|] eqn:R; [|exact Hdef].
  apply range_lit_inv in R. destruct R as (ar & af & f & at_ & t & -> & -> & ->).
  destruct (is_in_op op && in_range_left_ok (kind_of x)) eqn:C; [|exact Hdef].
  apply andb_prop in C. destruct C as [Cop Ck].
  pose proof (es_good _ _ _ _ _ _ (proj1 Hdef) G) as G'.
  match goal with E1 : esim x ?c1, E2 : esim (EBinary ar BRange _ _) ?c2 |- _ =>
    pose proof (es_kind _ _ _ _ _ _ (proj1 E1)) as Kx;
    pose proof (es_rng _ _ _ _ _ _ (proj1 E2) eq_refl) as Rn;
    rewrite Kx in Ck; destruct (HS _ _ _ _ eq_refl Cop Rn Ck) as [Sn HP];
    pose proof (es_simple _ _ _ _ _ _ (proj1 E1) Sn) as Sx;
    pose proof (in_range_core a op x ar af f at_ t _ _ Cop E1 E2 Sx HP G') as Core
  end.
  destruct op; try discriminate; exact Core.
Qed.

(* ---------------- const_range ---------------- *)
(* descending ranges never span more than 2^63: the optimizer (like vm.makeRange) computes the
   size with wrap-around, the reference semantics says "empty when descending" *)
Definition Site_cr (n : expr) : Prop :=
  forall a n1 n2, n = EBinary a BRange n1 n2 ->
  forall ctx s lo s1 hi s2, ev ctx n1 s = Done (vint lo) s1 -> ev ctx n2 s1 = Done (vint hi) s2 -> - 2 ^ 63 <= hi - lo.

Lemma iv_range z : - 2 ^ 63 <= iv z < 2 ^ 63.
Proof.
  pose proof (wrap_range KInt z eq_refl) as R. unfold in_range, min_of, max_of in R. cbn in R.
  apply andb_prop in R. destruct R as [R1 R2]. apply Z.leb_le in R1. apply Z.leb_le in R2. unfold iv. lia.
Qed.

Lemma const_range_local0 n' n : rel1 n' n -> good cn n = true -> esim (fst (const_range_v n')) n.
Proof.
  intros Hrel G. pose proof (rel1_esim _ _ _ _ _ _ Hrel) as Hdef. destruct Hrel as (cs & -> & H).
  prep_children H n; cbn [rebuild] in *; cbn [const_range_v]; try exact Hdef.
  destruct op; try exact Hdef.
  destruct (int_lit x) as [[a1 lo]|] eqn:L1; [|exact Hdef]. destruct (int_lit x0) as [[a2 hi]|] eqn:L2; [|exact Hdef].
  apply int_lit_inv in L1. apply int_lit_inv in L2. subst x x0.
  pose proof (es_good _ _ _ _ _ _ (proj1 Hdef) G) as G'.
  pose proof (good_children_lit_ok _ G' eq_refl) as Lr. cbn [children forallb] in Lr.
  apply andb_prop in Lr. destruct Lr as [Lf Lt]. rewrite andb_true_r in Lt.
  unfold lit_child_ok in Lf, Lt. cbn [is_lit negb orb] in Lf, Lt. apply kint_eq in Lf. apply kint_eq in Lt. cbn in Lf, Lt.
  set (size := wrap KInt (iv hi - iv lo + 1)).
  assert (Sem : forall v, (forall n, range_size (iv lo) (iv hi) = Some n -> make_range (iv lo) (iv hi) = v) ->
          sem_sim (EConst a v) (EBinary a BRange n1 n2)).
  { intros v Hv ctx s' s S. rewrite ev_const.
    pose proof (es_sem _ _ _ _ _ _ (proj1 Hdef) ctx s' s S) as Hs.
    destruct (range_lit_cases ctx a a1 lo a2 hi s' Lf Lt) as [(lb & sb & Eb)|(n & Hn & Rs & Er)].
    - rewrite Eb in Hs. apply budget_sim. eapply budget_left_inv; exact Hs.
    - rewrite Er in Hs. apply rsim_Done_inv in Hs. destruct Hs as [(l2 & s2 & E2)|(s2 & E2 & S2)].
      + apply budget_sim. rewrite E2. eexists _, _; reflexivity.
      + rewrite E2, (Hv n Rs). apply rsim_Done. destruct S2 as [M2 T2]. cbn [r_mem r_trace] in *. split; [lia|exact T2]. }
  (* since the repair of const_range.go (a descending range is tested on the values, the size only
     decides whether an ascending one is materialised) the span hypothesis `Site_cr` is not used *)
  pose proof (iv_range lo) as Rlo. pose proof (iv_range hi) as Rhi.
  destruct (Z.ltb_spec (iv hi) (iv lo)) as [D|D].
  - (* max < min: folded to the empty slice *)
    cbn [fst patch set_ann ann_of]. apply leaf_esim; try reflexivity; try discriminate.
    intros ctx s' s S. apply Sem; [|exact S]. intros n Rn. unfold make_range.
    destruct (Z.ltb_spec (iv hi) (iv lo)); [reflexivity|lia].
  - cbv zeta. fold size.
    destruct (Z.ltb_spec size 1) as [Sz|Sz]; [exact Hdef|]. cbn [orb].
    destruct (Z.ltb_spec range_window size) as [W|W]; [exact Hdef|].
    cbn [fst patch set_ann ann_of]. apply leaf_esim; try reflexivity; try discriminate.
    intros ctx s' s S. apply Sem; [|exact S]. intros n Rn. unfold make_range, range_size in *.
    destruct (Z.ltb_spec (iv hi) (iv lo)) as [D'|D']; [lia|].
    destruct (Z.leb_spec (iv hi - iv lo + 1) (max_of KInt)) as [M|M]; [|discriminate].
    unfold size. rewrite wrap_in_range; [reflexivity|reflexivity|].
    unfold in_range, min_of, max_of in *. cbn in *. apply andb_true_intro. split; apply Z.leb_le; lia.
Qed.

(* the statement with the span hypothesis, kept for the callers written before the repair *)
Lemma const_range_local n' n : rel1 n' n -> good cn n = true -> Site_cr n -> esim (fst (const_range_v n')) n.
Proof. intros Hrel G _. apply const_range_local0; assumption. Qed.

(* ---------------- the five passes and Optimize ---------------- *)
Definition sites (P : expr -> Prop) (e : expr) : Prop := Forall P (subterms e).

Theorem pass_in_array_sound e : sites Site_ia e -> esim (pass_in_array e) e.
Proof. intros HS. unfold pass_in_array. apply (map_post_esim0 _ Site_ia); [|exact HS]. intros n' n R S. apply in_array_local; assumption. Qed.

Theorem pass_fold_sound e e2 : good cn e = true -> pass_fold fe e = OOk e2 -> esim e2 e.
Proof. intros G H. unfold pass_fold in H. eapply iter_pass_esim; [|exact G|exact H]. intros x Gx. apply fold_walk_esim; exact Gx. Qed.

Theorem pass_const_expr_sound e e3 :
  const_fns_resolve -> good cn e = true -> pass_const_expr fe env cn e = OOk e3 -> esim e3 e.
Proof.
  intros HR G H. unfold pass_const_expr in H. destruct cn as [|c0 cr] eqn:Ecn.
  - inversion H; subst. apply esim_refl.
  - rewrite <- Ecn in *. eapply iter_pass_esim; [|exact G|exact H]. intros x Gx.
    apply (map_post_esim _ (fun _ => True)); [|exact Gx|apply Forall_forall; auto].
    intros n' n R Gn _. apply const_expr_local; assumption.
Qed.

Theorem pass_in_range_sound e : good cn e = true -> sites Site_ir e -> esim (pass_in_range e) e.
Proof.
  intros G HS. unfold pass_in_range. apply (map_post_esim _ Site_ir); [|exact G|exact HS].
  intros n' n R Gn S. apply in_range_local; assumption.
Qed.

Theorem pass_const_range_sound e : good cn e = true -> sites Site_cr e -> esim (pass_const_range e) e.
Proof.
  intros G HS. unfold pass_const_range. apply (map_post_esim _ Site_cr); [|exact G|exact HS].
  intros n' n R Gn S. apply const_range_local; assumption.
Qed.

Theorem optimize_esim e e' :
  sites Site_ia e ->
  good cn (pass_in_array e) = true ->
  const_fns_resolve ->
  (forall e3, before_in_range fe env cn e = OOk e3 -> sites Site_ir e3) ->
  (forall e4, before_const_range fe env cn e = OOk e4 -> sites Site_cr e4) ->
  optimize fe env cn e = OOk e' -> esim e' e.
Proof.
  intros H1 G1 HR H4 H5 Hopt.
  pose proof (pass_in_array_sound e H1) as E1.
  unfold optimize, before_const_range, before_in_range in *.
  destruct (pass_fold fe (pass_in_array e)) as [e2|] eqn:P2; cbn [obind] in *; [|discriminate].
  pose proof (pass_fold_sound _ _ G1 P2) as E2.
  pose proof (es_good _ _ _ _ _ _ (proj1 E2) G1) as G2.
  destruct (pass_const_expr fe env cn e2) as [e3|] eqn:P3; cbn [obind] in *; [|discriminate].
  pose proof (pass_const_expr_sound _ _ HR G2 P3) as E3.
  pose proof (es_good _ _ _ _ _ _ (proj1 E3) G2) as G3.
  pose proof (pass_in_range_sound e3 G3 (H4 e3 eq_refl)) as E4.
  pose proof (es_good _ _ _ _ _ _ (proj1 E4) G3) as G4.
  pose proof (pass_const_range_sound _ G4 (H5 _ eq_refl)) as E5.
  inversion Hopt; subst.
  eapply esim_trans; [exact E5|]. eapply esim_trans; [exact E4|]. eapply esim_trans; [exact E3|].
  eapply esim_trans; [exact E2|exact E1].
Qed.

End Passes.

(* ================================================================== the global theorem *)
(* The property at full strength: for every expression the optimizer accepts, every environment,
   closure context and run state, the optimized tree and the original one both fail or both
   succeed with ~v-equal values and the same call log (up to the calls of ConstExpr functions). *)
Definition obs_eq (cn : list string) (ro ru : result) : Prop :=
  match ro, ru with
  | Done v' s', Done v s => v' ~v v /\ strip cn (r_trace s') = strip cn (r_trace s)
  | Stop _ _ _, Stop _ _ _ => True
  | _, _ => False
  end.

Definition C02_transparent_full_statement : Prop :=
  forall fe cfg env cn e e', optimize fe env cn e = OOk e' ->
  forall ctx s, obs_eq cn (eval fe cfg env ctx e' s) (eval fe cfg env ctx e s).

(* side conditions of the proved theorem (each one is the negation of a recorded finding, or a
   statement that type annotations are sound at a rewrite site - the latter is property C03's) *)
Record side_conditions (fe : fenv) (cfg : config) (env : value) (cn : list string) (e : expr) : Prop := mkSide {
  (* at `x in [literals]` sites: x evaluates to an int / a string when it is typed int / string
     (not to nil: finding C02-in-array-nil-type), the literals are typed int *)
  sc_in_array : sites (Site_ia fe cfg env) e;
  (* after the in_array pass: literals read by the optimizer are typed int (C02-fold-retyped-int /
     -float, C02-constexpr-retyped-int), no array literal is folded to a typed slice
     (C02-array-fold-type, C02-array-fold-deep-equal) *)
  sc_good : good cn (pass_in_array e) = true;
  sc_resolve : const_fns_resolve fe env cn;
  (* at `x in a..b` sites (tree handed to the in_range pass): x neither calls nor allocates
     (C02-in-range-double-eval) and evaluates to an integer of kind int/int64/uint* in range
     (not nil: C02-in-range-nil-type; not int8/16/32: C02-in-range-narrow-int) *)
  sc_in_range : forall e3, before_in_range fe env cn e = OOk e3 -> sites (Site_ir fe cfg env) e3;
  (* descending constant ranges span less than 2^63 *)
  sc_range : forall e4, before_const_range fe env cn e = OOk e4 -> sites (Site_cr fe cfg env) e4
}.

(* PROVED, all 22 node kinds: under the side conditions the optimized tree simulates the original
   one up to the memory budget (rsim: equal values, equal failure class and location, equal call
   log up to ConstExpr calls, accounted memory not larger; no claim when the UNOPTIMIZED run
   exceeds the budget: finding C02-budget).  Not covered: array literals folded to typed slices
   (excluded by sc_good; their local soundness up to ~v is fold_array_sound). *)
Theorem C02_transparent_partial : forall fe cfg env cn e e',
  side_conditions fe cfg env cn e -> optimize fe env cn e = OOk e' ->
  forall ctx s, rsim vsim cn (eval fe cfg env ctx e' s) (eval fe cfg env ctx e s).
Proof.
  intros fe cfg env cn e e' [H1 H2 H3 H4 H5] Hopt ctx s.
  apply rsim_weaken; [apply vsim_refl|].
  apply (es_sem _ _ _ _ _ _ (proj1 (optimize_esim fe cfg env cn e e' H1 H2 H3 H4 H5 Hopt))). apply ssim_refl.
Qed.

Lemma rsim_obs_eq cn ro ru : rsim vsim cn ro ru -> (forall l s, ru <> Stop EBudget l s) -> obs_eq cn ro ru.
Proof.
  unfold rsim, obs_eq. destruct ru as [v s|e l s]; intros H NB.
  - destruct H as (v' & s' & -> & Hv & [_ Ht]). auto.
  - destruct H as [->|(s' & -> & _)]; [exfalso; eapply NB; reflexivity|exact I].
Qed.

Corollary C02_transparent_obs : forall fe cfg env cn e e',
  side_conditions fe cfg env cn e -> optimize fe env cn e = OOk e' ->
  forall ctx s, (forall l s1, eval fe cfg env ctx e s <> Stop EBudget l s1) ->
  obs_eq cn (eval fe cfg env ctx e' s) (eval fe cfg env ctx e s).
Proof. intros. apply rsim_obs_eq; [eapply C02_transparent_partial; eauto|assumption]. Qed.

(* ---------------- remaining per-rewrite lemmas in expression form ---------------- *)
Section Rewrites2.
Variable fe : fenv.
Variable cfg : config.
Variable env : value.
Notation ev := (eval fe cfg env).

(* array literal of int (resp. string) literals -> typed slice constant: same elements (~v), the
   folded constant is not charged to the memory budget *)
Lemma fold_array_sound : forall a es vs ctx s,
  is_nil_list es = false -> forallb lit_child_ok es = true ->
  (exists zs, all_ints es = Some zs /\ vs = map vint zs) \/ (all_ints es = None /\ exists ss, all_strs es = Some ss /\ vs = map VStr ss) ->
  exists t, ev ctx (fst (fold_v (f_pow fe) (EArray a es))) s = Done (VArr t vs) s /\
  (ev ctx (EArray a es) s = Stop EBudget (aloc a) s \/
   ev ctx (EArray a es) s = Done (VArr TIface vs) (mkRS (r_mem s + Z.of_nat (List.length vs)) (r_trace s))) /\
  VArr t vs ~v VArr TIface vs.
Proof.
  intros a es vs ctx s Hn Hl Hc.
  assert (Hv : Forall2 (evals_to fe cfg env) es vs).
  { destruct Hc as [(zs & Ai & ->)|(_ & ss & As & ->)]; apply const_args_vals; auto using all_ints_const_args, all_strs_const_args. }
  assert (Hu : ev ctx (EArray a es) s = Stop EBudget (aloc a) s \/
               ev ctx (EArray a es) s = Done (VArr TIface vs) (mkRS (r_mem s + Z.of_nat (List.length vs)) (r_trace s))).
  { rewrite ev_array, (ev_list_vals fe cfg env ctx _ _ Hv). unfold alloc. destruct (c_limit cfg <=? _); auto. }
  assert (Hs : forall t, VArr t vs ~v VArr TIface vs).
  { intros t. unfold vsim. cbn. clear. induction vs as [|x r IH]; [reflexivity|]. rewrite vsimb_refl, IH. reflexivity. }
  unfold fold_v, fold_array. rewrite Hn.
  destruct Hc as [(zs & Ai & ->)|(An & ss & As & ->)].
  - rewrite Ai. cbn [fst patch set_ann ann_of]. exists (TNum KInt). rewrite ev_const. auto.
  - rewrite An, As. cbn [fst patch set_ann ann_of]. exists TString. rewrite ev_const. auto.
Qed.

Lemma good_range_redex a a1 lo a2 hi :
  akind a1 = RKNum KInt -> akind a2 = RKNum KInt -> good [] (EBinary a BRange (EInt a1 lo) (EInt a2 hi)) = true.
Proof.
  intros K1 K2. apply good_intro.
  - unfold good_node, wt_node, lit_child_ok, kint, kind_of. cbn. rewrite K1, K2. reflexivity.
  - reflexivity.
  - intros c [<-|[<-|[]]]; reflexivity.
Qed.

(* a..b with literal bounds -> the materialised []int (size window 1 .. 10^6), never charged to the budget.
   Since the repair of const_range.go (80e2856) no hypothesis on the span hi - lo is needed. *)
Lemma const_range_sound : forall a a1 lo a2 hi ctx s,
  akind a1 = RKNum KInt -> akind a2 = RKNum KInt ->
  rsim eq [] (ev ctx (fst (const_range_v (EBinary a BRange (EInt a1 lo) (EInt a2 hi)))) s)
             (ev ctx (EBinary a BRange (EInt a1 lo) (EInt a2 hi)) s).
Proof.
  intros a a1 lo a2 hi ctx s K1 K2.
  set (n := EBinary a BRange (EInt a1 lo) (EInt a2 hi)).
  assert (R : rel1 fe cfg env [] n n).
  { exists (children n). split; [reflexivity|]. unfold n. cbn [children].
    constructor; [apply esim_refl|constructor; [apply esim_refl|constructor]]. }
  pose proof (const_range_local0 fe cfg env [] n n R (good_range_redex a a1 lo a2 hi K1 K2)) as L.
  apply (es_sem _ _ _ _ _ _ (proj1 L)). apply ssim_refl.
Qed.

End Rewrites2.

(* ================================================================== Part 7: known findings *)
(* A small environment for the witnesses: Inc(int) int, GI8(int8) int8, GF64(float64) float64,
   GA([]interface{}) int.  Trees carry the annotations checker.Check gives them. *)
Local Open Scope string_scope.
Definition w_sig (id : string) : option fsig :=
  if String.eqb id "Inc" then Some (mkSig [TNum KInt] false 1 false)
  else if String.eqb id "GI8" then Some (mkSig [TNum KInt8] false 1 false)
  else if String.eqb id "GF64" then Some (mkSig [TNum KF64] false 1 false)
  else if String.eqb id "GA" then Some (mkSig [TSlice TIface] false 1 false)
  else None.
Definition w_run (id : string) (recv : value) (args : list value) : outcome value :=
  if String.eqb id "Inc" then match args with [VNum (NInt KInt a)] => Ok (vint (wrap KInt (a + 1))) | _ => Fail EOther end
  else if String.eqb id "GA" then match args with [VArr _ l] => Ok (vint (Z.of_nat (List.length l))) | _ => Fail EOther end
  else match args with [x] => Ok x | _ => Fail EOther end.
Definition w_fe : fenv := mkFenv w_sig w_run (fun _ _ _ => None) (fun _ _ => None) (fun _ _ => nan).
Definition w_func (n : string) : string * value := (n, VFunc n (TFunc [] false [])).
Definition w_env : value :=
  VStruct "Env" true [("I8", VNum (NInt KInt8 44)); ("N", VNil); ("AI", VArr (TNum KInt) [vint 1; vint 2]);
                      w_func "Inc"; w_func "GI8"; w_func "GF64"; w_func "GA"].
Definition w_cfg (limit : Z) : config := mkCfg false limit.

Definition ki : rkind := RKNum KInt.
Definition A (k : rkind) : ann := mkAnn (1, 0) k.
Definition lit (z : Z) : expr := EInt (A ki) z.
Definition w_run_pair (limit : Z) (cn : list string) (e : expr) : ores * result * result :=
  let o := optimize w_fe w_env cn e in
  (o, match o with OOk e' => eval w_fe (w_cfg limit) w_env [] e' rs0 | OFail _ => Stop EOther noloc rs0 end,
   eval w_fe (w_cfg limit) w_env [] e rs0).

Definition obs_eqb (ro ru : result) : bool :=
  match ro, ru with
  | Done v' s', Done v s => vsimb v' v && Nat.eqb (List.length (r_trace s')) (List.length (r_trace s))
  | Stop _ _ _, Stop _ _ _ => true
  | _, _ => false
  end.

Lemma obs_eq_b ro ru : obs_eq [] ro ru -> obs_eqb ro ru = true.
Proof.
  unfold obs_eq, obs_eqb. destruct ro, ru; auto. intros [Hv Ht]. rewrite Hv.
  assert (S : forall t, strip [] t = t) by (induction t as [|x r IH]; [reflexivity|]; change (strip [] (x :: r)) with (x :: strip [] r); f_equal; exact IH).
  rewrite !S in Ht. rewrite Ht, Nat.eqb_refl. reflexivity.
Qed.

(* generic refutation: one expression on which the optimized and the unoptimized tree are observably different *)
Lemma refute_by (limit : Z) (e : expr) :
  (match w_run_pair limit [] e with (OOk _, ro, ru) => negb (obs_eqb ro ru) | _ => false end) = true ->
  ~ C02_transparent_full_statement.
Proof.
  intros W F. unfold w_run_pair in W. destruct (optimize w_fe w_env [] e) as [e'|] eqn:O; [|discriminate].
  pose proof (F w_fe (w_cfg limit) w_env [] e e' O [] rs0) as H. apply obs_eq_b in H. rewrite H in W. discriminate.
Qed.

(* (1) C02-budget: folded constants are not charged.  len(1..20) under a budget of 10 elements. *)
Definition K_budget (e : expr) : bool :=
  existsb (fun n => is_range n || match n with EArray _ _ => true | _ => false end) (subterms e).
Definition w_budget : expr := EBuiltin (A ki) BiLen [EBinary (A RKSlice) BRange (lit 1) (lit 20)].
Theorem C02_budget_refuted : K_budget w_budget = true /\ ~ C02_transparent_full_statement.
Proof. split; [reflexivity|]. apply (refute_by 10 w_budget). vm_compute. reflexivity. Qed.

(* (2) C02-array-fold-type: GA([1, 2]) with GA func([]interface{}) int *)
Definition K_array_fold (e : expr) : bool := existsb foldable_array (subterms e).
Definition w_array_type : expr := EFunction (A ki) "GA" [EArray (A RKSlice) [lit 1; lit 2]] false.
Theorem C02_array_fold_type_refuted : K_array_fold w_array_type = true /\ ~ C02_transparent_full_statement.
Proof. split; [reflexivity|]. apply (refute_by 1000 w_array_type). vm_compute. reflexivity. Qed.

(* (7) C02-array-fold-deep-equal: {a: [1, 2]} == {a: AI} *)
Definition w_array_deep : expr :=
  EBinary (A RKBool) BEq
    (EMap (A RKMap) [EPair (A RKInvalid) (EStr (A RKString) "a") (EArray (A RKSlice) [lit 1; lit 2])])
    (EMap (A RKMap) [EPair (A RKInvalid) (EStr (A RKString) "a") (EIdent (A RKSlice) "AI" false)]).
Theorem C02_array_fold_deep_equal_refuted : K_array_fold w_array_deep = true /\ ~ C02_transparent_full_statement.
Proof. split; [reflexivity|]. apply (refute_by 1000 w_array_deep). vm_compute. reflexivity. Qed.

(* (3) C02-in-range-double-eval: Inc(1) in 1..3 calls Inc twice *)
Definition in_site (p : expr -> bool) (n : expr) : bool :=
  match n with EBinary _ op l r => is_in_op op && is_range r && p l | _ => false end.
Definition K_in_range_double_eval (e : expr) : bool := existsb (in_site (fun l => negb (simple l))) (subterms e).
Definition w_double : expr :=
  EBinary (A RKBool) BIn (EFunction (A ki) "Inc" [lit 1] false) (EBinary (A RKSlice) BRange (lit 1) (lit 3)).
Theorem C02_in_range_double_eval_refuted : K_in_range_double_eval w_double = true /\ ~ C02_transparent_full_statement.
Proof. split; [reflexivity|]. apply (refute_by 1000 w_double). vm_compute. reflexivity. Qed.

(* (4) C02-in-range-nil-type: nil in 1..3 *)
Definition K_in_range_nil_type (e : expr) : bool :=
  existsb (in_site (fun l => rkind_eqb (kind_of l) RKInvalid)) (subterms e).
Definition w_nil_range : expr := EBinary (A RKBool) BIn (ENil (A RKInvalid)) (EBinary (A RKSlice) BRange (lit 1) (lit 3)).
Theorem C02_in_range_nil_type_refuted : K_in_range_nil_type w_nil_range = true /\ ~ C02_transparent_full_statement.
Proof. split; [reflexivity|]. apply (refute_by 1000 w_nil_range). vm_compute. reflexivity. Qed.

(* (8) C02-in-range-narrow-int: I8 in 100..300 with I8 = 44 (300 wraps to int8 44 under C14-rank) *)
Definition K_in_range_narrow (e : expr) : bool :=
  existsb (in_site (fun l => match kind_of l with RKNum (KInt8 | KInt16 | KInt32) => true | _ => false end)) (subterms e).
Definition w_narrow : expr :=
  EBinary (A RKBool) BIn (EIdent (A (RKNum KInt8)) "I8" false) (EBinary (A RKSlice) BRange (lit 100) (lit 300)).
Theorem C02_in_range_narrow_int_refuted : K_in_range_narrow w_narrow = true /\ ~ C02_transparent_full_statement.
Proof. split; [reflexivity|]. apply (refute_by 1000 w_narrow). vm_compute. reflexivity. Qed.

(* (9) C02-in-array-nil-type: an int-typed left operand that is nil at run time (P?.X with P nil) *)
Definition w_nil_array : expr := EBinary (A RKBool) BIn (EIdent (A ki) "N" false) (EArray (A RKSlice) [lit 1]).
Theorem C02_in_array_nil_type_refuted : ~ C02_transparent_full_statement.
Proof. apply (refute_by 1000 w_nil_array). vm_compute. reflexivity. Qed.

(* (5) (6) C02-fold-retyped-int / -float: literals retyped to the parameter type by the checker *)
Definition K_retyped (cn : list string) (e : expr) : bool :=
  negb (allsub (fun n => wt_node n && cx_node cn n) e).
Definition w_retyped_int : expr :=
  EFunction (A (RKNum KInt8)) "GI8" [EBinary (A ki) BDiv (EInt (A (RKNum KInt8)) 200) (EInt (A (RKNum KInt8)) 3)] false.
Theorem C02_fold_retyped_int_refuted : K_retyped [] w_retyped_int = true /\ ~ C02_transparent_full_statement.
Proof. split; [reflexivity|]. apply (refute_by 1000 w_retyped_int). vm_compute. reflexivity. Qed.

Definition w_retyped_float : expr :=
  EFunction (A (RKNum KF64)) "GF64"
    [EBinary (A ki) BAdd (EBinary (A ki) BAdd (EInt (A (RKNum KF64)) 9007199254740992) (EInt (A (RKNum KF64)) 1))
                         (EInt (A (RKNum KF64)) 1)] false.
Theorem C02_fold_retyped_float_refuted : K_retyped [] w_retyped_float = true /\ ~ C02_transparent_full_statement.
Proof. split; [reflexivity|]. apply (refute_by 1000 w_retyped_float). vm_compute. reflexivity. Qed.

(* ---------------- non-vacuity: an expression in which four rewrites fire meets all side conditions ---------------- *)
Definition x_env : value := VStruct "Env" true [("I", vint 3); w_func "Inc"].
(* (I in 1..(1 + 2)) and (len(1..4) == 2 * 2) and (I in [3, 5]) *)
Definition x_expr : expr :=
  EBinary (A RKBool) BAndWord
    (EBinary (A RKBool) BAndWord
      (EBinary (A RKBool) BIn (EIdent (A ki) "I" false)
         (EBinary (A RKSlice) BRange (lit 1) (EBinary (A ki) BAdd (lit 1) (lit 2))))
      (EBinary (A RKBool) BEq (EBuiltin (A ki) BiLen [EBinary (A RKSlice) BRange (lit 1) (lit 4)])
         (EBinary (A ki) BMul (lit 2) (lit 2))))
    (EBinary (A RKBool) BIn (EIdent (A ki) "I" false) (EArray (A RKSlice) [lit 3; lit 5])).

Ltac site_cases :=
  apply Forall_forall; intros n Hin; vm_compute in Hin;
  repeat (destruct Hin as [<-|Hin]); try contradiction.

Lemma x_ident_val cfg ctx s v t : eval w_fe cfg x_env ctx (EIdent (A ki) "I" false) s = Done v t -> c_mapenv cfg = false -> v = vint 3.
Proof. intros E M. rewrite ev_ident in E. unfold fetch_ident in E. rewrite M in E. cbn in E. inversion E. reflexivity. Qed.

Example x_side_conditions : side_conditions w_fe (w_cfg 1000) x_env [] x_expr.
Proof.
  constructor.
  - site_cases; intros a op n1 n2 E Hop; inversion E; subst; try discriminate Hop; (split; [|intros; discriminate || (match goal with H : _ = EArray _ _ |- _ => inversion H; subst end; repeat match goal with H : In _ _ |- _ => destruct H as [<-|H] end; try contradiction; reflexivity)]).
    + intros ctx s v t Ev. apply x_ident_val in Ev; [|reflexivity]. subst. split; [eauto|discriminate].
    + intros ctx s v t Ev. apply x_ident_val in Ev; [|reflexivity]. subst. split; [eauto|discriminate].
  - vm_compute. reflexivity.
  - intros name H. discriminate.
  - intros e3 H. vm_compute in H. inversion H; subst. clear H.
    site_cases; intros a op n1 n2 E Hop Hr Hk; inversion E; subst; try discriminate Hop; try discriminate Hr.
    split; [reflexivity|]. intros ctx s v s1 Ev. apply x_ident_val in Ev; [|reflexivity]. subst.
    exists KInt, 3. repeat split; reflexivity.
  - intros e4 H. vm_compute in H. inversion H; subst. clear H.
    site_cases; intros a n1 n2 E ctx s lo s1 hi s2 E1 E2; inversion E; subst.
    cbn in E1. inversion E1; subst. cbn in E2. inversion E2; subst. vm_compute. discriminate.
Qed.

Example x_optimized :
  optimize w_fe x_env [] x_expr =
  OOk (EBinary (A RKBool) BAndWord
        (EBinary (A RKBool) BAndWord
          (EBinary (A RKBool) BAndWord (EBinary ann0 BGe (EIdent (A ki) "I" false) (lit 1)) (EBinary ann0 BLe (EIdent (A ki) "I" false) (lit 3)))
          (EBinary (A RKBool) BEq (EBuiltin (A ki) BiLen [EConst (A RKSlice) (VArr (TNum KInt) [vint 1; vint 2; vint 3; vint 4])]) (lit 4)))
        (EBinary (A RKBool) BIn (EIdent (A ki) "I" false) (EConst ann0 (int_set [3; 5])))).
Proof. vm_compute. reflexivity. Qed.

(* ================================================================== Part 6: what the optimizer rejects *)
Local Close Scope string_scope.
(* constant integer expressions: the literal (static kind, value) the fold pass reduces them to *)
Fixpoint cint (e : expr) : option (rkind * Z) :=
  match e with
  | EInt a z => Some (akind a, iv z)
  | EUnary _ UMinus x => match cint x with Some (k, z) => Some (k, wrap KInt (- z)) | None => None end
  | EUnary _ UPlus x => cint x
  | EBinary a op l r =>
      match cint l, cint r with
      | Some (k1, x), Some (k2, y) =>
          match op with
          | BAdd => Some (k1, wrap KInt (x + y))
          | BSub => Some (k1, wrap KInt (x - y))
          | BMul => Some (k1, wrap KInt (x * y))
          | BDiv => if is_float_kind k1 || is_float_kind k2 then None else if y =? 0 then None else Some (k1, wrap KInt (Z.quot x y))
          | BMod => if y =? 0 then None else Some (akind a, wrap KInt (Z.rem x y))
          | _ => None
          end
      | _, _ => None
      end
  | _ => None
  end.

(* a constant integer division or modulo by zero *)
Definition dz_node (n : expr) : bool :=
  match n with
  | EBinary a op l r =>
      match op, cint l, cint r with
      | BDiv, Some (k1, _), Some (k2, y) => negb (is_float_kind k1 || is_float_kind k2) && (y =? 0)
      | BMod, Some _, Some (_, y) => y =? 0
      | _, _, _ => false
      end
  | _ => false
  end.
Definition has_dz (e : expr) : bool := existsb dz_node (subterms e).

Lemma has_dz_node e : has_dz e = dz_node e || existsb has_dz (children e).
Proof.
  unfold has_dz. rewrite subterms_children. cbn [existsb]. f_equal.
  induction (children e) as [|c r IH]; [reflexivity|]. cbn [flat_map existsb]. rewrite existsb_app, IH. reflexivity.
Qed.

Definition err_of (r : expr * acc) : option loc := snd (snd r).

Lemma err_join a b : snd (join a b) = match snd b with Some l => Some l | None => snd a end.
Proof. reflexivity. Qed.

Fixpoint last_err (l : list (option loc)) : option loc :=
  match l with [] => None | x :: r => match last_err r with Some e => Some e | None => x end end.

Lemma map_post_list_err f l :
  snd (snd (map_post_list f l)) = last_err (map (fun c => err_of (map_post f c)) l).
Proof.
  induction l as [|x r IH]; [reflexivity|]. cbn [map_post_list map last_err]. rewrite <- IH. unfold err_of.
  destruct (map_post f x) as [x' [b1 o1]]. destruct (map_post_list f r) as [r' [b2 o2]]. cbn [snd join]. reflexivity.
Qed.

Lemma map_post_err_eq (vis : visitor) e :
  err_of (map_post vis e) =
  match err_of (vis (rebuild e (map (fun c => fst (map_post vis c)) (children e)))) with
  | Some l => Some l
  | None => last_err (map (fun c => err_of (map_post vis c)) (children e))
  end.
Proof.
  unfold err_of.
  destruct e; try (destruct from as [fr|], to as [tt|]);
  cbn [map_post children map rebuild last_err opt_list app]; rewrite ?mp_list_eq;
  try (destruct (snd (snd (vis _))); reflexivity);
  repeat match goal with
       | |- context[map_post_list vis ?l] =>
           let H := fresh "HL" in let H' := fresh "HE" in
           pose proof (map_post_list_fst vis l) as H; pose proof (map_post_list_err vis l) as H';
           unfold err_of in H';
           destruct (map_post_list vis l) as [? [? ?]]; cbn [fst snd] in H, H'; subst
       | |- context[map_post vis ?x] => destruct (map_post vis x) as [? [? ?]]; cbn [fst snd]
       end;
  repeat match goal with
       | |- context[let '(_, _) := vis ?x in _] => destruct (vis x) as [? [? ?]]; cbn [fst snd]
       end; unfold acc0; cbn [join fst snd];
  repeat match goal with |- context[match ?o with Some _ => _ | None => _ end] => destruct o end; reflexivity.
Qed.

Lemma last_err_none l : last_err l = None -> forall x, In x l -> x = None.
Proof.
  induction l as [|y r IH]; intros H x Hin; [destruct Hin|]. cbn [last_err] in H.
  destruct (last_err r) eqn:E; [discriminate|]. destruct Hin as [<-|Hin]; [exact H|apply IH; auto].
Qed.

Lemma last_err_some l x : last_err l = Some x -> In (Some x) l.
Proof.
  induction l as [|y r IH]; intros H; [discriminate|]. cbn [last_err] in H.
  destruct (last_err r) eqn:E; [inversion H; subst; right; apply IH; reflexivity|left; exact H].
Qed.

Lemma children_rebuild {R : expr -> expr -> Prop} n cs : Forall2 R cs (children n) -> children (rebuild n cs) = cs.
Proof. intros H. prep_children H n; reflexivity. Qed.

Lemma rebuild_cint n cs : Forall2 (fun c' c => cint c' = cint c) cs (children n) ->
  cint (rebuild n cs) = cint n /\ dz_node (rebuild n cs) = dz_node n.
Proof.
  intros H. prep_children H n; cbn [rebuild cint dz_node]; try (split; reflexivity).
  - match goal with E : cint _ = cint _ |- _ => rewrite E end. split; reflexivity.
  - repeat match goal with E : cint _ = cint _ |- _ => rewrite E; clear E end. split; reflexivity.
Qed.

Section DZ.
Variable f : visitor.
Hypothesis Hc : forall n, err_of (f n) = None -> cint (fst (f n)) = cint n.
Hypothesis Hd : forall n, err_of (f n) = None -> has_dz (fst (f n)) = true -> has_dz n = true.
Hypothesis He : forall n l, err_of (f n) = Some l -> dz_node n = true.

Lemma dz_walk : forall e,
  (err_of (map_post f e) = None ->
     cint (fst (map_post f e)) = cint e /\ (has_dz (fst (map_post f e)) = true -> has_dz e = true)) /\
  (forall l, err_of (map_post f e) = Some l -> has_dz e = true).
Proof.
  apply expr_children_ind. intros e IH.
  set (cs := map (fun c => fst (map_post f c)) (children e)).
  pose proof (map_post_err_eq f e) as Eerr. pose proof (map_post_fst f e) as Efst. fold cs in Eerr, Efst.
  assert (Hchild : forall c, In c (children e) -> has_dz c = true -> has_dz e = true).
  { intros c Hin Hz. rewrite has_dz_node. apply orb_true_intro. right. apply existsb_exists. eauto. }
  assert (Hbad : forall l, In (Some l) (map (fun c => err_of (map_post f c)) (children e)) -> has_dz e = true).
  { intros l Hin. apply in_map_iff in Hin. destruct Hin as (c & Ec & Hc'). apply (Hchild c Hc'). apply (proj2 (IH c Hc') l Ec). }
  assert (Hok : last_err (map (fun c => err_of (map_post f c)) (children e)) = None ->
          cint (rebuild e cs) = cint e /\ dz_node (rebuild e cs) = dz_node e /\ (has_dz (rebuild e cs) = true -> has_dz e = true)).
  { intros Hn.
    assert (Hall : forall c, In c (children e) -> err_of (map_post f c) = None).
    { intros c Hin. apply (last_err_none _ Hn). apply in_map_iff. eauto. }
    assert (F2 : Forall2 (fun c' c => cint c' = cint c) cs (children e)).
    { unfold cs. clear -IH Hall. induction (children e) as [|c r IHr]; cbn [map]; constructor.
      - apply (proj1 (IH c (or_introl eq_refl)) (Hall c (or_introl eq_refl))).
      - apply IHr; intros; [apply IH|apply Hall]; right; assumption. }
    destruct (rebuild_cint e cs F2) as [C1 C2]. split; [exact C1|split; [exact C2|]].
    intros Hz. rewrite has_dz_node in Hz. rewrite (children_rebuild e cs F2) in Hz. rewrite has_dz_node.
    apply orb_prop in Hz. destruct Hz as [Hz|Hz]; [rewrite <- C2, Hz; reflexivity|].
    apply orb_true_intro. right. apply existsb_exists in Hz. destruct Hz as (c' & Hin' & Hz').
    unfold cs in Hin'. apply in_map_iff in Hin'. destruct Hin' as (c & <- & Hin). apply existsb_exists. exists c. split; [exact Hin|].
    apply (proj1 (IH c Hin) (Hall c Hin)). exact Hz'. }
  split.
  - intros Hn. rewrite Eerr in Hn. destruct (err_of (f (rebuild e cs))) eqn:Ef; [discriminate|].
    destruct (Hok Hn) as (C1 & C2 & C3). rewrite Efst. split; [rewrite (Hc _ Ef); exact C1|].
    intros Hz. apply C3. apply (Hd _ Ef Hz).
  - intros l Hl. rewrite Eerr in Hl. destruct (err_of (f (rebuild e cs))) eqn:Ef.
    + destruct (last_err (map (fun c => err_of (map_post f c)) (children e))) eqn:El.
      * apply (Hbad l1). apply last_err_some. exact El.
      * destruct (Hok eq_refl) as (_ & C2 & _). rewrite has_dz_node, <- C2, (He _ _ Ef). reflexivity.
    + apply (Hbad l). apply last_err_some. exact Hl.
Qed.
End DZ.

Lemma iv_wrap z : iv (wrap KInt z) = wrap KInt z.
Proof. unfold iv. apply wrap_idem. reflexivity. Qed.

Lemma fold_Hc pow n : err_of (fold_v pow n) = None -> cint (fst (fold_v pow n)) = cint n.
Proof.
  unfold err_of. destruct n; try reflexivity; cbn [fold_v].
  - destruct (int_lit n) as [[ai z]|] eqn:L; [apply int_lit_inv in L; subst|reflexivity].
    destruct op; try reflexivity; intros _; cbn [fst patch_ty set_ann cint akind]; rewrite ?iv_wrap, ?iv_idem; reflexivity.
  - destruct (int_lit n1) as [[a1 x]|] eqn:L1; [destruct (int_lit n2) as [[a2 y]|] eqn:L2|].
    + apply int_lit_inv in L1. apply int_lit_inv in L2. subst.
      destruct op; try reflexivity; cbn [fold_int_bin].
      * intros _. cbn [fst patch_ty set_ann cint akind]. rewrite iv_wrap. reflexivity.
      * intros _. cbn [fst patch_ty set_ann cint akind]. rewrite iv_wrap. reflexivity.
      * intros _. cbn [fst patch_ty set_ann cint akind]. rewrite iv_wrap. reflexivity.
      * destruct (is_float_kind (akind a1) || is_float_kind (akind a2)) eqn:F; [reflexivity|].
        destruct (iv y =? 0) eqn:Z0; [discriminate|]. intros _. cbn [fst patch_ty set_ann cint akind]. rewrite F, Z0, iv_wrap. reflexivity.
      * destruct (iv y =? 0) eqn:Z0; [discriminate|]. intros _. cbn [fst patch set_ann ann_of cint akind]. rewrite Z0, iv_wrap. reflexivity.
    + intros _. destruct op; try reflexivity. destruct (str_lit n1) eqn:S1; [|reflexivity].
      apply int_lit_inv in L1. subst. discriminate.
    + intros _. destruct op; try reflexivity. destruct (str_lit n1) as [s1|] eqn:S1; [|reflexivity].
      destruct (str_lit n2) as [s2|] eqn:S2; [|reflexivity].
      apply str_lit_inv in S1. destruct S1 as (a1 & ->). reflexivity.
  - intros _. unfold fold_array. destruct (is_nil_list es); [reflexivity|].
    destruct (all_ints es); [reflexivity|]. destruct (all_strs es); reflexivity.
Qed.

Lemma has_dz_leaf e : children e = [] -> dz_node e = false -> has_dz e = false.
Proof. intros C D. rewrite has_dz_node, C, D. reflexivity. Qed.

Lemma fold_Hd pow n : err_of (fold_v pow n) = None -> has_dz (fst (fold_v pow n)) = true -> has_dz n = true.
Proof.
  intros _. destruct n; try (intros H; exact H); cbn [fold_v].
  - destruct (int_lit n) as [[ai z]|]; [|intros H; exact H]. destruct op; try (intros H; exact H); discriminate.
  - destruct (int_lit n1) as [[a1 x]|]; [destruct (int_lit n2) as [[a2 y]|]|].
    + destruct op; try (intros H; exact H); cbn [fold_int_bin]; try discriminate.
      * destruct (is_float_kind (akind a1) || is_float_kind (akind a2)); [intros H; exact H|].
        destruct (iv y =? 0); [intros H; exact H|discriminate].
      * destruct (iv y =? 0); [intros H; exact H|discriminate].
    + destruct op; try (intros H; exact H). destruct (str_lit n1); [|intros H; exact H].
      destruct (str_lit n2); [discriminate|intros H; exact H].
    + destruct op; try (intros H; exact H). destruct (str_lit n1); [|intros H; exact H].
      destruct (str_lit n2); [discriminate|intros H; exact H].
  - unfold fold_array. destruct (is_nil_list es); [intros H; exact H|].
    destruct (all_ints es); [discriminate|]. destruct (all_strs es); [discriminate|intros H; exact H].
Qed.

Lemma fold_He pow n l : err_of (fold_v pow n) = Some l -> dz_node n = true.
Proof.
  unfold err_of. destruct n; try discriminate; cbn [fold_v].
  - destruct (int_lit n) as [[ai z]|]; [|discriminate]. destruct op; discriminate.
  - destruct (int_lit n1) as [[a1 x]|] eqn:L1; [destruct (int_lit n2) as [[a2 y]|] eqn:L2|].
    + apply int_lit_inv in L1. apply int_lit_inv in L2. subst.
      destruct op; try discriminate; cbn [fold_int_bin dz_node cint].
      * destruct (is_float_kind (akind a1) || is_float_kind (akind a2)); [discriminate|].
        destruct (iv y =? 0); [reflexivity|discriminate].
      * destruct (iv y =? 0); [reflexivity|discriminate].
    + destruct op; try discriminate. destruct (str_lit n1); [|discriminate]. destruct (str_lit n2); discriminate.
    + destruct op; try discriminate. destruct (str_lit n1); [|discriminate]. destruct (str_lit n2); discriminate.
  - unfold fold_array. destruct (is_nil_list es); [discriminate|].
    destruct (all_ints es); [discriminate|]. destruct (all_strs es); discriminate.
Qed.

Lemma in_array_Hc n : cint (fst (in_array_v n)) = cint n.
Proof.
  destruct n; try reflexivity. cbn [in_array_v]. destruct (arr_lit n2) as [es|] eqn:A; [|reflexivity].
  apply arr_lit_inv in A. destruct A as (aa & ->).
  destruct (is_in_op op && negb (is_nil_list es)) eqn:C; [|reflexivity]. apply andb_prop in C. destruct C as [Cop _].
  destruct (kind_of n1) as [| |k| | | | | | | |]; try reflexivity.
  - destruct k; try reflexivity. destruct (all_ints es); [|reflexivity]. cbn [fst patch set_ann cint].
    destruct (cint n1) as [[k1 x]|]; destruct op; try discriminate; reflexivity.
  - destruct (all_strs es); [|reflexivity]. cbn [fst patch set_ann cint].
    destruct (cint n1) as [[k1 x]|]; destruct op; try discriminate; reflexivity.
Qed.

Lemma in_array_err n : err_of (in_array_v n) = None.
Proof.
  unfold err_of. destruct n; try reflexivity. cbn [in_array_v]. destruct (arr_lit n2); [|reflexivity].
  destruct (is_in_op op && negb (is_nil_list l)); [|reflexivity].
  destruct (kind_of n1) as [| |k| | | | | | | |]; try reflexivity.
  - destruct k; try reflexivity. destruct (all_ints l); reflexivity.
  - destruct (all_strs l); reflexivity.
Qed.

Lemma in_array_Hd n : has_dz (fst (in_array_v n)) = true -> has_dz n = true.
Proof.
  destruct n; try (intros H; exact H). cbn [in_array_v]. destruct (arr_lit n2) as [es|] eqn:A; [|intros H; exact H].
  destruct (is_in_op op && negb (is_nil_list es)) eqn:C; [|intros H; exact H]. apply andb_prop in C. destruct C as [Cop _].
  assert (G : has_dz (EBinary a op n1 (EConst ann0 (int_set [])) ) = true -> True) by auto.
  assert (K : forall v, has_dz (EBinary a op n1 (EConst ann0 v)) = true -> has_dz (EBinary a op n1 n2) = true).
  { intros v H. rewrite has_dz_node in H. cbn [children existsb] in H. rewrite has_dz_node. cbn [children existsb].
    assert (D : dz_node (EBinary a op n1 (EConst ann0 v)) = false) by (destruct op; try discriminate; reflexivity).
    rewrite D in H. cbn [orb] in H. apply orb_prop in H. destruct H as [H|H].
    - rewrite H. rewrite orb_true_r. cbn. destruct (dz_node (EBinary a op n1 n2)); reflexivity.
    - cbn in H. discriminate. }
  destruct (kind_of n1) as [| |k| | | | | | | |]; try (intros H; exact H).
  - destruct k; try (intros H; exact H). destruct (all_ints es); [|intros H; exact H]. cbn [fst patch set_ann ann_of]. apply K.
  - destruct (all_strs es); [|intros H; exact H]. cbn [fst patch set_ann ann_of]. apply K.
Qed.

Lemma last_err_all_none l : (forall x, In x l -> x = None) -> last_err l = None.
Proof.
  induction l as [|y r IH]; intros H; [reflexivity|]. cbn [last_err]. rewrite IH by (intros; apply H; right; assumption).
  apply H. left; reflexivity.
Qed.

Lemma in_array_no_err : forall e, err_of (map_post in_array_v e) = None.
Proof.
  apply expr_children_ind. intros e IH. rewrite map_post_err_eq, in_array_err. apply last_err_all_none.
  intros x Hin. apply in_map_iff in Hin. destruct Hin as (c & <- & Hc). apply IH; exact Hc.
Qed.

Lemma in_array_dz e : has_dz (pass_in_array e) = true -> has_dz e = true.
Proof.
  unfold pass_in_array.
  destruct (dz_walk in_array_v (fun n _ => in_array_Hc n) (fun n _ => in_array_Hd n)
              (fun n l H => ltac:(rewrite in_array_err in H; discriminate)) e) as [H1 _].
  apply (H1 (in_array_no_err e)).
Qed.

Lemma iter_fold_dz pow n : forall e l, iter_pass (fold_v pow) n e = OFail l -> has_dz e = true.
Proof.
  induction n as [|n IH]; intros e l H; cbn [iter_pass] in H; [discriminate|].
  destruct (dz_walk (fold_v pow) (fold_Hc pow) (fold_Hd pow) (fold_He pow) e) as [H1 H2].
  unfold err_of in *. destruct (map_post (fold_v pow) e) as [e' [ap er]]. cbn [fst snd] in *.
  destruct er as [l'|]; [apply (H2 l' eq_refl)|]. destruct ap; [|discriminate].
  apply (proj2 (H1 eq_refl)). apply (IH e' l H).
Qed.

(* a ConstExpr call that fails (or that reflect refuses) when the optimizer makes it *)
Definition cx_fails (fe : fenv) (env : value) (cn : list string) : Prop :=
  exists name vs er, is_const_fn cn name = true /\ const_call fe env name vs = Fail er.

Lemma cx_err fe env cn n l : err_of (const_expr_v fe env cn n) = Some l -> cx_fails fe env cn.
Proof.
  unfold err_of. destruct n; try discriminate. cbn [const_expr_v]. destruct (is_const_fn cn name) eqn:C; [|discriminate].
  destruct (const_args args) as [vs|]; [|discriminate]. destruct (const_call fe env name vs) as [v|er] eqn:E; [discriminate|].
  intros _. exists name, vs, er. auto.
Qed.

Lemma cx_walk_err fe env cn : forall e l, err_of (map_post (const_expr_v fe env cn) e) = Some l -> cx_fails fe env cn.
Proof.
  apply (expr_children_ind (fun e => forall l, err_of (map_post (const_expr_v fe env cn) e) = Some l -> cx_fails fe env cn)).
  intros e IH l H. rewrite map_post_err_eq in H.
  destruct (err_of (const_expr_v fe env cn _)) eqn:E; [eapply cx_err; exact E|].
  apply last_err_some in H. apply in_map_iff in H. destruct H as (c & Ec & Hc). eapply IH; eauto.
Qed.

Lemma iter_cx_fails fe env cn n : forall e l, iter_pass (const_expr_v fe env cn) n e = OFail l -> cx_fails fe env cn.
Proof.
  induction n as [|n IH]; intros e l H; cbn [iter_pass] in H; [discriminate|].
  pose proof (cx_walk_err fe env cn e) as W. unfold err_of in W.
  destruct (map_post (const_expr_v fe env cn) e) as [e' [ap er]]. cbn [snd] in W.
  destruct er as [l'|]; [apply (W l' eq_refl)|]. destruct ap; [eapply IH; exact H|discriminate].
Qed.

(* the only expressions the optimizer rejects: a constant integer division / modulo by zero, or a
   ConstExpr call that fails at compile time *)
Theorem C02_only_div_zero_rejected : forall fe env cn e l,
  optimize fe env cn e = OFail l -> has_dz e = true \/ cx_fails fe env cn.
Proof.
  intros fe env cn e l H. unfold optimize, before_const_range, before_in_range in H.
  destruct (pass_fold fe (pass_in_array e)) as [e2|l2] eqn:P2; cbn [obind] in H.
  - destruct (pass_const_expr fe env cn e2) as [e3|l3] eqn:P3; cbn [obind] in H; [discriminate|].
    right. unfold pass_const_expr in P3. destruct cn; [discriminate|]. eapply iter_cx_fails; exact P3.
  - left. apply in_array_dz. unfold pass_fold in P2. eapply iter_fold_dz; exact P2.
Qed.

(* ... and such a call fails at run time as well: the failure only moved to compile time *)
Lemma const_call_failure_is_runtime_failure : forall fe cfg env a name args vs er ctx s,
  const_args args = Some vs -> forallb lit_child_ok args = true -> fetch_fn fe env name = Ok name ->
  const_call fe env name vs = Fail er ->
  exists er' s', eval fe cfg env ctx (EFunction a name args false) s = Stop er' (aloc a) s'.
Proof.
  intros fe cfg env a name args vs er ctx s A L F C.
  rewrite ev_function, (ev_list_vals fe cfg env ctx _ _ (const_args_vals fe cfg env _ _ A L)), F. cbn [lift].
  unfold const_call in C. unfold do_call. destruct (fn_sig fe name) as [sg|]; [|eauto].
  destruct (args_ok (s_ins sg) (s_variadic sg) vs); [|eauto].
  destruct (fn_run fe name env vs); [|eauto]. destruct (s_nout sg =? 0); [eauto|discriminate].
Qed.

(* ConstExpr: marking functions never changes a result (C02_transparent_partial with cn <> []: equal
   values, the marked calls vanish from the run-time call log); an expression it makes the optimizer
   reject contains a call that fails anyway. *)
Theorem C02_constexpr_pure : forall fe cfg env cn e,
  side_conditions fe cfg env cn e ->
  (forall e', optimize fe env cn e = OOk e' ->
     forall ctx s, rsim vsim cn (eval fe cfg env ctx e' s) (eval fe cfg env ctx e s)) /\
  (forall l, optimize fe env cn e = OFail l -> has_dz e = true \/ cx_fails fe env cn).
Proof.
  intros fe cfg env cn e SC. split.
  - intros e' H. apply C02_transparent_partial; assumption.
  - intros l H. eapply C02_only_div_zero_rejected; exact H.
Qed.

(* Opt/IfaceArithFinding.v - the Coq witness of the recorded finding C02-iface-arith-typed-int.
   `checker.combined` ranks interface{} below every numeric kind (typeWeight 0), so `Any + 1` with
   Any : interface{} is statically int.  The optimizer's in_array / in_range rewrites then fire on a
   membership test whose left value is a float64 at run time:
     (Any + 1) in [2, 3]   Any = 2.5   unoptimized false, optimized a run-time failure
     (Any + 1) in 1..5     Any = 2.5   unoptimized false, optimized true
   Here: (1) the MODEL CHECKER (Ty/Checker.v) annotates the two raw trees exactly as the witnesses are
   annotated (static type of `Any + 1`: int); (2) the MODEL OPTIMIZER (Opt/Optimizer.v) rewrites them
   (map-lookup form; two comparisons); (3) on Any = 2.5 the reference semantics (Sem/Sem.v) of the
   original and the optimized trees differ, hence the full transparency statement is false; (4) the
   witnesses are outside the hypotheses of C02_transparent_partial: `sc_in_array` (Site_ia) resp.
   `sc_in_range` (Site_ir) - the side conditions saying that the type annotation of the left operand
   is sound at the rewrite site - fail.  Everything by vm_compute on closed terms. *)
From Coq Require Import ZArith Bool List String Floats.
Require Import X.Base.Num X.Base.Value X.Syn.Ast X.Sem.Prim X.Sem.Sem.
Require Import X.Ty.Types X.Ty.TypesTable X.Ty.Checker X.Opt.Optimizer X.Opt.OptProofs.
Import ListNotations.
Open Scope Z_scope.
Local Open Scope string_scope.

(* ---------------- the environment: struct{ Any interface{} }, Any = 2.5 ---------------- *)
Definition ia_te : tenv := [("Env", mkStruct [mkField "Any" TIface false true] [] [])].
Definition ia_tb : TypesTable.table :=
  match create_types_table ia_te perm_id (EStruct (TStruct "Env")) with Some t => t | None => [] end.
Definition ia_cc : cconfig := mkCC ia_te (Some ia_tb) [] None true None.
Definition ia_env : value := VStruct "Env" true [("Any", VNum (NFlt KF64 2.5%float))].

(* ---------------- the trees as the parser builds them (no annotation yet) ---------------- *)
Definition U : ann := mkAnn (1, 0) RKInvalid.
Definition raw_any_plus_1 : expr := EBinary U BAdd (EIdent U "Any" false) (EInt U 1).
Definition raw_iface_array : expr := EBinary U BIn raw_any_plus_1 (EArray U [EInt U 2; EInt U 3]).
Definition raw_iface_range : expr := EBinary U BIn raw_any_plus_1 (EBinary U BRange (EInt U 1) (EInt U 5)).

(* ---------------- the trees as checker.Check annotates them ---------------- *)
Definition any_plus_1 : expr := EBinary (A ki) BAdd (EIdent (A RKInterface) "Any" false) (lit 1).
Definition w_iface_array : expr := EBinary (A RKBool) BIn any_plus_1 (EArray (A RKSlice) [lit 2; lit 3]).
Definition w_iface_range : expr := EBinary (A RKBool) BIn any_plus_1 (EBinary (A RKSlice) BRange (lit 1) (lit 5)).

(* (1) the model checker: Any is interface{}, `Any + 1` is int, no error; the annotated trees are the witnesses *)
Lemma iface_member_is_interface : check ia_cc (EIdent U "Any" false) = (TIface, EIdent (A RKInterface) "Any" false, None).
Proof. vm_compute. reflexivity. Qed.

Lemma iface_arith_typed_int : check ia_cc raw_any_plus_1 = (TNum KInt, any_plus_1, None).
Proof. vm_compute. reflexivity. Qed.

Lemma iface_array_checked : check ia_cc raw_iface_array = (TBool, w_iface_array, None).
Proof. vm_compute. reflexivity. Qed.

Lemma iface_range_checked : check ia_cc raw_iface_range = (TBool, w_iface_range, None).
Proof. vm_compute. reflexivity. Qed.

(* the cause, in isolation: combined(interface{}, int) = int = combined(int, interface{}) *)
Lemma combined_ranks_interface_lowest :
  combined_ty TIface (TNum KInt) = Some (TNum KInt) /\ combined_ty (TNum KInt) TIface = Some (TNum KInt).
Proof. vm_compute. split; reflexivity. Qed.

(* (2) the model optimizer rewrites both: x in MAP (lookup map keyed by int) / lo <= x and x <= hi *)
Definition o_iface_array : expr :=
  EBinary (A RKBool) BIn any_plus_1 (EConst ann0 (int_set [2; 3])).
Definition o_iface_range : expr :=
  EBinary (A RKBool) BAndWord (EBinary ann0 BGe any_plus_1 (lit 1)) (EBinary ann0 BLe any_plus_1 (lit 5)).

Lemma iface_array_rewritten : optimize w_fe ia_env [] w_iface_array = OOk o_iface_array /\ o_iface_array <> w_iface_array.
Proof. split; [vm_compute; reflexivity|discriminate]. Qed.

Lemma iface_range_rewritten : optimize w_fe ia_env [] w_iface_range = OOk o_iface_range /\ o_iface_range <> w_iface_range.
Proof. split; [vm_compute; reflexivity|discriminate]. Qed.

(* (3) the observable difference on Any = 2.5 *)
Definition ia_run (e : expr) : result := eval w_fe (w_cfg 1000) ia_env [] e rs0.
Definition ia_opt_run (e : expr) : option result :=
  match optimize w_fe ia_env [] e with OOk e' => Some (ia_run e') | OFail _ => None end.
Definition is_stop (r : option result) : bool := match r with Some (Stop _ _ _) => true | _ => false end.
Definition val_of (r : result) : option value := match r with Done v _ => Some v | Stop _ _ _ => None end.

Lemma iface_array_false_vs_failure :
  val_of (ia_run w_iface_array) = Some (VBool false) /\ is_stop (ia_opt_run w_iface_array) = true.
Proof. vm_compute. split; reflexivity. Qed.

Lemma iface_range_false_vs_true :
  val_of (ia_run w_iface_range) = Some (VBool false) /\ option_map val_of (ia_opt_run w_iface_range) = Some (Some (VBool true)).
Proof. vm_compute. split; reflexivity. Qed.

(* the recorded finding as a decidable predicate: a membership test that the in_array / in_range passes
   look at, whose left operand is an arithmetic node typed int with an operand typed interface{} *)
Definition iface_arith (l : expr) : bool :=
  match l with
  | EBinary a _ x y => rkind_eqb (akind a) ki && (rkind_eqb (kind_of x) RKInterface || rkind_eqb (kind_of y) RKInterface)
  | EUnary a _ x => rkind_eqb (akind a) ki && rkind_eqb (kind_of x) RKInterface
  | _ => false
  end.
Definition K_iface_arith (e : expr) : bool :=
  existsb (fun n => match n with
                    | EBinary _ op l r => is_in_op op && (is_range r || match r with EArray _ _ => true | _ => false end) && iface_arith l
                    | _ => false end) (subterms e).

(* refutation on an environment of one's choice (OptProofs.refute_by is fixed to w_env) *)
Lemma refute_on (env : value) (limit : Z) (e : expr) :
  (match optimize w_fe env [] e with
   | OOk e' => negb (obs_eqb (eval w_fe (w_cfg limit) env [] e' rs0) (eval w_fe (w_cfg limit) env [] e rs0))
   | OFail _ => false end) = true ->
  ~ C02_transparent_full_statement.
Proof.
  intros W F. destruct (optimize w_fe env [] e) as [e'|] eqn:O; [|discriminate].
  pose proof (F w_fe (w_cfg limit) env [] e e' O [] rs0) as H. apply obs_eq_b in H. rewrite H in W. discriminate.
Qed.

Theorem C02_iface_arith_refuted : K_iface_arith w_iface_array = true /\ ~ C02_transparent_full_statement.
Proof. split; [reflexivity|]. apply (refute_on ia_env 1000 w_iface_array). vm_compute. reflexivity. Qed.

Theorem C02_iface_arith_range_refuted : K_iface_arith w_iface_range = true /\ ~ C02_transparent_full_statement.
Proof. split; [reflexivity|]. apply (refute_on ia_env 1000 w_iface_range). vm_compute. reflexivity. Qed.

(* (4) outside the hypotheses of C02_transparent_partial.
   in_array: `sc_in_array` = sites Site_ia: "a left operand typed int evaluates to an int" fails at the root;
   in_range: `sc_in_range` = sites Site_ir on the tree handed to the in_range pass: "the left operand
             evaluates to an integer of kind int/int64/uint*" fails at the root.
   Every other carve-out (`good`: retyped literals, folded arrays, double evaluation...) holds of the witnesses:
   the finding is a failure of annotation soundness (property C03's concern; C03's in_scope excludes
   interface{}-typed operands), not of a syntactic side condition. *)
Lemma any_plus_1_value ctx s : eval w_fe (w_cfg 1000) ia_env ctx any_plus_1 s = Done (VNum (NFlt KF64 3.5%float)) s.
Proof. destruct s. vm_compute. reflexivity. Qed.

Lemma iface_array_fails_Site_ia : ~ sites (Site_ia w_fe (w_cfg 1000) ia_env) w_iface_array.
Proof.
  intros H. unfold sites in H. rewrite Forall_forall in H.
  assert (I : In w_iface_array (subterms w_iface_array)) by (vm_compute; auto 10).
  specialize (H _ I). unfold Site_ia in H.
  destruct (H _ _ _ _ eq_refl eq_refl) as [Hv _].
  destruct (Hv [] rs0 _ _ (any_plus_1_value [] rs0)) as [Hi _].
  destruct (Hi eq_refl) as [z Hz]. discriminate Hz.
Qed.

Lemma iface_range_fails_Site_ir : exists e3, before_in_range w_fe ia_env [] w_iface_range = OOk e3 /\
  ~ sites (Site_ir w_fe (w_cfg 1000) ia_env) e3.
Proof.
  exists w_iface_range. split; [vm_compute; reflexivity|].
  intros H. unfold sites in H. rewrite Forall_forall in H.
  assert (I : In w_iface_range (subterms w_iface_range)) by (vm_compute; auto 10).
  specialize (H _ I). unfold Site_ir in H.
  destruct (H _ _ _ _ eq_refl eq_refl eq_refl eq_refl) as [_ Hv].
  destruct (Hv [] rs0 _ _ (any_plus_1_value [] rs0)) as (k & z & Hz & _). discriminate Hz.
Qed.

Theorem C02_iface_arith_outside_partial :
  ~ side_conditions w_fe (w_cfg 1000) ia_env [] w_iface_array /\
  ~ side_conditions w_fe (w_cfg 1000) ia_env [] w_iface_range.
Proof.
  split.
  - intros [H1 _ _ _ _]. exact (iface_array_fails_Site_ia H1).
  - intros [_ _ _ H4 _]. destruct iface_range_fails_Site_ir as (e3 & E & N). exact (N (H4 e3 E)).
Qed.

(* ... while the syntactic carve-outs (`sc_good`) do hold of both witnesses *)
Lemma iface_witnesses_good :
  good [] (pass_in_array w_iface_array) = true /\ good [] (pass_in_array w_iface_range) = true.
Proof. vm_compute. split; reflexivity. Qed.

(* Opt/OptRulesProofs.v — facts about the interpreter of Opt/OptRules.v that do not depend on the
   regenerated terms: the kind tests against the literal recognisers of Opt/Optimizer.v, canonical
   operator spellings, Go int arithmetic (`wrap KInt`) of the range size, `wrange` against `range_list`,
   the argument collection of const_expr against `const_args`, extensionality of the walk. *)
From Coq Require Import ZArith Bool List String Floats Lia.
Require Import X.Base.Num X.Base.Value X.Syn.Ast X.Sem.Prim X.Opt.Optimizer X.Opt.OptProofs X.Opt.OptRules.
Require X.Parse.Parser.
Import ListNotations.
Local Open Scope string_scope.
Open Scope Z_scope.

(* ------------------------------------------------------------------ kinds of nodes *)
Lemma is_kind_int x : is_kind x NkInteger = match int_lit x with Some _ => true | None => false end.
Proof. destruct x; reflexivity. Qed.

Lemma is_kind_str x : is_kind x NkString = match str_lit x with Some _ => true | None => false end.
Proof. destruct x; reflexivity. Qed.

Lemma is_kind_arr x : is_kind x NkArray = match arr_lit x with Some _ => true | None => false end.
Proof. destruct x; reflexivity. Qed.

Lemma int_lit_inv x a z : int_lit x = Some (a, z) -> x = EInt a z.
Proof. destruct x; intros H; try discriminate H. inversion H. reflexivity. Qed.

Lemma str_lit_inv x s : str_lit x = Some s -> exists a, x = EStr a s.
Proof. destruct x; intros H; try discriminate H. inversion H. eexists. reflexivity. Qed.

Lemma arr_lit_inv x es : arr_lit x = Some es -> exists a, x = EArray a es.
Proof. destruct x; intros H; try discriminate H. inversion H. eexists. reflexivity. Qed.

(* a node is an integer literal, a string literal, or neither *)
Inductive lit_class (x : expr) : Prop :=
| LcInt a z : x = EInt a z -> lit_class x
| LcStr a s : x = EStr a s -> lit_class x
| LcOther : is_kind x NkInteger = false -> is_kind x NkString = false ->
            int_lit x = None -> str_lit x = None -> lit_class x.

Lemma classify x : lit_class x.
Proof.
  destruct x; try (apply LcOther; reflexivity).
  - eapply LcInt. reflexivity.
  - eapply LcStr. reflexivity.
Qed.

(* ------------------------------------------------------------------ literal lists *)
Lemma all_ints_forall es :
  forallb (fun x => is_kind x NkInteger) es = match all_ints es with Some _ => true | None => false end.
Proof.
  induction es as [|x r IH]; [reflexivity|].
  destruct x; try reflexivity. cbn [forallb all_ints]. rewrite IH. destruct (all_ints r); reflexivity.
Qed.

Lemma all_strs_forall es :
  forallb (fun x => is_kind x NkString) es = match all_strs es with Some _ => true | None => false end.
Proof.
  induction es as [|x r IH]; [reflexivity|].
  destruct x; try reflexivity. cbn [forallb all_strs]. rewrite IH. destruct (all_strs r); reflexivity.
Qed.

(* a non-empty list of integer literals is not a list of string literals *)
Lemma all_ints_not_strs es zs : all_ints es = Some zs -> is_nil_list es = false -> all_strs es = None.
Proof.
  destruct es as [|x r]; [discriminate|]. intros H _. destruct x; try discriminate H. reflexivity.
Qed.

(* ------------------------------------------------------------------ canonical operators *)
Lemma canon_binop_of_string s : canon_binop (X.Parse.Parser.binop_of_string s) = true.
Proof.
  unfold X.Parse.Parser.binop_of_string.
  destruct (X.Parse.Parser.lookup s X.Parse.Parser.binop_table) as [b|] eqn:E.
  - unfold X.Parse.Parser.binop_table in E. cbn [X.Parse.Parser.lookup] in E.
    repeat match type of E with
           | (if ?c then _ else _) = _ => destruct c; [inversion E; reflexivity|]
           end.
    discriminate E.
  - cbn [canon_binop]. unfold X.Parse.Parser.binop_of_string. rewrite E. reflexivity.
Qed.

Lemma canon_unop_of_string s : canon_unop (X.Parse.Parser.unop_of_string s) = true.
Proof.
  unfold X.Parse.Parser.unop_of_string.
  repeat match goal with |- context [if ?c then _ else _] => destruct c eqn:?; [reflexivity|] end.
  cbn [canon_unop]. unfold X.Parse.Parser.unop_of_string.
  repeat match goal with H : ?c = false |- context [if ?c then _ else _] => rewrite H end.
  reflexivity.
Qed.

(* an unknown operator is spelled differently from every known one *)
Lemma unknown_binop_neq s t :
  canon_binop (BUnknown s) = true ->
  (match X.Parse.Parser.binop_of_string t with BUnknown _ => false | _ => true end) = true ->
  String.eqb s t = false.
Proof.
  intros Hc Ht. destruct (String.eqb s t) eqn:E; [|reflexivity].
  apply String.eqb_eq in E. subst t. cbn [canon_binop] in Hc.
  destruct (X.Parse.Parser.binop_of_string s); discriminate.
Qed.

Lemma unknown_unop_neq s t :
  canon_unop (UUnknown s) = true ->
  (match X.Parse.Parser.unop_of_string t with UUnknown _ => false | _ => true end) = true ->
  String.eqb s t = false.
Proof.
  intros Hc Ht. destruct (String.eqb s t) eqn:E; [|reflexivity].
  apply String.eqb_eq in E. subst t. cbn [canon_unop] in Hc.
  destruct (X.Parse.Parser.unop_of_string s); discriminate.
Qed.

Lemma tree_canonical_op e : tree_canonical e = true -> op_canon e = true.
Proof. intros H. destruct e; cbn [tree_canonical] in H; apply andb_prop in H; exact (proj1 H). Qed.

Lemma tree_canonical_all l :
  (fix all (l : list expr) : bool := match l with [] => true | x :: r => tree_canonical x && all r end) l = true ->
  forall c, In c l -> tree_canonical c = true.
Proof.
  induction l as [|x r IH]; intros H c Hc; [destruct Hc|].
  apply andb_prop in H. destruct H as [Hx Hr]. destruct Hc as [<-|Hc]; [exact Hx|exact (IH Hr c Hc)].
Qed.

Lemma tree_canonical_children e c : tree_canonical e = true -> In c (children e) -> tree_canonical c = true.
Proof.
  intros H Hc. destruct e; cbn [tree_canonical] in H; cbn [children] in Hc;
    apply andb_prop in H; destruct H as [_ H];
    repeat match goal with
           | H : _ && _ = true |- _ => apply andb_prop in H; destruct H
           end;
    try (destruct Hc; fail).
  - destruct Hc as [<-|[]]; assumption.
  - destruct Hc as [<-|[<-|[]]]; assumption.
  - destruct Hc as [<-|[<-|[]]]; assumption.
  - destruct Hc as [<-|[]]; assumption.
  - destruct Hc as [<-|[<-|[]]]; assumption.
  - destruct Hc as [<-|Hc]; [assumption|].
    apply in_app_or in Hc. destruct Hc as [Hc|Hc].
    + destruct from as [y|]; [|destruct Hc]. destruct Hc as [<-|[]]. assumption.
    + destruct to as [y|]; [|destruct Hc]. destruct Hc as [<-|[]]. assumption.
  - destruct Hc as [<-|Hc]; [assumption|]. eapply tree_canonical_all; eassumption.
  - eapply tree_canonical_all; eassumption.
  - eapply tree_canonical_all; eassumption.
  - destruct Hc as [<-|[]]; assumption.
  - destruct Hc as [<-|[<-|[<-|[]]]]; assumption.
  - eapply tree_canonical_all; eassumption.
  - eapply tree_canonical_all; eassumption.
  - destruct Hc as [<-|[<-|[]]]; assumption.
Qed.

Lemma tree_canonical_node e : tree_canonical e = true -> node_canonical e = true.
Proof.
  intros H. unfold node_canonical. rewrite (tree_canonical_op e H). cbn [andb].
  apply forallb_forall. intros c Hc. apply tree_canonical_op. eapply tree_canonical_children; eassumption.
Qed.

(* ------------------------------------------------------------------ Go int arithmetic *)
Lemma iv_idem z : iv (iv z) = iv z.
Proof. unfold iv. apply wrap_idem. reflexivity. Qed.

(* (max - min) + 1 computed with wrap-around after every operation *)
Lemma range_size_wrap hi lo : wrap KInt (wrap KInt (iv hi - iv lo) + 1) = wrap KInt (iv hi - iv lo + 1).
Proof.
  apply wrap_cong; [reflexivity|].
  rewrite Zplus_mod, (wrap_mod KInt _ eq_refl), <- Zplus_mod. reflexivity.
Qed.

(* min.Value + i does not pass the largest int: the elements are those of `range_list` *)
Lemma wrange_range_list n : forall lo,
  min_of KInt <= lo -> lo + Z.of_nat n - 1 <= max_of KInt -> wrange lo n = range_list lo n.
Proof.
  induction n as [|n IH]; intros lo Hlo Hhi; [reflexivity|].
  cbn [wrange range_list]. f_equal.
  - f_equal. f_equal. unfold wrap. cbn [is_signed width]. unfold min_of, max_of in *. cbn [is_signed width] in *.
    change (2 ^ (64 - 1)) with 9223372036854775808 in *. change (2 ^ 64) with 18446744073709551616.
    rewrite Z.mod_small; lia.
  - apply IH; lia.
Qed.

(* ------------------------------------------------------------------ const_expr arguments *)
Definition const_expr_table : list (nkind * argsrc) :=
  [(NkNil, ANil); (NkInteger, AValue); (NkFloat, AValue); (NkBool, AValue); (NkString, AValue); (NkConstant, AValue)].

Lemma collect_args_const_args es :
  collect_args const_expr_table es = Some (const_args es).
Proof.
  induction es as [|x r IH]; [reflexivity|].
  destruct x; cbn [collect_args const_args]; try reflexivity;
    change (lookup_kind ?k const_expr_table) with (@None argsrc) || idtac;
    cbn; rewrite IH; destruct (const_args r); reflexivity.
Qed.

(* ------------------------------------------------------------------ the walk *)
Lemma map_post_ext (f g : visitor) : (forall e, f e = g e) -> forall e, map_post f e = map_post g e.
Proof.
  intros H. apply (expr_children_ind (fun e => map_post f e = map_post g e)).
  intros e IH.
  assert (IHl : forall l, (forall c, In c l -> map_post f c = map_post g c) ->
                          map_post_list f l = map_post_list g l).
  { induction l as [|x r IHr]; intros Hl; [reflexivity|]. cbn [map_post_list].
    rewrite (Hl x (or_introl eq_refl)), IHr; [reflexivity|]. intros c Hc. apply Hl. right. exact Hc. }
  assert (Lf : forall v l, (fix mp_list (l : list expr) : list expr * acc :=
            match l with
            | [] => ([], acc0)
            | x :: r => let '(x', a1) := map_post v x in let '(r', a2) := mp_list r in (x' :: r', join a1 a2)
            end) l = map_post_list v l).
  { intros v. induction l as [|x r IHr]; [reflexivity|]. cbn [map_post_list]. rewrite IHr. reflexivity. }
  destruct e; cbn [map_post]; cbn [children] in IH; rewrite ?Lf; rewrite ?H; try reflexivity.
  - rewrite (IH e (or_introl eq_refl)). destruct (map_post g e). rewrite H. reflexivity.
  - rewrite (IH e1 (or_introl eq_refl)), (IH e2 (or_intror (or_introl eq_refl))).
    destruct (map_post g e1), (map_post g e2). rewrite H. reflexivity.
  - rewrite (IH e1 (or_introl eq_refl)), (IH e2 (or_intror (or_introl eq_refl))).
    destruct (map_post g e1), (map_post g e2). rewrite H. reflexivity.
  - rewrite (IH e (or_introl eq_refl)). destruct (map_post g e). rewrite H. reflexivity.
  - rewrite (IH e1 (or_introl eq_refl)), (IH e2 (or_intror (or_introl eq_refl))).
    destruct (map_post g e1), (map_post g e2). rewrite H. reflexivity.
  - rewrite (IH e (or_introl eq_refl)). destruct (map_post g e).
    assert (Hf : match from with Some y => let '(y', b) := map_post f y in (Some y', b) | None => (None, acc0) end =
                 match from with Some y => let '(y', b) := map_post g y in (Some y', b) | None => (None, acc0) end).
    { destruct from as [y|]; [|reflexivity]. rewrite (IH y); [reflexivity|]. right. left. reflexivity. }
    assert (Ht : match to with Some y => let '(y', b) := map_post f y in (Some y', b) | None => (None, acc0) end =
                 match to with Some y => let '(y', b) := map_post g y in (Some y', b) | None => (None, acc0) end).
    { destruct to as [y|]; [|reflexivity]. rewrite (IH y); [reflexivity|]. right. apply in_or_app. right. left. reflexivity. }
    rewrite Hf, Ht.
    destruct (match from with Some y => let '(y', b) := map_post g y in (Some y', b) | None => (None, acc0) end).
    destruct (match to with Some y => let '(y', b) := map_post g y in (Some y', b) | None => (None, acc0) end).
    rewrite H. reflexivity.
  - rewrite (IH e (or_introl eq_refl)). destruct (map_post g e).
    rewrite (IHl args) by (intros c Hc; apply IH; right; exact Hc).
    destruct (map_post_list g args). rewrite H. reflexivity.
  - rewrite (IHl args) by (intros c Hc; apply IH; exact Hc). destruct (map_post_list g args). rewrite H. reflexivity.
  - rewrite (IHl args) by (intros c Hc; apply IH; exact Hc). destruct (map_post_list g args). rewrite H. reflexivity.
  - rewrite (IH e (or_introl eq_refl)). destruct (map_post g e). rewrite H. reflexivity.
  - rewrite (IH e1 (or_introl eq_refl)), (IH e2 (or_intror (or_introl eq_refl))),
            (IH e3 (or_intror (or_intror (or_introl eq_refl)))).
    destruct (map_post g e1), (map_post g e2), (map_post g e3). rewrite H. reflexivity.
  - rewrite (IHl es) by (intros c Hc; apply IH; exact Hc). destruct (map_post_list g es). rewrite H. reflexivity.
  - rewrite (IHl pairs) by (intros c Hc; apply IH; exact Hc). destruct (map_post_list g pairs). rewrite H. reflexivity.
  - rewrite (IH e1 (or_introl eq_refl)), (IH e2 (or_intror (or_introl eq_refl))).
    destruct (map_post g e1), (map_post g e2). rewrite H. reflexivity.
Qed.

(* ------------------------------------------------------------------ induction over rules *)
Section RuleInd.
Variable P : rule -> Prop.
Hypothesis HTypeSwitch : forall cases, Forall (fun c => Forall P (snd c)) cases -> P (RTypeSwitch cases).
Hypothesis HIf : forall c a b, Forall P a -> Forall P b -> P (RIf c a b).
Hypothesis HSwitchOp : forall p cases d, Forall (fun c => Forall P (snd c)) cases -> Forall P d -> P (RSwitchOp p cases d).
Hypothesis HSwitchKind : forall p cases d, Forall (fun c => Forall P (snd c)) cases -> Forall P d -> P (RSwitchKind p cases d).
Hypothesis HForAllKind : forall p f k els, Forall P els -> P (RForAllKind p f k els).
Hypothesis HArgs : forall p f t d, Forall P d -> P (RArgs p f t d).
Hypothesis HSetApplied : P RSetApplied.
Hypothesis HPatch : forall t, P (RPatch t).
Hypothesis HSetType : forall y, P (RSetType y).
Hypothesis HSetErr : forall p, P (RSetErr p).
Hypothesis HWith : forall t y body, Forall P body -> P (RWith t y body).
Hypothesis HReturn : P RReturn.
Hypothesis HGoto : forall lbl, P (RGoto lbl).
Hypothesis HLabel : forall lbl, P (RLabel lbl).
Hypothesis HUnrec : forall src0, P (RUnrecognised src0).

Fixpoint rule_ind2 (r : rule) : P r :=
  let all := fix all (l : list rule) : Forall P l :=
    match l with [] => Forall_nil P | x :: rest => Forall_cons x (rule_ind2 x) (all rest) end in
  match r with
  | RTypeSwitch cases =>
      HTypeSwitch cases ((fix go (cs : list (list nkind * list rule)) : Forall (fun c => Forall P (snd c)) cs :=
                            match cs with [] => Forall_nil _ | c :: more => Forall_cons c (all (snd c)) (go more) end) cases)
  | RIf c a b => HIf c a b (all a) (all b)
  | RSwitchOp p cases d =>
      HSwitchOp p cases d ((fix go (cs : list (list string * list rule)) : Forall (fun c => Forall P (snd c)) cs :=
                              match cs with [] => Forall_nil _ | c :: more => Forall_cons c (all (snd c)) (go more) end) cases)
                (all d)
  | RSwitchKind p cases d =>
      HSwitchKind p cases d ((fix go (cs : list (list rkind * list rule)) : Forall (fun c => Forall P (snd c)) cs :=
                                match cs with [] => Forall_nil _ | c :: more => Forall_cons c (all (snd c)) (go more) end) cases)
                  (all d)
  | RForAllKind p f k els => HForAllKind p f k els (all els)
  | RArgs p f t d => HArgs p f t d (all d)
  | RSetApplied => HSetApplied
  | RPatch t => HPatch t
  | RSetType y => HSetType y
  | RSetErr p => HSetErr p
  | RWith t y body => HWith t y body (all body)
  | RReturn => HReturn
  | RGoto l => HGoto l
  | RLabel l => HLabel l
  | RUnrecognised s => HUnrec s
  end.
End RuleInd.

(* ------------------------------------------------------------------ the interpreter in continuation-passing style *)
(* A proof device: with a condition that does not reduce (a test on a symbolic literal), the direct
   interpreter leaves the rest of the statements applied to a stuck state; here the rest is pushed
   into the branches, so evaluation (`lazy`) runs every path on a concrete control state. *)
Section Cps.
Variable pow : float -> float -> float.
Variable is_cfn : string -> bool.
Variable call : string -> list value -> outcome value.
Variable self : expr.
Variable R : Type.                                         (* the answer type *)

Notation eval_cond' := (eval_cond is_cfn self).
Notation ref_node' := (ref_node self).
Notation ref_list' := (ref_list self).
Notation eval_t' := (eval_t pow call self).
Notation eval_y' := (eval_y self).

Fixpoint execk (r : rule) (arg : option expr) (targ : option rkind) (k : ctl * st -> R) (ms : ctl * st)
    {struct r} : R :=
  let execk_list := fix execk_list (l : list rule) (arg : option expr) (targ : option rkind)
                        (k : ctl * st -> R) (ms : ctl * st) {struct l} : R :=
    match l with
    | [] => k ms
    | x :: rest => execk x arg targ (fun ms' => execk_list rest arg targ k ms') ms
    end in
  let s := snd ms in
  match fst ms with
  | Ret | Crash => k ms
  | Jump l => match r with RLabel l' => if Nat.eqb l l' then k (Run, s) else k ms | _ => k ms end
  | Run =>
      match r with
      | RTypeSwitch cases =>
          (fix pick (cs : list (list nkind * list rule)) : R :=
             match cs with
             | [] => k ms
             | (ks, body) :: more =>
                 if existsb (is_kind self) ks then execk_list body arg targ k ms else pick more
             end) cases
      | RIf c a b =>
          match eval_cond' (s_cur s) c with
          | Some true => execk_list a arg targ k ms
          | Some false => execk_list b arg targ k ms
          | None => k (crash s)
          end
      | RSwitchOp p cases dflt =>
          match ref_node' (s_cur s) p with
          | Some x =>
              match op_string x with
              | Some o =>
                  (fix pick (cs : list (list string * list rule)) : R :=
                     match cs with
                     | [] => execk_list dflt arg targ k ms
                     | (labels, body) :: more =>
                         if existsb (String.eqb o) labels then execk_list body arg targ k ms else pick more
                     end) cases
              | None => k (crash s)
              end
          | None => k (crash s)
          end
      | RSwitchKind p cases dflt =>
          match ref_node' (s_cur s) p with
          | Some x =>
              if rkind_eqb (kind_of x) RKInvalid then k (crash s)
              else
                (fix pick (cs : list (list rkind * list rule)) : R :=
                   match cs with
                   | [] => execk_list dflt arg targ k ms
                   | (labels, body) :: more =>
                       if existsb (rkind_eqb (kind_of x)) labels then execk_list body arg targ k ms else pick more
                   end) cases
          | None => k (crash s)
          end
      | RForAllKind p f kd els =>
          match ref_list' (s_cur s) p f with
          | Some es => if forallb (fun x => is_kind x kd) es then k ms else execk_list els arg targ k ms
          | None => k (crash s)
          end
      | RArgs p f table dflt =>
          match ref_list' (s_cur s) p f with
          | Some es =>
              match collect_args table es with
              | Some (Some vs) => k (Run, mkSt (s_cur s) (s_applied s) (s_err s) (Some vs))
              | Some None =>
                  execk_list dflt arg targ
                    (fun r => match r with (Run, s') => k (crash s') | other => k other end) ms
              | None => k (crash s)
              end
          | None => k (crash s)
          end
      | RSetApplied => k (Run, mkSt (s_cur s) true (s_err s) (s_args s))
      | RPatch t =>
          match eval_t' arg s t with
          | Some new => k (Run, set_cur s (patch (s_cur s) new))
          | None => k (crash s)
          end
      | RSetType y =>
          match eval_y' targ s y with
          | Some kd => k (Run, set_cur s (set_ann (s_cur s) (mkAnn (loc_of (s_cur s)) kd)))
          | None => k (crash s)
          end
      | RSetErr p =>
          match ref_node' (s_cur s) p with
          | Some x => k (Run, mkSt (s_cur s) (s_applied s) (Some (loc_of x)) (s_args s))
          | None => k (crash s)
          end
      | RWith t y body =>
          match eval_t' arg s t with
          | Some v =>
              match y with
              | None => execk_list body (Some v) None k ms
              | Some y' =>
                  match eval_y' targ s y' with
                  | Some kd => execk_list body (Some v) (Some kd) k ms
                  | None => k (crash s)
                  end
              end
          | None => k (crash s)
          end
      | RReturn => k (Ret, s)
      | RGoto l => k (Jump l, s)
      | RLabel _ => k ms
      | RUnrecognised _ => k (crash s)
      end
  end.

Fixpoint execk_list (l : list rule) (arg : option expr) (targ : option rkind)
    (k : ctl * st -> R) (ms : ctl * st) {struct l} : R :=
  match l with
  | [] => k ms
  | x :: rest => execk x arg targ (fun ms' => execk_list rest arg targ k ms') ms
  end.

Notation exec' := (exec pow is_cfn call self).
Notation exec_list' := (exec_list pow is_cfn call self).

Lemma execk_list_sound l :
  Forall (fun r => forall arg targ k ms, execk r arg targ k ms = k (exec' r arg targ ms)) l ->
  forall arg targ k ms, execk_list l arg targ k ms = k (exec_list' l arg targ ms).
Proof.
  induction 1 as [|x rest Hx _ IH]; intros arg targ k ms; [reflexivity|].
  cbn [execk_list exec_list]. rewrite Hx. apply IH.
Qed.

Lemma execk_sound r : forall arg targ k ms, execk r arg targ k ms = k (exec' r arg targ ms).
Proof.
  induction r using rule_ind2; intros arg targ kk [m s]; destruct m as [| |j|]; try reflexivity.
  - (* type switch *)
    change (execk (RTypeSwitch cases) arg targ kk (Run, s)) with
      ((fix pick (cs : list (list nkind * list rule)) : R :=
          match cs with
          | [] => kk (Run, s)
          | (ks, body) :: more => if existsb (is_kind self) ks then execk_list body arg targ kk (Run, s) else pick more
          end) cases).
    change (exec' (RTypeSwitch cases) arg targ (Run, s)) with
      ((fix pick (cs : list (list nkind * list rule)) : ctl * st :=
          match cs with
          | [] => (Run, s)
          | (ks, body) :: more => if existsb (is_kind self) ks then exec_list' body arg targ (Run, s) else pick more
          end) cases).
    induction H as [|[ks body] more Hb _ IH]; [reflexivity|].
    cbn [snd] in Hb. destruct (existsb (is_kind self) ks); [apply execk_list_sound; exact Hb|exact IH].
  - (* if *)
    change (execk (RIf c a b) arg targ kk (Run, s)) with
      (match eval_cond' (s_cur s) c with
       | Some true => execk_list a arg targ kk (Run, s)
       | Some false => execk_list b arg targ kk (Run, s)
       | None => kk (crash s)
       end).
    change (exec' (RIf c a b) arg targ (Run, s)) with
      (match eval_cond' (s_cur s) c with
       | Some true => exec_list' a arg targ (Run, s)
       | Some false => exec_list' b arg targ (Run, s)
       | None => crash s
       end).
    destruct (eval_cond' (s_cur s) c) as [[|]|]; [apply execk_list_sound; assumption|apply execk_list_sound; assumption|reflexivity].
  - (* switch op *)
    change (execk (RSwitchOp p cases d) arg targ kk (Run, s)) with
      (match ref_node' (s_cur s) p with
       | Some x =>
           match op_string x with
           | Some o =>
               (fix pick (cs : list (list string * list rule)) : R :=
                  match cs with
                  | [] => execk_list d arg targ kk (Run, s)
                  | (labels, body) :: more =>
                      if existsb (String.eqb o) labels then execk_list body arg targ kk (Run, s) else pick more
                  end) cases
           | None => kk (crash s)
           end
       | None => kk (crash s)
       end).
    change (exec' (RSwitchOp p cases d) arg targ (Run, s)) with
      (match ref_node' (s_cur s) p with
       | Some x =>
           match op_string x with
           | Some o =>
               (fix pick (cs : list (list string * list rule)) : ctl * st :=
                  match cs with
                  | [] => exec_list' d arg targ (Run, s)
                  | (labels, body) :: more =>
                      if existsb (String.eqb o) labels then exec_list' body arg targ (Run, s) else pick more
                  end) cases
           | None => crash s
           end
       | None => crash s
       end).
    destruct (ref_node' (s_cur s) p) as [x|]; [|reflexivity]. destruct (op_string x) as [o|]; [|reflexivity].
    induction H as [|[labels body] more Hb _ IH]; [apply execk_list_sound; assumption|].
    cbn [snd] in Hb. destruct (existsb (String.eqb o) labels); [apply execk_list_sound; exact Hb|exact IH].
  - (* switch kind *)
    change (execk (RSwitchKind p cases d) arg targ kk (Run, s)) with
      (match ref_node' (s_cur s) p with
       | Some x =>
           if rkind_eqb (kind_of x) RKInvalid then kk (crash s)
           else
             (fix pick (cs : list (list rkind * list rule)) : R :=
                match cs with
                | [] => execk_list d arg targ kk (Run, s)
                | (labels, body) :: more =>
                    if existsb (rkind_eqb (kind_of x)) labels then execk_list body arg targ kk (Run, s) else pick more
                end) cases
       | None => kk (crash s)
       end).
    change (exec' (RSwitchKind p cases d) arg targ (Run, s)) with
      (match ref_node' (s_cur s) p with
       | Some x =>
           if rkind_eqb (kind_of x) RKInvalid then crash s
           else
             (fix pick (cs : list (list rkind * list rule)) : ctl * st :=
                match cs with
                | [] => exec_list' d arg targ (Run, s)
                | (labels, body) :: more =>
                    if existsb (rkind_eqb (kind_of x)) labels then exec_list' body arg targ (Run, s) else pick more
                end) cases
       | None => crash s
       end).
    destruct (ref_node' (s_cur s) p) as [x|]; [|reflexivity].
    destruct (rkind_eqb (kind_of x) RKInvalid); [reflexivity|].
    induction H as [|[labels body] more Hb _ IH]; [apply execk_list_sound; assumption|].
    cbn [snd] in Hb. destruct (existsb (rkind_eqb (kind_of x)) labels); [apply execk_list_sound; exact Hb|exact IH].
  - (* for all kind *)
    change (execk (RForAllKind p f k els) arg targ kk (Run, s)) with
      (match ref_list' (s_cur s) p f with
       | Some es => if forallb (fun x => is_kind x k) es then kk (Run, s) else execk_list els arg targ kk (Run, s)
       | None => kk (crash s)
       end).
    change (exec' (RForAllKind p f k els) arg targ (Run, s)) with
      (match ref_list' (s_cur s) p f with
       | Some es => if forallb (fun x => is_kind x k) es then (Run, s) else exec_list' els arg targ (Run, s)
       | None => crash s
       end).
    destruct (ref_list' (s_cur s) p f) as [es|]; [|reflexivity].
    destruct (forallb (fun x => is_kind x k) es); [reflexivity|apply execk_list_sound; assumption].
  - (* args *)
    change (execk (RArgs p f t d) arg targ kk (Run, s)) with
      (match ref_list' (s_cur s) p f with
       | Some es =>
           match collect_args t es with
           | Some (Some vs) => kk (Run, mkSt (s_cur s) (s_applied s) (s_err s) (Some vs))
           | Some None =>
               execk_list d arg targ (fun r => match r with (Run, s') => kk (crash s') | other => kk other end) (Run, s)
           | None => kk (crash s)
           end
       | None => kk (crash s)
       end).
    change (exec' (RArgs p f t d) arg targ (Run, s)) with
      (match ref_list' (s_cur s) p f with
       | Some es =>
           match collect_args t es with
           | Some (Some vs) => (Run, mkSt (s_cur s) (s_applied s) (s_err s) (Some vs))
           | Some None =>
               match exec_list' d arg targ (Run, s) with
               | (Run, s') => crash s'
               | other => other
               end
           | None => crash s
           end
       | None => crash s
       end).
    destruct (ref_list' (s_cur s) p f) as [es|]; [|reflexivity].
    destruct (collect_args t es) as [[vs|]|]; [reflexivity| |reflexivity].
    rewrite (execk_list_sound d H). destruct (exec_list' d arg targ (Run, s)) as [[| | |] s']; reflexivity.
  - (* patch *) cbn. destruct (eval_t' arg s t); reflexivity.
  - (* set type *) cbn. destruct (eval_y' targ s y); reflexivity.
  - (* set err *) cbn. destruct (ref_node' (s_cur s) p); reflexivity.
  - (* with *)
    change (execk (RWith t y body) arg targ kk (Run, s)) with
      (match eval_t' arg s t with
       | Some v =>
           match y with
           | None => execk_list body (Some v) None kk (Run, s)
           | Some y' =>
               match eval_y' targ s y' with
               | Some kd => execk_list body (Some v) (Some kd) kk (Run, s)
               | None => kk (crash s)
               end
           end
       | None => kk (crash s)
       end).
    change (exec' (RWith t y body) arg targ (Run, s)) with
      (match eval_t' arg s t with
       | Some v =>
           match y with
           | None => exec_list' body (Some v) None (Run, s)
           | Some y' =>
               match eval_y' targ s y' with
               | Some kd => exec_list' body (Some v) (Some kd) (Run, s)
               | None => crash s
               end
           end
       | None => crash s
       end).
    destruct (eval_t' arg s t) as [v|]; [|reflexivity].
    destruct y as [y'|]; [|apply execk_list_sound; assumption].
    destruct (eval_y' targ s y') as [kd|]; [apply execk_list_sound; assumption|reflexivity].
  - (* label, jumping *) cbn. destruct (Nat.eqb j lbl); reflexivity.
Qed.

Lemma execk_list_exec_list l arg targ k ms :
  execk_list l arg targ k ms = k (exec_list' l arg targ ms).
Proof.
  apply (execk_list_sound l). apply Forall_forall. intros r _. apply execk_sound.
Qed.
End Cps.

(* one call of Exit, through the continuation-passing interpreter *)
Definition interp_exit_k (pow : float -> float -> float) (is_cfn : string -> bool)
    (call : string -> list value -> outcome value) (body : list rule) (handler : option (list rule))
    (e : expr) : rewrite_result :=
  execk_list pow is_cfn call e rewrite_result body None None
    (fun r =>
       match r with
       | (Run, s) | (Ret, s) => finish s
       | (Jump _, _) => RwCrash
       | (Crash, s) =>
           match handler with
           | Some h =>
               execk_list pow is_cfn call e rewrite_result h None None
                 (fun r' => match r' with (Run, s') | (Ret, s') => finish s' | _ => RwCrash end) (Run, s)
           | None => RwCrash
           end
       end) (Run, init_st e).

Lemma interp_exit_k_eq pow is_cfn call body handler e :
  interp_exit pow is_cfn call body handler e = interp_exit_k pow is_cfn call body handler e.
Proof.
  unfold interp_exit, interp_exit_k. rewrite execk_list_exec_list.
  destruct (exec_list pow is_cfn call e body None None (Run, init_st e)) as [[| | |] s]; try reflexivity.
  destruct handler as [h|]; [|reflexivity]. rewrite execk_list_exec_list. reflexivity.
Qed.

(* ------------------------------------------------------------------ two visitors that agree on the trees a walk meets *)
(* T is closed under taking children; the visitors agree on a T-node once its children have been
   replaced by the results of the walk (the node Exit is actually called on). *)
Lemma map_post_ext_rel (T : expr -> Prop) (f g : visitor) :
  (forall e c, T e -> In c (children e) -> T c) ->
  (forall e, T e -> f (rebuild e (map (fun c => fst (map_post g c)) (children e)))
                  = g (rebuild e (map (fun c => fst (map_post g c)) (children e)))) ->
  forall e, T e -> map_post f e = map_post g e.
Proof.
  intros Hch Hag. apply (expr_children_ind (fun e => T e -> map_post f e = map_post g e)).
  intros e IH HT.
  assert (IHc : forall c, In c (children e) -> map_post f c = map_post g c)
    by (intros c Hc; apply IH; [exact Hc|eapply Hch; eassumption]).
  pose proof (Hag e HT) as HA. clear IH Hag.
  assert (IHl : forall l, (forall c, In c l -> map_post f c = map_post g c) ->
                          map_post_list f l = map_post_list g l).
  { induction l as [|x r IHr]; intros Hl; [reflexivity|]. cbn [map_post_list].
    rewrite (Hl x (or_introl eq_refl)), IHr; [reflexivity|]. intros c Hc. apply Hl. right. exact Hc. }
  destruct e; cbn [map_post]; cbn [children] in HA, IHc; rewrite ?mp_list_eq; revert HA.
  - cbn [map rebuild]. intros HA. exact HA.
  - cbn [map rebuild]. intros HA. exact HA.
  - cbn [map rebuild]. intros HA. exact HA.
  - cbn [map rebuild]. intros HA. exact HA.
  - cbn [map rebuild]. intros HA. exact HA.
  - cbn [map rebuild]. intros HA. exact HA.
  - cbn [map rebuild]. intros HA. exact HA.
  - (* unary *) cbn [map rebuild]. rewrite (IHc e (or_introl eq_refl)). destruct (map_post g e).
    cbn [fst]. intros HA. rewrite HA. reflexivity.
  - (* binary *) cbn [map rebuild]. rewrite (IHc e1 (or_introl eq_refl)), (IHc e2 (or_intror (or_introl eq_refl))).
    destruct (map_post g e1), (map_post g e2). cbn [fst]. intros HA. rewrite HA. reflexivity.
  - (* matches *) cbn [map rebuild]. rewrite (IHc e1 (or_introl eq_refl)), (IHc e2 (or_intror (or_introl eq_refl))).
    destruct (map_post g e1), (map_post g e2). cbn [fst]. intros HA. rewrite HA. reflexivity.
  - (* property *) cbn [map rebuild]. rewrite (IHc e (or_introl eq_refl)). destruct (map_post g e).
    cbn [fst]. intros HA. rewrite HA. reflexivity.
  - (* index *) cbn [map rebuild]. rewrite (IHc e1 (or_introl eq_refl)), (IHc e2 (or_intror (or_introl eq_refl))).
    destruct (map_post g e1), (map_post g e2). cbn [fst]. intros HA. rewrite HA. reflexivity.
  - (* slice *)
    rewrite (IHc e (or_introl eq_refl)).
    destruct from as [y1|], to as [y2|]; cbn [opt_list app map rebuild] in *.
    + rewrite (IHc y1 (or_intror (or_introl eq_refl))), (IHc y2 (or_intror (or_intror (or_introl eq_refl)))).
      destruct (map_post g e), (map_post g y1), (map_post g y2). cbn [fst]. intros HA. rewrite HA. reflexivity.
    + rewrite (IHc y1 (or_intror (or_introl eq_refl))).
      destruct (map_post g e), (map_post g y1). cbn [fst]. intros HA. rewrite HA. reflexivity.
    + rewrite (IHc y2 (or_intror (or_introl eq_refl))).
      destruct (map_post g e), (map_post g y2). cbn [fst]. intros HA. rewrite HA. reflexivity.
    + destruct (map_post g e). cbn [fst]. intros HA. rewrite HA. reflexivity.
  - (* method *) cbn [map rebuild]. rewrite (IHc e (or_introl eq_refl)).
    rewrite (IHl args) by (intros c Hc; apply IHc; right; exact Hc).
    rewrite <- (map_post_list_fst g args). destruct (map_post g e), (map_post_list g args).
    cbn [fst]. intros HA. rewrite HA. reflexivity.
  - (* function *) cbn [rebuild]. rewrite (IHl args) by (intros c Hc; apply IHc; exact Hc).
    rewrite <- (map_post_list_fst g args). destruct (map_post_list g args). cbn [fst]. intros HA. rewrite HA. reflexivity.
  - (* builtin *) cbn [rebuild]. rewrite (IHl args) by (intros c Hc; apply IHc; exact Hc).
    rewrite <- (map_post_list_fst g args). destruct (map_post_list g args). cbn [fst]. intros HA. rewrite HA. reflexivity.
  - (* closure *) cbn [map rebuild]. rewrite (IHc e (or_introl eq_refl)). destruct (map_post g e).
    cbn [fst]. intros HA. rewrite HA. reflexivity.
  - cbn [map rebuild]. intros HA. exact HA.
  - (* conditional *) cbn [map rebuild].
    rewrite (IHc e1 (or_introl eq_refl)), (IHc e2 (or_intror (or_introl eq_refl))),
            (IHc e3 (or_intror (or_intror (or_introl eq_refl)))).
    destruct (map_post g e1), (map_post g e2), (map_post g e3). cbn [fst]. intros HA. rewrite HA. reflexivity.
  - (* array *) cbn [rebuild]. rewrite (IHl es) by (intros c Hc; apply IHc; exact Hc).
    rewrite <- (map_post_list_fst g es). destruct (map_post_list g es). cbn [fst]. intros HA. rewrite HA. reflexivity.
  - (* map *) cbn [rebuild]. rewrite (IHl pairs) by (intros c Hc; apply IHc; exact Hc).
    rewrite <- (map_post_list_fst g pairs). destruct (map_post_list g pairs). cbn [fst]. intros HA. rewrite HA. reflexivity.
  - (* pair *) cbn [map rebuild]. rewrite (IHc e1 (or_introl eq_refl)), (IHc e2 (or_intror (or_introl eq_refl))).
    destruct (map_post g e1), (map_post g e2). cbn [fst]. intros HA. rewrite HA. reflexivity.
Qed.

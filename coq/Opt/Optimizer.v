(* Opt/Optimizer.v — executable model of /repo/optimizer: the five Exit-only visitors
   (in_array, fold, const_expr, in_range, const_range), the post-order traversal they run in
   (every Node slot in declaration order, as the fixed ast.Walk does) and `Optimize` with its
   pass order and iteration bounds (1001 / 101).  The Go code is modelled as it is, defects
   included.  No proofs here (Opt/OptProofs.v).

   Conventions.  `Patch(node, new)` copies type and location of the replaced node: `patch`.
   `patchWithType(new, t)` additionally overwrites the type: `patch_ty`.  A freshly allocated
   node that is not the direct target of Patch keeps Go's zero base: no type, location (0,0) =
   `ann0`.  `IntegerNode.Value` is a Go int: wherever the optimizer reads it the model reads
   `iv z = wrap KInt z` (the identity on every tree the parser can produce).
   The visitors' mutable fields (`applied`, `err`) are the accumulator `acc`: the walk never stops
   early, a later error overwrites an earlier one, exactly as in fold.go / const_expr.go. *)
From Coq Require Import ZArith Bool List String Floats.
Require Import X.Base.Num X.Base.Value X.Syn.Ast X.Sem.Prim.
Import ListNotations.
Open Scope Z_scope.

(* ---------------- Patch ---------------- *)
Definition patch (old new : expr) : expr := set_ann new (ann_of old).
Definition patch_ty (old new : expr) (k : rkind) : expr := set_ann new (mkAnn (loc_of old) k).

Definition iv (z : Z) : Z := wrap KInt z.

(* ---------------- visitor state ---------------- *)
Definition acc := (bool * option loc)%type.          (* applied, err *)
Definition acc0 : acc := (false, None).
Definition acc_applied : acc := (true, None).
Definition acc_err (l : loc) : acc := (false, Some l).
Definition join (a b : acc) : acc :=
  (fst a || fst b, match snd b with Some l => Some l | None => snd a end).

Definition visitor := expr -> expr * acc.

(* ---------------- the walk: children first (declaration order), then Exit ---------------- *)
Fixpoint map_post (f : visitor) (e : expr) {struct e} : expr * acc :=
  let mp_list := fix mp_list (l : list expr) : list expr * acc :=
    match l with
    | [] => ([], acc0)
    | x :: r => let '(x', a1) := map_post f x in let '(r', a2) := mp_list r in (x' :: r', join a1 a2)
    end in
  match e with
  | ENil _ | EIdent _ _ _ | EInt _ _ | EFloat _ _ | EBool _ _ | EStr _ _ | EConst _ _ | EPointer _ => f e
  | EUnary a op x =>
      let '(x', a1) := map_post f x in
      let '(e', a2) := f (EUnary a op x') in (e', join a1 a2)
  | EBinary a op l r =>
      let '(l', a1) := map_post f l in let '(r', a2) := map_post f r in
      let '(e', a3) := f (EBinary a op l' r') in (e', join (join a1 a2) a3)
  | EMatches a re l r =>
      let '(l', a1) := map_post f l in let '(r', a2) := map_post f r in
      let '(e', a3) := f (EMatches a re l' r') in (e', join (join a1 a2) a3)
  | EProperty a x n s =>
      let '(x', a1) := map_post f x in
      let '(e', a2) := f (EProperty a x' n s) in (e', join a1 a2)
  | EIndex a x i =>
      let '(x', a1) := map_post f x in let '(i', a2) := map_post f i in
      let '(e', a3) := f (EIndex a x' i') in (e', join (join a1 a2) a3)
  | ESlice a x from to =>
      let '(x', a1) := map_post f x in
      let '(from', a2) := match from with
                          | Some y => let '(y', b) := map_post f y in (Some y', b)
                          | None => (None, acc0) end in
      let '(to', a3) := match to with
                        | Some y => let '(y', b) := map_post f y in (Some y', b)
                        | None => (None, acc0) end in
      let '(e', a4) := f (ESlice a x' from' to') in (e', join (join (join a1 a2) a3) a4)
  | EMethod a x n args s =>
      let '(x', a1) := map_post f x in let '(args', a2) := mp_list args in
      let '(e', a3) := f (EMethod a x' n args' s) in (e', join (join a1 a2) a3)
  | EFunction a n args fast =>
      let '(args', a1) := mp_list args in
      let '(e', a2) := f (EFunction a n args' fast) in (e', join a1 a2)
  | EBuiltin a b args =>
      let '(args', a1) := mp_list args in
      let '(e', a2) := f (EBuiltin a b args') in (e', join a1 a2)
  | EClosure a x =>
      let '(x', a1) := map_post f x in
      let '(e', a2) := f (EClosure a x') in (e', join a1 a2)
  | ECond a c x y =>
      let '(c', a1) := map_post f c in let '(x', a2) := map_post f x in let '(y', a3) := map_post f y in
      let '(e', a4) := f (ECond a c' x' y') in (e', join (join (join a1 a2) a3) a4)
  | EArray a es =>
      let '(es', a1) := mp_list es in
      let '(e', a2) := f (EArray a es') in (e', join a1 a2)
  | EMap a ps =>
      let '(ps', a1) := mp_list ps in
      let '(e', a2) := f (EMap a ps') in (e', join a1 a2)
  | EPair a k v =>
      let '(k', a1) := map_post f k in let '(v', a2) := map_post f v in
      let '(e', a3) := f (EPair a k' v') in (e', join (join a1 a2) a3)
  end.

Fixpoint map_post_list (f : visitor) (l : list expr) : list expr * acc :=
  match l with
  | [] => ([], acc0)
  | x :: r => let '(x', a1) := map_post f x in let '(r', a2) := map_post_list f r in (x' :: r', join a1 a2)
  end.

(* ---------------- literal recognisers ---------------- *)
Definition int_lit (e : expr) : option (ann * Z) := match e with EInt a z => Some (a, z) | _ => None end.
Definition str_lit (e : expr) : option string := match e with EStr _ s => Some s | _ => None end.
Definition arr_lit (e : expr) : option (list expr) := match e with EArray _ es => Some es | _ => None end.
Definition is_nil_list {A} (l : list A) : bool := match l with [] => true | _ => false end.

(* ---------------- literal lists ---------------- *)
Fixpoint all_ints (es : list expr) : option (list Z) :=
  match es with
  | [] => Some []
  | EInt _ z :: r => match all_ints r with Some zs => Some (iv z :: zs) | None => None end
  | _ => None
  end.

Fixpoint all_strs (es : list expr) : option (list string) :=
  match es with
  | [] => Some []
  | EStr _ s :: r => match all_strs r with Some ss => Some (s :: ss) | None => None end
  | _ => None
  end.

(* map[int]struct{} / map[string]struct{} in the canonical form of Value.v: ascending keys, no duplicates *)
Definition unit_ty : ty := TStruct "".
Definition unit_val : value := VStruct "" false [].

Fixpoint zset_add (z : Z) (l : list Z) : list Z :=
  match l with
  | [] => [z]
  | y :: r => if z <? y then z :: l else if z =? y then l else y :: zset_add z r
  end.
Fixpoint sset_add (s : string) (l : list string) : list string :=
  match l with
  | [] => [s]
  | y :: r => match String.compare s y with Lt => s :: l | Eq => l | Gt => y :: sset_add s r end
  end.

Definition int_set (zs : list Z) : value :=
  VMap (TNum KInt) unit_ty (map (fun z => (vint z, unit_val)) (fold_right zset_add [] zs)).
Definition str_set (ss : list string) : value :=
  VMap TString unit_ty (map (fun s => (VStr s, unit_val)) (fold_right sset_add [] ss)).

(* ---------------- in_array.go ---------------- *)
Definition is_in_op (op : binop) : bool := match op with BIn | BNotIn => true | _ => false end.

Definition in_array_v : visitor := fun e =>
  match e with
  | EBinary a op l r =>
      match arr_lit r with
      | Some es =>
          if is_in_op op && negb (is_nil_list es) then
            match kind_of l with
            | RKNum KInt =>
                match all_ints es with
                | Some zs => (patch e (EBinary ann0 op l (EConst ann0 (int_set zs))), acc0)
                | None => (e, acc0)
                end
            | RKString =>
                match all_strs es with
                | Some ss => (patch e (EBinary ann0 op l (EConst ann0 (str_set ss))), acc0)
                | None => (e, acc0)
                end
            | _ => (e, acc0)
            end
          else (e, acc0)
      | None => (e, acc0)
      end
  | _ => (e, acc0)
  end.

(* ---------------- fold.go ---------------- *)
Definition is_float_kind (k : rkind) : bool := match k with RKNum KF32 | RKNum KF64 => true | _ => false end.

Section Fold.
Variable pow : float -> float -> float.     (* math.Pow *)

(* both operands are integer literals (a1, x) and (a2, y) *)
Definition fold_int_bin (e : expr) (a : ann) (op : binop) (a1 : ann) (x : Z) (a2 : ann) (y : Z) : expr * acc :=
  match op with
  | BAdd => (patch_ty e (EInt ann0 (wrap KInt (iv x + iv y))) (akind a1), acc_applied)
  | BSub => (patch_ty e (EInt ann0 (wrap KInt (iv x - iv y))) (akind a1), acc_applied)
  | BMul => (patch_ty e (EInt ann0 (wrap KInt (iv x * iv y))) (akind a1), acc_applied)
  | BDiv =>
      if is_float_kind (akind a1) || is_float_kind (akind a2) then (e, acc0)
      else if iv y =? 0 then (e, acc_err (aloc a))
      else (patch_ty e (EInt ann0 (wrap KInt (Z.quot (iv x) (iv y)))) (akind a1), acc_applied)
  | BMod =>
      if iv y =? 0 then (e, acc_err (aloc a))
      else (patch e (EInt ann0 (wrap KInt (Z.rem (iv x) (iv y)))), acc_applied)
  | BPow => (patch e (EFloat ann0 (pow (f_of_Z (iv x)) (f_of_Z (iv y)))), acc_applied)
  | _ => (e, acc0)
  end.

Definition fold_array (e : expr) (es : list expr) : expr * acc :=
  if is_nil_list es then (e, acc0) else
  match all_ints es with
  | Some zs => (patch e (EConst ann0 (VArr (TNum KInt) (map vint zs))), acc_applied)
  | None =>
      match all_strs es with
      | Some ss => (patch e (EConst ann0 (VArr TString (map VStr ss))), acc_applied)
      | None => (e, acc0)
      end
  end.

Definition fold_v : visitor := fun e =>
  match e with
  | EUnary a op x =>
      match int_lit x with
      | Some (ai, z) =>
          match op with
          | UMinus => (patch_ty e (EInt ann0 (wrap KInt (- iv z))) (akind ai), acc_applied)
          | UPlus => (patch_ty e (EInt ann0 (iv z)) (akind ai), acc_applied)
          | _ => (e, acc0)
          end
      | None => (e, acc0)
      end
  | EBinary a op l r =>
      match int_lit l, int_lit r with
      | Some (a1, x), Some (a2, y) => fold_int_bin e a op a1 x a2 y
      | _, _ =>
          match op, str_lit l, str_lit r with
          | BAdd, Some x, Some y => (patch e (EStr ann0 (x ++ y)), acc_applied)
          | _, _, _ => (e, acc0)
          end
      end
  | EArray a es => fold_array e es
  | _ => (e, acc0)
  end.
End Fold.

(* ---------------- const_expr.go ---------------- *)
Fixpoint const_args (es : list expr) : option (list value) :=
  match es with
  | [] => Some []
  | x :: r =>
      match (match x with
             | ENil _ => Some VNil
             | EInt _ z => Some (vint (iv z))        (* the Go int, whatever type the checker gave the literal *)
             | EFloat _ f => Some (VNum (NFlt KF64 f))
             | EBool _ b => Some (VBool b)
             | EStr _ s => Some (VStr s)
             | EConst _ v => Some v
             | _ => None end), const_args r with
      | Some v, Some vs => Some (v :: vs)
      | _, _ => None
      end
  end.

(* reflect.Value.Call on the function taken from the environment at configuration time *)
Definition const_call (fe : fenv) (env : value) (name : string) (vs : list value) : outcome value :=
  match fn_sig fe name with
  | None => Fail EReflect
  | Some sg =>
      if args_ok (s_ins sg) (s_variadic sg) vs then
        match fn_run fe name env vs with
        | Ok v => if s_nout sg =? 0 then Fail EIndexRange else Ok v
        | Fail e => Fail e
        end
      else Fail EReflect
  end.

Section ConstExpr.
Variable fe : fenv.
Variable env : value.
Variable cnames : list string.             (* keys of config.ConstExprFns *)

Definition is_const_fn (n : string) : bool := existsb (String.eqb n) cnames.

Definition const_expr_v : visitor := fun e =>
  match e with
  | EFunction a name args fast =>
      if is_const_fn name then
        match const_args args with
        | Some vs =>
            match const_call fe env name vs with
            | Ok v => (patch e (EConst ann0 v), acc_applied)
            | Fail _ => (e, acc_err (aloc a))
            end
        | None => (e, acc0)
        end
      else (e, acc0)
  | _ => (e, acc0)
  end.
End ConstExpr.

(* ---------------- in_range.go ---------------- *)
Definition in_range_left_ok (k : rkind) : bool :=
  match k with
  | RKInvalid => true                         (* no static type: the rewrite fires *)
  | RKNum n => is_intkind n
  | _ => false
  end.

Definition range_lit (e : expr) : option (expr * expr) :=
  match e with
  | EBinary _ BRange f t => match int_lit f, int_lit t with Some _, Some _ => Some (f, t) | _, _ => None end
  | _ => None
  end.

Definition in_range_v : visitor := fun e =>
  match e with
  | EBinary a op x r =>
      match range_lit r with
      | Some (from, to) =>
          if is_in_op op && in_range_left_ok (kind_of x) then
            let conj := EBinary a BAndWord (EBinary ann0 BGe x from) (EBinary ann0 BLe x to) in
            match op with
            | BNotIn => (EUnary a UNotWord conj, acc0)
            | _ => (conj, acc0)
            end
          else (e, acc0)
      | None => (e, acc0)
      end
  | _ => (e, acc0)
  end.

(* ---------------- const_range.go ---------------- *)
Definition range_window : Z := 1000000.

Definition const_range_v : visitor := fun e =>
  match e with
  | EBinary a BRange l r =>
      match int_lit l, int_lit r with
      | Some (_, lo), Some (_, hi) =>
          (* max < min: the empty slice; otherwise size := max - min + 1 in Go int arithmetic (it wraps
             when the span does not fit an int), folded only for 1 <= size <= 10^6 *)
          if iv hi <? iv lo then (patch e (EConst ann0 (VArr (TNum KInt) [])), acc0)
          else
            let size := wrap KInt (iv hi - iv lo + 1) in
            if (size <? 1) || (range_window <? size) then (e, acc0)
            else (patch e (EConst ann0 (VArr (TNum KInt) (range_list (iv lo) (Z.to_nat size)))), acc0)
      | _, _ => (e, acc0)
      end
  | _ => (e, acc0)
  end.

(* ---------------- optimizer.go ---------------- *)
Inductive ores := OOk (e : expr) | OFail (l : loc).

(* `for limit := N; limit >= 0; limit--`: at most N+1 walks; running out of walks is not an error *)
Fixpoint iter_pass (f : visitor) (n : nat) (e : expr) : ores :=
  match n with
  | O => OOk e
  | S n' =>
      let '(e', (applied, err)) := map_post f e in
      match err with
      | Some l => OFail l
      | None => if applied then iter_pass f n' e' else OOk e'
      end
  end.

Definition fold_bound : nat := Z.to_nat 1001.
Definition const_expr_bound : nat := Z.to_nat 101.

Definition obind (r : ores) (k : expr -> ores) : ores := match r with OOk e => k e | OFail l => OFail l end.

Section Optimize.
Variable fe : fenv.
Variable env : value.
Variable cnames : list string.

Definition pass_in_array (e : expr) : expr := fst (map_post in_array_v e).
Definition pass_fold (e : expr) : ores := iter_pass (fold_v (f_pow fe)) fold_bound e.
Definition pass_const_expr (e : expr) : ores :=
  match cnames with
  | [] => OOk e
  | _ => iter_pass (const_expr_v fe env cnames) const_expr_bound e
  end.
Definition pass_in_range (e : expr) : expr := fst (map_post in_range_v e).
Definition pass_const_range (e : expr) : expr := fst (map_post const_range_v e).

(* the tree handed to the in_range pass / to the const_range pass *)
Definition before_in_range (e : expr) : ores :=
  obind (pass_fold (pass_in_array e)) pass_const_expr.
Definition before_const_range (e : expr) : ores :=
  obind (before_in_range e) (fun e3 => OOk (pass_in_range e3)).

Definition optimize (e : expr) : ores :=
  obind (before_const_range e) (fun e4 => OOk (pass_const_range e4)).
End Optimize.

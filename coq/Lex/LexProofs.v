(* Lex/LexProofs.v — theorems about the lexer model Lex/Lexer.v for property C12.
   All statements are for ALL inputs (induction over rune lists / digit lists / token lists). *)
From Coq Require Import ZArith List Bool String Ascii Lia.
Require Import X.Base.Value X.Syn.Tok X.Lex.Lexer.
Import ListNotations.
Open Scope Z_scope.

(* ------------------------------------------------------------------ positions *)
Definition advance (p : loc) (w : list Z) : loc := fold_left adv_loc w p.

Lemma advance_app : forall a b p, advance p (a ++ b) = advance (advance p a) b.
Proof. intros. unfold advance. apply fold_left_app. Qed.

Lemma advance_cons : forall r w p, advance p (r :: w) = advance (adv_loc p r) w.
Proof. reflexivity. Qed.

(* ------------------------------------------------------------------ next / backup / peek *)
Definition adv (l : lexer) : lexer := snd (next l).
Definition pk (l : lexer) : lexer := backup (adv l).

Fixpoint consume (w : list Z) (l : lexer) : lexer :=
  match w with [] => l | _ :: w' => consume w' (adv l) end.

Lemma next_cons : forall l r t, l_rest l = r :: t -> next l = (r, adv l).
Proof. intros l r t H. unfold adv, next. rewrite H. reflexivity. Qed.

Lemma next_nil : forall l, l_rest l = [] -> next l = (eof, adv l).
Proof. intros l H. unfold adv, next. rewrite H. reflexivity. Qed.

Lemma adv_cons : forall l r t, l_rest l = r :: t ->
  adv l = mkLexer t (r :: l_word l) 1 (l_startLoc l) (l_loc l) (adv_loc (l_loc l) r) (l_tokens l) (l_err l).
Proof. intros l r t H. unfold adv, next. rewrite H. reflexivity. Qed.

Lemma adv_nil : forall l, l_rest l = [] ->
  adv l = mkLexer [] (l_word l) 0 (l_startLoc l) (l_prev l) (l_loc l) (l_tokens l) (l_err l).
Proof. intros l H. unfold adv, next. rewrite H. reflexivity. Qed.

Lemma pk_cons : forall l r t, l_rest l = r :: t ->
  pk l = mkLexer (r :: t) (l_word l) 1 (l_startLoc l) (l_loc l) (l_loc l) (l_tokens l) (l_err l).
Proof. intros l r t H. unfold pk. rewrite (adv_cons _ _ _ H). reflexivity. Qed.

Lemma pk_nil : forall l, l_rest l = [] ->
  pk l = mkLexer [] (l_word l) 0 (l_startLoc l) (l_prev l) (l_prev l) (l_tokens l) (l_err l).
Proof. intros l H. unfold pk. rewrite (adv_nil _ H). reflexivity. Qed.

Lemma pk_fields : forall l,
  l_rest (pk l) = l_rest l /\ l_word (pk l) = l_word l /\ l_startLoc (pk l) = l_startLoc l /\
  l_tokens (pk l) = l_tokens l /\ l_err (pk l) = l_err l.
Proof.
  intros l. destruct (l_rest l) as [|r t] eqn:E.
  - rewrite (pk_nil _ E). cbn. auto.
  - rewrite (pk_cons _ _ _ E). cbn. auto.
Qed.

Lemma pk_rest : forall l, l_rest (pk l) = l_rest l.
Proof. intros. apply pk_fields. Qed.

Lemma adv_pk : forall l, l_rest l <> [] -> adv (pk l) = adv l.
Proof.
  intros l H. destruct (l_rest l) as [|r t] eqn:E; [congruence|].
  rewrite (adv_cons l r t E). rewrite (pk_cons l r t E). reflexivity.
Qed.

Lemma next_pk : forall l, l_rest l <> [] -> next (pk l) = next l.
Proof.
  intros l H. destruct (l_rest l) as [|r t] eqn:E; [congruence|].
  rewrite (next_cons l r t E). rewrite (next_cons (pk l) r t) by (rewrite pk_rest; exact E).
  rewrite adv_pk by congruence. reflexivity.
Qed.

Lemma pk_pk : forall l, pk (pk l) = pk l.
Proof.
  intros l. destruct (l_rest l) as [|r t] eqn:E.
  - rewrite (pk_nil (pk l)) by (rewrite pk_rest; exact E). rewrite (pk_nil _ E). reflexivity.
  - rewrite (pk_cons (pk l) r t) by (rewrite pk_rest; exact E). rewrite (pk_cons _ _ _ E). reflexivity.
Qed.

Lemma peek_eq : forall l, peek l = (fst (next l), pk l).
Proof. intros l. unfold peek, pk, adv. destruct (next l). reflexivity. Qed.

Lemma peek_cons : forall l r t, l_rest l = r :: t -> peek l = (r, pk l).
Proof. intros. rewrite peek_eq, (next_cons _ _ _ H). reflexivity. Qed.

Lemma peek_nil : forall l, l_rest l = [] -> peek l = (eof, pk l).
Proof. intros. rewrite peek_eq, (next_nil _ H). reflexivity. Qed.

Lemma peek_pk : forall l, peek (pk l) = peek l.
Proof.
  intros l. destruct (l_rest l) as [|r t] eqn:E.
  - rewrite (peek_nil _ E), (peek_nil (pk l)) by (rewrite pk_rest; exact E). rewrite pk_pk. reflexivity.
  - rewrite (peek_cons _ _ _ E), (peek_cons (pk l) r t) by (rewrite pk_rest; exact E). rewrite pk_pk. reflexivity.
Qed.

(* ---- consume *)
Lemma consume_app : forall a b l, consume (a ++ b) l = consume b (consume a l).
Proof. induction a; intros; cbn; auto. Qed.

Lemma consume_eq : forall w l t, w <> [] -> l_rest l = w ++ t ->
  consume w l = mkLexer t (rev w ++ l_word l) 1 (l_startLoc l)
                        (advance (l_loc l) (removelast w)) (advance (l_loc l) w) (l_tokens l) (l_err l).
Proof.
  induction w as [|r w IH]; intros l t Hne H; [congruence|].
  cbn [consume]. destruct w as [|r2 w].
  - cbn [consume]. rewrite (adv_cons l r t H). reflexivity.
  - rewrite (IH (adv l) t) by (try congruence; rewrite (adv_cons l r _ H); reflexivity).
    rewrite (adv_cons l r _ H). cbn [l_word l_startLoc l_loc l_tokens l_err].
    change (removelast (r :: r2 :: w)) with (r :: removelast (r2 :: w)).
    rewrite !advance_cons. cbn [rev]. rewrite <- !app_assoc. reflexivity.
Qed.

Lemma consume_rest : forall w l t, l_rest l = w ++ t -> l_rest (consume w l) = t.
Proof.
  intros w l t H. destruct w as [|r w]; [exact H|].
  rewrite (consume_eq (r :: w) l t) by (congruence || exact H). reflexivity.
Qed.

Lemma consume_fields : forall w l,
  l_startLoc (consume w l) = l_startLoc l /\ l_tokens (consume w l) = l_tokens l /\ l_err (consume w l) = l_err l.
Proof.
  induction w as [|r w IH]; intros l; cbn [consume]; [auto|].
  destruct (IH (adv l)) as (A & B & C). rewrite A, B, C.
  unfold adv, next. destruct (l_rest l); cbn; auto.
Qed.

(* ---- accept *)
Lemma accept_hit : forall valid l r t, l_rest l = r :: t -> mem r valid = true ->
  accept valid l = (true, adv l).
Proof. intros. unfold accept. rewrite (next_cons _ _ _ H), H0. reflexivity. Qed.

Lemma accept_miss_cons : forall valid l r t, l_rest l = r :: t -> mem r valid = false ->
  accept valid l = (false, pk l).
Proof. intros. unfold accept. rewrite (next_cons _ _ _ H), H0. reflexivity. Qed.

Lemma accept_miss_nil : forall valid l, l_rest l = [] -> mem eof valid = false ->
  accept valid l = (false, pk l).
Proof. intros. unfold accept. rewrite (next_nil _ H), H0. reflexivity. Qed.

(* head of the remaining input as an option: None = end of input *)
Definition hd_ok (p : Z -> bool) (t : list Z) : Prop :=
  match t with [] => True | c :: _ => p c = true end.

Lemma accept_miss : forall valid l, mem eof valid = false ->
  hd_ok (fun c => negb (mem c valid)) (l_rest l) -> accept valid l = (false, pk l).
Proof.
  intros valid l He H. destruct (l_rest l) as [|r t] eqn:E.
  - apply accept_miss_nil; auto.
  - cbn in H. apply negb_true_iff in H. eapply accept_miss_cons; eauto.
Qed.

Lemma accept_pk : forall valid l, mem eof valid = false -> accept valid (pk l) = accept valid l.
Proof.
  intros valid l He. destruct (l_rest l) as [|r t] eqn:E.
  - rewrite (accept_miss_nil valid l E He).
    rewrite (accept_miss_nil valid (pk l)) by (try rewrite pk_rest; assumption). rewrite pk_pk. reflexivity.
  - unfold accept. rewrite next_pk by congruence. destruct (next l) as [c l1] eqn:N.
    destruct (mem c valid); reflexivity.
Qed.

(* ---- run_while (acceptRun, identifier) *)
Lemma run_while_spec : forall p w fuel l t,
  p eof = false -> l_rest l = w ++ t -> Forall (fun r => p r = true) w ->
  hd_ok (fun c => negb (p c)) t -> (List.length w < fuel)%nat ->
  run_while p fuel l = pk (consume w l).
Proof.
  induction w as [|r w IH]; intros fuel l t He H Hw Ht Hf.
  - cbn [consume]. destruct fuel as [|f]; [cbn in Hf; lia|]. cbn [run_while].
    cbn [app] in H. destruct t as [|c t].
    + rewrite (next_nil _ H), He. reflexivity.
    + cbn in Ht. apply negb_true_iff in Ht. rewrite (next_cons _ _ _ H), Ht. reflexivity.
  - destruct fuel as [|f]; [cbn in Hf; lia|]. cbn [run_while consume].
    cbn [app] in H. rewrite (next_cons _ _ _ H). inversion Hw; subst. rewrite H2.
    apply (IH f (adv l) t); auto.
    + rewrite (adv_cons _ _ _ H). reflexivity.
    + cbn in Hf. lia.
Qed.

Lemma run_while_pk : forall p fuel l, p eof = false -> (0 < fuel)%nat ->
  run_while p fuel (pk l) = run_while p fuel l.
Proof.
  intros p fuel l He Hf. destruct fuel as [|f]; [lia|]. cbn [run_while].
  destruct (l_rest l) as [|r t] eqn:E.
  - rewrite (next_nil _ E). rewrite (next_nil (pk l)) by (rewrite pk_rest; exact E).
    rewrite He. fold (pk (pk l)). fold (pk l). rewrite pk_pk. reflexivity.
  - rewrite next_pk by congruence. reflexivity.
Qed.

Lemma acceptRun_spec : forall valid w l t,
  mem eof valid = false -> l_rest l = w ++ t -> Forall (fun r => mem r valid = true) w ->
  hd_ok (fun c => negb (mem c valid)) t ->
  acceptRun valid l = pk (consume w l).
Proof.
  intros. unfold acceptRun. apply (run_while_spec (fun r => mem r valid) w _ l t); auto.
  rewrite H0, app_length. lia.
Qed.

Lemma acceptRun_pk : forall valid l, mem eof valid = false -> acceptRun valid (pk l) = acceptRun valid l.
Proof.
  intros. unfold acceptRun. rewrite pk_rest. apply (run_while_pk (fun r => mem r valid)); auto. lia.
Qed.

(* ------------------------------------------------------------------ the invariant of DESIGN.md Appendix C *)
(* Between tokens: nothing pending; if input remains, loc = startLoc = position of the next unread rune
   (prev is irrelevant: the next `next` overwrites it); at end of input, prev = position of the last rune
   (loc is irrelevant: an eof `backup` may have set it to prev; only the EOF token, located at prev, follows). *)
Record Between (l : lexer) (rest : list Z) (pos lastp : loc) (toks : list token) : Prop := mkBetween {
  b_rest : l_rest l = rest;
  b_word : l_word l = [];
  b_err : l_err l = None;
  b_toks : l_tokens l = toks;
  b_loc : rest <> [] -> l_loc l = pos /\ l_startLoc l = pos;
  b_prev : rest = [] -> l_prev l = lastp }.

(* Inside a token whose runes w have been read *)
Record Mid (m : lexer) (tail w : list Z) (pos : loc) (toks : list token) : Prop := mkMid {
  m_rest : l_rest m = tail;
  m_word : l_word m = rev w;
  m_start : l_startLoc m = pos;
  m_err : l_err m = None;
  m_toks : l_tokens m = toks;
  m_loc : tail <> [] -> l_loc m = advance pos w;
  m_prev : tail = [] -> l_prev m = advance pos (removelast w) }.

Lemma Mid_consume : forall l w tail pos lastp toks,
  Between l (w ++ tail) pos lastp toks -> w <> [] -> Mid (consume w l) tail w pos toks.
Proof.
  intros l w tail pos lastp toks B Hw. destruct B as [R W E T L P].
  destruct L as [L1 L2]. { destruct w; cbn; congruence. }
  rewrite (consume_eq w l tail Hw R).
  constructor; cbn; try assumption; try reflexivity; try (intros _; rewrite L1; reflexivity).
  rewrite W, app_nil_r. reflexivity.
Qed.

Lemma Mid_pk : forall m tail w pos toks, Mid m tail w pos toks -> Mid (pk m) tail w pos toks.
Proof.
  intros m tail w pos toks [R W S E T L P].
  destruct tail as [|c tail].
  - rewrite (pk_nil _ R). constructor; cbn; auto. congruence.
  - rewrite (pk_cons _ _ _ R). constructor; cbn; auto. congruence.
Qed.

Lemma Between_emitValue : forall m tail w pos toks k v, Mid m tail w pos toks ->
  Between (emitValue k v m) tail (advance pos w) (advance pos (removelast w)) (mkTok pos k v :: toks).
Proof.
  intros m tail w pos toks k v [R W S E T L P]. unfold emitValue.
  constructor; cbn; auto; try (rewrite S, T; reflexivity); try (intros H; rewrite (L H); auto).
Qed.

Lemma Between_emit : forall m tail w pos toks k, Mid m tail w pos toks ->
  Between (emit k m) tail (advance pos w) (advance pos (removelast w)) (mkTok pos k (utf8_encode w) :: toks).
Proof.
  intros. unfold emit. replace (word m) with w.
  - apply Between_emitValue; assumption.
  - unfold word. rewrite (m_word _ _ _ _ _ H), rev_involutive. reflexivity.
Qed.

(* replace every `rs "..."` constant by its value *)
Ltac ev_rs := repeat match goal with
  | |- context[rs ?s] => let v := eval vm_compute in (rs s) in change (rs s) with v
  end.
Ltac ev_rs_in H := repeat match type of H with
  | context[rs ?s] => let v := eval vm_compute in (rs s) in change (rs s) with v in H
  end.

Definition ascii_ws (c : Z) : bool := mem c [32; 9; 10; 13; 11; 12].

Lemma mem_In : forall r l, mem r l = true <-> In r l.
Proof.
  induction l as [|x l IH]; cbn; [split; [discriminate|intros []]|].
  rewrite orb_true_iff, Z.eqb_eq, IH. split; intros [H|H]; auto.
Qed.

Section WithClasses.
  Variables uni_letter uni_digit uni_space : Z -> bool.
  Notation is_space := (is_space uni_space).
  Notation is_alnum := (is_alnum uni_letter uni_digit).
  Notation is_alphabetic := (is_alphabetic uni_letter).
  Notation step := (step uni_letter uni_digit uni_space).
  Notation lex_fuel := (lex_fuel uni_letter uni_digit uni_space).
  Notation lex := (lex uni_letter uni_digit uni_space).
  Notation scanNumber := (scanNumber uni_letter uni_digit).
  Notation scanNumber_exp := (scanNumber_exp uni_letter uni_digit).
  Notation scanNumber_frac := (scanNumber_frac uni_letter uni_digit).

  Lemma lex_fuel_step : forall f st l st' l', step st l = (Some st', l') ->
    lex_fuel (S f) st l = lex_fuel f st' l'.
  Proof. intros. cbn [Lexer.lex_fuel]. rewrite H. reflexivity. Qed.

  Lemma ascii_ws_cases : forall c, ascii_ws c = true ->
    c = 32 \/ c = 9 \/ c = 10 \/ c = 13 \/ c = 11 \/ c = 12.
  Proof.
    intros c H. unfold ascii_ws in H. cbn [mem] in H.
    repeat (apply orb_true_iff in H; destruct H as [H|H]; [apply Z.eqb_eq in H; auto 10|]). discriminate.
  Qed.

  (* white space: root ignores it *)
  Lemma step_ws : forall l c tail pos lastp toks,
    Between l (c :: tail) pos lastp toks -> ascii_ws c = true ->
    step SRoot l = (Some SRoot, ignore (adv l)) /\ Between (ignore (adv l)) tail (adv_loc pos c) pos toks.
  Proof.
    intros l c tail pos lastp toks B Hc. pose proof B as [R W E T L P].
    destruct L as [L1 L2]; [congruence|]. split.
    - unfold Lexer.step. rewrite (next_cons _ _ _ R).
      destruct (ascii_ws_cases c Hc) as [->|[->|[->|[->|[->| ->]]]]]; reflexivity.
    - rewrite (adv_cons _ _ _ R). unfold ignore. constructor; cbn; auto.
      + rewrite L1. auto.
  Qed.

  (* end of input: the EOF token, located at prev *)
  Lemma step_eof : forall l pos lastp toks, Between l [] pos lastp toks ->
    exists l', step SRoot l = (None, l') /\ l_err l' = None /\ l_tokens l' = mkTok lastp TkEOF EmptyString :: toks.
  Proof.
    intros l pos lastp toks [R W E T L P]. eexists. split.
    - unfold Lexer.step. rewrite (next_nil _ R). cbn. reflexivity.
    - rewrite (adv_nil _ R). unfold emitEOF. cbn. rewrite (P eq_refl), T. auto.
  Qed.

  (* what a token lemma concludes: after k calls of state functions the token has been emitted *)
  Definition token_done (l : lexer) (w tail : list Z) (pos : loc) (toks : list token) (k : tkind) (v : string) : Prop :=
    exists n l', (n = 1 \/ n = 2 \/ n = 3)%nat /\ (n <= 2 * List.length w)%nat /\
      (forall f, lex_fuel (n + f) SRoot l = lex_fuel f SRoot l') /\
      Between l' tail (advance pos w) (advance pos (removelast w)) (mkTok pos k v :: toks).

  Lemma one_step_done : forall l l' w tail pos toks k v, w <> [] ->
    step SRoot l = (Some SRoot, l') ->
    Between l' tail (advance pos w) (advance pos (removelast w)) (mkTok pos k v :: toks) ->
    token_done l w tail pos toks k v.
  Proof.
    intros. exists 1%nat, l'. split; [auto|]. split; [destruct w; [congruence|cbn; lia]|].
    split; [intros f; apply lex_fuel_step; assumption|assumption].
  Qed.

  Definition bracket_runes : list Z := [40; 91; 123; 41; 93; 125].
  Definition op1_runes : list Z := [35; 44; 63; 58; 37; 43; 45; 47].       (* # , ? : % + - / *)
  Definition op2_first : list Z := [38; 124; 33; 61; 42; 60; 62].         (* & | ! = * < > *)
  Definition op2_second : list Z := [38; 124; 61; 42].                    (* & | = * *)

  Lemma tok_bracket : forall l r tail pos lastp toks,
    Between l ([r] ++ tail) pos lastp toks -> mem r bracket_runes = true ->
    token_done l [r] tail pos toks TkBracket (utf8_encode [r]).
  Proof.
    intros l r tail pos lastp toks B Hr.
    apply (one_step_done l (emit TkBracket (consume [r] l))); [congruence| |].
    - unfold Lexer.step. rewrite (next_cons _ _ _ (b_rest _ _ _ _ _ B)).
      apply mem_In in Hr. cbn [In bracket_runes] in Hr.
      destruct Hr as [<-|[<-|[<-|[<-|[<-|[<-|[]]]]]]]; reflexivity.
    - apply Between_emit. eapply Mid_consume; [exact B|congruence].
  Qed.

  Lemma tok_op1 : forall l r tail pos lastp toks,
    Between l ([r] ++ tail) pos lastp toks -> mem r op1_runes = true ->
    (r = 63 -> hd_ok (fun c => negb (c =? 46)) tail) ->
    token_done l [r] tail pos toks TkOperator (utf8_encode [r]).
  Proof.
    intros l r tail pos lastp toks B Hr Hq.
    pose proof (Mid_consume _ _ _ _ _ _ B ltac:(congruence)) as M.
    pose proof (b_rest _ _ _ _ _ B) as R.
    apply mem_In in Hr. cbn [In op1_runes] in Hr.
    destruct (Z.eq_dec r 63) as [->|Hne].
    - apply (one_step_done l (emit TkOperator (pk (consume [63] l)))); [congruence| |].
      + unfold Lexer.step. rewrite (next_cons _ _ _ R). cbn [consume].
        change (63 =? eof) with false. cbv iota.
        replace (is_space 63) with false by reflexivity. cbv iota.
        change ((63 =? 39) || (63 =? 34)) with false. cbv iota.
        change ((48 <=? 63) && (63 <=? 57)) with false. cbv iota.
        change (63 =? 63) with true. cbv iota.
        specialize (Hq eq_refl). destruct tail as [|c tail].
        * rewrite (peek_nil (adv l)) by (rewrite (adv_cons _ _ _ R); reflexivity). reflexivity.
        * rewrite (peek_cons (adv l) c tail) by (rewrite (adv_cons _ _ _ R); reflexivity).
          cbn in Hq. apply negb_true_iff in Hq. rewrite Hq. reflexivity.
      + apply Between_emit. apply Mid_pk. exact M.
    - apply (one_step_done l (emit TkOperator (consume [r] l))); [congruence| |].
      + unfold Lexer.step. rewrite (next_cons _ _ _ R).
        destruct Hr as [<-|[<-|[<-|[<-|[<-|[<-|[<-|[<-|[]]]]]]]]]; try reflexivity. congruence.
      + apply Between_emit. exact M.
  Qed.

  Lemma tok_op2_single : forall l r tail pos lastp toks,
    Between l ([r] ++ tail) pos lastp toks -> mem r op2_first = true ->
    hd_ok (fun c => negb (mem c op2_second)) tail ->
    token_done l [r] tail pos toks TkOperator (utf8_encode [r]).
  Proof.
    intros l r tail pos lastp toks B Hr Hq.
    pose proof (Mid_consume _ _ _ _ _ _ B ltac:(congruence)) as M.
    pose proof (b_rest _ _ _ _ _ B) as R.
    apply (one_step_done l (emit TkOperator (pk (consume [r] l)))); [congruence| |].
    - unfold Lexer.step. rewrite (next_cons _ _ _ R). cbn [consume].
      assert (A : accept (rs "&|=*") (adv l) = (false, pk (adv l))).
      { ev_rs. apply accept_miss; [reflexivity|]. rewrite (adv_cons _ _ _ R). exact Hq. }
      apply mem_In in Hr. cbn [In op2_first] in Hr.
      destruct Hr as [<-|[<-|[<-|[<-|[<-|[<-|[<-|[]]]]]]]]; cbn -[accept rs adv pk emit]; rewrite A; reflexivity.
    - apply Between_emit. apply Mid_pk. exact M.
  Qed.

  Lemma tok_op2_double : forall l r r2 tail pos lastp toks,
    Between l ([r; r2] ++ tail) pos lastp toks -> mem r op2_first = true -> mem r2 op2_second = true ->
    token_done l [r; r2] tail pos toks TkOperator (utf8_encode [r; r2]).
  Proof.
    intros l r r2 tail pos lastp toks B Hr Hr2.
    pose proof (Mid_consume _ _ _ _ _ _ B ltac:(congruence)) as M.
    pose proof (b_rest _ _ _ _ _ B) as R.
    apply (one_step_done l (emit TkOperator (consume [r; r2] l))); [congruence| |].
    - unfold Lexer.step. rewrite (next_cons _ _ _ R). cbn [consume].
      assert (A : accept (rs "&|=*") (adv l) = (true, adv (adv l))).
      { ev_rs. apply (accept_hit _ _ r2 tail); [rewrite (adv_cons _ _ _ R); reflexivity|exact Hr2]. }
      apply mem_In in Hr. cbn [In op2_first] in Hr.
      destruct Hr as [<-|[<-|[<-|[<-|[<-|[<-|[<-|[]]]]]]]]; cbn -[accept rs adv pk emit]; rewrite A; reflexivity.
    - apply Between_emit. exact M.
  Qed.

  Lemma two_step_done : forall l st l1 l' w tail pos toks k v, w <> [] ->
    step SRoot l = (Some st, l1) -> step st l1 = (Some SRoot, l') ->
    Between l' tail (advance pos w) (advance pos (removelast w)) (mkTok pos k v :: toks) ->
    token_done l w tail pos toks k v.
  Proof.
    intros. exists 2%nat, l'. split; [auto|]. split; [destruct w; [congruence|cbn; lia]|].
    split; [|assumption]. intros f. change (2 + f)%nat with (S (S f)).
    rewrite (lex_fuel_step _ _ _ _ _ H0). apply lex_fuel_step. assumption.
  Qed.

  Lemma three_step_done : forall l st1 l1 st2 l2 l' w tail pos toks k v, (2 <= List.length w)%nat ->
    step SRoot l = (Some st1, l1) -> step st1 l1 = (Some st2, l2) -> step st2 l2 = (Some SRoot, l') ->
    Between l' tail (advance pos w) (advance pos (removelast w)) (mkTok pos k v :: toks) ->
    token_done l w tail pos toks k v.
  Proof.
    intros. exists 3%nat, l'. split; [auto|]. split; [lia|].
    split; [|assumption]. intros f. change (3 + f)%nat with (S (S (S f))).
    rewrite (lex_fuel_step _ _ _ _ _ H0). rewrite (lex_fuel_step _ _ _ _ _ H1). apply lex_fuel_step. assumption.
  Qed.

  (* ---- identifiers and word operators *)
  Lemma alpha_range : forall r, is_alphabetic r = true ->
    r = 95 \/ r = 36 \/ 65 <= r <= 90 \/ 97 <= r <= 122 \/ 128 <= r.
  Proof.
    intros r H. unfold Lexer.is_alphabetic, is_letter in H.
    destruct (Z.eqb_spec r 95); [auto|]. destruct (Z.eqb_spec r 36); [auto|]. cbn [orb] in H.
    destruct (Z.ltb_spec r 0); [discriminate|]. destruct (Z.ltb_spec r 128); [|lia].
    apply orb_true_iff in H. destruct H as [H|H]; apply andb_true_iff in H; destruct H as [A B];
      apply Z.leb_le in A; apply Z.leb_le in B; lia.
  Qed.

  Ltac kill_eqb r := repeat match goal with
    | |- context[Z.eqb r ?c] =>
      let H := fresh in assert (H : Z.eqb r c = false) by (apply Z.eqb_neq; unfold eof; lia); rewrite H; clear H
    end.

  Lemma root_ident : forall l r t, l_rest l = r :: t -> is_alphabetic r = true -> is_space r = false ->
    step SRoot l = (Some SIdentifier, pk l).
  Proof.
    intros l r t R Ha Hs. pose proof (alpha_range r Ha) as Hr.
    unfold Lexer.step. rewrite (next_cons _ _ _ R). ev_rs. cbn [mem]. rewrite Hs.
    assert (D : (48 <=? r) && (r <=? 57) = false).
    { destruct (Z.leb_spec 48 r), (Z.leb_spec r 57); cbn; auto; lia. }
    rewrite D. kill_eqb r. cbn [orb]. cbv iota.
    unfold Lexer.is_alnum. rewrite Ha. reflexivity.
  Qed.

  Definition ident_kind (w : list Z) : tkind :=
    if existsb (runes_eqb w) word_operators then TkOperator else TkIdentifier.

  Lemma is_alnum_eof : is_alnum eof = false.
  Proof. reflexivity. Qed.

  Lemma tok_ident : forall l r w tail pos lastp toks,
    Between l ((r :: w) ++ tail) pos lastp toks ->
    is_alphabetic r = true -> is_space r = false -> Forall (fun c => is_alnum c = true) w ->
    hd_ok (fun c => negb (is_alnum c)) tail ->
    runes_eqb (r :: w) (rs "not") = false ->
    token_done l (r :: w) tail pos toks (ident_kind (r :: w)) (utf8_encode (r :: w)).
  Proof.
    intros l r w tail pos lastp toks B Ha Hs Hw Ht Hnot.
    pose proof (Mid_consume _ _ _ _ _ _ B ltac:(congruence)) as M. apply Mid_pk in M.
    pose proof (b_rest _ _ _ _ _ B) as R.
    apply (two_step_done l SIdentifier (pk l) (emit (ident_kind (r :: w)) (pk (consume (r :: w) l)))); [congruence| | |].
    - eapply root_ident; eauto.
    - unfold Lexer.step. rewrite pk_rest.
      rewrite run_while_pk by (try apply is_alnum_eof; lia).
      rewrite (run_while_spec is_alnum (r :: w) _ l tail); auto.
      + replace (word (pk (consume (r :: w) l))) with (r :: w).
        * rewrite Hnot. unfold ident_kind. destruct (existsb (runes_eqb (r :: w)) word_operators); reflexivity.
        * unfold word. rewrite (m_word _ _ _ _ _ M), rev_involutive. reflexivity.
      + constructor; auto. unfold Lexer.is_alnum. rewrite Ha. reflexivity.
      + rewrite R, app_length. lia.
    - apply Between_emit. exact M.
  Qed.

  (* ---- numbers *)
  Definition is_dec (c : Z) : bool := (48 <=? c) && (c <=? 57).
  Definition is_dec_us (c : Z) : bool := is_dec c || (c =? 95).
  Definition is_hex (c : Z) : bool := is_dec c || ((97 <=? c) && (c <=? 102)) || ((65 <=? c) && (c <=? 70)).
  Definition is_hex_us (c : Z) : bool := is_hex c || (c =? 95).

  Definition exponent := (Z * option Z * list Z)%type.     (* e|E, optional sign, digits *)
  Definition frac_runes (fr : option (list Z)) : list Z :=
    match fr with None => [] | Some fs => 46 :: fs end.
  Definition sign_runes (sg : option Z) : list Z := match sg with None => [] | Some s => [s] end.
  Definition exp_runes (ex : option exponent) : list Z :=
    match ex with None => [] | Some (e, sg, es) => e :: sign_runes sg ++ es end.
  Definition frac_ok (fr : option (list Z)) : bool :=
    match fr with None => true | Some fs => forallb is_dec_us fs end.
  Definition exp_ok (ex : option exponent) : bool :=
    match ex with
    | None => true
    | Some (e, sg, es) =>
      mem e [101; 69] && match sg with None => true | Some s => mem s [43; 45] end &&
      forallb is_dec_us es && match es with [] => false | _ => true end
    end.

  (* what may follow a number: not alphanumeric (incl. `_`), not a dot *)
  Definition num_follow (tail : list Z) : Prop :=
    hd_ok (fun c => negb (is_alnum c) && negb (c =? 46)) tail.

  Lemma dec_cases : forall c, is_dec c = true ->
    c = 48 \/ c = 49 \/ c = 50 \/ c = 51 \/ c = 52 \/ c = 53 \/ c = 54 \/ c = 55 \/ c = 56 \/ c = 57.
  Proof.
    intros c H. unfold is_dec in H. apply andb_true_iff in H. destruct H as [A B].
    apply Z.leb_le in A. apply Z.leb_le in B. lia.
  Qed.

  Lemma dec_us_mem : forall c, is_dec_us c = true -> mem c dec_digits = true.
  Proof.
    intros c H. unfold is_dec_us in H. apply orb_true_iff in H. destruct H as [H|H].
    - destruct (dec_cases c H) as [->|[->|[->|[->|[->|[->|[->|[->|[->| ->]]]]]]]]]; reflexivity.
    - apply Z.eqb_eq in H. subst. reflexivity.
  Qed.

  Lemma hex_us_mem : forall c, is_hex_us c = true -> mem c hex_digits = true.
  Proof.
    intros c H. unfold is_hex_us, is_hex in H.
    apply orb_true_iff in H. destruct H as [H|H]; [|apply Z.eqb_eq in H; subst; reflexivity].
    apply orb_true_iff in H. destruct H as [H|H]; [apply orb_true_iff in H; destruct H as [H|H]|].
    - destruct (dec_cases c H) as [->|[->|[->|[->|[->|[->|[->|[->|[->| ->]]]]]]]]]; reflexivity.
    - apply andb_true_iff in H. destruct H as [A B]. apply Z.leb_le in A. apply Z.leb_le in B.
      assert (c = 97 \/ c = 98 \/ c = 99 \/ c = 100 \/ c = 101 \/ c = 102) as [->|[->|[->|[->|[->| ->]]]]] by lia; reflexivity.
    - apply andb_true_iff in H. destruct H as [A B]. apply Z.leb_le in A. apply Z.leb_le in B.
      assert (c = 65 \/ c = 66 \/ c = 67 \/ c = 68 \/ c = 69 \/ c = 70) as [->|[->|[->|[->|[->| ->]]]]] by lia; reflexivity.
  Qed.

  Lemma forallb_Forall_mem : forall (p : Z -> bool) valid l,
    (forall c, p c = true -> mem c valid = true) -> forallb p l = true ->
    Forall (fun r => mem r valid = true) l.
  Proof.
    intros p valid l Hp H. rewrite forallb_forall in H. apply Forall_forall. intros x Hx. apply Hp, H, Hx.
  Qed.

  (* a rune that is not alphanumeric is in no set of alphanumeric runes *)
  Lemma not_alnum_not_mem : forall c valid, is_alnum c = false -> forallb is_alnum valid = true ->
    mem c valid = false.
  Proof.
    intros c valid Hc Hv. destruct (mem c valid) eqn:E; [|reflexivity].
    apply mem_In in E. rewrite forallb_forall in Hv. rewrite (Hv _ E) in Hc. discriminate.
  Qed.

  (* the first rune after the integer part (fraction, exponent or what follows the number) satisfies P *)
  Lemma hd_after_exp : forall (P : Z -> bool) ex tail, exp_ok ex = true -> num_follow tail ->
    P 101 = true -> P 69 = true -> (forall c, is_alnum c = false -> c <> 46 -> P c = true) ->
    hd_ok P (exp_runes ex ++ tail).
  Proof.
    intros P ex tail He Hf P1 P2 Pn. destruct ex as [[[e sg] es]|].
    - cbn [exp_runes app hd_ok]. cbn [exp_ok] in He.
      apply andb_true_iff in He. destruct He as [He _]. apply andb_true_iff in He. destruct He as [He _].
      apply andb_true_iff in He. destruct He as [He _]. apply mem_In in He. cbn [In] in He.
      destruct He as [<-|[<-|[]]]; assumption.
    - cbn [exp_runes app]. destruct tail as [|c tail]; [exact I|]. cbn [hd_ok]. unfold num_follow in Hf. cbn [hd_ok] in Hf.
      apply andb_true_iff in Hf. destruct Hf as [A B]. apply negb_true_iff in A. apply negb_true_iff in B.
      apply Z.eqb_neq in B. apply Pn; assumption.
  Qed.

  Lemma hd_after : forall (P : Z -> bool) fr ex tail, exp_ok ex = true -> num_follow tail ->
    P 46 = true -> P 101 = true -> P 69 = true -> (forall c, is_alnum c = false -> c <> 46 -> P c = true) ->
    hd_ok P (frac_runes fr ++ exp_runes ex ++ tail).
  Proof.
    intros P fr ex tail He Hf P0 P1 P2 Pn. destruct fr as [fs|].
    - cbn [frac_runes app hd_ok]. exact P0.
    - cbn [frac_runes app]. apply hd_after_exp; assumption.
  Qed.

  Lemma hd_ok_app_cons : forall (P : Z -> bool) a b, (forall c, In c a -> P c = true) -> hd_ok P b -> hd_ok P (a ++ b).
  Proof. intros P a b Ha Hb. destruct a as [|c a]; [exact Hb|]. cbn. apply Ha. left. reflexivity. Qed.

  Ltac alnum_set := let c := fresh in let A := fresh in let B := fresh in
    intros c A B; apply negb_true_iff; apply not_alnum_not_mem; [exact A|reflexivity].

  Lemma follow_not_mem : forall tail valid, num_follow tail -> forallb is_alnum valid = true ->
    hd_ok (fun c => negb (mem c valid)) tail.
  Proof.
    intros tail valid Hf Hv. destruct tail as [|c tail]; [exact I|]. unfold num_follow in Hf. cbn [hd_ok] in *.
    apply andb_true_iff in Hf. destruct Hf as [A _]. apply negb_true_iff in A.
    apply negb_true_iff. apply not_alnum_not_mem; assumption.
  Qed.

  Lemma follow_not_dot : forall tail, num_follow tail -> hd_ok (fun c => negb (mem c [46])) tail.
  Proof.
    intros tail Hf. destruct tail as [|c tail]; [exact I|]. unfold num_follow in Hf. cbn [hd_ok mem] in *.
    apply andb_true_iff in Hf. destruct Hf as [_ B]. rewrite orb_false_r. exact B.
  Qed.

  (* exponent phase *)
  Lemma scan_exp_pk : forall digits m, scanNumber_exp digits (pk m) = scanNumber_exp digits m.
  Proof. intros. unfold Lexer.scanNumber_exp. ev_rs. rewrite accept_pk by reflexivity. reflexivity. Qed.

  Lemma finish_number : forall X tail, l_rest X = tail -> num_follow tail ->
    (let (p, l3) := peek (pk X) in if is_alnum p then (false, snd (next l3)) else (true, l3)) = (true, pk X).
  Proof.
    intros X tail R Hf. rewrite peek_pk. destruct tail as [|c tail].
    - rewrite (peek_nil _ R). rewrite is_alnum_eof. reflexivity.
    - rewrite (peek_cons _ _ _ R). unfold num_follow in Hf. cbn [hd_ok] in Hf.
      apply andb_true_iff in Hf. destruct Hf as [A _]. apply negb_true_iff in A. rewrite A. reflexivity.
  Qed.

  Lemma scan_exp_none : forall digits m tail, l_rest m = tail -> num_follow tail ->
    scanNumber_exp digits m = (true, pk m).
  Proof.
    intros digits m tail R Hf. unfold Lexer.scanNumber_exp. ev_rs.
    rewrite (accept_miss [101; 69] m);
      [|reflexivity|rewrite R; apply follow_not_mem; [assumption|reflexivity]].
    apply (finish_number m tail); assumption.
  Qed.

  Lemma scan_exp_spec : forall m ex tail, l_rest m = exp_runes ex ++ tail -> exp_ok ex = true -> num_follow tail ->
    scanNumber_exp dec_digits m = (true, pk (consume (exp_runes ex) m)).
  Proof.
    intros m ex tail R He Hf. destruct ex as [[[e sg] es]|]; [|apply (scan_exp_none _ m tail); assumption].
    cbn [exp_runes] in *. cbn [exp_ok] in He.
    apply andb_true_iff in He. destruct He as [He Hne]. apply andb_true_iff in He. destruct He as [He Hes].
    apply andb_true_iff in He. destruct He as [He Hsg].
    assert (Hes' : Forall (fun r => mem r dec_digits = true) es) by (eapply forallb_Forall_mem; [apply dec_us_mem|exact Hes]).
    assert (Htl : hd_ok (fun c => negb (mem c dec_digits)) tail).
    { apply follow_not_mem; [assumption|reflexivity]. }
    unfold Lexer.scanNumber_exp. ev_rs. cbn [app] in R. rewrite <- app_assoc in R.
    rewrite (accept_hit [101; 69] m e _ R He).
    assert (Ra : l_rest (adv m) = sign_runes sg ++ es ++ tail) by (rewrite (adv_cons _ _ _ R); reflexivity).
    destruct sg as [s|]; cbn [sign_runes app] in *.
    - rewrite (accept_hit [43; 45] (adv m) s _ Ra Hsg). cbn [snd].
      rewrite (acceptRun_spec dec_digits es (adv (adv m)) tail); auto;
        [|rewrite (adv_cons _ _ _ Ra); reflexivity].
      change (pk (consume es (adv (adv m)))) with (pk (consume (e :: s :: es) m)).
      apply (finish_number _ tail); [|assumption].
      apply consume_rest. cbn [app]. rewrite R. reflexivity.
    - rewrite (accept_miss [43; 45] (adv m)); [|reflexivity|].
      + cbn [snd]. rewrite acceptRun_pk by reflexivity.
        rewrite (acceptRun_spec dec_digits es (adv m) tail); auto.
        change (pk (consume es (adv m))) with (pk (consume (e :: es) m)).
        apply (finish_number _ tail); [|assumption].
        apply consume_rest. cbn [app]. rewrite R. reflexivity.
      + rewrite Ra. destruct es as [|c es]; [discriminate|]. cbn [app hd_ok].
        cbn [forallb] in Hes. apply andb_true_iff in Hes. destruct Hes as [Hc _].
        unfold is_dec_us in Hc. apply orb_true_iff in Hc. destruct Hc as [Hc|Hc].
        * destruct (dec_cases c Hc) as [->|[->|[->|[->|[->|[->|[->|[->|[->| ->]]]]]]]]]; reflexivity.
        * apply Z.eqb_eq in Hc. subst. reflexivity.
  Qed.

  Ltac dec_us_cases c H :=
    unfold is_dec_us in H; apply orb_true_iff in H; destruct H as [H|H];
    [destruct (dec_cases c H) as [->|[->|[->|[->|[->|[->|[->|[->|[->| ->]]]]]]]]]
    |apply Z.eqb_eq in H; subst c].

  Lemma peek_not_dot : forall X, hd_ok (fun c => negb (c =? 46)) (l_rest X) ->
    exists c, peek X = (c, pk X) /\ (c =? 46) = false.
  Proof.
    intros X H. destruct (l_rest X) as [|c t] eqn:E.
    - exists eof. rewrite (peek_nil _ E). auto.
    - exists c. rewrite (peek_cons _ _ _ E). cbn in H. apply negb_true_iff in H. auto.
  Qed.

  (* fraction phase (no `..` follows: the number is not the left end of a range) *)
  Lemma scan_frac_spec : forall m fr ex tail,
    l_rest m = frac_runes fr ++ exp_runes ex ++ tail -> frac_ok fr = true -> exp_ok ex = true -> num_follow tail ->
    scanNumber_frac dec_digits (pk m) = (true, pk (consume (frac_runes fr ++ exp_runes ex) m)).
  Proof.
    intros m fr ex tail R Hfr Hex Hf. unfold Lexer.scanNumber_frac. ev_rs. rewrite accept_pk by reflexivity.
    destruct fr as [fs|]; cbn [frac_runes app] in *.
    - rewrite (accept_hit [46] m 46 _ R eq_refl).
      assert (Ra : l_rest (adv m) = fs ++ exp_runes ex ++ tail) by (rewrite (adv_cons _ _ _ R); reflexivity).
      destruct (peek_not_dot (adv m)) as (c & Pk & Hc).
      { rewrite Ra. apply hd_ok_app_cons.
        - intros c Hc. cbn [frac_ok] in Hfr. rewrite forallb_forall in Hfr. specialize (Hfr c Hc).
          dec_us_cases c Hfr; reflexivity.
        - apply hd_after_exp; auto. intros c _ Hc. apply negb_true_iff. apply Z.eqb_neq. exact Hc. }
      rewrite Pk, Hc. rewrite acceptRun_pk by reflexivity.
      rewrite (acceptRun_spec dec_digits fs (adv m) (exp_runes ex ++ tail)); auto.
      + rewrite scan_exp_pk.
        rewrite (scan_exp_spec (consume fs (adv m)) ex tail); auto.
        * change (consume fs (adv m)) with (consume (46 :: fs) m).
          rewrite <- consume_app. reflexivity.
        * apply consume_rest. exact Ra.
      + eapply forallb_Forall_mem; [apply dec_us_mem|exact Hfr].
      + apply hd_after_exp; auto. alnum_set.
    - rewrite (accept_miss [46] m); [|reflexivity|].
      + rewrite scan_exp_pk. apply (scan_exp_spec m ex tail); auto.
      + rewrite R. apply hd_after_exp; auto. intros c _ Hc. cbn [mem]. rewrite orb_false_r.
        apply negb_true_iff. apply Z.eqb_neq. exact Hc.
  Qed.

  Lemma hd_ds_rest : forall (P : Z -> bool) ds rest2, (forall c, is_dec_us c = true -> P c = true) ->
    forallb is_dec_us ds = true -> hd_ok P rest2 -> hd_ok P (ds ++ rest2).
  Proof.
    intros P ds rest2 HP Hds Hr. apply hd_ok_app_cons; [|exact Hr].
    intros c Hc. rewrite forallb_forall in Hds. apply HP, Hds, Hc.
  Qed.

  (* prefix + integer part, decimal *)
  Lemma scan_prefix_dec : forall m d ds rest2,
    l_rest m = d :: ds ++ rest2 -> is_dec d = true -> forallb is_dec_us ds = true ->
    hd_ok (fun c => negb (mem c dec_digits)) rest2 ->
    hd_ok (fun c => negb (mem c [120; 88])) rest2 ->
    hd_ok (fun c => negb (mem c [111; 79])) rest2 ->
    hd_ok (fun c => negb (mem c [98; 66])) rest2 ->
    exists l2, scanNumber_prefix m = (dec_digits, l2) /\ acceptRun dec_digits l2 = pk (consume (d :: ds) m).
  Proof.
    intros m d ds rest2 R Hd Hds H0 Hx Ho Hb.
    assert (Hds' : Forall (fun r => mem r dec_digits = true) ds) by (eapply forallb_Forall_mem; [apply dec_us_mem|exact Hds]).
    unfold Lexer.scanNumber_prefix. ev_rs.
    destruct (Z.eq_dec d 48) as [->|Hne].
    - rewrite (accept_hit [48] m 48 _ R eq_refl).
      assert (Ra : l_rest (adv m) = ds ++ rest2) by (rewrite (adv_cons _ _ _ R); reflexivity).
      rewrite (accept_miss [120; 88] (adv m)); [|reflexivity|].
      2:{ rewrite Ra. apply hd_ds_rest; auto. intros c Hc. dec_us_cases c Hc; reflexivity. }
      rewrite accept_pk by reflexivity.
      rewrite (accept_miss [111; 79] (adv m)); [|reflexivity|].
      2:{ rewrite Ra. apply hd_ds_rest; auto. intros c Hc. dec_us_cases c Hc; reflexivity. }
      rewrite accept_pk by reflexivity.
      rewrite (accept_miss [98; 66] (adv m)); [|reflexivity|].
      2:{ rewrite Ra. apply hd_ds_rest; auto. intros c Hc. dec_us_cases c Hc; reflexivity. }
      eexists. split; [reflexivity|]. rewrite acceptRun_pk by reflexivity.
      apply (acceptRun_spec dec_digits ds (adv m) rest2); auto.
    - rewrite (accept_miss [48] m); [|reflexivity|].
      2:{ rewrite R. cbn [hd_ok mem]. rewrite orb_false_r. apply negb_true_iff. apply Z.eqb_neq. exact Hne. }
      eexists. split; [reflexivity|]. rewrite acceptRun_pk by reflexivity.
      apply (acceptRun_spec dec_digits (d :: ds) m rest2); auto.
      constructor; [|exact Hds']. apply dec_us_mem. unfold is_dec_us. rewrite Hd. reflexivity.
  Qed.

  Lemma scanNumber_pk : forall m, scanNumber (pk m) = scanNumber m.
  Proof. intros. unfold Lexer.scanNumber, Lexer.scanNumber_prefix. ev_rs. rewrite accept_pk by reflexivity. reflexivity. Qed.

  (* decimal integer / float spelling: d ds [. fs] [e [+-] es] *)
  Lemma scan_dec : forall m d ds fr ex tail,
    l_rest m = (d :: ds ++ frac_runes fr ++ exp_runes ex) ++ tail ->
    is_dec d = true -> forallb is_dec_us ds = true -> frac_ok fr = true -> exp_ok ex = true -> num_follow tail ->
    scanNumber m = (true, pk (consume (d :: ds ++ frac_runes fr ++ exp_runes ex) m)).
  Proof.
    intros m d ds fr ex tail R Hd Hds Hfr Hex Hf.
    assert (R' : l_rest m = d :: ds ++ (frac_runes fr ++ exp_runes ex ++ tail)).
    { rewrite R. cbn [app]. rewrite <- !app_assoc. reflexivity. }
    destruct (scan_prefix_dec m d ds _ R' Hd Hds) as (l2 & P1 & P2);
      try (apply hd_after; auto; alnum_set).
    unfold Lexer.scanNumber. rewrite P1, P2.
    rewrite (scan_frac_spec (consume (d :: ds) m) fr ex tail); auto.
    - rewrite <- consume_app. reflexivity.
    - apply consume_rest. exact R'.
  Qed.

  (* hexadecimal spelling: 0 x|X hex digits and `_` *)
  Lemma scan_hex : forall m x ds tail,
    l_rest m = (48 :: x :: ds) ++ tail -> mem x [120; 88] = true -> forallb is_hex_us ds = true -> num_follow tail ->
    scanNumber m = (true, pk (consume (48 :: x :: ds) m)).
  Proof.
    intros m x ds tail R Hx Hds Hf. cbn [app] in R.
    unfold Lexer.scanNumber, Lexer.scanNumber_prefix. ev_rs.
    rewrite (accept_hit [48] m 48 _ R eq_refl).
    assert (Ra : l_rest (adv m) = x :: ds ++ tail) by (rewrite (adv_cons _ _ _ R); reflexivity).
    rewrite (accept_hit [120; 88] (adv m) x _ Ra Hx).
    assert (Rb : l_rest (adv (adv m)) = ds ++ tail) by (rewrite (adv_cons _ _ _ Ra); reflexivity).
    rewrite (acceptRun_spec hex_digits ds (adv (adv m)) tail); auto.
    - change (consume ds (adv (adv m))) with (consume (48 :: x :: ds) m).
      set (X := consume (48 :: x :: ds) m).
      assert (RX : l_rest X = tail) by (apply consume_rest; exact R).
      unfold Lexer.scanNumber_frac. ev_rs. rewrite accept_pk by reflexivity.
      rewrite (accept_miss [46] X); [|reflexivity|rewrite RX; apply follow_not_dot; assumption].
      rewrite scan_exp_pk. apply (scan_exp_none _ X tail); assumption.
    - eapply forallb_Forall_mem; [apply hex_us_mem|exact Hds].
    - apply follow_not_mem; [assumption|reflexivity].
  Qed.

  Inductive numsp :=
  | NDec (d : Z) (ds : list Z) (fr : option (list Z)) (ex : option exponent)   (* 12_3  1.5  1e9  1.5e-3 *)
  | NDot (d : Z) (ds : list Z) (ex : option exponent)                          (* .5  .5e3 *)
  | NHex (x : Z) (ds : list Z).                                                (* 0x1F  0Xe_e *)

  Definition num_runes (n : numsp) : list Z :=
    match n with
    | NDec d ds fr ex => d :: ds ++ frac_runes fr ++ exp_runes ex
    | NDot d ds ex => 46 :: d :: ds ++ exp_runes ex
    | NHex x ds => 48 :: x :: ds
    end.

  Definition num_ok (n : numsp) : bool :=
    match n with
    | NDec d ds fr ex => is_dec d && forallb is_dec_us ds && frac_ok fr && exp_ok ex
    | NDot d ds ex => is_dec d && forallb is_dec_us ds && exp_ok ex
    | NHex x ds => mem x [120; 88] && forallb is_hex_us ds
    end.

  Lemma root_digit : forall l d t, l_rest l = d :: t -> is_dec d = true -> step SRoot l = (Some SNumber, pk l).
  Proof.
    intros l d t R Hd. unfold Lexer.step. rewrite (next_cons _ _ _ R).
    destruct (dec_cases d Hd) as [->|[->|[->|[->|[->|[->|[->|[->|[->| ->]]]]]]]]]; reflexivity.
  Qed.

  Lemma root_dot : forall l t, l_rest l = 46 :: t -> step SRoot l = (Some SDot, pk l).
  Proof. intros l t R. unfold Lexer.step. rewrite (next_cons _ _ _ R). reflexivity. Qed.

  Lemma step_number : forall l X, scanNumber l = (true, X) -> step SNumber (pk l) = (Some SRoot, emit TkNumber X).
  Proof. intros l X H. unfold Lexer.step. rewrite scanNumber_pk, H. reflexivity. Qed.

  Lemma tok_number : forall l n tail pos lastp toks,
    Between l (num_runes n ++ tail) pos lastp toks -> num_ok n = true -> num_follow tail ->
    token_done l (num_runes n) tail pos toks TkNumber (utf8_encode (num_runes n)).
  Proof.
    intros l n tail pos lastp toks B Hok Hf. pose proof (b_rest _ _ _ _ _ B) as R.
    assert (Hne : num_runes n <> []) by (destruct n; cbn; congruence).
    pose proof (Mid_consume _ _ _ _ _ _ B Hne) as M. apply Mid_pk in M.
    destruct n as [d ds fr ex|d ds ex|x ds]; cbn [num_runes num_ok] in *.
    - apply andb_true_iff in Hok. destruct Hok as [Hok Hex]. apply andb_true_iff in Hok. destruct Hok as [Hok Hfr].
      apply andb_true_iff in Hok. destruct Hok as [Hd Hds].
      eapply (two_step_done l SNumber (pk l)); [congruence| | |apply Between_emit; exact M].
      + apply (root_digit l d _ R Hd).
      + apply step_number. apply (scan_dec l d ds fr ex tail); auto.
    - apply andb_true_iff in Hok. destruct Hok as [Hok Hex]. apply andb_true_iff in Hok. destruct Hok as [Hd Hds].
      cbn [app] in R.
      assert (Ra : l_rest (adv l) = (d :: ds ++ frac_runes None ++ exp_runes ex) ++ tail).
      { rewrite (adv_cons _ _ _ R). reflexivity. }
      eapply (three_step_done l SDot (pk l) SNumber (pk (adv l))); [cbn; lia| | | |apply Between_emit; exact M].
      + apply (root_dot l _ R).
      + unfold Lexer.step. rewrite next_pk by congruence. rewrite (next_cons _ _ _ R). ev_rs.
        cbn [app] in Ra. rewrite (accept_hit _ (adv l) d _ Ra).
        * reflexivity.
        * destruct (dec_cases d Hd) as [->|[->|[->|[->|[->|[->|[->|[->|[->| ->]]]]]]]]]; reflexivity.
      + apply step_number. apply (scan_dec (adv l) d ds None ex tail); auto.
    - apply andb_true_iff in Hok. destruct Hok as [Hx Hds].
      eapply (two_step_done l SNumber (pk l)); [congruence| | |apply Between_emit; exact M].
      + apply (root_digit l 48 _ R eq_refl).
      + apply step_number. apply (scan_hex l x ds tail); auto.
  Qed.

  (* ---- string literals *)
  Inductive sitem :=
  | IRaw (r : Z)                     (* the rune itself *)
  | INamed (c : Z)                   (* \a \b \f \n \r \t \v \\ and the escaped quote *)
  | IHex (k : Z) (ds : list Z)       (* \xHH  \uHHHH  \UHHHHHHHH, digits in either case *)
  | IOct (d1 d2 d3 : Z).             (* \ooo *)

  Definition named_val (c : Z) : Z :=
    if c =? 97 then 7 else if c =? 98 then 8 else if c =? 102 then 12 else if c =? 110 then 10
    else if c =? 114 then 13 else if c =? 116 then 9 else if c =? 118 then 11 else c.

  Definition hexval (ds : list Z) : Z := fold_left (fun v d => v * 16 + digitVal d) ds 0.

  Definition item_runes (it : sitem) : list Z :=
    match it with
    | IRaw r => [r]
    | INamed c => [92; c]
    | IHex k ds => 92 :: k :: ds
    | IOct d1 d2 d3 => [92; d1; d2; d3]
    end.

  Definition item_val (it : sitem) : Z :=
    match it with
    | IRaw r => r
    | INamed c => named_val c
    | IHex k ds => hexval ds
    | IOct d1 d2 d3 => ((d1 - 48) * 8 + (d2 - 48)) * 8 + (d3 - 48)
    end.

  Definition is_oct (c : Z) : bool := (48 <=? c) && (c <=? 55).

  Definition item_ok (q : Z) (it : sitem) : bool :=
    match it with
    | IRaw r => valid_scalar r && negb (r =? q) && negb (r =? 92) && negb (r =? 10) && negb (r =? 13)
    | INamed c => mem c [97; 98; 102; 110; 114; 116; 118; 92] || (c =? q)
    | IHex k ds =>
      (((k =? 120) && (Nat.eqb (List.length ds) 2)) || ((k =? 117) && (Nat.eqb (List.length ds) 4)) ||
       ((k =? 85) && (Nat.eqb (List.length ds) 8))) && forallb is_hex ds && valid_scalar (hexval ds)
    | IOct d1 d2 d3 => (48 <=? d1) && (d1 <=? 51) && is_oct d2 && is_oct d3
    end.

  Definition scan_loop (fuel : nat) (q : Z) (l : lexer) : lexer :=
    let (ch, l1) := next l in scanString_go fuel q ch l1.

  Lemma scanString_loop : forall q l,
    scanString q l = scan_loop (S (S (List.length (l_rest (adv l))))) q l.
  Proof. intros. unfold scanString, scan_loop, adv. destruct (next l). reflexivity. Qed.

  Lemma hex_digitVal : forall c, is_hex c = true -> digitVal c <? 16 = true /\ unhex c = Some (digitVal c).
  Proof.
    intros c H. unfold is_hex, is_dec in H. unfold digitVal, unhex.
    destruct ((48 <=? c) && (c <=? 57)) eqn:A.
    - split; [|reflexivity]. apply andb_true_iff in A. destruct A as [A B]. apply Z.leb_le in A. apply Z.leb_le in B.
      apply Z.ltb_lt. lia.
    - destruct ((97 <=? c) && (c <=? 102)) eqn:B.
      + split; [|reflexivity]. apply andb_true_iff in B. destruct B as [B C]. apply Z.leb_le in B. apply Z.leb_le in C.
        apply Z.ltb_lt. lia.
      + cbn [orb] in H. rewrite H. split; [|reflexivity]. apply andb_true_iff in H. destruct H as [B' C].
        apply Z.leb_le in B'. apply Z.leb_le in C. apply Z.ltb_lt. lia.
  Qed.

  Lemma scanDigits_spec : forall base ds l tail,
    forallb (fun c => digitVal c <? base) ds = true -> l_rest l = ds ++ tail ->
    (let (c, l2) := next l in scanDigits c base (List.length ds) l2) = next (consume ds l).
  Proof.
    induction ds as [|d ds IH]; intros l tail Hds R.
    - cbn. destruct (next l). reflexivity.
    - cbn [forallb] in Hds. apply andb_true_iff in Hds. destruct Hds as [Hd Hds].
      cbn [app] in R. rewrite (next_cons _ _ _ R). cbn [List.length scanDigits consume]. rewrite Hd.
      apply (IH (adv l) tail Hds). rewrite (adv_cons _ _ _ R). reflexivity.
  Qed.

  Lemma is_hex_lt16 : forall ds, forallb is_hex ds = true -> forallb (fun c => digitVal c <? 16) ds = true.
  Proof.
    intros ds H. rewrite forallb_forall in *. intros c Hc. apply (hex_digitVal c (H c Hc)).
  Qed.

  Lemma valid_scalar_nonneg : forall r, valid_scalar r = true -> 0 <= r <= 1114111.
  Proof.
    intros r H. unfold valid_scalar in H. apply orb_true_iff in H. destruct H as [H|H];
      apply andb_true_iff in H; destruct H as [A B].
    - apply Z.leb_le in A. apply Z.ltb_lt in B. lia.
    - apply Z.ltb_lt in A. apply Z.leb_le in B. lia.
  Qed.

  Lemma quote_cases : forall q, (q =? 34) || (q =? 39) = true -> q = 34 \/ q = 39.
  Proof. intros q H. apply orb_true_iff in H. destruct H as [H|H]; apply Z.eqb_eq in H; auto. Qed.

  (* one loop iteration of scanString per item *)
  Lemma scan_item : forall fuel q it l tail, (q = 34 \/ q = 39) -> item_ok q it = true ->
    l_rest l = item_runes it ++ tail ->
    scan_loop (S fuel) q l = scan_loop fuel q (consume (item_runes it) l).
  Proof.
    intros fuel q it l tail Hq Hok R. unfold scan_loop at 1.
    destruct it as [r|c|k ds|d1 d2 d3]; cbn [item_runes app item_ok] in *.
    - rewrite (next_cons _ _ _ R). cbn [scanString_go].
      repeat (apply andb_true_iff in Hok; let H := fresh "H" in destruct Hok as [Hok H]).
      apply negb_true_iff in H, H0, H1, H2. pose proof (valid_scalar_nonneg r Hok) as Hr.
      rewrite H2, H0, H1. replace (r =? eof) with false by (symmetry; apply Z.eqb_neq; unfold eof; lia).
      reflexivity.
    - rewrite (next_cons _ _ _ R). cbn [scanString_go].
      replace (92 =? q) with false by (destruct Hq; subst; reflexivity).
      cbn [Z.eqb orb Pos.eqb]. change (92 =? 10) with false. change (92 =? eof) with false. cbn [orb]. change (92 =? 92) with true. cbv iota.
      unfold scanEscape. ev_rs.
      assert (Ra : l_rest (adv l) = c :: tail) by (rewrite (adv_cons _ _ _ R); reflexivity).
      rewrite (next_cons _ _ _ Ra). rewrite Hok. cbn [consume]. reflexivity.
    - rewrite (next_cons _ _ _ R). cbn [scanString_go].
      replace (92 =? q) with false by (destruct Hq; subst; reflexivity).
      change (92 =? 10) with false. change (92 =? eof) with false. cbn [orb]. change (92 =? 92) with true. cbv iota.
      unfold scanEscape. ev_rs.
      assert (Ra : l_rest (adv l) = k :: ds ++ tail) by (rewrite (adv_cons _ _ _ R); reflexivity).
      assert (Rb : l_rest (adv (adv l)) = ds ++ tail) by (rewrite (adv_cons _ _ _ Ra); reflexivity).
      rewrite (next_cons _ _ _ Ra).
      apply andb_true_iff in Hok. destruct Hok as [Hok Hv]. apply andb_true_iff in Hok. destruct Hok as [Hk Hds].
      pose proof (scanDigits_spec 16 ds (adv (adv l)) tail (is_hex_lt16 ds Hds) Rb) as SD.
      apply orb_true_iff in Hk. destruct Hk as [Hk|Hk]; [apply orb_true_iff in Hk; destruct Hk as [Hk|Hk]|];
        apply andb_true_iff in Hk; destruct Hk as [Hk Hn]; apply Z.eqb_eq in Hk; apply Nat.eqb_eq in Hn; subst k;
        replace (_ =? q) with false by (destruct Hq; subst; reflexivity);
        cbn [mem Z.eqb Pos.eqb orb]; cbv iota; rewrite Hn in SD; rewrite SD; reflexivity.
    - rewrite (next_cons _ _ _ R). cbn [scanString_go].
      replace (92 =? q) with false by (destruct Hq; subst; reflexivity).
      change (92 =? 10) with false. change (92 =? eof) with false. cbn [orb]. change (92 =? 92) with true. cbv iota.
      unfold scanEscape. ev_rs.
      assert (Ra : l_rest (adv l) = d1 :: [d2; d3] ++ tail) by (rewrite (adv_cons _ _ _ R); reflexivity).
      assert (Rb : l_rest (adv (adv l)) = [d2; d3] ++ tail) by (rewrite (adv_cons _ _ _ Ra); reflexivity).
      rewrite (next_cons _ _ _ Ra).
      repeat (apply andb_true_iff in Hok; let H := fresh "H" in destruct Hok as [Hok H]).
      apply Z.leb_le in Hok. apply Z.leb_le in H1.
      assert (O : forall c, is_oct c = true -> digitVal c <? 8 = true).
      { intros c Hc. unfold is_oct in Hc. apply andb_true_iff in Hc. destruct Hc as [A B].
        apply Z.leb_le in A. apply Z.leb_le in B. unfold digitVal.
        replace ((48 <=? c) && (c <=? 57)) with true by (symmetry; apply andb_true_iff; split; apply Z.leb_le; lia).
        apply Z.ltb_lt. lia. }
      pose proof (scanDigits_spec 8 [d2; d3] (adv (adv l)) tail) as SD.
      cbn [forallb List.length] in SD. rewrite (O _ H0), (O _ H) in SD. specialize (SD eq_refl Rb).
      assert (d1 = 48 \/ d1 = 49 \/ d1 = 50 \/ d1 = 51) as [->|[->|[->| ->]]] by lia;
        (replace (_ =? q) with false by (destruct Hq; subst; reflexivity));
        cbn [mem Z.eqb Pos.eqb orb]; cbv iota;
        change (scanDigits ?d 8 3 (adv (adv l))) with
          (if digitVal d <? 8 then let (ch', l') := next (adv (adv l)) in scanDigits ch' 8 2 l' else (d, set_error (adv (adv l))));
        cbn [digitVal]; cbv iota; rewrite SD; reflexivity.
  Qed.

  Definition body_runes (items : list sitem) : list Z := flat_map item_runes items.

  Lemma item_runes_nonempty : forall it, item_runes it <> [].
  Proof. destruct it; cbn; congruence. Qed.

  Lemma body_length : forall items, (List.length items <= List.length (body_runes items))%nat.
  Proof.
    induction items as [|it items IH]; [cbn; lia|]. unfold body_runes in *. cbn [flat_map List.length]. rewrite app_length.
    pose proof (item_runes_nonempty it). destruct (item_runes it); [congruence|cbn [List.length]; lia].
  Qed.

  Lemma scan_items : forall q items fuel l tail, (q = 34 \/ q = 39) -> forallb (item_ok q) items = true ->
    l_rest l = (body_runes items ++ [q]) ++ tail -> (List.length items < fuel)%nat ->
    scan_loop fuel q l = consume (body_runes items ++ [q]) l.
  Proof.
    induction items as [|it items IH]; intros fuel l tail Hq Hok R Hf.
    - cbn [body_runes flat_map app] in *. destruct fuel as [|fuel]; [lia|].
      unfold scan_loop. rewrite (next_cons _ _ _ R). cbn [scanString_go consume]. rewrite Z.eqb_refl. reflexivity.
    - cbn [forallb] in Hok. apply andb_true_iff in Hok. destruct Hok as [Hit Hok].
      destruct fuel as [|fuel]; [lia|]. cbn [body_runes flat_map] in *. fold (body_runes items) in *.
      rewrite <- !app_assoc in R.
      rewrite (scan_item fuel q it l _ Hq Hit R).
      rewrite <- app_assoc. rewrite consume_app.
      apply (IH fuel _ tail Hq Hok).
      + rewrite <- app_assoc. apply consume_rest. exact R.
      + cbn in Hf. lia.
  Qed.

  (* ---- unescape *)
  Lemma hex_take_spec : forall ds v rest, forallb is_hex ds = true ->
    hex_take (List.length ds) v (ds ++ rest) = Some (fold_left (fun v d => v * 16 + digitVal d) ds v, rest).
  Proof.
    induction ds as [|d ds IH]; intros v rest H; [reflexivity|].
    cbn [forallb] in H. apply andb_true_iff in H. destruct H as [Hd H].
    cbn [List.length hex_take app fold_left]. rewrite (proj2 (hex_digitVal d Hd)). apply IH. exact H.
  Qed.

  Lemma utf8_small : forall v, 0 <= v < 128 -> utf8_bytes v = [v].
  Proof.
    intros v H. unfold utf8_bytes, valid_scalar.
    replace (0 <=? v) with true by (symmetry; apply Z.leb_le; lia).
    replace (v <? 55296) with true by (symmetry; apply Z.ltb_lt; lia).
    replace (v <? 128) with true by (symmetry; apply Z.ltb_lt; lia). reflexivity.
  Qed.

  Lemma uchar_bytes_valid : forall v mb, valid_scalar v = true -> (mb = false -> v < 128) ->
    uchar_bytes v mb = utf8_bytes v.
  Proof.
    intros v mb Hv Hmb. pose proof (valid_scalar_nonneg v Hv). unfold uchar_bytes.
    destruct (Z.ltb_spec v 128).
    - cbn [orb]. rewrite utf8_small by lia. rewrite Z.mod_small by lia. reflexivity.
    - destruct mb; [reflexivity|]. specialize (Hmb eq_refl). lia.
  Qed.

  Lemma unescapeChar_item : forall q it rest, (q = 34 \/ q = 39) -> item_ok q it = true ->
    exists mb, unescapeChar (item_runes it ++ rest) = Some (item_val it, mb, rest) /\
               uchar_bytes (item_val it) mb = utf8_bytes (item_val it).
  Proof.
    intros q it rest Hq Hok. destruct it as [r|c|k ds|d1 d2 d3]; cbn [item_runes app item_ok item_val] in *.
    - repeat (apply andb_true_iff in Hok; let H := fresh "H" in destruct Hok as [Hok H]).
      apply negb_true_iff in H1. unfold unescapeChar.
      destruct (Z.leb_spec 128 r).
      + exists true. split; [reflexivity|]. apply uchar_bytes_valid; [assumption|discriminate].
      + rewrite H1. exists false. split; [reflexivity|]. apply uchar_bytes_valid; [assumption|intros; lia].
    - exists false. apply orb_true_iff in Hok. destruct Hok as [Hok|Hok].
      + apply mem_In in Hok. cbn [In] in Hok.
        destruct Hok as [<-|[<-|[<-|[<-|[<-|[<-|[<-|[<-|[]]]]]]]]]; split; reflexivity.
      + apply Z.eqb_eq in Hok. subst c. destruct Hq; subst q; split; reflexivity.
    - apply andb_true_iff in Hok. destruct Hok as [Hok Hv]. apply andb_true_iff in Hok. destruct Hok as [Hk Hds].
      pose proof (valid_scalar_nonneg _ Hv) as Hr.
      exists true. split; [|apply uchar_bytes_valid; [assumption|discriminate]].
      pose proof (hex_take_spec ds 0 rest Hds) as HT. fold (hexval ds) in HT.
      apply orb_true_iff in Hk. destruct Hk as [Hk|Hk]; [apply orb_true_iff in Hk; destruct Hk as [Hk|Hk]|];
        apply andb_true_iff in Hk; destruct Hk as [Hk Hn]; apply Z.eqb_eq in Hk; apply Nat.eqb_eq in Hn; subst k;
        rewrite Hn in HT; unfold unescapeChar; cbn [Z.leb Z.compare Pos.compare Pos.compare_cont Z.eqb Pos.eqb negb orb andb];
        cbv iota; rewrite HT; replace (1114111 <? hexval ds) with false by (symmetry; apply Z.ltb_ge; lia); reflexivity.
    - repeat (apply andb_true_iff in Hok; let H := fresh "H" in destruct Hok as [Hok H]).
      apply Z.leb_le in Hok. apply Z.leb_le in H1.
      unfold is_oct in H0, H. exists true.
      assert (V : valid_scalar (((d1 - 48) * 8 + (d2 - 48)) * 8 + (d3 - 48)) = true).
      { apply andb_true_iff in H0. destruct H0 as [A B]. apply andb_true_iff in H. destruct H as [C D].
        apply Z.leb_le in A. apply Z.leb_le in B. apply Z.leb_le in C. apply Z.leb_le in D.
        unfold valid_scalar. apply orb_true_iff. left. apply andb_true_iff. split; [apply Z.leb_le|apply Z.ltb_lt]; lia. }
      split; [|apply uchar_bytes_valid; [assumption|discriminate]].
      assert (d1 = 48 \/ d1 = 49 \/ d1 = 50 \/ d1 = 51) as [->|[->|[->| ->]]] by lia;
        unfold unescapeChar; cbn [Z.leb Z.compare Pos.compare Pos.compare_cont Z.eqb Pos.eqb negb orb andb]; cbv iota;
        apply andb_true_iff in H0; destruct H0 as [A B]; apply andb_true_iff in H; destruct H as [C D];
        rewrite A, B, C, D; reflexivity.
  Qed.

  Lemma unescape_go_items : forall q items fuel, (q = 34 \/ q = 39) -> forallb (item_ok q) items = true ->
    (List.length items <= fuel)%nat ->
    unescape_go fuel (body_runes items) = Some (flat_map (fun it => utf8_bytes (item_val it)) items).
  Proof.
    induction items as [|it items IH]; intros fuel Hq Hok Hf.
    - destruct fuel; reflexivity.
    - cbn [forallb] in Hok. apply andb_true_iff in Hok. destruct Hok as [Hit Hok].
      destruct fuel as [|fuel]; [cbn in Hf; lia|]. cbn [body_runes flat_map]. fold (body_runes items).
      destruct (unescapeChar_item q it (body_runes items) Hq Hit) as (mb & U & B).
      pose proof (item_runes_nonempty it) as Hne.
      destruct (item_runes it ++ body_runes items) as [|c s] eqn:E.
      { destruct (item_runes it); [congruence|discriminate]. }
      cbn [unescape_go]. rewrite U. rewrite (IH fuel Hq Hok) by (cbn in Hf; lia). rewrite B. reflexivity.
  Qed.

  Lemma normalize_no_cr : forall s, Forall (fun c => c <> 13) s -> normalize_newlines s = s.
  Proof.
    induction s as [|c s IH]; intros H; [reflexivity|]. inversion H; subst.
    cbn [normalize_newlines]. replace (c =? 13) with false by (symmetry; apply Z.eqb_neq; assumption).
    rewrite IH by assumption. reflexivity.
  Qed.

  Lemma item_no_cr : forall q it, (q = 34 \/ q = 39) -> item_ok q it = true -> Forall (fun c => c <> 13) (item_runes it).
  Proof.
    intros q it Hq Hok. destruct it as [r|c|k ds|d1 d2 d3]; cbn [item_runes item_ok] in *.
    - repeat (apply andb_true_iff in Hok; let H := fresh "H" in destruct Hok as [Hok H]).
      apply negb_true_iff in H. apply Z.eqb_neq in H. constructor; auto.
    - constructor; [lia|]. constructor; [|constructor]. apply orb_true_iff in Hok. destruct Hok as [Hok|Hok].
      + apply mem_In in Hok. cbn [In] in Hok. lia.
      + apply Z.eqb_eq in Hok. lia.
    - apply andb_true_iff in Hok. destruct Hok as [Hok Hv]. apply andb_true_iff in Hok. destruct Hok as [Hk Hds].
      constructor; [lia|]. constructor.
      + repeat (apply orb_true_iff in Hk; destruct Hk as [Hk|Hk]); apply andb_true_iff in Hk; destruct Hk as [Hk _];
          apply Z.eqb_eq in Hk; lia.
      + apply Forall_forall. intros c Hc. rewrite forallb_forall in Hds. specialize (Hds c Hc).
        unfold is_hex, is_dec in Hds. intros ->. discriminate.
    - repeat (apply andb_true_iff in Hok; let H := fresh "H" in destruct Hok as [Hok H]).
      unfold is_oct in *. repeat constructor; try lia; intros ->; discriminate.
  Qed.

  Lemma body_no_cr : forall q items, (q = 34 \/ q = 39) -> forallb (item_ok q) items = true ->
    Forall (fun c => c <> 13) (body_runes items).
  Proof.
    induction items as [|it items IH]; intros Hq Hok; [constructor|].
    cbn [forallb] in Hok. apply andb_true_iff in Hok. destruct Hok as [Hit Hok].
    cbn [body_runes flat_map]. apply Forall_app. split; [eapply item_no_cr; eauto|apply IH; auto].
  Qed.

  Lemma bytes_to_string_app : forall a b, bytes_to_string (a ++ b) = (bytes_to_string a ++ bytes_to_string b)%string.
  Proof. induction a; intros; cbn; [reflexivity|]. rewrite IHa. reflexivity. Qed.

  Lemma bytes_items : forall items,
    bytes_to_string (flat_map (fun it => utf8_bytes (item_val it)) items) = utf8_encode (map item_val items).
  Proof.
    induction items as [|it items IH]; [reflexivity|]. cbn [flat_map map utf8_encode].
    rewrite bytes_to_string_app, IH. reflexivity.
  Qed.

  Lemma unescape_literal : forall q items, (q = 34 \/ q = 39) -> forallb (item_ok q) items = true ->
    unescape (q :: body_runes items ++ [q]) = Some (utf8_encode (map item_val items)).
  Proof.
    intros q items Hq Hok. unfold unescape.
    rewrite normalize_no_cr.
    2:{ constructor; [destruct Hq; lia|]. apply Forall_app. split; [eapply body_no_cr; eauto|].
        constructor; [destruct Hq; lia|constructor]. }
    destruct (body_runes items ++ [q]) as [|c t] eqn:E.
    { destruct (body_runes items); discriminate. }
    rewrite <- E. rewrite last_last, removelast_last, Z.eqb_refl.
    replace ((q =? 34) || (q =? 39)) with true by (destruct Hq; subst; reflexivity). cbn [andb].
    rewrite (unescape_go_items q items _ Hq Hok) by apply body_length.
    rewrite bytes_items. reflexivity.
  Qed.

  Lemma tok_string : forall l q items tail pos lastp toks,
    Between l ((q :: body_runes items ++ [q]) ++ tail) pos lastp toks ->
    (q = 34 \/ q = 39) -> forallb (item_ok q) items = true ->
    token_done l (q :: body_runes items ++ [q]) tail pos toks TkString (utf8_encode (map item_val items)).
  Proof.
    intros l q items tail pos lastp toks B Hq Hok. pose proof (b_rest _ _ _ _ _ B) as R.
    pose proof (Mid_consume _ _ _ _ _ _ B ltac:(congruence)) as M.
    set (X := consume (q :: body_runes items ++ [q]) l) in *.
    apply (one_step_done l (emitValue TkString (utf8_encode (map item_val items)) X)); [congruence| |].
    - unfold Lexer.step. cbn [app] in R. rewrite (next_cons _ _ _ R).
      assert (Ra : l_rest (adv l) = (body_runes items ++ [q]) ++ tail) by (rewrite (adv_cons _ _ _ R); reflexivity).
      assert (S : scanString q (adv l) = X).
      { rewrite scanString_loop. apply (scan_items q items _ (adv l) tail Hq Hok Ra).
        assert (l_rest (adv (adv l)) = tl ((body_runes items ++ [q]) ++ tail)).
        { destruct ((body_runes items ++ [q]) ++ tail) as [|c t] eqn:E; [destruct (body_runes items); discriminate|].
          rewrite (adv_cons _ _ _ Ra). reflexivity. }
        rewrite H. pose proof (body_length items).
        destruct ((body_runes items ++ [q]) ++ tail) as [|c t] eqn:E; [destruct (body_runes items); discriminate|].
        cbn [tl]. apply (f_equal (@List.length Z)) in E. rewrite !app_length in E. cbn in E. lia. }
      assert (W : word X = q :: body_runes items ++ [q]).
      { unfold word. rewrite (m_word _ _ _ _ _ M), rev_involutive. reflexivity. }
      destruct Hq as [-> | ->]; cbn -[scanString unescape emitValue set_error]; rewrite S, W, unescape_literal by auto; reflexivity.
    - apply Between_emitValue. exact M.
  Qed.

  (* ---- the dot operators  .  ..  ?.  *)
  Lemma step_dot_state : forall l t, l_rest l = 46 :: t ->
    hd_ok (fun c => negb (is_dec c)) t ->
    step SDot (pk l) = (Some SRoot, emit TkOperator (snd (accept [46] (adv l)))).
  Proof.
    intros l t R Ht. unfold Lexer.step. rewrite next_pk by congruence. rewrite (next_cons _ _ _ R). ev_rs.
    assert (Ra : l_rest (adv l) = t) by (rewrite (adv_cons _ _ _ R); reflexivity).
    rewrite (accept_miss _ (adv l)); [|reflexivity|].
    - cbn [snd]. rewrite accept_pk by reflexivity. reflexivity.
    - rewrite Ra. destruct t as [|c t]; [exact I|]. cbn [hd_ok] in *. apply negb_true_iff in Ht. apply negb_true_iff.
      destruct (mem c [48; 49; 50; 51; 52; 53; 54; 55; 56; 57]) eqn:E; [|reflexivity].
      apply mem_In in E. cbn [In] in E.
      destruct E as [<-|[<-|[<-|[<-|[<-|[<-|[<-|[<-|[<-|[<-|[]]]]]]]]]]]; discriminate.
  Qed.

  Lemma tok_dot : forall l tail pos lastp toks,
    Between l ([46] ++ tail) pos lastp toks ->
    hd_ok (fun c => negb (is_dec c) && negb (c =? 46)) tail ->
    token_done l [46] tail pos toks TkOperator (utf8_encode [46]).
  Proof.
    intros l tail pos lastp toks B Hf. pose proof (b_rest _ _ _ _ _ B) as R. cbn [app] in R.
    pose proof (Mid_consume _ _ _ _ _ _ B ltac:(congruence)) as M. apply Mid_pk in M.
    eapply (two_step_done l SDot (pk l)); [congruence| | |apply Between_emit; exact M].
    - apply (root_dot l _ R).
    - rewrite (step_dot_state l tail R).
      + rewrite (accept_miss [46] (adv l)); [reflexivity|reflexivity|].
        rewrite (adv_cons _ _ _ R). cbn [l_rest]. destruct tail as [|c tail]; [exact I|]. cbn [hd_ok mem] in *.
        apply andb_true_iff in Hf. destruct Hf as [_ Hf]. rewrite orb_false_r. exact Hf.
      + destruct tail as [|c tail]; [exact I|]. cbn [hd_ok] in *. apply andb_true_iff in Hf. apply Hf.
  Qed.

  Lemma tok_dotdot : forall l tail pos lastp toks,
    Between l ([46; 46] ++ tail) pos lastp toks ->
    token_done l [46; 46] tail pos toks TkOperator (utf8_encode [46; 46]).
  Proof.
    intros l tail pos lastp toks B. pose proof (b_rest _ _ _ _ _ B) as R. cbn [app] in R.
    pose proof (Mid_consume _ _ _ _ _ _ B ltac:(congruence)) as M.
    eapply (two_step_done l SDot (pk l)); [congruence| | |apply Between_emit; exact M].
    - apply (root_dot l _ R).
    - rewrite (step_dot_state l (46 :: tail) R); [|reflexivity].
      rewrite (accept_hit [46] (adv l) 46 tail); [reflexivity| |reflexivity].
      rewrite (adv_cons _ _ _ R). reflexivity.
  Qed.

  Lemma tok_nilsafe : forall l tail pos lastp toks,
    Between l ([63; 46] ++ tail) pos lastp toks ->
    hd_ok (fun c => negb (mem c [63; 46])) tail ->
    token_done l [63; 46] tail pos toks TkOperator (utf8_encode [63; 46]).
  Proof.
    intros l tail pos lastp toks B Hf. pose proof (b_rest _ _ _ _ _ B) as R. cbn [app] in R.
    pose proof (Mid_consume _ _ _ _ _ _ B ltac:(congruence)) as M. apply Mid_pk in M.
    assert (Ra : l_rest (adv l) = 46 :: tail) by (rewrite (adv_cons _ _ _ R); reflexivity).
    eapply (two_step_done l SNilsafe (pk (adv l))); [congruence| | |apply Between_emit; exact M].
    - unfold Lexer.step. rewrite (next_cons _ _ _ R).
      change (63 =? eof) with false. cbv iota. replace (is_space 63) with false by reflexivity. cbv iota.
      change ((63 =? 39) || (63 =? 34)) with false. cbv iota.
      change ((48 <=? 63) && (63 <=? 57)) with false. cbv iota. change (63 =? 63) with true. cbv iota.
      rewrite (peek_cons _ _ _ Ra). reflexivity.
    - unfold Lexer.step. rewrite next_pk by congruence. rewrite (next_cons _ _ _ Ra). ev_rs.
      rewrite (accept_miss [63; 46] (adv (adv l))); [reflexivity|reflexivity|].
      rewrite (adv_cons _ _ _ Ra). exact Hf.
  Qed.

  (* ------------------------------------------------------------------ token sequences under arbitrary layouts *)
  Inductive dotop := DDot | DDotDot | DNilsafe.
  Definition dot_runes (d : dotop) : list Z :=
    match d with DDot => [46] | DDotDot => [46; 46] | DNilsafe => [63; 46] end.

  Inductive ptok :=
  | PIdent (r : Z) (w : list Z)          (* identifier or word operator: alphabetic rune, then alphanumeric runes *)
  | PNum (n : numsp)
  | POp1 (r : Z)                         (* # , ? : % + - / *)
  | POp2 (r : Z) (r2 : option Z)         (* & | ! = * < >  optionally followed by & | = * *)
  | PBracket (r : Z)
  | PStr (q : Z) (items : list sitem)
  | PDot (d : dotop).                    (* .  ..  ?. *)

  Definition tok_runes (t : ptok) : list Z :=
    match t with
    | PIdent r w => r :: w
    | PNum n => num_runes n
    | POp1 r => [r]
    | POp2 r None => [r]
    | POp2 r (Some r2) => [r; r2]
    | PBracket r => [r]
    | PStr q items => q :: body_runes items ++ [q]
    | PDot d => dot_runes d
    end.

  Definition tok_kind (t : ptok) : tkind :=
    match t with
    | PIdent r w => ident_kind (r :: w)
    | PNum _ => TkNumber
    | POp1 _ | POp2 _ _ | PDot _ => TkOperator
    | PBracket _ => TkBracket
    | PStr _ _ => TkString
    end.

  Definition tok_value (t : ptok) : string :=
    match t with
    | PStr q items => utf8_encode (map item_val items)
    | _ => utf8_encode (tok_runes t)
    end.

  Definition tok_ok (t : ptok) : bool :=
    match t with
    | PIdent r w => is_alphabetic r && negb (is_space r) && forallb is_alnum w && negb (runes_eqb (r :: w) (rs "not"))
    | PNum n => num_ok n
    | POp1 r => mem r op1_runes
    | POp2 r None => mem r op2_first
    | POp2 r (Some r2) => mem r op2_first && mem r2 op2_second
    | PBracket r => mem r bracket_runes
    | PStr q items => ((q =? 34) || (q =? 39)) && forallb (item_ok q) items
    | PDot _ => true
    end.

  Definition hd_okb (P : Z -> bool) (t : list Z) : bool := match t with [] => true | c :: _ => P c end.
  Lemma hd_okb_ok : forall P t, hd_okb P t = true -> hd_ok P t.
  Proof. intros P [|c t] H; [exact I|exact H]. Qed.

  (* what the rune after the token (if any) must not be, for the token to end where it is spelled to end;
     every white-space rune qualifies *)
  Definition follow_ok (t : ptok) (tail : list Z) : bool :=
    match t with
    | PIdent _ _ => hd_okb (fun c => negb (is_alnum c)) tail
    | PNum _ => hd_okb (fun c => negb (is_alnum c) && negb (c =? 46)) tail
    | POp1 r => if r =? 63 then hd_okb (fun c => negb (c =? 46)) tail else true
    | POp2 r None => hd_okb (fun c => negb (mem c op2_second)) tail
    | PDot DDot => hd_okb (fun c => negb (is_dec c) && negb (c =? 46)) tail
    | PDot DNilsafe => hd_okb (fun c => negb (mem c [63; 46])) tail
    | _ => true
    end.

  Lemma tok_any : forall l t tail pos lastp toks,
    Between l (tok_runes t ++ tail) pos lastp toks -> tok_ok t = true -> follow_ok t tail = true ->
    token_done l (tok_runes t) tail pos toks (tok_kind t) (tok_value t).
  Proof.
    intros l t tail pos lastp toks B Hok Hf. destruct t as [r w|n|r|r [r2|]|r|q items|[| |]]; cbn [tok_runes tok_kind tok_value tok_ok follow_ok dot_runes] in *.
    - repeat (apply andb_true_iff in Hok; let H := fresh "H" in destruct Hok as [Hok H]).
      apply negb_true_iff in H, H1. eapply tok_ident; eauto.
      + apply Forall_forall. rewrite forallb_forall in H0. exact H0.
      + apply hd_okb_ok. exact Hf.
    - eapply tok_number; eauto. apply hd_okb_ok. exact Hf.
    - eapply tok_op1; eauto. intros ->. apply hd_okb_ok. exact Hf.
    - apply andb_true_iff in Hok. destruct Hok. eapply tok_op2_double; eauto.
    - eapply tok_op2_single; eauto. apply hd_okb_ok. exact Hf.
    - eapply tok_bracket; eauto.
    - apply andb_true_iff in Hok. destruct Hok as [Hq Hok]. eapply tok_string; eauto. apply quote_cases. exact Hq.
    - eapply tok_dot; eauto. apply hd_okb_ok. exact Hf.
    - eapply tok_dotdot; eauto.
    - eapply tok_nilsafe; eauto. apply hd_okb_ok. exact Hf.
  Qed.

  Definition lastpos (pos lastp : loc) (w : list Z) : loc :=
    match w with [] => lastp | _ => advance pos (removelast w) end.

  Lemma lastpos_app : forall a b pos lastp,
    lastpos pos lastp (a ++ b) = lastpos (advance pos a) (lastpos pos lastp a) b.
  Proof.
    intros a b pos lastp. destruct b as [|c b].
    - rewrite app_nil_r. reflexivity.
    - unfold lastpos at 1 2. destruct (a ++ c :: b) eqn:E; [destruct a; discriminate|]. rewrite <- E.
      rewrite removelast_app by congruence. rewrite advance_app. reflexivity.
  Qed.

  Lemma skip_ws : forall ws l rest pos lastp toks, forallb ascii_ws ws = true ->
    Between l (ws ++ rest) pos lastp toks ->
    exists l', (forall f, lex_fuel (List.length ws + f) SRoot l = lex_fuel f SRoot l') /\
               Between l' rest (advance pos ws) (lastpos pos lastp ws) toks.
  Proof.
    induction ws as [|c ws IH]; intros l rest pos lastp toks Hws B.
    - exists l. split; [reflexivity|exact B].
    - cbn [forallb] in Hws. apply andb_true_iff in Hws. destruct Hws as [Hc Hws].
      destruct (step_ws l c (ws ++ rest) pos lastp toks B Hc) as [S1 B1].
      destruct (IH _ rest _ _ toks Hws B1) as (l' & F & B').
      exists l'. split.
      + intros f. cbn [List.length plus]. rewrite (lex_fuel_step _ _ _ _ _ S1). apply F.
      + rewrite advance_cons. replace (lastpos pos lastp (c :: ws)) with (lastpos (adv_loc pos c) pos ws); [exact B'|].
        change (c :: ws) with ([c] ++ ws). rewrite lastpos_app. reflexivity.
  Qed.

  Fixpoint layout (items : list (list Z * ptok)) (trail : list Z) : list Z :=
    match items with
    | [] => trail
    | (ws, t) :: r => ws ++ tok_runes t ++ layout r trail
    end.

  Fixpoint layout_ok (items : list (list Z * ptok)) (trail : list Z) : bool :=
    match items with
    | [] => forallb ascii_ws trail
    | (ws, t) :: r => forallb ascii_ws ws && tok_ok t && follow_ok t (layout r trail) && layout_ok r trail
    end.

  (* the tokens the property demands: kind, value, and the position of the first character *)
  Fixpoint expected (pos : loc) (items : list (list Z * ptok)) : list token :=
    match items with
    | [] => []
    | (ws, t) :: r =>
      let p := advance pos ws in
      mkTok p (tok_kind t) (tok_value t) :: expected (advance p (tok_runes t)) r
    end.

  Lemma tok_runes_nonempty : forall t, tok_runes t <> [].
  Proof. destruct t as [r w|n|r|r [r2|]|r|q items|[| |]]; cbn; try congruence. destruct n; cbn; congruence. Qed.

  Lemma lex_layout : forall items trail l pos lastp toks fuel,
    layout_ok items trail = true -> Between l (layout items trail) pos lastp toks ->
    (2 * List.length (layout items trail) + 1 <= fuel)%nat ->
    exists l', lex_fuel fuel SRoot l = Some l' /\ l_err l' = None /\
      l_tokens l' = mkTok (lastpos pos lastp (layout items trail)) TkEOF EmptyString :: rev (expected pos items) ++ toks.
  Proof.
    induction items as [|[ws t] items IH]; intros trail l pos lastp toks fuel Hok B Hf.
    - cbn [layout layout_ok expected] in *.
      rewrite <- (app_nil_r trail) in B.
      destruct (skip_ws trail l [] pos lastp toks Hok B) as (l1 & F & B1).
      destruct (step_eof l1 _ _ _ B1) as (l' & St & E & T).
      exists l'. split; [|split; [exact E|]].
      + replace fuel with (List.length trail + S (fuel - List.length trail - 1))%nat by lia.
        rewrite F. cbn [Lexer.lex_fuel]. rewrite St. reflexivity.
      + rewrite T. reflexivity.
    - cbn [layout layout_ok expected] in *.
      repeat (apply andb_true_iff in Hok; let H := fresh "H" in destruct Hok as [Hok H]).
      destruct (skip_ws ws l _ pos lastp toks Hok B) as (l1 & F1 & B1).
      destruct (tok_any l1 t _ _ _ toks B1 H1 H0) as (n & l2 & Hn & Hn2 & F2 & B2).
      rewrite !app_length in Hf.
      destruct (IH trail l2 _ _ _ (fuel - List.length ws - n)%nat H B2) as (l' & L & E & T); [lia|].
      exists l'. split; [|split; [exact E|]].
      + replace fuel with (List.length ws + (n + (fuel - List.length ws - n)))%nat by lia.
        rewrite F1, F2. exact L.
      + rewrite T. cbn [rev]. rewrite <- app_assoc. cbn [app].
        rewrite !lastpos_app. f_equal. f_equal.
        pose proof (tok_runes_nonempty t). unfold lastpos at 2. destruct (tok_runes t); [congruence|reflexivity].
  Qed.

  Theorem positions_hold : forall items trail, layout_ok items trail = true ->
    lex (layout items trail) =
    LexOk (expected (1, 0) items ++ [mkTok (lastpos (1, 0) (1, 0) (layout items trail)) TkEOF EmptyString]).
  Proof.
    intros items trail Hok. unfold Lexer.lex.
    destruct (lex_layout items trail (init (layout items trail)) (1, 0) (1, 0) [] (2 * List.length (layout items trail) + 2) Hok)
      as (l' & L & E & T).
    - constructor; cbn; auto.
    - lia.
    - rewrite L, E, T. cbn [rev]. rewrite app_nil_r, rev_involutive. reflexivity.
  Qed.

  (* ---- (1) strings: every literal written with the supported escapes lexes back to its value *)
  Theorem string_items_roundtrip : forall q items, (q = 34 \/ q = 39) -> forallb (item_ok q) items = true ->
    lex (q :: body_runes items ++ [q]) =
    LexOk [mkTok (1, 0) TkString (utf8_encode (map item_val items));
           mkTok (advance (1, 0) (q :: body_runes items)) TkEOF EmptyString].
  Proof.
    intros q items Hq Hok.
    pose proof (positions_hold [([], PStr q items)] []) as P.
    cbn [layout layout_ok expected tok_runes tok_ok follow_ok tok_kind tok_value forallb app advance fold_left] in P.
    rewrite app_nil_r in P. rewrite P.
    - f_equal. f_equal. f_equal. f_equal. unfold lastpos. rewrite app_comm_cons, removelast_last. reflexivity.
    - rewrite Hok. destruct Hq; subst; reflexivity.
  Qed.
End WithClasses.

(* the canonical printer: backslash, the quote, \a \b \f \n \r \t \v, \xHH for the other controls, raw otherwise *)
Definition hexdigit (d : Z) : Z := if d <? 10 then 48 + d else 87 + d.

Definition canon_item (q r : Z) : sitem :=
  if r =? 92 then INamed 92 else if r =? q then INamed q
  else if r =? 7 then INamed 97 else if r =? 8 then INamed 98 else if r =? 12 then INamed 102
  else if r =? 10 then INamed 110 else if r =? 13 then INamed 114 else if r =? 9 then INamed 116
  else if r =? 11 then INamed 118
  else if (r <? 32) || (r =? 127) then IHex 120 [hexdigit (r / 16); hexdigit (r mod 16)]
  else IRaw r.

Definition quote (q : Z) (s : list Z) : list Z := q :: body_runes (map (canon_item q) s) ++ [q].

Lemma hexdigit_ok : forall d, 0 <= d < 16 -> is_hex (hexdigit d) = true /\ digitVal (hexdigit d) = d.
Proof.
  intros d H.
  assert (d = 0 \/ d = 1 \/ d = 2 \/ d = 3 \/ d = 4 \/ d = 5 \/ d = 6 \/ d = 7 \/ d = 8 \/ d = 9 \/ d = 10 \/
          d = 11 \/ d = 12 \/ d = 13 \/ d = 14 \/ d = 15) as
    [->|[->|[->|[->|[->|[->|[->|[->|[->|[->|[->|[->|[->|[->|[->| ->]]]]]]]]]]]]]]] by lia; split; reflexivity.
Qed.

Lemma canon_item_ok : forall q r, (q = 34 \/ q = 39) -> valid_scalar r = true ->
  item_ok q (canon_item q r) = true /\ item_val (canon_item q r) = r.
Proof.
  intros q r Hq Hv. pose proof (valid_scalar_nonneg r Hv) as Hr. unfold canon_item.
  destruct (Z.eqb_spec r 92); [subst; split; reflexivity|].
  destruct (Z.eqb_spec r q). { subst r. split; [|destruct Hq; subst; reflexivity]. cbn. rewrite Z.eqb_refl. apply orb_true_r. }
  destruct (Z.eqb_spec r 7); [subst; split; reflexivity|].
  destruct (Z.eqb_spec r 8); [subst; split; reflexivity|].
  destruct (Z.eqb_spec r 12); [subst; split; reflexivity|].
  destruct (Z.eqb_spec r 10); [subst; split; reflexivity|].
  destruct (Z.eqb_spec r 13); [subst; split; reflexivity|].
  destruct (Z.eqb_spec r 9); [subst; split; reflexivity|].
  destruct (Z.eqb_spec r 11); [subst; split; reflexivity|].
  destruct ((r <? 32) || (r =? 127)) eqn:C.
  - assert (Hc : 0 <= r < 128).
    { apply orb_true_iff in C. destruct C as [C|C]; [apply Z.ltb_lt in C|apply Z.eqb_eq in C]; lia. }
    assert (H1 : 0 <= r / 16 < 16) by (split; [apply Z.div_pos; lia|apply Z.div_lt_upper_bound; lia]).
    assert (H2 : 0 <= r mod 16 < 16) by (apply Z.mod_pos_bound; lia).
    destruct (hexdigit_ok _ H1) as [A1 B1]. destruct (hexdigit_ok _ H2) as [A2 B2].
    assert (V : hexval [hexdigit (r / 16); hexdigit (r mod 16)] = r).
    { unfold hexval. cbn [fold_left]. rewrite B1, B2. pose proof (Z.div_mod r 16). lia. }
    split; [|exact V]. cbn [item_ok List.length Nat.eqb forallb]. rewrite V, A1, A2, Hv. reflexivity.
  - cbn [item_ok item_val]. split; [|reflexivity]. rewrite Hv.
    repeat match goal with H : ?a <> ?b |- context[?a =? ?b] => replace (a =? b) with false by (symmetry; apply Z.eqb_neq; exact H) end.
    reflexivity.
Qed.

Lemma canon_items_ok : forall q s, (q = 34 \/ q = 39) -> forallb valid_scalar s = true ->
  forallb (item_ok q) (map (canon_item q) s) = true /\ map item_val (map (canon_item q) s) = s.
Proof.
  induction s as [|r s IH]; intros Hq Hs; [split; reflexivity|].
  cbn [forallb] in Hs. apply andb_true_iff in Hs. destruct Hs as [Hr Hs].
  destruct (IH Hq Hs) as [A B]. destruct (canon_item_ok q r Hq Hr) as [C D].
  cbn [map forallb]. rewrite A, B, C, D. split; reflexivity.
Qed.

Theorem string_roundtrip : forall uni_letter uni_digit uni_space q s,
  (q = 34 \/ q = 39) -> forallb valid_scalar s = true ->
  lex uni_letter uni_digit uni_space (quote q s) =
  LexOk [mkTok (1, 0) TkString (utf8_encode s);
         mkTok (advance (1, 0) (removelast (quote q s))) TkEOF EmptyString].
Proof.
  intros ul ud us q s Hq Hs. destruct (canon_items_ok q s Hq Hs) as [A B].
  unfold quote. rewrite (string_items_roundtrip ul ud us q _ Hq A). rewrite B.
  rewrite app_comm_cons, removelast_last. reflexivity.
Qed.

(* The statement with a raw carriage return allowed inside the literal is false of the code:
   unescape's newline normaliser turns it into a line feed (known finding C12-raw-cr). *)
Definition item_ok_full (q : Z) (it : sitem) : bool :=
  match it with
  | IRaw r => valid_scalar r && negb (r =? q) && negb (r =? 92) && negb (r =? 10)
  | _ => item_ok q it
  end.
Definition string_full_statement : Prop :=
  forall uni_letter uni_digit uni_space q items, (q = 34 \/ q = 39) -> forallb (item_ok_full q) items = true ->
  exists e, lex uni_letter uni_digit uni_space (q :: body_runes items ++ [q]) =
            LexOk [mkTok (1, 0) TkString (utf8_encode (map item_val items)); e].

Theorem raw_cr_refuted : ~ string_full_statement.
Proof.
  intros H. destruct (H (fun _ => false) (fun _ => false) (fun _ => false) 34 [IRaw 97; IRaw 13; IRaw 98] (or_introl eq_refl) eq_refl) as [e He].
  vm_compute in He. discriminate.
Qed.

(* the carve-out is exactly the raw CR *)
Lemma item_ok_full_carve : forall q it, item_ok_full q it = true -> item_ok q it = false -> it = IRaw 13.
Proof.
  intros q it H1 H2. destruct it; cbn [item_ok_full item_ok] in *; try congruence.
  rewrite H1 in H2. cbn in H2. apply negb_false_iff in H2. apply Z.eqb_eq in H2. subst. reflexivity.
Qed.

(* ------------------------------------------------------------------ number literals: classification *)
Definition is_ascii (c : Z) : bool := (0 <=? c) && (c <? 128).
Definition not_us (c : Z) : bool := negb (c =? 95).

Lemma code_byte_chr : forall c, 0 <= c < 256 -> code (byte_chr c) = c.
Proof.
  intros c H. unfold code, byte_chr. rewrite Z.mod_small by lia.
  rewrite N_ascii_embedding by lia. apply Z2N.id. lia.
Qed.

Lemma utf8_encode_ascii : forall c t, is_ascii c = true -> utf8_encode (c :: t) = String (byte_chr c) (utf8_encode t).
Proof.
  intros c t H. unfold is_ascii in H. apply andb_true_iff in H. destruct H as [A B].
  apply Z.leb_le in A. apply Z.ltb_lt in B. cbn [utf8_encode]. rewrite utf8_small by lia. reflexivity.
Qed.

Lemma remove_us_ascii : forall l, forallb is_ascii l = true ->
  remove_underscores (utf8_encode l) = utf8_encode (filter not_us l).
Proof.
  induction l as [|c l IH]; intros H; [reflexivity|].
  cbn [forallb] in H. apply andb_true_iff in H. destruct H as [Hc H].
  rewrite (utf8_encode_ascii c l Hc). cbn [remove_underscores filter].
  assert (Hr : 0 <= c < 256).
  { unfold is_ascii in Hc. apply andb_true_iff in Hc. destruct Hc as [A B]. apply Z.leb_le in A. apply Z.ltb_lt in B. lia. }
  rewrite (code_byte_chr c Hr). unfold not_us. destruct (c =? 95); cbn [negb].
  - apply IH. exact H.
  - rewrite (utf8_encode_ascii c _ Hc). rewrite IH by exact H. reflexivity.
Qed.

Lemma contains_any_ascii : forall l S, forallb is_ascii l = true ->
  contains_any (utf8_encode l) S = existsb (fun c => mem c S) l.
Proof.
  induction l as [|c l IH]; intros S H; [reflexivity|].
  cbn [forallb] in H. apply andb_true_iff in H. destruct H as [Hc H].
  rewrite (utf8_encode_ascii c l Hc). cbn [contains_any existsb].
  assert (Hr : 0 <= c < 256).
  { unfold is_ascii in Hc. apply andb_true_iff in Hc. destruct Hc as [A B]. apply Z.leb_le in A. apply Z.ltb_lt in B. lia. }
  rewrite (code_byte_chr c Hr), IH by exact H. reflexivity.
Qed.

Lemma filter_ascii : forall p l, forallb is_ascii l = true -> forallb is_ascii (filter p l) = true.
Proof.
  induction l as [|c l IH]; intros H; [reflexivity|].
  cbn [forallb] in H. apply andb_true_iff in H. destruct H as [Hc H]. cbn [filter].
  destruct (p c); cbn [forallb]; rewrite ?Hc, IH; auto.
Qed.

Lemma is_dec_ascii : forall c, is_dec c = true -> is_ascii c = true.
Proof.
  intros c H. unfold is_dec in H. apply andb_true_iff in H. destruct H as [A B]. apply Z.leb_le in A. apply Z.leb_le in B.
  unfold is_ascii. apply andb_true_iff. split; [apply Z.leb_le|apply Z.ltb_lt]; lia.
Qed.

Lemma is_hex_ascii : forall c, is_hex c = true -> is_ascii c = true.
Proof.
  intros c H. unfold is_hex in H. unfold is_ascii.
  repeat (apply orb_true_iff in H; destruct H as [H|H]); [apply is_dec_ascii in H; exact H| |];
    apply andb_true_iff in H; destruct H as [A B]; apply Z.leb_le in A; apply Z.leb_le in B;
    apply andb_true_iff; split; [apply Z.leb_le|apply Z.ltb_lt|apply Z.leb_le|apply Z.ltb_lt]; lia.
Qed.

(* value of a decimal / hexadecimal digit string *)
Definition dval (ds : list Z) : Z := fold_left (fun a c => a * 10 + (c - 48)) ds 0.

Lemma pu_loop_dec : forall ds n b0, forallb is_dec ds = true ->
  pu_loop 10 b0 (utf8_encode ds) n = Some (fold_left (fun a c => a * 10 + (c - 48)) ds n).
Proof.
  induction ds as [|c ds IH]; intros n b0 H; [reflexivity|].
  cbn [forallb] in H. apply andb_true_iff in H. destruct H as [Hc H].
  rewrite (utf8_encode_ascii c ds (is_dec_ascii c Hc)). cbn [pu_loop fold_left].
  pose proof Hc as Hc'. unfold is_dec in Hc'. apply andb_true_iff in Hc'. destruct Hc' as [A B].
  apply Z.leb_le in A. apply Z.leb_le in B.
  rewrite code_byte_chr by lia.
  replace (c =? 95) with false by (symmetry; apply Z.eqb_neq; lia). cbn [andb].
  unfold pu_digit. fold (is_dec c). rewrite Hc.
  replace (10 <=? c - 48) with false by (symmetry; apply Z.leb_gt; lia).
  apply IH. exact H.
Qed.

Lemma pu_digit_hex : forall c, is_hex c = true -> pu_digit c = Some (digitVal c) /\ 0 <= digitVal c < 16 /\ c <> 95.
Proof.
  intros c H. unfold is_hex, is_dec in H. unfold pu_digit, digitVal.
  destruct ((48 <=? c) && (c <=? 57)) eqn:A.
  - apply andb_true_iff in A. destruct A as [A B]. apply Z.leb_le in A. apply Z.leb_le in B. repeat split; lia.
  - cbn [orb] in H. destruct ((97 <=? c) && (c <=? 102)) eqn:B.
    + apply andb_true_iff in B. destruct B as [B C]. apply Z.leb_le in B. apply Z.leb_le in C.
      replace ((97 <=? c) && (c <=? 122)) with true by (symmetry; apply andb_true_iff; split; apply Z.leb_le; lia).
      repeat split; lia.
    + cbn [orb] in H. rewrite H. apply andb_true_iff in H. destruct H as [C D]. apply Z.leb_le in C. apply Z.leb_le in D.
      replace ((97 <=? c) && (c <=? 122)) with false by (symmetry; apply andb_false_iff; left; apply Z.leb_gt; lia).
      replace ((65 <=? c) && (c <=? 90)) with true by (symmetry; apply andb_true_iff; split; apply Z.leb_le; lia).
      repeat split; lia.
Qed.

Lemma pu_loop_hex : forall ds n, forallb is_hex ds = true ->
  pu_loop 16 true (utf8_encode ds) n = Some (fold_left (fun v d => v * 16 + digitVal d) ds n).
Proof.
  induction ds as [|c ds IH]; intros n H; [reflexivity|].
  cbn [forallb] in H. apply andb_true_iff in H. destruct H as [Hc H].
  rewrite (utf8_encode_ascii c ds (is_hex_ascii c Hc)). cbn [pu_loop fold_left].
  destruct (pu_digit_hex c Hc) as (P & R & U).
  pose proof (is_hex_ascii c Hc) as Ha. unfold is_ascii in Ha. apply andb_true_iff in Ha. destruct Ha as [A B].
  apply Z.leb_le in A. apply Z.ltb_lt in B. rewrite code_byte_chr by lia.
  replace (c =? 95) with false by (symmetry; apply Z.eqb_neq; exact U). cbn [andb]. rewrite P.
  replace (16 <=? digitVal c) with false by (symmetry; apply Z.leb_gt; lia).
  apply IH. exact H.
Qed.

Lemma filter_dec_us : forall ds, forallb is_dec_us ds = true -> forallb is_dec (filter not_us ds) = true.
Proof.
  induction ds as [|c ds IH]; intros H; [reflexivity|].
  cbn [forallb] in H. apply andb_true_iff in H. destruct H as [Hc H]. cbn [filter]. unfold not_us, is_dec_us in *.
  destruct (c =? 95); cbn [negb]; [apply IH; exact H|]. rewrite orb_false_r in Hc. cbn [forallb]. rewrite Hc, IH; auto.
Qed.

Lemma filter_hex_us : forall ds, forallb is_hex_us ds = true -> forallb is_hex (filter not_us ds) = true.
Proof.
  induction ds as [|c ds IH]; intros H; [reflexivity|].
  cbn [forallb] in H. apply andb_true_iff in H. destruct H as [Hc H]. cbn [filter]. unfold not_us, is_hex_us in *.
  destruct (c =? 95); cbn [negb]; [apply IH; exact H|]. rewrite orb_false_r in Hc. cbn [forallb]. rewrite Hc, IH; auto.
Qed.

Lemma dec_us_ascii : forall ds, forallb is_dec_us ds = true -> forallb is_ascii ds = true.
Proof.
  intros ds H. rewrite forallb_forall in *. intros c Hc. specialize (H c Hc). unfold is_dec_us in H.
  apply orb_true_iff in H. destruct H as [H|H]; [apply is_dec_ascii; exact H|apply Z.eqb_eq in H; subst; reflexivity].
Qed.

Lemma hex_us_ascii : forall ds, forallb is_hex_us ds = true -> forallb is_ascii ds = true.
Proof.
  intros ds H. rewrite forallb_forall in *. intros c Hc. specialize (H c Hc). unfold is_hex_us in H.
  apply orb_true_iff in H. destruct H as [H|H]; [apply is_hex_ascii; exact H|apply Z.eqb_eq in H; subst; reflexivity].
Qed.

Lemma existsb_false : forall (p : Z -> bool) l, (forall c, In c l -> p c = false) -> existsb p l = false.
Proof.
  induction l as [|c l IH]; intros H; [reflexivity|]. cbn [existsb]. rewrite (H c (or_introl eq_refl)).
  apply IH. intros x Hx. apply H. right. exact Hx.
Qed.

(* (2a) decimal: any placement of `_` after the first digit, leading zeros allowed *)
Theorem classify_dec : forall pf d ds, is_dec d = true -> forallb is_dec_us ds = true ->
  dval (filter not_us (d :: ds)) < 2 ^ 63 ->
  classify_number pf (utf8_encode (d :: ds)) = LitInt (dval (filter not_us (d :: ds))).
Proof.
  intros pf d ds Hd Hds Hb.
  assert (Hall : forallb is_dec_us (d :: ds) = true) by (cbn [forallb]; unfold is_dec_us at 1; rewrite Hd, Hds; reflexivity).
  pose proof (dec_us_ascii _ Hall) as Hasc.
  pose proof (filter_dec_us _ Hall) as Hdig.
  unfold classify_number. rewrite (remove_us_ascii _ Hasc).
  set (digs := filter not_us (d :: ds)) in *.
  assert (Hda : forallb is_ascii digs = true) by (apply filter_ascii; exact Hasc).
  assert (NX : forall S, (forall c, is_dec c = true -> mem c S = false) -> contains_any (utf8_encode digs) S = false).
  { intros S HS. rewrite (contains_any_ascii _ _ Hda). apply existsb_false. intros c Hc.
    rewrite forallb_forall in Hdig. apply HS, Hdig, Hc. }
  rewrite NX, NX.
  2:{ intros c Hc. ev_rs. destruct (dec_cases c Hc) as [->|[->|[->|[->|[->|[->|[->|[->|[->| ->]]]]]]]]]; reflexivity. }
  2:{ intros c Hc. ev_rs. destruct (dec_cases c Hc) as [->|[->|[->|[->|[->|[->|[->|[->|[->| ->]]]]]]]]]; reflexivity. }
  assert (E : digs = d :: filter not_us ds).
  { unfold digs. cbn [filter]. unfold not_us at 1. replace (d =? 95) with false; [reflexivity|].
    symmetry. apply Z.eqb_neq. unfold is_dec in Hd. apply andb_true_iff in Hd. destruct Hd as [A B]. apply Z.leb_le in B. lia. }
  pose proof (pu_loop_dec digs 0 false Hdig) as PL. fold (dval digs) in PL.
  assert (Hnn : 0 <= dval digs).
  { unfold dval. assert (G : forall l a, forallb is_dec l = true -> 0 <= a -> 0 <= fold_left (fun a c => a * 10 + (c - 48)) l a).
    { induction l as [|c l IH]; intros a Hl Ha; [exact Ha|]. cbn [forallb] in Hl. apply andb_true_iff in Hl. destruct Hl as [Hc Hl].
      cbn [fold_left]. apply IH; [exact Hl|]. unfold is_dec in Hc. apply andb_true_iff in Hc. destruct Hc as [A B]. apply Z.leb_le in A. lia. }
    apply G; [exact Hdig|lia]. }
  unfold parse_int, parse_uint. rewrite E in PL |- *.
  rewrite (utf8_encode_ascii d _ (is_dec_ascii d Hd)) in PL |- *.
  assert (Hdr : 48 <= d <= 57) by (unfold is_dec in Hd; apply andb_true_iff in Hd; destruct Hd as [A B]; apply Z.leb_le in A; apply Z.leb_le in B; lia).
  rewrite code_byte_chr by lia.
  replace (d =? 45) with false by (symmetry; apply Z.eqb_neq; lia).
  replace (d =? 43) with false by (symmetry; apply Z.eqb_neq; lia). cbn [orb].
  change (10 =? 0) with false. cbv iota. rewrite PL. rewrite <- E. cbn [negb andb].
  replace (9223372036854775808 <=? dval digs) with false; [reflexivity|].
  symmetry. apply Z.leb_gt. change (2 ^ 63) with 9223372036854775808 in Hb. exact Hb.
Qed.

(* (2b) hexadecimal: 0x / 0X, digits in either case, `_` anywhere after the prefix *)
Theorem classify_hex : forall pf x ds, mem x [120; 88] = true -> forallb is_hex_us ds = true ->
  filter not_us ds <> [] -> hexval (filter not_us ds) < 2 ^ 63 ->
  classify_number pf (utf8_encode (48 :: x :: ds)) = LitInt (hexval (filter not_us ds)).
Proof.
  intros pf x ds Hx Hds Hne Hb.
  assert (Hxa : is_ascii x = true) by (apply mem_In in Hx; cbn [In] in Hx; destruct Hx as [<-|[<-|[]]]; reflexivity).
  assert (Hxu : not_us x = true) by (apply mem_In in Hx; cbn [In] in Hx; destruct Hx as [<-|[<-|[]]]; reflexivity).
  assert (Hasc : forallb is_ascii (48 :: x :: ds) = true) by (cbn [forallb]; rewrite Hxa, (hex_us_ascii _ Hds); reflexivity).
  pose proof (filter_hex_us _ Hds) as Hdig.
  unfold classify_number. rewrite (remove_us_ascii _ Hasc).
  cbn [filter]. rewrite Hxu. change (not_us 48) with true. cbv iota.
  set (digs := filter not_us ds) in *.
  assert (Hda : forallb is_ascii (48 :: x :: digs) = true).
  { cbn [forallb]. rewrite Hxa. apply filter_ascii. apply (hex_us_ascii _ Hds). }
  rewrite (contains_any_ascii _ _ Hda). ev_rs. cbn [existsb]. rewrite Hx. cbn [orb mem Z.eqb Pos.eqb]. cbv iota.
  rewrite (utf8_encode_ascii 48 _ eq_refl), (utf8_encode_ascii x _ Hxa).
  pose proof (pu_loop_hex digs 0 Hdig) as PL. fold (hexval digs) in PL.
  assert (Hnn : 0 <= hexval digs).
  { unfold hexval. assert (G : forall l a, forallb is_hex l = true -> 0 <= a -> 0 <= fold_left (fun v d => v * 16 + digitVal d) l a).
    { induction l as [|c l IH]; intros a Hl Ha; [exact Ha|]. cbn [forallb] in Hl. apply andb_true_iff in Hl. destruct Hl as [Hc Hl].
      cbn [fold_left]. apply IH; [exact Hl|]. destruct (pu_digit_hex c Hc) as (_ & R & _). lia. }
    apply G; [exact Hdig|lia]. }
  destruct digs as [|c digs'] eqn:E; [congruence|]. rewrite <- E in *.
  unfold parse_int, parse_uint.
  rewrite (code_byte_chr 48) by lia. change (48 =? 45) with false. change (48 =? 43) with false. cbn [orb].
  change (0 =? 0) with true. change (48 =? 48) with true. cbv iota.
  rewrite code_byte_chr by (unfold is_ascii in Hxa; apply andb_true_iff in Hxa; destruct Hxa as [A B]; apply Z.leb_le in A; apply Z.ltb_lt in B; lia).
  assert (L3 : 3 <=? string_len (String (byte_chr 48) (String (byte_chr x) (utf8_encode digs))) = true).
  { rewrite E. assert (Hc : is_ascii c = true).
    { rewrite E in Hdig. cbn [forallb] in Hdig. apply andb_true_iff in Hdig. destruct Hdig as [Hc _]. apply is_hex_ascii. exact Hc. }
    rewrite (utf8_encode_ascii c _ Hc). unfold string_len. cbn [String.length]. apply Z.leb_le. lia. }
  rewrite L3. cbn [andb].
  apply mem_In in Hx. cbn [In] in Hx.
  destruct Hx as [<-|[<-|[]]]; rewrite ?(code_byte_chr 120), ?(code_byte_chr 88) by lia; cbv zeta;
    cbn [Z.leb Z.compare Pos.compare Pos.compare_cont andb Z.eqb Pos.eqb Z.add Pos.add Pos.succ]; cbv iota;
    rewrite PL; cbn [negb andb];
    (replace (9223372036854775808 <=? hexval digs) with false;
     [reflexivity|symmetry; apply Z.leb_gt; change (2 ^ 63) with 9223372036854775808 in Hb; exact Hb]).
Qed.

(* (3) floats: classified float; strconv.ParseFloat receives exactly the spelling without `_` *)
Definition float_sp (n : numsp) : bool :=
  match n with
  | NDec _ _ fr ex => match fr, ex with None, None => false | _, _ => true end
  | NDot _ _ _ => true
  | NHex _ _ => false
  end.

Ltac split_andb H := repeat match type of H with (?a && ?b = true) =>
  let K := fresh "K" in apply andb_true_iff in H; destruct H as [H K] end.

Definition float_rune (c : Z) : bool := is_dec_us c || mem c [46; 101; 69; 43; 45].

Lemma forallb_app_intro : forall (p : Z -> bool) a b, forallb p a = true -> forallb p b = true -> forallb p (a ++ b) = true.
Proof. intros. rewrite forallb_app, H, H0. reflexivity. Qed.

Lemma forallb_weaken : forall (p q : Z -> bool) l, (forall c, p c = true -> q c = true) -> forallb p l = true -> forallb q l = true.
Proof. intros p q l H Hl. rewrite forallb_forall in *. intros c Hc. apply H, Hl, Hc. Qed.

Lemma dec_us_float_rune : forall l, forallb is_dec_us l = true -> forallb float_rune l = true.
Proof. intros l. apply forallb_weaken. intros c H. unfold float_rune. rewrite H. reflexivity. Qed.

Lemma exp_runes_float : forall ex, exp_ok ex = true -> forallb float_rune (exp_runes ex) = true.
Proof.
  intros [[[e sg] es]|] H; [|reflexivity]. cbn [exp_ok exp_runes] in *.
  repeat (apply andb_true_iff in H; let K := fresh "K" in destruct H as [H K]).
  cbn [forallb]. apply andb_true_iff. split.
  - apply mem_In in H. cbn [In] in H. destruct H as [<-|[<-|[]]]; reflexivity.
  - apply forallb_app_intro; [|apply dec_us_float_rune; exact K0].
    destruct sg as [s|]; [|reflexivity]. cbn [sign_runes forallb]. apply mem_In in K1. cbn [In] in K1.
    destruct K1 as [<-|[<-|[]]]; reflexivity.
Qed.

Lemma frac_runes_float : forall fr, frac_ok fr = true -> forallb float_rune (frac_runes fr) = true.
Proof.
  intros [fs|] H; [|reflexivity]. cbn [frac_runes forallb frac_ok] in *. apply dec_us_float_rune. exact H.
Qed.

Lemma float_rune_facts : forall c, float_rune c = true ->
  is_ascii c = true /\ mem c [120; 88] = false.
Proof.
  intros c H. unfold float_rune in H. apply orb_true_iff in H. destruct H as [H|H].
  - unfold is_dec_us in H. apply orb_true_iff in H. destruct H as [H|H].
    + destruct (dec_cases c H) as [->|[->|[->|[->|[->|[->|[->|[->|[->| ->]]]]]]]]]; split; reflexivity.
    + apply Z.eqb_eq in H. subst. split; reflexivity.
  - apply mem_In in H. cbn [In] in H. destruct H as [<-|[<-|[<-|[<-|[<-|[]]]]]]; split; reflexivity.
Qed.

Theorem classify_float : forall pf n, num_ok n = true -> float_sp n = true ->
  classify_number pf (utf8_encode (num_runes n)) =
  match pf (utf8_encode (filter not_us (num_runes n))) with Some f => LitFloat f | None => LitErr end.
Proof.
  intros pf n Hok Hfl.
  assert (HA : forallb float_rune (num_runes n) = true).
  { destruct n as [d ds fr ex|d ds ex|x ds]; cbn [num_ok num_runes float_sp] in *; [| |discriminate].
    - split_andb Hok.
      cbn [forallb]. apply andb_true_iff. split; [unfold float_rune, is_dec_us; rewrite Hok; reflexivity|].
      apply forallb_app_intro; [apply dec_us_float_rune; exact K1|].
      apply forallb_app_intro; [apply frac_runes_float; exact K0|apply exp_runes_float; exact K].
    - split_andb Hok.
      cbn [forallb]. apply andb_true_iff. split; [reflexivity|].
      apply andb_true_iff. split; [unfold float_rune, is_dec_us; rewrite Hok; reflexivity|].
      apply forallb_app_intro; [apply dec_us_float_rune; exact K0|apply exp_runes_float; exact K]. }
  assert (Hasc : forallb is_ascii (num_runes n) = true).
  { revert HA. apply forallb_weaken. intros c Hc. apply (float_rune_facts c Hc). }
  assert (HM : exists c, In c (num_runes n) /\ mem c [46; 101; 69] = true).
  { destruct n as [d ds fr ex|d ds ex|x ds]; cbn [num_ok num_runes float_sp] in *; [| |discriminate].
    - destruct fr as [fs|].
      + exists 46. split; [|reflexivity]. right. apply in_or_app. right. cbn [frac_runes]. left. reflexivity.
      + destruct ex as [[[e sg] es]|]; [|discriminate].
        split_andb Hok.
        cbn [exp_ok] in K. split_andb K.
        exists e. split.
        * right. apply in_or_app. right. cbn [frac_runes exp_runes app]. left. reflexivity.
        * apply mem_In in K. cbn [In] in K. destruct K as [<-|[<-|[]]]; reflexivity.
    - exists 46. split; [left; reflexivity|reflexivity]. }
  unfold classify_number. rewrite (remove_us_ascii _ Hasc).
  rewrite !(contains_any_ascii _ _ (filter_ascii not_us _ Hasc)). ev_rs.
  replace (existsb (fun c => mem c [120; 88]) (filter not_us (num_runes n))) with false.
  2:{ symmetry. apply existsb_false. intros c Hc. apply filter_In in Hc. destruct Hc as [Hc _].
      rewrite forallb_forall in HA. apply (float_rune_facts c (HA c Hc)). }
  replace (existsb (fun c => mem c [46; 101; 69]) (filter not_us (num_runes n))) with true; [reflexivity|].
  symmetry. apply existsb_exists. destruct HM as (c & Hc & Hm). exists c. split; [|exact Hm].
  apply filter_In. split; [exact Hc|]. apply mem_In in Hm. cbn [In] in Hm. destruct Hm as [<-|[<-|[<-|[]]]]; reflexivity.
Qed.

(* ---- a number alone in the source: one Number token carrying the spelling *)
Theorem number_lexes : forall uni_letter uni_digit uni_space n, num_ok n = true ->
  lex uni_letter uni_digit uni_space (num_runes n) =
  LexOk [mkTok (1, 0) TkNumber (utf8_encode (num_runes n));
         mkTok (advance (1, 0) (removelast (num_runes n))) TkEOF EmptyString].
Proof.
  intros ul ud us n Hok.
  pose proof (positions_hold ul ud us [([], PNum n)] []) as P.
  cbn [layout layout_ok expected tok_runes tok_ok follow_ok tok_kind tok_value forallb app advance fold_left hd_okb] in P.
  rewrite app_nil_r in P. rewrite P.
  - f_equal. f_equal. f_equal. f_equal. unfold lastpos.
    pose proof (tok_runes_nonempty (PNum n)) as Hne. cbn [tok_runes] in Hne.
    destruct (num_runes n); [congruence|reflexivity].
  - rewrite Hok. reflexivity.
Qed.

(* canonical decimal spelling of n *)
Fixpoint dec_go (fuel : nat) (n : Z) (acc : list Z) : list Z :=
  match fuel with
  | O => acc
  | S f => if n <? 10 then (48 + n) :: acc else dec_go f (n / 10) ((48 + n mod 10) :: acc)
  end.
Definition dec_runes (n : Z) : list Z := dec_go 19 n [].

Lemma dec_go_spec : forall f n acc, (0 < f)%nat -> 0 <= n < 10 ^ Z.of_nat f -> forallb is_dec acc = true ->
  exists d ds, dec_go f n acc = d :: ds /\ is_dec d = true /\ forallb is_dec ds = true /\
               fold_left (fun a c => a * 10 + (c - 48)) (dec_go f n acc) 0 = fold_left (fun a c => a * 10 + (c - 48)) acc n.
Proof.
  induction f as [|f IH]; intros n acc Hf Hn Hacc; [lia|]. cbn [dec_go].
  destruct (Z.ltb_spec n 10).
  - exists (48 + n), acc. split; [reflexivity|]. split; [|split; [exact Hacc|]].
    + unfold is_dec. apply andb_true_iff. split; apply Z.leb_le; lia.
    + cbn [fold_left]. f_equal. lia.
  - assert (Hp : 10 ^ Z.of_nat (S f) = 10 * 10 ^ Z.of_nat f) by (rewrite Nat2Z.inj_succ, Z.pow_succ_r by lia; reflexivity).
    assert (Hq : 0 <= n / 10 < 10 ^ Z.of_nat f).
    { split; [apply Z.div_pos; lia|apply Z.div_lt_upper_bound; lia]. }
    assert (Hf' : (0 < f)%nat).
    { destruct f; [|lia]. cbn in Hq. assert (1 <= n / 10) by (apply Z.div_le_lower_bound; lia). lia. }
    assert (Hm : 0 <= n mod 10 < 10) by (apply Z.mod_pos_bound; lia).
    destruct (IH (n / 10) ((48 + n mod 10) :: acc) Hf' Hq) as (d & ds & E & Hd & Hds & V).
    { cbn [forallb]. rewrite Hacc. unfold is_dec. replace (48 <=? 48 + n mod 10) with true by (symmetry; apply Z.leb_le; lia).
      replace (48 + n mod 10 <=? 57) with true by (symmetry; apply Z.leb_le; lia). reflexivity. }
    exists d, ds. split; [exact E|]. split; [exact Hd|]. split; [exact Hds|].
    rewrite V. cbn [fold_left]. f_equal. pose proof (Z.div_mod n 10). lia.
Qed.

Lemma filter_not_us_dec : forall l, forallb is_dec l = true -> filter not_us l = l.
Proof.
  induction l as [|c l IH]; intros H; [reflexivity|]. cbn [forallb] in H. apply andb_true_iff in H. destruct H as [Hc H].
  cbn [filter]. unfold not_us at 1. replace (c =? 95) with false.
  - cbn [negb]. rewrite IH by exact H. reflexivity.
  - symmetry. apply Z.eqb_neq. unfold is_dec in Hc. apply andb_true_iff in Hc. destruct Hc as [A B]. apply Z.leb_le in B. lia.
Qed.

(* (2) every decimal spelling *)
Theorem int_dec_literal : forall uni_letter uni_digit uni_space pf d ds,
  is_dec d = true -> forallb is_dec_us ds = true -> dval (filter not_us (d :: ds)) < 2 ^ 63 ->
  lex uni_letter uni_digit uni_space (d :: ds) =
    LexOk [mkTok (1, 0) TkNumber (utf8_encode (d :: ds)); mkTok (advance (1, 0) (removelast (d :: ds))) TkEOF EmptyString] /\
  classify_number pf (utf8_encode (d :: ds)) = LitInt (dval (filter not_us (d :: ds))).
Proof.
  intros ul ud us pf d ds Hd Hds Hb. split; [|apply classify_dec; assumption].
  pose proof (number_lexes ul ud us (NDec d ds None None)) as P. cbn [num_runes frac_runes exp_runes num_ok frac_ok exp_ok] in P.
  rewrite !app_nil_r in P. apply P. rewrite Hd, Hds. reflexivity.
Qed.

Theorem int_dec_canonical : forall uni_letter uni_digit uni_space pf n, 0 <= n < 2 ^ 63 ->
  lex uni_letter uni_digit uni_space (dec_runes n) =
    LexOk [mkTok (1, 0) TkNumber (utf8_encode (dec_runes n)); mkTok (advance (1, 0) (removelast (dec_runes n))) TkEOF EmptyString] /\
  classify_number pf (utf8_encode (dec_runes n)) = LitInt n.
Proof.
  intros ul ud us pf n Hn. unfold dec_runes.
  destruct (dec_go_spec 19 n [] ltac:(lia)) as (d & ds & E & Hd & Hds & V); [|reflexivity|].
  { change (2 ^ 63) with 9223372036854775808 in Hn. change (10 ^ Z.of_nat 19) with 10000000000000000000. lia. }
  rewrite E in *. cbn [fold_left] in V.
  assert (Hds' : forallb is_dec_us ds = true) by (revert Hds; apply forallb_weaken; intros c Hc; unfold is_dec_us; rewrite Hc; reflexivity).
  assert (F : filter not_us (d :: ds) = d :: ds) by (apply filter_not_us_dec; cbn [forallb]; rewrite Hd, Hds; reflexivity).
  assert (Vn : dval (filter not_us (d :: ds)) = n) by (rewrite F; unfold dval; cbn [fold_left]; exact V).
  destruct (int_dec_literal ul ud us pf d ds Hd Hds') as [L C]; [rewrite Vn; lia|].
  split; [exact L|]. rewrite C, Vn. reflexivity.
Qed.

(* (2) every hexadecimal spelling *)
Theorem int_hex_literal : forall uni_letter uni_digit uni_space pf x ds,
  mem x [120; 88] = true -> forallb is_hex_us ds = true -> filter not_us ds <> [] -> hexval (filter not_us ds) < 2 ^ 63 ->
  lex uni_letter uni_digit uni_space (48 :: x :: ds) =
    LexOk [mkTok (1, 0) TkNumber (utf8_encode (48 :: x :: ds)); mkTok (advance (1, 0) (removelast (48 :: x :: ds))) TkEOF EmptyString] /\
  classify_number pf (utf8_encode (48 :: x :: ds)) = LitInt (hexval (filter not_us ds)).
Proof.
  intros ul ud us pf x ds Hx Hds Hne Hb. split; [|apply classify_hex; assumption].
  apply (number_lexes ul ud us (NHex x ds)). cbn [num_ok]. rewrite Hx, Hds. reflexivity.
Qed.

(* (3) every decimal / leading-dot / exponent float spelling *)
Theorem float_literal : forall uni_letter uni_digit uni_space pf n, num_ok n = true -> float_sp n = true ->
  lex uni_letter uni_digit uni_space (num_runes n) =
    LexOk [mkTok (1, 0) TkNumber (utf8_encode (num_runes n)); mkTok (advance (1, 0) (removelast (num_runes n))) TkEOF EmptyString] /\
  classify_number pf (utf8_encode (num_runes n)) =
    match pf (utf8_encode (filter not_us (num_runes n))) with Some f => LitFloat f | None => LitErr end.
Proof.
  intros ul ud us pf n Hok Hfl. split; [apply number_lexes; exact Hok|apply classify_float; assumption].
Qed.

(* canonical hexadecimal spelling 0x... of n (lower-case digits) *)
Fixpoint hex_go (fuel : nat) (n : Z) (acc : list Z) : list Z :=
  match fuel with
  | O => acc
  | S f => if n <? 16 then hexdigit n :: acc else hex_go f (n / 16) (hexdigit (n mod 16) :: acc)
  end.
Definition hex_runes (n : Z) : list Z := 48 :: 120 :: hex_go 16 n [].

Lemma hex_go_spec : forall f n acc, (0 < f)%nat -> 0 <= n < 16 ^ Z.of_nat f -> forallb is_hex acc = true ->
  hex_go f n acc <> [] /\ forallb is_hex (hex_go f n acc) = true /\
  fold_left (fun v d => v * 16 + digitVal d) (hex_go f n acc) 0 = fold_left (fun v d => v * 16 + digitVal d) acc n.
Proof.
  induction f as [|f IH]; intros n acc Hf Hn Hacc; [lia|]. cbn [hex_go].
  destruct (Z.ltb_spec n 16).
  - destruct (hexdigit_ok n ltac:(lia)) as [A B]. split; [congruence|]. split.
    + cbn [forallb]. rewrite A, Hacc. reflexivity.
    + cbn [fold_left]. rewrite B. f_equal.
  - assert (Hp : 16 ^ Z.of_nat (S f) = 16 * 16 ^ Z.of_nat f) by (rewrite Nat2Z.inj_succ, Z.pow_succ_r by lia; reflexivity).
    assert (Hq : 0 <= n / 16 < 16 ^ Z.of_nat f).
    { split; [apply Z.div_pos; lia|apply Z.div_lt_upper_bound; lia]. }
    assert (Hf' : (0 < f)%nat).
    { destruct f; [|lia]. cbn in Hq. assert (1 <= n / 16) by (apply Z.div_le_lower_bound; lia). lia. }
    assert (Hm : 0 <= n mod 16 < 16) by (apply Z.mod_pos_bound; lia).
    destruct (hexdigit_ok _ Hm) as [A B].
    destruct (IH (n / 16) (hexdigit (n mod 16) :: acc) Hf' Hq) as (Hne & Hds & V).
    { cbn [forallb]. rewrite A, Hacc. reflexivity. }
    split; [exact Hne|]. split; [exact Hds|].
    rewrite V. cbn [fold_left]. rewrite B. f_equal. pose proof (Z.div_mod n 16). lia.
Qed.

Lemma filter_not_us_hex : forall l, forallb is_hex l = true -> filter not_us l = l.
Proof.
  induction l as [|c l IH]; intros H; [reflexivity|]. cbn [forallb] in H. apply andb_true_iff in H. destruct H as [Hc H].
  cbn [filter]. unfold not_us at 1. replace (c =? 95) with false.
  - cbn [negb]. rewrite IH by exact H. reflexivity.
  - symmetry. apply Z.eqb_neq. intros ->. discriminate.
Qed.

Theorem int_hex_canonical : forall uni_letter uni_digit uni_space pf n, 0 <= n < 2 ^ 63 ->
  lex uni_letter uni_digit uni_space (hex_runes n) =
    LexOk [mkTok (1, 0) TkNumber (utf8_encode (hex_runes n)); mkTok (advance (1, 0) (removelast (hex_runes n))) TkEOF EmptyString] /\
  classify_number pf (utf8_encode (hex_runes n)) = LitInt n.
Proof.
  intros ul ud us pf n Hn. unfold hex_runes.
  destruct (hex_go_spec 16 n [] ltac:(lia)) as (Hne & Hds & V); [|reflexivity|].
  { change (2 ^ 63) with 9223372036854775808 in Hn. change (16 ^ Z.of_nat 16) with 18446744073709551616. lia. }
  cbn [fold_left] in V.
  assert (Hds' : forallb is_hex_us (hex_go 16 n []) = true).
  { revert Hds. apply forallb_weaken. intros c Hc. unfold is_hex_us. rewrite Hc. reflexivity. }
  pose proof (filter_not_us_hex _ Hds) as F.
  destruct (int_hex_literal ul ud us pf 120 (hex_go 16 n []) eq_refl Hds') as [L C].
  - rewrite F. exact Hne.
  - rewrite F. unfold hexval. rewrite V. lia.
  - split; [exact L|]. rewrite C, F. unfold hexval. rewrite V. reflexivity.
Qed.

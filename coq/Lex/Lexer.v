(* Lex/Lexer.v — executable model of parser/lexer/{lexer,state,utils}.go and of the number-literal
   classification of parser/parser.go parsePrimaryExpression (case Number).

   Source text = list of runes (Z code points).  file.NewSource converts its argument with
   []rune(..) and Content() re-encodes it, so the lexer only ever sees valid UTF-8: byte offsets
   `start`, `end`, `width` of the Go struct are modelled at rune granularity:
     l_rest  = input[end:]                     (runes not yet read)
     l_word  = input[start:end], REVERSED      (what word() returns, newest rune first)
     l_width = 0 after an eof `next`, 1 after a successful one (Go: the byte width of that rune)
   Every `backup` of the Go code directly follows a `next` of the same word, so `end -= width`
   never moves `end` before `start`; the zipper (l_word, l_rest) represents it exactly.
   Token values are Go strings = UTF-8 bytes (Coq `string`).  No proofs in this file. *)
From Coq Require Import ZArith List Bool String Ascii Floats.
Require Import X.Base.Value X.Syn.Tok.
Import ListNotations.
Open Scope Z_scope.

(* ------------------------------------------------------------------ runes, bytes, UTF-8 *)
Definition eof : Z := -1.

Definition byte_chr (b : Z) : ascii := ascii_of_N (Z.to_N (b mod 256)).
Fixpoint bytes_to_string (l : list Z) : string :=
  match l with [] => EmptyString | b :: r => String (byte_chr b) (bytes_to_string r) end.

Definition valid_scalar (r : Z) : bool :=
  ((0 <=? r) && (r <? 55296)) || ((57343 <? r) && (r <=? 1114111)).

(* utf8.EncodeRune / string(rune): surrogates and out-of-range values become U+FFFD *)
Definition utf8_bytes (r : Z) : list Z :=
  if valid_scalar r then
    if r <? 128 then [r]
    else if r <? 2048 then [192 + r / 64; 128 + r mod 64]
    else if r <? 65536 then [224 + r / 4096; 128 + (r / 64) mod 64; 128 + r mod 64]
    else [240 + r / 262144; 128 + (r / 4096) mod 64; 128 + (r / 64) mod 64; 128 + r mod 64]
  else [239; 191; 189].

Fixpoint utf8_encode (l : list Z) : string :=
  match l with
  | [] => EmptyString
  | r :: t => (bytes_to_string (utf8_bytes r) ++ utf8_encode t)%string
  end.

(* an ASCII constant as a rune list, e.g. rs "xX" = [120; 88] *)
Definition rs (s : string) : list Z := map (fun a => Z.of_N (N_of_ascii a)) (list_ascii_of_string s).

(* strings.ContainsRune(valid, r) for an ASCII `valid`; eof (-1) is never contained *)
Fixpoint mem (r : Z) (l : list Z) : bool :=
  match l with [] => false | x :: t => (r =? x) || mem r t end.

Fixpoint runes_eqb (a b : list Z) : bool :=
  match a, b with
  | [], [] => true
  | x :: a', y :: b' => (x =? y) && runes_eqb a' b'
  | _, _ => false
  end.

(* ------------------------------------------------------------------ lexer state *)
Record lexer := mkLexer {
  l_rest : list Z;
  l_word : list Z;
  l_width : Z;
  l_startLoc : loc;
  l_prev : loc;
  l_loc : loc;
  l_tokens : list token;       (* newest first *)
  l_err : option loc           (* location of the first error *)
}.

Definition adv_loc (p : loc) (r : Z) : loc :=
  if r =? 10 then (fst p + 1, 0) else (fst p, snd p + 1).

Definition next (l : lexer) : Z * lexer :=
  match l_rest l with
  | [] => (eof, mkLexer [] (l_word l) 0 (l_startLoc l) (l_prev l) (l_loc l) (l_tokens l) (l_err l))
  | r :: t => (r, mkLexer t (r :: l_word l) 1 (l_startLoc l) (l_loc l) (adv_loc (l_loc l) r) (l_tokens l) (l_err l))
  end.

(* l.end -= l.width; l.loc = l.prev *)
Definition backup (l : lexer) : lexer :=
  if l_width l =? 0 then
    mkLexer (l_rest l) (l_word l) (l_width l) (l_startLoc l) (l_prev l) (l_prev l) (l_tokens l) (l_err l)
  else
    match l_word l with
    | r :: w => mkLexer (r :: l_rest l) w (l_width l) (l_startLoc l) (l_prev l) (l_prev l) (l_tokens l) (l_err l)
    | [] => mkLexer (l_rest l) [] (l_width l) (l_startLoc l) (l_prev l) (l_prev l) (l_tokens l) (l_err l)
    end.

Definition peek (l : lexer) : Z * lexer :=
  let (r, l1) := next l in (r, backup l1).

Definition word (l : lexer) : list Z := rev (l_word l).

Definition emitValue (k : tkind) (v : string) (l : lexer) : lexer :=
  mkLexer (l_rest l) [] (l_width l) (l_loc l) (l_prev l) (l_loc l)
          (mkTok (l_startLoc l) k v :: l_tokens l) (l_err l).

Definition emit (k : tkind) (l : lexer) : lexer := emitValue k (utf8_encode (word l)) l.

(* the EOF token is located at l.prev ("for better error messages") *)
Definition emitEOF (l : lexer) : lexer :=
  mkLexer (l_rest l) [] (l_width l) (l_loc l) (l_prev l) (l_loc l)
          (mkTok (l_prev l) TkEOF EmptyString :: l_tokens l) (l_err l).

Definition ignore (l : lexer) : lexer :=
  mkLexer (l_rest l) [] (l_width l) (l_loc l) (l_prev l) (l_loc l) (l_tokens l) (l_err l).

(* l.error: keeps the first error, located at l.loc *)
Definition set_error (l : lexer) : lexer :=
  match l_err l with
  | Some _ => l
  | None => mkLexer (l_rest l) (l_word l) (l_width l) (l_startLoc l) (l_prev l) (l_loc l) (l_tokens l) (Some (l_loc l))
  end.

Definition accept (valid : list Z) (l : lexer) : bool * lexer :=
  let (r, l1) := next l in
  if mem r valid then (true, l1) else (false, backup l1).

(* the loop `for p(l.next()) {}; l.backup()` shared by acceptRun and identifier *)
Fixpoint run_while (p : Z -> bool) (fuel : nat) (l : lexer) : lexer :=
  match fuel with
  | O => l
  | S f => let (r, l1) := next l in
           if p r then run_while p f l1 else backup l1
  end.
(* one iteration per remaining rune plus the terminating one *)
Definition acceptRun (valid : list Z) (l : lexer) : lexer :=
  run_while (fun r => mem r valid) (S (List.length (l_rest l))) l.

(* l.end, l.loc, l.prev = pos, loc, prev   (saved from state `saved`) *)
Definition restore (saved l : lexer) : lexer :=
  mkLexer (l_rest saved) (l_word saved) (l_width l) (l_startLoc l) (l_prev saved) (l_loc saved) (l_tokens l) (l_err l).

(* ------------------------------------------------------------------ strings *)
Definition digitVal (ch : Z) : Z :=
  if (48 <=? ch) && (ch <=? 57) then ch - 48
  else if (97 <=? ch) && (ch <=? 102) then ch - 97 + 10
  else if (65 <=? ch) && (ch <=? 70) then ch - 65 + 10      (* lower(ch) = ch | 0x20 *)
  else 16.

Fixpoint scanDigits (ch base : Z) (n : nat) (l : lexer) : Z * lexer :=
  match n with
  | O => (ch, l)
  | S n' => if digitVal ch <? base
            then let (ch', l') := next l in scanDigits ch' base n' l'
            else (ch, set_error l)
  end.

Definition scanEscape (quote : Z) (l : lexer) : Z * lexer :=
  let (ch, l1) := next l in
  if mem ch (rs "abfnrtv\") || (ch =? quote) then next l1
  else if mem ch (rs "01234567") then scanDigits ch 8 3 l1
  else if ch =? 120 then let (c, l2) := next l1 in scanDigits c 16 2 l2
  else if ch =? 117 then let (c, l2) := next l1 in scanDigits c 16 4 l2
  else if ch =? 85 then let (c, l2) := next l1 in scanDigits c 16 8 l2
  else (ch, set_error l1).

(* the loop of scanString; `ch` is the rune read last *)
Fixpoint scanString_go (fuel : nat) (quote ch : Z) (l : lexer) : lexer :=
  match fuel with
  | O => l
  | S f =>
    if ch =? quote then l
    else if (ch =? 10) || (ch =? eof) then set_error l
    else if ch =? 92 then let (ch', l') := scanEscape quote l in scanString_go f quote ch' l'
    else let (ch', l') := next l in scanString_go f quote ch' l'
  end.
Definition scanString (quote : Z) (l : lexer) : lexer :=
  let (ch, l1) := next l in
  scanString_go (S (S (List.length (l_rest l1)))) quote ch l1.

(* utils.go: newlineNormalizer = strings.NewReplacer("\r\n", "\n", "\r", "\n") *)
Fixpoint normalize_newlines (s : list Z) : list Z :=
  match s with
  | [] => []
  | c :: t =>
    if c =? 13 then
      match t with
      | c2 :: t2 => if c2 =? 10 then 10 :: normalize_newlines t2 else 10 :: normalize_newlines t
      | [] => [10]
      end
    else c :: normalize_newlines t
  end.

Definition unhex (c : Z) : option Z :=
  if (48 <=? c) && (c <=? 57) then Some (c - 48)
  else if (97 <=? c) && (c <=? 102) then Some (c - 97 + 10)
  else if (65 <=? c) && (c <=? 70) then Some (c - 65 + 10)
  else None.

Fixpoint hex_take (n : nat) (v : Z) (s : list Z) : option (Z * list Z) :=
  match n with
  | O => Some (v, s)
  | S n' => match s with
            | [] => None
            | c :: t => match unhex c with Some x => hex_take n' (v * 16 + x) t | None => None end
            end
  end.

(* unescapeChar at rune level: (value, multibyte, tail); None = error.  The Go code indexes bytes:
   a rune >= 128 starts with a byte >= 0x80, which matches exactly the cases a rune >= 128 matches here. *)
Definition unescapeChar (s : list Z) : option (Z * bool * list Z) :=
  match s with
  | [] => None
  | c :: t =>
    if 128 <=? c then Some (c, true, t)
    else if negb (c =? 92) then Some (c, false, t)
    else match t with
         | [] => None
         | e :: s2 =>
           if e =? 97 then Some (7, false, s2)            (* \a *)
           else if e =? 98 then Some (8, false, s2)       (* \b *)
           else if e =? 102 then Some (12, false, s2)     (* \f *)
           else if e =? 110 then Some (10, false, s2)     (* \n *)
           else if e =? 114 then Some (13, false, s2)     (* \r *)
           else if e =? 116 then Some (9, false, s2)      (* \t *)
           else if e =? 118 then Some (11, false, s2)     (* \v *)
           else if e =? 92 then Some (92, false, s2)
           else if e =? 39 then Some (39, false, s2)
           else if e =? 34 then Some (34, false, s2)
           else if e =? 96 then Some (96, false, s2)
           else if e =? 63 then Some (63, false, s2)
           else if (e =? 120) || (e =? 88) || (e =? 117) || (e =? 85) then
             let n := if (e =? 120) || (e =? 88) then 2%nat else if e =? 117 then 4%nat else 8%nat in
             match hex_take n 0 s2 with
             | Some (v, s3) => if 1114111 <? v then None else Some (v, true, s3)
             | None => None
             end
           else if (48 <=? e) && (e <=? 51) then
             match s2 with
             | x1 :: x2 :: s3 =>
               if (48 <=? x1) && (x1 <=? 55) && (48 <=? x2) && (x2 <=? 55)
               then Some (((e - 48) * 8 + (x1 - 48)) * 8 + (x2 - 48), true, s3)
               else None
             | _ => None
             end
           else None
         end
  end.

(* bytes appended to buf for one unescaped character *)
Definition uchar_bytes (v : Z) (multibyte : bool) : list Z :=
  if (v <? 128) || negb multibyte then [v mod 256] else utf8_bytes v.

Fixpoint unescape_go (fuel : nat) (s : list Z) : option (list Z) :=
  match s with
  | [] => Some []
  | _ => match fuel with
         | O => None
         | S f => match unescapeChar s with
                  | None => None
                  | Some (v, mb, t) =>
                    match unescape_go f t with
                    | Some bs => Some (uchar_bytes v mb ++ bs)
                    | None => None
                    end
                  end
         end
  end.

Definition unescape (value : list Z) : option string :=
  let v := normalize_newlines value in
  match v with
  | q :: (_ :: _) as t =>
    if ((q =? 34) || (q =? 39)) && (last t 0 =? q) then
      let body := removelast t in
      match unescape_go (List.length body) body with
      | Some bs => Some (bytes_to_string bs)
      | None => None
      end
    else None
  | _ => None
  end.

(* ------------------------------------------------------------------ state functions *)
Inductive stfn := SRoot | SNumber | SDot | SNilsafe | SIdentifier | SNot.

Section Lexer.
  (* unicode.IsLetter / IsDigit / IsSpace on code points >= 128: oracle arguments *)
  Variables uni_letter uni_digit uni_space : Z -> bool.

  Definition is_space (r : Z) : bool :=
    if r <? 0 then false
    else if r <? 128 then (r =? 9) || (r =? 10) || (r =? 11) || (r =? 12) || (r =? 13) || (r =? 32)
    else uni_space r.
  Definition is_letter (r : Z) : bool :=
    if r <? 0 then false
    else if r <? 128 then ((65 <=? r) && (r <=? 90)) || ((97 <=? r) && (r <=? 122))
    else uni_letter r.
  Definition is_digit (r : Z) : bool :=
    if r <? 0 then false
    else if r <? 128 then (48 <=? r) && (r <=? 57)
    else uni_digit r.
  Definition is_alphabetic (r : Z) : bool := (r =? 95) || (r =? 36) || is_letter r.
  Definition is_alnum (r : Z) : bool := is_alphabetic r || is_digit r.

  Definition dec_digits := rs "0123456789_".
  Definition hex_digits := rs "0123456789abcdefABCDEF_".
  Definition oct_digits := rs "01234567_".
  Definition bin_digits := rs "01_".

  (* the tail of scanNumber after the optional fraction *)
  Definition scanNumber_exp (digits : list Z) (l : lexer) : bool * lexer :=
    let (e, l1) := accept (rs "eE") l in
    let l2 := if e then acceptRun digits (snd (accept (rs "+-") l1)) else l1 in
    let (p, l3) := peek l2 in
    if is_alnum p then (false, snd (next l3)) else (true, l3).

  (* after the integer part: optional fraction with the `..` look-ahead *)
  Definition scanNumber_frac (digits : list Z) (l3 : lexer) : bool * lexer :=
    let (d, l4) := accept (rs ".") l3 in
    if d then
      let (p, l5) := peek l4 in
      if p =? 46 then (true, restore l3 l5)
      else scanNumber_exp digits (acceptRun digits l5)
    else scanNumber_exp digits l4.

  (* "Is it hex?": the digit alphabet chosen by the prefix *)
  Definition scanNumber_prefix (l : lexer) : list Z * lexer :=
    let (z, l1) := accept (rs "0") l in
    if z then
      let (x, l2) := accept (rs "xX") l1 in
      if x then (hex_digits, l2) else
      let (o, l3) := accept (rs "oO") l2 in
      if o then (oct_digits, l3) else
      let (b, l4) := accept (rs "bB") l3 in
      if b then (bin_digits, l4) else (dec_digits, l4)
    else (dec_digits, l1).

  Definition scanNumber (l : lexer) : bool * lexer :=
    let '(digits, l2) := scanNumber_prefix l in
    scanNumber_frac digits (acceptRun digits l2).

  Definition word_operators : list (list Z) :=
    [rs "in"; rs "or"; rs "and"; rs "matches"; rs "contains"; rs "startsWith"; rs "endsWith"].

  Fixpoint skip_spaces (fuel : nat) (l : lexer) : lexer :=
    match fuel with
    | O => l
    | S f => let (r, l1) := peek l in
             if r =? 32 then skip_spaces f (snd (next l1)) else l1
    end.

  Fixpoint expect_word (w : list Z) (l : lexer) : bool * lexer :=
    match w with
    | [] => (true, l)
    | ch :: w' => let (r, l1) := next l in
                  if r =? ch then expect_word w' l1 else (false, l1)
    end.

  Definition acceptWord (w : list Z) (l : lexer) : bool * lexer :=
    let l1 := skip_spaces (S (List.length (l_rest l))) l in
    let (ok, l2) := expect_word w l1 in
    if ok then
      let (r, l3) := peek l2 in
      if negb (r =? 32) && negb (r =? eof) then (false, restore l l3) else (true, l3)
    else (false, restore l l2).

  (* one call of a state function: next state function (None = nil) and new state *)
  Definition step (st : stfn) (l : lexer) : option stfn * lexer :=
    match st with
    | SRoot =>
      let (r, l1) := next l in
      if r =? eof then (None, emitEOF l1)
      else if is_space r then (Some SRoot, ignore l1)
      else if (r =? 39) || (r =? 34) then
        let l2 := scanString r l1 in
        match unescape (word l2) with
        | Some str => (Some SRoot, emitValue TkString str l2)
        | None => (Some SRoot, emitValue TkString EmptyString (set_error l2))   (* value not observable: Lex returns the error *)
        end
      else if (48 <=? r) && (r <=? 57) then (Some SNumber, backup l1)
      else if r =? 63 then
        let (p, l2) := peek l1 in
        if p =? 46 then (Some SNilsafe, l2) else (Some SRoot, emit TkOperator l2)
      else if mem r (rs "([{") then (Some SRoot, emit TkBracket l1)
      else if mem r (rs ")]}") then (Some SRoot, emit TkBracket l1)
      else if mem r (rs "#,?:%+-/") then (Some SRoot, emit TkOperator l1)
      else if mem r (rs "&|!=*<>") then (Some SRoot, emit TkOperator (snd (accept (rs "&|=*") l1)))
      else if r =? 46 then (Some SDot, backup l1)
      else if is_alnum r then (Some SIdentifier, backup l1)
      else (None, set_error l1)
    | SNumber =>
      let (ok, l1) := scanNumber l in
      if ok then (Some SRoot, emit TkNumber l1) else (None, set_error l1)
    | SDot =>
      let (_, l1) := next l in
      let (d, l2) := accept (rs "0123456789") l1 in
      if d then (Some SNumber, backup l2)
      else (Some SRoot, emit TkOperator (snd (accept (rs ".") l2)))
    | SNilsafe =>
      let (_, l1) := next l in
      (Some SRoot, emit TkOperator (snd (accept (rs "?.") l1)))
    | SIdentifier =>
      let l1 := run_while is_alnum (S (List.length (l_rest l))) l in
      if runes_eqb (word l1) (rs "not") then (Some SNot, l1)
      else if existsb (runes_eqb (word l1)) word_operators then (Some SRoot, emit TkOperator l1)
      else (Some SRoot, emit TkIdentifier l1)
    | SNot =>
      let (ok, l1) := acceptWord (rs "in") l in
      if ok then (Some SRoot, emitValue TkOperator "not in" l1)
      else (Some SRoot, emitValue TkOperator "not" l1)
    end.

  (* for state := root; state != nil; { state = state(l) } *)
  Fixpoint lex_fuel (fuel : nat) (st : stfn) (l : lexer) : option lexer :=
    match fuel with
    | O => None
    | S f => match step st l with
             | (None, l') => Some l'
             | (Some st', l') => lex_fuel f st' l'
             end
    end.

  Inductive lex_result := LexOk (ts : list token) | LexErr (at_ : loc) | LexOutOfFuel.

  Definition init (input : list Z) : lexer :=
    mkLexer input [] 0 (1, 0) (1, 0) (1, 0) [] None.

  (* every call of a state function reads at least one rune, except root -> number/dot/identifier
     hand-overs (one extra call per token) and the final call *)
  Definition lex (input : list Z) : lex_result :=
    match lex_fuel (2 * List.length input + 2) SRoot (init input) with
    | None => LexOutOfFuel
    | Some l => match l_err l with
                | Some e => LexErr e
                | None => LexOk (rev (l_tokens l))
                end
    end.
End Lexer.

(* ------------------------------------------------------------------ number literals (parser.go) *)
Definition chr (n : Z) : ascii := byte_chr n.
Definition code (a : ascii) : Z := Z.of_N (N_of_ascii a).

Fixpoint remove_underscores (s : string) : string :=
  match s with
  | EmptyString => EmptyString
  | String a t => if code a =? 95 then remove_underscores t else String a (remove_underscores t)
  end.

(* strings.ContainsAny(s, chars) for ASCII chars *)
Fixpoint contains_any (s : string) (chars : list Z) : bool :=
  match s with
  | EmptyString => false
  | String a t => mem (code a) chars || contains_any t chars
  end.

(* digit value inside strconv.ParseUint: 0-9, a-z, A-Z; None = syntax error *)
Definition pu_digit (c : Z) : option Z :=
  if (48 <=? c) && (c <=? 57) then Some (c - 48)
  else if (97 <=? c) && (c <=? 122) then Some (c - 97 + 10)
  else if (65 <=? c) && (c <=? 90) then Some (c - 65 + 10)
  else None.

(* the digit loop of ParseUint; `_` is skipped when base0 (underscoreOK is checked separately and
   is irrelevant here: parsePrimaryExpression removes every `_` before calling ParseInt) *)
Fixpoint pu_loop (base : Z) (base0 : bool) (s : string) (n : Z) : option Z :=
  match s with
  | EmptyString => Some n
  | String a t =>
    let c := code a in
    if (c =? 95) && base0 then None    (* cannot occur after strings.Replace(.., "_", "") ; Go would go on to underscoreOK *)
    else match pu_digit c with
         | None => None
         | Some d => if base <=? d then None else pu_loop base base0 t (n * base + d)
         end
  end.

Definition string_len (s : string) : Z := Z.of_nat (String.length s).

(* strconv.ParseUint(s, base, 64) for base = 10 and base = 0; None = any error.
   The accumulator is unbounded here; Go stops with ErrRange as soon as the value would leave
   uint64, which is an error for ParseInt as well, so the outcome class is the same. *)
Definition parse_uint (base : Z) (s : string) : option Z :=
  match s with
  | EmptyString => None
  | String a0 t0 =>
    if base =? 0 then
      if code a0 =? 48 then
        match t0 with
        | String a1 t1 =>
          let c1 := code a1 in
          let lc := if (65 <=? c1) && (c1 <=? 90) then c1 + 32 else c1 in
          if (3 <=? string_len s) && (lc =? 98) then pu_loop 2 true t1 0
          else if (3 <=? string_len s) && (lc =? 111) then pu_loop 8 true t1 0
          else if (3 <=? string_len s) && (lc =? 120) then pu_loop 16 true t1 0
          else pu_loop 8 true t0 0
        | EmptyString => pu_loop 8 true t0 0
        end
      else pu_loop 10 true s 0
    else pu_loop base false s 0
  end.

(* strconv.ParseInt(s, base, 64): sign, then ParseUint, then the 2^63 bound *)
Definition parse_int (base : Z) (s : string) : option Z :=
  match s with
  | EmptyString => None
  | String a0 t0 =>
    let neg := code a0 =? 45 in
    let s' := if (code a0 =? 43) || neg then t0 else s in
    match parse_uint base s' with
    | None => None
    | Some un =>
      if negb neg && (9223372036854775808 <=? un) then None
      else if neg && (9223372036854775808 <? un) then None
      else Some (if neg then - un else un)
    end
  end.

Inductive literal := LitInt (n : Z) | LitFloat (f : float) | LitErr.

Section Literal.
  (* strconv.ParseFloat(s, 64): oracle; None = error (syntax or range) *)
  Variable parse_float : string -> option float.

  Definition classify_number (tokval : string) : literal :=
    let value := remove_underscores tokval in
    if contains_any value (rs "xX") then
      match parse_int 0 value with Some n => LitInt n | None => LitErr end
    else if contains_any value (rs ".eE") then
      match parse_float value with Some f => LitFloat f | None => LitErr end
    else
      match parse_int 10 value with Some n => LitInt n | None => LitErr end.
End Literal.
